#!/usr/bin/env python3
"""corpus_from_seeded.py: copy the minimised failing history of every confirmed seeded change into corpus/<property>/
(regression corpus: these histories run first on every check; they pass on the unchanged tree)."""
import json, os, glob, re
ROOT = os.path.dirname(os.path.dirname(os.path.abspath(__file__)))
n = 0
for rp in sorted(glob.glob(os.path.join(ROOT, "seeded", "*", "replay-C*.json"))):
    d = json.load(open(rp))
    sid = os.path.basename(os.path.dirname(rp))
    prop = re.search(r"replay-(C\d\d)\.json", rp).group(1)
    if not d.get("header") or not d.get("ops") or d.get("kind") == "special" or d.get("attributes", {}).get("engine"):
        continue
    # a crash replay can hold several histories (the batch that brought the process down): one corpus file each
    parts = [[d["header"]]]
    for o in d["ops"]:
        if o.startswith("# "):
            parts.append([o])
        else:
            parts[-1].append(o)
    if len(parts) > 4:
        continue   # a whole batch, not a minimised input
    os.makedirs(os.path.join(ROOT, "corpus", prop), exist_ok=True)
    for i, part in enumerate(parts):
        hdr = part[0].split()
        suf = "" if len(parts) == 1 else "-%d" % i
        hdr[1] = "seeded-%s-%s%s" % (sid, prop, suf)
        out = os.path.join(ROOT, "corpus", prop, "seeded-%s%s.hist" % (sid, suf))
        open(out, "w").write(" ".join(hdr) + "\n" + "\n".join(part[1:]) + "\n")
        n += 1
print(n, "corpus histories written")
