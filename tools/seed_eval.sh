#!/bin/bash
# seed_eval.sh <seed-id> <worktree> <property> [more properties...]: confirm a seeded change and run checks against it
set -u
export GOFLAGS=-mod=mod GOPROXY=off GOSUMDB=off GOTOOLCHAIN=local
ID=$1; WT=$2; shift 2
D=/verif/seeded/$ID; mkdir -p $D
cp $WT/patch.diff $D/patch.diff; cp $WT/demo_test.go $D/demo_test.go.txt; cp $WT/NOTES.md $D/NOTES.md 2>/dev/null
cd $WT && git checkout -q -- . && git checkout -q --detach $(git -C /repo rev-parse HEAD) 2>/dev/null
mv demo_test.go /tmp/demo_$ID.go
if ! git apply --check $D/patch.diff 2>/dev/null; then echo "PATCH DOES NOT APPLY to current HEAD"; SUITE=noapply; else
git apply $D/patch.diff
SUITE=$(go test -vet=off -count=1 ./... 2>&1 | grep -c "^ok")
cp /tmp/demo_$ID.go demo_test.go
DEMO_WITH=$(go test -vet=off -count=1 -run TestDemo . 2>&1 | tail -1 | awk '{print $1}')
git checkout -q -- .
DEMO_WITHOUT=$(go test -vet=off -count=1 -run TestDemo . 2>&1 | tail -1 | awk '{print $1}')
rm -f demo_test.go
fi
echo "suite ok packages: $SUITE (expect 4); demo with patch: ${DEMO_WITH:-?} (expect FAIL); demo without: ${DEMO_WITHOUT:-?} (expect ok)"
cd /verif
git -C /repo apply $D/patch.diff || exit 1
RES=""
for P in "$@"; do
  OUT=$(./check $P 2>&1 | tail -3)
  V=$(echo "$OUT" | grep "^VIOLATION" | grep -vc -- "-proof.json")
  LINE=$(echo "$OUT" | grep "^VIOLATION" | head -1)
  echo "check $P on seeded tree: $([ $V -gt 0 ] && echo DETECTED || echo MISSED)  $LINE"
  echo "$OUT" | grep -v "^VIOLATION" | tail -2 | cut -c1-400
  RES="$RES $P:$([ $V -gt 0 ] && echo detected || echo missed)"
  if [ $V -gt 0 ]; then RP=$(echo "$LINE" | sed 's/.*replay=\([^ ]*\).*/\1/'); cp "$RP" $D/replay-$P.json 2>/dev/null; fi
done
git -C /repo checkout -- .
python3 - <<PY
import json
json.dump({"id":"$ID","suite_ok_packages":"$SUITE","demo_with_patch":"${DEMO_WITH:-}","demo_without_patch":"${DEMO_WITHOUT:-}","checks":"$RES".split()}, open("$D/result.json","w"), indent=1)
PY
