#!/usr/bin/env python3
"""Writes MANIFEST.json from the table below (claimed checks) and properties.jsonl (ids)."""
import json, os
ROOT = os.path.dirname(os.path.dirname(os.path.abspath(__file__)))
NOTE = ("Trusted base: Coq 8.16.1 kernel (coqc; coqchk in the thorough tier); no axioms (every property theorem prints 'Closed under "
        "the global context'); vm_compute only in test-vector / witness Examples; extraction with ExtrOcamlBasic only + ocaml/driver.ml; "
        "the hand-written Gallina model (coq/*.v) is tied to /repo by the correspondence check (generated histories run by the Go harness "
        "through the public API and by the extracted model, projected observables compared; differential testing, not proof); modelled "
        "rather than verified: Go runtime / memory model, exclusive ownership of unshared nodes, encoding/json on non-canonical input, "
        "reflect.DeepEqual as equality of canonical encodings, the ARC cache, blake2b/crc64/base64/uvarint re-implemented in Gallina and "
        "validated on every Store call; BLAKE2b collision freeness is a hypothesis. See DESIGN.md section 7.")
TECH = "machine-checked proof in Coq 8.16.1 of an executable model + correspondence check against the implementation + independent oracle for the failing-input search"
CLAIMS = {
 "C05": ("Theorems: the binary node format and uvarint round-trip; C05_persist_then_load: persisting a tree of ANY residency mix and loading the returned root from the resulting store yields the canonical tree of the same entries (same size, height, bf) with all hash links resolvable; C05_cycles: any number of insert/update/delete/persist-and-reload cycles; operations keep hash links resolvable; C05_root_stays_loadable (the returned root loads from every store extending the resulting one); the many-tree / many-store history theorem includes MakeRoot and LoadMast. Hypotheses: element encodings round-trip, sizes < 2^64, no hash collision among written nodes. "
         "Partial: v1marshaler (JSON) format and Root JSON round trip not proved (modelled byte-exactly and compared on every run); caches outside the model. Tie: persist/reload histories over all key/value kinds, both formats, Root through JSON, 3 cache modes.", "5 C05"),
 "C10": ("Theorems: SeekIter from any probe (present or absent, any layer) on a tree of any shape/height/residency yields exactly the entries not smaller than the probe, ascending (generic in the key type); iteration; empty trees. "
         "Partial: cursor operations (Min/Max/Ceil/Forward/Backward/Get) are modelled and compared with the implementation (random walks on all residencies incl. empty trees, bisect oracle), their position theorem is not proved yet.", "5 C10"),
 "C01": ("Full per-operation theorems for every key/value type (generic in the order and layer function): Get = lookup, Insert = upsert, Delete = remove "
         "(incl. down to empty), failing deletes, Iter = the sorted list, Size, Clone, on trees of any residency mix; history theorem "
         "C01_refines_sorted_map over all finite histories of new/insert/update/delete/get/size/iter/seek/clone/persist/LoadMast of any captured root/entry diff on any number of trees and stores "
         "(binary format; side conditions: element encodings round-trip, reload from the store and key kind the root was made with, no name collision among written nodes; the persist-free theorem covers both formats without side conditions). Tie: 150+ generated histories per run over 6 key kinds x 4 value kinds x bf 2..17 x both formats x 3 cache modes, outcomes compared op by op; sorted-dictionary oracle.", "5 C01"),
 "C02": ("Theorems: frame (an operation leaves every other tree's record and abstract contents untouched), store monotonicity, persist keeps contents. "
         "In the model trees are values, so aliasing safety of the Go heap is decided by the correspondence check / snapshot oracle re-reading every captured version after every step with no, large and evicting caches (partial by construction, stated in the theorem file).", "5 C02"),
 "C03": ("Theorems over ALL interleavings of the worker-pool LTS (Sched.v): return only when no Store runs, <= 40 in flight, success => every queued write performed and succeeded, error <=> an executed write failed, schedule independence; sequential: every write is under the name of its bytes, persist keeps contents. "
         "Partial: faithfulness of the LTS to the Go runtime, retry-after-failure and cache-prefix behaviour are decided by the schedule/fault engine (gate-controlled Persist, random completion orders, failing subsets, retries, cross-store cache).", "5 C03"),
 "C04": ("Theorems: every reachable tree is the reference tree build(h, entries) up to residency; the height rule; uniqueness of height, size and shape for equal entries (generic) and for any two histories incl. persists and reloads through any stores (C04_canonical). "
         "Partial: equality of root names is up to residency annotations + C08. Tie/oracle: routes to the same contents (permutations, detours, reloads) must give identical Root; height = min(max layer, floor(log_bf(size-1))).", "5 C04"),
 "C08": ("Theorems: every Store event of persisting any tree has name = base64url(BLAKE2b-256(bytes)); bytes are a function of keys, values and child names only; a bound name keeps its bytes; hash/base64 test vector. "
         "Partial: same-name-same-contents needs collision freeness (hypothesis). Tie: (name, bytes) of every Store call equal to the model's; Python hashlib oracle on observed bytes.", "5 C08"),
 "C09": ("Theorems: the reference tree of every non-empty list satisfies the shape predicate (layers per level, children strictly lower, level 0 childless, entry-less nodes only as pass-through), every reachable tree is that reference tree with strictly sorted listing and size = number of entries, for all layer assignments and bf >= 2, in every world reached by a history with persists and reloads (C09_invariant_of_histories); persist keeps it. "
         "Oracle: independent Python decoder checks every clause on every persisted version, incl. shared-cache / clone-of-clone histories.", "5 C09"),
 "C13": ("Theorems: a no-op persist writes nothing and returns the same root; every write is named after its bytes; persist keeps contents. Partial: locality, the 2h+2 bound and the IsDirty clause are decided by the oracle on recorded Store calls and the one-sided correspondence of store names (not yet theorems).", "5 C13"),
 "C14": ("Theorems: binary layout lemma, defaults (bf 16, v1.1.5binary) incl. the exact default Root JSON, key order laws, int layer = layer of |v|; Golden.v: 70 frozen nodes, 400 layer rows, 150 comparisons checked against the model by vm_compute (a finite check, labelled). "
         "Tie: implementation and model both compared with golden/golden.obs (frozen from the pinned commit) plus generated layer/cmp/encoding correspondence.", "5 C14"),
 "C15": ("Theorems: same version => no load, no event; equal links are popped without loads; C15_bound_refuted: the 2D+2 bound is false of the model (= the implementation: known finding C15-misaligned-first-key). "
         "Partial: the replacement bound is not proved. Tie: implementation's diff loads must be a subset of the model's; oracle 2D+2 with the known finding matched only when all loads are inside the two versions and the model agrees.", "5 C15"),
 "C17": ("Theorems on the step model of the repaired file Store with every stop point (crash before create, crash/I-O error after any j bytes, crash before rename, completed): absent-or-complete is invariant, a later Store repairs, success => complete; pinned sequence refuted. "
         "Partial: rename atomicity etc. are model assumptions. Tie: child process under RLIMIT_FSIZE = k for every k in 0..len, both EFBIG and SIGXFSZ-kill variants, restart, re-store.", "5 C17"),
 "C18": ("Theorems on the backend map machines (overwrite / skip-existing / S3 key = prefix ++ name): store-then-load, unwritten names, re-store, interleaved same pair, error propagation, key injectivity. "
         "Partial: that the real backends are these machines is decided by the contract engine (memory, file in a temp dir, S3 through a recording fake incl. bucket/key and injected errors).", "5 C18"),
 "C19": ("Theorems: unknown format, missing / undecodable / count-mismatched top node => error; success => keys strictly ascending and all layers >= recorded height under the loader's configuration; non-vacuity example. "
         "Tie/oracle: perturbed Root fields, loader kind/store, byte-level damage of the top node judged by an independent decoder.", "5 C19"),
}
CLAIMS.update({
 "C11": ("Theorems over the history model: a call that uses only its owner's trees/cursors/captured roots computes the same result, trace and new owned state in any two worlds that agree on the owner's possessions (whatever stores and other trees contain) and changes nothing it does not own; hence for any number of owners and EVERY interleaving of their calls (incl. persists into shared stores) each owner observes exactly what it observes running alone. "
         "Partial: the Go memory model is outside the value model - data-race freedom on shared cached nodes is decided by the -race engine (owners' histories in parallel goroutines over a shared frozen cache/store under the race detector, each compared with its solo run); LoadMast during the concurrent phase and the ARC cache are outside the theorems.", "5 C11"),
 "C07": ("Theorems (generic in key/value types): for any two trees with consistently named hash links (any contents, heights, residency mix, nil old tree) the diff succeeds and every name reported as added is reached by the new version, every name the new version reaches is reported as added or reached by the old version, symmetrically for removed; hence (C07_replica_sync) a store holding the old version plus the added nodes holds the whole new version (sto, from which LoadMast succeeds by Reload.load_canon). "
         "C07_at_most_once: no name is reported twice as added or twice as removed (the alreadyNotified memo), resting on C07_names_distinct (the names a canonical tree reaches are pairwise distinct) and C07_first_key_found. Hypotheses: both trees canonical with consistently named links (invariant of histories, C01_refines_sorted_map) and no stored entry-less node (none is written since D7). Tie: correspondence of link events; reachable-set oracle, which also loads the new root from a store holding only old + added nodes.", "5 C07"),
 "C06": ("Theorems (generic in key/value types): Mast.diff on any two reachable trees (any contents incl. empty/emptied or a nil old tree, any heights, any residency mix, related or unrelated) terminates within its own step budget and its entry events are exactly the merge-difference of the two sorted listings; that merge-difference reports, for every key, exactly the event the two maps call for (added / removed / changed with old and new values, nothing on agreement), in strictly ascending key order hence once each; a stored name denotes one node (sto_fun) so skipping equal links is sound. "
         "C06_in_histories: the hypotheses hold for every pair of trees over one store in every reachable world, and the four interfaces (all / early stop / failing callback / cursor) observe exactly that list. Partial: diffs across different stores need one-node-per-name across them (collision freeness, a hypothesis); callback / early-stop / failing-callback / cursor interfaces are derived from the one event list in World.step and compared with the implementation. Tie: diff histories incl. tall trees, unrelated stores, empty and emptied sides, diffstop/difffail/diffcur; dictionary-difference oracle.", "5 C06"),
 "C12": ("Theorems: over histories a failing call leaves every tree, captured root, store and cursor of the world unchanged, read-only calls never change it, only MakeRoot writes to a store; trace order: in Insert and Delete every event that can fail (loads, comparisons, the first layer callback) precedes the commit point, read-only calls never commit, with a total layer function Insert never errs after its commit; C12_delete_refuted: the full statement is false of the state installed at the commit when the shrink loop's load fails (known finding D13, with the grow-loop callback counterpart). "
         "Partial: in-place mutation before the commit and callback faults are outside the value model and are decided by the fault-sweep engine (a fault at every Load / KeyCompare / Marshal call of every operation, and pairs; post-fault contents/size/height read through a fault-free view; retry).", "5 C12"),
 "C16": ("Theorems (unconditional, on trees of any shape, residency mix and outcome, generic in key type): loads of Get <= h+1, Insert <= 2(h+1), Delete <= 2(h+1) when the height is kept, Clone <= 1, split/merge <= level+1 each, LoadMast <= 1; no operation other than persist emits a Store. "
         "Partial: the shrinking Delete and cursor steps are bounded by the oracle only. Tie: the implementation's loads per call must not exceed the model's (one-sided, caches off) and the per-operation oracle bounds on recorded Load calls.", "5 C16"),
})
PENDING = {
}
def main():
    ids = [json.loads(l)["id"] for l in open(os.path.join(ROOT, "properties.jsonl"))]
    checks = []
    for pid in ids:
        if pid in CLAIMS and os.path.exists(os.path.join(ROOT, "coq", "Properties", pid + ".v")):
            text, ref = CLAIMS[pid]
            checks.append({"property_id": pid, "quick_cmd": "./check %s --tier quick" % pid, "thorough_cmd": "./check %s --tier thorough" % pid,
                           "evidence_file": "/verif/evidence/%s.json" % pid, "replay_cmd_template": "./check %s --replay {path}" % pid,
                           "engine": "coq-model+correspondence", "level_claimed": {"category": "proof", "text": text, "design_ref": "DESIGN.md section " + ref},
                           "level_note": NOTE, "technique": TECH})
    na = [{"property_id": p, "reason": PENDING.get(p, "not claimed yet")} for p in ids if p not in [c["property_id"] for c in checks]]
    m = {"version": 1, "setup_cmd": "./setup.sh",
         "hooks": {"guard": "verif", "enable": "none needed: every observation point is reachable through the public API (harness/ uses replace => /repo); the guard name is reserved",
                   "baseline_off_cmd": "cd /repo && GOFLAGS=-mod=mod GOPROXY=off GOSUMDB=off GOTOOLCHAIN=local go test -vet=off -count=1 ./...", "source_commits": [], "add_only": True},
         "engines": [{"name": "coq-model+correspondence", "path": "/verif/check", "serves_properties": [c["property_id"] for c in checks],
                      "kind_free_text": "Coq 8.16.1 development under coq/ (model, lemmas, Properties/Cxx.v), extracted OCaml driver, Go harness, python comparator/oracles"}],
         "checks": checks, "not_applicable": na,
         "notes": "Machine-checked proof in Coq of an executable Gallina model tied to /repo by a correspondence check; see DESIGN.md. /repo carries 15 'fix:' commits (known_findings.json lists them and the two recorded findings)."}
    json.dump(m, open(os.path.join(ROOT, "MANIFEST.json"), "w"), indent=1)
    print(len(checks), "claimed;", len(na), "pending")
main()
