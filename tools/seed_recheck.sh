#!/bin/bash
# seed_recheck.sh <seed-id> <property>...: apply seeded/<id>/patch.diff to /repo, run the checks, undo, update result.json
set -u
ID=$1; shift
D=/verif/seeded/$ID
cd /verif
git -C /repo apply $D/patch.diff || { echo "PATCH DOES NOT APPLY"; exit 1; }
RES=""
for P in "$@"; do
  OUT=$(./check $P 2>&1 | tail -4)
  V=$(echo "$OUT" | grep -c "^VIOLATION")
  LINE=$(echo "$OUT" | grep "^VIOLATION" | head -1)
  echo "$ID: check $P: $([ $V -gt 0 ] && echo DETECTED || echo MISSED)  $(echo "$OUT" | grep "^failing input" | cut -c1-260)"
  RES="$RES $P:$([ $V -gt 0 ] && echo detected || echo missed)"
  if [ $V -gt 0 ]; then RP=$(echo "$LINE" | sed 's/.*replay=\([^ ]*\).*/\1/'); cp "$RP" $D/replay-$P.json 2>/dev/null; fi
done
git -C /repo checkout -- .
python3 - <<PY
import json,os
p="$D/result.json"
d=json.load(open(p)) if os.path.exists(p) else {"id":"$ID"}
new="$RES".split()
old=[c for c in d.get("checks",[]) if isinstance(c,str) and c.split(":")[0] not in [n.split(":")[0] for n in new]]
d["checks"]=old+new
json.dump(d,open(p,"w"),indent=1)
PY
