"""Per-property configuration of the check engine: generator profiles (quick count, thorough count),
oracle checks, the failure tags that count for the property, and the projection compared with the model."""

TRUSTED_BASE = [
    "Coq 8.16.1 kernel (coqc; coqchk in the thorough tier); vm_compute is used in test-vector Examples and _refuted witnesses; native_compute is not used",
    "axioms: none (every property theorem prints 'Closed under the global context')",
    "extraction to OCaml with ExtrOcamlBasic only (its Extract Inductive for bool/option/unit/list/prod/sumbool and inlined andb/orb/negb/fst/snd; no Extract Constant of ours; numbers stay positive/N/Z/nat), ocamlfind ocamlopt, ocaml/driver.ml (text <-> Coq numbers, printing)",
    "the correspondence check (tools/gen.py generators, harness/ Go runner through the public API with a recording Persist, tools/check.py comparator): differential testing, not proof; its strength bounds the tie between theorems and code",
    "modelled rather than verified: Go runtime / goroutines / memory model; exclusive ownership of unshared in-memory nodes (by-value subtrees); encoding/json on non-canonical input; reflect.DeepEqual as equality of canonical value encodings; the ARC node cache (the model has no cache; cache runs are compared on functional observables only); minio/blake2b-simd, hash/crc64, encoding/base64, encoding/binary (re-implemented in Gallina, validated by vectors and on every Store call); machine integers as unbounded N/Z",
    "python3 stdlib (hashlib.blake2b, json, base64) in the independent oracles",
]
ASSUMPTIONS = [
    "the hand-written Gallina model (coq/*.v) corresponds to /repo's code: checked by running both on the same generated histories on every invocation, not proved",
    "BLAKE2b-256 collision freeness is a stated hypothesis wherever names stand for contents",
]

FUNC = {"new", "ins", "del", "get", "size", "iter", "clone", "mkroot", "load", "rootsize"}

PROPS = {
    "C01": dict(profiles=[("map", 150, 1500), ("versions", 50, 400)], tags=FUNC, checks=[], corr={}),
    "C02": dict(profiles=[("versions", 80, 800), ("dual", 15, 150)], tags=FUNC | {"cursor"}, checks=[], corr={}),
    "C03": dict(profiles=[], tags={"durable"}, checks=[], corr={}, special="sched"),
    "C04": dict(profiles=[("canon", 120, 1200)], tags={"canon", "canon-height"}, checks=["canon"], corr={"only": {"mkroot", "height"}}),
    "C05": dict(profiles=[("persist", 100, 1000), ("map", 40, 400), ("dual", 25, 250)], tags=FUNC | {"height"}, checks=[], corr={}),
    "C06": dict(profiles=[("diff", 200, 2000)], tags={"diff"}, checks=[], corr={"only": {"diff", "diffstop", "difffail", "diffcur"}}),
    "C07": dict(profiles=[("diff", 200, 2000)], tags={"difflinks", "linkdiff"}, checks=["linkdiff"], corr={"only": {"difflinks"}, "links_as_sets": True},
                profile_args={"diff": {"persisted": True}}),
    "C08": dict(profiles=[("persist", 100, 1000), ("map", 30, 300), ("versions", 70, 400)], tags={"name", "encoding"}, checks=["names", "encoding"], corr={"only": {"mkroot"}, "stores": "eq"}, special="sched_names"),
    "C09": dict(profiles=[("persist", 80, 800), ("canon", 40, 400), ("versions", 40, 400)], tags={"shape", "rootsize", "faulted-rootsize"}, checks=["shape"], corr={"only": {"mkroot"}}, special="faults_persisted"),
    "C10": dict(profiles=[("nav", 150, 1500)], tags={"seek", "cursor"}, checks=[], corr={"only": {"seek", "seekstop", "iterstop", "cget", "cursor", "cmin", "cmax", "cceil", "cfwd", "cbwd"}}),
    "C11": dict(profiles=[("versions", 40, 400)], tags=FUNC | {"race", "alone"}, checks=[], corr={}, special="race"),
    "C12": dict(profiles=[], tags={"atomic", "retry"}, checks=[], corr={}, special="faults"),
    "C13": dict(profiles=[("persist", 150, 1500), ("versions", 30, 300)], tags={"garbage", "noop", "count", "dirty"}, checks=["persist"], corr={"only": {"mkroot", "dirty"}, "stores": "sub"}),
    "C14": dict(profiles=[("keyfuncs", 40, 400), ("persist", 60, 600)], tags={"layer", "cmp", "golden", "encoding", "name"}, checks=["names", "encoding"],
                corr={"only": {"layer", "cmp", "mkroot"}, "stores": "eq"}, special="golden"),
    "C15": dict(profiles=[("diff", 200, 2000)], tags={"reads-diff"}, checks=["linkdiff"], corr={"only": {"difflinks"}, "links_as_sets": True, "loads": "sub"},
                profile_args={"diff": {"persisted": True}}),
    "C16": dict(profiles=[("persist", 150, 1500)], tags={"reads"}, checks=["point"], corr={"only": {"get", "height"}, "loads": "sub"}),
    "C17": dict(profiles=[], tags={"crash"}, checks=[], corr={}, special="crash"),
    "C18": dict(profiles=[], tags={"backend"}, checks=[], corr={}, special="backend"),
    "C19": dict(profiles=[("malformed", 120, 1200)], tags={"reject", "load"}, checks=["reject"], corr={"only": {"load", "mkroot"}, "ignore_others": True}),
}
