"""Go-side engines for the properties whose quantifier is over faults, schedules, crash points or
backends.  Each returns {"fails": [(history text, Fail)], "coverage": {...}, "evaluations": n, "distinct": [...], "samples": [...]}."""
import os, json, random, hashlib, collections, subprocess
import gen
from oracle import Fail

ROOT = os.path.dirname(os.path.dirname(os.path.abspath(__file__)))
BUILD = os.path.join(ROOT, "build")

OPNAME = {"ins": "Insert", "del": "Delete", "get": "Get", "iter": "Iter", "seek": "SeekIter", "clone": "Clone", "cursor": "Cursor",
          "cmin": "Cursor.Min", "cmax": "Cursor.Max", "cceil": "Cursor.Ceil", "cfwd": "Cursor.Forward", "cbwd": "Cursor.Backward",
          "diff": "DiffIter", "difflinks": "DiffLinks"}

def jlines(out):
    """the JSON records of a harness run; anything else on stdout (the library prints diagnostics of its own) is skipped"""
    recs = []
    for l in out.decode("latin-1").split("\n"):
        l = l.strip()
        if l.startswith("{") and l.endswith("}"):
            try:
                d = json.loads(l)
            except ValueError:
                continue
            if isinstance(d, dict):
                recs.append(d)
    return recs

def run_mode(eng, mode, text, tag, args=""):
    hp = os.path.join(BUILD, "%s-%s.hist" % (eng.pid, tag))
    open(hp, "w").write(text)
    p = subprocess.run("%s %s %s < %s" % (eng.go_bin, mode, args, hp), shell=True, stdout=subprocess.PIPE, stderr=subprocess.PIPE, timeout=3000)
    if p.returncode:
        raise RuntimeError("mastrun %s failed: %s" % (mode, p.stderr.decode()[-2000:]))
    return jlines(p.stdout)

def fault_fails(recs, texts):
    fails = []
    stats = collections.Counter()
    sites = collections.Counter()
    for d in recs:
        stats["faults_injected"] += 1
        stats["outcome_" + d["outcome"]] += 1
        if not d["fired"]:
            stats["not_fired"] += 1; continue
        op = OPNAME.get(d["op"].split()[0], d["op"].split()[0])
        sites[d["kind"] + ":" + d["site"].split("<")[0]] += 1
        if d["outcome"] == "err":
            if not d["unchanged"]:
                fails.append((texts.get(d["hist"], ""), Fail("atomic", d["index"],
                    "%s returned an error after a failing %s call (#%d, in %s) but the tree changed: before %s, after %s" %
                    (op, d["kind"], d["pos"], d["site"], d.get("before", "")[:200], d.get("after", "")[:200]),
                    {"op": op, "site": d["site"], "kind": d["kind"], "pos": d["pos"], "history": d["hist"], "engine": "faults",
                     "post_size": d.get("post_size", ""), "post_contents": d.get("post_contents", ""), "post_height": d.get("post_height", "")})))
            elif not d["retry_same"]:
                fails.append((texts.get(d["hist"], ""), Fail("retry", d["index"],
                    "%s failed cleanly on a failing %s call (#%d, in %s) but the retry did not give the normal result: %s vs %s" %
                    (op, d["kind"], d["pos"], d["site"], d.get("retry", "")[:200], d.get("normal", "")[:200]),
                    {"op": op, "site": d["site"], "kind": d["kind"], "pos": d["pos"], "history": d["hist"], "engine": "faults"})))
    return fails, stats, sites

def minimise_faults(eng, text, fail):
    """keep the faulted operation, delta-debug the operations before it"""
    hdr, ops = eng.ck.split_hist(text)
    target = ops[fail.idx]
    hid = hdr.split()[1]
    base = " ".join(x for x in hdr.split() if not x.startswith("from="))
    def still(prefix):
        t = "%s from=%d\n%s\n" % (base, len(prefix), "\n".join(prefix + [target]))
        try:
            recs = run_mode(eng, "faults", t, "shrink")
        except Exception:
            return False
        fs, _, _ = fault_fails(recs, {hid: t})
        return any(f.tag == fail.tag and f.extra.get("op") == fail.extra.get("op") and not eng.is_known(f) for _, f in fs)
    small = eng.ck.shrink(hdr, ops[:fail.idx], still, budget=120)
    if not still(small):
        small = ops[:fail.idx]
    t = "%s from=%d\n%s\n" % (base, len(small), "\n".join(small + [target]))
    recs = run_mode(eng, "faults", t, "shrink")
    fs, _, _ = fault_fails(recs, {hid: t})
    fs = [f for _, f in fs if f.tag == fail.tag and not eng.is_known(f)]
    return t, (fs[0] if fs else fail)

def faults(eng):
    """C12: a fault at each individual Load / KeyCompare / Marshal call of each target operation"""
    rng = random.Random(eng.seed * 7 + 12)
    n = 60 if eng.tier == "quick" else 600
    hs = gen.prof_faults(rng, n, eng.tier)
    corpus = eng.corpus()
    texts = {}
    for i, h in enumerate(hs):
        h.id = "%s-s%d-%d" % (h.id, eng.seed, i); texts[h.id] = h.text()
    for c in corpus:
        texts[c.split("\n")[0].split()[1]] = c
    recs = run_mode(eng, "faults", "".join(corpus) + "".join(h.text() for h in hs), "faults")
    fails, stats, sites = fault_fails(recs, texts)
    ops = collections.Counter(d["op"].split()[0] for d in recs)
    return {"fails": fails, "evaluations": len(recs),
            "distinct": list({"%s/%d/%s/%d" % (d["hist"], d["index"], d["kind"], d["pos"]) for d in recs if d["fired"]}),
            "coverage": {"fault_histories": len(hs), "faults": dict(stats), "faulted_ops": dict(ops), "fault_sites_hit": dict(sites.most_common(40)),
                         "note": "panics and swallowed errors after an injected KeyCompare failure (findNode's binary search ignores the error; validateNode panics) are counted under outcome_panic / outcome_ok: C12 speaks about calls that return an error"},
            "samples": [recs[0]] if recs else []}

def faults_persisted(eng):
    """C09 under faults: after every failed Insert / Delete (a fault at each Load / KeyCompare / Marshal call) the tree is
    persisted, the returned root is loaded into a fresh tree and its recorded size is compared with the entries reachable"""
    rng = random.Random(eng.seed * 7 + 9)
    n = 30 if eng.tier == "quick" else 300
    hs = gen.prof_faults(rng, n, eng.tier)
    texts = {}
    for i, h in enumerate(hs):
        h.id = "%s-p%d-%d" % (h.id, eng.seed, i); h.opts["persistcheck"] = 1; texts[h.id] = h.text()
    recs = run_mode(eng, "faults", "".join(h.text() for h in hs), "faultsp")
    fails = []; stats = collections.Counter()
    for d in recs:
        if not d.get("persisted"):
            continue
        stats["persisted_after_failed_call"] += 1
        if d["persisted"] != "ok":
            op = OPNAME.get(d["op"].split()[0], d["op"].split()[0])
            fails.append((texts.get(d["hist"], ""), Fail("faulted-rootsize", d["index"],
                "%s failed on a failing %s call (#%d, in %s); %s" % (op, d["kind"], d["pos"], d["site"], d["persisted"][:300]),
                {"op": op, "site": d["site"], "kind": d["kind"], "pos": d["pos"], "history": d["hist"], "engine": "faults"})))
    return {"fails": fails, "evaluations": stats["persisted_after_failed_call"], "distinct": [],
            "coverage": {"persisted_after_failed_call": dict(stats)}, "samples": []}

def sched_fails(recs, texts):
    fails = []; stats = collections.Counter(); peak = 0; orders = set()
    for d in recs:
        stats["runs_" + d["mode"]] += 1
        peak = max(peak, d.get("peak", 0))
        if d["mode"] == "schedule":
            orders.add(d["hist"] + "/" + ",".join(d.get("order") or []))
        for p in d["problems"]:
            tag = "durable"
            fails.append((texts.get(d["hist"], ""), Fail(tag, d["index"], "%s run (writes=%d, failing=%s, seed=%s): %s" %
                          (d["mode"], d["writes"], d.get("fail_names"), d.get("seed"), p[:300]),
                          {"engine": "sched", "mode": d["mode"], "history": d["hist"], "fail_names": d.get("fail_names")})))
            break
    stats["peak_concurrent_stores"] = peak
    stats["distinct_completion_orders"] = len(orders)
    return fails, stats, orders

def sched(eng):
    """C03: completion orders and failing subsets of the concurrent Store calls of MakeRoot"""
    rng = random.Random(eng.seed * 11 + 3)
    n = 40 if eng.tier == "quick" else 400
    hs = gen.prof_sched(rng, n, eng.tier)
    corpus = eng.corpus()
    texts = {}
    for i, h in enumerate(hs):
        h.id = "%s-s%d-%d" % (h.id, eng.seed, i); texts[h.id] = h.text()
    for c in corpus:
        texts[c.split("\n")[0].split()[1]] = c
    recs = run_mode(eng, "sched", "".join(corpus) + "".join(h.text() for h in hs), "sched")
    fails, stats, orders = sched_fails(recs, texts)
    shapes = collections.Counter(t for h in hs for t in h.tags)
    writes = collections.Counter(min(d["writes"], 50) // 10 * 10 for d in recs if d["mode"] == "control")
    return {"fails": fails, "evaluations": len(recs), "distinct": list(orders) + ["%s/%s" % (d["hist"], d.get("fail_names")) for d in recs if d["mode"] == "fault"],
            "coverage": {"sched_histories": len(hs), "runs": dict(stats), "tree_shapes": dict(shapes), "writes_per_persist_histogram(by 10)": dict(writes)},
            "samples": [r for r in recs if r["mode"] != "control"][:2]}

def sched_names(eng):
    """C08: a name denotes one contents, also after a failed persist: the fault-detour runs of the schedule engine
    (cache-sharing histories only; fewer of them than C03 runs)"""
    rng = random.Random(eng.seed * 13 + 5)
    n = 16 if eng.tier == "quick" else 160
    hs = [h for h in gen.prof_sched(rng, 3 * n, eng.tier) if h.cache != "none"][:n]
    texts = {}
    for i, h in enumerate(hs):
        h.id = "%s-s%d-%d" % (h.id, eng.seed, i); texts[h.id] = h.text()
    recs = run_mode(eng, "sched", "".join(h.text() for h in hs), "schednames")
    fails, stats, _ = sched_fails([d for d in recs if d["mode"] == "fault-detour"], texts)
    fails = [(t, Fail("name", f.idx, f.msg, f.extra)) for t, f in fails]
    return {"fails": fails, "evaluations": sum(1 for d in recs if d["mode"] == "fault-detour"), "distinct": [],
            "coverage": {"fault_detour_runs": dict(stats), "cache_sharing_histories": len(hs)}, "samples": []}

def minimise_sched(eng, text, fail):
    return text, fail

def replay_sched(eng, d):
    text = d["header"] + "\n" + "\n".join(d["ops"]) + "\n"
    recs = run_mode(eng, "sched", text, "replay")
    fails, _, _ = sched_fails(recs, {d["header"].split()[1]: text})
    if fails:
        print("reproduced: %s" % fails[0][1].msg[:300]); print("VIOLATION property=%s replay=%s" % (eng.pid, d.get("path", ""))); return 1
    print("not reproduced"); return 0

def run_cmd(eng, args, timeout=3000):
    p = subprocess.run("%s %s" % (eng.go_bin, args), shell=True, stdout=subprocess.PIPE, stderr=subprocess.PIPE, timeout=timeout)
    if p.returncode:
        raise RuntimeError("mastrun %s failed: %s" % (args, p.stderr.decode()[-2000:]))
    return jlines(p.stdout)

def be_fails(recs, engine, args):
    fails = []
    for d in recs:
        if d["problems"]:
            fails.append(("", Fail("backend" if engine == "backend" else "crash", d.get("k", 0),
                          "%s backend, %s (name %s, %d bytes%s): %s" % (d["backend"], d["case"], d["name"], d["len"],
                           (", cut at byte %d, %s" % (d["k"], d.get("variant"))) if d["case"] == "crash" else "", "; ".join(d["problems"])[:400]),
                          {"engine": engine, "args": args, "case": d["case"], "backend": d["backend"], "name": d["name"], "k": d.get("k"), "variant": d.get("variant")})))
    return fails

def backend(eng):
    """C18: the node-store contract on the in-memory, file and S3 backends"""
    work = os.path.join(BUILD, "work-%s" % eng.pid); os.makedirs(work, exist_ok=True)
    n = 60 if eng.tier == "quick" else 600
    args = "backend %d %d %s" % (eng.seed, n, work)
    recs = run_cmd(eng, args)
    fails = be_fails(recs, "backend", args)
    cases = collections.Counter("%s/%s" % (d["backend"], d["case"]) for d in recs)
    sizes = collections.Counter("0" if d["len"] == 0 else "1" if d["len"] == 1 else "<=400" if d["len"] <= 400 else ">=64K" for d in recs if d["case"] == "roundtrip")
    return {"fails": fails, "evaluations": len(recs), "distinct": ["%s/%s/%s" % (d["backend"], d["case"], d["name"]) for d in recs],
            "coverage": {"backend_cases": dict(cases), "payload_sizes": dict(sizes),
                         "names_starting_with_dash_or_underscore": sum(1 for d in recs if d["name"][:1] in "-_")},
            "samples": recs[:2]}

def crash(eng):
    """C17: every byte offset at which the write of a node file can stop (I/O error, and process killed)"""
    work = os.path.join(BUILD, "work-%s" % eng.pid); os.makedirs(work, exist_ok=True)
    n = 6 if eng.tier == "quick" else 40
    args = "crash %d %d %s" % (eng.seed, n, work)
    recs = run_cmd(eng, args)
    fails = be_fails(recs, "crash", args)
    var = collections.Counter(d["variant"] for d in recs)
    lens = collections.Counter(d["len"] for d in recs)
    return {"fails": fails, "evaluations": len(recs), "distinct": ["%s/%d/%d/%s" % (d["name"], d["len"], d["k"], d["variant"]) for d in recs],
            "coverage": {"crash_points": len(recs), "variants": dict(var), "node_lengths": dict(lens),
                         "children_killed_by_SIGXFSZ": sum(1 for d in recs if d.get("killed")),
                         "exhaustive_over_offsets": "every k in 0..len for each generated node, both variants (ignore: the write fails with EFBIG; die: SIGXFSZ at its default disposition kills the child inside write(2))"},
            "samples": recs[:2]}

def replay_backend(eng, d):
    recs = run_cmd(eng, d["attributes"]["args"])
    fails = be_fails(recs, "backend", d["attributes"]["args"])
    hit = [f for _, f in fails if f.extra["case"] == d["attributes"]["case"] and f.extra["backend"] == d["attributes"]["backend"]]
    if hit:
        print("reproduced: %s" % hit[0].msg[:300]); print("VIOLATION property=%s replay=%s" % (eng.pid, d.get("path", ""))); return 1
    print("not reproduced"); return 0

def replay_crash(eng, d):
    recs = run_cmd(eng, d["attributes"]["args"])
    fails = be_fails(recs, "crash", d["attributes"]["args"])
    if fails:
        print("reproduced: %s" % fails[0][1].msg[:300]); print("VIOLATION property=%s replay=%s" % (eng.pid, d.get("path", ""))); return 1
    print("not reproduced"); return 0

def golden_diff(eng):
    gh = os.path.join(ROOT, "golden", "golden.hist"); go = os.path.join(ROOT, "golden", "golden.obs")
    frozen = open(go, encoding="latin-1").read().split("\n")
    hist = open(gh).read().split("\n")
    p = subprocess.run("%s run < %s" % (eng.go_bin, gh), shell=True, stdout=subprocess.PIPE, stderr=subprocess.PIPE, timeout=1200)
    impl = p.stdout.decode("latin-1").split("\n")
    p = subprocess.run("%s < %s" % (os.path.join(ROOT, "ocaml", "driver"), gh), shell=True, stdout=subprocess.PIPE, stderr=subprocess.PIPE, timeout=1200)
    model = p.stdout.decode("latin-1").split("\n")
    fails = []
    for who, got in (("implementation", impl), ("model", model)):
        if len(got) != len(frozen):
            fails.append(("", Fail("golden", 0, "%s produced %d lines on the reference histories, the frozen vectors have %d" % (who, len(got), len(frozen)), {"engine": "golden", "who": who})))
            continue
        hdr = ""
        for i, (a, b) in enumerate(zip(got, frozen)):
            if hist[i].startswith("#"):
                hdr = hist[i]
            if a != b:
                fails.append(("", Fail("golden", i, "%s differs from the frozen reference vector at golden.hist line %d (%s; %s): got %s, frozen %s" %
                              (who, i + 1, hdr, hist[i], a[:300], b[:300]), {"engine": "golden", "who": who, "line": i + 1, "op": hist[i], "header": hdr})))
                break
    return fails, len(frozen)

def golden(eng):
    """C14: the implementation and the model against the frozen reference vectors"""
    fails, n = golden_diff(eng)
    fails = [f for f in fails if f[1].extra["who"] == "implementation"] or fails
    return {"fails": fails, "evaluations": n, "distinct": ["golden-line-%d" % i for i in range(0, n, 7)],
            "coverage": {"frozen_vector_lines": n, "frozen_files": "golden/golden.hist, golden/golden.obs (produced once from the pinned commit 5b9555e; checks never regenerate them)"},
            "samples": []}

def replay_golden(eng, d):
    fails, _ = golden_diff(eng)
    if fails:
        print("reproduced: %s" % fails[0][1].msg[:400]); print("VIOLATION property=%s replay=%s" % (eng.pid, d.get("path", ""))); return 1
    print("not reproduced"); return 0

def race_run(eng, text, tag):
    ok, out, binp = eng.ck.build_go(race=True)
    if not ok:
        raise RuntimeError("race build failed: " + out[-1500:])
    hp = os.path.join(BUILD, "%s-%s.hist" % (eng.pid, tag))
    open(hp, "w").write(text)
    env = dict(os.environ, GORACE="halt_on_error=0 exitcode=0")
    p = subprocess.run("%s race < %s" % (binp, hp), shell=True, stdout=subprocess.PIPE, stderr=subprocess.PIPE, timeout=3000, env=env)
    recs = jlines(p.stdout)
    err = p.stderr.decode("latin-1")
    reports = [b for b in err.split("==================") if "DATA RACE" in b]
    mine = [b for b in reports if "jrhy/mast" in b or "/repo/" in b]
    return recs, mine, reports

def hook_run(eng, text, tag):
    ok, out, binp = eng.ck.build_go()
    if not ok:
        raise RuntimeError("harness build failed: " + out[-1500:])
    hp = os.path.join(BUILD, "%s-%s.hist" % (eng.pid, tag))
    open(hp, "w").write(text)
    env = dict(os.environ, GORACE="halt_on_error=0 exitcode=0")
    p = subprocess.run("%s cachehook %d < %s" % (binp, 16 if eng.tier == "quick" else 48, hp), shell=True, stdout=subprocess.PIPE, stderr=subprocess.PIPE, timeout=3000, env=env)
    return jlines(p.stdout)

def hook_fails(recs, texts):
    fails = []
    for d in recs:
        for p in d["problems"]:
            fails.append((texts.get(d["hist"], ""), Fail("alone", 0, "trees of different goroutines over one cache, interleaved at a chosen cache call, do not behave as when run alone: %s" % p[:500],
                          {"engine": "cachehook", "history": d["hist"]})))
            break
    return fails

def race_fails(recs, mine, texts):
    fails = []
    for d in recs:
        for p in d["problems"]:
            fails.append((texts.get(d["hist"], ""), Fail("alone", 0, "trees used from %d goroutines do not behave as when run alone: %s" % (d["threads"], p[:400]),
                          {"engine": "race", "history": d["hist"]})))
            break
    if mine:
        fails.append(("", Fail("race", 0, "the race detector reports a data race in jrhy/mast code: " + " | ".join(l.strip() for l in mine[0].split("\n") if l.strip())[:900],
                      {"engine": "race", "reports": len(mine)})))
    return fails

def race(eng):
    """C11: concurrent goroutines owning independent trees over one store and one cache, under the race detector"""
    rng = random.Random(eng.seed * 13 + 5)
    n = 30 if eng.tier == "quick" else 300
    hs = gen.prof_race(rng, n, eng.tier)
    texts = {}
    for i, h in enumerate(hs):
        h.id = "%s-s%d-%d" % (h.id, eng.seed, i); texts[h.id] = h.text()
    corpus = eng.corpus()
    for c in corpus:
        texts[c.split("\n")[0].split()[1]] = c
    recs, mine, reports = race_run(eng, "".join(corpus) + "".join(h.text() for h in hs), "race")
    fails = race_fails(recs, mine, texts)
    # the same histories, and further ones whose two-node cache makes nearly every descent load from the store, on one
    # goroutine with the interleaving chosen: another goroutine's operations run right after a chosen cache call
    hs2 = gen.prof_race(rng, n, eng.tier, cache="tiny", tag="rah")
    for i, h in enumerate(hs2):
        h.id = "%s-s%d-%d" % (h.id, eng.seed, i); texts[h.id] = h.text()
    hrecs = hook_run(eng, "".join(corpus) + "".join(h.text() for h in hs + hs2), "hook")
    fails += hook_fails(hrecs, texts)
    if mine:
        # attribute the report to a history: rerun one by one
        for hid, t in texts.items():
            r2, m2, _ = race_run(eng, t, "race1")
            if m2:
                fails = [(t, Fail("race", 0, "the race detector reports a data race in jrhy/mast code: " + " | ".join(l.strip() for l in m2[0].split("\n") if l.strip())[:900],
                                  {"engine": "race", "history": hid}))] + [f for f in fails if f[1].tag != "race"]
                break
    thr = collections.Counter(d["threads"] for d in recs)
    caches = collections.Counter(h.cache for h in hs)
    return {"fails": fails, "evaluations": len(recs), "distinct": [d["hist"] for d in recs],
            "coverage": {"race_histories": len(recs), "goroutines_histogram": dict(thr), "cache_modes": dict(caches),
                         "concurrent_operations": sum(d["ops"] for d in recs), "race_reports_total": len(reports), "race_reports_in_mast": len(mine),
                         "chosen_interleavings": {"histories": len(hrecs), "interleaving_points_run": sum(d["points"] for d in hrecs),
                                                  "cache_calls_by_kind": dict(sum((collections.Counter(d["kinds"]) for d in hrecs), collections.Counter()))},
                         "built_with": "go build -race"},
            "samples": recs[:1]}

def minimise_race(eng, text, fail):
    return text, fail

def replay_race(eng, d):
    text = d["header"] + "\n" + "\n".join(d["ops"]) + "\n"
    hit = False
    if hook_fails(hook_run(eng, text, "replayh"), {}):
        hit = True
    for _ in range(0 if hit else 5):
        recs, mine, _ = race_run(eng, text, "replay")
        if race_fails(recs, mine, {}):
            hit = True; break
    if hit:
        print("reproduced"); print("VIOLATION property=%s replay=%s" % (eng.pid, d.get("path", ""))); return 1
    print("not reproduced in 5 runs"); return 0

def replay(eng, d):
    if d.get("engine") == "faults":
        text = d["header"] + "\n" + "\n".join(d["ops"]) + "\n"
        recs = run_mode(eng, "faults", text, "replay")
        hid = d["header"].split()[1]
        fails, _, _ = fault_fails(recs, {hid: text})
        fails = [f for _, f in fails if not eng.is_known(f)]
        hit = [f for f in fails if f.tag == d.get("tag")]
        if hit:
            print("reproduced: %s" % hit[0].msg[:300]); print("VIOLATION property=%s replay=%s" % (eng.pid, d.get("path", ""))); return 1
        print("not reproduced"); return 0
    fn = globals().get("replay_" + d.get("engine", ""))
    if fn:
        return fn(eng, d)
    print("unknown replay engine"); return 2
