"""History generators.  Every random choice comes from the one random.Random handed in, so a seed
replays exactly.  The generator tracks a reference dictionary per tree so that data-dependent
operations (delete a live key with its current value) are resolved at generation time."""
import random, json
from lib import hx, key_layer, key_sort, crc64, uint_layer

BFS_SMALL = [2, 2, 3, 3, 4]
BFS_ALL = [2, 2, 3, 3, 4, 4, 16, 17]

_pools = {}

def _pool(kind, bf):
    """string-like keys grouped by their layer at this branch factor (so high layers are not vanishingly rare)"""
    if (kind, bf) in _pools:
        return _pools[(kind, bf)]
    r = random.Random(1234 + kind * 100 + bf)
    groups = {}
    n = 6000 if bf <= 4 else 20000
    for i in range(n):
        if kind == 2:
            raw = "".join(r.choice("abcdefghijklmnopqrstuvwxyz0123456789_-") for _ in range(r.randint(0, 5))).encode()
            tok = "s:" + hx(raw); lay = uint_layer(crc64(raw), bf)
        elif kind == 3:
            raw = bytes(r.choice([0, 1, 127, 128, 255, r.randrange(256)]) for _ in range(r.randint(0, 4)))
            tok = "y:" + hx(raw); lay = uint_layer(crc64(raw), bf)
        else:
            raw = json.dumps({"A": r.randint(-50, 50), "B": "".join(r.choice("abcxyz") for _ in range(r.randint(0, 3)))},
                             separators=(",", ":")).encode()
            tok = "b:" + hx(raw); lay = uint_layer(crc64(raw), bf)
        g = groups.setdefault(lay, [])
        if tok not in g and len(g) < 60:
            g.append(tok)
    _pools[(kind, bf)] = groups
    return groups

class KeyGen:
    def __init__(self, rng, kind, bf, mode=None, span=None):
        self.rng, self.kind, self.bf = rng, kind, bf
        self.mode = mode or rng.choice(["hash", "hash", "zero", "alt", "onehigh", "steps"])
        self.span = span or rng.choice([8, 30, 120])
        if kind in (2, 3, 4):
            self.groups = _pool(kind, bf)
            self.maxl = max(self.groups)

    def _j(self, top=6):
        j = 0
        while j < top and self.rng.random() < 0.45:
            j += 1
        return j

    def user_layer(self, z):
        m = self.mode
        if m == "zero":
            return 0
        if m == "alt":
            return abs(z) % 2
        if m == "onehigh":
            return 255 if z == 7 else abs(z) % 3
        if m == "steps":
            return min(abs(z) % 7, 6)
        return min(uint_layer(abs(z) * 2 + 2, 2), 6) if z else 3

    def key(self):
        r, k, bf = self.rng, self.kind, self.bf
        if k in (0, 1):
            j = self._j(6 if bf <= 4 else 2)
            v = r.randint(1, self.span) * bf ** j
            if r.random() < 0.03:
                v = 0
            if r.random() < 0.04:
                # the ends of the 64-bit range: orders that subtract, or layers that negate, go wrong here
                v = r.choice([2 ** 63 - 1, 2 ** 63 - 2, 2 ** 62, 2 ** 62 + 1, 2 ** 63 - bf, (2 ** 62 // bf) * bf] if k == 0 else
                             [2 ** 64 - 1, 2 ** 64 - 2, 2 ** 63, 2 ** 63 + 1, 2 ** 64 - bf, (2 ** 63 // bf) * bf])
            if k == 0 and r.random() < 0.4:
                v = -v
            return ("i:%d" if k == 0 else "u:%d") % v
        if k == 5:
            z = r.randint(-self.span, self.span)
            return "k:%d:%d" % (z, self.user_layer(z))
        j = min(self._j(), self.maxl)
        while j not in self.groups:
            j -= 1
        g = self.groups[j]
        return g[r.randrange(min(len(g), self.span))]

    def probe(self):
        """a key of the kind that may be absent, any layer; also extreme probes"""
        r = self.rng
        if self.kind in (0, 1) and r.random() < 0.2:
            v = r.choice([0, 1, 10 ** 6, 2 ** 40])
            if self.kind == 0 and r.random() < 0.5:
                v = -v
            return ("i:%d" if self.kind == 0 else "u:%d") % v
        return self.key()

def gojson(o):
    """json text as Go's encoding/json writes it: compact, and <, >, & escaped as \\u003c, \\u003e, \\u0026"""
    return json.dumps(o, separators=(",", ":")).replace("<", "\\u003c").replace(">", "\\u003e").replace("&", "\\u0026")

def boundary_string(rng):
    """a JSON string whose encoded length sits at a varint boundary (1 -> 2 bytes at 128, 2 -> 3 bytes at 16384)"""
    n = rng.choice([127, 128, 128, 129, 16383, 16384, 16384, 16385, 255, 256]) - 2
    return json.dumps("".join(rng.choice("abcdefgh") for _ in range(n)))

def gen_val(rng, vt):
    if vt in ("str", "raw") and rng.random() < 0.05:
        return hx(boundary_string(rng).encode())
    if vt == "int":
        return hx(str(rng.randint(-5, 50)).encode())
    if vt == "str":
        return hx(gojson("".join(rng.choice("abc xyz<>&'") for _ in range(rng.randint(0, 4)))).encode())
    if vt == "ints":
        return hx(json.dumps([rng.randint(0, 9) for _ in range(rng.randint(0, 3))], separators=(",", ":")).encode())
    if vt == "pst":   # struct {A int; P *string `json:"p,omitempty"`}: comparable, holds a pointer
        d = {"A": rng.randint(0, 5)}
        if rng.random() < 0.7:
            d["p"] = "".join(rng.choice("abc<&") for _ in range(rng.randint(0, 2)))
        return hx(gojson(d).encode())
    c = rng.random()
    if c < 0.4:
        return hx(str(rng.randint(0, 99)).encode())
    if c < 0.6:
        return hx(gojson(rng.choice(["v%d", "v%d", "<%d>", "a&%d"]) % rng.randint(0, 9)).encode())
    if c < 0.8:
        return hx(json.dumps([rng.randint(0, 3)] * rng.randint(0, 2), separators=(",", ":")).encode())
    return hx(json.dumps({"a": rng.randint(0, 3)}, separators=(",", ":")).encode())

class H:
    """one history under construction, with its reference state"""
    def __init__(self, hid, rng, bf=None, fmt=None, kind=None, vt=None, cache=None, wide=None, bfs=BFS_SMALL, opts=None):
        self.id, self.rng = hid, rng
        self.bf = bf if bf is not None else rng.choice(bfs)
        self.fmt = fmt or rng.choice(["bin", "bin", "v1", "v1", "def"])   # def: options that name no node format
        self.kind = kind if kind is not None else rng.choice([0, 0, 1, 2, 3, 4, 5, 5])
        self.vt = vt or rng.choice(["raw", "raw", "int", "str", "ints", "pst"])
        self.cache = cache or rng.choice(["none", "none", "big", "tiny"])
        self.wide = wide if wide is not None else rng.choice([0, 1])
        self.opts = dict(opts or {})
        if kind is None and vt is None and fmt is None and rng.random() < 0.08:
            # the registered-types loader of the v1marshaler format (UnmarshalerUsesRegisteredTypes): the node is
            # unmarshaled straight into []interface{}; string keys and string values come back as themselves
            self.kind, self.vt, self.fmt = 2, "str", "v1"
            self.opts["regtypes"] = 1; self.opts.setdefault("callbacks", 0)
        if "callbacks" not in self.opts and rng.random() < 0.25:
            self.opts["callbacks"] = 1    # the configuration carries its own KeyCompare / Marshal / Unmarshal (default meaning)
        self.ops = []
        self.kg = KeyGen(rng, self.kind, self.bf)
        self.ref = {}        # tree id -> {key: val}
        self.roots = {}      # root id -> (dict snapshot)
        self.curs = {}       # cursor id -> tree snapshot
        self.nt = 0; self.nr = 0; self.nc = 0
        self.tags = set()

    def header(self):
        o = {"bf": self.bf, "fmt": self.fmt, "kind": self.kind, "vt": self.vt, "cache": self.cache, "wide": self.wide}
        o.update(self.opts)
        return "# %s " % self.id + " ".join("%s=%s" % kv for kv in o.items())

    def text(self):
        return self.header() + "\n" + "\n".join(self.ops) + "\n"

    # ---- operations
    def new(self, store=0, bf=None, fmt=None):
        t = self.nt; self.nt += 1
        self.ops.append("new %d %d %d %s %d" % (t, store, self.bf if bf is None else bf, fmt or self.fmt, self.kind))
        self.ref[t] = {}
        return t

    def ins(self, t, k=None, v=None):
        k = k or self.kg.key(); v = v or gen_val(self.rng, self.vt)
        self.ops.append("ins %d %s %s" % (t, k, v)); self.ref[t][k] = v
        return k

    def upd(self, t, same=False):
        if not self.ref[t]:
            return self.ins(t)
        k = self.rng.choice(sorted(self.ref[t], key=key_sort))
        v = self.ref[t][k] if same else gen_val(self.rng, self.vt)
        return self.ins(t, k, v)

    def dele(self, t, k=None):
        if k is None:
            if not self.ref[t]:
                return self.del_bad(t)
            k = self.rng.choice(sorted(self.ref[t], key=key_sort))
        self.ops.append("del %d %s %s" % (t, k, self.ref[t][k])); del self.ref[t][k]
        return k

    def del_bad(self, t):
        """absent key, or live key with a non-matching value: must fail without effect"""
        live = sorted(self.ref[t], key=key_sort)
        if live and self.rng.random() < 0.5:
            k = self.rng.choice(live)
            v = gen_val(self.rng, self.vt)
            if v == self.ref[t][k]:
                return
            self.ops.append("del %d %s %s" % (t, k, v)); self.tags.add("del-wrong-value")
        else:
            k = self.kg.probe()
            if k in self.ref[t]:
                return
            self.ops.append("del %d %s %s" % (t, k, gen_val(self.rng, self.vt))); self.tags.add("del-absent")

    def get(self, t, k=None):
        if k is None:
            live = sorted(self.ref[t], key=key_sort)
            k = self.rng.choice(live) if live and self.rng.random() < 0.6 else self.kg.probe()
        self.ops.append("get %d %s" % (t, k))

    def observe(self, t):
        self.ops += ["size %d" % t, "height %d" % t, "iter %d" % t]
        if self.rng.random() < 0.1:
            self.ops.append("iterstop %d %d" % (t, self.rng.choice([0, 1, 4])))

    def clone(self, t):
        t2 = self.nt; self.nt += 1
        self.ops.append("clone %d %d" % (t, t2)); self.ref[t2] = dict(self.ref[t])
        return t2

    def mkroot(self, t):
        r = self.nr; self.nr += 1
        self.ops.append("mkroot %d %d" % (t, r)); self.roots[r] = dict(self.ref[t])
        return r

    def load(self, r, store=0, nc=False):
        t = self.nt; self.nt += 1
        self.ops.append("%s %d %d %d %d" % ("loadnc" if nc else "load", r, t, store, self.kind)); self.ref[t] = dict(self.roots[r])
        return t

    def cursor(self, t):
        c = self.nc; self.nc += 1
        self.ops.append("cursor %d %d" % (t, c)); self.curs[c] = dict(self.ref[t])
        return c

    def drain(self, t):
        for k in sorted(self.ref[t], key=key_sort, reverse=self.rng.random() < 0.5):
            if self.rng.random() < 0.5:
                self.observe(t)
            self.dele(t, k)
        self.tags.add("drained")

def mutate(h, t, n, p_del=0.25, p_upd=0.1, p_bad=0.05):
    for _ in range(n):
        c = h.rng.random()
        if c < p_del:
            h.dele(t)
        elif c < p_del + p_upd:
            h.upd(t, same=h.rng.random() < 0.3)
        elif c < p_del + p_upd + p_bad:
            h.del_bad(t)
        else:
            h.ins(t)

# ------------------------------------------------------------------------------------------ profiles
def prof_map(rng, n, tier):
    """C01: single-tree map semantics with clones / persists / reloads mixed in"""
    out = []
    for i in range(n):
        h = H("map%d" % i, rng, bfs=BFS_ALL if tier == "thorough" else BFS_SMALL + [16])
        t = h.new()
        if rng.random() < 0.15:
            h.observe(t); h.get(t); h.del_bad(t); h.ops.append("seek %d %s" % (t, h.kg.probe())); h.tags.add("never-populated")
        trees = [t]
        steps = rng.randint(5, 60 if tier == "quick" else 150)
        for _ in range(steps):
            t = rng.choice(trees)
            c = rng.random()
            if c < 0.55:
                h.ins(t)
            elif c < 0.62:
                h.upd(t, same=rng.random() < 0.3)
            elif c < 0.78:
                h.dele(t)
            elif c < 0.82:
                h.del_bad(t)
            elif c < 0.88:
                h.get(t)
            elif c < 0.91:
                h.observe(t)
            elif c < 0.94 and len(trees) < 4:
                trees.append(h.clone(t))
            elif c < 0.98:
                r = h.mkroot(t)
                if rng.random() < 0.6 and len(trees) < 5:
                    trees.append(h.load(r))
            else:
                h.drain(t); h.observe(t); h.get(t)
                if rng.random() < 0.5:
                    h.mkroot(t)
        for t in trees:
            h.observe(t)
            for _ in range(3):
                h.get(t)
        out.append(h)
    return out

def prof_versions(rng, n, tier):
    """C02: captured versions (clones, cursors, persisted roots) re-read after every later operation"""
    out = []
    for i in range(n):
        h = H("ver%d" % i, rng, cache=rng.choice(["none", "big", "tiny", "big", "tiny"]))
        t0 = h.new()
        mutate(h, t0, rng.randint(5, 40))
        trees = [t0]; roots = []; curs = []
        for _ in range(rng.randint(6, 25 if tier == "quick" else 60)):
            c = rng.random()
            t = rng.choice(trees)
            if c < 0.15 and len(trees) < 6:
                trees.append(h.clone(t))
            elif c < 0.3:
                roots.append(h.mkroot(t))
            elif c < 0.45 and roots and len(trees) < 7:
                trees.append(h.load(rng.choice(roots)))
            elif c < 0.5 and len(curs) < 3:
                cu = h.cursor(t); curs.append(cu)
            else:
                mutate(h, t, rng.randint(1, 4))
            # every captured version is read back after every step
            for x in trees:
                if i % 3 == 2:
                    h.ops.append("dirty %d" % x)     # ... and asked whether it has unsaved changes, just before it is listed
                h.ops.append("iter %d" % x)
            for cu in curs:
                h.ops += ["cmin %d" % cu, "cget %d" % cu]
        # persisted roots must still load to their captured contents
        for r in roots:
            x = h.load(r); h.observe(x)
        sc = i % 3
        if sc == 0:
            # a chain of captures of one loaded version: clone, clone of the clone, cursor on the clone - then
            # each of them is modified in turn and all are re-read
            r = h.mkroot(t0); x = h.load(r)
            c1 = h.clone(x); c2 = h.clone(c1); cu = h.cursor(c1); c3 = h.clone(c2)
            group = [x, c1, c2, c3]
            for y in [c1, c2, x, c3]:
                mutate(h, y, rng.randint(2, 6), p_del=0.35)
                for z in group:
                    h.ops.append("iter %d" % z)
                h.ops += ["cmin %d" % cu, "cget %d" % cu]   # (Min is relative to the position: the cursor is never moved off it here)
        if h.cache != "none" and h.ref[t0]:
            # two trees loaded from one root both delete the key that separates the same two siblings,
            # the second one after changing the right-hand sibling
            r = h.mkroot(t0); a = h.load(r); b = h.load(r)
            live = sorted(h.ref[a], key=key_sort)
            ml = max(key_layer(k, h.bf) for k in live)
            seps = [k for k in live if key_layer(k, h.bf) >= 1] or live
            for k in rng.sample(seps, min(3, len(seps))):
                if k not in h.ref[a] or k not in h.ref[b]:
                    continue
                h.dele(a, k)
                after = [q for q in sorted(h.ref[b], key=key_sort) if key_sort(q) > key_sort(k)]
                if after:
                    h.dele(b, after[0])
                h.dele(b, k)
                for z in (a, b):
                    h.ops.append("iter %d" % z)
                    for q in sorted(h.ref[z], key=key_sort)[:40:3]:
                        h.get(z, q)
        out.append(h)
    return out

def prof_canon(rng, n, tier):
    """C04: several routes to the same entry set in one history; all roots must coincide"""
    out = []
    for i in range(n):
        h = H("can%d" % i, rng, cache="none")
        target = {}
        kg = h.kg
        for _ in range(rng.randint(0, 40 if tier == "quick" else 120)):
            target[kg.key()] = gen_val(rng, h.vt)
        if rng.random() < 0.1:
            target = {}
        jump = h.kind in (0, 1) and h.bf <= 4 and rng.random() < 0.25
        if jump:
            # many keys of layer 0, none of the layers in between, then one or two keys several layers up:
            # the tree has to grow more than one level at once
            target = {}
            bf = h.bf
            want = bf ** rng.choice([2, 3]) + rng.randint(1, 6)
            v = 1
            while len(target) < want:
                if v % bf:
                    target[("i:%d" if h.kind == 0 else "u:%d") % v] = gen_val(rng, h.vt)
                v += 1
            high = [("i:%d" if h.kind == 0 else "u:%d") % (bf ** rng.randint(3, 5) * rng.choice([1, 1, 2, 3]) * (1 if x == 0 else bf + 1)) for x in range(rng.randint(1, 2))]
            for k in high:
                target[k] = gen_val(rng, h.vt)
            h.tags.add("jump")
        lone_sc = (not jump) and h.kind in (0, 1) and h.bf <= 4 and rng.random() < 0.25
        high = high if jump else []
        if lone_sc:
            # only keys of layer 0, more than bf^2 of them: the canonical tree has height 0
            target = {}
            want = h.bf ** 2 + rng.randint(1, 8)
            v = 1
            while len(target) < want:
                if v % h.bf:
                    target[("i:%d" if h.kind == 0 else "u:%d") % v] = gen_val(rng, h.vt)
                v += 1
        keys = sorted(target, key=key_sort)
        routes = rng.randint(2, 4)
        for rt in range(routes):
            t = h.new()
            order = keys[:]
            mode = rng.choice(["shuffle", "asc", "desc", "detour", "reload", "detour"])
            if jump and rt == 0:
                mode = "lowfirst"; order = [k for k in keys if k not in high] + high
            if mode == "shuffle":
                rng.shuffle(order)
            elif mode == "desc":
                order.reverse()
            if mode in ("detour", "reload"):
                rng.shuffle(order)
                extra = [kg.key() for _ in range(rng.randint(1, 30))]
                extra = [k for k in extra if k not in target]
                seq = [("i", k) for k in order] + [("i", k) for k in extra]
                rng.shuffle(seq)
                cur = t
                for j, (_, k) in enumerate(seq):
                    h.ins(cur, k, target.get(k) or gen_val(rng, h.vt))
                    if mode == "reload" and rng.random() < 0.15:
                        cur = h.load(h.mkroot(cur))
                ex = list(dict.fromkeys(extra)); rng.shuffle(ex)
                for k in ex:
                    h.dele(cur, k)
                    if mode == "reload" and rng.random() < 0.15:
                        cur = h.load(h.mkroot(cur))
                # wrong values corrected by updates
                for k in order:
                    if h.ref[cur].get(k) != target[k]:
                        h.ins(cur, k, target[k])
                t = cur
            else:
                for k in order:
                    h.ins(t, k, target[k])
            h.observe(t)
            h.mkroot(t)
        if jump or lone_sc:
            # one more route: a lone key several layers up, smaller or larger than everything else, is added, the tree is
            # persisted (and perhaps reloaded), and the lone key is deleted again: every key-less level it leaves behind
            # has to go, also when the levels below are held by name only
            pre = "i:%d" if h.kind == 0 else "u:%d"
            low = [k for k in keys if k not in high]
            t = h.new()
            for k in low:
                h.ins(t, k, target[k])
            for k in high:
                h.ins(t, k, target[k])
            top = max(int(k.split(":")[1]) for k in keys)
            lone = pre % (h.bf ** rng.randint(4, 6) * (top // h.bf ** 4 + 1)) if (h.kind == 1 or rng.random() < 0.6) else "i:%d" % -(h.bf ** rng.randint(4, 6))
            if lone not in target:
                h.ins(t, lone, gen_val(rng, h.vt))
                r = h.mkroot(t)
                if rng.random() < 0.6:
                    t = h.load(r)
                h.dele(t, lone)
                h.ops.append("height %d" % t)
                h.observe(t); h.mkroot(t)
                h.tags.add("lone-top-key")
        # emptied vs never populated
        if not target:
            t = h.new(); h.ins(t); h.drain(t); h.mkroot(t); h.tags.add("emptied")
        out.append(h)
    return out

def build_tree(h, t, n):
    for _ in range(n):
        h.ins(t)
    for _ in range(n // 4):
        if h.rng.random() < 0.5:
            h.dele(t)

def prof_nav(rng, n, tier):
    """C10: cursors (Min/Max/Ceil then walks) and SeekIter on trees of all residencies"""
    out = []
    for i in range(n):
        h = H("nav%d" % i, rng)
        t = h.new()
        sz = rng.choice([0, 0, 1, 2, 5, 12, 30, 60])
        build_tree(h, t, sz)
        mode = rng.choice(["mem", "persisted", "mixed", "emptied"])
        if mode == "emptied":
            h.drain(t)
        if mode in ("persisted", "mixed"):
            t = h.load(h.mkroot(t))
        if mode == "mixed":
            mutate(h, t, rng.randint(1, 6))
        h.observe(t)
        for _ in range(rng.randint(2, 6)):
            h.ops.append("seek %d %s" % (t, h.kg.probe()))
        h.ops.append("seekstop %d %s %d" % (t, h.kg.probe(), rng.choice([0, 1, 3])))
        h.ops.append("iterstop %d %d" % (t, rng.choice([0, 2, 7])))
        live = sorted(h.ref[t], key=key_sort)
        for k in live[:3] + live[-2:]:
            h.ops.append("seek %d %s" % (t, k))
        for _ in range(rng.randint(2, 5)):
            c = h.cursor(t)
            start = rng.choice(["cmin", "cmax", "cceil", "cceil"])
            if start == "cceil":
                k = rng.choice(live) if live and rng.random() < 0.4 else h.kg.probe()
                h.ops.append("cceil %d %s" % (c, k))
            else:
                h.ops.append("%s %d" % (start, c))
            h.ops.append("cget %d" % c)
            fwd = rng.random() < 0.5
            for _ in range(rng.randint(1, 2 * len(live) + 4)):
                if rng.random() < 0.15:
                    fwd = not fwd
                h.ops.append(("cfwd %d" if fwd else "cbwd %d") % c)
                h.ops.append("cget %d" % c)
        out.append(h)
    return out

def prof_diff(rng, n, tier, persisted=None):
    """C06 / C07 / C15: ordered pairs of trees and their entry and link diffs"""
    out = []
    for i in range(n):
        if persisted and rng.random() < 0.08:
            # a tall tree (branch factor 2, consecutive integers) with a single change
            h = H("dif%d" % i, rng, cache="none", bf=2, kind=0, vt="int")
            a = h.new()
            lo = rng.randint(1, 40); hi = lo + rng.choice([100, 200, 300])
            for k in range(lo, hi):
                h.ins(a, "i:%d" % k, hx(b"1"))
            a = h.load(h.mkroot(a))
            b = h.clone(a)
            k = rng.randint(lo, hi - 1)
            c = rng.random()
            if c < 0.5:
                h.ins(b, "i:%d" % k, hx(b"2"))
            elif c < 0.75:
                h.dele(b, "i:%d" % k)
            else:
                h.ins(b, "i:%d" % rng.choice([lo - 1, hi, hi + 7]), hx(b"2"))
            h.mkroot(b); b = h.load(h.nr - 1)
            h.tags.add("tall"); h.tags.add("persisted")
            h.ops += ["difflinks %d %d" % (b, a), "diff %d %d" % (b, a), "difflinks %d %d" % (a, b)]
            out.append(h)
            continue
        if persisted and rng.random() < 0.1:
            # a writer with a node cache persists two versions; a reader without the cache (another process) holds the
            # older one: common subtrees must still be recognised as equal and skipped, whichever side is the cached one
            h = H("dif%d" % i, rng, cache="big", bfs=[3, 4, 16])
            w = h.new()
            build_tree(h, w, rng.choice([40, 90, 200]))
            r1 = h.mkroot(w)
            mutate(h, w, rng.randint(1, 3))
            h.mkroot(w)
            x = h.load(r1, nc=True)
            h.tags.add("writer-cache"); h.tags.add("persisted")
            h.ops += ["difflinks %d %d" % (w, x), "diff %d %d" % (w, x), "difflinks %d %d" % (x, w), "diff %d %d" % (x, w)]
            out.append(h)
            continue
        h = H("dif%d" % i, rng, cache="none")
        rel = rng.choice(["descendant", "descendant", "sibling", "unrelated", "unrelated-stores", "empty-old", "empty-new", "emptied", "nil-old", "same", "heights"])
        per = persisted if persisted is not None else rng.random() < 0.6
        a = h.new()
        build_tree(h, a, rng.choice([0, 1, 3, 10, 25, 60]) if rel not in ("heights",) else rng.choice([1, 2, 3]))
        if rel == "descendant":
            if per:
                a = h.load(h.mkroot(a))
            b = h.clone(a); mutate(h, b, rng.randint(1, 10))
        elif rel == "sibling":
            if per:
                a = h.load(h.mkroot(a))
            b = h.clone(a); mutate(h, b, rng.randint(1, 8)); a2 = h.clone(a); mutate(h, a2, rng.randint(1, 8)); a = a2
        elif rel == "unrelated":
            b = h.new(); build_tree(h, b, rng.choice([1, 3, 10, 30]))
        elif rel == "unrelated-stores":
            # the two versions live in different stores (a peer diffing against a replica's tree)
            b = h.new(store=1); build_tree(h, b, rng.choice([1, 3, 10, 30]))
            if rng.random() < 0.5:
                for k in sorted(h.ref[a], key=key_sort)[: rng.randint(0, 6)]:
                    h.ins(b, k, h.ref[a][k])
        elif rel == "empty-old":
            b = a; a = h.new()
        elif rel == "empty-new":
            b = h.new()
        elif rel == "emptied":
            b = h.clone(a); h.drain(b)
            if rng.random() < 0.5:
                a, b = b, a
        elif rel == "nil-old":
            b = a; a = None
        elif rel == "same":
            b = h.clone(a)
        else:
            b = h.clone(a); build_tree(h, b, rng.choice([10, 30, 60]))
            if rng.random() < 0.5:
                a, b = b, a
        if per:
            if a is not None:
                h.mkroot(a)
            h.mkroot(b)
            if rng.random() < 0.5:
                if a is not None:
                    a = h.load(h.nr - 2)
                b = h.load(h.nr - 1, store=1 if rel == "unrelated-stores" else 0)
        h.tags.add(rel); h.tags.add("persisted" if per else "memory")
        old = "-" if a is None else str(a)
        h.ops.append("diff %d %s" % (b, old))
        h.ops.append("difflinks %d %s" % (b, old))
        h.ops.append("diffcur %d %s" % (b, old))
        h.ops.append("diffstop %d %s %d" % (b, old, rng.choice([0, 0, 1, 2, 5])))
        h.ops.append("difffail %d %s %d" % (b, old, rng.choice([0, 1, 3, 50])))
        if a is not None:
            h.ops.append("diff %d %d" % (a, b))
            h.ops.append("difflinks %d %d" % (a, b))
            h.observe(a)
        h.observe(b)
        out.append(h)
    return out

def prof_persist(rng, n, tier):
    """C13 / C16 / C08 / C09 / C05: a persisted version, a batch of modifications, persist again; no cache"""
    out = []
    for i in range(n):
        if i % 12 == 5:
            # set-style use: some values are the nil interface (written as null in both node formats)
            h = H("per%d" % i, rng, cache="none", vt="raw", kind=rng.choice([0, 1, 2]), opts={"nilvals": 1, "callbacks": 0})
            t = h.new()
            for j in range(rng.choice([3, 9, 30])):
                h.ins(t, None, hx(b"null") if rng.random() < 0.6 else None)
            r = h.mkroot(t)
            x = h.load(r); h.observe(x)
            for _ in range(3):
                h.get(x)
            h.ins(x)      # (no nil value after the reload: a reloaded null is a RawMessage, which DeepEqual tells from nil)
            r2 = h.mkroot(x); y = h.load(r2); h.observe(y)
            out.append(h)
            continue
        if i % 12 == 11:
            # one wide node: the number of entries (and of links) of a node sits at a varint boundary
            h = H("per%d" % i, rng, cache="none", bf=rng.choice([300, 1000]), kind=rng.choice([0, 1]))
            pre = "i:%d" if h.kind == 0 else "u:%d"
            t = h.new()
            cnt = rng.choice([126, 127, 128, 129])
            v = 1
            while len(h.ref[t]) < cnt:
                if v % h.bf:
                    h.ins(t, pre % v, gen_val(rng, h.vt))
                v += 1
            x = h.load(h.mkroot(t)); h.observe(x)
            h.ins(x, pre % (v + 1), gen_val(rng, h.vt)); h.ins(x, pre % (v + 3), gen_val(rng, h.vt))
            x = h.load(h.mkroot(x)); h.observe(x)
            out.append(h)
            continue
        h = H("per%d" % i, rng, cache="none", bfs=BFS_ALL if tier == "thorough" else BFS_SMALL + [16])
        t = h.new()
        build_tree(h, t, rng.choice([0, 1, 4, 15, 40, 90]))
        r = h.mkroot(t)
        h.ops.append("dirty %d" % t)
        h.mkroot(t)                                   # no-op persist
        x = h.load(r)
        h.ops.append("dirty %d" % x)
        h.mkroot(x)                                   # no-op persist of a freshly loaded tree
        for _ in range(rng.randint(1, 4)):
            kind = rng.choice(["point", "point", "batch", "noop", "reinsert", "drain", "deltop", "deltop"])
            if kind == "point":
                for _ in range(rng.randint(1, 5)):
                    c = rng.random()
                    if c < 0.4:
                        h.get(x)
                    elif c < 0.7:
                        h.ins(x)
                    else:
                        h.dele(x)
                    h.ops.append("height %d" % x)
            elif kind == "batch":
                mutate(h, x, rng.randint(1, 12))
            elif kind == "deltop":
                # delete the keys of the highest layer (the top node's keys), one persist check after each
                live = sorted(h.ref[x], key=key_sort)
                if live:
                    ml = max(key_layer(k, h.bf) for k in live)
                    tops = [k for k in live if key_layer(k, h.bf) == ml][:3]
                    for k in tops[:-1]:
                        h.dele(x, k)
                    if tops[:-1]:
                        h.mkroot(x); x = h.load(h.nr - 1) if rng.random() < 0.5 else x
                    h.dele(x, tops[-1])
                    h.ops.append("height %d" % x)
            elif kind == "noop":
                h.upd(x, same=True); h.del_bad(x); h.get(x)
            elif kind == "reinsert":
                live = sorted(h.ref[x], key=key_sort)
                if live:
                    k = rng.choice(live); v = h.ref[x][k]
                    h.dele(x, k); h.ins(x, k, v)
            else:
                h.drain(x)
            h.ops.append("dirty %d" % x)
            h.ops.append("height %d" % x)
            if rng.random() < 0.4:
                # a clone of a tree with unsaved changes has unsaved changes too; persisting it writes them
                c2 = h.clone(x)
                h.ops.append("dirty %d" % c2)
                if rng.random() < 0.5:
                    h.mkroot(c2); h.ops.append("dirty %d" % c2)
            r2 = h.mkroot(x)
            h.ops.append("dirty %d" % x)
            if h.fmt == "v1" and rng.random() < 0.5:
                # the root as an application that predates NodeFormat keeps it: no format field (= v1marshaler)
                r3 = h.nr; h.nr += 1
                h.ops.append("rootset %d %d - - - empty 0" % (r3, r2)); h.roots[r3] = dict(h.roots[r2])
                y = h.load(r3); h.observe(y)
            if rng.random() < 0.5:
                x = h.load(r2)
            h.observe(x)
        out.append(h)
    return out

def prof_malformed(rng, n, tier):
    """C19: valid roots, then perturbed Root fields / loader configuration / top-node bytes"""
    out = []
    for i in range(n):
        if i % 5 == 4:
            # an intact root loaded under a caller-supplied key order that differs from the builder's (decimal text):
            # must be rejected exactly when the top node's neighbours are out of order under it (oracle only: nomodel)
            h = H("mal%d" % i, rng, cache="none", kind=rng.choice([0, 1]), bf=rng.choice([16, 17, 5]), opts={"nomodel": 1, "callbacks": 0})
            pre = "i:%d" if h.kind == 0 else "u:%d"
            t = h.new()
            vs = rng.sample(range(2, 400), rng.randint(2, 12))
            if rng.random() < 0.6:
                vs.append(1)      # "1" is the smallest key under both orders: only the later neighbours are out of order
            order = rng.choice(["text", "half", "default"])
            if order == "default":
                # the tree is built under a caller-supplied DESCENDING order and then opened by a reader that configures
                # no order: rejected exactly when the top node has two or more keys (they descend under the default order)
                h.opts["desc"] = 1
            if order == "half":
                # a coarser order: neighbours 2k, 2k+1 compare equal under it (reject), other sets stay ascending (accept)
                vs = sorted(set(2 * v for v in vs))
                if rng.random() < 0.6:
                    vs.append(rng.choice(vs) + 1)
            for v in vs:
                h.ins(t, pre % v, gen_val(rng, h.vt))
            r = h.mkroot(t)
            h.ops.append("loadord %d %d 0 %d %s" % (r, h.nt, h.kind, order)); h.nt += 1
            out.append(h)
            continue
        if i % 5 == 2:
            # structural damage of a binary-format top node (with and without children): the last links removed (some
            # stay), empty links appended, values removed - every decodable slice, but the counts no longer fit each
            # other, so the root must be rejected (judged by the oracle's own decoder: nomodel)
            h = H("mal%d" % i, rng, cache="none", fmt="bin", kind=rng.choice([0, 1, 2]), bfs=[2, 3, 4], opts={"nomodel": 1})
            t = h.new(store=3)
            build_tree(h, t, rng.choice([3, 12, 40, 90]))
            r = h.mkroot(t)
            x = h.load(r, store=3)
            h.ops.append("iter %d" % x)                  # intact: loads
            h.ops.append("corrupt 3 %d %s %d" % (r, rng.choice(["droplink", "droplink", "addlink", "dropvalue"]), rng.choice([1, 1, 2, 3])))
            y = h.nt; h.nt += 1
            h.ops.append("load %d %d 3 %d" % (r, y, h.kind)); h.ref[y] = None
            h.ops.append("iter %d" % y)
            h.tags.add("corrupt")
            out.append(h)
            continue
        h = H("mal%d" % i, rng, cache=rng.choice(["none", "big"]), kind=rng.choice([0, 0, 1, 2, 5]))
        t = h.new()
        build_tree(h, t, rng.choice([0, 1, 2, 5, 15, 40]))
        if rng.random() < 0.15:
            h.drain(t)
        r = h.mkroot(t)
        x = h.load(r); h.observe(x)                      # the guard is not vacuous: the right config loads
        for _ in range(rng.randint(2, 6)):
            r2 = h.nr; h.nr += 1
            c = rng.choice(["fmt", "height", "bf", "kind", "store", "size", "raise", "raise"])
            h.roots[r2] = dict(h.roots[r])
            kind = h.kind
            store = 0
            if c == "fmt":
                f = rng.choice([b"v2", b"V1Marshaler", b"v1.1.5", b"json", "empty", "other"])
                if f == "other":
                    f = b"v1marshaler" if h.fmt == "bin" else b"v1.1.5binary"
                h.ops.append("rootset %d %d - - - %s 0" % (r2, r, f if f == "empty" else hx(f)))
            elif c == "height":
                h.ops.append("rootset %d %d - %d - - 0" % (r2, r, rng.choice([0, 1, 2, 3, 5, 9])))
            elif c == "raise":
                # a recorded height above the layers of the top node's keys: must be rejected whether the node
                # comes from the store or from a warm cache
                h.ops.append("rootset %d %d - %d - - 0" % (r2, r, rng.choice([7, 9, 12, 30])))
            elif c == "bf":
                h.ops.append("rootset %d %d - - %d - 0" % (r2, r, rng.choice([2, 3, 4, 5, 7, 16, 64])))
            elif c == "size":
                h.ops.append("rootset %d %d %d - - - 0" % (r2, r, rng.choice([0, 1, 1000])))
            elif c == "kind":
                h.ops.append("rootset %d %d - - - - 0" % (r2, r))
                kind = rng.choice([k for k in (0, 1, 2, 3, 5) if k != h.kind])
            else:
                h.ops.append("rootset %d %d - - - - 0" % (r2, r)); store = 7
            y = h.nt; h.nt += 1
            h.ops.append("load %d %d %d %d" % (r2, y, store, kind))
            h.tags.add("perturb-" + c)
            h.ref[y] = None
            h.ops.append("iter %d" % y)
        # byte-level damage of the top node (a private store copy: corrupt after a fresh persist into store 3)
        for _ in range(rng.randint(2, 8)):
            t3 = h.nt; h.nt += 1
            h.ops.append("new %d 3 %d %s %d" % (t3, h.bf, h.fmt, h.kind)); h.ref[t3] = {}
            for k, v in sorted(h.ref[t].items(), key=lambda kv: key_sort(kv[0])):
                h.ins(t3, k, v)
            r3 = h.mkroot(t3)
            off = rng.randint(0, 40)
            nb = rng.choice(["-", "-", "0", "1", "255", "200", "44", "93", str(rng.randrange(256))])
            h.ops.append("corrupt 3 %d %d %s" % (r3, off, nb))
            y = h.nt; h.nt += 1
            h.ops.append("load %d %d 3 %d" % (r3, y, h.kind)); h.ref[y] = None
            h.ops.append("iter %d" % y)
            h.tags.add("corrupt")
            break  # one corruption per history: later persists into store 3 would be skipped by nothing, but keep it simple
        out.append(h)
    return out

PROFILES = {"map": prof_map, "versions": prof_versions, "canon": prof_canon, "nav": prof_nav, "diff": prof_diff,
            "persist": prof_persist, "malformed": prof_malformed}

def prof_faults(rng, n, tier):
    """C12: a persisted tree reloaded into mixed residency, then target operations each of which is
    re-run with a fault at every Load / KeyCompare / Marshal call it makes"""
    out = []
    for i in range(n):
        if i % 4 == 3:
            # deep deletes: a dense tree of height >= 2 reloaded from the store, some leaves touched so that parts of
            # it are private in-memory nodes, then deletes of the keys of the upper layers (merges across levels)
            h = H("flt%d" % i, rng, cache="none", kind=rng.choice([0, 1]), vt="int", bfs=[2, 3, 4])
            bf = h.bf; pre = "i:%d" if h.kind == 0 else "u:%d"
            N = rng.randint(bf ** 3 + 1, bf ** 3 + 3 * bf ** 2)
            t = h.new()
            for v in range(1, N + 1):
                h.ins(t, pre % v, gen_val(rng, h.vt))
            x = h.load(h.mkroot(t))
            for _ in range(rng.randint(1, 4)):
                h.ins(x, pre % rng.randint(1, N), gen_val(rng, h.vt))
            h.opts["from"] = len(h.ops)
            ups = [v for v in range(1, N + 1) if v % (bf * bf) == 0]
            rng.shuffle(ups)
            for v in ups[: rng.randint(2, 5)]:
                h.dele(x, pre % v)
            out.append(h)
            continue
        h = H("flt%d" % i, rng, cache="none", kind=rng.choice([0, 0, 1, 2, 4, 5]), vt=rng.choice(["int", "raw"]), bfs=[2, 2, 3, 4])
        t = h.new()
        build_tree(h, t, rng.choice([3, 8, 20, 45]))
        old = h.load(h.mkroot(t))
        x = h.load(h.nr - 1)
        if rng.random() < 0.5:
            mutate(h, x, rng.randint(1, 4))
        h.opts["from"] = len(h.ops)
        for _ in range(rng.randint(3, 8)):
            c = rng.random()
            if c < 0.35:
                h.ins(x)
            elif c < 0.6:
                h.dele(x)
            elif c < 0.68:
                h.get(x)
            elif c < 0.74:
                h.ops.append("iter %d" % x)
            elif c < 0.8:
                h.ops.append("seek %d %s" % (x, h.kg.probe()))
            elif c < 0.86:
                h.ops.append("diff %d %d" % (x, old)); h.ops.append("difflinks %d %d" % (x, old))
            elif c < 0.9:
                h.clone(x)
            else:
                cu = h.cursor(x)
                h.ops.append(rng.choice(["cmin %d", "cmax %d"]) % cu)
                for _ in range(rng.randint(1, 4)):
                    h.ops.append(rng.choice(["cfwd %d", "cbwd %d"]) % cu)
        if rng.random() < 0.3:
            # drain towards empty: exercises merge and the shrink loop
            for k in sorted(h.ref[x], key=key_sort)[: rng.randint(1, 12)]:
                h.dele(x, k)
        out.append(h)
    return out

PROFILES["faults"] = prof_faults

def prof_sched(rng, n, tier):
    """C03: trees with dirty nodes (fresh, or modified after a persist / reload), then MakeRoot under
    controlled completion orders and failing writes; some share a cache across stores with different prefixes"""
    out = []
    for i in range(n):
        shape = rng.choice(["fresh", "fresh", "modified", "reloaded", "big", "xcache"])
        h = H("sch%d" % i, rng, cache="big" if shape == "xcache" else rng.choice(["none", "none", "big"]),
              kind=rng.choice([0, 0, 1, 2, 5]), vt=rng.choice(["int", "raw"]), bfs=[2, 2, 3, 4])
        t = h.new()
        if shape == "big":
            for _ in range(rng.choice([120, 250])):
                h.ins(t)
        else:
            build_tree(h, t, rng.choice([1, 4, 12, 30]))
        if shape == "modified":
            h.mkroot(t); mutate(h, t, rng.randint(1, 8))
        elif shape == "reloaded":
            t = h.load(h.mkroot(t)); mutate(h, t, rng.randint(1, 8))
        elif shape == "xcache":
            # the same contents are first persisted into another store through the shared cache
            t1 = h.nt; h.nt += 1
            h.ops.append("new %d 1 %d %s %d" % (t1, h.bf, h.fmt, h.kind)); h.ref[t1] = {}
            for k, v in sorted(h.ref[t].items(), key=lambda kv: key_sort(kv[0])):
                h.ins(t1, k, v)
            h.mkroot(t1)
        h.opts["from"] = len(h.ops)
        h.opts["nsched"] = 3 if tier == "quick" else 8
        h.mkroot(t)
        h.tags.add(shape)
        out.append(h)
    return out

PROFILES["sched"] = prof_sched


def prof_keyfuncs(rng, n, tier):
    """C14: layers of keys of every built-in kind at many branch factors, and the default key order"""
    out = []
    for i in range(n):
        kind = rng.choice([0, 1, 2, 3, 4])
        h = H("kf%d" % i, rng, kind=kind, cache="none", vt="int")
        kg = KeyGen(rng, kind, h.bf, span=60)
        keys = [kg.probe() for _ in range(12)]
        if kind == 0:
            keys += ["i:%d" % v for v in (0, -1, 2 ** 63 - 1, -2 ** 63 + 1, rng.randint(-2 ** 62, 2 ** 62), 16 ** rng.randint(1, 15), -(3 ** rng.randint(1, 39)))]
        if kind == 1:
            keys += ["u:%d" % v for v in (0, 2 ** 64 - 1, 2 ** 63, rng.randint(0, 2 ** 64 - 1), 2 ** rng.randint(1, 63), 7 ** rng.randint(1, 22))]
        if i % 4 == 3:
            # the narrower built-in integer types: layered as integers, ordered by their JSON text (10 before 9)
            bits = rng.choice([8, 16, 32]); sg = rng.choice(["ni", "nu"])
            lo, hi = (-(2 ** (bits - 1)), 2 ** (bits - 1) - 1) if sg == "ni" else (0, 2 ** bits - 1)
            vals = [lo, hi, 0, 9, 10, 99, 100, 16, 64] + [rng.randint(lo, hi) for _ in range(8)] + [rng.choice([2, 3, 4, 16]) ** rng.randint(1, 6) for _ in range(3)]
            if sg == "ni":
                vals += [-1, -9, -10, -16]
            keys = ["%s:%d:%d" % (sg, bits, v) for v in vals if lo <= v <= hi]
        for k in keys:
            for bf in (2, 3, 4, 16, rng.choice([5, 7, 10, 17, 100, 255, 256, 1000])):
                h.ops.append("layer %s %d" % (k, bf))
        for _ in range(25):
            h.ops.append("cmp %s %s" % (rng.choice(keys), rng.choice(keys)))
        out.append(h)
    return out

PROFILES["keyfuncs"] = prof_keyfuncs

def prof_dual(rng, n, tier):
    """C05 / C18 / C02: the same contents written through one shared node cache to two stores (a dual
    write), each root then loaded from its own store WITHOUT the cache (what a restarted process or a
    replica sees), modified, persisted and loaded again"""
    out = []
    for i in range(n):
        h = H("dual%d" % i, rng, cache=rng.choice(["big", "big", "tiny"]), bfs=BFS_SMALL + [16])
        a = h.new(store=0); b = h.new(store=1)
        script_start = len(h.ops)
        build_tree(h, a, rng.choice([4, 15, 40, 90]))
        # replay the very same updates on the second tree
        for op in list(h.ops[script_start:]):
            tk = op.split()
            if tk[0] in ("ins", "del") and int(tk[1]) == a:
                h.ops.append(" ".join([tk[0], str(b)] + tk[2:]))
        h.ref[b] = dict(h.ref[a])
        order = [(a, 0), (b, 1)] if rng.random() < 0.5 else [(b, 1), (a, 0)]
        rs = {}
        for t, st in order:
            rs[st] = h.mkroot(t)
        for st in (1, 0):
            x = h.load(rs[st], store=st, nc=True); h.observe(x)
            mutate(h, x, rng.randint(1, 6))
            r2 = h.mkroot(x)
            y = h.load(r2, store=st, nc=rng.random() < 0.7); h.observe(y)
        out.append(h)
    return out
PROFILES["dual"] = prof_dual

def prof_race(rng, n, tier, cache=None, tag="rac"):
    """C11: goroutines that each own trees derived from common persisted roots, one store, one cache"""
    out = []
    for i in range(n):
        h = H("%s%d" % (tag, i), rng, cache=cache or rng.choice(["big", "tiny", "big", "none"]), kind=rng.choice([0, 0, 1, 2, 5]), vt=rng.choice(["int", "raw"]), bfs=[2, 3, 4, 16])
        t0 = h.new()
        build_tree(h, t0, rng.choice([5, 20, 60, 150]))
        r0 = h.mkroot(t0)
        mutate(h, t0, rng.randint(1, 10))
        r1 = h.mkroot(t0)
        nthreads = rng.randint(2, 6)
        replicas = rng.random() < 0.35      # the goroutines apply the same changes: their new nodes have the same names
        script = None
        starts = []
        for th in range(1, nthreads + 1):
            # each goroutine gets its own tree: a clone made during setup, or a root it loads itself
            if rng.random() < 0.5:
                h.nt = 100 * th
                starts.append(("clone", h.clone(t0)))
            else:
                starts.append(("load", rng.choice([r0, r1])))
        for th, (how, x) in enumerate(starts, start=1):
            h.nt = 100 * th + 10; h.nr = 100 * th; h.nc = 100 * th
            mark = len(h.ops)
            t = x if how == "clone" else h.load(x)
            if replicas:
                # the same changes in every goroutine (equal node names), persisted and reloaded through the shared
                # cache, then changes of its own: a node one goroutine is still persisting must not reach another
                if script is None:
                    script = [(h.kg.key(), gen_val(rng, h.vt)) for _ in range(rng.randint(3, 20))]
                for j, (k, v) in enumerate(script):
                    h.ins(t, k, v)
                    if j % 5 == 4:
                        t = h.load(h.mkroot(t))
                t = h.load(h.mkroot(t))
                for (k, v) in script[: rng.randint(1, len(script))]:
                    h.ins(t, k, gen_val(rng, h.vt))
                h.observe(t)
                t = h.load(h.mkroot(t))
                h.observe(t)
                h.ops[mark:] = ["@%d %s" % (th, o) for o in h.ops[mark:]]
                continue
            for _ in range(rng.randint(5, 25 if tier == "quick" else 60)):
                c = rng.random()
                if c < 0.45:
                    h.ins(t)
                elif c < 0.6:
                    h.dele(t)
                elif c < 0.7:
                    h.get(t)
                elif c < 0.78:
                    h.ops.append("iter %d" % t)
                elif c < 0.86:
                    r = h.mkroot(t)
                    if rng.random() < 0.4:
                        t = h.load(r)
                elif c < 0.9:
                    t = h.clone(t)
                elif c < 0.95:
                    h.ops.append("diff %d %d" % (t, t0)) if False else h.ops.append("seek %d %s" % (t, h.kg.probe()))
                else:
                    cu = h.cursor(t); h.ops += ["cmin %d" % cu, "cfwd %d" % cu, "cget %d" % cu]
            h.observe(t)
            h.ops[mark:] = ["@%d %s" % (th, o) for o in h.ops[mark:]]
        h.opts["threads"] = nthreads
        if replicas:
            h.opts["slowstore"] = 2
        elif rng.random() < 0.5:
            h.opts["slowstore"] = 1
        out.append(h)
    return out

PROFILES["race"] = prof_race
