#!/usr/bin/env python3
"""./check <Cxx> [--tier quick|thorough] [--replay FILE]

Decides one property: (1) the Coq obligations of coq/Properties/<Cxx>.v are re-checked against the
compiled model; (2) the harness is rebuilt from /repo's working tree; (3) generated histories are run
by the implementation and by the extracted model and their projected observables compared;
(4) model-independent oracles are evaluated on the implementation's observations; (5) verdict,
replay file and evidence are written.  See DESIGN.md section 6."""
import sys, os, json, time, subprocess, random, hashlib, re, shutil, argparse, glob

ROOT = os.path.dirname(os.path.dirname(os.path.abspath(__file__)))
sys.path.insert(0, os.path.join(ROOT, "tools"))
import gen, oracle, lib
from props import PROPS, TRUSTED_BASE, ASSUMPTIONS

BUILD = os.path.join(ROOT, "build")
GOENV = dict(os.environ, GOFLAGS="-mod=mod", GOPROXY="off", GOSUMDB="off", GOTOOLCHAIN="local", CGO_ENABLED=os.environ.get("CGO_ENABLED", "0"))

def sh(cmd, timeout=1200, env=None, cwd=None, inp=None):
    p = subprocess.run(cmd, shell=isinstance(cmd, str), stdout=subprocess.PIPE, stderr=subprocess.STDOUT,
                       timeout=timeout, env=env, cwd=cwd, input=inp)
    return p.returncode, p.stdout.decode(errors="replace")

# ------------------------------------------------------------------------------------------ builds
def build_coq():
    """full .vo build of the development (a no-op when up to date)"""
    coq = os.path.join(ROOT, "coq")
    if not os.path.exists(os.path.join(coq, "Makefile")):
        rc, out = sh("coq_makefile -f _CoqProject -o Makefile", cwd=coq)
        if rc:
            return False, out
    rc, out = sh("timeout 3000 make -j16", cwd=coq, timeout=3100)
    return rc == 0, out

def build_driver():
    oc = os.path.join(ROOT, "ocaml")
    src = [os.path.join(ROOT, "coq", f) for f in os.listdir(os.path.join(ROOT, "coq")) if f.endswith(".v")] + [os.path.join(oc, "driver.ml")]
    drv = os.path.join(oc, "driver")
    if os.path.exists(drv) and all(os.path.getmtime(drv) >= os.path.getmtime(s) for s in src):
        return True, ""
    rc, out = sh("coqc -Q ../coq Mast ../coq/Extract.v && ocamlfind ocamlopt -O2 -w -a -package str model.mli model.ml driver.ml -o driver", cwd=oc)
    return rc == 0, out

def build_go(race=False):
    os.makedirs(BUILD, exist_ok=True)
    h = os.path.join(ROOT, "harness")
    shutil.copy("/repo/go.sum", os.path.join(h, "go.sum"))
    outp = os.path.join(BUILD, "mastrun-race" if race else "mastrun")
    env = dict(GOENV)
    if race:
        env["CGO_ENABLED"] = "1"
    rc, out = sh("go build %s -o %s ./cmd/mastrun" % ("-race" if race else "", outp), cwd=h, env=env, timeout=900)
    return rc == 0, out, outp

# ------------------------------------------------------------------------------------------ proofs
GATE = re.compile(r"\b(Admitted|admit|Axiom|Parameter|Conjecture|bypass_check)\b|Unset Guard|type-in-type|Admit Obligations")

def strip_comments(src):
    out = []; depth = 0; i = 0
    while i < len(src):
        if src.startswith("(*", i):
            depth += 1; i += 2
        elif src.startswith("*)", i) and depth:
            depth -= 1; i += 2
        else:
            if not depth:
                out.append(src[i])
            i += 1
    return "".join(out)

def proofs(pid, tier="quick"):
    """re-check the property file; returns dict(obligations, discharged, theorems, assumptions, ok, log)"""
    coq = os.path.join(ROOT, "coq")
    res = {"obligations": 0, "discharged": 0, "theorems": [], "assumptions": {}, "ok": False, "log": "", "gate": []}
    for f in sorted(glob.glob(os.path.join(coq, "*.v")) + glob.glob(os.path.join(coq, "Properties", "*.v"))):
        for i, line in enumerate(strip_comments(open(f).read()).split("\n")):
            if GATE.search(line):
                res["gate"].append("%s:%d: %s" % (os.path.relpath(f, ROOT), i + 1, line.strip()))
    pf = os.path.join(coq, "Properties", pid + ".v")
    if not os.path.exists(pf):
        res["log"] = "no property file"; return res
    src = strip_comments(open(pf).read())
    thms = re.findall(r"\b(?:Theorem|Corollary)\s+(\w+)", src)
    res["theorems"] = thms; res["obligations"] = len(thms)
    ok, out = build_coq()
    if not ok:
        res["log"] = out[-3000:]; return res
    rc, out = sh("timeout 600 coqc -Q . Mast Properties/%s.v" % pid, cwd=coq, timeout=700)
    res["log"] = out[-3000:]
    if rc:
        return res
    # Print Assumptions output: "Closed under the global context" or "Axioms:\n name : type ..."
    blocks = re.split(r"(?=Closed under the global context|Axioms:)", out)
    names = re.findall(r"Print Assumptions\s+(\w+)", src)
    axioms = set()
    for b in blocks:
        if b.startswith("Axioms:"):
            for m in re.finditer(r"^(\S+)\s*:", b[7:], re.M):
                axioms.add(m.group(1))
    res["assumptions"] = {"printed_for": names, "axioms": sorted(axioms),
                          "closed": out.count("Closed under the global context")}
    res["discharged"] = len(thms) if not res["gate"] else 0
    res["ok"] = not res["gate"] and len(names) >= len(thms) and not (axioms - ALLOWED_AXIOMS)
    if tier == "thorough" and res["ok"]:
        # the independent checker re-checks the compiled property file and everything it depends on
        import time
        t0 = time.time()
        rc, out = sh("timeout 3000 coqchk -silent -o -Q . Mast Mast.Properties.%s" % pid, cwd=coq, timeout=3100)
        m = re.search(r"\* Axioms:\s*(.*?)\n\s*\n", out, re.S)
        ax = m.group(1).strip() if m else "?"
        unsafe = [l.strip() for l in out.split("\n") if l.strip().startswith("*") and "<none>" not in l and "Theory:" not in l and "Axioms:" not in l]
        res["coqchk"] = {"ran": True, "exit": rc, "axioms": ax, "seconds": round(time.time() - t0), "other_flags": unsafe}
        if rc or ax != "<none>" or unsafe:
            res["ok"] = False; res["log"] += "\ncoqchk: " + out[-1500:]
    return res

ALLOWED_AXIOMS = set()   # the development is axiom-free; anything printed here fails the check

# ------------------------------------------------------------------------------------------ running histories
class RunnerCrash(Exception):
    """the implementation killed the harness process; .text is the (smallest found) history input that does it"""
    def __init__(self, text, fatal, log, crashes):
        Exception.__init__(self, "go runner failed: " + fatal)
        self.text, self.fatal, self.log, self.crashes = text, fatal, log, crashes

def run_hist(histories, tag, go_bin, want_model=True):
    os.makedirs(BUILD, exist_ok=True)
    hp = os.path.join(BUILD, tag + ".hist")
    with open(hp, "w") as f:
        for h in histories:
            f.write(h.text() if hasattr(h, "text") else h)
    rc, out = sh("%s run < %s > %s.go" % (go_bin, hp, hp), timeout=1800)
    if rc:
        # the implementation took the whole process down (fatal error, deadlock, runaway recursion): find the history that does it
        texts = [h.text() if hasattr(h, "text") else h for h in histories]
        fatal = next((l for l in out.split("\n") if l.startswith(("fatal error", "panic:", "runtime: goroutine stack"))), out[:200])
        def crashes(ts):
            with open(hp + ".iso", "w") as f:
                f.write("".join(ts))
            for _ in range(3):   # the crash can depend on timing: try a few times before deciding this part is harmless
                r, _ = sh("%s run < %s.iso > /dev/null" % (go_bin, hp), timeout=600)
                if r != 0:
                    return True
            return False
        while len(texts) > 1:
            half = texts[:len(texts) // 2]
            if crashes(half):
                texts = half
            elif crashes(texts[len(texts) // 2:]):
                texts = texts[len(texts) // 2:]
            else:
                break   # only the combination crashes: keep all of them
        raise RunnerCrash("".join(texts), fatal, out[:3000], lambda t: crashes([t]))
    go = lib.read_obs(hp + ".go")
    ml = None
    if want_model:
        # histories marked nomodel=1 (operations outside the model, judged by the oracle alone) are not given to the model
        mp = hp + ".m"
        texts = []
        for h in histories:
            t = h.text() if hasattr(h, "text") else h
            if "nomodel=1" not in t.split("\n", 1)[0]:
                texts.append(t)
        with open(mp, "w") as f:
            f.write("".join(texts))
        # the extracted model is single-threaded: large batches are split into shards run side by side
        # (every history starts from the empty world, so shards are independent)
        nsh = 1 if len(texts) < 64 else min(12, (len(texts) + 31) // 32)
        size = sum(len(t) for t in texts)
        shards = [[] for _ in range(nsh)]; load = [0] * nsh
        for t in texts:
            i = load.index(min(load)); shards[i].append(t); load[i] += len(t)
        procs = []
        drv = os.path.join(ROOT, "ocaml", "driver")
        me = os.getpid()     # shard files are private to this run
        for i, sh_texts in enumerate(shards):
            with open("%s.%d.%d" % (mp, me, i), "w") as f:
                f.write("".join(sh_texts))
            procs.append(subprocess.Popen("%s < %s.%d.%d > %s.ml.%d.%d" % (drv, mp, me, i, hp, me, i), shell=True, stdout=subprocess.PIPE, stderr=subprocess.STDOUT))
        ml = {}
        for i, pr in enumerate(procs):
            try:
                out, _ = pr.communicate(timeout=7200)
            except subprocess.TimeoutExpired:
                for q in procs:
                    q.kill()
                raise RuntimeError("model driver timed out on shard %d of %d (%d bytes of histories)" % (i, nsh, size))
            if pr.returncode:
                raise RuntimeError("model driver failed: " + out.decode("latin-1")[-2000:])
            ml.update(lib.read_obs("%s.ml.%d.%d" % (hp, me, i)))
        for i in range(nsh):
            for q in ("%s.%d.%d" % (mp, me, i), "%s.ml.%d.%d" % (hp, me, i)):
                try:
                    os.remove(q)
                except OSError:
                    pass
    return go, ml

def split_hist(text):
    """history text -> (header, [op lines])"""
    lines = [l for l in text.split("\n") if l.strip()]
    return lines[0], lines[1:]

def project(ob, op, mode, nocache=True):
    """the observable compared between model and implementation for this property"""
    o = {"f": ob["outcome"] + " " + ob["payload"]}
    if mode.get("links_as_sets") and op.startswith("difflinks") and ob["payload"].startswith("d:"):
        ev = [x for x in ob["payload"][2:].split(";") if x]
        o["f"] = ob["outcome"] + " A=" + ",".join(sorted(x[1:] for x in ev if x[0] == "A")) + " R=" + ",".join(sorted(x[1:] for x in ev if x[0] == "R"))
    if mode.get("only") and op.split()[0] not in mode["only"]:
        o["f"] = "" if mode.get("ignore_others") else ob["outcome"]
    if mode.get("stores") == "eq" and nocache:
        o["s"] = sorted(ob["stores"])
    if mode.get("loads") == "eq":
        o["l"] = ob["loads"]
    return o

GAPS = []

def correspond(histories, go, ml, mode):
    """-> list of disagreements (hid, idx, op, impl, model)"""
    dis = []
    for h in histories:
        hdr, ops = split_hist(h.text() if hasattr(h, "text") else h)
        hid = hdr.split()[1]
        if "nomodel=1" in hdr:
            continue
        g, m = go.get(hid, []), ml.get(hid, [])
        corrupted = set()
        for idx, op in enumerate(ops):
            if op.startswith("corrupt "):
                corrupted.add(op.split()[2])
            if op.startswith("rootset ") and "cache=none" not in hdr:
                # the model has no node cache: with one, a perturbed root may be served from the cache
                corrupted.add(op.split()[1])
            if idx >= len(g) or idx >= len(m):
                dis.append((hid, idx, op, "missing", "missing")); break
            nocache = "cache=none" in hdr
            pg, pm = project(g[idx], op, mode, nocache), project(m[idx], op, mode, nocache)
            if (op.startswith("load ") and op.split()[1] in corrupted and g[idx]["outcome"] != m[idx]["outcome"]
                    and g[idx]["outcome"] in ("ok", "err")):
                # element bodies are opaque to the model: encoding/json rejects some damaged key or
                # value bodies that the model passes through and accepts some non-canonical ones that
                # the model's strict parsers reject.  Damaged top nodes are judged by the oracle's
                # independent decoder (tools/oracle.py check_reject); the disagreement is counted.
                GAPS.append((hid, idx)); break
            bad = pg != pm
            if not bad and (mode.get("stores") == "sub" or (mode.get("stores") == "eq" and not nocache)):
                # with a node cache the implementation may skip writes of nodes the cache has seen
                bad = not set(x.partition(":")[0] for x in g[idx]["stores"]) <= set(x.partition(":")[0] for x in m[idx]["stores"])
                pg["s"] = g[idx]["stores"]; pm["s"] = m[idx]["stores"]
            if not bad and mode.get("loads") == "sub" and "cache=none" in hdr:
                bad = not set(g[idx]["loads"]) <= set(m[idx]["loads"])
                pg["l"] = g[idx]["loads"]; pm["l"] = m[idx]["loads"]
            if bad:
                dis.append((hid, idx, op, pg, pm))
                break      # later operations of this history depend on the diverged state
    return dis

# ------------------------------------------------------------------------------------------ shrinking
def shrink(header, ops, still_fails, budget=250):
    """delta debugging on the operation list; still_fails(ops) -> bool (must reject malformed histories)"""
    n = 2
    cur = list(ops)
    while len(cur) >= 2 and budget > 0:
        chunk = max(1, len(cur) // n)
        reduced = False
        for i in range(0, len(cur), chunk):
            cand = cur[:i] + cur[i + chunk:]
            budget -= 1
            if cand and still_fails(cand):
                cur = cand; n = max(n - 1, 2); reduced = True
                break
            if budget <= 0:
                break
        if not reduced:
            if chunk == 1:
                break
            n = min(n * 2, len(cur))
    return cur

# ------------------------------------------------------------------------------------------ main
def main():
    ap = argparse.ArgumentParser()
    ap.add_argument("prop")
    ap.add_argument("--tier", default=os.environ.get("VERIF_TIER", "quick"))
    ap.add_argument("--replay")
    a = ap.parse_args()
    pid = a.prop
    tier = a.tier if a.tier in ("quick", "thorough") else "quick"
    seed = int(os.environ.get("VERIF_SEED", "1") or 1)
    t0 = time.time()
    spec = PROPS[pid]
    os.makedirs(os.path.join(ROOT, "replays"), exist_ok=True)
    os.makedirs(os.path.join(ROOT, "evidence"), exist_ok=True)

    from engine import Engine
    eng = Engine(pid, spec, tier, seed, sys.modules[__name__])
    if a.replay:
        sys.exit(eng.replay(a.replay))
    try:
        rc = eng.run()
    except Exception:
        # the machinery itself broke on this tree (the harness crashed, produced unreadable output, timed out ...):
        # the property is no longer shown to hold, so this is reported as a violation, not swallowed
        import traceback
        tb = traceback.format_exc()
        p = eng.write_replay("engine-failure", "", extra={"note": "the check could not be completed on this tree", "traceback": tb[-4000:]})
        print(tb[-1500:])
        print("VIOLATION property=%s replay=%s no-failing-input-found" % (pid, p))
        eng.violations = 1
        try:
            eng.write_evidence(time.time() - t0)
        except Exception:
            pass
        sys.exit(1)
    eng.write_evidence(time.time() - t0)
    sys.exit(rc)

if __name__ == "__main__":
    main()
