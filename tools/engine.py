"""The generic check engine: proofs, builds, histories, correspondence, oracles, verdict, evidence."""
import os, sys, json, time, random, hashlib, collections
import gen, oracle, lib

ROOT = os.path.dirname(os.path.dirname(os.path.abspath(__file__)))

def load_known():
    p = os.path.join(ROOT, "known_findings.json")
    if not os.path.exists(p):
        return []
    return json.load(open(p)).get("findings", [])

class Engine:
    def __init__(self, pid, spec, tier, seed, ck):
        self.pid, self.spec, self.tier, self.seed, self.ck = pid, spec, tier, seed, ck
        self.cov = collections.OrderedDict()
        self.violations = 0
        self.known_hits = []
        self.samples = []
        self.notes = []

    # ---------------------------------------------------------------- histories
    def histories(self, seed, scale=1.0):
        rng = random.Random(seed * 1000003 + int(hashlib.sha256(self.pid.encode()).hexdigest()[:6], 16))
        hs = []
        for prof, nq, nt in self.spec.get("profiles", []):
            n = max(1, int((nq if self.tier == "quick" else nt) * scale))
            kw = self.spec.get("profile_args", {}).get(prof, {})
            hs += gen.PROFILES[prof](rng, n, self.tier, **kw)
        for i, h in enumerate(hs):
            h.id = "%s-s%d-%d" % (h.id, seed, i)
        return hs

    def corpus(self):
        d = os.path.join(ROOT, "corpus", self.pid)
        out = []
        if os.path.isdir(d):
            for f in sorted(os.listdir(d)):
                if f.endswith(".hist"):
                    out.append(open(os.path.join(d, f)).read())
        return out

    # ---------------------------------------------------------------- evaluation of a batch
    def evaluate(self, hists, go, tag="main", ml=None):
        """-> (oracle failures [(hist text, Fail)], sims)"""
        fails = []; sims = []
        for h in hists:
            text = h.text() if hasattr(h, "text") else h
            hdr, ops = self.ck.split_hist(text)
            hid = hdr.split()[1]
            sim = oracle.simulate(hdr, ops, go.get(hid, []))
            sim.model_obs = (ml or {}).get(hid)
            for c in self.spec.get("checks", []):
                getattr(oracle, "check_" + c)(sim) if c not in ("canon", "linkdiff") else None
            if "linkdiff" in self.spec.get("checks", []):
                sim.linkdiffs = oracle.check_linkdiff(sim)
                self.post_linkdiff(sim)
            sims.append((text, sim))
        if "canon" in self.spec.get("checks", []):
            oracle.check_canon([s for _, s in sims])
        for text, sim in sims:
            for f in sim.fails:
                if f.tag == "oracle-internal":
                    self.notes.append("oracle-internal %s %s" % (sim.hid, f))
                elif f.tag in self.spec["tags"]:
                    fails.append((text, f))
        return fails, sims

    def post_linkdiff(self, sim):
        """C15: diff reads (distinct names) against the 2D+2 bound; same version reads nothing"""
        if "reads-diff" not in self.spec["tags"]:
            return
        for r in sim.linkdiffs:
            if r["same"] and r["loads"] > 0:
                sim.fail("reads-diff", r["idx"], "diff of a version with itself read %d nodes" % r["loads"])
            elif r["loads"] > 2 * r["D"] + 2:
                common = r["loaded"] & r["new"] & r["old"]
                mo = getattr(sim, "model_obs", None)
                agrees = bool(mo) and r["idx"] < len(mo) and r["loaded"] <= set(mo[r["idx"]]["loads"])
                sim.fail("reads-diff", r["idx"], "diff read %d distinct nodes, D=%d (bound %d); %d of them common to both versions" %
                         (r["loads"], r["D"], 2 * r["D"] + 2, len(common)),
                         D=r["D"], loads=r["loads"], excess_common=len(common), loaded_outside=len(r["loaded"] - r["new"] - r["old"]), model_agrees=agrees)

    # ---------------------------------------------------------------- known findings
    def is_known(self, f):
        for k in load_known():
            if k["property"] != self.pid:
                continue
            m = k["match"]
            if m.get("tag") and m["tag"] != f.tag:
                continue
            if "fault_stack_contains_any" in m:
                if not any(x in f.extra.get("site", "") for x in m["fault_stack_contains_any"]):
                    continue
            if "op" in m and m["op"] != f.extra.get("op"):
                continue
            if "post" in m:   # the exact state the recorded defect leaves behind; anything else is a different violation
                if any(f.extra.get("post_" + k) not in (v if isinstance(v, list) else [v]) for k, v in m["post"].items()):
                    continue
            if m.get("excess_all_common"):
                if not (f.extra.get("loaded_outside", 1) == 0 and f.extra.get("model_agrees", False)):
                    continue
            return k
        return None

    # ---------------------------------------------------------------- replay files
    def write_replay(self, kind, text, fail=None, extra=None):
        hdr, ops = self.ck.split_hist(text) if text else ("", [])
        d = {"property": self.pid, "kind": kind, "header": hdr, "ops": ops}
        if fail is not None:
            d.update({"tag": fail.tag, "op_index": fail.idx, "message": fail.msg, "attributes": fail.extra})
        d.update(extra or {})
        p = os.path.join(ROOT, "replays", "%s-%d-%s.json" % (self.pid, self.seed, kind))
        json.dump(d, open(p, "w"), indent=1, default=lambda o: sorted(o) if isinstance(o, (set, frozenset)) else str(o))
        return p

    def fails_with(self, text, tag, go_bin):
        go, _ = self.ck.run_hist([text], self.pid + "-shrink", go_bin, want_model=False)
        hdr, ops = self.ck.split_hist(text)
        hid = hdr.split()[1]
        if any(o["outcome"] == "bad" for o in go.get(hid, [])):
            return False
        fails, _ = self.evaluate([text], go, "shrink")
        return any(f.tag == tag for _, f in fails)

    def minimise(self, text, fail, go_bin):
        hdr, ops = self.ck.split_hist(text)
        try:
            small = self.ck.shrink(hdr, ops, lambda cand: self.fails_with(hdr + "\n" + "\n".join(cand) + "\n", fail.tag, go_bin))
        except Exception as e:
            self.notes.append("shrink failed: %r" % e); small = ops
        t2 = hdr + "\n" + "\n".join(small) + "\n"
        go, _ = self.ck.run_hist([t2], self.pid + "-shrink", go_bin, want_model=False)
        fs, _ = self.evaluate([t2], go, "shrink")
        fs = [f for _, f in fs if f.tag == fail.tag]
        return t2, (fs[0] if fs else fail)

    # ---------------------------------------------------------------- main flow
    def run(self):
        try:
            return self.run0()
        except Exception as e:
            if type(e).__name__ != "RunnerCrash":
                raise
            # the implementation took the process down on a history: that history, minimised, is the failing input
            text = e.text
            if text.count("\n# ") == 0 and text.startswith("# "):
                hdr, ops = self.ck.split_hist(text)
                try:
                    small = self.ck.shrink(hdr, ops, lambda cand: e.crashes(hdr + "\n" + "\n".join(cand) + "\n"))
                    text = hdr + "\n" + "\n".join(small) + "\n"
                except Exception as e2:
                    self.notes.append("shrink failed: %r" % e2)
            p = self.write_replay("crash", text, extra={"fatal": e.fatal, "log": e.log,
                                  "note": "running this history against the implementation kills the process (it never does on the unchanged tree)"})
            print("failing input: the implementation brings the process down on this history: %s" % e.fatal)
            print("VIOLATION property=%s replay=%s" % (self.pid, p))
            self.violations = 1
            return 1

    def run0(self):
        ck = self.ck
        pr = ck.proofs(self.pid, self.tier)
        self.pr = pr
        ok, out = ck.build_driver()
        if not ok:
            print("model driver build failed:\n" + out[-2000:]); pr["ok"] = False; pr["log"] += out[-1500:]
        ok, out, go_bin = ck.build_go()
        if not ok:
            p = self.write_replay("build", "", extra={"note": "the harness no longer builds against /repo (public API changed?)", "log": out[-3000:]})
            print(out[-2000:])
            print("VIOLATION property=%s replay=%s no-failing-input-found" % (self.pid, p))
            self.violations = 1
            return 1
        self.go_bin = go_bin
        unknown = []; dis = []
        nh = 0; nops = 0; kinds = collections.Counter(); tags = collections.Counter(); cfgs = collections.Counter()
        distinct = set(); heights = collections.Counter()

        hists = self.corpus() + self.histories(self.seed) if self.spec.get("profiles") else []
        if hists:
            go, ml = ck.run_hist(hists, self.pid, go_bin)
            fails, sims = self.evaluate(hists, go, ml=ml)
            dis = ck.correspond(hists, go, ml, self.spec.get("corr", {}))
            for text, sim in sims:
                hdr, ops = ck.split_hist(text)
                nh += 1; nops += len(ops)
                for o in ops:
                    kinds[o.split()[0]] += 1
                cfgs["bf=%s fmt=%s kind=%s vt=%s cache=%s" % tuple(sim.opts.get(k, "?") for k in ("bf", "fmt", "kind", "vt", "cache"))] += 1
                mh = max([x[1] for x in sim.facts["heights"]] + [r[2]["Height"] for r in sim.facts["roots"]] + [0])
                heights[mh] += 1
                if mh >= 1 or len(ops) >= 8:
                    distinct.add(hashlib.sha256("\n".join(ops).encode()).hexdigest())
            for h in hists:
                if hasattr(h, "tags"):
                    for t in h.tags:
                        tags[t] += 1
            for text, f in fails:
                k = self.is_known(f)
                if k:
                    self.known_hits.append((k, f))
                else:
                    unknown.append((text, f))
            self.samples = [{"history": ck.split_hist(hists[-1].text() if hasattr(hists[-1], "text") else hists[-1])[0],
                             "ops": ck.split_hist(hists[-1].text() if hasattr(hists[-1], "text") else hists[-1])[1][:25]}]
        # special Go-side engines (fault sweeps, schedules, races, crash points, backends)
        sp = self.spec.get("special")
        if sp:
            import special
            res = getattr(special, sp)(self)
            for text, f in res.get("fails", []):
                k = self.is_known(f)
                if k:
                    self.known_hits.append((k, f))
                else:
                    unknown.append((text, f))
            self.cov.update(res.get("coverage", {}))
            nh += res.get("evaluations", 0)
            distinct |= set(res.get("distinct", []))
            if res.get("samples"):
                self.samples += res["samples"]

        self.cov.update({"histories": nh, "operations": nops, "ops_by_kind": dict(kinds), "configs": len(cfgs),
                         "max_height_histogram": dict(heights), "generator_tags": dict(tags),
                         "correspondence_disagreements": len(dis), "oracle_failures_unlisted": len(unknown),
                         "known_finding_hits": len(self.known_hits)})
        self.evaluations = nh; self.distinct = len(distinct)

        seen = set()
        for k, f in self.known_hits:
            if k["id"] not in seen:
                seen.add(k["id"])
                print("KNOWN-FINDING: property=%s %s (%s; e.g. %s)" % (self.pid, k["what"], k["id"], f.msg[:160]))

        if unknown:
            text, f = unknown[0]
            if f.extra.get("engine"):
                import special
                mini = getattr(special, "minimise_" + f.extra["engine"], None)
                if mini and text:
                    try:
                        text, f = mini(self, text, f)
                    except Exception as e:
                        self.notes.append("shrink failed: %r" % e)
                p = self.write_replay("special", text, f, extra={"engine": f.extra["engine"]})
                print("failing input (%d unlisted failures; first, minimised): %s" % (len(unknown), f.msg[:600]))
                print("VIOLATION property=%s replay=%s" % (self.pid, p))
                self.violations = len(unknown)
                return 1
            if text:
                text, f = self.minimise(text, f, go_bin)
            p = self.write_replay("oracle", text, f)
            self.add_corpus(text)
            print("failing input (%d unlisted oracle failures; first, minimised): %s" % (len(unknown), f.msg[:400]))
            print("VIOLATION property=%s replay=%s" % (self.pid, p))
            self.violations = len(unknown)
            return 1
        if dis or not pr["ok"]:
            # the tie or a proof obligation is broken and the oracle is clean: widen the search
            found = None
            for extra in range(1, 6 if self.tier == "quick" else 12):
                hs = self.histories(self.seed + 7919 * extra, scale=1.5)
                if not hs:
                    break
                go, _ = ck.run_hist(hs, self.pid + "-widen", go_bin, want_model=False)
                fails, _ = self.evaluate(hs, go)
                fails = [(t, f) for t, f in fails if not self.is_known(f)]
                if fails:
                    found = fails[0]; break
            if found:
                text, f = self.minimise(found[0], found[1], go_bin)
                p = self.write_replay("oracle", text, f, extra={"note": "found by the widened search after a broken obligation / correspondence"})
                self.add_corpus(text)
                print("failing input: %s" % f.msg[:400])
                print("VIOLATION property=%s replay=%s" % (self.pid, p))
                self.violations = 1
                return 1
            if dis:
                hid, idx, op, pg, pm = dis[0]
                text = [h for h in hists if (h.text() if hasattr(h, "text") else h).split("\n")[0].split()[1] == hid][0]
                text = text.text() if hasattr(text, "text") else text
                hdr, ops = ck.split_hist(text)
                p = self.write_replay("correspondence", hdr + "\n" + "\n".join(ops[:idx + 1]) + "\n",
                                      extra={"disagrees_at": idx, "operation": op, "implementation": pg, "model": pm,
                                             "theorems_resting_on_this_tie": pr["theorems"], "disagreements": len(dis)})
                print("model and implementation disagree at %s op %d (%s):\n  impl : %s\n  model: %s" % (hid, idx, op, json.dumps(pg)[:400], json.dumps(pm)[:400]))
            else:
                p = self.write_replay("proof", "", extra={"theorems": pr["theorems"], "log": pr["log"][-2500:], "gate": pr["gate"],
                                                            "assumptions": pr["assumptions"]})
                print("proof obligations of %s no longer check:\n%s" % (self.pid, pr["log"][-1500:]))
            print("VIOLATION property=%s replay=%s no-failing-input-found" % (self.pid, p))
            self.violations = 1
            return 1
        print("OK property=%s tier=%s seed=%d: %d obligations checked, %d histories / %d operations, 0 disagreements, 0 unlisted oracle failures" %
              (self.pid, self.tier, self.seed, pr["discharged"], nh, nops))
        return 0

    def add_corpus(self, text):
        """minimised failures are kept under build/ (never committed at run time); curated ones live in corpus/"""
        d = os.path.join(ROOT, "build", "found", self.pid)
        os.makedirs(d, exist_ok=True)
        open(os.path.join(d, "%d.hist" % self.seed), "w").write(text)

    # ---------------------------------------------------------------- replay
    def replay(self, path):
        ck = self.ck
        d = json.load(open(path))
        ok, out, go_bin = ck.build_go()
        if not ok:
            print(out[-1500:]); return 1
        self.go_bin = go_bin
        if d["kind"] == "special":
            import special
            d["path"] = path
            return special.replay(self, d)
        if d["kind"] == "proof":
            pr = ck.proofs(self.pid, self.tier)
            print("proofs ok" if pr["ok"] else pr["log"][-1500:])
            return 0 if pr["ok"] else 1
        text = d["header"] + "\n" + "\n".join(d["ops"]) + "\n"
        if d["kind"] == "crash":
            try:
                ck.run_hist([text], self.pid + "-replay", go_bin, want_model=False)
            except Exception as e:
                print("reproduced: %s" % e); print("VIOLATION property=%s replay=%s" % (self.pid, path)); return 1
            print("not reproduced"); return 0
        ck.build_driver()
        go, ml = ck.run_hist([text], self.pid + "-replay", go_bin)
        fails, _ = self.evaluate([text], go, ml=ml)
        fails = [f for _, f in fails if not self.is_known(f)]
        dis = ck.correspond([text], go, ml, self.spec.get("corr", {}))
        if d["kind"] == "oracle":
            hit = [f for f in fails if f.tag == d.get("tag")]
            if hit:
                print("reproduced: %s" % hit[0].msg); print("VIOLATION property=%s replay=%s" % (self.pid, path)); return 1
            print("not reproduced"); return 0
        if dis:
            print("reproduced: model and implementation disagree at op %d" % dis[0][1])
            print("VIOLATION property=%s replay=%s no-failing-input-found" % (self.pid, path)); return 1
        print("not reproduced"); return 0

    # ---------------------------------------------------------------- evidence
    def write_evidence(self, wall):
        from props import TRUSTED_BASE, ASSUMPTIONS
        pr = getattr(self, "pr", {"obligations": 0, "discharged": 0, "theorems": [], "assumptions": {}})
        cov = collections.OrderedDict()
        cov["obligations"] = pr["obligations"]
        cov["discharged"] = pr["discharged"]
        cov["checker_cmd"] = "make -C coq (coq_makefile, full .vo build) && coqc -Q coq Mast coq/Properties/%s.v (re-checked on every run; coqchk -silent -o in the thorough tier)" % self.pid
        cov["trusted_base"] = TRUSTED_BASE
        cov["theorems"] = pr["theorems"]
        cov["print_assumptions"] = pr["assumptions"]
        cov["coqchk"] = pr.get("coqchk", {"ran": False, "note": "run in the thorough tier only (about 40 s per property file)"})
        cov["evaluations"] = getattr(self, "evaluations", 0)
        cov["distinct_nontrivial"] = getattr(self, "distinct", 0)
        cov["rule"] = ("correspondence histories are generated by tools/gen.py from one PRNG seeded by VERIF_SEED; a history counts as "
                       "distinct and non-trivial when its operation list hashes differently from all others and it reaches height >= 1 or has >= 8 operations")
        cov["samples"] = self.samples[:3] or [{"note": "no history generated"}]
        cov.update(self.cov)
        cov["theorem_notes"] = self.spec.get("theorem_notes", "")
        if self.notes:
            cov["notes"] = self.notes[:20]
        ev = {"property_id": self.pid, "tier": self.tier, "seed": self.seed, "level": "proof", "coverage": cov,
              "assumptions": ASSUMPTIONS + self.spec.get("assumptions", []), "wall_s": round(wall, 2), "violations": self.violations}
        json.dump(ev, open(os.path.join(ROOT, "evidence", self.pid + ".json"), "w"), indent=1, default=str)
