"""Model-independent oracles evaluated on the implementation's own observations.
A reference dictionary semantics replays the history; store-level checks decode the recorded
bytes with the independent codecs of lib.py.  Each failure is (tag, op index, message)."""
import json, math, bisect
from lib import (key_sort, key_layer, key_marshal, key_unmarshal, name_of, decode_node, encode_node, hx, unhx)

class Fail:
    def __init__(self, tag, idx, msg, extra=None):
        self.tag, self.idx, self.msg, self.extra = tag, idx, msg, extra or {}
    def __repr__(self):
        return "%s@%s: %s" % (self.tag, self.idx, self.msg)

def parse_header(line):
    f = line.split()
    return f[1], dict(kv.split("=", 1) for kv in f[2:])

def canon_height(keys, bf):
    n = len(keys)
    if n < 2:
        return 0
    ml = max(key_layer(k, bf) for k in keys)
    lg = 0
    while bf ** (lg + 1) <= n - 1:
        lg += 1
    return min(ml, lg)

def show_list(items):
    return "l:" + ",".join("%s=%s" % kv for kv in items)

class Sim:
    """replays one history against the reference semantics and the implementation's observations"""
    def __init__(self, header, ops, obs):
        self.hid, self.opts = parse_header(header)
        self.ops, self.obs = ops, obs
        self.bf = int(self.opts.get("bf", 16)) or 16
        self.fmt = {"bin": "v1.1.5binary", "v1": "v1marshaler"}.get(self.opts.get("fmt", "bin"), "v1.1.5binary")
        self.kind = int(self.opts.get("kind", 0))
        self.trees = {}      # id -> dict or None (unknown contents)
        self.tbf = {}        # id -> branch factor
        self.base = {}       # id -> contents at load / last persist
        self.roots = {}      # id -> (dict snapshot or None, parsed root json or None)
        self.curs = {}       # id -> [sorted items, pos or None(off)]
        self.store = {}      # name -> bytes (all stores of the history merged; names are content hashes)
        self.fails = []
        self.facts = {"roots": [], "stores": [], "persists": [], "point": [], "diffs": [], "heights": [], "loads": []}
        self.cur_root = {}   # tree id -> root json the tree currently equals (unmodified since persist / load)
        self.tree_root = {}  # (tree id, op idx) -> that root, recorded at diff time
        self.hash_rooted = set()  # trees whose root link is a hash string (persisted or loaded, not a clone: Clone holds a node pointer)
        self.mods = {}       # tree id -> keys modified since base
        self.hchg = {}       # tree id -> height changed since base
        self.lasth = {}

    def fail(self, tag, idx, msg, **extra):
        self.fails.append(Fail(tag, idx, msg, extra))

    def items(self, d):
        return sorted(d.items(), key=lambda kv: key_sort(kv[0]))

    def run(self):
        for idx, (line, ob) in enumerate(zip(self.ops, self.obs)):
            try:
                self.step(idx, line.split(), ob)
            except Exception as e:   # an oracle bug must not look like a violation
                self.fail("oracle-internal", idx, "%s: %r" % (line, e))
        return self.fails

    def expect(self, tag, idx, ob, outcome, payload=None):
        if ob["outcome"] != outcome:
            self.fail(tag, idx, "%s: outcome %s, expected %s" % (self.ops[idx], ob["outcome"], outcome), got=ob["outcome"])
            return False
        if payload is not None and ob["payload"] != payload:
            self.fail(tag, idx, "%s: got %s, expected %s" % (self.ops[idx], ob["payload"][:300], payload[:300]))
            return False
        return True

    def step(self, idx, t, ob):
        op = t[0]
        for s in ob["stores"]:
            n, _, b = s.partition(":")
            if b != "FAILED":
                self.facts["stores"].append((idx, n, unhx(b)))
                self.store.setdefault(n, unhx(b))
        if ob["outcome"] == "bad":
            self.fail("oracle-internal", idx, "malformed history line: " + " ".join(t)); return
        if op == "layer":
            self.expect("layer", idx, ob, "ok", "n:%d" % key_layer(t[1], int(t[2]))); return
        if op == "cmp":
            a, b = key_sort(t[1]), key_sort(t[2])
            self.expect("cmp", idx, ob, "ok", "n:%d" % (-1 if a < b else 1 if a > b else 0)); return
        if op == "new":
            self.expect("new", idx, ob, "ok")
            self.trees[int(t[1])] = {}; self.base[int(t[1])] = {}; self.tbf[int(t[1])] = int(t[3]) or 16
            self.mods[int(t[1])] = set(); self.hchg[int(t[1])] = False; self.lasth[int(t[1])] = 0
            return
        if op in ("ins", "del", "get", "size", "height", "iter", "seek", "clone", "dirty", "mkroot", "cursor", "diff", "difflinks",
                  "diffstop", "difffail", "diffcur", "iterstop", "seekstop"):
            tid = int(t[1]); d = self.trees.get(tid)
            if tid not in self.trees:
                return
            if d is None:                      # contents unknown (perturbed load that succeeded): only record
                if op == "iter" and ob["outcome"] == "ok":
                    self.facts["loads"].append((idx, "iter-after-perturbed-load", ob["payload"]))
                return
        if op in ("ins", "del"):
            self.cur_root[tid] = None
        if op == "ins":
            k, v = t[2], t[3]
            if self.expect("ins", idx, ob, "ok"):
                self.point(idx, tid, "ins", k, ob, changed=(d.get(k) != v))
                if d.get(k) != v:
                    self.mods[tid].add(k)
                d[k] = v
                self.note_height(tid, d)
        elif op == "del":
            k, v = t[2], t[3]
            if k in d and d[k] == v:
                if self.expect("del", idx, ob, "ok"):
                    self.point(idx, tid, "del", k, ob, changed=True)
                    del d[k]; self.mods[tid].add(k)
                    self.note_height(tid, d)
                else:
                    # the entry may or may not be gone; contents unknown from here on
                    self.trees[tid] = None
            else:
                self.expect("del", idx, ob, "err")
                self.point(idx, tid, "del-miss", k, ob, changed=False)
        elif op == "get":
            k = t[2]
            self.expect("get", idx, ob, "ok", "v:" + (d[k] if k in d else "none"))
            self.point(idx, tid, "get", k, ob, changed=False)
        elif op == "size":
            self.expect("size", idx, ob, "ok", "n:%d" % len(d))
        elif op == "height":
            if ob["outcome"] == "ok":
                hgt = int(ob["payload"][2:])
                self.facts["heights"].append((idx, hgt, canon_height(list(d), self.tbf[tid]), len(d)))
                if hgt != self.lasth.get(tid, hgt):
                    self.hchg[tid] = True
                self.lasth[tid] = hgt
            else:
                self.fail("height", idx, "height failed")
        elif op == "iter":
            self.expect("iter", idx, ob, "ok", show_list(self.items(d)))
            # C08: a root name stands for one contents: every listing of a tree that still is the version it was loaded
            # from / persisted as must agree with every other listing under the same root name
            r0 = self.cur_root.get(tid)
            if r0 and r0.get("Link") and ob["outcome"] == "ok":
                if not hasattr(self, "name_contents"):
                    self.name_contents = {}
                prev = self.name_contents.setdefault(r0["Link"], (idx, ob["payload"]))
                if prev[1] != ob["payload"]:
                    self.fail("name", idx, "root name %s was listed with different contents at operation %d and here" % (r0["Link"], prev[0]))
            # C13: a tree that has just reported itself clean is listed right afterwards: what it lists (not what the
            # reference says it should hold) must be the version it was loaded from / persisted as
            if getattr(self, "clean_at", {}).get(tid) == idx - 1 and ob["outcome"] == "ok" and self.base.get(tid) is not None:
                if ob["payload"] != show_list(self.items(self.base[tid])):
                    self.fail("dirty", idx, "tree reported itself clean, but listing it gives entries that differ from the version it was loaded from / persisted as")
        elif op == "iterstop":
            self.expect("iter", idx, ob, "ok", show_list(self.items(d)[:int(t[2]) + 1]))
        elif op == "seekstop":
            k = t[2]
            self.expect("seek", idx, ob, "ok", show_list([kv for kv in self.items(d) if key_sort(kv[0]) >= key_sort(k)][:int(t[3]) + 1]))
        elif op == "seek":
            k = t[2]
            self.expect("seek", idx, ob, "ok", show_list([kv for kv in self.items(d) if key_sort(kv[0]) >= key_sort(k)]))
        elif op == "clone":
            if self.expect("clone", idx, ob, "ok"):
                n = int(t[2])
                self.trees[n] = dict(d); self.base[n] = self.base.get(tid); self.tbf[n] = self.tbf[tid]
                self.mods[n] = set(self.mods[tid]); self.hchg[n] = self.hchg[tid]; self.lasth[n] = self.lasth.get(tid, 0)
                self.cur_root[n] = self.cur_root.get(tid)
                self.hash_rooted.discard(n)
                self.facts["point"].append((idx, "clone", None, len(ob["loads"]), None, (None, None)))
        elif op == "dirty":
            if self.expect("dirty", idx, ob, "ok"):
                if ob["payload"] == "b:0" and self.base.get(tid) is not None and self.base[tid] != d:
                    self.fail("dirty", idx, "tree reports clean but its contents differ from the version it was loaded from / persisted as")
                if ob["payload"] == "b:0":
                    if not hasattr(self, "clean_at"):
                        self.clean_at = {}
                    self.clean_at[tid] = idx
        elif op == "mkroot":
            if self.expect("mkroot", idx, ob, "ok"):
                r = json.loads(ob["payload"][2:])
                self.roots[int(t[2])] = (dict(d), r)
                if r["Size"] != len(d):
                    self.fail("rootsize", idx, "Root.Size %d but %d live entries" % (r["Size"], len(d)))
                self.facts["roots"].append((idx, tid, r, dict(d), self.tbf[tid]))
                self.facts["persists"].append({"idx": idx, "tree": tid, "root": r, "stores": [s.partition(":")[0] for s in ob["stores"]],
                                               "loads": list(ob["loads"]), "mods": set(self.mods[tid]), "hchg": self.hchg[tid],
                                               "base": self.base.get(tid), "contents": dict(d), "bf": self.tbf[tid]})
                self.base[tid] = dict(d); self.mods[tid] = set(); self.hchg[tid] = False
                self.cur_root[tid] = r; self.hash_rooted.add(tid)
        elif op == "loadord":
            rid = int(t[1])
            snap, r = self.roots.get(rid, (None, None))
            topb = self.store.get(r["Link"]) if r and r.get("Link") else None
            self.facts["loads"].append((idx, "loadord", ob["outcome"], rid, t, len(ob["loads"]), topb))
        elif op in ("load", "loadnc"):
            rid, tid = int(t[1]), int(t[2])
            snap, r = self.roots.get(rid, (None, None))
            topb = None
            if r and r.get("Link") and int(t[3]) != 7:
                topb = self.corrupted.get(r["Link"], self.store.get(r["Link"])) if int(t[3]) == 3 else self.store.get(r["Link"])
            self.facts["loads"].append((idx, "load", ob["outcome"], rid, t, len(ob["loads"]), topb))
            if snap is not None and not self.roots_perturbed.get(rid):
                if self.expect("load", idx, ob, "ok"):
                    self.trees[tid] = dict(snap); self.base[tid] = dict(snap); self.tbf[tid] = r["BranchFactor"]
                    self.mods[tid] = set(); self.hchg[tid] = False; self.lasth[tid] = r["Height"]
                    self.cur_root[tid] = r; self.hash_rooted.add(tid)
            elif ob["outcome"] == "ok":
                self.trees[tid] = None
        elif op == "rootset":
            r2, r = int(t[1]), int(t[2])
            if ob["outcome"] == "ok":
                self.roots[r2] = (self.roots.get(r, (None, None))[0], json.loads(ob["payload"][2:]))
                self.roots_perturbed[r2] = True
        elif op == "corrupt":
            self.roots_perturbed[int(t[2])] = True
            rr = self.roots.get(int(t[2]), (None, None))[1]
            if rr and rr.get("Link") and ob["outcome"] == "ok" and rr["Link"] in self.store:
                b = self.store[rr["Link"]]
                if t[3] in ("droplink", "addlink", "dropvalue"):
                    nb = damage_binary(b, t[3], int(t[4]))
                else:
                    off = min(int(t[3]), len(b))
                    nb = b[:off] if t[4] == "-" else b[:off] + bytes([int(t[4])]) + b[off + 1:]
                self.corrupted[rr["Link"]] = nb
        elif op == "cursor":
            if self.expect("cursor", idx, ob, "ok"):
                its = self.items(d)
                self.curs[int(t[2])] = [its, "unset"]   # positioned only by Min / Max / Ceil
        elif op in ("cmin", "cmax", "cceil", "cfwd", "cbwd", "cget"):
            c = self.curs.get(int(t[1]))
            if c is None:
                return
            its, pos = c
            if pos == "unset" and op in ("cget", "cfwd", "cbwd"):
                self.expect("cursor", idx, ob, "ok")
                return
            if op == "cget":
                exp = "e:none" if pos is None or pos >= len(its) or pos < 0 else "e:%s=%s" % its[pos]
                self.expect("cursor", idx, ob, "ok", exp)
                return
            if not self.expect("cursor", idx, ob, "ok"):
                return
            if pos is None:
                return
            if pos != "unset" and op in ("cmin", "cmax", "cceil"):
                c[1] = "unset"; return     # repositioning a moved cursor works on the subtree under it: not checked
            if op == "cmin":
                pos = 0 if its else None
            elif op == "cmax":
                pos = len(its) - 1 if its else None
            elif op == "cceil":
                ks = [key_sort(k) for k, _ in its]
                i = bisect.bisect_left(ks, key_sort(t[2]))
                pos = i if i < len(its) else None
            elif op == "cfwd":
                pos = pos + 1 if pos + 1 < len(its) else None
            elif op == "cbwd":
                pos = pos - 1 if pos - 1 >= 0 else None
            c[1] = pos
        elif op in ("diff", "diffstop", "difffail", "diffcur"):
            old = None if t[2] == "-" else self.trees.get(int(t[2]))
            if t[2] != "-" and old is None:
                return
            old = old or {}
            exp = []
            for k in sorted(set(old) | set(d), key=key_sort):
                if k not in old:
                    exp.append("+%s=%s/nil" % (k, d[k]))
                elif k not in d:
                    exp.append("-%s=nil/%s" % (k, old[k]))
                elif old[k] != d[k]:
                    exp.append("~%s=%s/%s" % (k, d[k], old[k]))
            if op == "diffstop":
                self.expect("diff", idx, ob, "ok", "d:" + ";".join(exp[:int(t[3]) + 1]))
            elif op == "difffail":
                if int(t[3]) < len(exp):
                    self.expect("diff", idx, ob, "err")
                else:
                    self.expect("diff", idx, ob, "ok", "d:" + ";".join(exp))
            else:
                self.expect("diff", idx, ob, "ok", "d:" + ";".join(exp))
            if op == "diff":
                self.facts["diffs"].append((idx, "diff", tid, t[2], ob))
        elif op == "difflinks":
            self.expect("difflinks", idx, ob, "ok")
            # C07 speaks about persisted versions: both roots must be hash links (a clone holds a node pointer,
            # which the callback receives as such, without a name)
            self.tree_root[(tid, idx)] = self.cur_root.get(tid) if tid in self.hash_rooted else None
            if t[2] != "-":
                self.tree_root[(int(t[2]), idx)] = self.cur_root.get(int(t[2])) if int(t[2]) in self.hash_rooted else None
            self.facts["diffs"].append((idx, "difflinks", tid, t[2], ob))

    roots_perturbed = None
    corrupted = None

    def note_height(self, tid, d):
        """the height the canonical-form rule gives for the contents after every change: a height that moved away
        from the base version's and back (delete + reinsert, drain + refill) HAS changed since that version, even
        if every Height() observation in the history happens to see the old value"""
        base = self.base.get(tid)
        if base is None:
            return
        bf = self.tbf.get(tid, 16)
        if canon_height(list(d), bf) != canon_height(list(base), bf):
            self.hchg[tid] = True

    def point(self, idx, tid, what, k, ob, changed):
        # the height before and after the call, by the canonical-form rule on the reference contents (the call sites
        # invoke this before they apply the change to d)
        d = self.trees.get(tid); bf = self.tbf.get(tid, 16)
        hb = ha = None
        if d is not None:
            hb = canon_height(list(d), bf)
            keys = set(d)
            if what == "ins":
                keys.add(k)
            elif what == "del":
                keys.discard(k)
            ha = canon_height(list(keys), bf)
        self.facts["point"].append((idx, what, k, len(ob["loads"]), hb, (tid, ha)))

def simulate(header, ops, obs):
    s = Sim(header, ops, obs)
    s.roots_perturbed = {}; s.corrupted = {}
    s.run()
    return s

# ------------------------------------------------------------------------------------------ store-level checks
def reach(store, fmt, link, missing=None):
    """names reachable from a root link in the recorded store"""
    seen = []
    def go(n):
        if n is None or n in seen:
            return
        seen.append(n)
        if n not in store:
            if missing is not None:
                missing.append(n)
            return
        try:
            _, _, links = decode_node(fmt, store[n])
        except Exception:
            if missing is not None:
                missing.append(n)
            return
        for l in links:
            go(l)
    go(link)
    return seen

def check_names(sim):
    """C08: every Store call's name is base64url(BLAKE2b-256(bytes)); one name never carries two byte strings"""
    seen = {}
    for idx, n, b in sim.facts["stores"]:
        if name_of(b) != n:
            sim.fail("name", idx, "node stored under %s but its bytes hash to %s" % (n, name_of(b)))
        if n in seen and seen[n] != b:
            sim.fail("name", idx, "name %s written with different bytes" % n)
        seen[n] = b

def check_encoding(sim):
    """C08/C14: the bytes of every stored node are the deterministic encoding of its decoded entries and child names"""
    for idx, n, b in sim.facts["stores"]:
        try:
            ks, vs, links = decode_node(sim.fmt, b)
        except Exception as e:
            sim.fail("encoding", idx, "stored node %s does not decode: %r" % (n, e)); continue
        if encode_node(sim.fmt, ks, vs, links) != b:
            sim.fail("encoding", idx, "stored node %s is not the canonical encoding of its contents" % n)
        # element bodies are encoding/json output: compact, and <, >, & inside strings written as \u003c, \u003e, \u0026
        for body in list(ks) + list(vs):
            try:
                txt = body.decode("ascii"); want = json.dumps(json.loads(txt), separators=(",", ":"))
            except Exception:
                continue
            want = want.replace("<", "\\u003c").replace(">", "\\u003e").replace("&", "\\u0026")
            if want != txt and want.replace("\\u003c", "<").replace("\\u003e", ">").replace("\\u0026", "&") == txt:
                sim.fail("encoding", idx, "stored node %s holds an element %r that is not in encoding/json's form (%r)" % (n, txt[:40], want[:40]))

def check_shape(sim):
    """C09: shape invariants of every persisted version, decoded from the recorded store"""
    for idx, tid, r, contents, bf in sim.facts["roots"]:
        H = r["Height"]; fmt = r.get("NodeFormat") or "v1marshaler"
        count = [0]
        def node(name, level, lo, hi, top):
            if name not in sim.store:
                sim.fail("shape", idx, "node %s reachable from the root was never stored" % name); return
            ks, vs, links = decode_node(fmt, sim.store[name])
            if level < 0:
                sim.fail("shape", idx, "node %s lies below level 0" % name); return
            if len(vs) != len(ks) or len(links) != len(ks) + 1:
                sim.fail("shape", idx, "node %s: %d keys, %d values, %d links" % (name, len(ks), len(vs), len(links)))
                return
            toks = [key_unmarshal(sim.kind, k) for k in ks]
            count[0] += len(toks)
            if level == 0 and any(l is not None for l in links):
                sim.fail("shape", idx, "level-0 node %s has children" % name)
            if not toks:
                nz = [l for l in links if l is not None]
                if len(nz) != 1 or level == 0:
                    sim.fail("shape", idx, "entry-less node %s stored (not a single-child pass-through)" % name)
            prev = lo
            for i, k in enumerate(toks):
                lay = key_layer(k, bf)
                if (lay != level) if not top else (lay < level):
                    sim.fail("shape", idx, "key %s of layer %d in node %s at level %d%s" % (k, lay, name, level, " (top)" if top else ""))
                if prev is not None and not key_sort(prev) < key_sort(k):
                    sim.fail("shape", idx, "keys out of order or outside the parent's range in node %s: %s !< %s" % (name, prev, k))
                prev = k
            if hi is not None and prev is not None and not key_sort(prev) < key_sort(hi):
                sim.fail("shape", idx, "key %s in node %s not below the parent's next key %s" % (prev, name, hi))
            bounds = [lo] + toks + [hi]
            for i, l in enumerate(links):
                if l is not None:
                    node(l, level - 1, bounds[i], bounds[i + 1], False)
        if r["Link"] is not None:
            node(r["Link"], H, None, None, True)
            # every key of a range with the node's layer is in that node: follows from the above plus the
            # reference contents; check the listing against the reference instead
        if count[0] != r["Size"]:
            sim.fail("shape", idx, "Root.Size %d but %d entries reachable" % (r["Size"], count[0]))
        if r["Link"] is None and contents:
            sim.fail("shape", idx, "non-empty tree persisted with no link")

def check_canon(sims):
    """C04: equal contents (same bf / format / key kind) => identical Root; height follows the size rule"""
    fails = []
    groups = {}
    for s in sims:
        for idx, tid, r, contents, bf in s.facts["roots"]:
            key = (bf, r.get("NodeFormat"), s.kind, tuple(sorted(contents.items())))
            rec = (r.get("Link"), r["Height"], r["Size"])
            if key in groups and groups[key][0] != rec:
                g = groups[key]
                s.fail("canon", idx, "same %d entries, different roots: %s here, %s in %s@%d" % (len(contents), rec, g[0], g[1], g[2]))
            groups.setdefault(key, (rec, s.hid, idx))
            want = canon_height(list(contents), bf)
            if r["Height"] != want:
                s.fail("canon", idx, "persisted height %d, rule gives %d for %d entries" % (r["Height"], want, len(contents)))
        for idx, hgt, want, n in s.facts["heights"]:
            if hgt != want:
                s.fail("canon-height", idx, "height %d, rule gives %d for %d entries" % (hgt, want, n))
    return fails

def check_persist(sim):
    """C13: no garbage, no-op persist writes nothing and returns the same root, locality, count bound"""
    last_root = {}
    for p in sim.facts["persists"]:
        idx, r = p["idx"], p["root"]
        fmt = r.get("NodeFormat") or "v1marshaler"
        rs = set(reach(sim.store, fmt, r.get("Link")))
        for n in p["stores"]:
            if n not in rs:
                sim.fail("garbage", idx, "stored node %s is not reachable from the returned root" % n)
        if len(set(p["stores"])) != len(p["stores"]):
            sim.fail("garbage", idx, "a node was stored twice in one persist")
        base = p["base"]
        if base is not None and base == p["contents"] and not p["mods"]:
            if p["stores"]:
                sim.fail("noop", idx, "nothing modified since the last version, yet %d nodes written" % len(p["stores"]))
        k = len(p["mods"]); h = r["Height"]
        if not p["hchg"] and len(p["stores"]) > k * (2 * h + 2):
            sim.fail("count", idx, "%d nodes written for %d modified keys at height %d (bound %d)" % (len(p["stores"]), k, h, k * (2 * h + 2)))
        p["reach"] = rs

def check_point(sim):
    """C16: loads of point operations on persisted trees (no cache)"""
    if sim.opts.get("cache", "none") != "none":
        return
    for idx, what, k, nloads, h, extra in sim.facts["point"]:
        if what == "clone":
            if nloads > 1:
                sim.fail("reads", idx, "clone read %d nodes" % nloads)
            continue
        if h is None:
            continue
        after = extra[1]
        if what == "get" and nloads > h + 1:
            sim.fail("reads", idx, "lookup read %d nodes at height %d" % (nloads, h))
        if what in ("ins", "del", "del-miss"):
            # only when the call does not change the height (heights by the canonical-form rule on the reference
            # contents before and after the call; that the tree's height is that height is C04's check)
            if after is not None and after == h and nloads > 2 * (h + 1):
                sim.fail("reads", idx, "%s read %d nodes at height %d (bound %d)" % (what, nloads, h, 2 * (h + 1)))
    for f in sim.facts["loads"]:
        if f[1] == "load" and f[5] > 1:
            sim.fail("reads", f[0], "LoadMast read %d nodes" % f[5])

def check_linkdiff(sim):
    """C07 (and C15's counts): link events against reachable sets computed from the recorded store"""
    roots_by_tree = {}
    for p in sim.facts["persists"]:
        roots_by_tree[p["tree"]] = p["root"]
    # a loaded tree has the root it was loaded from
    res = []
    for idx, kind, tn, told, ob in sim.facts["diffs"]:
        if kind != "difflinks" or ob["outcome"] != "ok":
            continue
        rn = sim.tree_root.get((tn, idx)); ro = None if told == "-" else sim.tree_root.get((int(told), idx))
        if rn is None or (told != "-" and ro is None):
            continue   # not both persisted and unmodified
        fmt = rn.get("NodeFormat") or "v1marshaler"
        new = set(reach(sim.store, fmt, rn.get("Link"))); old = set(reach(sim.store, fmt, ro.get("Link"))) if ro else set()
        ev = [x for x in ob["payload"][2:].split(";") if x]
        added = [x[1:] for x in ev if x[0] == "A"]; removed = [x[1:] for x in ev if x[0] == "R"]
        for n in new - old:
            if n not in added:
                sim.fail("linkdiff", idx, "node %s is reachable only from the new version but was not reported added" % n)
        for n in old - new:
            if n not in removed:
                sim.fail("linkdiff", idx, "node %s is reachable only from the old version but was not reported removed" % n)
        for n in added:
            if n not in new:
                sim.fail("linkdiff", idx, "reported added: %s, which the new version does not reach" % n)
        for n in removed:
            if n not in old:
                sim.fail("linkdiff", idx, "reported removed: %s, which the old version does not reach" % n)
        if len(set(added)) != len(added):
            sim.fail("linkdiff", idx, "a name was reported added twice")
        if len(set(removed)) != len(removed):
            sim.fail("linkdiff", idx, "a name was reported removed twice")
        D = len(new ^ old); loads = len(set(ob["loads"]))
        res.append({"idx": idx, "D": D, "loads": loads, "new": new, "old": old, "loaded": set(ob["loads"]),
                    "same": rn.get("Link") == (ro or {}).get("Link")})
    return res

def damage_binary(b, mode, k):
    """the structural damage the harness applies to a binary-format node (runner.go damageBinary), recomputed
    independently: three length-prefixed slices (keys, values, links) re-cut so that their counts no longer fit"""
    from lib import _bodies
    def uv(n):
        o = bytearray()
        while n >= 0x80:
            o.append((n & 0x7F) | 0x80); n >>= 7
        o.append(n); return bytes(o)
    def sec(l):
        return uv(len(l)) + b"".join(uv(len(x)) + x for x in l)
    ks, i = _bodies(b, 0); vs, i = _bodies(b, i); ls, i = _bodies(b, i)
    if mode == "droplink":
        ls = ls[:len(ls) - k]
    elif mode == "addlink":
        ls = ls + [b""] * k
    elif mode == "dropvalue":
        vs = vs[:len(vs) - k]
    return sec(ks) + sec(vs) + sec(ls)

def check_reject(sim):
    """C19: a root that does not match the configuration / store must be rejected with an error.
    The expectation is computed independently from the (perturbed) root record, the recorded bytes
    and the loader's key kind; element bodies that Python cannot judge give no expectation."""
    KNOWN = ("v1.1.5binary", "v1marshaler", "")
    for f in sim.facts["loads"]:
        if f[1] == "loadord":
            # an unperturbed root loaded under a different caller-supplied key order
            idx, _, outcome, rid, t, _, topb = f
            snap, r = sim.roots.get(rid, (None, None))
            if r is None or sim.roots_perturbed.get(rid) or r.get("Link") is None or topb is None:
                continue
            why = _node_mismatch(topb, r.get("NodeFormat") or "v1marshaler", int(t[4]), r["Height"], r["BranchFactor"], order=t[5])
            if outcome == "panic":
                sim.fail("reject", idx, "LoadMast panicked instead of returning an error (%s)" % " ".join(t))
            elif why and outcome == "ok":
                sim.fail("reject", idx, "LoadMast accepted a root it must reject: %s" % why, why=why)
            elif not why and outcome != "ok":
                sim.fail("reject", idx, "LoadMast rejected a root whose top node is in order under the loader's key order")
            sim.facts.setdefault("reject_cases", []).append((idx, why, outcome))
            continue
        if f[1] != "load":
            continue
        idx, _, outcome, rid, t, _, topb = f
        snap, r = sim.roots.get(rid, (None, None))
        if r is None:
            continue
        if outcome == "panic":
            sim.fail("reject", idx, "LoadMast panicked instead of returning an error (%s)" % " ".join(t)); continue
        if not sim.roots_perturbed.get(rid):
            continue
        store_id, kind = int(t[3]), int(t[4])
        why = None
        fmt = r.get("NodeFormat", "")
        if fmt not in KNOWN:
            why = "unknown node format %r" % fmt
        elif r.get("Link") is not None and (sim.opts.get("cache", "none") == "none" or store_id != 3):
            # with a node cache the top node may legitimately be served from the cache without being read
            # and decoded again, so expectations about DAMAGED stored bytes apply to cache-less loads only;
            # an intact top node (bytes are damaged in store 3 only, and cache entries are per store) is the same
            # node whether it comes from the store or from the cache, and the root record's height / branch
            # factor / format are checked against it either way
            link = r["Link"]
            b = topb
            if b is None:
                why = "top node missing from the store"
            else:
                # a warm cache hands out the decoded node: nothing is decoded again, so with a cache the node is
                # judged in the format it was written in (a root naming the other known format then loads)
                use = (fmt or "v1marshaler") if sim.opts.get("cache", "none") == "none" else sim.fmt
                why = _node_mismatch(b, use, kind, r["Height"], r["BranchFactor"])
        if why and outcome == "ok":
            sim.fail("reject", idx, "LoadMast accepted a root it must reject: %s" % why, why=why)
        sim.facts.setdefault("reject_cases", []).append((idx, why, outcome))

def _node_mismatch(b, fmt, kind, height, bf, order=None):
    try:
        if fmt == "v1marshaler":
            b.decode("utf-8")
        ks, vs, links = decode_node(fmt, b)
    except UnicodeDecodeError:
        return None
    except Exception as e:
        return "top node does not decode (%s)" % type(e).__name__
    if fmt == "v1.1.5binary":
        pass
    if len(ks) != len(vs) or len(links) != len(ks) + 1:
        return "top node has %d keys, %d values, %d links" % (len(ks), len(vs), len(links))
    toks = []
    for k in ks:
        try:
            if kind in (0, 1):
                s = k.decode("ascii")
                if not s or s != s.strip() or not s.lstrip("-").isdigit() or (len(s.lstrip("-")) > 1 and s.lstrip("-")[0] == "0") or s == "-0" or (kind == 1 and s[0] == "-"):
                    return None          # leave non-canonical numbers to encoding/json
                toks.append(key_unmarshal(kind, k))
            else:
                tk = key_unmarshal(kind, k)
                if key_marshal(tk) != k:
                    return None
                toks.append(tk)
        except Exception:
            return None
    if bf < 2:
        return None
    ks_ = (lambda tk: tk.split(":", 1)[1]) if order == "text" else key_sort   # "text": the printed decimal form
    if order == "half":
        ks_ = lambda tk: int(tk.split(":", 1)[1]) >> 1                          # "half": floor(v/2), 2k and 2k+1 compare equal
    for a, c in zip(toks, toks[1:]):
        if not ks_(a) < ks_(c):
            return "top node keys not strictly ascending under the configured order"
    for k in toks:
        if key_layer(k, bf) < height:
            return "key %s has layer %d below the recorded height %d at branch factor %d" % (k, key_layer(k, bf), height, bf)
    return None
