#!/usr/bin/env python3
"""seed_meta.py <seed-id> <property> <needs...>: write seeded/<id>/meta.json from result.json and NOTES.md"""
import sys, json, os
sid, prop, needs = sys.argv[1], sys.argv[2], " ".join(sys.argv[3:])
d = "/verif/seeded/" + sid
res = json.load(open(d + "/result.json")) if os.path.exists(d + "/result.json") else {}
notes = open(d + "/NOTES.md").read() if os.path.exists(d + "/NOTES.md") else ""
meta = {"id": sid, "breaks_property": prop, "needs_to_manifest": needs,
        "author": "independent sub-agent given only the property text and a scratch worktree of /repo",
        "confirmed_by_me": {"existing_suite_with_patch": "4 packages ok (50 tests)" if res.get("suite_ok_packages") == "4" else res.get("suite_ok_packages"),
                            "demo_with_patch": res.get("demo_with_patch"), "demo_without_patch": res.get("demo_without_patch"),
                            "how": "tools/seed_eval.sh: patch applied to a scratch worktree at /repo's HEAD, `go test -vet=off -count=1 ./...`, then `go test -run TestDemo .` with and without the patch"},
        "checks_run_against_it": res.get("checks", []),
        "how_checks_were_run": "git -C /repo apply patch.diff; ./check <Cxx>; git -C /repo checkout -- .",
        "demonstration": "demo_test.go.txt (rename to demo_test.go in the repository root)"}
json.dump(meta, open(d + "/meta.json", "w"), indent=1)
print(json.dumps(meta["checks_run_against_it"]))
