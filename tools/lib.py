"""Shared helpers for the check tooling (python3 stdlib only): key tokens, an independent
re-implementation of layers / CRC-64 / names / node codecs used by the oracles."""
import base64, hashlib, json, functools

# ---------------------------------------------------------------- CRC-64/ECMA (hash/crc64)
_POLY = 0xC96C5795D7870F42
_TAB = []
for _i in range(256):
    _c = _i
    for _ in range(8):
        _c = (_c >> 1) ^ _POLY if _c & 1 else _c >> 1
    _TAB.append(_c)

def crc64(b: bytes) -> int:
    c = 0xFFFFFFFFFFFFFFFF
    for x in b:
        c = _TAB[(c ^ x) & 0xFF] ^ (c >> 8)
    return c ^ 0xFFFFFFFFFFFFFFFF

def uint_layer(v: int, bf: int) -> int:
    l = 0
    while v != 0 and v % bf == 0:
        v //= bf
        l += 1
    return l & 0xFF

def name_of(b: bytes) -> str:
    return base64.urlsafe_b64encode(hashlib.blake2b(b, digest_size=32).digest()).rstrip(b"=").decode()

# ---------------------------------------------------------------- key tokens
def hx(b: bytes) -> str:
    return b.hex() if b else "-"

def unhx(s: str) -> bytes:
    return b"" if s == "-" else bytes.fromhex(s)

def key_marshal(tok: str) -> bytes:
    p = tok.split(":")
    if p[0] in "iu":
        return p[1].encode()
    if p[0] == "s":
        return b'"' + unhx(p[1]) + b'"'
    if p[0] == "y":
        return b'"' + base64.b64encode(unhx(p[1])) + b'"'
    if p[0] == "b":
        return unhx(p[1])
    if p[0] == "k":
        return ('{"K":%s,"L":%s}' % (p[1], p[2])).encode()
    raise ValueError(tok)

def key_layer(tok: str, bf: int) -> int:
    p = tok.split(":")
    if p[0] == "i":
        return uint_layer(abs(int(p[1])), bf)
    if p[0] == "u":
        return uint_layer(int(p[1]), bf)
    if p[0] in "syb":
        return uint_layer(crc64(unhx(p[1])), bf)
    if p[0] == "k":
        return int(p[2])
    if p[0] in ("ni", "nu"):
        return uint_layer(abs(int(p[2])), bf)
    raise ValueError(tok)

def key_sort(tok: str):
    p = tok.split(":")
    if p[0] in ("ni", "nu"):
        return (p[0], p[2].encode())       # narrower integer types are ordered by their JSON text
    if p[0] in "iuk":
        return (p[0], int(p[1]))
    return (p[0], unhx(p[1]))

def key_unmarshal(kind: int, b: bytes) -> str:
    if kind == 0:
        return "i:%d" % int(b)
    if kind == 1:
        return "u:%d" % int(b)
    if kind == 2:
        return "s:" + hx(json.loads(b).encode())
    if kind == 3:
        return "y:" + hx(base64.b64decode(json.loads(b)))
    if kind == 4:
        return "b:" + hx(b)
    d = json.loads(b)
    return "k:%d:%d" % (d["K"], d["L"])

# ---------------------------------------------------------------- node decoders (independent of Go and Coq)
def _uvarint(b, i):
    x = 0; s = 0
    while True:
        if i >= len(b):
            raise ValueError("truncated uvarint")
        c = b[i]; i += 1
        if c < 0x80:
            return x | (c << s), i
        x |= (c & 0x7F) << s; s += 7

def _bodies(b, i):
    n, i = _uvarint(b, i)
    out = []
    for _ in range(n):
        l, i = _uvarint(b, i)
        if i + l > len(b):
            raise ValueError("short body")
        out.append(bytes(b[i:i + l])); i += l
    return out, i

def decode_node(fmt: str, b: bytes):
    """returns (key bodies, value bodies, links (None or str)), links always len(keys)+1"""
    if fmt == "v1.1.5binary":
        ks, i = _bodies(b, 0)
        vs, i = _bodies(b, i)
        ls, i = _bodies(b, i)
        links = [l.decode() if l else None for l in ls]
        if not links:
            links = [None] * (len(ks) + 1)
        return ks, vs, links
    d = json.loads(b)
    raw = _raw_elems(b)
    ks, vs = raw["Key"], raw["Value"]
    links = [l if l else None for l in d.get("Link") or []]
    if not links:
        links = [None] * (len(ks) + 1)
    return ks, vs, links

def _raw_elems(b: bytes):
    """raw element bytes of the top-level arrays of a v1 node"""
    dec = json.JSONDecoder()
    s = b.decode()
    out = {}
    i = 1
    while i < len(s) and s[i] != "}":
        if s[i] == ",":
            i += 1
        name, i = dec.raw_decode(s, i)
        assert s[i] == ":"; i += 1
        assert s[i] == "["; i += 1
        elems = []
        while s[i] != "]":
            if s[i] == ",":
                i += 1
            _, j = dec.raw_decode(s, i)
            elems.append(s[i:j].encode()); i = j
        i += 1
        out[name] = elems
    return out

def encode_node(fmt: str, ks, vs, links) -> bytes:
    def uv(n):
        o = bytearray()
        while n >= 0x80:
            o.append((n & 0x7F) | 0x80); n >>= 7
        o.append(n); return bytes(o)
    def bodies(l):
        return uv(len(l)) + b"".join(uv(len(x)) + x for x in l)
    if fmt == "v1.1.5binary":
        out = bodies(ks) + bodies(vs)
        if all(l is None for l in links):
            return out + uv(0)
        return out + bodies([(l or "").encode() for l in links])
    out = b'{"Key":[' + b",".join(ks) + b'],"Value":[' + b",".join(vs) + b"]"
    if not all(l is None for l in links):
        out += b',"Link":[' + b",".join(b"null" if l is None else b'"' + l.encode() + b'"' for l in links) + b"]"
    return out + b"}"

# ---------------------------------------------------------------- observation lines
def parse_obs(line: str):
    """'<idx> <outcome> [payload] | L=.. S=..' -> dict"""
    head, _, tail = line.partition(" | ")
    hp = head.split(" ", 2)
    d = {"idx": int(hp[0]), "outcome": hp[1], "payload": hp[2] if len(hp) > 2 else "", "loads": [], "stores": []}
    lpart, _, spart = tail.partition(" S=")
    lpart = lpart[2:]
    d["loads"] = [x for x in lpart.split(",") if x]
    d["stores"] = [x for x in spart.split(",") if x]
    return d

def read_obs(path):
    """-> {history id: [obs dict]}"""
    res = {}; cur = None
    with open(path, encoding="latin-1") as f:
        for line in f:
            line = line.rstrip("\n")
            if not line or line.startswith("  !"):
                continue
            if line.startswith("#"):
                cur = line.split()[1]; res[cur] = []
            else:
                res[cur].append(parse_obs(line))
    return res
