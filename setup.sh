#!/bin/sh
# MANIFEST.setup_cmd: builds the Coq development (full .vo build), the extracted model driver and the
# Go harness from files on disk only.
set -e
cd "$(dirname "$0")"
export GOFLAGS=-mod=mod GOPROXY=off GOSUMDB=off GOTOOLCHAIN=local
(cd coq && coq_makefile -f _CoqProject -o Makefile > /dev/null && timeout 3000 make -j16 > /dev/null)
(cd ocaml && coqc -Q ../coq Mast ../coq/Extract.v > /dev/null && ocamlfind ocamlopt -O2 -w -a -package str model.mli model.ml driver.ml -o driver)
mkdir -p build evidence replays
(cd harness && cp /repo/go.sum . && go build -o ../build/mastrun ./cmd/mastrun)
echo setup ok
