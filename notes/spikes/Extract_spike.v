Require Import Tree3.
From Coq Require Import ExtrOcamlBasic ZArith.
Definition splitZ := split Z Z Z.compare.
Definition toListZ := toList Z Z.
Extraction "model.ml" splitZ toListZ.
