From Coq Require Import List NArith Lia.
Import ListNotations.
Local Open Scope N_scope.

Definition mask64 : N := 18446744073709551615.
Definition add64 (a b : N) : N := N.land (a + b) mask64.
Definition rotr64 (x : N) (n : N) : N := N.lor (N.shiftr x n) (N.land (N.shiftl x (64 - n)) mask64).

(* ---- CRC-64/ECMA as hash/crc64 (reflected, poly 0xC96C5795D7870F42) ---- *)
Definition crc_poly : N := 14514072000185962306. (* 0xC96C5795D7870F42 *)
Definition crc_bit (c : N) : N := if N.odd c then N.lxor (N.shiftr c 1) crc_poly else N.shiftr c 1.
Definition crc_byte (c : N) (b : N) : N :=
  let c := N.lxor c b in crc_bit (crc_bit (crc_bit (crc_bit (crc_bit (crc_bit (crc_bit (crc_bit c))))))).
Definition crc64 (bs : list N) : N := N.lxor (fold_left crc_byte bs mask64) mask64.

Fixpoint uint_layer_fuel (fuel : nat) (v bf : N) : nat :=
  match fuel with
  | O => O
  | S f => if (v =? 0) then O else if (v mod bf =? 0) then S (uint_layer_fuel f (v / bf) bf) else O
  end.
Definition uint_layer := uint_layer_fuel 64.

(* ---- BLAKE2b (RFC 7693), unkeyed ---- *)
Definition iv : list N := [7640891576956012808; 13503953896175478587; 4354685564936845355; 11912009170470909681;
                           5840696475078001361; 11170449401992604703; 2270897969802886507; 6620516959819538809].
Definition sigma : list (list nat) := [
 [0;1;2;3;4;5;6;7;8;9;10;11;12;13;14;15]%nat; [14;10;4;8;9;15;13;6;1;12;0;2;11;7;5;3]%nat;
 [11;8;12;0;5;2;15;13;10;14;3;6;7;1;9;4]%nat; [7;9;3;1;13;12;11;14;2;6;5;10;4;0;15;8]%nat;
 [9;0;5;7;2;4;10;15;14;1;11;12;6;8;3;13]%nat; [2;12;6;10;0;11;8;3;4;13;7;5;15;14;1;9]%nat;
 [12;5;1;15;14;13;4;10;0;7;6;3;9;2;8;11]%nat; [13;11;7;14;12;1;3;9;5;0;15;4;8;6;2;10]%nat;
 [6;15;14;9;11;3;0;8;12;2;13;7;1;4;10;5]%nat; [10;2;8;4;7;6;1;5;15;11;9;14;3;12;13;0]%nat;
 [0;1;2;3;4;5;6;7;8;9;10;11;12;13;14;15]%nat; [14;10;4;8;9;15;13;6;1;12;0;2;11;7;5;3]%nat ].

Definition nthN (l : list N) (i : nat) := nth i l 0.
Fixpoint upd (l : list N) (i : nat) (x : N) : list N :=
  match l, i with [], _ => [] | _ :: r, O => x :: r | a :: r, S j => a :: upd r j x end.

Definition G (v : list N) (a b c d : nat) (x y : N) : list N :=
  let va := add64 (add64 (nthN v a) (nthN v b)) x in
  let vd := rotr64 (N.lxor (nthN v d) va) 32 in
  let vc := add64 (nthN v c) vd in
  let vb := rotr64 (N.lxor (nthN v b) vc) 24 in
  let va := add64 (add64 va vb) y in
  let vd := rotr64 (N.lxor vd va) 16 in
  let vc := add64 vc vd in
  let vb := rotr64 (N.lxor vb vc) 63 in
  upd (upd (upd (upd v a va) b vb) c vc) d vd.

Definition round (m : list N) (v : list N) (s : list nat) : list N :=
  let g v i a b c d := G v a b c d (nthN m (nth (2*i) s 0%nat)) (nthN m (nth (2*i+1) s 0%nat)) in
  let v := g v 0%nat 0%nat 4%nat 8%nat 12%nat in
  let v := g v 1%nat 1%nat 5%nat 9%nat 13%nat in
  let v := g v 2%nat 2%nat 6%nat 10%nat 14%nat in
  let v := g v 3%nat 3%nat 7%nat 11%nat 15%nat in
  let v := g v 4%nat 0%nat 5%nat 10%nat 15%nat in
  let v := g v 5%nat 1%nat 6%nat 11%nat 12%nat in
  let v := g v 6%nat 2%nat 7%nat 8%nat 13%nat in
  g v 7%nat 3%nat 4%nat 9%nat 14%nat.

Fixpoint le_word (bs : list N) (n : nat) : N :=
  match n, bs with
  | O, _ => 0 | _, [] => 0
  | S k, b :: r => b + 256 * le_word r k
  end.
Fixpoint words (bs : list N) (n : nat) : list N :=
  match n with O => [] | S k => le_word bs 8 :: words (skipn 8 bs) k end.

Definition compress (h : list N) (block : list N) (t : N) (last : bool) : list N :=
  let m := words block 16 in
  let v := h ++ iv in
  let v := upd v 12 (N.lxor (nthN v 12) (N.land t mask64)) in
  let v := upd v 13 (N.lxor (nthN v 13) (N.shiftr t 64)) in
  let v := if last then upd v 14 (N.lxor (nthN v 14) mask64) else v in
  let v := fold_left (round m) sigma v in
  map (fun i => N.lxor (N.lxor (nthN h i) (nthN v i)) (nthN v (i + 8))) (seq 0 8).

Fixpoint pad (bs : list N) (n : nat) : list N :=
  match n with O => [] | S k => match bs with [] => 0 :: pad [] k | b :: r => b :: pad r k end end.

(* fuel = number of blocks + 1 *)
Fixpoint blocks (fuel : nat) (h : list N) (bs : list N) (t : N) : list N :=
  match fuel with
  | O => h
  | S f =>
      if (N.of_nat (length bs) <=? 128) then compress h (pad bs 128) (t + N.of_nat (length bs)) true
      else blocks f (compress h (firstn 128 bs) (t + 128) false) (skipn 128 bs) (t + 128)
  end.

Fixpoint word_bytes (w : N) (n : nat) : list N :=
  match n with O => [] | S k => (w mod 256) :: word_bytes (w / 256) k end.

Definition blake2b_256 (bs : list N) : list N :=
  let h0 := upd iv 0 (N.lxor (nthN iv 0) 16842784) in   (* 0x01010000 ^ outlen 32 *)
  let h := blocks (S (Nat.div (length bs) 128)) h0 bs 0 in
  firstn 32 (flat_map (fun w => word_bytes w 8) h).

(* ---- unpadded URL-safe base64 ---- *)
Definition b64c (i : N) : N :=
  if i <? 26 then 65 + i else if i <? 52 then 97 + (i - 26) else if i <? 62 then 48 + (i - 52) else if i =? 62 then 45 else 95.
Fixpoint b64 (bs : list N) : list N :=
  match bs with
  | [] => []
  | [a] => [b64c (a / 4); b64c ((a mod 4) * 16)]
  | [a; b] => [b64c (a / 4); b64c ((a mod 4) * 16 + b / 16); b64c ((b mod 16) * 4)]
  | a :: b :: c :: r => b64c (a / 4) :: b64c ((a mod 4) * 16 + b / 16) :: b64c ((b mod 16) * 4 + c / 64) :: b64c (c mod 64) :: b64 r
  end.

(* tests: "abc" BLAKE2b-512 is the RFC vector; we test 256 via Go-observed node below *)
Definition node_bytes : list N := [2;3;34;97;34;3;34;98;34;2;1;48;1;49;0].  (* "\x02\x03\"a\"\x03\"b\"\x02\x010\x011\x00" *)
Time Eval vm_compute in b64 (blake2b_256 node_bytes).
Time Eval vm_compute in crc64 [97].   (* 'a' *)
Time Eval vm_compute in (uint_layer 48 2, uint_layer 81 3, uint_layer 0 2).
Definition big := flat_map (fun _ => node_bytes) (seq 0 40).  (* 600 bytes *)
Time Eval vm_compute in b64 (blake2b_256 big).
