From Coq Require Import List ZArith Lia Bool Arith.
Import ListNotations.

Inductive res (A : Type) := Ok (a : A) | ErrFuel | ErrPanic.
Arguments Ok {A}. Arguments ErrFuel {A}. Arguments ErrPanic {A}.
Definition bind {A B} (r : res A) (f : A -> res B) : res B :=
  match r with Ok a => f a | ErrFuel => ErrFuel | ErrPanic => ErrPanic end.
Notation "'let*' x ':=' r 'in' k" := (bind r (fun x => k)) (at level 200, x pattern, r at level 100, k at level 200).

Section MST.
Variable K V : Type.
Variable cmp : K -> K -> comparison.
Variable layer : K -> nat.

Inductive node := Node (l0 : option node) (es : list (K * V * option node)).
Definition link := option node.
Definition entry := (K * V * link)%type.
Definition ekey (e : entry) : K := fst (fst e).

Definition mk (l0 : link) (es : list entry) : link :=
  match l0, es with None, [] => None | _, _ => Some (Node l0 es) end.

Fixpoint toListN (n : node) : list (K * V) :=
  match n with
  | Node l0 es =>
      (match l0 with None => [] | Some c => toListN c end) ++
      (fix go (es : list entry) : list (K * V) :=
         match es with
         | [] => []
         | (k, v, l) :: r => (k, v) :: (match l with None => [] | Some c => toListN c end) ++ go r
         end) es
  end.
Definition toList (l : link) := match l with None => [] | Some n => toListN n end.

Definition klt (a b : K) := match cmp a b with Lt => true | _ => false end.

Fixpoint span_lt (k : K) (es : list entry) : list entry * list entry :=
  match es with
  | [] => ([], [])
  | e :: r => if klt (ekey e) k then let (a, b) := span_lt k r in (e :: a, b) else ([], es)
  end.

Definition last_link (l0 : link) (es : list entry) : link :=
  match rev es with [] => l0 | (_, _, l) :: _ => l end.
Definition set_last_link (l0 : link) (es : list entry) (nl : link) : link * list entry :=
  match rev es with
  | [] => (nl, [])
  | (k, v, _) :: r => (l0, rev r ++ [(k, v, nl)])
  end.

Definition split_link (sp : node -> res (link * link)) (l : link) : res (link * link) :=
  match l with None => Ok (None, None) | Some c => sp c end.

(* split, as lib.go:82-181; fuel = level of n + 1 *)
Fixpoint split (fuel : nat) (k : K) (n : node) : res (link * link) :=
  match fuel with
  | O => ErrFuel
  | S f =>
    match n with Node l0 es =>
      let (les, rs) := span_lt k es in
      let* _ := (match rs with
                 | (k', _, _) :: _ => match cmp k' k with Eq => ErrPanic | _ => Ok tt end
                 | [] => Ok tt end) in
      let* (lm', tooBig) := split_link (split f k) (last_link l0 les) in
      let (l0', les') := set_last_link l0 les lm' in
      let* (tooSmall, rm') := split_link (split f k) tooBig in
      match tooSmall with
      | Some _ => ErrPanic
      | None => Ok (mk l0' les', mk rm' rs)
      end
    end
  end.

(* first index with key >= k, as findNode *)
Fixpoint get (fuel : nat) (cur target : nat) (k : K) (n : node) : res (option V) :=
  match fuel with
  | O => ErrFuel
  | S f =>
    match n with Node l0 es =>
      let (les, rs) := span_lt k es in
      match rs with
      | (k', v', _) :: _ =>
          match cmp k' k with
          | Eq => if Nat.eqb cur target then Ok (Some v') else Ok None  (* found above/below its layer: Go returns not found unless at target *)
          | _ => if Nat.eqb cur target then Ok None else
                 match last_link l0 les with None => Ok None (* follow returns same node; ends not found *) | Some c => get f (cur - 1) target k c end
          end
      | [] => if Nat.eqb cur target then Ok None else
              match last_link l0 les with None => Ok None | Some c => get f (cur - 1) target k c end
      end
    end
  end.

(* ---------- proof spike ---------- *)
Definition ents (es : list entry) : list (K * V) :=
  flat_map (fun e : entry => (fst (fst e), snd (fst e)) :: toList (snd e)) es.

Lemma toListN_eq l0 es : toListN (Node l0 es) = toList l0 ++ ents es.
Proof.
  cbn [toListN]. f_equal.
  induction es as [|[[k v] l] r IH]; [reflexivity|].
  cbn [ents flat_map fst snd]. unfold ents in IH. rewrite <- IH. destruct l; reflexivity.
Qed.

Lemma toList_mk l0 es : toList (mk l0 es) = toList l0 ++ ents es.
Proof.
  unfold mk. destruct l0 as [c|]; [apply toListN_eq|].
  destruct es; [reflexivity|]. apply toListN_eq.
Qed.

Lemma ents_app a b : ents (a ++ b) = ents a ++ ents b.
Proof. unfold ents. apply flat_map_app. Qed.

Lemma span_lt_app k es a b : span_lt k es = (a, b) -> es = a ++ b.
Proof.
  revert a b; induction es as [|e r IH]; cbn [span_lt]; intros a b H.
  - inversion H; reflexivity.
  - destruct (klt (ekey e) k).
    + destruct (span_lt k r) as [a' b'] eqn:E. inversion H; subst. cbn. f_equal. apply IH. reflexivity.
    + inversion H; subst. reflexivity.
Qed.

(* the listing of (l0, es) is: everything before the last link, then the last link *)
Definition before_last (l0 : link) (es : list entry) : list (K * V) :=
  match rev es with
  | [] => []
  | (k, v, _) :: r => toList l0 ++ ents (rev r) ++ [(k, v)]
  end.

Lemma last_link_split l0 es :
  toList l0 ++ ents es = before_last l0 es ++ toList (last_link l0 es).
Proof.
  unfold before_last, last_link.
  destruct (rev es) as [|[[k v] l] r] eqn:E.
  - apply (f_equal (@rev _)) in E. rewrite rev_involutive in E. subst es. cbn. rewrite app_nil_r. reflexivity.
  - apply (f_equal (@rev _)) in E. rewrite rev_involutive in E. subst es. cbn [rev].
    rewrite ents_app. cbn [ents flat_map fst snd]. rewrite app_nil_r.
    rewrite <- !app_assoc. reflexivity.
Qed.

Lemma set_last_link_list l0 es nl l0' es' :
  set_last_link l0 es nl = (l0', es') ->
  toList l0' ++ ents es' = before_last l0 es ++ toList nl.
Proof.
  unfold set_last_link, before_last.
  destruct (rev es) as [|[[k v] l] r] eqn:E; intros H; inversion H; subst; clear H.
  - cbn. rewrite app_nil_r. reflexivity.
  - rewrite ents_app. cbn [ents flat_map fst snd]. rewrite app_nil_r.
    rewrite <- !app_assoc. reflexivity.
Qed.

Lemma split_preserves_listing fuel k : forall n l r,
  split fuel k n = Ok (l, r) -> toList l ++ toList r = toListN n.
Proof.
  induction fuel as [|f IH]; intros n l r H; [discriminate|].
  destruct n as [l0 es]. cbn [split] in H.
  destruct (span_lt k es) as [les rs] eqn:Esp.
  apply span_lt_app in Esp. subst es.
  match type of H with bind ?c _ = _ => destruct c as [[]| |]; cbn [bind] in H; try discriminate end.
  destruct (split_link (split f k) (last_link l0 les)) as [[lm' tooBig]| |] eqn:E1; cbn [bind] in H; try discriminate.
  destruct (set_last_link l0 les lm') as [l0' les'] eqn:Esl.
  destruct (split_link (split f k) tooBig) as [[tooSmall rm']| |] eqn:E2; cbn [bind] in H; try discriminate.
  destruct tooSmall; [discriminate|]. inversion H; subst l r; clear H.
  rewrite !toList_mk, toListN_eq, ents_app.
  rewrite (set_last_link_list _ _ _ _ _ Esl).
  rewrite (app_assoc (toList l0) (ents les) (ents rs)), (last_link_split l0 les).
  assert (A1 : toList lm' ++ toList tooBig = toList (last_link l0 les)).
  { destruct (last_link l0 les) as [c|]; cbn [split_link] in E1.
    - apply IH in E1. exact E1.
    - inversion E1; reflexivity. }
  assert (A2 : toList rm' = toList tooBig).
  { destruct tooBig as [c|]; cbn [split_link] in E2.
    - apply IH in E2. cbn [toList app] in E2. exact E2.
    - inversion E2; reflexivity. }
  rewrite A2, <- A1. rewrite <- !app_assoc. reflexivity.
Qed.
End MST.

