open Model
let rec pos_of_int n = if n = 1 then XH else if n land 1 = 0 then XO (pos_of_int (n lsr 1)) else XI (pos_of_int (n lsr 1))
let z_of_int n = if n = 0 then Z0 else if n > 0 then Zpos (pos_of_int n) else Zneg (pos_of_int (-n))
let rec int_of_pos = function XH -> 1 | XO p -> 2 * int_of_pos p | XI p -> 2 * int_of_pos p + 1
let int_of_z = function Z0 -> 0 | Zpos p -> int_of_pos p | Zneg p -> - (int_of_pos p)
let leaf ks = Node (None, List.map (fun k -> ((z_of_int k, z_of_int k), None)) ks)
let () =
  let t = Node (Some (leaf [1;3]), [((z_of_int 4, z_of_int 4), Some (leaf [5;7]))]) in
  match splitZ (S (S (S O))) (z_of_int 6) t with
  | Ok (l, r) ->
    List.iter (fun (k,_) -> Printf.printf "%d " (int_of_z k)) (toListZ l); print_string "| ";
    List.iter (fun (k,_) -> Printf.printf "%d " (int_of_z k)) (toListZ r); print_newline ()
  | _ -> print_endline "err"
