(* Driver for the extracted model: reads histories (one operation per line, "# id" starts a new
   history in a fresh world), runs Model.step, prints one canonical observation line per
   operation.  Only conversions between text and Coq's binary numbers live here. *)
open Model

let rec pos_of_int n = if n = 1 then XH else if n land 1 = 0 then XO (pos_of_int (n lsr 1)) else XI (pos_of_int (n lsr 1))
let n_of_int n = if n = 0 then N0 else Npos (pos_of_int n)
let rec int_of_pos = function XH -> 1 | XO p -> 2 * int_of_pos p | XI p -> 2 * int_of_pos p + 1
let int_of_n = function N0 -> 0 | Npos p -> int_of_pos p
let rec nat_of_int n = if n <= 0 then O else S (nat_of_int (n - 1))
let rec int_of_nat = function O -> 0 | S n -> 1 + int_of_nat n

(* arbitrary-size decimals <-> positive, by repeated halving / doubling on digit strings *)
let dec_to_pos (s : string) : positive =
  (* s is a non-empty decimal > 0 *)
  let digits = Array.init (String.length s) (fun i -> Char.code s.[i] - 48) in
  let is_zero d = Array.for_all (fun x -> x = 0) d in
  let halve d = let r = ref 0 in Array.iteri (fun i x -> let c = !r * 10 + x in d.(i) <- c / 2; r := c mod 2) d; !r in
  let bits = ref [] in
  while not (is_zero digits) do bits := halve digits :: !bits done;
  (* bits: most significant first *)
  match !bits with
  | [] -> failwith "zero"
  | _ :: rest -> List.fold_left (fun p b -> if b = 1 then XI p else XO p) XH rest
let pos_to_dec (p : positive) : string =
  let rec bits p acc = match p with XH -> 1 :: acc | XO q -> bits q (0 :: acc) | XI q -> bits q (1 :: acc) in
  let bs = bits p [] in
  let digits = ref [0] in (* little endian *)
  List.iter (fun b ->
    let carry = ref b in
    digits := List.map (fun d -> let v = d * 2 + !carry in carry := v / 10; v mod 10) !digits;
    if !carry > 0 then digits := !digits @ [!carry]) bs;
  String.concat "" (List.rev_map string_of_int !digits)
let n_of_dec s = if String.for_all (fun c -> c = '0') s then N0 else Npos (dec_to_pos s)
let z_of_dec s =
  if s.[0] = '-' then (match n_of_dec (String.sub s 1 (String.length s - 1)) with N0 -> Z0 | Npos p -> Zneg p)
  else (match n_of_dec s with N0 -> Z0 | Npos p -> Zpos p)
let dec_of_n = function N0 -> "0" | Npos p -> pos_to_dec p
let dec_of_z = function Z0 -> "0" | Zpos p -> pos_to_dec p | Zneg p -> "-" ^ pos_to_dec p

let bytes_of_hex (s : string) : n list =
  if s = "-" then [] else
  List.init (String.length s / 2) (fun i -> n_of_int (int_of_string ("0x" ^ String.sub s (2 * i) 2)))
let hex_of_bytes (b : n list) : string =
  if b = [] then "-" else String.concat "" (List.map (fun x -> Printf.sprintf "%02x" (int_of_n x)) b)
let str_of_bytes (b : n list) : string = String.concat "" (List.map (fun x -> String.make 1 (Char.chr (int_of_n x))) b)

let parse_key (s : string) : key =
  match String.split_on_char ':' s with
  | ["i"; d] -> KInt (z_of_dec d)
  | ["u"; d] -> KUint (n_of_dec d)
  | ["s"; h] -> KStr (bytes_of_hex h)
  | ["y"; h] -> KBytes (bytes_of_hex h)
  | ["b"; h] -> KBlob (bytes_of_hex h)
  | ["k"; d; l] -> KUser (z_of_dec d, nat_of_int (int_of_string l))
  | _ -> failwith ("bad key " ^ s)
let show_key = function
  | KInt z -> "i:" ^ dec_of_z z
  | KUint n -> "u:" ^ dec_of_n n
  | KStr b -> "s:" ^ hex_of_bytes b
  | KBytes b -> "y:" ^ hex_of_bytes b
  | KBlob b -> "b:" ^ hex_of_bytes b
  | KUser (z, l) -> "k:" ^ dec_of_z z ^ ":" ^ string_of_int (int_of_nat l)

let opt f s = if s = "-" then None else Some (f s)
let id s = n_of_int (int_of_string s)
let fmt_of = function "bin" -> Some FBin | "v1" -> Some FV1 | _ -> None

let parse_op (toks : string list) : op =
  match toks with
  | ["new"; t; s; bf; f; kind] -> ONew (id t, id s, id bf, fmt_of f, id kind)
  | ["ins"; t; k; v] -> OIns (id t, parse_key k, bytes_of_hex v)
  | ["del"; t; k; v] -> ODel (id t, parse_key k, bytes_of_hex v)
  | ["get"; t; k] -> OGet (id t, parse_key k)
  | ["size"; t] -> OSize (id t)
  | ["height"; t] -> OHeight (id t)
  | ["iter"; t] -> OIter (id t)
  | ["seek"; t; k] -> OSeek (id t, parse_key k)
  | ["clone"; t; t2] -> OClone (id t, id t2)
  | ["dirty"; t] -> ODirty (id t)
  | ["mkroot"; t; r] -> OMakeRoot (id t, id r)
  | ["load"; r; t; s; kind] -> OLoad (id r, id t, id s, id kind)
  | ["loadnc"; r; t; s; kind] -> OLoad (id r, id t, id s, id kind)   (* the model has no cache *)
  | ["rootset"; r2; r; size; height; bf; f; dl] ->
      ORootSet (id r2, id r, opt n_of_dec size, opt (fun x -> nat_of_int (int_of_string x)) height,
                opt n_of_dec bf, (if f = "-" then None else Some (if f = "empty" then [] else bytes_of_hex f)), dl = "1")
  | ["corrupt"; s; r; off; nb] -> OCorrupt (id s, id r, id off, opt id nb)
  | ["cursor"; t; c] -> OCursor (id t, id c)
  | ["cmin"; c] -> OCMin (id c)
  | ["cmax"; c] -> OCMax (id c)
  | ["cceil"; c; k] -> OCCeil (id c, parse_key k)
  | ["cfwd"; c] -> OCFwd (id c)
  | ["cbwd"; c] -> OCBwd (id c)
  | ["cget"; c] -> OCGet (id c)
  | ["diff"; tn; told] -> ODiff (id tn, opt id told)
  | ["difflinks"; tn; told] -> ODiffLinks (id tn, opt id told)
  | ["diffstop"; tn; told; n] -> ODiffStop (id tn, opt id told, nat_of_int (int_of_string n))
  | ["difffail"; tn; told; n] -> ODiffFail (id tn, opt id told, nat_of_int (int_of_string n))
  | ["diffcur"; tn; told] -> ODiffCur (id tn, opt id told)
  | ["iterstop"; t; n] -> OIterStop (id t, nat_of_int (int_of_string n))
  | ["seekstop"; t; k; n] -> OSeekStop (id t, parse_key k, nat_of_int (int_of_string n))
  | _ -> failwith ("bad op: " ^ String.concat " " toks)

let show_kv (k, v) = show_key k ^ "=" ^ hex_of_bytes v
let show_ov = function None -> "nil" | Some v -> hex_of_bytes v
let show_dobs = function
  | DoEntry (a, r, k, av, rv) ->
      (if a then "+" else if r then "-" else "~") ^ show_key k ^ "=" ^ show_ov av ^ "/" ^ show_ov rv
  | DoLink (r, h) -> (if r then "R" else "A") ^ (match h with Some x -> str_of_bytes x | None -> "ptr")

let show_obs = function
  | ObFail c -> (match int_of_n c with 1 -> "err" | 2 -> "panic" | 3 -> "fuel" | _ -> "bad")
  | ObOk -> "ok"
  | ObVal None -> "ok v:none"
  | ObVal (Some v) -> "ok v:" ^ hex_of_bytes v
  | ObNum n -> "ok n:" ^ dec_of_n n
  | ObBool b -> "ok b:" ^ (if b then "1" else "0")
  | ObList l -> "ok l:" ^ String.concat "," (List.map show_kv l)
  | ObRoot r -> "ok r:" ^ str_of_bytes (root_json r)
  | ObEntry None -> "ok e:none"
  | ObEntry (Some kv) -> "ok e:" ^ show_kv kv
  | ObDiff l -> "ok d:" ^ String.concat ";" (List.map show_dobs l)

let show_events (tr : event list) : string =
  let loads = List.filter_map (function ELoad h -> Some (str_of_bytes h) | _ -> None) tr in
  let stores = List.filter_map (function EStore (h, b) -> Some (str_of_bytes h ^ ":" ^ hex_of_bytes b) | _ -> None) tr in
  "L=" ^ String.concat "," loads ^ " S=" ^ String.concat "," (List.sort compare stores)

let () =
  let w = ref empty_world in
  let idx = ref 0 in
  (try
    while true do
      let line = input_line stdin in
      if String.length line = 0 then ()
      else if line.[0] = '#' then (w := empty_world; idx := 0; print_endline line)
      else begin
        let toks = List.filter (fun s -> s <> "") (String.split_on_char ' ' line) in
        (match toks with
         | ["layer"; k; bf] when String.length k > 1 && k.[0] = 'n' ->
             (* narrow integer types: ni:<bits>:<d> / nu:<bits>:<d> *)
             (match String.split_on_char ':' k with
              | [sg; _; d] -> Printf.printf "%d ok n:%d | L= S=\n" !idx (int_of_nat (narrow_layer (n_of_dec bf) (sg = "ni") (z_of_dec d)))
              | _ -> failwith ("bad key " ^ k))
         | ["cmp"; a; b] when String.length a > 1 && a.[0] = 'n' ->
             (match String.split_on_char ':' a, String.split_on_char ':' b with
              | [_; _; x], [_; _; y] ->
                  Printf.printf "%d ok n:%s | L= S=\n" !idx
                    (match narrow_cmp (z_of_dec x) (z_of_dec y) with Lt -> "-1" | Eq -> "0" | Gt -> "1")
              | _ -> failwith ("bad key " ^ a))
         | ["layer"; k; bf] ->
             Printf.printf "%d ok n:%d | L= S=\n" !idx (int_of_nat (klayer (n_of_dec bf) (parse_key k)))
         | ["cmp"; a; b] ->
             Printf.printf "%d ok n:%s | L= S=\n" !idx
               (match kcmp (parse_key a) (parse_key b) with Lt -> "-1" | Eq -> "0" | Gt -> "1")
         | _ ->
             let o = parse_op toks in
             let ((w', ob), tr) = step !w o in
             w := w';
             Printf.printf "%d %s | %s\n" !idx (show_obs ob) (show_events tr));
        incr idx
      end
    done
  with End_of_file -> ())
