(** Cursor navigation (C10): Min, Forward, Ceil and Get walk the sorted listing.  The argument is
    structural: a cursor path denotes the entries from its position to the end ([after]); Min makes
    that the whole listing, Forward drops exactly its first entry, Ceil k makes it the entries not
    smaller than k, and Get returns its first entry.  Lemma file. *)
From Coq Require Import List NArith ZArith Lia Bool Arith Sorted.
From Mast Require Import Prim Tree Erase Build Spec Canon Links Level Inv Nav.
Import ListNotations.

Section CURSOR.
Variables K V : Type.
Variable cmp : K -> K -> comparison.
Hypothesis cmp_eq : forall a b, cmp a b = Eq <-> a = b.
Hypothesis cmp_antisym : forall a b, cmp b a = CompOpp (cmp a b).
Hypothesis cmp_trans : forall a b c, cmp a b = Lt -> cmp b c = Lt -> cmp a c = Lt.
Notation node := (node K V).
Notation link := (link K V).
Notation entry := (entry K V).
Notation kv := (K * V)%type.
Notation cpath := (cpath K V).
Notation to_list := (to_list K V).
Notation to_list_n := (to_list_n K V).

Definition flat_es (es : list entry) : list kv := flat_map (fun e : entry => (ekey _ _ e, eval _ _ e) :: to_list (elink _ _ e)) es.
(* the entries of node n from index i on, with the subtrees to their right *)
Definition suffix (n : node) (i : Z) : list kv := flat_es (skipn (Z.to_nat i) (n_es _ _ n)).
(* what a cursor path has still in front of it; the deepest node comes first in the path *)
Definition after (p : cpath) : list kv := flat_map (fun x : node * Z => suffix (fst x) (snd x)) p.

Lemma flat_es_app a b : flat_es (a ++ b) = flat_es a ++ flat_es b.
Proof. unfold flat_es. apply flat_map_app. Qed.
Lemma to_list_n_flat (n : node) : to_list_n n = to_list (n_l0 _ _ n) ++ flat_es (n_es _ _ n).
Proof. destruct n as [d s l0 es]. apply to_list_n_eq. Qed.
Lemma after_cons n i p : after ((n, i) :: p) = suffix n i ++ after p.
Proof. reflexivity. Qed.
Lemma suffix_0 n : suffix n 0 = flat_es (n_es _ _ n).
Proof. reflexivity. Qed.
Lemma suffix_end n i : (nkeys _ _ n <= i)%Z -> suffix n i = [].
Proof. unfold suffix, nkeys, n_nkeys. intros H. rewrite skipn_all2; [reflexivity|lia]. Qed.

(* non-empty nodes all the way down, within the fuel *)
Fixpoint ne (fuel : nat) (n : node) : Prop :=
  match fuel with
  | O => False
  | S f => is_empty _ _ n = false /\ fitsl_of K V (ne f) (n_l0 _ _ n) /\ Forall (fun e : entry => fitsl_of K V (ne f) (elink _ _ e)) (n_es _ _ n)
  end.

Lemma load_ne f (l : link) : fitsl_of K V (ne f) l -> l <> LNil -> oks (load _ _ l) (fun c => ne f c /\ to_list_n c = to_list l).
Proof.
  destruct l as [|c|h c|h]; cbn [fitsl_of]; intros H Hn; try contradiction.
  - exists [], c. repeat split. exact H.
  - exists [ELoad h], c. repeat split. exact H.
Qed.

Lemma ne_mono : forall f (n : node), ne f n -> ne (S f) n.
Proof.
  induction f as [|f IH]; intros n H; [contradiction|]. destruct H as (He & H0 & Hes).
  change (is_empty _ _ n = false /\ fitsl_of K V (ne (S f)) (n_l0 _ _ n) /\ Forall (fun e : entry => fitsl_of K V (ne (S f)) (elink _ _ e)) (n_es _ _ n)).
  assert (Hl : forall l : link, fitsl_of K V (ne f) l -> fitsl_of K V (ne (S f)) l).
  { intros l. destruct l as [|c|h c|h]; cbn [fitsl_of]; try (intros; assumption); apply IH. }
  split; [exact He|]. split; [exact (Hl _ H0)|]. eapply Forall_impl; [|exact Hes]. intros e. apply Hl.
Qed.
Lemma nel_mono f (l : link) : fitsl_of K V (ne f) l -> fitsl_of K V (ne (S f)) l.
Proof. destruct l as [|c|h c|h]; cbn [fitsl_of]; try (intros; assumption); apply ne_mono. Qed.

(* path invariant: every node non-empty down to the leaves, indices within bounds *)
Definition pok (F : nat) (p : cpath) : Prop :=
  Forall (fun x : node * Z => ne F (fst x) /\ (0 <= snd x <= nkeys _ _ (fst x))%Z) p.
Definition valid (p : cpath) : Prop :=
  match p with [] => True | (n, i) :: _ => (0 <= i < nkeys _ _ n)%Z end.

(** * Get: the entry under a valid cursor is the first one in front of it *)
Lemma skipn_nth {A} (l : list A) i e : nth_error l i = Some e -> skipn i l = e :: skipn (S i) l.
Proof. revert i. induction l as [|x l IH]; intros [|i] H; cbn in *; try discriminate; [inversion H; reflexivity|apply IH; exact H]. Qed.

Lemma suffix_step n i : (0 <= i < nkeys _ _ n)%Z ->
  exists e, nth_error (n_es _ _ n) (Z.to_nat i) = Some e /\ nth_link _ _ n (i + 1) = elink _ _ e /\
            suffix n i = (ekey _ _ e, eval _ _ e) :: to_list (elink _ _ e) ++ suffix n (i + 1).
Proof.
  unfold nkeys, n_nkeys. intros Hi. assert (Hlen : Z.to_nat i < length (n_es _ _ n)) by lia.
  destruct (nth_error (n_es _ _ n) (Z.to_nat i)) as [e|] eqn:E.
  - exists e. split; [reflexivity|]. split.
    + unfold nth_link. destruct (i + 1 <? 0)%Z eqn:Hl; [lia|]. unfold n_links.
      replace (Z.to_nat (i + 1)) with (S (Z.to_nat i)) by lia. cbn [nth].
      rewrite (nth_indep _ _ (elink _ _ e)) by (rewrite map_length; exact Hlen).
      rewrite map_nth. f_equal. apply nth_error_nth. exact E.
    + unfold suffix. rewrite (skipn_nth _ _ _ E). unfold flat_es. cbn [flat_map]. rewrite <- app_comm_cons. f_equal. f_equal.
      replace (Z.to_nat (i + 1)) with (S (Z.to_nat i)) by lia. reflexivity.
  - apply nth_error_None in E. lia.
Qed.

Theorem get_ok p : valid p -> cur_get _ _ p = hd_error (after p).
Proof.
  destruct p as [|[n i] r]; [reflexivity|]. cbn [valid]. intros Hi. destruct (suffix_step n i Hi) as (e & E & _ & Hs).
  cbn [cur_get]. destruct (i <? 0)%Z eqn:Hl; [lia|]. rewrite E, after_cons, Hs. reflexivity.
Qed.

(** * Min *)
Lemma min_unfold f (n : node) (p : cpath) :
  cur_min_from _ _ (S f) n p =
  if is_nil _ _ (n_l0 _ _ n) then ret p else let* c := load _ _ (n_l0 _ _ n) in cur_min_from _ _ f c ((c, 0%Z) :: p).
Proof. cbn [cur_min_from]. destruct (n_l0 _ _ n); reflexivity. Qed.
Lemma is_nil_false (l : link) : is_nil _ _ l = false -> l <> LNil.
Proof. destruct l; cbn; congruence. Qed.
Lemma is_nil_true (l : link) : is_nil _ _ l = true -> l = LNil.
Proof. destruct l; cbn; congruence. Qed.

Lemma min_from_ok : forall f (n : node) rest, ne f n ->
  oks (cur_min_from _ _ f n ((n, 0%Z) :: rest))
      (fun p' => after p' = to_list (n_l0 _ _ n) ++ after ((n, 0%Z) :: rest) /\ valid p' /\
                 exists q, p' = q ++ rest /\ pok f q).
Proof.
  induction f as [|f IH]; intros n rest Hne; [contradiction|]. pose proof Hne as (Hem & H0 & Hes). rewrite min_unfold.
  assert (Hhere : pok (S f) [(n, 0%Z)]).
  { constructor; [|constructor]. split; [exact Hne|]. cbn [fst snd]. unfold nkeys. lia. }
  destruct (is_nil _ _ (n_l0 _ _ n)) eqn:En.
  - apply is_nil_true in En. apply oks_ret. rewrite En. split; [reflexivity|]. split.
    + cbn [valid]. destruct n as [d s l0 es]. cbn [n_l0 is_empty] in *. subst l0. destruct es; [discriminate|]. unfold nkeys, n_nkeys. cbn. lia.
    + exists [(n, 0%Z)]. split; [reflexivity|exact Hhere].
  - apply is_nil_false in En.
    apply (oks_bind _ _ _ _ (load_ne f _ H0 En)). intros c0 [Hc Hl]. eapply oks_weaken; [exact (IH c0 ((n, 0%Z) :: rest) Hc)|].
    intros p' (Ha & Hv & q & Eq & Hq). split; [|split; [exact Hv|]].
    + rewrite Ha, after_cons, suffix_0, <- Hl, to_list_n_flat, <- app_assoc. reflexivity.
    + exists (q ++ [(n, 0%Z)]). split; [rewrite <- app_assoc; exact Eq|]. apply Forall_app. split; [|exact Hhere].
      eapply Forall_impl; [|exact Hq]. intros x [Hx Hi]. split; [apply ne_mono; exact Hx|exact Hi].
Qed.

(* Min on a fresh cursor: everything is in front of it *)
Theorem min_ok F (n : node) : ne F n ->
  oks (cur_min _ _ F [(n, 0%Z)]) (fun p' => after p' = to_list_n n /\ valid p' /\ pok F p').
Proof.
  intros Hne. cbn [cur_min]. eapply oks_weaken; [exact (min_from_ok F n [] Hne)|].
  intros p' (Ha & Hv & q & Eq & Hq). rewrite app_nil_r in Eq. subst q. split; [|split; assumption].
  rewrite Ha, after_cons, suffix_0. cbn [after flat_map]. rewrite app_nil_r. symmetry. apply to_list_n_flat.
Qed.

(** * Forward *)
Lemma pop_fwd_ok F : forall p, pok F p ->
  after (cur_pop_fwd _ _ p) = after p /\ valid (cur_pop_fwd _ _ p) /\ pok F (cur_pop_fwd _ _ p).
Proof.
  induction p as [|[n i] r IH]; intros H; [split; [reflexivity|split; [exact I|constructor]]|]. inversion H as [|? ? [Hn Hi] Hr]; subst. cbn [fst snd] in *.
  cbn [cur_pop_fwd]. destruct (i <? nkeys _ _ n)%Z eqn:E.
  - apply Z.ltb_lt in E. split; [reflexivity|]. split; [cbn [valid]; lia|exact H].
  - apply Z.ltb_ge in E. destruct (IH Hr) as (A & B & C). split; [|split; assumption].
    rewrite A, after_cons, (suffix_end n i E). reflexivity.
Qed.

Lemma ne_child F (n : node) e : ne F n -> In e (n_es _ _ n) -> fitsl_of K V (ne F) (elink _ _ e).
Proof.
  destruct F as [|f]; [contradiction|]. intros (_ & _ & Hes) Hin. rewrite Forall_forall in Hes. apply nel_mono. exact (Hes e Hin).
Qed.

Theorem forward_ok F p : valid p -> pok F p ->
  oks (cur_forward _ _ F p) (fun p' => after p' = tl (after p) /\ valid p' /\ pok F p').
Proof.
  destruct p as [|[n i] rest]; intros Hv Hp; [apply oks_ret; split; [reflexivity|split; [exact I|constructor]]|].
  cbn [valid] in Hv. inversion Hp as [|? ? [Hn Hi] Hr]; subst. cbn [fst snd] in *.
  destruct (suffix_step n i Hv) as (e & Ee & El & Hs). cbn [cur_forward]. rewrite after_cons, Hs. cbn [tl app].
  assert (Hin : In e (n_es _ _ n)) by (eapply nth_error_In; exact Ee).
  assert (Hi1 : (0 <= i + 1 <= nkeys _ _ n)%Z) by lia.
  assert (Hl1 : (i + 1 <? nlinks _ _ n)%Z = true) by (apply Z.ltb_lt; unfold nlinks, nkeys in *; lia).
  rewrite Hl1, El. cbn [andb]. destruct (is_nil _ _ (elink _ _ e)) eqn:En; cbn [negb].
  - apply is_nil_true in En. rewrite En. cbn [Tree.to_list app].
    destruct (i + 1 <? nkeys _ _ n)%Z eqn:Ek.
    + apply Z.ltb_lt in Ek. apply oks_ret. split; [reflexivity|]. split; [cbn [valid]; lia|].
      constructor; [split; [exact Hn|exact Hi1]|exact Hr].
    + apply Z.ltb_ge in Ek. apply oks_ret. destruct (pop_fwd_ok F rest Hr) as (A & B & C). split; [|split; assumption].
      rewrite A, (suffix_end n (i + 1) Ek). reflexivity.
  - apply is_nil_false in En. pose proof (ne_child F n e Hn Hin) as Hc.
    apply (oks_bind _ _ _ _ (load_ne F _ Hc En)). intros c [Hcn Hcl].
    eapply oks_weaken; [exact (min_from_ok F c ((n, (i + 1)%Z) :: rest) Hcn)|].
    intros p' (Ha & Hv' & q & Eq & Hq). split; [|split; [exact Hv'|]].
    + rewrite Ha, !after_cons, suffix_0, <- Hcl, to_list_n_flat, <- !app_assoc. reflexivity.
    + rewrite Eq. apply Forall_app. split; [exact Hq|]. constructor; [split; [exact Hn|exact Hi1]|exact Hr].
Qed.

(** * Ceil *)
Notation lt := (Canon.lt K cmp).
Notation sorted := (ssorted K V cmp).
Notation from_key := (from_key K V cmp).
Notation all_lt := (Canon.all_lt K V cmp).
Notation all_ge := (all_ge K V cmp).

Lemma span_lt_split k : forall (es : list entry),
  es = fst (span_lt _ _ cmp k es) ++ snd (span_lt _ _ cmp k es) /\
  Forall (fun e : entry => lt (ekey _ _ e) k) (fst (span_lt _ _ cmp k es)) /\
  (snd (span_lt _ _ cmp k es) = [] \/ exists e r, snd (span_lt _ _ cmp k es) = e :: r /\ ~ lt (ekey _ _ e) k).
Proof.
  induction es as [|e r IH]; [repeat split; [constructor|left; reflexivity]|].
  cbn [span_lt]. destruct (klt _ cmp (ekey _ _ e) k) eqn:E.
  - destruct (span_lt _ _ cmp k r) as [a b]. cbn [fst snd] in *. destruct IH as (A & B & C).
    split; [cbn [app]; f_equal; exact A|]. split; [constructor; [apply (klt_true K cmp); exact E|exact B]|exact C].
  - cbn [fst snd app]. split; [reflexivity|]. split; [constructor|]. right. exists e, r. split; [reflexivity|].
    intros H. apply (klt_true K cmp) in H. congruence.
Qed.

Definition pre (l0 : link) (les : list entry) : list kv :=
  match rev les with [] => [] | e :: r => to_list l0 ++ flat_es (rev r) ++ [(ekey _ _ e, eval _ _ e)] end.

Lemma last_split (l0 : link) (les : list entry) :
  to_list l0 ++ flat_es les = pre l0 les ++ to_list (last_link _ _ l0 les).
Proof.
  unfold pre, last_link. destruct (rev les) as [|e r] eqn:E.
  - assert (les = []) by (apply (f_equal (@rev _)) in E; rewrite rev_involutive in E; exact E). subst. cbn. rewrite app_nil_r. reflexivity.
  - assert (El : les = rev r ++ [e]) by (apply (f_equal (@rev _)) in E; rewrite rev_involutive in E; exact E).
    rewrite El, flat_es_app. unfold flat_es at 2. cbn [flat_map]. rewrite app_nil_r, <- !app_assoc. reflexivity.
Qed.

Lemma sorted_app_all (a b : list kv) : sorted (a ++ b) -> forall x y, In x a -> In y b -> lt (fst x) (fst y).
Proof.
  induction a as [|z a IH]; intros Hs x y Hx Hy; [contradiction|]. cbn [app] in Hs. inversion Hs as [|? ? Hs' Hall]; subst.
  destruct Hx as [->|Hx]; [|exact (IH Hs' x y Hx Hy)]. rewrite Forall_forall in Hall. apply Hall. apply in_or_app. right. exact Hy.
Qed.

Lemma pre_all_lt (l0 : link) (les : list entry) k X :
  sorted (pre l0 les ++ X) -> Forall (fun e : entry => lt (ekey _ _ e) k) les -> all_lt (pre l0 les) k.
Proof.
  unfold pre. destruct (rev les) as [|e r] eqn:E; intros Hs Hl; [constructor|].
  assert (He : lt (ekey _ _ e) k).
  { rewrite Forall_forall in Hl. apply Hl. apply in_rev. rewrite E. left. reflexivity. }
  rewrite app_assoc in *. apply Forall_app. split; [|constructor; [exact He|constructor]].
  apply Forall_forall. intros x Hx. rewrite <- app_assoc in Hs.
  assert (Hlt : lt (fst x) (ekey _ _ e)).
  { apply (sorted_app_all _ _ Hs x (ekey _ _ e, eval _ _ e) Hx). apply in_or_app. left. left. reflexivity. }
  exact (cmp_trans _ _ _ Hlt He).
Qed.

Lemma flat_es_head_ge (rs : list entry) e r k : rs = e :: r -> ~ lt (ekey _ _ e) k -> sorted (flat_es rs) -> all_ge (flat_es rs) k.
Proof.
  intros -> Hn Hs. unfold flat_es in *. cbn [flat_map] in *. inversion Hs as [|? ? _ Hall]; subst. constructor; [exact Hn|].
  eapply Forall_impl; [|exact Hall]. intros y Hy Hlt. cbn [fst] in Hy. apply Hn. exact (cmp_trans _ _ _ Hy Hlt).
Qed.

Lemma from_key_none a k : all_lt a k -> from_key k a = [].
Proof. intros H. pose proof (from_key_cut K V cmp a [] k H ltac:(constructor)) as Q. rewrite app_nil_r in Q. exact Q. Qed.
Lemma from_key_all b k : all_ge b k -> from_key k b = b.
Proof. intros H. exact (from_key_cut K V cmp [] b k ltac:(constructor) H). Qed.
Lemma from_key_app a b k : from_key k (a ++ b) = from_key k a ++ from_key k b.
Proof. unfold Nav.from_key. apply filter_app. Qed.

Lemma pop_ceil_ok F : forall p, pok F p ->
  after (cur_pop_ceil _ _ p) = after p /\ valid (cur_pop_ceil _ _ p) /\ pok F (cur_pop_ceil _ _ p).
Proof.
  induction p as [|[n i] r IH]; intros H; [split; [reflexivity|split; [exact I|constructor]]|]. inversion H as [|? ? [Hn Hi] Hr]; subst. cbn [fst snd] in *.
  cbn [cur_pop_ceil]. destruct (i =? nkeys _ _ n)%Z eqn:E.
  - apply Z.eqb_eq in E. destruct (IH Hr) as (A & B & C). split; [|split; assumption].
    rewrite A, after_cons, (suffix_end n i ltac:(lia)). reflexivity.
  - apply Z.eqb_neq in E. split; [reflexivity|]. split; [cbn [valid]; lia|exact H].
Qed.

Lemma last_link_cases (l0 : link) (les : list entry) :
  (les = [] /\ last_link _ _ l0 les = l0) \/ exists a e, les = a ++ [e] /\ last_link _ _ l0 les = elink _ _ e.
Proof.
  destruct les as [|x les] using rev_ind; [left; split; reflexivity|]. right. exists les, x. split; [reflexivity|].
  unfold last_link. rewrite rev_app_distr. reflexivity.
Qed.

Lemma last_link_cons (l0 : link) (e : entry) (r : list entry) : last_link _ _ l0 (e :: r) = last_link _ _ (elink _ _ e) r.
Proof.
  destruct r as [|x r'] using rev_ind; [reflexivity|]. unfold last_link. cbn [rev]. rewrite !rev_app_distr. reflexivity.
Qed.

Lemma ne_last_link f (n : node) les rs : ne (S f) n -> n_es _ _ n = les ++ rs -> fitsl_of K V (ne f) (last_link _ _ (n_l0 _ _ n) les).
Proof.
  intros (_ & H0 & Hes) E. destruct (last_link_cases (n_l0 _ _ n) les) as [[_ ->]|(a & e & Ea & ->)]; [exact H0|].
  rewrite Forall_forall in Hes. apply Hes. rewrite E, Ea. apply in_or_app. left. apply in_or_app. right. left. reflexivity.
Qed.

Lemma ceil_unfold f k (n : node) rest :
  cur_ceil_from _ _ cmp (S f) k n rest =
  (tick ECmp >>
   let les := fst (span_lt _ _ cmp k (n_es _ _ n)) in let rs := snd (span_lt _ _ cmp k (n_es _ _ n)) in
   let i := Z.of_nat (length les) in
   if hits _ _ cmp k rs then ret ((n, i) :: rest)
   else if is_nil _ _ (last_link _ _ (n_l0 _ _ n) les) then ret (cur_pop_ceil _ _ ((n, i) :: rest))
        else let* c := load _ _ (last_link _ _ (n_l0 _ _ n) les) in cur_ceil_from _ _ cmp f k c ((n, i) :: rest)).
Proof.
  cbn [cur_ceil_from]. destruct (span_lt _ _ cmp k (n_es _ _ n)) as [les rs]. cbn [fst snd].
  destruct (hits _ _ cmp k rs); [reflexivity|]. destruct (last_link _ _ (n_l0 _ _ n) les); reflexivity.
Qed.

Theorem ceil_from_ok F k : forall f (n : node) rest, ne f n -> ne F n -> sorted (to_list_n n) -> pok F rest ->
  oks (cur_ceil_from _ _ cmp f k n rest)
      (fun p' => after p' = from_key k (to_list_n n) ++ after rest /\ valid p' /\ pok F p').
Proof.
  induction f as [|f IH]; intros n rest Hne HF Hs Hr; [contradiction|]. rewrite ceil_unfold. apply oks_tick. cbv zeta.
  destruct (span_lt_split k (n_es _ _ n)) as (Ees & Hles & Hrs).
  set (les := fst (span_lt _ _ cmp k (n_es _ _ n))) in *. set (rs := snd (span_lt _ _ cmp k (n_es _ _ n))) in *.
  set (i := Z.of_nat (length les)).
  assert (Hsuf : suffix n i = flat_es rs).
  { unfold suffix, i. rewrite Nat2Z.id, Ees, skipn_app, skipn_all, Nat.sub_diag. reflexivity. }
  assert (Hi : (0 <= i <= nkeys _ _ n)%Z).
  { unfold i, nkeys, n_nkeys. rewrite Ees, app_length. lia. }
  assert (Hhere : pok F ((n, i) :: rest)) by (constructor; [split; [exact HF|exact Hi]|exact Hr]).
  assert (Hlist : to_list_n n = (pre (n_l0 _ _ n) les ++ to_list (last_link _ _ (n_l0 _ _ n) les)) ++ flat_es rs).
  { rewrite to_list_n_flat, Ees, flat_es_app, app_assoc, last_split. reflexivity. }
  rewrite Hlist in Hs. set (C := to_list (last_link _ _ (n_l0 _ _ n) les)) in *.
  destruct (ssorted_app_inv K V cmp _ _ Hs) as [Spc Sr]. destruct (ssorted_app_inv K V cmp _ _ Spc) as [_ Sc].
  assert (Hpre : all_lt (pre (n_l0 _ _ n) les) k) by (apply (pre_all_lt _ _ k C Spc Hles)).
  assert (Hge : all_ge (flat_es rs) k).
  { destruct Hrs as [->|(e & r & Er & Hn)]; [constructor|]. exact (flat_es_head_ge rs e r k Er Hn Sr). }
  rewrite Hlist, !from_key_app, (from_key_none _ _ Hpre), (from_key_all _ _ Hge). cbn [app].
  destruct (hits _ _ cmp k rs) eqn:Eh.
  - (* the key itself is in this node *)
    apply oks_ret. destruct rs as [|e r] eqn:Er; [discriminate|]. cbn [hits] in Eh. apply (keq_true K cmp cmp_eq) in Eh.
    assert (HC : all_lt C k).
    { apply Forall_forall. intros x Hx. rewrite <- Eh.
      apply (sorted_app_all _ _ Hs x (ekey _ _ e, eval _ _ e)); [apply in_or_app; right; exact Hx|]. unfold flat_es. cbn [flat_map]. left. reflexivity. }
    rewrite (from_key_none _ _ HC). cbn [app]. split; [rewrite after_cons, Hsuf; reflexivity|]. split; [|exact Hhere].
    cbn [valid]. unfold i, nkeys, n_nkeys. rewrite Ees, app_length. cbn [length]. lia.
  - destruct (is_nil _ _ (last_link _ _ (n_l0 _ _ n) les)) eqn:En.
    + apply is_nil_true in En. apply oks_ret. unfold C. rewrite En. cbn [Tree.to_list from_key Nav.from_key filter app].
      destruct (pop_ceil_ok F _ Hhere) as (A & B & D). split; [|split; assumption]. rewrite A, after_cons, Hsuf. reflexivity.
    + apply is_nil_false in En. pose proof (ne_last_link f n les rs Hne Ees) as Hc.
      assert (HcF : fitsl_of K V (ne F) (last_link _ _ (n_l0 _ _ n) les)).
      { destruct F as [|F']; [contradiction|]. apply nel_mono. exact (ne_last_link F' n les rs HF Ees). }
      apply (oks_bind _ _ (fun c => (ne f c /\ ne F c) /\ to_list_n c = C)).
      { destruct (last_link _ _ (n_l0 _ _ n) les) as [|c|h c|h]; cbn [fitsl_of] in *; try contradiction.
        - exists [], c. repeat split; assumption.
        - exists [ELoad h], c. repeat split; assumption. }
      intros c [[Hcf HcF'] Hcl]. rewrite <- Hcl in Sc.
      eapply oks_weaken; [exact (IH c ((n, i) :: rest) Hcf HcF' Sc Hhere)|].
      intros p' (Ha & Hv & Hp). split; [|split; assumption]. rewrite Ha, Hcl, after_cons, Hsuf, <- app_assoc. reflexivity.
Qed.

(* Ceil on a fresh cursor: in front of it are the entries not smaller than the probe *)
Theorem ceil_ok F k (n : node) : ne F n -> sorted (to_list_n n) ->
  oks (cur_ceil _ _ cmp F k [(n, 0%Z)]) (fun p' => after p' = from_key k (to_list_n n) /\ valid p' /\ pok F p').
Proof.
  intros Hne Hs. cbn [cur_ceil]. eapply oks_weaken; [exact (ceil_from_ok F k F n [] Hne Hne Hs ltac:(constructor))|].
  intros p' (Ha & Hv & Hp). split; [|split; assumption]. rewrite Ha. cbn [after flat_map]. apply app_nil_r.
Qed.

(** * Max and Backward: the mirror image.  [before p] lists the entries up to and including the
    cursor's position. *)
Fixpoint lflat (l0 : link) (es : list entry) : list kv :=
  match es with [] => [] | e :: r => to_list l0 ++ (ekey _ _ e, eval _ _ e) :: lflat (elink _ _ e) r end.
Definition lpre (n : node) (j : Z) : list kv := lflat (n_l0 _ _ n) (firstn (Z.to_nat j) (n_es _ _ n)).
Fixpoint anc (p : cpath) : list kv := match p with [] => [] | (n, j) :: r => anc r ++ lpre n j end.
Definition before (p : cpath) : list kv := match p with [] => [] | (n, i) :: r => anc r ++ lpre n (i + 1) end.

Lemma lflat_snoc : forall (a : list entry) l0 e,
  lflat l0 (a ++ [e]) = lflat l0 a ++ to_list (last_link _ _ l0 a) ++ [(ekey _ _ e, eval _ _ e)].
Proof.
  induction a as [|x a IH]; intros l0 e; [cbn; reflexivity|]. cbn [app lflat]. rewrite IH, <- app_assoc, last_link_cons. reflexivity.
Qed.
Lemma lflat_full (l0 : link) (es : list entry) : to_list l0 ++ flat_es es = lflat l0 es ++ to_list (last_link _ _ l0 es).
Proof.
  revert l0. induction es as [|e r IH]; intros l0; [cbn; rewrite app_nil_r; reflexivity|].
  unfold flat_es in *. cbn [flat_map lflat]. rewrite <- !app_assoc. cbn [app]. f_equal. f_equal. rewrite IH, last_link_cons. reflexivity.
Qed.

Lemma nth_link_last (n : node) i : (0 <= i <= nkeys _ _ n)%Z ->
  nth_link _ _ n i = last_link _ _ (n_l0 _ _ n) (firstn (Z.to_nat i) (n_es _ _ n)).
Proof.
  unfold nth_link, nkeys, n_nkeys, n_links. intros Hi. destruct (i <? 0)%Z eqn:E; [lia|]. clear E.
  assert (Hle : Z.to_nat i <= length (n_es _ _ n)) by lia. clear Hi. revert Hle. generalize (Z.to_nat i) (n_l0 _ _ n). intros j.
  induction (n_es _ _ n) as [|e r IH] in j |- *; intros l0 Hle.
  - destruct j; [reflexivity|cbn in Hle; lia].
  - destruct j as [|j]; [reflexivity|]. cbn [map nth firstn length] in *. rewrite (IH j (elink _ _ e)) by lia.
    rewrite last_link_cons. reflexivity.
Qed.

Lemma lpre_step n i : (0 <= i < nkeys _ _ n)%Z ->
  exists e, nth_error (n_es _ _ n) (Z.to_nat i) = Some e /\
            lpre n (i + 1) = lpre n i ++ to_list (nth_link _ _ n i) ++ [(ekey _ _ e, eval _ _ e)].
Proof.
  intros Hi. destruct (suffix_step n i Hi) as (e & Ee & _ & _). exists e. split; [exact Ee|].
  unfold lpre. replace (Z.to_nat (i + 1)) with (S (Z.to_nat i)) by lia.
  assert (Hf : firstn (S (Z.to_nat i)) (n_es _ _ n) = firstn (Z.to_nat i) (n_es _ _ n) ++ [e]).
  { clear -Ee. revert Ee. generalize (Z.to_nat i). induction (n_es _ _ n) as [|x r IH]; intros [|j] E; cbn in *; try discriminate.
    - inversion E. reflexivity.
    - f_equal. apply IH. exact E. }
  rewrite Hf, lflat_snoc, (nth_link_last n i ltac:(lia)). reflexivity.
Qed.

Lemma lpre_0 n : lpre n 0 = [].
Proof. reflexivity. Qed.
Lemma lpre_all n : lpre n (nkeys _ _ n) = lflat (n_l0 _ _ n) (n_es _ _ n).
Proof. unfold lpre, nkeys, n_nkeys. rewrite Nat2Z.id, firstn_all. reflexivity. Qed.

(* Get returns the last entry of what lies behind the cursor (its own position included) *)
Theorem get_last_ok n i r : valid ((n, i) :: r) ->
  exists x, before ((n, i) :: r) = anc r ++ lpre n i ++ to_list (nth_link _ _ n i) ++ [x] /\ cur_get _ _ ((n, i) :: r) = Some x.
Proof.
  cbn [valid]. intros Hi. destruct (lpre_step n i Hi) as (e & Ee & Hs). exists (ekey _ _ e, eval _ _ e).
  cbn [before cur_get]. rewrite Hs. destruct (i <? 0)%Z eqn:E; [lia|]. rewrite Ee. split; reflexivity.
Qed.

Lemma max_unfold f (n : node) (p : cpath) :
  cur_max_from _ _ (S f) n p =
  if is_nil _ _ (last_link _ _ (n_l0 _ _ n) (n_es _ _ n)) then ret ((n, (nkeys _ _ n - 1)%Z) :: p)
  else let* c := load _ _ (last_link _ _ (n_l0 _ _ n) (n_es _ _ n)) in cur_max_from _ _ f c ((n, (nlinks _ _ n - 1)%Z) :: p).
Proof. cbn [cur_max_from]. destruct (last_link _ _ (n_l0 _ _ n) (n_es _ _ n)); reflexivity. Qed.

Lemma max_from_ok F : forall f (n : node) p, ne f n -> ne F n -> pok F p ->
  oks (cur_max_from _ _ f n p)
      (fun p' => before p' = anc p ++ to_list_n n /\ valid p' /\ pok F p').
Proof.
  induction f as [|f IH]; intros n p Hne HF Hp; [contradiction|]. pose proof Hne as (Hem & H0 & Hes). rewrite max_unfold.
  destruct (is_nil _ _ (last_link _ _ (n_l0 _ _ n) (n_es _ _ n))) eqn:En.
  - apply is_nil_true in En. apply oks_ret.
    assert (Hk : (0 < nkeys _ _ n)%Z).
    { unfold nkeys, n_nkeys. destruct n as [d s l0 es]. cbn [n_l0 n_es is_empty] in *. destruct es as [|e r]; [|cbn; lia].
      unfold last_link in En. cbn in En. subst l0. discriminate. }
    split; [|split].
    + cbn [before]. replace (nkeys _ _ n - 1 + 1)%Z with (nkeys _ _ n) by lia. rewrite lpre_all, to_list_n_flat, lflat_full, En. cbn [Tree.to_list].
      rewrite app_nil_r. reflexivity.
    + cbn [valid]. lia.
    + constructor; [split; [exact HF|cbn [fst snd]; lia]|exact Hp].
  - apply is_nil_false in En. pose proof (ne_last_link f n (n_es _ _ n) [] Hne ltac:(rewrite app_nil_r; reflexivity)) as Hc.
    assert (HcF : fitsl_of K V (ne F) (last_link _ _ (n_l0 _ _ n) (n_es _ _ n))).
    { destruct F as [|F']; [contradiction|]. apply nel_mono. exact (ne_last_link F' n (n_es _ _ n) [] HF ltac:(rewrite app_nil_r; reflexivity)). }
    apply (oks_bind _ _ (fun c => (ne f c /\ ne F c) /\ to_list_n c = to_list (last_link _ _ (n_l0 _ _ n) (n_es _ _ n)))).
    { destruct (last_link _ _ (n_l0 _ _ n) (n_es _ _ n)) as [|c|h c|h]; cbn [fitsl_of] in *; try contradiction.
      - exists [], c. repeat split; assumption.
      - exists [ELoad h], c. repeat split; assumption. }
    intros c [[Hcf HcF'] Hcl].
    assert (Hhere : pok F ((n, (nlinks _ _ n - 1)%Z) :: p)).
    { constructor; [split; [exact HF|cbn [fst snd]; unfold nlinks, nkeys; lia]|exact Hp]. }
    eapply oks_weaken; [exact (IH c _ Hcf HcF' Hhere)|]. intros p' (Hb & Hv & Hp'). split; [|split; assumption].
    rewrite Hb. cbn [anc]. replace (nlinks _ _ n - 1)%Z with (nkeys _ _ n) by (unfold nlinks, nkeys; lia).
    rewrite lpre_all, Hcl, to_list_n_flat, lflat_full, <- app_assoc. reflexivity.
Qed.

(* Max on a fresh cursor: everything lies behind it *)
Theorem max_ok F (n : node) : ne F n ->
  oks (cur_max _ _ F [(n, 0%Z)]) (fun p' => before p' = to_list_n n /\ valid p' /\ pok F p').
Proof.
  intros Hne. cbn [cur_max]. eapply oks_weaken; [exact (max_from_ok F F n [] Hne Hne ltac:(constructor))|].
  intros p' (Hb & Hv & Hp). split; [|split; assumption]. rewrite Hb. reflexivity.
Qed.

Lemma pop_bwd_ok F : forall p, pok F p ->
  before (cur_pop_bwd _ _ p) = anc p /\ valid (cur_pop_bwd _ _ p) /\ pok F (cur_pop_bwd _ _ p).
Proof.
  induction p as [|[n i] r IH]; intros H; [split; [reflexivity|split; [exact I|constructor]]|]. inversion H as [|? ? [Hn Hi] Hr]; subst. cbn [fst snd] in *.
  cbn [cur_pop_bwd]. destruct (0 <? i)%Z eqn:E.
  - apply Z.ltb_lt in E. split; [cbn [before anc]; replace (i - 1 + 1)%Z with i by lia; reflexivity|]. split; [cbn [valid]; lia|].
    constructor; [split; [exact Hn|cbn [fst snd]; lia]|exact Hr].
  - apply Z.ltb_ge in E. destruct (IH Hr) as (A & B & C). split; [|split; assumption].
    rewrite A. cbn [anc]. replace i with 0%Z by lia. rewrite lpre_0, app_nil_r. reflexivity.
Qed.

(* Backward drops exactly the last entry of what lies behind the cursor *)
Theorem backward_ok F p : valid p -> pok F p ->
  oks (cur_backward _ _ F p) (fun p' => before p' = removelast (before p) /\ valid p' /\ pok F p').
Proof.
  destruct p as [|[n i] rest]; intros Hv Hp; [apply oks_ret; split; [reflexivity|split; [exact I|constructor]]|].
  destruct (get_last_ok n i rest Hv) as (x & Hb & _). cbn [valid] in Hv. inversion Hp as [|? ? [Hn Hi] Hr]; subst. cbn [fst snd] in *.
  rewrite Hb, !app_assoc, removelast_last, <- !app_assoc. cbn [cur_backward].
  assert (H0i : (0 <=? i)%Z = true) by (apply Z.leb_le; lia). rewrite H0i. cbn [andb].
  destruct (is_nil _ _ (nth_link _ _ n i)) eqn:En; cbn [negb].
  - apply is_nil_true in En. rewrite En. cbn [Tree.to_list]. rewrite app_nil_r.
    destruct (0 <? i)%Z eqn:Ei.
    + apply Z.ltb_lt in Ei. apply oks_ret. split; [cbn [before]; replace (i - 1 + 1)%Z with i by lia; reflexivity|]. split; [cbn [valid]; lia|].
      constructor; [split; [exact Hn|cbn [fst snd]; lia]|exact Hr].
    + apply Z.ltb_ge in Ei. apply oks_ret. destruct (pop_bwd_ok F rest Hr) as (A & B & C). split; [|split; assumption].
      rewrite A. replace i with 0%Z by lia. rewrite lpre_0, app_nil_r. reflexivity.
  - apply is_nil_false in En.
    assert (Hc : fitsl_of K V (ne F) (nth_link _ _ n i)).
    { rewrite (nth_link_last n i ltac:(lia)). destruct F as [|F']; [contradiction|]. apply nel_mono.
      apply (ne_last_link F' n (firstn (Z.to_nat i) (n_es _ _ n)) (skipn (Z.to_nat i) (n_es _ _ n)) Hn). symmetry. apply firstn_skipn. }
    apply (oks_bind _ _ _ _ (load_ne F _ Hc En)). intros c [Hcn Hcl].
    eapply oks_weaken; [exact (max_from_ok F F c ((n, i) :: rest) Hcn Hcn Hp)|].
    intros p' (Hb' & Hv' & Hp'). split; [|split; assumption]. rewrite Hb', Hcl. cbn [anc]. rewrite <- app_assoc. reflexivity.
Qed.

(** * one position, both views: what lies behind the cursor followed by what lies in front of it is
    the listing of the tree the cursor was made on, wherever the cursor stands *)
Fixpoint linked (p : cpath) : Prop :=
  match p with
  | (c, _) :: (((n, j) :: _) as r) => to_list_n c = to_list (nth_link _ _ n j) /\ linked r
  | _ => True
  end.
(* the node the path starts from (the root the cursor was made on) *)
Definition rootof (p : cpath) : option node := match rev p with (n, _) :: _ => Some n | [] => None end.
Lemma rootof_app (q p : cpath) : p <> [] -> rootof (q ++ p) = rootof p.
Proof.
  intros Hp. unfold rootof. rewrite rev_app_distr. destruct (rev p) as [|x r] eqn:E; [|reflexivity].
  exfalso. apply Hp. apply (f_equal (@rev _)) in E. rewrite rev_involutive in E. exact E.
Qed.
Lemma rootof_reindex n i j (r : cpath) : rootof ((n, i) :: r) = rootof ((n, j) :: r).
Proof.
  destruct r as [|x r]; [reflexivity|]. change ((n, i) :: x :: r) with ([(n, i)] ++ x :: r). change ((n, j) :: x :: r) with ([(n, j)] ++ x :: r).
  rewrite !rootof_app by discriminate. reflexivity.
Qed.
Lemma rootof_cons x (r : cpath) : r <> [] -> rootof (x :: r) = rootof r.
Proof. intros H. change (x :: r) with ([x] ++ r). apply rootof_app. exact H. Qed.
Definition same_root (p p' : cpath) : Prop := p' = [] \/ rootof p' = rootof p.

Definition tot (p : cpath) : list kv := match p with [] => [] | (n, i) :: r => anc r ++ to_list_n n ++ after r end.

Lemma split_at n i : (0 <= i <= nkeys _ _ n)%Z -> to_list_n n = lpre n i ++ to_list (nth_link _ _ n i) ++ suffix n i.
Proof.
  intros Hi. rewrite to_list_n_flat, (nth_link_last n i Hi). unfold lpre, suffix.
  rewrite <- (firstn_skipn (Z.to_nat i) (n_es _ _ n)) at 1. rewrite flat_es_app, app_assoc, lflat_full, <- app_assoc. reflexivity.
Qed.

Lemma tot_step c i n j r : (0 <= j <= nkeys _ _ n)%Z -> to_list_n c = to_list (nth_link _ _ n j) ->
  tot ((c, i) :: (n, j) :: r) = tot ((n, j) :: r).
Proof.
  intros Hj Hc. cbn [tot anc]. rewrite after_cons, Hc, (split_at n j Hj), <- !app_assoc. reflexivity.
Qed.

Theorem tot_root F : forall p, linked p -> pok F p -> forall n, rootof p = Some n -> tot p = to_list_n n.
Proof.
  induction p as [|[c i] p IH]; intros Hl Hp n0 E; [discriminate|].
  destruct p as [|[n j] p'].
  - unfold rootof in E. cbn in E. inversion E; subst. cbn [tot anc after flat_map]. rewrite app_nil_r. reflexivity.
  - destruct Hl as [Hc Hl]. inversion Hp as [|? ? _ Hp']; subst. inversion Hp' as [|? ? [_ Hj] _]; subst. cbn [fst snd] in Hj.
    rewrite (tot_step c i n j p' Hj Hc). rewrite rootof_cons in E by discriminate. exact (IH Hl Hp' n0 E).
Qed.

(* behind ++ in front = around the head node *)
Theorem before_after_tot p : valid p -> before p ++ tl (after p) = tot p.
Proof.
  destruct p as [|[n i] r]; [reflexivity|]. intros Hv. destruct (get_last_ok n i r Hv) as (x & Hb & _). cbn [valid] in Hv.
  destruct (suffix_step n i Hv) as (e & Ee & El & Hs). destruct (lpre_step n i Hv) as (e' & Ee' & Hl).
  rewrite Ee in Ee'. inversion Ee'; subst e'.
  cbn [before tot]. rewrite after_cons, Hs, Hl. cbn [tl app]. rewrite (split_at n i ltac:(lia)), Hs, <- !app_assoc. cbn [app]. rewrite <- !app_assoc. reflexivity.
Qed.

(* the operations keep the path linked and on the same tree *)
Lemma linked_cons c i n j r : to_list_n c = to_list (nth_link _ _ n j) -> linked ((n, j) :: r) -> linked ((c, i) :: (n, j) :: r).
Proof. intros H1 H2. split; assumption. Qed.
Lemma linked_reindex n i j r : linked ((n, i) :: r) -> linked ((n, j) :: r).
Proof. destruct r as [|[n' j'] r']; [trivial|]. intros [H1 H2]. split; assumption. Qed.
Lemma linked_tail x r : linked (x :: r) -> linked r.
Proof. destruct x as [c i]. destruct r as [|[n j] r']; [trivial|]. intros [_ H]. exact H. Qed.

Lemma min_from_linked : forall f (n : node) rest, linked ((n, 0%Z) :: rest) ->
  okp (cur_min_from _ _ f n ((n, 0%Z) :: rest)) (fun p' => linked p' /\ rootof p' = rootof ((n, 0%Z) :: rest)).
Proof.
  induction f as [|f IH]; intros n rest Hl; [apply okp_nofuel|]. rewrite min_unfold.
  destruct (is_nil _ _ (n_l0 _ _ n)) eqn:En; [apply okp_ret; split; [exact Hl|reflexivity]|].
  apply (okp_bind _ _ (fun c => to_list_n c = to_list (n_l0 _ _ n))).
  { intros t c E. destruct (n_l0 _ _ n); cbn in E; inversion E; reflexivity. }
  intros c Hc. assert (Hl' : linked ((c, 0%Z) :: (n, 0%Z) :: rest)) by (apply linked_cons; [exact Hc|exact Hl]).
  intros t p' E. destruct (IH c ((n, 0%Z) :: rest) Hl' t p' E) as [A B]. split; [exact A|]. rewrite B. apply rootof_cons. discriminate.
Qed.

Lemma pop_fwd_sub : forall p : cpath, exists q, p = q ++ cur_pop_fwd _ _ p.
Proof.
  induction p as [|[n i] r IH]; [exists []; reflexivity|]. cbn [cur_pop_fwd]. destruct (i <? nkeys _ _ n)%Z; [exists []; reflexivity|].
  destruct IH as [q E]. exists ((n, i) :: q). cbn [app]. f_equal. exact E.
Qed.
Lemma linked_suffix : forall (q p : cpath), linked (q ++ p) -> linked p.
Proof. induction q as [|x q IH]; intros p H; [exact H|]. apply IH. exact (linked_tail x _ H). Qed.
Lemma sub_same_root (x : node * Z) (q p' : cpath) r : r = q ++ p' -> same_root (x :: r) p'.
Proof.
  intros E. destruct p' as [|y p']; [left; reflexivity|]. right. rewrite E. change (x :: q ++ y :: p') with ((x :: q) ++ y :: p').
  symmetry. apply rootof_app. discriminate.
Qed.

Theorem forward_linked F p : valid p -> linked p -> okp (cur_forward _ _ F p) (fun p' => linked p' /\ same_root p p').
Proof.
  destruct p as [|[n i] rest]; intros Hv Hl; [apply okp_ret; split; [exact I|left; reflexivity]|]. cbn [cur_forward].
  destruct (_ && _)%bool.
  - apply (okp_bind _ _ (fun c => to_list_n c = to_list (nth_link _ _ n (i + 1)))).
    { intros t c E. destruct (nth_link _ _ n (i + 1)); cbn in E; inversion E; reflexivity. }
    intros c Hc. assert (Hl' : linked ((c, 0%Z) :: (n, (i + 1)%Z) :: rest)) by (apply linked_cons; [exact Hc|exact (linked_reindex n i _ rest Hl)]).
    intros t p' E. destruct (min_from_linked F c _ Hl' t p' E) as [A B]. split; [exact A|]. right.
    rewrite B, rootof_cons by discriminate. apply rootof_reindex.
  - destruct (_ <? _)%Z; apply okp_ret.
    + split; [exact (linked_reindex n i _ rest Hl)|]. right. apply rootof_reindex.
    + destruct (pop_fwd_sub rest) as [q E]. split.
      * apply (linked_suffix q). rewrite <- E. exact (linked_tail _ _ Hl).
      * exact (sub_same_root (n, i) q _ rest E).
Qed.

(* wherever a cursor made on root n has walked forward to: behind it ++ in front of it = listing of n *)
Theorem forward_position F p n : valid p -> linked p -> pok F p -> rootof p = Some n ->
  oks (cur_forward _ _ F p) (fun p' => p' = [] \/ (before p' ++ tl (after p') = to_list_n n /\ valid p' /\ linked p' /\ pok F p' /\ rootof p' = Some n)).
Proof.
  intros Hv Hl Hp Hr. destruct (forward_ok F p Hv Hp) as (t & p' & E & Ha & Hv' & Hp'). exists t, p'. split; [exact E|].
  destruct (forward_linked F p Hv Hl t p' E) as [Hl' [->|Hs]]; [left; reflexivity|]. right. rewrite Hr in Hs.
  split; [|repeat split; assumption]. rewrite (before_after_tot p' Hv'). exact (tot_root F p' Hl' Hp' n Hs).
Qed.

Lemma max_from_linked : forall f (n : node) (p : cpath), (forall j, linked ((n, j) :: p)) ->
  okp (cur_max_from _ _ f n p) (fun p' => linked p' /\ rootof p' = rootof ((n, 0%Z) :: p)).
Proof.
  induction f as [|f IH]; intros n p Hl; [apply okp_nofuel|]. rewrite max_unfold.
  destruct (is_nil _ _ (last_link _ _ (n_l0 _ _ n) (n_es _ _ n))) eqn:En; [apply okp_ret; split; [apply Hl|apply rootof_reindex]|].
  apply (okp_bind _ _ (fun c => to_list_n c = to_list (last_link _ _ (n_l0 _ _ n) (n_es _ _ n)))).
  { intros t c E. destruct (last_link _ _ (n_l0 _ _ n) (n_es _ _ n)); cbn in E; inversion E; reflexivity. }
  intros c Hc.
  assert (Hlink : nth_link _ _ n (nlinks _ _ n - 1) = last_link _ _ (n_l0 _ _ n) (n_es _ _ n)).
  { replace (nlinks _ _ n - 1)%Z with (nkeys _ _ n) by (unfold nlinks, nkeys; lia). rewrite (nth_link_last n (nkeys _ _ n)) by (unfold nkeys; lia).
    unfold nkeys, n_nkeys. rewrite Nat2Z.id, firstn_all. reflexivity. }
  assert (Hl' : forall j, linked ((c, j) :: (n, (nlinks _ _ n - 1)%Z) :: p)).
  { intros j. apply linked_cons; [rewrite Hlink; exact Hc|apply Hl]. }
  intros t p' E. destruct (IH c _ Hl' t p' E) as [A B]. split; [exact A|]. rewrite B, rootof_cons by discriminate. apply rootof_reindex.
Qed.

Lemma pop_bwd_sub : forall p : cpath, cur_pop_bwd _ _ p = [] \/ exists q n i j r, p = q ++ (n, i) :: r /\ cur_pop_bwd _ _ p = (n, j) :: r.
Proof.
  induction p as [|[n i] r IH]; [left; reflexivity|]. cbn [cur_pop_bwd]. destruct (0 <? i)%Z.
  - right. exists [], n, i, (i - 1)%Z, r. split; reflexivity.
  - destruct IH as [E|(q & n' & i' & j' & r' & E1 & E2)]; [left; exact E|]. right. exists ((n, i) :: q), n', i', j', r'. split; [cbn [app]; f_equal; exact E1|exact E2].
Qed.

Theorem backward_linked F p : valid p -> linked p -> okp (cur_backward _ _ F p) (fun p' => linked p' /\ same_root p p').
Proof.
  destruct p as [|[n i] rest]; intros Hv Hl; [apply okp_ret; split; [exact I|left; reflexivity]|]. cbn [cur_backward].
  destruct (_ && _)%bool.
  - apply (okp_bind _ _ (fun c => to_list_n c = to_list (nth_link _ _ n i))).
    { intros t c E. destruct (nth_link _ _ n i); cbn in E; inversion E; reflexivity. }
    intros c Hc. assert (Hl' : forall j, linked ((c, j) :: (n, i) :: rest)) by (intros j; apply linked_cons; [exact Hc|exact Hl]).
    intros t p' E. destruct (max_from_linked F c _ Hl' t p' E) as [A B]. split; [exact A|]. right. rewrite B. apply rootof_cons. discriminate.
  - destruct (_ <? _)%Z; apply okp_ret.
    + split; [exact (linked_reindex n i _ rest Hl)|]. right. apply rootof_reindex.
    + destruct (pop_bwd_sub rest) as [E|(q & n' & i' & j' & r' & E1 & E2)]; [rewrite E; split; [exact I|left; reflexivity]|].
      rewrite E2. split.
      * apply (linked_reindex n' i'). apply (linked_suffix q). rewrite <- E1. exact (linked_tail _ _ Hl).
      * right. rewrite (rootof_reindex n' j' i'), E1. change ((n, i) :: q ++ (n', i') :: r') with (((n, i) :: q) ++ (n', i') :: r').
        symmetry. apply rootof_app. discriminate.
Qed.

Theorem backward_position F p n : valid p -> linked p -> pok F p -> rootof p = Some n ->
  oks (cur_backward _ _ F p) (fun p' => p' = [] \/ (before p' ++ tl (after p') = to_list_n n /\ valid p' /\ linked p' /\ pok F p' /\ rootof p' = Some n)).
Proof.
  intros Hv Hl Hp Hr. destruct (backward_ok F p Hv Hp) as (t & p' & E & Ha & Hv' & Hp'). exists t, p'. split; [exact E|].
  destruct (backward_linked F p Hv Hl t p' E) as [Hl' [->|Hs]]; [left; reflexivity|]. right. rewrite Hr in Hs.
  split; [|repeat split; assumption]. rewrite (before_after_tot p' Hv'). exact (tot_root F p' Hl' Hp' n Hs).
Qed.

(* the starting positions *)
Theorem min_position F (n : node) : ne F n ->
  oks (cur_min _ _ F [(n, 0%Z)]) (fun p' => before p' ++ tl (after p') = to_list_n n /\ valid p' /\ linked p' /\ pok F p' /\ rootof p' = Some n).
Proof.
  intros Hne. destruct (min_ok F n Hne) as (t & p' & E & Ha & Hv & Hp). exists t, p'. split; [exact E|].
  destruct (min_from_linked F n [] I t p' E) as [Hl Hr]. rewrite (before_after_tot p' Hv), (tot_root F p' Hl Hp n Hr). repeat split; assumption.
Qed.
Theorem max_position F (n : node) : ne F n ->
  oks (cur_max _ _ F [(n, 0%Z)]) (fun p' => before p' ++ tl (after p') = to_list_n n /\ valid p' /\ linked p' /\ pok F p' /\ rootof p' = Some n).
Proof.
  intros Hne. destruct (max_ok F n Hne) as (t & p' & E & Ha & Hv & Hp). exists t, p'. split; [exact E|].
  destruct (max_from_linked F n [] (fun _ => I) t p' E) as [Hl Hr]. rewrite (before_after_tot p' Hv), (tot_root F p' Hl Hp n Hr). repeat split; assumption.
Qed.

Lemma pop_ceil_sub : forall p : cpath, exists q, p = q ++ cur_pop_ceil _ _ p.
Proof.
  induction p as [|[n i] r IH]; [exists []; reflexivity|]. cbn [cur_pop_ceil]. destruct (i =? nkeys _ _ n)%Z; [|exists []; reflexivity].
  destruct IH as [q E]. exists ((n, i) :: q). cbn [app]. f_equal. exact E.
Qed.

Lemma ceil_from_linked k : forall f (n : node) (rest : cpath), (forall j, linked ((n, j) :: rest)) ->
  okp (cur_ceil_from _ _ cmp f k n rest) (fun p' => linked p' /\ (p' = [] \/ rootof p' = rootof ((n, 0%Z) :: rest))).
Proof.
  induction f as [|f IH]; intros n rest Hl; [apply okp_nofuel|]. rewrite ceil_unfold. apply okp_tick. cbv zeta.
  destruct (span_lt_split k (n_es _ _ n)) as (Ees & _ & _).
  set (les := fst (span_lt _ _ cmp k (n_es _ _ n))) in *. set (rs := snd (span_lt _ _ cmp k (n_es _ _ n))) in *.
  set (i := Z.of_nat (length les)).
  destruct (hits _ _ cmp k rs); [apply okp_ret; split; [apply Hl|right; apply rootof_reindex]|].
  destruct (is_nil _ _ (last_link _ _ (n_l0 _ _ n) les)) eqn:En.
  - apply okp_ret. destruct (pop_ceil_sub ((n, i) :: rest)) as [q E]. split.
    + apply (linked_suffix q). rewrite <- E. apply Hl.
    + destruct (cur_pop_ceil _ _ ((n, i) :: rest)) as [|y p'] eqn:Ep; [left; reflexivity|]. right.
      rewrite (rootof_reindex n 0 i), E. symmetry. apply rootof_app. discriminate.
  - apply (okp_bind _ _ (fun c => to_list_n c = to_list (last_link _ _ (n_l0 _ _ n) les))).
    { intros t c E. destruct (last_link _ _ (n_l0 _ _ n) les); cbn in E; inversion E; reflexivity. }
    intros c Hc.
    assert (Hlink : nth_link _ _ n i = last_link _ _ (n_l0 _ _ n) les).
    { rewrite (nth_link_last n i) by (unfold i, nkeys, n_nkeys; rewrite Ees, app_length; lia).
      unfold i. rewrite Nat2Z.id, Ees, firstn_app, firstn_all, Nat.sub_diag. cbn [firstn]. rewrite app_nil_r. reflexivity. }
    assert (Hl' : forall j, linked ((c, j) :: (n, i) :: rest)) by (intros j; apply linked_cons; [rewrite Hlink; exact Hc|apply Hl]).
    intros t p' E. destruct (IH c _ Hl' t p' E) as [A [B|B]]; (split; [exact A|]); [left; exact B|right].
    rewrite B, rootof_cons by discriminate. apply rootof_reindex.
Qed.

Theorem ceil_position F k (n : node) : ne F n -> ssorted K V cmp (to_list_n n) ->
  oks (cur_ceil _ _ cmp F k [(n, 0%Z)])
      (fun p' => p' = [] \/ (before p' ++ tl (after p') = to_list_n n /\ valid p' /\ linked p' /\ pok F p' /\ rootof p' = Some n)).
Proof.
  intros Hne Hs. destruct (ceil_ok F k n Hne Hs) as (t & p' & E & Ha & Hv & Hp). exists t, p'. split; [exact E|].
  destruct (ceil_from_linked k F n [] (fun _ => I) t p' E) as [Hl [->|Hr]]; [left; reflexivity|]. right.
  rewrite (before_after_tot p' Hv), (tot_root F p' Hl Hp n Hr). repeat split; assumption.
Qed.

(** the position of a cursor made on root n: index (length (before p) - 1) of the listing *)
Definition Pos (F : nat) (n : node) (p : cpath) : Prop :=
  valid p /\ linked p /\ pok F p /\ rootof p = Some n /\ p <> [] /\ before p ++ tl (after p) = to_list_n n.

Theorem pos_get F n p : Pos F n p -> cur_get _ _ p = nth_error (to_list_n n) (length (before p) - 1).
Proof.
  intros (Hv & _ & _ & _ & Hne & Hl). destruct p as [|[c i] r]; [contradiction|].
  destruct (get_last_ok c i r Hv) as (x & Hb & Hg). rewrite Hg, <- Hl, Hb, !app_assoc, app_length. cbn [length].
  replace (length ((anc r ++ lpre c i) ++ to_list (nth_link _ _ c i)) + 1 - 1) with (length ((anc r ++ lpre c i) ++ to_list (nth_link _ _ c i))) by lia.
  rewrite <- !app_assoc. rewrite !app_assoc. rewrite <- (app_assoc _ [x]). rewrite nth_error_app2 by lia. rewrite Nat.sub_diag. reflexivity.
Qed.

Theorem pos_forward F n p : Pos F n p ->
  oks (cur_forward _ _ F p) (fun p' => p' = [] \/ (Pos F n p' /\ length (before p') = S (length (before p)))).
Proof.
  intros (Hv & Hl & Hp & Hr & Hne & Hlist). destruct (forward_position F p n Hv Hl Hp Hr) as (t & p' & E & H). exists t, p'. split; [exact E|].
  destruct H as [->|(Hlist' & Hv' & Hl' & Hp' & Hr')]; [left; reflexivity|]. right.
  destruct (forward_ok F p Hv Hp) as (t2 & p2 & E2 & Ha & _). rewrite E in E2. assert (p2 = p') by congruence. subst p2.
  assert (Hne' : p' <> []). { intros ->. unfold rootof in Hr'. discriminate. }
  split; [repeat split; assumption|].
  assert (Hlen : length (before p' ++ tl (after p')) = length (before p ++ tl (after p))) by (rewrite Hlist', Hlist; reflexivity).
  rewrite !app_length, Ha in Hlen.
  assert (Ha' : after p' <> []).
  { destruct p' as [|[c i] r]; [contradiction|]. cbn [valid] in Hv'. destruct (suffix_step c i Hv') as (e & _ & _ & Hs). rewrite after_cons, Hs. discriminate. }
  rewrite Ha in Ha'. destruct (tl (after p)) as [|y ys] eqn:Et; [contradiction|]. cbn [tl length] in Hlen. lia.
Qed.

Theorem pos_backward F n p : Pos F n p ->
  oks (cur_backward _ _ F p) (fun p' => p' = [] \/ (Pos F n p' /\ S (length (before p')) = length (before p))).
Proof.
  intros (Hv & Hl & Hp & Hr & Hne & Hlist). destruct (backward_position F p n Hv Hl Hp Hr) as (t & p' & E & H). exists t, p'. split; [exact E|].
  destruct H as [->|(Hlist' & Hv' & Hl' & Hp' & Hr')]; [left; reflexivity|]. right.
  destruct (backward_ok F p Hv Hp) as (t2 & p2 & E2 & Hb & _). rewrite E in E2. assert (p2 = p') by congruence. subst p2.
  assert (Hne' : p' <> []). { intros ->. unfold rootof in Hr'. discriminate. }
  split; [repeat split; assumption|]. rewrite Hb.
  destruct p as [|[c i] r]; [contradiction|]. destruct (get_last_ok c i r Hv) as (x & Hbx & _). rewrite Hbx, !app_assoc, removelast_last, !app_length. cbn [length]. lia.
Qed.

Lemma pos_of F n p : before p ++ tl (after p) = to_list_n n /\ valid p /\ linked p /\ pok F p /\ rootof p = Some n -> Pos F n p.
Proof.
  intros (A & B & C & D & E). refine (conj B (conj C (conj D (conj E (conj _ A))))). intros ->. unfold rootof in E. discriminate.
Qed.
Theorem pos_min F (n : node) : ne F n -> oks (cur_min _ _ F [(n, 0%Z)]) (Pos F n).
Proof. intros H. eapply oks_weaken; [exact (min_position F n H)|]. intros p. apply pos_of. Qed.
Theorem pos_max F (n : node) : ne F n -> oks (cur_max _ _ F [(n, 0%Z)]) (Pos F n).
Proof. intros H. eapply oks_weaken; [exact (max_position F n H)|]. intros p. apply pos_of. Qed.
Theorem pos_ceil F k (n : node) : ne F n -> ssorted K V cmp (to_list_n n) ->
  oks (cur_ceil _ _ cmp F k [(n, 0%Z)]) (fun p => p = [] \/ Pos F n p).
Proof. intros H Hs. eapply oks_weaken; [exact (ceil_position F k n H Hs)|]. intros p [->|Hp]; [left; reflexivity|right; apply pos_of; exact Hp]. Qed.

End CURSOR.

(** * walking the whole listing *)
Section WALK.
Variables K V : Type.
Variable cmp : K -> K -> comparison.
Variable layer : K -> nat.
Hypothesis cmp_eq : forall a b, cmp a b = Eq <-> a = b.
Hypothesis cmp_antisym : forall a b, cmp b a = CompOpp (cmp a b).
Hypothesis cmp_trans : forall a b c, cmp a b = Lt -> cmp b c = Lt -> cmp a c = Lt.
Notation node := (node K V).
Notation link := (link K V).
Notation cpath := (cpath K V).

(* j Forward steps *)
Fixpoint forward_n (F : nat) (j : nat) (p : cpath) : M cpath :=
  match j with O => ret p | S j' => let* p' := cur_forward _ _ F p in forward_n F j' p' end.

Theorem forward_n_ok F : forall j p, valid K V p -> pok K V F p ->
  oks (forward_n F j p) (fun p' => after K V p' = skipn j (after K V p) /\ valid K V p' /\ pok K V F p').
Proof.
  induction j as [|j IH]; intros p Hv Hp; [apply oks_ret; repeat split; assumption|]. cbn [forward_n].
  apply (oks_bind _ _ _ _ (forward_ok K V F p Hv Hp)). intros p' (Ha & Hv' & Hp').
  eapply oks_weaken; [exact (IH p' Hv' Hp')|]. intros p'' (Ha'' & Hv'' & Hp''). split; [|split; assumption].
  rewrite Ha'', Ha. destruct (after K V p); [destruct j; reflexivity|reflexivity].
Qed.

(* the nodes of the reference tree of a non-empty list are non-empty all the way down *)
Lemma ne_bnode : forall d (n : node) s, s <> [] -> erase_n K V n = bnode K V layer d s -> ne K V (S d) n.
Proof.
  induction d as [|d IH]; intros n s Hs He.
  - destruct (node_inv K V layer _ _ _ He) as [E0 Ees]. cbn [ne]. split; [|split].
    + destruct (is_empty K V n) eqn:Em; [|reflexivity]. exfalso. apply Hs. apply (is_empty_bnode K V layer _ _ _ He). exact Em.
    + cbn [Build.subl] in E0. destruct (n_l0 _ _ n); cbn in E0; try discriminate. exact I.
    + rewrite segs_0 in Ees. cbn [snd] in Ees. apply Forall_forall. intros e Hin.
      assert (Hl : erase_l K V (elink _ _ e) = LNil).
      { clear -Ees Hin. revert s Ees. induction (n_es _ _ n) as [|e0 r IHr]; intros s Ees; [contradiction|]. destruct s as [|x s]; [discriminate|].
        cbn [map mk_es] in Ees. injection Ees as Hk Hv Hl Hr. destruct Hin as [<-|Hin]; [exact Hl|exact (IHr Hin s Hr)]. }
      destruct (elink _ _ e); cbn in Hl; try discriminate. exact I.
  - destruct (node_inv K V layer _ _ _ He) as [E0 Ees].
    assert (Hlk : forall (l : link) s', erase_l K V l = subl K V layer (S d) s' -> fitsl_of K V (ne K V (S d)) l).
    { intros l s' El. cbn [Build.subl] in El. destruct s' as [|x s'].
      - rewrite build_nil in El. destruct l; cbn in El; try discriminate. exact I.
      - rewrite (build_not_nil K V layer d (x :: s')) in El by discriminate.
        destruct l as [|c|h c|h]; cbn in El; try discriminate; cbn [fitsl_of]; apply (IH c (x :: s')); try discriminate; congruence. }
    change (is_empty K V n = false /\ fitsl_of K V (ne K V (S d)) (n_l0 _ _ n) /\
            Forall (fun e : entry K V => fitsl_of K V (ne K V (S d)) (elink _ _ e)) (n_es _ _ n)).
    split; [|split].
    + destruct (is_empty K V n) eqn:Em; [|reflexivity]. exfalso. apply Hs. apply (is_empty_bnode K V layer _ _ _ He). exact Em.
    + exact (Hlk _ _ E0).
    + apply Forall_forall. intros e Hin. revert Ees Hin. generalize (snd (segs K V layer (S d) s)). induction (n_es _ _ n) as [|e0 r IHr]; intros ps Ees Hin; [contradiction|].
      destruct ps as [|p ps]; [discriminate|]. cbn [map mk_es] in Ees. injection Ees as Hk Hv Hl Hr.
      destruct Hin as [<-|Hin]; [exact (Hlk _ _ Hl)|exact (IHr ps Hr Hin)].
Qed.

(** a cursor on a non-empty canonical tree: Min, then j times Forward, then Get, reads the j-th entry
    of the listing (and nothing once past the end); Ceil k, then j times Forward, reads the j-th entry
    not smaller than k *)
Theorem cursor_walk bf (m : mast K V) l j n :
  canon K V cmp layer bf m l -> l <> [] -> root_n _ _ (m_root _ _ m) = Some n ->
  oks (let* p := cur_min _ _ (S (m_height _ _ m)) [(n, 0%Z)] in forward_n (S (m_height _ _ m)) j p)
      (fun p => cur_get _ _ p = nth_error l j).
Proof.
  intros C Hl Hn. destruct (cn_root _ _ _ _ _ _ _ C) as (n' & Hn' & He). rewrite Hn in Hn'. inversion Hn'; subst n'.
  pose proof (ne_bnode _ n l Hl He) as Hne. pose proof (canon_list K V layer _ _ _ He) as Hlist.
  apply (oks_bind _ _ _ _ (min_ok K V _ n Hne)). intros p (Ha & Hv & Hp).
  eapply oks_weaken; [exact (forward_n_ok _ j p Hv Hp)|]. intros p' (Ha' & Hv' & _).
  rewrite (get_ok K V p' Hv'), Ha', Ha, Hlist. clear. revert l. induction j as [|j IH]; intros [|x l]; try reflexivity. cbn [skipn nth_error]. apply IH.
Qed.

Theorem cursor_ceil_walk bf (m : mast K V) l j n k :
  canon K V cmp layer bf m l -> l <> [] -> root_n _ _ (m_root _ _ m) = Some n ->
  oks (let* p := cur_ceil _ _ cmp (S (m_height _ _ m)) k [(n, 0%Z)] in forward_n (S (m_height _ _ m)) j p)
      (fun p => cur_get _ _ p = nth_error (from_key K V cmp k l) j).
Proof.
  intros C Hl Hn. destruct (cn_root _ _ _ _ _ _ _ C) as (n' & Hn' & He). rewrite Hn in Hn'. inversion Hn'; subst n'.
  pose proof (ne_bnode _ n l Hl He) as Hne. pose proof (canon_list K V layer _ _ _ He) as Hlist.
  assert (Hs : ssorted K V cmp (to_list_n K V n)) by (rewrite Hlist; exact (cn_sorted _ _ _ _ _ _ _ C)).
  apply (oks_bind _ _ _ _ (ceil_ok K V cmp cmp_eq cmp_trans _ k n Hne Hs)). intros p (Ha & Hv & Hp).
  eapply oks_weaken; [exact (forward_n_ok _ j p Hv Hp)|]. intros p' (Ha' & Hv' & _).
  rewrite (get_ok K V p' Hv'), Ha', Ha, Hlist. generalize (from_key K V cmp k l). clear. intros l. revert l.
  induction j as [|j IH]; intros [|x l]; try reflexivity. cbn [skipn nth_error]. apply IH.
Qed.
(* j Backward steps *)
Fixpoint backward_n (F : nat) (j : nat) (p : cpath) : M cpath :=
  match j with O => ret p | S j' => let* p' := cur_backward _ _ F p in backward_n F j' p' end.

Lemma rev_removelast {A} (l : list A) : rev (removelast l) = tl (rev l).
Proof.
  destruct l as [|x l] using rev_ind; [reflexivity|]. rewrite removelast_last, rev_app_distr. reflexivity.
Qed.

Theorem backward_n_ok F : forall j p, valid K V p -> pok K V F p ->
  oks (backward_n F j p) (fun p' => rev (before K V p') = skipn j (rev (before K V p)) /\ valid K V p' /\ pok K V F p').
Proof.
  induction j as [|j IH]; intros p Hv Hp; [apply oks_ret; repeat split; assumption|]. cbn [backward_n].
  apply (oks_bind _ _ _ _ (backward_ok K V F p Hv Hp)). intros p' (Hb & Hv' & Hp').
  eapply oks_weaken; [exact (IH p' Hv' Hp')|]. intros p'' (Hb'' & Hv'' & Hp''). split; [|split; assumption].
  rewrite Hb'', Hb, rev_removelast. destruct (rev (before K V p)); [destruct j; reflexivity|reflexivity].
Qed.

Lemma get_is_last p : valid K V p -> cur_get _ _ p = hd_error (rev (before K V p)).
Proof.
  destruct p as [|[n i] r]; [reflexivity|]. intros Hv. destruct (get_last_ok K V n i r Hv) as (x & Hb & Hg).
  rewrite Hg, Hb, !app_assoc, rev_app_distr. reflexivity.
Qed.

(** Max, then j times Backward, then Get reads the j-th entry from the end *)
Theorem cursor_walk_back bf (m : mast K V) l j n :
  canon K V cmp layer bf m l -> l <> [] -> root_n _ _ (m_root _ _ m) = Some n ->
  oks (let* p := cur_max _ _ (S (m_height _ _ m)) [(n, 0%Z)] in backward_n (S (m_height _ _ m)) j p)
      (fun p => cur_get _ _ p = nth_error (rev l) j).
Proof.
  intros C Hl Hn. destruct (cn_root _ _ _ _ _ _ _ C) as (n' & Hn' & He). rewrite Hn in Hn'. inversion Hn'; subst n'.
  pose proof (ne_bnode _ n l Hl He) as Hne. pose proof (canon_list K V layer _ _ _ He) as Hlist.
  apply (oks_bind _ _ _ _ (max_ok K V _ n Hne)). intros p (Hb & Hv & Hp).
  eapply oks_weaken; [exact (backward_n_ok _ j p Hv Hp)|]. intros p' (Hb' & Hv' & _).
  rewrite (get_is_last p' Hv'), Hb', Hb, Hlist. generalize (rev l). clear. intros l. revert l.
  induction j as [|j IH]; intros [|x l]; try reflexivity. cbn [skipn nth_error]. apply IH.
Qed.

End WALK.
