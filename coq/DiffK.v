(** C06 for the library's key and value types: the entry diff of any two reachable trees over one
    store.  A stored name stands for one node ([sto_fun]), which is all the machine needs to skip
    equal links.  Lemma file. *)
From Coq Require Import List NArith ZArith Lia Bool Sorted Arith.
From Mast Require Import Prim Key Tree KeyOrder Codec CodecRT NameLen Store Diff World Erase Build Spec Canon Links Level Inv Persist Hist Reload DiffSpec DiffLinks.
Import ListNotations.

Opaque name_of blake2b_256 b64url crc64 uint_layer_fuel.

Section FMT.
Variable fmt : nfmt.
Local Notation clone_allh := (Reload.clone_allh fmt) (only parsing).
Local Notation cycles_ok := (Reload.cycles_ok fmt) (only parsing).
Local Notation delete_allh := (Reload.delete_allh fmt) (only parsing).
Local Notation entry_ok := (Reload.entry_ok fmt) (only parsing).
Local Notation first_node_allh := (Reload.first_node_allh fmt) (only parsing).
Local Notation flush_nonnil := (Reload.flush_nonnil fmt) (only parsing).
Local Notation grow_allh := (Reload.grow_allh fmt) (only parsing).
Local Notation grow_loop_allh := (Reload.grow_loop_allh fmt) (only parsing).
Local Notation insert_allh := (Reload.insert_allh fmt) (only parsing).
Local Notation kv_ok := (Reload.kv_ok fmt) (only parsing).
Local Notation list_ok := (Reload.list_ok fmt) (only parsing).
Local Notation list_ok_incl := (Reload.list_ok_incl fmt) (only parsing).
Local Notation list_ok_remove := (Reload.list_ok_remove fmt) (only parsing).
Local Notation load_canon := (Reload.load_canon fmt) (only parsing).
Local Notation load_canon_empty := (Reload.load_canon_empty fmt) (only parsing).
Local Notation name_ok := (Reload.name_ok fmt) (only parsing).
Local Notation pcond := (Reload.pcond fmt) (only parsing).
Local Notation pconds := (Reload.pconds fmt) (only parsing).
Local Notation persist_then_load := (Reload.persist_then_load fmt) (only parsing).
Local Notation pinv := (Reload.pinv fmt) (only parsing).
Local Notation prun := (Reload.prun fmt) (only parsing).
Local Notation pstep := (Reload.pstep fmt) (only parsing).
Local Notation pstep_ok := (Reload.pstep_ok fmt) (only parsing).
Local Notation resolve_sto := (Reload.resolve_sto fmt) (only parsing).
Local Notation root_allh := (Reload.root_allh fmt) (only parsing).
Local Notation root_allh_mono := (Reload.root_allh_mono fmt) (only parsing).
Local Notation root_allh_of_node := (Reload.root_allh_of_node fmt) (only parsing).
Local Notation root_node_allh := (Reload.root_node_allh fmt) (only parsing).
Local Notation set_size_allh := (Reload.set_size_allh fmt) (only parsing).
Local Notation shrink_allh := (Reload.shrink_allh fmt) (only parsing).
Local Notation shrink_loop_allh := (Reload.shrink_loop_allh fmt) (only parsing).
Local Notation stl := (Reload.stl fmt) (only parsing).
Local Notation sto := (Reload.sto fmt) (only parsing).
Local Notation sto_hered := (Reload.sto_hered fmt) (only parsing).
Local Notation sto_l := (Reload.sto_l fmt) (only parsing).
Local Notation sto_l_mono := (Reload.sto_l_mono fmt) (only parsing).
Local Notation sto_mono := (Reload.sto_mono fmt) (only parsing).
Local Notation sto_mono' := (Reload.sto_mono' fmt) (only parsing).
Local Notation store_node_sto := (Reload.store_node_sto fmt) (only parsing).

Lemma fits_le : forall f f' (n : knode), f <= f' -> fits key val f n -> fits key val f' n.
Proof. intros f f' n H. induction H as [|f' _ IH]; intros F; [exact F|]. apply fits_mono. apply IH. exact F. Qed.

Lemma fitsl_le f f' (l : klink) : f <= f' -> fitsl_of key val (fits key val f) l -> fitsl_of key val (fits key val f') l.
Proof. intros H. destruct l as [|c|h c|h]; cbn [fitsl_of]; try (intros; assumption); apply fits_le; exact H. Qed.

Lemma sto_fits s kind : forall (c : knode) h, sto s kind h c -> exists f, fits key val f c.
Proof.
  induction c as [d sr l0 es H0 Hes] using node_ind'. intros h H.
  inversion H as [h' l0' es' Hl Hs0 Hses Hok Hsm Hn]; subst.
  assert (Hlk : forall l : klink, PL key val (fun c => forall h, sto s kind h c -> exists f, fits key val f c) l -> sto_l s kind l ->
                 exists f, fitsl_of key val (fits key val f) l).
  { intros l Hp Hl'. inversion Hl' as [|h2 c2 Hc2]; subst; [exists 0; exact I|]. cbn [PL] in Hp. destruct (Hp h2 Hc2) as [f Hf]. exists f. exact Hf. }
  destruct (Hlk l0 H0 Hs0) as [f0 Hf0].
  assert (Hall : exists F, Forall (fun e : entry key val => fitsl_of key val (fits key val F) (elink _ _ e)) es).
  { clear -Hes Hses Hlk. induction Hes as [|e r He _ IH]; [exists 0; constructor|]. inversion Hses as [|? ? Hse Hsr]; subst.
    destruct (IH Hsr) as [F HF]. destruct (Hlk _ He Hse) as [fe Hfe]. exists (Nat.max F fe). constructor.
    - apply (fitsl_le fe); [lia|exact Hfe].
    - eapply Forall_impl; [|exact HF]. intros e' He'. apply (fitsl_le F); [lia|exact He']. }
  destruct Hall as [F HF]. exists (S (Nat.max f0 F)). cbn [fits n_l0 n_es]. split.
  - apply (fitsl_le f0); [lia|exact Hf0].
  - eapply Forall_impl; [|exact HF]. intros e' He'. apply (fitsl_le F); [lia|exact He'].
Qed.

(** a name of the store stands for exactly one node *)
Theorem sto_fun s kind h (a b : knode) : sto s kind h a -> sto s kind h b -> a = b.
Proof.
  intros Ha Hb. destruct (sto_fits _ _ _ _ Ha) as [fa Fa]. destruct (sto_fits _ _ _ _ Hb) as [fb Fb].
  assert (La : fa <= Nat.max fa fb) by lia. assert (Lb : fb <= Nat.max fa fb) by lia.
  pose proof (resolve_sto s kind (Nat.max fa fb) h a Ha (fits_le _ _ _ La Fa)) as Ra.
  pose proof (resolve_sto s kind (Nat.max fa fb) h b Hb (fits_le _ _ _ Lb Fb)) as Rb.
  rewrite Ra in Rb. inversion Rb. reflexivity.
Qed.

Lemma bytes_eqb_refl v : bytes_eqb v v = true.
Proof. apply bytes_eqb_eq. reflexivity. Qed.

Theorem k_diff_entries s kind bf (mo mn : kmast) lo ln :
  kcanon bf mo lo -> kcanon bf mn ln -> root_allh s kind mo -> root_allh s kind mn ->
  oks (diff _ _ kcmp bytes_eqb (klayer bf) (Some mo) mn)
      (fun r => filter (is_entry key val) r = sdiff key val kcmp bytes_eqb lo ln).
Proof.
  intros Co Cn Ho Hn.
  exact (diff_canon key val kcmp bytes_eqb (klayer bf) kcmp_eq bytes_eqb_refl (sto s kind) (sto_hered s kind) (sto_fun s kind) bf mo mn lo ln Co Cn Ho Hn).
Qed.

Theorem k_diff_entries_nil s kind bf (mn : kmast) ln :
  kcanon bf mn ln -> root_allh s kind mn ->
  oks (diff _ _ kcmp bytes_eqb (klayer bf) None mn)
      (fun r => filter (is_entry key val) r = sdiff key val kcmp bytes_eqb [] ln).
Proof.
  intros Cn Hn.
  exact (diff_canon_nil key val kcmp bytes_eqb (klayer bf) kcmp_eq bytes_eqb_refl (sto s kind) (sto_hered s kind) (sto_fun s kind) bf mn ln Cn Hn).
Qed.

(** non-vacuity: trees that were never persisted have no hash links at all *)
Lemma empty_root_allh s kind (m : kmast) : m_root _ _ m = LNil -> root_allh s kind m.
Proof. unfold root_allh. intros ->. constructor. Qed.

(** * C07: node diff over one store, and what a replica needs *)

Theorem k_diff_links s kind bf (mo mn : kmast) lo ln :
  kcanon bf mo lo -> kcanon bf mn ln -> root_allh s kind mo -> root_allh s kind mn ->
  oks (diff _ _ kcmp bytes_eqb (klayer bf) (Some mo) mn)
      (fun r => let NN := names_l key val (m_root _ _ mn) in let NO := names_l key val (m_root _ _ mo) in
                incl (ads key val r) NN /\ incl NN (ads key val r ++ NO) /\ incl (rms key val r) NO /\ incl NO (rms key val r ++ NN)).
Proof.
  intros Co Cn Ho Hn.
  destruct (canon_root_fits key val kcmp (klayer bf) bf mo lo Co) as [Fo _].
  destruct (canon_root_fits key val kcmp (klayer bf) bf mn ln Cn) as [Fn _].
  assert (crefl : forall k, kcmp k k = Eq) by (intros k; apply kcmp_eq; reflexivity).
  apply (diff_links key val kcmp bytes_eqb (klayer bf) crefl bytes_eqb_refl (sto s kind) (sto_hered s kind) (sto_fun s kind) (Some mo) mn Hn Fn).
  intros t E. inversion E; subst t. split; assumption.
Qed.

(** a stored version can be rebuilt in any store that agrees with the source on every name it reaches *)
Lemma sto_transfer s s2 kind : forall (c : knode) h, sto s kind h c ->
  (forall x b, In x (h :: names_n key val c) -> Store.lookup s x = Some b -> Store.lookup s2 x = Some b) ->
  sto s2 kind h c.
Proof.
  induction c as [d sr l0 es H0 Hes] using node_ind'. intros h H Hx.
  inversion H as [h' l0' es' Hl Hs0 Hses Hok Hsm Hn]; subst.
  rewrite names_n_eq in Hx.
  assert (Hlk : forall l : klink, PL key val (fun c => forall h, sto s kind h c ->
                   (forall x b, In x (h :: names_n key val c) -> Store.lookup s x = Some b -> Store.lookup s2 x = Some b) -> sto s2 kind h c) l ->
                 sto_l s kind l -> (forall x b, In x (names_l key val l) -> Store.lookup s x = Some b -> Store.lookup s2 x = Some b) -> sto_l s2 kind l).
  { intros l Hp Hl' Hxl. inversion Hl' as [|h2 c2 Hc2]; subst; [constructor|]. constructor. cbn [PL] in Hp. apply Hp; [exact Hc2|exact Hxl]. }
  constructor; try assumption.
  - apply (Hx h); [left; reflexivity|exact Hl].
  - apply (Hlk l0 H0 Hs0). intros x b Hin. apply Hx. right. apply in_or_app. left. exact Hin.
  - assert (Hx' : forall x b, In x (flat_map (fun e : entry key val => names_l key val (elink _ _ e)) es) -> Store.lookup s x = Some b -> Store.lookup s2 x = Some b).
    { intros x b Hin. apply Hx. right. apply in_or_app. right. exact Hin. }
    clear -Hes Hses Hlk Hx'. induction Hes as [|e r He _ IH]; [constructor|]. inversion Hses as [|? ? Hse Hsr]; subst. constructor.
    + apply (Hlk _ He Hse). intros x b Hin. apply Hx'. cbn [flat_map]. apply in_or_app. left. exact Hin.
    + apply IH; [exact Hsr|]. intros x b Hin. apply Hx'. cbn [flat_map]. apply in_or_app. right. exact Hin.
Qed.

(** Copying the nodes reported as added into a store that holds the old version makes the new
    version loadable there: every name the new version reaches then resolves to the same bytes as in
    the source store, so [sto] (hence LoadMast, by Reload.load_canon) holds in the replica. *)
Theorem k_replica_sync s s1 s2 kind bf (mo mn : kmast) lo ln hn cn r t :
  kcanon bf mo lo -> kcanon bf mn ln -> root_allh s kind mo -> root_allh s kind mn ->
  m_root _ _ mn = LHash hn cn ->
  diff _ _ kcmp bytes_eqb (klayer bf) (Some mo) mn = (t, Ok r) ->
  (* the replica holds the old version ... *)
  (forall x b, In x (names_l key val (m_root _ _ mo)) -> Store.lookup s x = Some b -> Store.lookup s1 x = Some b) ->
  (* ... and s2 is s1 plus the added nodes *)
  extends s1 s2 ->
  (forall x b, In x (ads key val r) -> Store.lookup s x = Some b -> Store.lookup s2 x = Some b) ->
  sto s2 kind hn cn.
Proof.
  intros Co Cn Ho Hn Er E Hold Hext Hadd.
  destruct (k_diff_links s kind bf mo mn lo ln Co Cn Ho Hn) as (t' & r' & E' & _ & Hcompl & _ & _).
  rewrite E in E'. assert (r' = r) by congruence. subst r'. cbn zeta in Hcompl.
  unfold root_allh in Hn. rewrite Er in Hn, Hcompl. inversion Hn as [| |h c Hs]; subst.
  apply (sto_transfer s s2 kind cn hn Hs). intros x b Hin Hl.
  specialize (Hcompl x Hin). apply in_app_or in Hcompl. destruct Hcompl as [Ha|Ho'].
  - exact (Hadd x b Ha Hl).
  - apply Hext. exact (Hold x b Ho' Hl).
Qed.
End FMT.
