(** C06 for the library's key and value types: the entry diff of any two reachable trees over one
    store.  A stored name stands for one node ([sto_fun]), which is all the machine needs to skip
    equal links.  Lemma file. *)
From Coq Require Import List NArith ZArith Lia Bool Sorted Arith.
From Mast Require Import Prim Key Tree KeyOrder Codec CodecRT NameLen Store Diff World Erase Build Spec Canon Links Level Inv Persist Hist Reload DiffSpec.
Import ListNotations.

Opaque name_of blake2b_256 b64url crc64 uint_layer_fuel.

Lemma fits_le : forall f f' (n : knode), f <= f' -> fits key val f n -> fits key val f' n.
Proof. intros f f' n H. induction H as [|f' _ IH]; intros F; [exact F|]. apply fits_mono. apply IH. exact F. Qed.

Lemma fitsl_le f f' (l : klink) : f <= f' -> fitsl_of key val (fits key val f) l -> fitsl_of key val (fits key val f') l.
Proof. intros H. destruct l as [|c|h c|h]; cbn [fitsl_of]; try (intros; assumption); apply fits_le; exact H. Qed.

Lemma sto_fits s kind : forall (c : knode) h, sto s kind h c -> exists f, fits key val f c.
Proof.
  induction c as [d sr l0 es H0 Hes] using node_ind'. intros h H.
  inversion H as [h' l0' es' Hl Hs0 Hses Hok Hsm Hn]; subst.
  assert (Hlk : forall l : klink, PL key val (fun c => forall h, sto s kind h c -> exists f, fits key val f c) l -> sto_l s kind l ->
                 exists f, fitsl_of key val (fits key val f) l).
  { intros l Hp Hl'. inversion Hl' as [|h2 c2 Hc2]; subst; [exists 0; exact I|]. cbn [PL] in Hp. destruct (Hp h2 Hc2) as [f Hf]. exists f. exact Hf. }
  destruct (Hlk l0 H0 Hs0) as [f0 Hf0].
  assert (Hall : exists F, Forall (fun e : entry key val => fitsl_of key val (fits key val F) (elink _ _ e)) es).
  { clear -Hes Hses Hlk. induction Hes as [|e r He _ IH]; [exists 0; constructor|]. inversion Hses as [|? ? Hse Hsr]; subst.
    destruct (IH Hsr) as [F HF]. destruct (Hlk _ He Hse) as [fe Hfe]. exists (Nat.max F fe). constructor.
    - apply (fitsl_le fe); [lia|exact Hfe].
    - eapply Forall_impl; [|exact HF]. intros e' He'. apply (fitsl_le F); [lia|exact He']. }
  destruct Hall as [F HF]. exists (S (Nat.max f0 F)). cbn [fits n_l0 n_es]. split.
  - apply (fitsl_le f0); [lia|exact Hf0].
  - eapply Forall_impl; [|exact HF]. intros e' He'. apply (fitsl_le F); [lia|exact He'].
Qed.

(** a name of the store stands for exactly one node *)
Theorem sto_fun s kind h (a b : knode) : sto s kind h a -> sto s kind h b -> a = b.
Proof.
  intros Ha Hb. destruct (sto_fits _ _ _ _ Ha) as [fa Fa]. destruct (sto_fits _ _ _ _ Hb) as [fb Fb].
  assert (La : fa <= Nat.max fa fb) by lia. assert (Lb : fb <= Nat.max fa fb) by lia.
  pose proof (resolve_sto s kind (Nat.max fa fb) h a Ha (fits_le _ _ _ La Fa)) as Ra.
  pose proof (resolve_sto s kind (Nat.max fa fb) h b Hb (fits_le _ _ _ Lb Fb)) as Rb.
  rewrite Ra in Rb. inversion Rb. reflexivity.
Qed.

Lemma bytes_eqb_refl v : bytes_eqb v v = true.
Proof. apply bytes_eqb_eq. reflexivity. Qed.

Theorem k_diff_entries s kind bf (mo mn : kmast) lo ln :
  kcanon bf mo lo -> kcanon bf mn ln -> root_allh s kind mo -> root_allh s kind mn ->
  oks (diff _ _ kcmp bytes_eqb (klayer bf) (Some mo) mn)
      (fun r => filter (is_entry key val) r = sdiff key val kcmp bytes_eqb lo ln).
Proof.
  intros Co Cn Ho Hn.
  exact (diff_canon key val kcmp bytes_eqb (klayer bf) kcmp_eq bytes_eqb_refl (sto s kind) (sto_hered s kind) (sto_fun s kind) bf mo mn lo ln Co Cn Ho Hn).
Qed.

Theorem k_diff_entries_nil s kind bf (mn : kmast) ln :
  kcanon bf mn ln -> root_allh s kind mn ->
  oks (diff _ _ kcmp bytes_eqb (klayer bf) None mn)
      (fun r => filter (is_entry key val) r = sdiff key val kcmp bytes_eqb [] ln).
Proof.
  intros Cn Hn.
  exact (diff_canon_nil key val kcmp bytes_eqb (klayer bf) kcmp_eq bytes_eqb_refl (sto s kind) (sto_hered s kind) (sto_fun s kind) bf mn ln Cn Hn).
Qed.

(** non-vacuity: trees that were never persisted have no hash links at all *)
Lemma empty_root_allh s kind (m : kmast) : m_root _ _ m = LNil -> root_allh s kind m.
Proof. unfold root_allh. intros ->. constructor. Qed.
