(** The node cache, as far as contents go: a partial map from node names to deserialized nodes that
    LoadMast consults before the store.  A cache is COHERENT with a store when every node it holds is
    the node the store holds under that name.  Through a coherent cache LoadMast resolves every stored
    version to exactly what it resolves to from the store alone (transparency), and the three things the
    code does to the cache keep it coherent: adding a node after decoding it from the store, adding a
    node after its bytes were written (commit), and evicting anything at any time.  (What a cache changes
    is which Load calls reach the store, and object identity on the Go heap; neither is part of this
    statement.  That the REAL cache stays coherent - e.g. is keyed by store prefix + name, and is filled
    only after the write succeeded - is what the correspondence check tests with shared, evicting and
    cross-store caches.)  Lemma file. *)
From Coq Require Import List NArith ZArith Lia Bool Sorted.
From Mast Require Import Prim Key Tree KeyOrder Codec CodecRT NameLen Store Diff World Erase Build Spec Canon Links Level Inv Persist Hist Reload DiffSpec DiffLinks DiffK.
Import ListNotations.

Opaque name_of blake2b_256 b64url crc64 uint_layer_fuel.

Section CACHE.
Variable f : nfmt.
Variable kind : N.

Definition cache := name -> option knode.
Definition cempty : cache := fun _ => None.
Definition cadd (c : cache) (h : name) (n : knode) : cache := fun x => if bytes_eqb x h then Some n else c x.
Definition cevict (c : cache) (drop : name -> bool) : cache := fun x => if drop x then None else c x.

Definition coherent (c : cache) (s : store) : Prop := forall h n, c h = Some n -> sto f s kind h n.

(** loadPersisted with a cache: the cached node if there is one, else the store *)
Fixpoint resolve_c (fuel : nat) (c : cache) (s : store) (h : name) : klink :=
  match fuel with
  | O => LBad h
  | S fu =>
    match c h with
    | Some n => LHash h n
    | None =>
      match Store.lookup s h with
      | None => LBad h
      | Some b =>
        match decode_node f b with
        | None => LBad h
        | Some (kbs, vs, ls) =>
          match unmarshal_keys kind kbs with
          | None => LBad h
          | Some ks =>
            if negb (Nat.eqb (length vs) (length ks)) || negb (Nat.eqb (length ls) (S (length ks)))
            then LBad h
            else
              let rl (l : option name) : klink :=
                match l with None => LNil | Some x => resolve_c fu c s x end in
              match ls with
              | [] => LBad h
              | x :: rest =>
                  LHash h (Node false (Some h) (rl x)
                                (map (fun t => (fst (fst t), snd (fst t), rl (snd t)))
                                     (combine (combine ks vs) rest)))
              end
          end
        end
      end
    end
  end.

(** transparency: a stored node resolves through any coherent cache to itself *)
Theorem resolve_c_sto c s : coherent c s -> forall fuel h n, sto f s kind h n -> fits key val fuel n ->
  resolve_c fuel c s h = LHash h n.
Proof.
  intros Hc. induction fuel as [|fl IH]; intros h n H Hf; [contradiction|].
  cbn [resolve_c]. destruct (c h) as [n'|] eqn:Ec.
  - rewrite (sto_fun f s kind h n' n (Hc h n' Ec) H). reflexivity.
  - (* as from the store alone, with the children resolved through the cache *)
    inversion H as [h' l0 es Hl H0 Hes Hok Hsm Hn]; subst. cbn [fits n_l0 n_es] in Hf. destruct Hf as [Hf0 Hfes].
    rewrite Hl. unfold node_bytes. cbn [n_es n_links n_l0 map].
    assert (Hrl : forall l, fitsl_of key val (fits key val fl) l -> sto_l f s kind l ->
              (match link_name l with None => LNil | Some c0 => resolve_c fl c s c0 end) = l).
    { intros l Hfl Hl'. inversion Hl' as [|h2 c2 Hc2]; subst; [reflexivity|]. cbn [link_name]. apply IH; assumption. }
    assert (Hnames : Forall (fun l : option name => match l with Some [] => False | _ => True end)
                            (link_name l0 :: map link_name (map (elink _ _) es))).
    { constructor.
      - inversion H0 as [|h2 c2 Hc2]; subst; [exact I|]. cbn [link_name]. inversion Hc2; subst.
        match goal with Hx : name_ok f h2 |- _ => destruct Hx as [Hx _] end. destruct h2; [contradiction|exact I].
      - clear -Hes. induction Hes as [|e r He _ IHr]; [constructor|]. cbn [map]. constructor; [|exact IHr].
        inversion He as [|h2 c2 Hc2]; subst; [exact I|]. cbn [link_name]. inversion Hc2; subst.
        match goal with Hx : name_ok f h2 |- _ => destruct Hx as [Hx _] end. destruct h2; [contradiction|exact I]. }
    assert (Hsmall : Forall (fun l : option name => match l with Some h0 => hname_ok f h0 | None => True end) (link_name l0 :: map link_name (map (elink _ _) es))).
    { constructor.
      - inversion H0 as [|h2 c2 Hc2]; subst; [exact I|]. cbn [link_name]. inversion Hc2; subst.
        match goal with Hx : name_ok f h2 |- _ => exact (proj1 (proj2 Hx)) end.
      - clear -Hes. induction Hes as [|e r He _ IHr]; [constructor|]. cbn [map]. constructor; [|exact IHr].
        inversion He as [|h2 c2 Hc2]; subst; [exact I|]. cbn [link_name]. inversion Hc2; subst.
        match goal with Hx : name_ok f h2 |- _ => exact (proj1 (proj2 Hx)) end. }
    rewrite decode_encode_node.
    + rewrite <- (map_map (ekey _ _) kmarshal), unmarshal_keys_rt.
      * cbn [length]. rewrite !map_length, !Nat.eqb_refl. cbn [negb orb map]. cbv beta.
        rewrite (Hrl l0 Hf0 H0). f_equal. f_equal.
        change (map (fun e : entry key val => eval key val e) es) with (map (eval key val) es).
        apply (rebuild_entries (fun l : option name => match l with Some x => resolve_c fl c s x | None => LNil end)).
        clear -Hes Hfes Hrl. induction Hes as [|e r He _ IHr]; [constructor|]. inversion Hfes; subst.
        constructor; [apply Hrl; assumption|apply IHr; assumption].
      * rewrite Forall_map. eapply Forall_impl; [|exact Hok]. intros e [Hk _]. exact Hk.
    + rewrite !map_length. reflexivity.
    + split; [cbn [length]; rewrite !map_length; reflexivity|exact Hnames].
    + rewrite map_length. unfold small in *. lia.
    + cbn [length]. rewrite !map_length. exact Hsm.
    + rewrite Forall_map. eapply Forall_impl; [|exact Hok]. intros e (_ & Hk & _). exact Hk.
    + change (map (fun e : entry key val => eval key val e) es) with (map (eval key val) es).
      rewrite Forall_map. eapply Forall_impl; [|exact Hok]. intros e (_ & _ & Hv). exact Hv.
    + exact Hsmall.
Qed.

Corollary resolve_c_transparent c s fuel h n : coherent c s -> sto f s kind h n -> fits key val fuel n ->
  resolve_c fuel c s h = resolve fuel s f kind h.
Proof. intros Hc H Hf. rewrite (resolve_c_sto c s Hc fuel h n H Hf), (resolve_sto f s kind fuel h n H Hf). reflexivity. Qed.

(** * what the code does to the cache keeps it coherent *)
Lemma coherent_empty s : coherent cempty s.
Proof. intros h n H. discriminate H. Qed.
(* a node decoded from the store, or one whose bytes a persist has just written *)
Lemma coherent_add c s h n : coherent c s -> sto f s kind h n -> coherent (cadd c h n) s.
Proof.
  intros Hc Hs x m. unfold cadd. destruct (bytes_eqb x h) eqn:E; [|apply Hc].
  apply bytes_eqb_eq in E. subst x. intros H. inversion H; subst. exact Hs.
Qed.
Lemma coherent_evict c s drop : coherent c s -> coherent (cevict c drop) s.
Proof. intros Hc x m. unfold cevict. destruct (drop x); [discriminate|apply Hc]. Qed.
(* the store only grows *)
Lemma coherent_grows c s s' : extends s s' -> coherent c s -> coherent c s'.
Proof. intros Hx Hc h n H. apply (sto_mono' f s s' kind Hx). apply Hc. exact H. Qed.
(* ... in particular by the writes of any persist *)
Lemma coherent_after_persist c s t : coherent c s -> coherent c (apply_stores s t).
Proof. apply coherent_grows. apply extends_apply. Qed.
End CACHE.

(** * LoadMast through a cache *)
From Mast Require Import WorldInv.

Definition load_mast_c (c : cache) (s : store) (kind : N) (r : root) : M (nfmt * kmast) :=
  match parse_fmt (r_fmt r) with
  | None => fail
  | Some f =>
    let link : klink := match r_link r with
                        | None => LPtr (fresh_node _ _)
                        | Some h => resolve_c f kind (S (r_height r)) c s h
                        end in
    let sb := pow_N (r_bf r) (r_height r) in
    let m := Mast link (r_height r) (r_size r) (r_bf r) (sb * r_bf r)%N sb false in
    let* n := load _ _ link in
    check_keys (r_bf r) (r_height r) None (n_es _ _ n) >>
    ret (f, m)
  end.

(** Opening any captured root of a reachable world ([good_root]: WorldInv) through any coherent cache
    gives exactly the tree, the result and the trace that opening it from the store alone gives. *)
Theorem load_mast_c_transparent f c st kind bf l rt :
  good_root f st kind bf l rt -> coherent f kind c st -> load_mast_c c st kind rt = load_mast st kind rt.
Proof.
  intros (A & B & C & D & E & F & G) Hc. unfold load_mast_c, load_mast. rewrite A, parse_fmt_string.
  destruct (r_link rt) as [h|]; [|reflexivity]. destruct G as (n & Hs & He).
  rewrite (resolve_c_transparent f kind c st (S (r_height rt)) h n Hc Hs (fits_bnode key val (klayer bf) _ _ _ He)). reflexivity.
Qed.

(** MakeRoot then add the returned top node to the cache (the commit step): still coherent with the
    resulting store *)
Theorem coherent_after_commit f c s kind bf (m : kmast) l t rt m' h n' :
  kcanon bf m l -> root_allh f s kind m -> list_ok f kind l ->
  make_root f m = (t, Ok (rt, m')) -> nocoll s t -> coherent f kind c s ->
  m_root _ _ m' = LHash h n' ->
  coherent f kind (cadd c h n') (apply_stores s t).
Proof.
  intros C Ha Hl E Hn Hc Er.
  destruct (make_root_good f s kind bf m l t rt m' C Ha Hl E Hn) as (_ & _ & Ha').
  apply coherent_add; [apply coherent_after_persist; exact Hc|].
  unfold root_allh in Ha'. rewrite Er in Ha'. inversion Ha'; subst. assumption.
Qed.
