(** C16 for cursors: every cursor step reads at most fuel (= height + 1) nodes, whatever the tree
    and whatever the outcome.  Lemma file. *)
From Coq Require Import List NArith ZArith Lia Bool Arith.
From Mast Require Import Prim Tree Cost Cursor.
Import ListNotations.

Section COSTCUR.
Variables K V : Type.
Variable cmp : K -> K -> comparison.
Notation node := (node K V).
Notation link := (link K V).
Notation cpath := (cpath K V).

Lemma min_from_loads : forall f (n : node) (p : cpath), lb (cur_min_from _ _ f n p) f.
Proof.
  induction f as [|f IH]; intros n p; [apply lb_nofuel|]. rewrite min_unfold.
  destruct (is_nil _ _ (n_l0 _ _ n)); [apply (lb_weaken _ 0); [apply lb_ret|lia]|].
  apply (lb_weaken _ (1 + f)); [|lia]. apply lb_bind; [apply lb_load|intros c; apply IH].
Qed.

Lemma max_from_loads : forall f (n : node) (p : cpath), lb (cur_max_from _ _ f n p) f.
Proof.
  induction f as [|f IH]; intros n p; [apply lb_nofuel|]. rewrite max_unfold.
  destruct (is_nil _ _ (last_link _ _ (n_l0 _ _ n) (n_es _ _ n))); [apply (lb_weaken _ 0); [apply lb_ret|lia]|].
  apply (lb_weaken _ (1 + f)); [|lia]. apply lb_bind; [apply lb_load|intros c; apply IH].
Qed.

Lemma ceil_from_loads k : forall f (n : node) (p : cpath), lb (cur_ceil_from _ _ cmp f k n p) f.
Proof.
  induction f as [|f IH]; intros n p; [apply lb_nofuel|]. rewrite ceil_unfold. apply lb_tick; [reflexivity|]. cbv zeta.
  destruct (hits _ _ cmp k _); [apply (lb_weaken _ 0); [apply lb_ret|lia]|].
  destruct (is_nil _ _ _); [apply (lb_weaken _ 0); [apply lb_ret|lia]|].
  apply (lb_weaken _ (1 + f)); [|lia]. apply lb_bind; [apply lb_load|intros c; apply IH].
Qed.

Theorem cur_min_loads F (p : cpath) : lb (cur_min _ _ F p) F.
Proof. destruct p as [|[n i] r]; [apply (lb_weaken _ 0); [apply lb_ret|lia]|apply min_from_loads]. Qed.
Theorem cur_max_loads F (p : cpath) : lb (cur_max _ _ F p) F.
Proof. destruct p as [|[n i] r]; [apply (lb_weaken _ 0); [apply lb_ret|lia]|apply max_from_loads]. Qed.
Theorem cur_ceil_loads F k (p : cpath) : lb (cur_ceil _ _ cmp F k p) F.
Proof. destruct p as [|[n i] r]; [apply (lb_weaken _ 0); [apply lb_ret|lia]|apply ceil_from_loads]. Qed.

Theorem cur_forward_loads F (p : cpath) : lb (cur_forward _ _ F p) (S F).
Proof.
  destruct p as [|[n i] r]; [apply (lb_weaken _ 0); [apply lb_ret|lia]|]. cbn [cur_forward].
  destruct (_ && _)%bool.
  - apply (lb_weaken _ (1 + F)); [|lia]. apply lb_bind; [apply lb_load|intros c; apply min_from_loads].
  - destruct (_ <? _)%Z; apply (lb_weaken _ 0); try apply lb_ret; lia.
Qed.
Theorem cur_backward_loads F (p : cpath) : lb (cur_backward _ _ F p) (S F).
Proof.
  destruct p as [|[n i] r]; [apply (lb_weaken _ 0); [apply lb_ret|lia]|]. cbn [cur_backward].
  destruct (_ && _)%bool.
  - apply (lb_weaken _ (1 + F)); [|lia]. apply lb_bind; [apply lb_load|intros c; apply max_from_loads].
  - destruct (_ <? _)%Z; apply (lb_weaken _ 0); try apply lb_ret; lia.
Qed.
End COSTCUR.
