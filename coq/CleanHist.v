(** C13 in histories: in every reachable world a tree that reports itself clean has exactly the
    contents of the version it was created as, loaded from or last persisted as.  Lemma file. *)
From Coq Require Import List NArith ZArith Lia Bool Arith.
From Mast Require Import Prim Key Tree KeyOrder Codec Store Diff World Erase Build Spec Canon Links Level Inv Persist Hist Reload Atomic WorldInv Clean.
Import ListNotations.

Opaque name_of blake2b_256 b64url crc64 uint_layer_fuel.

(* the contents each tree had at its last version (creation, load, or persist) *)
Definition abase := list (N * option kvl).
Definition bget (ab : abase) (t : N) : option kvl := match aget ab t with Some (Some b) => Some b | _ => None end.

Definition bstep (ab : abase) (a : aworld2) (o : op) : abase :=
  match o with
  | ONew t _ _ _ _ => aset ab t (Some [])
  | OMakeRoot t _ => match aget (fst a) t with Some x => aset ab t (Some (at_l x)) | None => ab end
  | OLoad r t _ _ => match aget (snd a) r with Some x => aset ab t (Some (at_l x)) | None => ab end
  | OClone t t2 => match aget (fst a) t with Some _ => aset ab t2 (bget ab t) | None => ab end
  | _ => ab
  end.

Definition binv (w : world) (a : aworld2) (ab : abase) : Prop :=
  forall t tr x, aget (w_trees w) t = Some tr -> aget (fst a) t = Some x -> is_dirty _ _ (t_m tr) = false -> bget ab t = Some (at_l x).

Lemma bget_set_same ab t v : bget (aset ab t v) t = v.
Proof. unfold bget. rewrite aget_aset_same. destruct v; reflexivity. Qed.
Lemma bget_set_other ab t t' v : t <> t' -> bget (aset ab t v) t' = bget ab t'.
Proof. intros H. unfold bget. rewrite aget_aset_other by exact H. reflexivity. Qed.

Lemma clone_clean (m m' : kmast) t : clone _ _ m = (t, Ok m') -> is_dirty _ _ m' = false -> is_dirty _ _ m = false.
Proof.
  unfold clone. destruct (m_root _ _ m) as [|c|h c|h] eqn:Er; cbn [load bind ret tick]; intros E Hd; inversion E; subst; clear E.
  - exact Hd.
  - unfold is_dirty in *. rewrite Er. cbn [set_root m_root] in Hd. exact Hd.
  - unfold is_dirty. rewrite Er. reflexivity.
Qed.

Lemma astep2_ro a o : read_only o = true -> fst (astep2 a o) = a.
Proof.
  destruct a as [tr ro]. destruct o; cbn [read_only]; try discriminate; intros _; cbn [astep2];
    repeat match goal with |- context [match ?x with _ => _ end] => destruct x end; reflexivity.
Qed.

Theorem step_clean w a ab o :
  winv2 w a -> binv w a ab -> sup a o -> ncoll w o ->
  binv (fst (fst (step w o))) (fst (astep2 a o)) (bstep ab a o).
Proof.
  intros Hw Hb Hs Hn.
  destruct (read_only o) eqn:Ero.
  { rewrite (step_read_only w o Ero), (astep2_ro a o Ero). destruct o; try discriminate; exact Hb. }
  destruct a as [atr aro]. pose proof Hw as [HT HR]. cbn [fst snd] in HT, HR.
  destruct o; try discriminate; cbn [sup] in Hs; try contradiction; cbn [step astep2 bstep]; unfold with_tree; cbn [fst snd].
  - (* ONew *)
    destruct (load_mast _ _ _) as [tt [[fm m]| | |]] eqn:E; cbn [fst snd].
    + intros t' tr x Et Ea Hd; cbn [fst snd] in Ea, Et. unfold set_tree in Et. cbn [w_trees] in Et. destruct (N.eq_dec t t') as [->|Hne].
      * rewrite aget_aset_same in Et; rewrite aget_aset_same in Ea. inversion Ea; subst x. rewrite bget_set_same. reflexivity.
      * rewrite aget_aset_other in Et by exact Hne; rewrite aget_aset_other in Ea by exact Hne. rewrite bget_set_other by exact Hne. exact (Hb t' tr x Et Ea Hd).
    + pose proof (step_refines2 w (atr, aro) (ONew t s bf f kind) Hw Hs Hn) as H. cbn [step astep2] in H. rewrite E in H. destruct H as [_ H]. discriminate H.
    + pose proof (step_refines2 w (atr, aro) (ONew t s bf f kind) Hw Hs Hn) as H. cbn [step astep2] in H. rewrite E in H. destruct H as [_ H]. discriminate H.
    + pose proof (step_refines2 w (atr, aro) (ONew t s bf f kind) Hw Hs Hn) as H. cbn [step astep2] in H. rewrite E in H. destruct H as [_ H]. discriminate H.
  - (* OIns *)
    specialize (HT t) as Ht. destruct (aget (w_trees w) t) as [tr0|] eqn:Et0; destruct (aget atr t) as [x0|] eqn:Ea0; try contradiction; [|exact Hb].
    pose proof (tree_bf _ _ _ Ht) as Hbf. destruct Ht as (C & _). unfold upd, layer_of. rewrite Hbf.
    destruct (k_insert_ok (at_bf x0) (t_m tr0) (at_l x0) k v C) as (tt & m' & E & C'). rewrite E. cbn [fst snd].
    intros t' tr x Et Ea Hd; cbn [fst snd] in Ea, Et. unfold set_tree in Et. cbn [w_trees] in Et. destruct (N.eq_dec t t') as [->|Hne].
    + rewrite aget_aset_same in Et; rewrite aget_aset_same in Ea. inversion Et; subst tr. inversion Ea; subst x. cbn [t_m at_l] in *.
      destruct (insert_dirty key val kcmp bytes_eqb (klayer (at_bf x0)) (t_m tr0) k v tt m' E) as [->|Hdd]; [|congruence].
      rewrite (Hb t' tr0 x0 Et0 Ea0 Hd). cbn [at_l]. f_equal.
      transitivity (to_list key val (m_root _ _ (t_m tr0))); [symmetry; exact (canon_to_list key val kcmp (klayer (at_bf x0)) _ _ _ C)|exact (canon_to_list key val kcmp (klayer (at_bf x0)) _ _ _ C')].
    + rewrite aget_aset_other in Et by exact Hne; rewrite aget_aset_other in Ea by exact Hne. exact (Hb t' tr x Et Ea Hd).
  - (* ODel *)
    specialize (HT t) as Ht. destruct (aget (w_trees w) t) as [tr0|] eqn:Et0; destruct (aget atr t) as [x0|] eqn:Ea0; try contradiction; [|exact Hb].
    pose proof (tree_bf _ _ _ Ht) as Hbf. destruct Ht as (C & _). unfold upd, layer_of. rewrite Hbf.
    destruct (alookup k (at_l x0)) as [v'|] eqn:El.
    + destruct (bytes_eqb v' v) eqn:Ev.
      * apply bytes_eqb_eq in Ev. subst v'.
        destruct (k_delete_ok (at_bf x0) (t_m tr0) (at_l x0) k v C El) as (tt & m' & E & C'). rewrite E. cbn [fst snd].
        intros t' tr x Et Ea Hd; cbn [fst snd] in Ea, Et. unfold set_tree in Et. cbn [w_trees] in Et. destruct (N.eq_dec t t') as [->|Hne].
        -- rewrite aget_aset_same in Et. inversion Et; subst tr. cbn [t_m] in Hd.
           pose proof (delete_dirty key val kcmp bytes_eqb (klayer (at_bf x0)) kcmp_eq kcmp_antisym kcmp_trans bytes_eqb_eq (klayer_bound (at_bf x0)) (at_bf x0) (t_m tr0) (at_l x0) k v C El tt m' E) as Hdd.
           congruence.
        -- rewrite aget_aset_other in Et by exact Hne; rewrite aget_aset_other in Ea by exact Hne. exact (Hb t' tr x Et Ea Hd).
      * assert (Hne : alookup k (at_l x0) <> Some v).
        { rewrite El. intros H. inversion H; subst. rewrite (proj2 (bytes_eqb_eq v v) eq_refl) in Ev. discriminate. }
        destruct (k_delete_fail (at_bf x0) (t_m tr0) (at_l x0) k v C Hne) as (tt & E). rewrite E. exact Hb.
    + assert (Hne : alookup k (at_l x0) <> Some v) by (rewrite El; discriminate).
      destruct (k_delete_fail (at_bf x0) (t_m tr0) (at_l x0) k v C Hne) as (tt & E). rewrite E. exact Hb.
  - (* OClone *)
    specialize (HT t) as Ht. destruct (aget (w_trees w) t) as [tr0|] eqn:Et0; destruct (aget atr t) as [x0|] eqn:Ea0; try contradiction; [|exact Hb].
    destruct Ht as (C & _). destruct (k_clone_ok (at_bf x0) (t_m tr0) (at_l x0) C) as (tt & m' & E & C'). rewrite E. cbn [fst snd].
    intros t' tr x Et Ea Hd; cbn [fst snd] in Ea, Et. unfold set_tree in Et. cbn [w_trees] in Et. destruct (N.eq_dec t2 t') as [->|Hne].
    + rewrite aget_aset_same in Et; rewrite aget_aset_same in Ea. inversion Et; subst tr. inversion Ea; subst x. cbn [t_m] in Hd. rewrite bget_set_same.
      exact (Hb t tr0 x0 Et0 Ea0 (clone_clean _ _ _ E Hd)).
    + rewrite aget_aset_other in Et by exact Hne; rewrite aget_aset_other in Ea by exact Hne. rewrite bget_set_other by exact Hne. exact (Hb t' tr x Et Ea Hd).
  - (* OMakeRoot *)
    specialize (HT t) as Ht. destruct (aget (w_trees w) t) as [tr0|] eqn:Et0; destruct (aget atr t) as [x0|] eqn:Ea0; try contradiction; [|exact Hb].
    destruct (make_root _ _) as [tt [[rt m']| | |]]; cbn [fst snd].
    + intros t' tr x Et Ea Hd; cbn [fst snd] in Ea, Et. cbn [set_rootrec set_tree set_store w_trees] in Et. destruct (N.eq_dec t t') as [->|Hne].
      * rewrite Ea0 in Ea. inversion Ea; subst x. rewrite bget_set_same. reflexivity.
      * rewrite aget_aset_other in Et by exact Hne. rewrite bget_set_other by exact Hne. exact (Hb t' tr x Et Ea Hd).
    + intros t' tr x Et Ea Hd; cbn [fst snd] in Ea, Et. destruct (N.eq_dec t t') as [->|Hne]; [rewrite Ea0 in Ea; inversion Ea; subst; rewrite bget_set_same; reflexivity|].
      rewrite bget_set_other by exact Hne. exact (Hb t' tr x Et Ea Hd).
    + intros t' tr x Et Ea Hd; cbn [fst snd] in Ea, Et. destruct (N.eq_dec t t') as [->|Hne]; [rewrite Ea0 in Ea; inversion Ea; subst; rewrite bget_set_same; reflexivity|].
      rewrite bget_set_other by exact Hne. exact (Hb t' tr x Et Ea Hd).
    + intros t' tr x Et Ea Hd; cbn [fst snd] in Ea, Et. destruct (N.eq_dec t t') as [->|Hne]; [rewrite Ea0 in Ea; inversion Ea; subst; rewrite bget_set_same; reflexivity|].
      rewrite bget_set_other by exact Hne. exact (Hb t' tr x Et Ea Hd).
  - (* OLoad *)
    specialize (HR r) as Hr. destruct (aget (w_roots w) r) as [rt|] eqn:Er; destruct (aget aro r) as [x0|] eqn:Ea0; try contradiction; [|exact Hb].
    cbn [snd] in Hs. rewrite Ea0 in Hs. destruct Hs as (<- & <- & Hbf). destruct Hr as [Hg Hlo].
    rewrite (RootRT.root_via_json_id rt (good_root_wf _ _ _ _ _ _ Hg Hlo Hbf)).
    destruct (load_good _ _ _ _ _ _ Hg) as (tt & [fm m] & E & _). rewrite E. cbn [fst snd].
    intros t' tr x Et Ea Hd; cbn [fst snd] in Ea, Et. unfold set_tree in Et. cbn [w_trees] in Et. destruct (N.eq_dec t t') as [->|Hne].
    + rewrite aget_aset_same in Ea. inversion Ea; subst x. rewrite bget_set_same. reflexivity.
    + rewrite aget_aset_other in Et by exact Hne; rewrite aget_aset_other in Ea by exact Hne. rewrite bget_set_other by exact Hne. exact (Hb t' tr x Et Ea Hd).
Qed.

Fixpoint brun (ab : abase) (a : aworld2) (ops : list op) : abase :=
  match ops with [] => ab | o :: r => brun (bstep ab a o) (fst (astep2 a o)) r end.

Theorem history_clean : forall ops w a ab,
  winv2 w a -> binv w a ab -> conds w a ops -> binv (wrun w ops) (awrun2 a ops) (brun ab a ops).
Proof.
  induction ops as [|o r IH]; intros w a ab Hw Hb Hc; [exact Hb|].
  cbn [conds] in Hc. destruct Hc as (Hs & Hn & Hr). cbn [wrun awrun2 brun].
  pose proof (step_clean w a ab o Hw Hb Hs Hn) as Hb'.
  pose proof (step_refines2 w a o Hw Hs Hn) as Hst.
  destruct (step w o) as [[w' ob] tr]. destruct (astep2 a o) as [a' aob]. destruct Hst as [Hw' _]. cbn [fst] in *.
  exact (IH w' a' _ Hw' Hb' Hr).
Qed.

Lemma binv_empty : binv empty_world ([], []) [].
Proof. intros t tr x E. discriminate E. Qed.

(** in every reachable world: a tree that reports itself clean holds exactly the contents of its
    last version *)
Corollary clean_means_unchanged ops t tr x :
  conds empty_world ([], []) ops ->
  aget (w_trees (wrun empty_world ops)) t = Some tr -> aget (fst (awrun2 ([], []) ops)) t = Some x ->
  is_dirty _ _ (t_m tr) = false -> bget (brun [] ([], []) ops) t = Some (at_l x).
Proof.
  intros Hc Et Ea Hd. exact (history_clean ops empty_world ([], []) [] winv2_empty binv_empty Hc t tr x Et Ea Hd).
Qed.
