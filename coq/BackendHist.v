(** C17 over histories: any sequence of Store calls on the file store - any names, each stopped at
    any point (killed before the temporary file exists, killed or failed after any number of bytes,
    killed before the rename, completed) - from a directory in which every node name is absent or
    complete.  Names are content hashes: [content n] is the one byte string stored under [n]. *)
From Coq Require Import List NArith Bool.
From Mast Require Import Prim KeyOrder Backend.
Import ListNotations.

Section HIST.
Variable content : name -> bytes.

Record att := Att { a_name : name; a_tmp : N; a_stop : stop }.
Definition run_att (d : dir) (a : att) : dir := fst (store_fixed d (a_name a) (content (a_name a)) (a_tmp a) (a_stop a)).
Definition all_sound (d : dir) : Prop := forall n, sound d n (content n).

Lemma fnode_eqb_neq n n' : n <> n' -> fname_eqb (FNode n) (FNode n') = false.
Proof.
  intros H. cbn [fname_eqb]. destruct (bytes_eqb n n') eqn:E; [ | reflexivity].
  apply bytes_eqb_eq in E. contradiction.
Qed.

(* a Store of one name never touches what another name holds *)
Lemma store_fixed_other d n b tmp st n' : n <> n' ->
  dlookup (fst (store_fixed d n b tmp st)) (FNode n') = dlookup d (FNode n').
Proof.
  intros H. unfold store_fixed. destruct (dlookup d (FNode n)); [reflexivity | ].
  destruct st; cbn [fst]; try reflexivity.
  cbn [dlookup]. rewrite (fnode_eqb_neq _ _ H). reflexivity.
Qed.

Lemma name_dec (n n' : name) : n = n' \/ n <> n'.
Proof. destruct (bytes_eqb n n') eqn:E; [left; apply bytes_eqb_eq; exact E | right; intros ->; rewrite (proj2 (bytes_eqb_eq n' n') eq_refl) in E; discriminate]. Qed.

Lemma run_att_sound d a : all_sound d -> all_sound (run_att d a).
Proof.
  intros H n. unfold run_att. destruct (name_dec (a_name a) n) as [<- | Hn].
  - apply C17_atomic_model. apply H.
  - unfold sound. rewrite (store_fixed_other _ _ _ _ _ _ Hn). apply H.
Qed.

Theorem history_sound l : forall d, all_sound d -> all_sound (fold_left run_att l d).
Proof. induction l as [ | a l IH]; intros d H; cbn [fold_left]; [exact H | apply IH; apply run_att_sound; exact H]. Qed.

Lemma all_sound_empty : all_sound [].
Proof. intros n. left. reflexivity. Qed.

(** whatever a Load of a node name returns after any history is the complete node *)
Theorem load_never_partial l n x : dlookup (fold_left run_att l []) (FNode n) = Some x -> x = content n.
Proof.
  intros H. destruct (history_sound l [] all_sound_empty n) as [E | E]; rewrite E in H; [discriminate | ].
  injection H as <-. reflexivity.
Qed.

(* a complete node stays, whatever happens later *)
Lemma run_att_keeps d a n : all_sound d -> dlookup d (FNode n) = Some (content n) -> dlookup (run_att d a) (FNode n) = Some (content n).
Proof.
  intros S H. unfold run_att. destruct (name_dec (a_name a) n) as [E | Hn].
  - rewrite E. unfold store_fixed. rewrite H. exact H.
  - rewrite (store_fixed_other _ _ _ _ _ _ Hn). exact H.
Qed.

Lemma history_keeps l : forall d n, all_sound d -> dlookup d (FNode n) = Some (content n) ->
  dlookup (fold_left run_att l d) (FNode n) = Some (content n).
Proof.
  induction l as [ | a l IH]; intros d n S H; cbn [fold_left]; [exact H | ].
  apply IH; [apply run_att_sound; exact S | apply run_att_keeps; assumption].
Qed.

(** once a Store of [n] has run to completion - after whatever interrupted attempts - the node is
    there, complete, after every later history *)
Theorem completed_store_is_durable l1 tmp l2 n :
  dlookup (fold_left run_att (l1 ++ Att n tmp Completed :: l2) []) (FNode n) = Some (content n).
Proof.
  rewrite fold_left_app. cbn [fold_left].
  pose proof (history_sound l1 [] all_sound_empty) as S.
  remember (fold_left run_att l1 []) as d eqn:Ed. clear Ed.
  apply history_keeps; [apply run_att_sound; exact S | ].
  unfold run_att. cbn [a_name a_tmp a_stop].
  destruct (S n) as [E | E].
  - unfold store_fixed. rewrite E. cbn [fst dlookup fname_eqb]. rewrite (proj2 (bytes_eqb_eq n n) eq_refl). reflexivity.
  - unfold store_fixed. rewrite E. exact E.
Qed.

End HIST.

(** non-vacuity: a write cut after one byte, one cut before the rename, an I/O error, then a complete one *)
Example crash_history :
  let c : name -> bytes := fun _ => [1%N; 2%N; 3%N] in
  let nm : name := [65%N] in
  let d := fold_left (run_att c) [Att nm 1 (CrashDuringWrite 1); Att nm 2 CrashBeforeRename; Att nm 3 (ErrorDuringWrite 2)] [] in
  dlookup d (FNode nm) = None /\ dlookup d (FTmp 1) = Some [1%N] /\
  dlookup (run_att c d (Att nm 4 Completed)) (FNode nm) = Some [1%N; 2%N; 3%N].
Proof. vm_compute. repeat split. Qed.
