(** The shape invariants of property C09 as a predicate on trees, and the proof that the canonical
    tree of every list satisfies them.  Lemma file. *)
From Coq Require Import List NArith ZArith Lia Bool Sorted.
From Mast Require Import Prim Tree Erase Build Spec Canon Level.
Import ListNotations.

Section SHAPE.
Variables K V : Type.
Variable layer : K -> nat.
Notation node := (node K V).
Notation link := (link K V).
Notation entry := (entry K V).
Notation kv := (K * V)%type.
Notation seg := (seg K V).
Notation pseg := (pseg K V).
Notation segs := (segs K V layer).
Notation bnode := (bnode K V layer).
Notation build := (build K V layer).
Notation subl := (subl K V layer).
Notation mk_es := (mk_es K V).

(** [shape top d n]: n is a well-formed node at level d (H minus its depth).
    - its keys have layer d (layer >= d for the top node);
    - an entry-less node has a child (it is a pass-through node), which at level 0 is impossible;
    - level 0 has no children and nothing lies below level 0;
    - every child is a well-formed node one level down, all of whose entries have a smaller layer
      (so a node holds exactly the keys of its range whose layer is d). *)
Definition shape_link (P : node -> Prop) (d' : nat) (l : link) : Prop :=
  match l with
  | LNil => True
  | LPtr c => P c /\ Forall (fun x : kv => layer (fst x) <= d') (to_list_n _ _ c)
  | LHash _ c => P c /\ Forall (fun x : kv => layer (fst x) <= d') (to_list_n _ _ c)
  | LBad _ => False
  end.
Fixpoint shape (top : bool) (d : nat) (n : node) : Prop :=
  Forall (fun e : entry => if top then d <= layer (ekey _ _ e) else layer (ekey _ _ e) = d) (n_es _ _ n) /\
  (n_es _ _ n = [] -> n_l0 _ _ n <> LNil /\ Forall (fun e : entry => elink _ _ e = LNil) (n_es _ _ n)) /\
  match d with
  | O => n_l0 _ _ n = LNil /\ Forall (fun e : entry => elink _ _ e = LNil) (n_es _ _ n)
  | S d' => shape_link (shape false d') d' (n_l0 _ _ n) /\
            Forall (fun e : entry => shape_link (shape false d') d' (elink _ _ e)) (n_es _ _ n)
  end.

Lemma mk_es_keys (sub : seg -> link) (ps : list pseg) (P : K -> Prop) :
  Forall (fun p : pseg => P (pkey _ _ p)) ps -> Forall (fun e : entry => P (ekey _ _ e)) (mk_es sub ps).
Proof. induction 1; constructor; assumption. Qed.

Lemma pivot_in' d l (p : pseg) : In p (snd (segs d l)) -> In (pkey _ _ p, pval _ _ p) l.
Proof.
  intros Hp. rewrite <- (segs_flat K V layer d l). apply (flat_in K V). right. exists p. split; [exact Hp|left; reflexivity].
Qed.

Lemma shape_bnode : forall d top l,
  l <> [] -> (top = false -> Forall (fun x : kv => layer (fst x) <= d) l) ->
  shape top d (bnode d l).
Proof.
  induction d as [|d IH]; intros top l Hne Hle.
  - rewrite bnode_eq, segs_0. cbn [fst snd Build.subl]. unfold mk_dirty. cbn [shape n_es n_l0]. split; [|split].
    + apply (mk_es_keys _ _ (fun k => if top then 0 <= layer k else layer k = 0)). destruct top.
      * clear. induction l; constructor; [cbn; lia|assumption].
      * specialize (Hle eq_refl). clear -Hle. induction Hle as [|x r Hx _ IHr]; constructor; [cbn [pkey fst] in *; lia|exact IHr].
    + intros E. destruct l; [contradiction|discriminate].
    + split; [reflexivity|]. clear. induction l; constructor; [reflexivity|assumption].
  - rewrite bnode_eq. pose proof (segs_layers K V layer (S d) l) as [H0 Hps].
    destruct (segs (S d) l) as [s0 ps] eqn:E. cbn [fst snd] in *. unfold mk_dirty. cbn [shape n_es n_l0].
    assert (Hsub : forall s, Forall (fun x : kv => layer (fst x) < S d) s -> shape_link (shape false d) d (subl (S d) s)).
    { intros s Hs. cbn [Build.subl]. destruct s as [|x s']; [rewrite build_nil; exact I|].
      rewrite build_not_nil by discriminate. cbn [shape_link]. split.
      - apply IH; [discriminate|]. intros _. eapply Forall_impl; [|exact Hs]. intros; cbn in *; lia.
      - rewrite to_list_bnode. eapply Forall_impl; [|exact Hs]. intros; cbn in *; lia. }
    split; [|split; [|split]].
    + apply (mk_es_keys _ _ (fun k => if top then S d <= layer k else layer k = S d)).
      rewrite Forall_forall in Hps. rewrite Forall_forall. intros p Hp. destruct (Hps p Hp) as [Hk Hs]. destruct top; [exact Hk|].
      specialize (Hle eq_refl). rewrite Forall_forall in Hle.
      assert (Hin : In (pkey _ _ p, pval _ _ p) l) by (apply (pivot_in' (S d)); rewrite E; exact Hp).
      specialize (Hle _ Hin). cbn [fst] in Hle. lia.
    + intros Ees. destruct ps; [|discriminate]. split; [|constructor].
      cbn [Build.subl]. destruct s0 as [|x s']; [apply segs_nil_inv in E; contradiction|].
      rewrite build_not_nil by discriminate. discriminate.
    + apply Hsub. exact H0.
    + clear -Hps Hsub. induction Hps as [|p r [Hk Hs] _ IHr]; constructor; [apply Hsub; exact Hs|exact IHr].
Qed.

End SHAPE.
