(** C11 at the level of the history model: operations of different owners do not interfere.
    If every operation of a history uses only the trees, cursors and captured roots of its owner,
    then what each owner observes in ANY interleaving is what it observes running alone, although
    all owners persist into the same stores.  (Data races on the Go heap are outside this model:
    they are decided by the -race engine.)  Lemma file. *)
From Coq Require Import List NArith ZArith Lia Bool.
From Mast Require Import Prim Key Tree Codec Store Diff World Hist.
Import ListNotations.

Definition ids := N -> bool.

(* the operation uses tree, cursor and root ids of T only, and does not read node bytes from a store *)
Definition op_ok (T : ids) (o : op) : bool :=
  match o with
  | ONew t _ _ _ _ => T t
  | OIns t _ _ | ODel t _ _ | OGet t _ | OSize t | OHeight t | OIter t | OSeek t _ | ODirty t
  | OIterStop t _ | OSeekStop t _ _ => T t
  | OClone t t2 => T t && T t2
  | OMakeRoot t r => T t && T r
  | OCursor t c => T t && T c
  | OCMin c | OCMax c | OCCeil c _ | OCFwd c | OCBwd c | OCGet c => T c
  | ODiff tn told | ODiffLinks tn told | ODiffStop tn told _ | ODiffFail tn told _ | ODiffCur tn told =>
      T tn && match told with Some i => T i | None => true end
  | ORootSet r2 r _ _ _ _ _ => T r2 && T r
  | OLoad _ _ _ _ | OCorrupt _ _ _ _ => false
  end.

Definition agree (T : ids) (w1 w2 : world) : Prop :=
  forall i, T i = true ->
    aget (w_trees w1) i = aget (w_trees w2) i /\ aget (w_curs w1) i = aget (w_curs w2) i /\
    aget (w_roots w1) i = aget (w_roots w2) i.

Lemma agree_refl T w : agree T w w.
Proof. intros i _. repeat split. Qed.

Lemma aget_aset {A} (l1 l2 : list (N * A)) i j x : aget l1 j = aget l2 j -> aget (aset l1 i x) j = aget (aset l2 i x) j.
Proof.
  intros H. destruct (N.eq_dec i j) as [->|Hne]; [rewrite !aget_aset_same; reflexivity|rewrite !aget_aset_other by exact Hne; exact H].
Qed.

Lemma agree_set_tree T w1 w2 i x : agree T w1 w2 -> agree T (set_tree w1 i x) (set_tree w2 i x).
Proof. intros H j Tj. destruct (H j Tj) as (H1 & H2 & H3). cbn. repeat split; try assumption; try reflexivity. apply aget_aset. exact H1. Qed.
Lemma agree_set_cur T w1 w2 i x : agree T w1 w2 -> agree T (set_cur w1 i x) (set_cur w2 i x).
Proof. intros H j Tj. destruct (H j Tj) as (H1 & H2 & H3). cbn. repeat split; try assumption; try reflexivity. apply aget_aset. exact H2. Qed.
Lemma agree_set_rootrec T w1 w2 i x : agree T w1 w2 -> agree T (set_rootrec w1 i x) (set_rootrec w2 i x).
Proof. intros H j Tj. destruct (H j Tj) as (H1 & H2 & H3). cbn. repeat split; try assumption; try reflexivity. apply aget_aset. exact H3. Qed.
Lemma agree_set_store T w1 w2 i1 x1 i2 x2 : agree T w1 w2 -> agree T (set_store w1 i1 x1) (set_store w2 i2 x2).
Proof. intros H j Tj. destruct (H j Tj) as (H1 & H2 & H3). cbn. repeat split; try assumption; try reflexivity. Qed.

Lemma load_mast_nolink s s' kind r : r_link r = None -> load_mast s kind r = load_mast s' kind r.
Proof. intros H. unfold load_mast. rewrite H. reflexivity. Qed.

Definition same (T : ids) (r1 r2 : world * obs * list event) : Prop :=
  agree T (fst (fst r1)) (fst (fst r2)) /\ snd (fst r1) = snd (fst r2) /\ snd r1 = snd r2.

Ltac ss := unfold same; cbn [fst snd]; split; [|split; reflexivity].

Lemma same_ro {A} T w1 w2 (m : M A) f : agree T w1 w2 -> same T (ro w1 m f) (ro w2 m f).
Proof. intros H. unfold ro. destruct m as [t [a| | |]]; (ss; try assumption). Qed.
Lemma same_upd T w1 w2 i x m : agree T w1 w2 -> same T (upd w1 i x m) (upd w2 i x m).
Proof. intros H. unfold upd. destruct m as [t [a| | |]]; (ss; try assumption). apply agree_set_tree. exact H. Qed.
Lemma same_updc T w1 w2 i x m : agree T w1 w2 -> same T (updc w1 i x m) (updc w2 i x m).
Proof. intros H. unfold updc. destruct m as [t [a| | |]]; (ss; try assumption). apply agree_set_cur. exact H. Qed.

Lemma same_with_tree T w1 w2 t f1 f2 : agree T w1 w2 -> T t = true ->
  (forall x, same T (f1 x) (f2 x)) -> same T (with_tree w1 t f1) (with_tree w2 t f2).
Proof.
  intros H Tt Hf. unfold with_tree. destruct (H t Tt) as (H1 & _ & _). rewrite H1.
  destruct (aget (w_trees w2) t); [apply Hf|(ss; try assumption)].
Qed.
Lemma same_with_cur T w1 w2 c f1 f2 : agree T w1 w2 -> T c = true ->
  (forall x, same T (f1 x) (f2 x)) -> same T (with_cur w1 c f1) (with_cur w2 c f2).
Proof.
  intros H Tc Hf. unfold with_cur. destruct (H c Tc) as (_ & H2 & _). rewrite H2.
  destruct (aget (w_curs w2) c); [apply Hf|(ss; try assumption)].
Qed.

Lemma told_agree T w1 w2 told : agree T w1 w2 -> match told with Some i => T i | None => true end = true ->
  match told with Some i => option_map t_m (aget (w_trees w1) i) | None => None end =
  match told with Some i => option_map t_m (aget (w_trees w2) i) | None => None end.
Proof. intros H Ht. destruct told as [i|]; [|reflexivity]. destruct (H i Ht) as (H1 & _ & _). rewrite H1. reflexivity. Qed.

(** one step of an owner depends only on, and changes only, what the owner owns *)
Theorem step_local T w1 w2 o : op_ok T o = true -> agree T w1 w2 -> same T (step w1 o) (step w2 o).
Proof.
  intros Hok H. destruct o; cbn [op_ok] in Hok; try discriminate; try (apply andb_true_iff in Hok; destruct Hok as [Ha Hb]); cbn [step].
  - rewrite (load_mast_nolink (get_store w1 s) (get_store w2 s)) by reflexivity.
    destruct (load_mast _ _ _) as [tr [[fm m]| | |]]; (ss; try assumption). apply agree_set_tree. exact H.
  - apply same_with_tree; try assumption. intros x. apply same_upd. exact H.
  - apply same_with_tree; try assumption. intros x. apply same_upd. exact H.
  - apply same_with_tree; try assumption. intros x. apply same_ro. exact H.
  - apply same_with_tree; try assumption. intros x. (ss; try assumption).
  - apply same_with_tree; try assumption. intros x. (ss; try assumption).
  - apply same_with_tree; try assumption. intros x. apply same_ro. exact H.
  - apply same_with_tree; try assumption. intros x. apply same_ro. exact H.
  - apply same_with_tree; try assumption. intros x.
    destruct (clone _ _ (t_m x)) as [tr [m'| | |]]; (ss; try assumption). apply agree_set_tree. exact H.
  - apply same_with_tree; try assumption. intros x. (ss; try assumption).
  - apply same_with_tree; try assumption. intros x.
    destruct (make_root (c_fmt (t_cfg x)) (t_m x)) as [tr [[rt m']| | |]]; (ss; try assumption). 
    apply agree_set_rootrec, agree_set_tree, agree_set_store. exact H.
  - destruct (H r Hb) as (_ & _ & H3). rewrite H3. destruct (aget (w_roots w2) r); (ss; try assumption). apply agree_set_rootrec. exact H.
  - apply same_with_tree; try assumption. intros x.
    destruct (clone _ _ (t_m x)) as [tr [m'| | |]]; [|(ss; try assumption)..].
    destruct (cursor _ _ m') as [tr2 [p| | |]]; (ss; try assumption). apply agree_set_cur. exact H.
  - apply same_with_cur; try assumption. intros x. apply same_updc. exact H.
  - apply same_with_cur; try assumption. intros x. apply same_updc. exact H.
  - apply same_with_cur; try assumption. intros x. apply same_updc. exact H.
  - apply same_with_cur; try assumption. intros x. apply same_updc. exact H.
  - apply same_with_cur; try assumption. intros x. apply same_updc. exact H.
  - apply same_with_cur; try assumption. intros x. (ss; try assumption).
  - apply same_with_tree; try assumption. intros x. rewrite (told_agree T w1 w2 told H Hb). apply same_ro. exact H.
  - apply same_with_tree; try assumption. intros x. rewrite (told_agree T w1 w2 told H Hb). apply same_ro. exact H.
  - apply same_with_tree; try assumption. intros x. rewrite (told_agree T w1 w2 told H Hb). apply same_ro. exact H.
  - apply same_with_tree; try assumption. intros x. rewrite (told_agree T w1 w2 told H Hb). apply same_ro. exact H.
  - apply same_with_tree; try assumption. intros x. rewrite (told_agree T w1 w2 told H Hb). apply same_ro. exact H.
  - apply same_with_tree; try assumption. intros x. apply same_ro. exact H.
  - apply same_with_tree; try assumption. intros x. apply same_ro. exact H.
Qed.

(** ... and leaves everything it does not own untouched *)
Lemma aget_aset_out {A} (l : list (N * A)) i j x : i <> j -> aget (aset l i x) j = aget l j.
Proof. apply aget_aset_other. Qed.

Ltac out_tac T :=
  repeat match goal with
         | |- context [match ?x with _ => _ end] => destruct x eqn:?; cbn [fst snd w_trees w_curs w_roots set_tree set_rootrec set_store set_cur]
         end;
  repeat split; try reflexivity;
  try (rewrite aget_aset_other; [reflexivity|intros ->; congruence]).

Theorem step_frame T w o i : op_ok T o = true -> T i = false ->
  aget (w_trees (fst (fst (step w o)))) i = aget (w_trees w) i /\
  aget (w_curs (fst (fst (step w o)))) i = aget (w_curs w) i /\
  aget (w_roots (fst (fst (step w o)))) i = aget (w_roots w) i.
Proof.
  intros Hok Ti. destruct o; cbn [op_ok] in Hok; try discriminate; try (apply andb_true_iff in Hok; destruct Hok as [Ha Hb]);
    cbn [step]; unfold with_tree, with_cur, upd, updc, ro; out_tac T.
Qed.

(** * interleavings *)
Section INTERLEAVE.
Variable owner_ids : nat -> ids.          (* what each owner owns: tree, cursor and root ids *)
Variable a : nat.                          (* the owner we watch *)
Hypothesis disjoint : forall j i, j <> a -> owner_ids j i = true -> owner_ids a i = false.

Definition tagged := (nat * op)%type.
Definition all_ok (l : list tagged) : bool := forallb (fun p => op_ok (owner_ids (fst p)) (snd p)) l.
Definition mine (l : list tagged) : list op := map snd (filter (fun p => Nat.eqb (fst p) a) l).

(* what owner a observes in the interleaved history: observation and trace of each of its steps *)
Fixpoint observed (w : world) (l : list tagged) : list (obs * list event) :=
  match l with
  | [] => []
  | (j, o) :: r =>
      let '(w', ob, tr) := step w o in
      if Nat.eqb j a then (ob, tr) :: observed w' r else observed w' r
  end.

Theorem alone_in_any_interleaving : forall l w wa,
  all_ok l = true -> agree (owner_ids a) w wa -> observed w l = run wa (mine l).
Proof.
  induction l as [|[j o] r IH]; intros w wa Hok Hag; [reflexivity|].
  cbn [all_ok forallb fst snd] in Hok. apply andb_true_iff in Hok. destruct Hok as [Ho Hr].
  unfold mine. cbn [observed filter fst]. destruct (Nat.eqb j a) eqn:Ej.
  - apply Nat.eqb_eq in Ej. subst j. cbn [map snd run]. fold (mine r).
    pose proof (step_local (owner_ids a) w wa o Ho Hag) as (Hag' & Hob & Htr).
    destruct (step w o) as [[w' ob] tr]. destruct (step wa o) as [[wa' ob'] tr']. cbn [fst snd] in *. subst. f_equal. apply IH; assumption.
  - apply Nat.eqb_neq in Ej. fold (mine r). destruct (step w o) as [[w' ob] tr] eqn:Es. apply IH; [exact Hr|].
    intros i Ti. assert (Tj : owner_ids j i = false).
    { destruct (owner_ids j i) eqn:E; [|reflexivity]. rewrite (disjoint j i Ej E) in Ti. discriminate. }
    pose proof (step_frame (owner_ids j) w o i Ho Tj) as (H1 & H2 & H3). rewrite Es in H1, H2, H3. cbn [fst] in *.
    destruct (Hag i Ti) as (G1 & G2 & G3). rewrite H1, H2, H3. repeat split; assumption.
Qed.
End INTERLEAVE.
