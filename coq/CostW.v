(** C13, the 2*height+2 bound: how many in-memory nodes an Insert can leave behind.  [pcount] counts
    the nodes reachable through pointers (the only ones a persist can have to write); on a tree whose
    stored nodes hold no pointers, an Insert at level h adds at most 2h of them.  Lemma file. *)
From Coq Require Import List NArith ZArith Lia Bool Arith.
From Mast Require Import Prim Tree Links Cost.
Import ListNotations.

Section COSTW.
Variables K V : Type.
Variable cmp : K -> K -> comparison.
Variable veq : V -> V -> bool.
Notation node := (node K V).
Notation link := (link K V).
Notation entry := (entry K V).

Fixpoint pcount (n : node) : nat :=
  match n with
  | Node _ _ l0 es =>
      S ((match l0 with LPtr c => pcount c | _ => 0 end) +
         (fix go (es : list entry) : nat :=
            match es with [] => 0 | (k, v, l) :: r => (match l with LPtr c => pcount c | _ => 0 end) + go r end) es)
  end.
Definition pcount_l (l : link) : nat := match l with LPtr c => pcount c | _ => 0 end.
Definition psum (es : list entry) : nat := list_sum (map (fun e : entry => pcount_l (elink _ _ e)) es).

Lemma pcount_eq d s l0 (es : list entry) : pcount (Node d s l0 es) = S (pcount_l l0 + psum es).
Proof.
  cbn [pcount]. f_equal. f_equal. unfold psum. induction es as [|[[k v] l] r IH]; [reflexivity|]. cbn [map]. unfold list_sum in *. cbn [fold_right elink snd]. rewrite <- IH. reflexivity.
Qed.
Lemma pcount_mk l0 (es : list entry) : pcount (mk_dirty _ _ l0 es) = S (pcount_l l0 + psum es).
Proof. apply pcount_eq. Qed.
Lemma pcount_n (n : node) : pcount n = S (pcount_l (n_l0 _ _ n) + psum (n_es _ _ n)).
Proof. destruct n. apply pcount_eq. Qed.
Lemma psum_app a b : psum (a ++ b) = psum a + psum b.
Proof. unfold psum. rewrite map_app, list_sum_app. reflexivity. Qed.
Lemma psum_cons e r : psum (e :: r) = pcount_l (elink _ _ e) + psum r.
Proof. reflexivity. Qed.
Lemma pcount_link_of (n : node) : pcount_l (link_of _ _ n) <= pcount n.
Proof. unfold link_of. destruct (is_empty _ _ n); cbn; lia. Qed.

(* replacing the last link *)
Lemma last_link_cons' (l0 : link) (e : entry) (r : list entry) : last_link _ _ l0 (e :: r) = last_link _ _ (elink _ _ e) r.
Proof. destruct r as [|x r'] using rev_ind; [reflexivity|]. unfold last_link. cbn [rev]. rewrite !rev_app_distr. reflexivity. Qed.

Lemma set_last_sum : forall (les : list entry) (l0 nl : link),
  pcount_l (fst (set_last_link _ _ l0 les nl)) + psum (snd (set_last_link _ _ l0 les nl)) + pcount_l (last_link _ _ l0 les)
  = pcount_l l0 + psum les + pcount_l nl.
Proof.
  intros les. destruct les as [|x les] using rev_ind; intros l0 nl.
  - unfold set_last_link, last_link. cbn. lia.
  - unfold set_last_link, last_link. rewrite rev_app_distr. cbn [rev app]. destruct x as [[k v] l]. cbn [fst snd]. rewrite rev_involutive, !psum_app.
    unfold psum. cbn [map list_sum fold_right elink snd]. unfold list_sum. cbn [fold_right]. lia.
Qed.

(* stored nodes hold no pointers: what is behind a hash link counts one node *)
Variable P : name -> node -> Prop.
Hypothesis hered : forall h c, P h c -> allh K V P c.
Hypothesis Pflat : forall h c, P h c -> pcount c = 1.

Lemma load_count (l : link) : allh_l K V P l ->
  okp (load _ _ l) (fun c => allh K V P c /\ pcount c <= pcount_l l + 1 /\ (pcount_l l = 0 \/ pcount_l l = pcount c)).
Proof.
  intros H t c E. destruct l as [|c0|h c0|h]; cbn in E; inversion E; subst; inversion H; subst.
  - split; [assumption|]. cbn [pcount_l]. split; [lia|right; reflexivity].
  - split; [apply (hered h); assumption|]. cbn [pcount_l]. rewrite (Pflat h c) by assumption. split; [lia|left; reflexivity].
Qed.

(* splitting the right-hand form again: nothing on the left, no more nodes on the right *)
Lemma split_rform_count : forall fuel k (l : link), rform K V cmp k l ->
  okp (on_link _ _ l (nil2 K V) (split _ _ cmp fuel k)) (fun r => fst r = LNil /\ pcount_l (snd r) <= pcount_l l).
Proof.
  induction fuel as [|f IH]; intros k l H.
  - destruct H; cbn [on_link]; [apply okp_ret; split; [reflexivity|cbn; lia]|]. cbn [load]. intros t a E. unfold bind, ret in E. cbn [split] in E. discriminate E.
  - destruct H as [|d s l0 es Hsp Hl0]; cbn [on_link]; [apply okp_ret; split; [reflexivity|cbn; lia]|]. cbn [load].
    apply (okp_bind _ _ (fun c => c = Node d s l0 es)); [intros t c E; inversion E; reflexivity|]. intros c ->.
    cbn [split n_es n_l0]. apply okp_tick.
    destruct (span_lt _ _ cmp k es) as [les rs] eqn:Esp. cbn [fst] in Hsp. subst les.
    assert (Ers : rs = es).
    { clear -Esp. revert rs Esp. induction es as [|e r IHr]; intros rs E; cbn [span_lt] in E; [inversion E; reflexivity|].
      destruct (klt _ cmp (ekey _ _ e) k); [destruct (span_lt _ _ cmp k r); inversion E|inversion E; reflexivity]. }
    destruct (hits _ _ cmp k rs); [apply okp_panic|].
    change (last_link _ _ l0 []) with l0.
    apply (okp_bind _ _ (fun r => (fst r = LNil /\ pcount_l (snd r) <= pcount_l l0) /\ rform K V cmp k (snd r))).
    { intros t a E. split; [exact (IH k l0 Hl0 t a E)|exact (on_link_rform K V cmp k f l0 t a E)]. }
    intros [lm' tooBig] [[Hlm Hcnt] HtB]. cbn [fst snd] in *. subst lm'.
    unfold set_last_link. cbn [rev].
    apply (okp_bind _ _ _ _ (IH k tooBig HtB)). intros [tooSmall rm'] [Hts Hrm]. cbn [fst snd] in *. subst tooSmall. cbn [is_nil].
    apply okp_ret. cbn [fst snd]. split; [reflexivity|].
    eapply Nat.le_trans; [apply pcount_link_of|]. rewrite pcount_mk, Ers. cbn [pcount_l]. rewrite pcount_eq. lia.
Qed.

(** split at most doubles the nodes along one path: two per level *)
Lemma split_count : forall fuel k (n : node), allh K V P n ->
  okp (split _ _ cmp fuel k n) (fun r => pcount_l (fst r) + pcount_l (snd r) + 1 <= pcount n + 2 * fuel).
Proof.
  induction fuel as [|f IH]; intros k n Hn; [apply okp_nofuel|]. cbn [split]. apply okp_tick.
  destruct (span_lt _ _ cmp k (n_es _ _ n)) as [les rs] eqn:Esp.
  destruct (hits _ _ cmp k rs); [apply okp_panic|].
  assert (Ees : n_es _ _ n = les ++ rs).
  { clear -Esp. revert les rs Esp. induction (n_es _ _ n) as [|e r IHr]; intros les rs E; cbn [span_lt] in E; [inversion E; reflexivity|].
    destruct (klt _ cmp (ekey _ _ e) k); [|inversion E; reflexivity].
    destruct (span_lt _ _ cmp k r) as [a b]. inversion E; subst. cbn [app]. f_equal. apply IHr. reflexivity. }
  destruct (allh_inv _ _ _ _ Hn) as [H0 Hes].
  set (child := last_link _ _ (n_l0 _ _ n) les).
  assert (Hchild : allh_l K V P child).
  { unfold child. apply last_link_ok; [exact H0|]. unfold links_ok. rewrite Ees in Hes. apply Forall_app in Hes. exact (proj1 Hes). }
  apply (okp_bind _ _ (fun r => pcount_l (fst r) + pcount_l (snd r) <= pcount_l child + 2 * f
                                /\ rform K V cmp k (snd r))).
  { intros t a E. split; [|exact (on_link_rform K V cmp k f child t a E)].
    destruct (on_link_inv K V _ _ _ _ _ E) as [[Hnil ->]|(t1 & c & t2 & Hld & Hsp)].
    - rewrite Hnil. cbn. lia.
    - destruct (load_count child Hchild t1 c Hld) as (Hc & Hle & Hcases).
      pose proof (IH k c Hc t2 a Hsp) as Hb.
      cbv beta in Hb. destruct Hcases as [Hz|Hz]; lia. }
  intros [lm' tooBig] [Hb HtB]. cbn [fst snd] in *.
  pose proof (set_last_sum les (n_l0 _ _ n) lm') as Hset. fold child in Hset.
  destruct (set_last_link _ _ (n_l0 _ _ n) les lm') as [l0' les']. cbn [fst snd] in Hset.
  apply (okp_bind _ _ _ _ (split_rform_count f k tooBig HtB)). intros [tooSmall rm'] [Hts Hrm]. cbn [fst snd] in *. subst tooSmall. cbn [is_nil].
  apply okp_ret. cbn [fst snd].
  pose proof (pcount_link_of (mk_dirty _ _ l0' les')) as Hl. pose proof (pcount_link_of (mk_dirty _ _ rm' rs)) as Hr.
  rewrite !pcount_mk in *. rewrite (pcount_n n), Ees, psum_app.
  lia.
Qed.

Definition res_node (r : ins_res K V) : option node := match r with INoop => None | IUpd n' => Some n' | IIns n' => Some n' end.

(** an insert at level cur adds at most 2*cur pointer-reachable nodes *)
Lemma ins_count : forall fuel cur target k v (n : node), allh K V P n -> fuel = S cur ->
  okp (ins _ _ cmp veq fuel cur target k v n)
      (fun r => match res_node r with Some n' => pcount n' <= pcount n + 2 * cur | None => True end).
Proof.
  induction fuel as [|f IH]; intros cur target k v n Hn Hf; [lia|]. assert (Hfc : f = cur) by lia. cbn [ins]. apply okp_tick.
  destruct (span_lt _ _ cmp k (n_es _ _ n)) as [les rs] eqn:Esp.
  assert (Ees : n_es _ _ n = les ++ rs).
  { clear -Esp. revert les rs Esp. induction (n_es _ _ n) as [|e r IHr]; intros les rs E; cbn [span_lt] in E; [inversion E; reflexivity|].
    destruct (klt _ cmp (ekey _ _ e) k); [|inversion E; reflexivity].
    destruct (span_lt _ _ cmp k r) as [a b]. inversion E; subst. cbn [app]. f_equal. apply IHr. reflexivity. }
  destruct (allh_inv _ _ _ _ Hn) as [H0 Hes].
  set (child := last_link _ _ (n_l0 _ _ n) les).
  assert (Hchild : allh_l K V P child).
  { unfold child. apply last_link_ok; [exact H0|]. unfold links_ok. rewrite Ees in Hes. apply Forall_app in Hes. exact (proj1 Hes). }
  destruct (hits _ _ cmp k rs).
  - destruct (negb (Nat.eqb cur target)); [apply okp_panic|]. destruct rs as [|[[k' v'] l] rs']; [apply okp_panic|].
    destruct (veq v' v); apply okp_ret; cbn [res_node]; [exact I|].
    rewrite pcount_mk, (pcount_n n), Ees, !psum_app, !psum_cons. cbn [elink snd]. lia.
  - destruct (Nat.eqb cur target).
    + (* the node the key goes into: its child is split *)
      apply (okp_bind _ _ (fun r => pcount_l (fst r) + pcount_l (snd r) <= pcount_l child + 2 * cur)).
      { intros t a E. fold child in E. destruct (on_link_inv K V _ _ _ _ _ E) as [[Hnil ->]|(t1 & c & t2 & Hld & Hsp)].
        - rewrite Hnil. cbn. lia.
        - destruct (load_count child Hchild t1 c Hld) as (Hc & Hle & Hcases).
          pose proof (split_count f k c Hc t2 a Hsp) as Hb. cbv beta in Hb.
          (* the child lies one level down: f <= ... we only know cur < S f, so use fuel f >= cur *)
          destruct Hcases as [Hz|Hz]; lia. }
      intros [ll rl] Hb. cbn [fst snd] in Hb.
      pose proof (set_last_sum les (n_l0 _ _ n) ll) as Hset. fold child in Hset.
      destruct (set_last_link _ _ (n_l0 _ _ n) les ll) as [l0' les']. cbn [fst snd] in Hset.
      apply okp_ret. cbn [res_node]. rewrite pcount_mk, (pcount_n n), Ees, !psum_app, psum_cons. cbn [elink snd]. lia.
    + (* a node above it *)
      apply (okp_bind _ _ (fun c => allh K V P c /\ pcount c <= pcount_l child + 1)).
      { destruct child as [|c0|h c0|h] eqn:Ec.
        - apply okp_ret. split; [apply allh_fresh|cbn; lia].
        - intros t c E. destruct (load_count _ Hchild t c E) as (A & B & _). split; assumption.
        - intros t c E. destruct (load_count _ Hchild t c E) as (A & B & _). split; assumption.
        - inversion Hchild. }
      intros c [Hc Hle].
      destruct cur as [|cur']; [|].
      * (* level 0 has no level below: the recursion has no fuel left, there is no result *)
        apply (okp_bind _ _ (fun _ => False)); [subst f; apply okp_nofuel|intros r []].
      * cbn [Nat.sub]. replace (cur' - 0) with cur' by lia.
        apply (okp_bind _ _ (fun r => match res_node r with Some c' => pcount c' <= pcount c + 2 * cur' | None => True end)).
        { apply (IH cur' target k v c Hc). lia. }
        intros r Hr. destruct r as [|c'|c']; apply okp_ret; cbn [res_node] in *; [exact I|..];
          pose proof (set_last_sum les (n_l0 _ _ n) (link_of _ _ c')) as Hset; fold child in Hset;
          destruct (set_last_link _ _ (n_l0 _ _ n) les (link_of _ _ c')) as [l0' les']; cbn [fst snd] in Hset;
          pose proof (pcount_link_of c') as Hlo; rewrite pcount_mk, (pcount_n n), Ees, !psum_app; lia.
Qed.

(** merge adds at most one node per level *)
Lemma merge_count : forall fuel (a b : link), allh_l K V P a -> allh_l K V P b ->
  okp (merge _ _ fuel a b) (fun m => pcount_l m <= pcount_l a + pcount_l b + fuel).
Proof.
  induction fuel as [|f IH]; intros a b Ha Hb.
  - destruct a as [|ca|ha ca|ha]; [apply okp_ret; cbn; lia|..]; (destruct b as [|cb|hb cb|hb]; [apply okp_ret; cbn; lia|..]); cbn [merge]; apply okp_nofuel.
  - destruct a as [|ca|ha ca|ha] eqn:Ea; [cbn [merge]; apply okp_ret; cbn; lia|..]; (destruct b as [|cb|hb cb|hb] eqn:Eb; [cbn [merge]; apply okp_ret; cbn; lia|..]); try (inversion Ha; fail); try (inversion Hb; fail).
    all: rewrite <- Ea, <- Eb in *; assert (Hm : merge _ _ (S f) a b =
          (let* na := load _ _ a in let* nb := load _ _ b in
           let* m := merge _ _ f (last_link _ _ (n_l0 _ _ na) (n_es _ _ na)) (n_l0 _ _ nb) in
           let (l0', aes') := set_last_link _ _ (n_l0 _ _ na) (n_es _ _ na) m in
           ret (LPtr (mk_dirty _ _ l0' (aes' ++ n_es _ _ nb))))) by (subst a b; reflexivity).
    all: rewrite Hm; clear Hm.
    all: apply (okp_bind _ _ _ _ (load_count a Ha)); intros na (Hna & Hla & Hca).
    all: apply (okp_bind _ _ _ _ (load_count b Hb)); intros nb (Hnb & Hlb & Hcb).
    all: destruct (allh_inv _ _ _ _ Hna) as [Ha0 Haes]; destruct (allh_inv _ _ _ _ Hnb) as [Hb0 Hbes].
    all: assert (Hlast : allh_l K V P (last_link _ _ (n_l0 _ _ na) (n_es _ _ na))) by (apply last_link_ok; assumption).
    all: apply (okp_bind _ _ _ _ (IH _ _ Hlast Hb0)); intros m Hmc.
    all: pose proof (set_last_sum (n_es _ _ na) (n_l0 _ _ na) m) as Hset.
    all: destruct (set_last_link _ _ (n_l0 _ _ na) (n_es _ _ na) m) as [l0' aes']; cbn [fst snd] in Hset.
    all: apply okp_ret; cbn [pcount_l]; rewrite pcount_mk, psum_app.
    all: rewrite (pcount_n na) in *; rewrite (pcount_n nb) in *.
    all: destruct Hca as [Hza|Hza]; destruct Hcb as [Hzb|Hzb]; lia.
Qed.

(** a delete at level cur adds at most cur pointer-reachable nodes *)
Lemma del_count : forall fuel cur target k v (n : node), allh K V P n -> fuel = S cur ->
  okp (del _ _ cmp veq fuel cur target k v n) (fun n' => pcount n' <= pcount n + cur).
Proof.
  induction fuel as [|f IH]; intros cur target k v n Hn Hf; [lia|]. assert (Hfc : f = cur) by lia. subst f. clear Hf. cbn [del]. apply okp_tick.
  destruct (span_lt _ _ cmp k (n_es _ _ n)) as [les rs] eqn:Esp.
  assert (Ees : n_es _ _ n = les ++ rs).
  { clear -Esp. revert les rs Esp. induction (n_es _ _ n) as [|e r IHr]; intros les rs E; cbn [span_lt] in E; [inversion E; reflexivity|].
    destruct (klt _ cmp (ekey _ _ e) k); [|inversion E; reflexivity].
    destruct (span_lt _ _ cmp k r) as [a b]. inversion E; subst. cbn [app]. f_equal. apply IHr. reflexivity. }
  destruct (allh_inv _ _ _ _ Hn) as [H0 Hes]. rewrite Ees in Hes. apply Forall_app in Hes. destruct Hes as [Hles Hrs].
  set (child := last_link _ _ (n_l0 _ _ n) les).
  assert (Hchild : allh_l K V P child) by (unfold child; apply last_link_ok; assumption).
  destruct (hits _ _ cmp k rs).
  - destruct (negb (Nat.eqb cur target)); [apply okp_fail|]. destruct rs as [|[[k' v'] l] rs']; [apply okp_fail|].
    destruct (veq v' v); [|apply okp_fail]. inversion Hrs as [|? ? Hl Hrs']; subst. cbn [elink snd] in Hl.
    apply (okp_bind _ _ _ _ (merge_count cur child l Hchild Hl)). intros m Hm.
    pose proof (set_last_sum les (n_l0 _ _ n) m) as Hset. fold child in Hset.
    destruct (set_last_link _ _ (n_l0 _ _ n) les m) as [l0' les']. cbn [fst snd] in Hset.
    apply okp_ret. rewrite pcount_mk, (pcount_n n), Ees, !psum_app, psum_cons. cbn [elink snd]. lia.
  - destruct (Nat.eqb cur target); [apply okp_fail|].
    destruct child as [|c0|h c0|h] eqn:Ec; [apply okp_fail|..]; try (inversion Hchild; fail).
    all: rewrite <- Ec in *.
    all: apply (okp_bind _ _ _ _ (load_count child Hchild)); intros c (Hc & Hle & Hcases).
    all: (destruct cur as [|cur']; [apply (okp_bind _ _ (fun _ => False)); [apply okp_nofuel|intros r []]|]).
    all: cbn [Nat.sub]; replace (cur' - 0) with cur' by lia.
    all: apply (okp_bind _ _ _ _ (IH cur' target k v c Hc ltac:(lia))); intros c' Hc'.
    all: pose proof (set_last_sum les (n_l0 _ _ n) (link_of _ _ c')) as Hset; fold child in Hset.
    all: destruct (set_last_link _ _ (n_l0 _ _ n) les (link_of _ _ c')) as [l0' les']; cbn [fst snd] in Hset.
    all: apply okp_ret; pose proof (pcount_link_of c') as Hlo; rewrite pcount_mk, (pcount_n n), Ees, !psum_app.
    all: destruct Hcases as [Hz|Hz]; lia.
Qed.

Variable layer : K -> nat.

Lemma grow_loop_height : forall fuel root0 (m : mast K V),
  okp (grow_loop _ _ layer fuel root0 m) (fun m' => m' = m \/ m_height _ _ m < m_height _ _ m').
Proof.
  induction fuel as [|f IH]; intros root0 m; [apply okp_nofuel|]. cbn [grow_loop].
  destruct (N.leb _ _); [|apply okp_ret; left; reflexivity].
  apply (okp_bind _ _ (fun _ => True)); [intros ? ? _; exact I|]. intros cg _. destruct cg; [|apply okp_ret; left; reflexivity].
  apply (okp_bind _ _ (fun m1 => m_height _ _ m1 = S (m_height _ _ m))).
  - unfold grow. apply (okp_bind _ _ (fun _ => True)); [intros ? ? _; exact I|]. intros n _.
    apply (okp_bind _ _ (fun _ => True)); [intros ? ? _; exact I|]. intros _ _. apply okp_ret. reflexivity.
  - intros m1 H1 t m' E. right. destruct (IH root0 m1 t m' E) as [->|H]; lia.
Qed.

(** an Insert that does not change the height leaves at most 2*height more pointer-reachable nodes
    than the root node it started from *)
Theorem insert_count (m : mast K V) k v : allh_l K V P (m_root _ _ m) ->
  okp (insert _ _ cmp veq layer m k v)
      (fun m' => m_height _ _ m' = m_height _ _ m -> pcount_l (m_root _ _ m') <= Nat.max 1 (pcount_l (m_root _ _ m)) + 2 * m_height _ _ m).
Proof.
  intros Hr. unfold insert. apply okp_tick.
  apply (okp_bind _ _ (fun n => allh K V P n /\ pcount n <= Nat.max 1 (pcount_l (m_root _ _ m)))).
  { destruct (m_root _ _ m) as [|c|h c|h] eqn:Er.
    - apply okp_ret. split; [apply allh_fresh|cbn; lia].
    - intros t n E. destruct (load_count _ Hr t n E) as (A & B & [C|C]); (split; [assumption|lia]).
    - intros t n E. destruct (load_count _ Hr t n E) as (A & B & [C|C]); (split; [assumption|lia]).
    - inversion Hr. }
  intros n [Hn Hle].
  apply (okp_bind _ _ _ _ (ins_count (S (m_height _ _ m)) (m_height _ _ m) _ k v n Hn eq_refl)). intros r Hc.
  destruct r as [|n'|n']; cbn [res_node] in Hc.
  - apply okp_ret. intros _. lia.
  - apply okp_tick. apply okp_ret. intros _. unfold root_of_node. destruct (is_empty _ _ n'); cbn [set_root m_root pcount_l]; lia.
  - apply okp_tick. apply (okp_bind _ _ _ _ (grow_loop_height max_layer_fuel n' (root_of_node _ _ m n'))). intros m2 [->|Hgt].
    + apply okp_ret. intros _. cbn [set_size m_root]. unfold root_of_node. destruct (is_empty _ _ n'); cbn [set_root m_root pcount_l]; lia.
    + apply okp_ret. cbn [set_size m_height]. intros He. exfalso.
      assert (m_height _ _ (root_of_node _ _ m n') = m_height _ _ m) by (unfold root_of_node; destruct (is_empty _ _ n'); reflexivity). lia.
Qed.

Lemma shrink_loop_height : forall fuel (m : mast K V),
  okp (shrink_loop _ _ fuel m) (fun m' => m' = m \/ m_height _ _ m' < m_height _ _ m).
Proof.
  induction fuel as [|f IH]; intros m; [apply okp_nofuel|]. cbn [shrink_loop].
  destruct (_ && _)%bool; [|apply okp_ret; left; reflexivity].
  apply (okp_bind _ _ (fun m1 => S (m_height _ _ m1) = m_height _ _ m)).
  - unfold shrink. destruct (m_height _ _ m) as [|hh]; [apply okp_fail|]. destruct (m_root _ _ m) as [|rc|rh rc|rh]; [apply okp_fail|..];
      (apply (okp_bind _ _ (fun _ => True)); [intros ? ? _; exact I|]; intros n0 _;
       apply (okp_bind _ _ (fun _ => True)); [intros ? ? _; exact I|]; intros n' _;
       destruct (1 <? m_shrink_below _ _ m)%N; apply okp_ret; reflexivity).
  - intros m1 H1 t m' E. right. destruct (IH m1 t m' E) as [->|H]; lia.
Qed.

(** a Delete that does not change the height leaves at most height more pointer-reachable nodes than
    the root node it started from *)
Theorem delete_count (m : mast K V) k v : allh_l K V P (m_root _ _ m) ->
  okp (delete _ _ cmp veq layer m k v)
      (fun m' => m_height _ _ m' = m_height _ _ m -> pcount_l (m_root _ _ m') <= Nat.max 1 (pcount_l (m_root _ _ m)) + m_height _ _ m).
Proof.
  intros Hr. unfold delete. destruct (m_root _ _ m) as [|c|h c|h] eqn:Er; [apply okp_fail|..]; try (inversion Hr; fail).
  all: rewrite <- Er in *; apply okp_tick.
  all: apply (okp_bind _ _ _ _ (load_count _ Hr)); intros n (Hn & Hle & Hcs).
  all: apply (okp_bind _ _ _ _ (del_count (S (m_height _ _ m)) (m_height _ _ m) _ k v n Hn eq_refl)); intros n' Hc.
  all: apply okp_tick.
  all: intros t m2 E; destruct (shrink_loop_height max_layer_fuel _ t m2 E) as [->|Hlt].
  all: try (cbn [set_size m_root]; intros _; unfold root_of_node; destruct (is_empty _ _ n'); cbn [set_root m_root pcount_l]; destruct Hcs; lia).
  all: intros He; exfalso; cbn [set_size m_height] in Hlt.
  all: assert (m_height _ _ (root_of_node _ _ m n') = m_height _ _ m) by (unfold root_of_node; destruct (is_empty _ _ n'); reflexivity); lia.
Qed.

End COSTW.
