(** The abstract map of Spec.v is a map: the get/put/delete laws of lookup, upsert and remove on
    association lists (the last one on strictly sorted lists, where a key occurs at most once), and
    extensionality: two strictly sorted listings with the same lookups are the same list, so the
    sorted listing is a canonical representative of the finite map it denotes.  Lemma file. *)
From Coq Require Import List Bool Sorted.
From Mast Require Import Prim Tree KeyOrder Erase Build Spec Canon Level Inv.
Import ListNotations.

Section SPECLAWS.
Variables K V : Type.
Variable cmp : K -> K -> comparison.
Hypothesis cmp_eq : forall a b, cmp a b = Eq <-> a = b.
Hypothesis cmp_antisym : forall a b, cmp b a = CompOpp (cmp a b).
Hypothesis cmp_trans : forall a b c, cmp a b = Lt -> cmp b c = Lt -> cmp a c = Lt.
Notation lookup := (lookup K V cmp).
Notation upsert := (upsert K V cmp).
Notation remove := (remove K V cmp).
Notation ssorted := (ssorted K V cmp).

Lemma neq_cmp a b : a <> b -> cmp a b <> Eq.
Proof. intros N E. apply N. apply cmp_eq. exact E. Qed.
Lemma refl_cmp a : cmp a a = Eq.
Proof. apply cmp_eq. reflexivity. Qed.

Theorem lookup_upsert_same k v : forall l, lookup k (upsert k v l) = Some v.
Proof.
  induction l as [|[k' v'] r IH]; cbn [Spec.upsert Spec.lookup].
  - rewrite refl_cmp. reflexivity.
  - destruct (cmp k k') eqn:E; cbn [Spec.lookup].
    + rewrite refl_cmp. reflexivity.
    + rewrite refl_cmp. reflexivity.
    + rewrite (cmp_antisym k k'), E. cbn [CompOpp]. exact IH.
Qed.

Theorem lookup_upsert_other k v k2 : k <> k2 -> forall l, lookup k2 (upsert k v l) = lookup k2 l.
Proof.
  intros N. pose proof (neq_cmp _ _ N) as Nc.
  induction l as [|[k' v'] r IH]; cbn [Spec.upsert Spec.lookup].
  - destruct (cmp k k2); [contradiction Nc; reflexivity|reflexivity|reflexivity].
  - destruct (cmp k k') eqn:E; cbn [Spec.lookup].
    + apply cmp_eq in E. subst k'. destruct (cmp k k2); [contradiction Nc; reflexivity|reflexivity|reflexivity].
    + destruct (cmp k k2); [contradiction Nc; reflexivity|reflexivity|reflexivity].
    + destruct (cmp k' k2); [reflexivity|exact IH|exact IH].
Qed.

Theorem lookup_remove_same k : forall l, ssorted l -> lookup k (remove k l) = None.
Proof.
  induction l as [|[k' v'] r IH]; intros S; cbn [Spec.remove]; [reflexivity|].
  apply StronglySorted_inv in S. destruct S as [Sr Gr].
  destruct (cmp k' k) eqn:E.
  - apply cmp_eq in E. subst k'. apply (lookup_gt K V cmp cmp_antisym). exact Gr.
  - cbn [Spec.lookup]. rewrite E. apply IH. exact Sr.
  - cbn [Spec.lookup]. rewrite E. apply IH. exact Sr.
Qed.

Theorem lookup_remove_other k k2 : k <> k2 -> forall l, lookup k2 (remove k l) = lookup k2 l.
Proof.
  intros N. pose proof (neq_cmp _ _ N) as Nc.
  induction l as [|[k' v'] r IH]; cbn [Spec.remove]; [reflexivity|].
  destruct (cmp k' k) eqn:E.
  - apply cmp_eq in E. subst k'. cbn [Spec.lookup]. destruct (cmp k k2); [contradiction Nc; reflexivity|reflexivity|reflexivity].
  - cbn [Spec.lookup]. destruct (cmp k' k2); [reflexivity|exact IH|exact IH].
  - cbn [Spec.lookup]. destruct (cmp k' k2); [reflexivity|exact IH|exact IH].
Qed.

(** the head of a sorted list is found, and nothing below it is *)
Lemma lookup_head k v r : lookup k ((k, v) :: r) = Some v.
Proof. cbn [Spec.lookup]. rewrite refl_cmp. reflexivity. Qed.

Lemma lookup_below k (l : list (K * V)) : s_all_gt K V cmp l k -> lookup k l = None.
Proof. apply (lookup_gt K V cmp cmp_antisym). Qed.

(** extensionality: a strictly sorted listing is determined by its lookups *)
Theorem sorted_ext : forall a b, ssorted a -> ssorted b -> (forall k, lookup k a = lookup k b) -> a = b.
Proof.
  induction a as [|[ka va] a IH]; intros [|[kb vb] b] Sa Sb H.
  - reflexivity.
  - specialize (H kb). rewrite lookup_head in H. discriminate H.
  - specialize (H ka). rewrite lookup_head in H. discriminate H.
  - apply StronglySorted_inv in Sa. destruct Sa as [Sa Ga]. apply StronglySorted_inv in Sb. destruct Sb as [Sb Gb].
    assert (Ek : ka = kb).
    { destruct (cmp ka kb) eqn:E; [apply cmp_eq; exact E| |].
      - (* ka < kb: ka is in a's listing but below everything in b's *)
        pose proof (H ka) as Hk. rewrite lookup_head in Hk. cbn [Spec.lookup] in Hk.
        rewrite (cmp_antisym ka kb), E in Hk. cbn [CompOpp] in Hk.
        rewrite lookup_below in Hk; [discriminate Hk|].
        eapply Forall_impl; [|exact Gb]. intros p Hp. exact (cmp_trans _ _ _ E Hp).
      - pose proof (H kb) as Hk. rewrite lookup_head in Hk. cbn [Spec.lookup] in Hk. rewrite E in Hk.
        assert (Lt' : cmp kb ka = Lt) by (rewrite (cmp_antisym ka kb), E; reflexivity).
        rewrite lookup_below in Hk; [discriminate Hk|].
        eapply Forall_impl; [|exact Ga]. intros p Hp. exact (cmp_trans _ _ _ Lt' Hp). }
    subst kb. pose proof (H ka) as Hv. rewrite !lookup_head in Hv. inversion Hv; subst vb. f_equal.
    apply IH; [exact Sa|exact Sb|]. intros k. specialize (H k). cbn [Spec.lookup] in H.
    destruct (cmp ka k) eqn:E; [|exact H|exact H].
    apply cmp_eq in E. subst k. rewrite (lookup_below ka a Ga), (lookup_below ka b Gb). reflexivity.
Qed.
End SPECLAWS.

(** * equal maps, identical trees: "equal contents" taken extensionally (the same value, or none, under
    every key) already forces the same listing, hence the same height, size and shape *)
Section CANONEXT.
Variables (K V : Type) (cmp : K -> K -> comparison) (layer : K -> nat).
Hypothesis cmp_eq : forall a b, cmp a b = Eq <-> a = b.
Hypothesis cmp_antisym : forall a b, cmp b a = CompOpp (cmp a b).
Hypothesis cmp_trans : forall a b c, cmp a b = Lt -> cmp b c = Lt -> cmp a c = Lt.

Theorem canon_unique_ext bf m1 m2 l1 l2 :
  canon K V cmp layer bf m1 l1 -> canon K V cmp layer bf m2 l2 ->
  (forall k, Spec.lookup K V cmp k l1 = Spec.lookup K V cmp k l2) ->
  l1 = l2 /\ m_height K V m1 = m_height K V m2 /\ m_size K V m1 = m_size K V m2 /\
  exists n1 n2, root_n K V (m_root K V m1) = Some n1 /\ root_n K V (m_root K V m2) = Some n2 /\
                erase_n K V n1 = erase_n K V n2.
Proof.
  intros C1 C2 H.
  assert (E : l1 = l2).
  { apply (sorted_ext K V cmp cmp_eq cmp_antisym cmp_trans); [exact (cn_sorted _ _ _ _ _ _ _ C1)|exact (cn_sorted _ _ _ _ _ _ _ C2)|exact H]. }
  subst l2. split; [reflexivity|]. exact (canon_unique K V cmp layer bf m1 m2 l1 C1 C2).
Qed.
End CANONEXT.

(** * undo laws on sorted listings: inserting a key that was absent and deleting it again, or deleting
    a key and inserting its old value again, gives back the very same listing - with canonical form
    (C04) the very same tree, whatever happened in between to other versions *)
Section UNDO.
Variables K V : Type.
Variable cmp : K -> K -> comparison.
Hypothesis cmp_eq : forall a b, cmp a b = Eq <-> a = b.
Hypothesis cmp_antisym : forall a b, cmp b a = CompOpp (cmp a b).
Hypothesis cmp_trans : forall a b c, cmp a b = Lt -> cmp b c = Lt -> cmp a c = Lt.

Theorem remove_upsert_absent k v l :
  ssorted K V cmp l -> Spec.lookup K V cmp k l = None -> Spec.remove K V cmp k (Spec.upsert K V cmp k v l) = l.
Proof.
  intros S Hl.
  destruct (sorted_cut K V cmp cmp_eq cmp_antisym cmp_trans k l S) as [a b El Ha Hb|a b v0 El Ha Hb]; subst l.
  - rewrite (upsert_absent K V cmp cmp_antisym a b k v Ha Hb). apply (remove_present K V cmp cmp_eq a b k v Ha).
  - rewrite (lookup_present K V cmp cmp_eq a b k v0 Ha) in Hl. discriminate Hl.
Qed.

Theorem upsert_remove_present k v0 l :
  ssorted K V cmp l -> Spec.lookup K V cmp k l = Some v0 -> Spec.upsert K V cmp k v0 (Spec.remove K V cmp k l) = l.
Proof.
  intros S Hl.
  destruct (sorted_cut K V cmp cmp_eq cmp_antisym cmp_trans k l S) as [a b El Ha Hb|a b v1 El Ha Hb]; subst l.
  - rewrite (lookup_absent K V cmp cmp_antisym a b k Ha Hb) in Hl. discriminate Hl.
  - rewrite (lookup_present K V cmp cmp_eq a b k v1 Ha) in Hl. inversion Hl; subst v1.
    rewrite (remove_present K V cmp cmp_eq a b k v0 Ha). apply (upsert_absent K V cmp cmp_antisym a b k v0 Ha Hb).
Qed.

Theorem upsert_same_value k v0 l :
  ssorted K V cmp l -> Spec.lookup K V cmp k l = Some v0 -> Spec.upsert K V cmp k v0 l = l.
Proof.
  intros S Hl.
  destruct (sorted_cut K V cmp cmp_eq cmp_antisym cmp_trans k l S) as [a b El Ha Hb|a b v1 El Ha Hb]; subst l.
  - rewrite (lookup_absent K V cmp cmp_antisym a b k Ha Hb) in Hl. discriminate Hl.
  - rewrite (lookup_present K V cmp cmp_eq a b k v1 Ha) in Hl. inversion Hl; subst v1.
    apply (upsert_present K V cmp cmp_eq cmp_antisym a b k v0 v0 Ha).
Qed.
End UNDO.

(** * ... carried over to the trees: Insert of an absent key followed by Delete of it, and Delete of an
    entry followed by Insert of it, both succeed and end in a tree with the original listing and -
    canonical form - the original height, size and shape (hence the same encodings and root name) *)
Section UNDOT.
Variables (K V : Type) (cmp : K -> K -> comparison) (veq : V -> V -> bool) (layer : K -> nat).
Hypothesis cmp_eq : forall a b, cmp a b = Eq <-> a = b.
Hypothesis cmp_antisym : forall a b, cmp b a = CompOpp (cmp a b).
Hypothesis cmp_trans : forall a b c, cmp a b = Lt -> cmp b c = Lt -> cmp a c = Lt.
Hypothesis veq_eq : forall x y, veq x y = true <-> x = y.
Hypothesis layer_bound : forall k, layer k < max_layer_fuel.

Definition same_tree (m1 m2 : mast K V) : Prop :=
  m_height K V m1 = m_height K V m2 /\ m_size K V m1 = m_size K V m2 /\
  exists n1 n2, root_n K V (m_root K V m1) = Some n1 /\ root_n K V (m_root K V m2) = Some n2 /\
                erase_n K V n1 = erase_n K V n2.

Theorem insert_then_delete_restores bf m l k v :
  canon K V cmp layer bf m l -> Spec.lookup K V cmp k l = None ->
  oks (insert K V cmp veq layer m k v) (fun m1 =>
    oks (delete K V cmp veq layer m1 k v) (fun m2 => canon K V cmp layer bf m2 l /\ same_tree m m2)).
Proof.
  intros C Hl.
  eapply oks_weaken; [exact (insert_ok K V cmp veq layer cmp_eq cmp_antisym cmp_trans veq_eq layer_bound bf m l k v C)|].
  intros m1 C1.
  eapply oks_weaken;
    [exact (delete_ok K V cmp veq layer cmp_eq cmp_antisym cmp_trans veq_eq layer_bound bf m1 _ k v C1
              (lookup_upsert_same K V cmp cmp_eq cmp_antisym k v l))|].
  intros m2 C2. cbn beta in C2.
  rewrite (remove_upsert_absent K V cmp cmp_eq cmp_antisym cmp_trans k v l (cn_sorted _ _ _ _ _ _ _ C) Hl) in C2.
  split; [exact C2|]. exact (canon_unique K V cmp layer bf m m2 l C C2).
Qed.

Theorem delete_then_insert_restores bf m l k v :
  canon K V cmp layer bf m l -> Spec.lookup K V cmp k l = Some v ->
  oks (delete K V cmp veq layer m k v) (fun m1 =>
    oks (insert K V cmp veq layer m1 k v) (fun m2 => canon K V cmp layer bf m2 l /\ same_tree m m2)).
Proof.
  intros C Hl.
  eapply oks_weaken; [exact (delete_ok K V cmp veq layer cmp_eq cmp_antisym cmp_trans veq_eq layer_bound bf m l k v C Hl)|].
  intros m1 C1.
  eapply oks_weaken; [exact (insert_ok K V cmp veq layer cmp_eq cmp_antisym cmp_trans veq_eq layer_bound bf m1 _ k v C1)|].
  intros m2 C2. cbn beta in C2.
  rewrite (upsert_remove_present K V cmp cmp_eq cmp_antisym cmp_trans k v l (cn_sorted _ _ _ _ _ _ _ C) Hl) in C2.
  split; [exact C2|]. exact (canon_unique K V cmp layer bf m m2 l C C2).
Qed.
End UNDOT.

(** * order independence on sorted listings: updates of different keys commute (so any two orders of
    the same inserts and deletes of distinct keys end in the same listing - and, canonical form,
    in the same tree) *)
Section COMMUTE.
Variables K V : Type.
Variable cmp : K -> K -> comparison.
Hypothesis cmp_eq : forall a b, cmp a b = Eq <-> a = b.
Hypothesis cmp_antisym : forall a b, cmp b a = CompOpp (cmp a b).
Hypothesis cmp_trans : forall a b c, cmp a b = Lt -> cmp b c = Lt -> cmp a c = Lt.
Notation lk := (Spec.lookup K V cmp).
Notation ups := (Spec.upsert K V cmp).
Notation rmv := (Spec.remove K V cmp).
Notation US := (upsert_sorted K V cmp cmp_eq cmp_antisym cmp_trans).
Notation RS := (remove_sorted K V cmp cmp_eq cmp_antisym cmp_trans).

Lemma key_dec (a b : K) : a = b \/ a <> b.
Proof.
  destruct (cmp a b) eqn:E; [left; apply cmp_eq; exact E| |];
    right; intros ->; rewrite (proj2 (cmp_eq b b) eq_refl) in E; discriminate E.
Qed.

Theorem upsert_upsert_comm k1 v1 k2 v2 l : k1 <> k2 -> ssorted K V cmp l ->
  ups k1 v1 (ups k2 v2 l) = ups k2 v2 (ups k1 v1 l).
Proof.
  intros N S. assert (N' : k2 <> k1) by (intros E; apply N; symmetry; exact E).
  apply (sorted_ext K V cmp cmp_eq cmp_antisym cmp_trans); [apply US, US, S|apply US, US, S|].
  intros k. destruct (key_dec k1 k) as [->|D1].
  - rewrite (lookup_upsert_same K V cmp cmp_eq cmp_antisym).
    rewrite (lookup_upsert_other K V cmp cmp_eq k2 v2 k N'), (lookup_upsert_same K V cmp cmp_eq cmp_antisym). reflexivity.
  - rewrite (lookup_upsert_other K V cmp cmp_eq k1 v1 k D1). destruct (key_dec k2 k) as [->|D2].
    + rewrite !(lookup_upsert_same K V cmp cmp_eq cmp_antisym). reflexivity.
    + rewrite !(lookup_upsert_other K V cmp cmp_eq k2 v2 k D2), (lookup_upsert_other K V cmp cmp_eq k1 v1 k D1). reflexivity.
Qed.

Theorem remove_remove_comm k1 k2 l : ssorted K V cmp l -> rmv k1 (rmv k2 l) = rmv k2 (rmv k1 l).
Proof.
  intros S. destruct (key_dec k1 k2) as [->|N]; [reflexivity|].
  assert (N' : k2 <> k1) by (intros E; apply N; symmetry; exact E).
  apply (sorted_ext K V cmp cmp_eq cmp_antisym cmp_trans); [apply RS, RS, S|apply RS, RS, S|].
  intros k. destruct (key_dec k1 k) as [->|D1].
  - rewrite (lookup_remove_same K V cmp cmp_eq cmp_antisym k _ (RS k2 l S)).
    rewrite (lookup_remove_other K V cmp cmp_eq k2 k N'), (lookup_remove_same K V cmp cmp_eq cmp_antisym k l S). reflexivity.
  - rewrite (lookup_remove_other K V cmp cmp_eq k1 k D1). destruct (key_dec k2 k) as [->|D2].
    + rewrite (lookup_remove_same K V cmp cmp_eq cmp_antisym k l S), (lookup_remove_same K V cmp cmp_eq cmp_antisym k _ (RS k1 l S)). reflexivity.
    + rewrite !(lookup_remove_other K V cmp cmp_eq k2 k D2), (lookup_remove_other K V cmp cmp_eq k1 k D1). reflexivity.
Qed.

Theorem upsert_remove_comm k1 v1 k2 l : k1 <> k2 -> ssorted K V cmp l ->
  ups k1 v1 (rmv k2 l) = rmv k2 (ups k1 v1 l).
Proof.
  intros N S. assert (N' : k2 <> k1) by (intros E; apply N; symmetry; exact E).
  apply (sorted_ext K V cmp cmp_eq cmp_antisym cmp_trans); [apply US, RS, S|apply RS, US, S|].
  intros k. destruct (key_dec k1 k) as [->|D1].
  - rewrite (lookup_upsert_same K V cmp cmp_eq cmp_antisym).
    rewrite (lookup_remove_other K V cmp cmp_eq k2 k N'), (lookup_upsert_same K V cmp cmp_eq cmp_antisym). reflexivity.
  - rewrite (lookup_upsert_other K V cmp cmp_eq k1 v1 k D1). destruct (key_dec k2 k) as [->|D2].
    + rewrite (lookup_remove_same K V cmp cmp_eq cmp_antisym k l S), (lookup_remove_same K V cmp cmp_eq cmp_antisym k _ (US k1 v1 l S)). reflexivity.
    + rewrite !(lookup_remove_other K V cmp cmp_eq k2 k D2), (lookup_upsert_other K V cmp cmp_eq k1 v1 k D1). reflexivity.
Qed.
End COMMUTE.

(** ... carried over to the trees: two Inserts of different keys, in either order, end in the same tree *)
Section COMMUTET.
Variables (K V : Type) (cmp : K -> K -> comparison) (veq : V -> V -> bool) (layer : K -> nat).
Hypothesis cmp_eq : forall a b, cmp a b = Eq <-> a = b.
Hypothesis cmp_antisym : forall a b, cmp b a = CompOpp (cmp a b).
Hypothesis cmp_trans : forall a b c, cmp a b = Lt -> cmp b c = Lt -> cmp a c = Lt.
Hypothesis veq_eq : forall x y, veq x y = true <-> x = y.
Hypothesis layer_bound : forall k, layer k < max_layer_fuel.
Notation IOK := (insert_ok K V cmp veq layer cmp_eq cmp_antisym cmp_trans veq_eq layer_bound).

Theorem inserts_commute bf m l k1 v1 k2 v2 :
  canon K V cmp layer bf m l -> k1 <> k2 ->
  oks (insert K V cmp veq layer m k1 v1) (fun a1 =>
  oks (insert K V cmp veq layer a1 k2 v2) (fun a2 =>
  oks (insert K V cmp veq layer m k2 v2) (fun b1 =>
  oks (insert K V cmp veq layer b1 k1 v1) (fun b2 => same_tree K V a2 b2)))).
Proof.
  intros C N.
  eapply oks_weaken; [exact (IOK bf m l k1 v1 C)|]. intros a1 Ca1.
  eapply oks_weaken; [exact (IOK bf a1 _ k2 v2 Ca1)|]. intros a2 Ca2.
  eapply oks_weaken; [exact (IOK bf m l k2 v2 C)|]. intros b1 Cb1.
  eapply oks_weaken; [exact (IOK bf b1 _ k1 v1 Cb1)|]. intros b2 Cb2. cbn beta in Ca2, Cb2.
  rewrite (upsert_upsert_comm K V cmp cmp_eq cmp_antisym cmp_trans k1 v1 k2 v2 l N (cn_sorted _ _ _ _ _ _ _ C)) in Cb2.
  exact (canon_unique K V cmp layer bf a2 b2 _ Ca2 Cb2).
Qed.
End COMMUTET.

(** ... and two Deletes of different entries, in either order, end in the same tree *)
Section COMMUTED.
Variables (K V : Type) (cmp : K -> K -> comparison) (veq : V -> V -> bool) (layer : K -> nat).
Hypothesis cmp_eq : forall a b, cmp a b = Eq <-> a = b.
Hypothesis cmp_antisym : forall a b, cmp b a = CompOpp (cmp a b).
Hypothesis cmp_trans : forall a b c, cmp a b = Lt -> cmp b c = Lt -> cmp a c = Lt.
Hypothesis veq_eq : forall x y, veq x y = true <-> x = y.
Hypothesis layer_bound : forall k, layer k < max_layer_fuel.
Notation DOK := (delete_ok K V cmp veq layer cmp_eq cmp_antisym cmp_trans veq_eq layer_bound).

Theorem deletes_commute bf m l k1 v1 k2 v2 :
  canon K V cmp layer bf m l -> k1 <> k2 ->
  Spec.lookup K V cmp k1 l = Some v1 -> Spec.lookup K V cmp k2 l = Some v2 ->
  oks (delete K V cmp veq layer m k1 v1) (fun a1 =>
  oks (delete K V cmp veq layer a1 k2 v2) (fun a2 =>
  oks (delete K V cmp veq layer m k2 v2) (fun b1 =>
  oks (delete K V cmp veq layer b1 k1 v1) (fun b2 => same_tree K V a2 b2)))).
Proof.
  intros C N H1 H2. assert (N' : k2 <> k1) by (intros E; apply N; symmetry; exact E).
  eapply oks_weaken; [exact (DOK bf m l k1 v1 C H1)|]. intros a1 Ca1.
  assert (H2' : Spec.lookup K V cmp k2 (Spec.remove K V cmp k1 l) = Some v2)
    by (rewrite (lookup_remove_other K V cmp cmp_eq k1 k2 N); exact H2).
  eapply oks_weaken; [exact (DOK bf a1 _ k2 v2 Ca1 H2')|]. intros a2 Ca2.
  eapply oks_weaken; [exact (DOK bf m l k2 v2 C H2)|]. intros b1 Cb1.
  assert (H1' : Spec.lookup K V cmp k1 (Spec.remove K V cmp k2 l) = Some v1)
    by (rewrite (lookup_remove_other K V cmp cmp_eq k2 k1 N'); exact H1).
  eapply oks_weaken; [exact (DOK bf b1 _ k1 v1 Cb1 H1')|]. intros b2 Cb2. cbn beta in Ca2, Cb2.
  rewrite (remove_remove_comm K V cmp cmp_eq cmp_antisym cmp_trans k1 k2 l (cn_sorted _ _ _ _ _ _ _ C)) in Cb2.
  exact (canon_unique K V cmp layer bf a2 b2 _ Ca2 Cb2).
Qed.
End COMMUTED.

(** ... and an Insert and a Delete of different keys, in either order, end in the same tree *)
Section COMMUTEID.
Variables (K V : Type) (cmp : K -> K -> comparison) (veq : V -> V -> bool) (layer : K -> nat).
Hypothesis cmp_eq : forall a b, cmp a b = Eq <-> a = b.
Hypothesis cmp_antisym : forall a b, cmp b a = CompOpp (cmp a b).
Hypothesis cmp_trans : forall a b c, cmp a b = Lt -> cmp b c = Lt -> cmp a c = Lt.
Hypothesis veq_eq : forall x y, veq x y = true <-> x = y.
Hypothesis layer_bound : forall k, layer k < max_layer_fuel.
Notation IOK := (insert_ok K V cmp veq layer cmp_eq cmp_antisym cmp_trans veq_eq layer_bound).
Notation DOK := (delete_ok K V cmp veq layer cmp_eq cmp_antisym cmp_trans veq_eq layer_bound).

Theorem insert_delete_commute bf m l k1 v1 k2 v2 :
  canon K V cmp layer bf m l -> k1 <> k2 -> Spec.lookup K V cmp k2 l = Some v2 ->
  oks (insert K V cmp veq layer m k1 v1) (fun a1 =>
  oks (delete K V cmp veq layer a1 k2 v2) (fun a2 =>
  oks (delete K V cmp veq layer m k2 v2) (fun b1 =>
  oks (insert K V cmp veq layer b1 k1 v1) (fun b2 => same_tree K V a2 b2)))).
Proof.
  intros C N H2.
  eapply oks_weaken; [exact (IOK bf m l k1 v1 C)|]. intros a1 Ca1.
  assert (H2' : Spec.lookup K V cmp k2 (Spec.upsert K V cmp k1 v1 l) = Some v2)
    by (rewrite (lookup_upsert_other K V cmp cmp_eq k1 v1 k2 N); exact H2).
  eapply oks_weaken; [exact (DOK bf a1 _ k2 v2 Ca1 H2')|]. intros a2 Ca2.
  eapply oks_weaken; [exact (DOK bf m l k2 v2 C H2)|]. intros b1 Cb1.
  eapply oks_weaken; [exact (IOK bf b1 _ k1 v1 Cb1)|]. intros b2 Cb2. cbn beta in Ca2, Cb2.
  rewrite (upsert_remove_comm K V cmp cmp_eq cmp_antisym cmp_trans k1 v1 k2 l N (cn_sorted _ _ _ _ _ _ _ C)) in Cb2.
  exact (canon_unique K V cmp layer bf a2 b2 _ Ca2 Cb2).
Qed.
End COMMUTEID.
