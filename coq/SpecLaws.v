(** The abstract map of Spec.v is a map: the get/put/delete laws of lookup, upsert and remove on
    association lists (the last one on strictly sorted lists, where a key occurs at most once), and
    extensionality: two strictly sorted listings with the same lookups are the same list, so the
    sorted listing is a canonical representative of the finite map it denotes.  Lemma file. *)
From Coq Require Import List Bool Sorted.
From Mast Require Import Prim Tree KeyOrder Erase Build Spec Canon Level Inv.
Import ListNotations.

Section SPECLAWS.
Variables K V : Type.
Variable cmp : K -> K -> comparison.
Hypothesis cmp_eq : forall a b, cmp a b = Eq <-> a = b.
Hypothesis cmp_antisym : forall a b, cmp b a = CompOpp (cmp a b).
Hypothesis cmp_trans : forall a b c, cmp a b = Lt -> cmp b c = Lt -> cmp a c = Lt.
Notation lookup := (lookup K V cmp).
Notation upsert := (upsert K V cmp).
Notation remove := (remove K V cmp).
Notation ssorted := (ssorted K V cmp).

Lemma neq_cmp a b : a <> b -> cmp a b <> Eq.
Proof. intros N E. apply N. apply cmp_eq. exact E. Qed.
Lemma refl_cmp a : cmp a a = Eq.
Proof. apply cmp_eq. reflexivity. Qed.

Theorem lookup_upsert_same k v : forall l, lookup k (upsert k v l) = Some v.
Proof.
  induction l as [|[k' v'] r IH]; cbn [Spec.upsert Spec.lookup].
  - rewrite refl_cmp. reflexivity.
  - destruct (cmp k k') eqn:E; cbn [Spec.lookup].
    + rewrite refl_cmp. reflexivity.
    + rewrite refl_cmp. reflexivity.
    + rewrite (cmp_antisym k k'), E. cbn [CompOpp]. exact IH.
Qed.

Theorem lookup_upsert_other k v k2 : k <> k2 -> forall l, lookup k2 (upsert k v l) = lookup k2 l.
Proof.
  intros N. pose proof (neq_cmp _ _ N) as Nc.
  induction l as [|[k' v'] r IH]; cbn [Spec.upsert Spec.lookup].
  - destruct (cmp k k2); [contradiction Nc; reflexivity|reflexivity|reflexivity].
  - destruct (cmp k k') eqn:E; cbn [Spec.lookup].
    + apply cmp_eq in E. subst k'. destruct (cmp k k2); [contradiction Nc; reflexivity|reflexivity|reflexivity].
    + destruct (cmp k k2); [contradiction Nc; reflexivity|reflexivity|reflexivity].
    + destruct (cmp k' k2); [reflexivity|exact IH|exact IH].
Qed.

Theorem lookup_remove_same k : forall l, ssorted l -> lookup k (remove k l) = None.
Proof.
  induction l as [|[k' v'] r IH]; intros S; cbn [Spec.remove]; [reflexivity|].
  apply StronglySorted_inv in S. destruct S as [Sr Gr].
  destruct (cmp k' k) eqn:E.
  - apply cmp_eq in E. subst k'. apply (lookup_gt K V cmp cmp_antisym). exact Gr.
  - cbn [Spec.lookup]. rewrite E. apply IH. exact Sr.
  - cbn [Spec.lookup]. rewrite E. apply IH. exact Sr.
Qed.

Theorem lookup_remove_other k k2 : k <> k2 -> forall l, lookup k2 (remove k l) = lookup k2 l.
Proof.
  intros N. pose proof (neq_cmp _ _ N) as Nc.
  induction l as [|[k' v'] r IH]; cbn [Spec.remove]; [reflexivity|].
  destruct (cmp k' k) eqn:E.
  - apply cmp_eq in E. subst k'. cbn [Spec.lookup]. destruct (cmp k k2); [contradiction Nc; reflexivity|reflexivity|reflexivity].
  - cbn [Spec.lookup]. destruct (cmp k' k2); [reflexivity|exact IH|exact IH].
  - cbn [Spec.lookup]. destruct (cmp k' k2); [reflexivity|exact IH|exact IH].
Qed.

(** the head of a sorted list is found, and nothing below it is *)
Lemma lookup_head k v r : lookup k ((k, v) :: r) = Some v.
Proof. cbn [Spec.lookup]. rewrite refl_cmp. reflexivity. Qed.

Lemma lookup_below k (l : list (K * V)) : s_all_gt K V cmp l k -> lookup k l = None.
Proof. apply (lookup_gt K V cmp cmp_antisym). Qed.

(** extensionality: a strictly sorted listing is determined by its lookups *)
Theorem sorted_ext : forall a b, ssorted a -> ssorted b -> (forall k, lookup k a = lookup k b) -> a = b.
Proof.
  induction a as [|[ka va] a IH]; intros [|[kb vb] b] Sa Sb H.
  - reflexivity.
  - specialize (H kb). rewrite lookup_head in H. discriminate H.
  - specialize (H ka). rewrite lookup_head in H. discriminate H.
  - apply StronglySorted_inv in Sa. destruct Sa as [Sa Ga]. apply StronglySorted_inv in Sb. destruct Sb as [Sb Gb].
    assert (Ek : ka = kb).
    { destruct (cmp ka kb) eqn:E; [apply cmp_eq; exact E| |].
      - (* ka < kb: ka is in a's listing but below everything in b's *)
        pose proof (H ka) as Hk. rewrite lookup_head in Hk. cbn [Spec.lookup] in Hk.
        rewrite (cmp_antisym ka kb), E in Hk. cbn [CompOpp] in Hk.
        rewrite lookup_below in Hk; [discriminate Hk|].
        eapply Forall_impl; [|exact Gb]. intros p Hp. exact (cmp_trans _ _ _ E Hp).
      - pose proof (H kb) as Hk. rewrite lookup_head in Hk. cbn [Spec.lookup] in Hk. rewrite E in Hk.
        assert (Lt' : cmp kb ka = Lt) by (rewrite (cmp_antisym ka kb), E; reflexivity).
        rewrite lookup_below in Hk; [discriminate Hk|].
        eapply Forall_impl; [|exact Ga]. intros p Hp. exact (cmp_trans _ _ _ Lt' Hp). }
    subst kb. pose proof (H ka) as Hv. rewrite !lookup_head in Hv. inversion Hv; subst vb. f_equal.
    apply IH; [exact Sa|exact Sb|]. intros k. specialize (H k). cbn [Spec.lookup] in H.
    destruct (cmp ka k) eqn:E; [|exact H|exact H].
    apply cmp_eq in E. subst k. rewrite (lookup_below ka a Ga), (lookup_below ka b Gb). reflexivity.
Qed.
End SPECLAWS.

(** * equal maps, identical trees: "equal contents" taken extensionally (the same value, or none, under
    every key) already forces the same listing, hence the same height, size and shape *)
Section CANONEXT.
Variables (K V : Type) (cmp : K -> K -> comparison) (layer : K -> nat).
Hypothesis cmp_eq : forall a b, cmp a b = Eq <-> a = b.
Hypothesis cmp_antisym : forall a b, cmp b a = CompOpp (cmp a b).
Hypothesis cmp_trans : forall a b c, cmp a b = Lt -> cmp b c = Lt -> cmp a c = Lt.

Theorem canon_unique_ext bf m1 m2 l1 l2 :
  canon K V cmp layer bf m1 l1 -> canon K V cmp layer bf m2 l2 ->
  (forall k, Spec.lookup K V cmp k l1 = Spec.lookup K V cmp k l2) ->
  l1 = l2 /\ m_height K V m1 = m_height K V m2 /\ m_size K V m1 = m_size K V m2 /\
  exists n1 n2, root_n K V (m_root K V m1) = Some n1 /\ root_n K V (m_root K V m2) = Some n2 /\
                erase_n K V n1 = erase_n K V n2.
Proof.
  intros C1 C2 H.
  assert (E : l1 = l2).
  { apply (sorted_ext K V cmp cmp_eq cmp_antisym cmp_trans); [exact (cn_sorted _ _ _ _ _ _ _ C1)|exact (cn_sorted _ _ _ _ _ _ _ C2)|exact H]. }
  subst l2. split; [reflexivity|]. exact (canon_unique K V cmp layer bf m1 m2 l1 C1 C2).
Qed.
End CANONEXT.
