(** The canonical Merkle search tree of a sorted entry list: [bnode d l] is the node at level [d]
    holding the entries [l] (pivots are the keys of layer >= d; the runs between pivots are the
    children, built at level d-1; an empty run is a nil link).  [build d l] is the link to it.
    This is the independent reference construction of property C04; all shape statements (C09) are
    statements about it.  Definitions and list-level lemmas. *)
From Coq Require Import List NArith ZArith Lia Bool Sorted.
From Mast Require Import Prim Tree Erase.
Import ListNotations.

Section BUILD.
Variables K V : Type.
Variable layer : K -> nat.
Notation node := (node K V).
Notation link := (link K V).
Notation entry := (entry K V).
Notation kv := (K * V)%type.

(** a run of entries, and the decomposition of a list at level d: the run before the first pivot,
    then (pivot key, value, run after it) *)
Definition seg := list kv.
Definition pseg := (K * V * seg)%type.
Definition pkey (p : pseg) : K := fst (fst p).
Definition pval (p : pseg) : V := snd (fst p).
Definition pseg_of (p : pseg) : seg := snd p.

Fixpoint segs (d : nat) (l : seg) : seg * list pseg :=
  match l with
  | [] => ([], [])
  | (k, v) :: r =>
      let (s0, ps) := segs d r in
      if Nat.leb d (layer k) then ([], (k, v, s0) :: ps) else ((k, v) :: s0, ps)
  end.

Definition flat (s0 : seg) (ps : list pseg) : seg :=
  s0 ++ flat_map (fun p : pseg => (pkey p, pval p) :: pseg_of p) ps.

Lemma segs_flat d l : flat (fst (segs d l)) (snd (segs d l)) = l.
Proof.
  induction l as [|[k v] r IH]; [reflexivity|].
  cbn [segs]. destruct (segs d r) as [s0 ps]. cbn [fst snd] in IH.
  destruct (Nat.leb d (layer k)); cbn [fst snd]; unfold flat in *; cbn; rewrite IH; reflexivity.
Qed.

(** last run and its replacement, mirroring last_link / set_last_link *)
Definition last_seg (s0 : seg) (ps : list pseg) : seg :=
  match rev ps with [] => s0 | p :: _ => pseg_of p end.
Definition set_last_seg (s0 : seg) (ps : list pseg) (s : seg) : seg * list pseg :=
  match rev ps with
  | [] => (s, [])
  | (k, v, _) :: r => (s0, rev r ++ [(k, v, s)])
  end.

Lemma last_seg_snoc s0 ps p : last_seg s0 (ps ++ [p]) = pseg_of p.
Proof. unfold last_seg. rewrite rev_app_distr. reflexivity. Qed.
Lemma set_last_seg_snoc s0 ps k v s s' : set_last_seg s0 (ps ++ [(k, v, s)]) s' = (s0, ps ++ [(k, v, s')]).
Proof. unfold set_last_seg. rewrite rev_app_distr. cbn. rewrite rev_involutive. reflexivity. Qed.
Lemma last_seg_nil s0 : last_seg s0 [] = s0.
Proof. reflexivity. Qed.
Lemma set_last_seg_nil s0 s : set_last_seg s0 [] s = (s, []).
Proof. reflexivity. Qed.

Lemma set_last_seg_id s0 ps : set_last_seg s0 ps (last_seg s0 ps) = (s0, ps).
Proof.
  destruct ps as [|p ps'] using rev_ind; [reflexivity|].
  destruct p as [[k v] s]. rewrite last_seg_snoc, set_last_seg_snoc. reflexivity.
Qed.

Lemma set_last_seg_twice s0 ps s s' :
  (let (a, b) := set_last_seg s0 ps s in set_last_seg a b s') = set_last_seg s0 ps s'.
Proof.
  unfold set_last_seg. destruct (rev ps) as [|[[k v] x] r]; [reflexivity|].
  cbn iota. rewrite rev_app_distr. cbn. rewrite rev_involutive. reflexivity.
Qed.

Lemma last_seg_set s0 ps s : (let (a, b) := set_last_seg s0 ps s in last_seg a b) = s.
Proof.
  unfold set_last_seg, last_seg. destruct (rev ps) as [|[[k v] x] r]; [reflexivity|].
  cbn iota. rewrite rev_app_distr. reflexivity.
Qed.

Lemma set_last_seg_keys s0 ps s :
  map pkey (snd (set_last_seg s0 ps s)) = map pkey ps.
Proof.
  unfold set_last_seg. destruct (rev ps) as [|[[k v] x] r] eqn:E.
  - apply (f_equal (@rev _)) in E. rewrite rev_involutive in E. subst ps. reflexivity.
  - apply (f_equal (@rev _)) in E. rewrite rev_involutive in E. subst ps. cbn [snd rev].
    rewrite !map_app. reflexivity.
Qed.

(** the decomposition of a concatenation: the last run of the left part and the first run of the
    right part fuse *)
Lemma segs_app d a b :
  segs d (a ++ b) =
  let (s0a, psa) := segs d a in
  let (s0b, psb) := segs d b in
  let (s0', psa') := set_last_seg s0a psa (last_seg s0a psa ++ s0b) in
  (s0', psa' ++ psb).
Proof.
  induction a as [|[k v] r IH].
  - cbn [app segs]. destruct (segs d b) as [s0b psb]. reflexivity.
  - cbn [app segs]. rewrite IH. destruct (segs d r) as [s0r psr]. destruct (segs d b) as [s0b psb].
    destruct (Nat.leb d (layer k)).
    + (* k is a pivot *)
      destruct psr as [|p psr'] using rev_ind.
      * cbn. reflexivity.
      * destruct p as [[k' v'] s']. clear IHpsr'.
        rewrite last_seg_snoc, set_last_seg_snoc.
        change ((k, v, s0r) :: psr' ++ [(k', v', s')]) with (((k, v, s0r) :: psr') ++ [(k', v', s')]).
        rewrite last_seg_snoc, set_last_seg_snoc. reflexivity.
    + destruct psr as [|p psr'] using rev_ind.
      * cbn. reflexivity.
      * destruct p as [[k' v'] s']. clear IHpsr'.
        rewrite !last_seg_snoc, !set_last_seg_snoc. reflexivity.
Qed.

Lemma segs_nil_inv d l : segs d l = ([], []) -> l = [].
Proof.
  intros H. pose proof (segs_flat d l) as F. rewrite H in F. cbn in F. symmetry. exact F.
Qed.

(** pivots have layer >= d, entries of runs have layer < d *)
Lemma segs_layers d l :
  Forall (fun x : kv => layer (fst x) < d) (fst (segs d l)) /\
  Forall (fun p : pseg => d <= layer (pkey p) /\ Forall (fun x : kv => layer (fst x) < d) (pseg_of p)) (snd (segs d l)).
Proof.
  induction l as [|[k v] r [IH1 IH2]]; [split; constructor|].
  cbn [segs]. destruct (segs d r) as [s0 ps]. cbn [fst snd] in *.
  destruct (Nat.leb d (layer k)) eqn:E; cbn [fst snd].
  - apply Nat.leb_le in E. split; [constructor|]. constructor; [split; assumption|assumption].
  - apply Nat.leb_gt in E. split; [constructor; assumption|assumption].
Qed.

(** a list without pivots is one run *)
Lemma segs_no_pivot d l : Forall (fun x : kv => layer (fst x) < d) l -> segs d l = (l, []).
Proof.
  induction 1 as [|[k v] r H _ IH]; [reflexivity|].
  cbn [segs]. rewrite IH. cbn [fst] in H. destruct (Nat.leb d (layer k)) eqn:E; [apply Nat.leb_le in E; lia|reflexivity].
Qed.

(** at level 0 every entry is a pivot and every run is empty *)
Lemma segs_0 l : segs 0 l = ([], map (fun x : kv => (fst x, snd x, [])) l).
Proof.
  induction l as [|[k v] r IH]; [reflexivity|]. cbn [segs]. rewrite IH. reflexivity.
Qed.

(** * the canonical node and link *)
Definition mk_es (sub : seg -> link) (ps : list pseg) : list entry :=
  map (fun p : pseg => (pkey p, pval p, sub (pseg_of p))) ps.

Fixpoint bnode (d : nat) (l : seg) : node :=
  let sub : seg -> link :=
    match d with O => fun _ => LNil | S d' => fun s => link_of _ _ (bnode d' s) end in
  mk_dirty _ _ (sub (fst (segs d l))) (mk_es sub (snd (segs d l))).
Definition build (d : nat) (l : seg) : link := link_of _ _ (bnode d l).
(* the link to a run below a node at level d *)
Definition subl (d : nat) (s : seg) : link :=
  match d with O => LNil | S d' => build d' s end.

Lemma bnode_eq d l : bnode d l = mk_dirty _ _ (subl d (fst (segs d l))) (mk_es (subl d) (snd (segs d l))).
Proof. destruct d; reflexivity. Qed.

Lemma build_nil d : build d [] = LNil.
Proof.
  induction d as [|d IH]; [reflexivity|].
  unfold build. rewrite bnode_eq. cbn [segs fst snd mk_es map subl]. rewrite IH. reflexivity.
Qed.

Lemma subl_nil d : subl d [] = LNil.
Proof. destruct d; [reflexivity|]. apply build_nil. Qed.

Lemma build_cons_not_nil d x l : build d (x :: l) <> LNil.
Proof.
  revert x l. induction d as [|d IH]; intros x l.
  - unfold build. rewrite bnode_eq, segs_0. cbn. discriminate.
  - unfold build. rewrite bnode_eq. destruct (segs (S d) (x :: l)) as [s0 ps] eqn:E. cbn [fst snd].
    destruct ps as [|p ps]; cbn [mk_es map].
    + destruct s0 as [|y s0].
      * apply segs_nil_inv in E. discriminate.
      * cbn [subl]. unfold link_of, mk_dirty. cbn [is_empty].
        destruct (build d (y :: s0)) eqn:B; try discriminate. exfalso. exact (IH _ _ B).
    + unfold link_of, mk_dirty. cbn [is_empty]. destruct (subl (S d) s0); discriminate.
Qed.

Lemma build_is_nil d l : build d l = LNil <-> l = [].
Proof.
  split; [|intros ->; apply build_nil].
  destruct l as [|x l]; [reflexivity|]. intros H. exfalso. exact (build_cons_not_nil _ _ _ H).
Qed.

Lemma build_not_nil d l : l <> [] -> build d l = LPtr (bnode d l).
Proof.
  intros Hl. destruct (build d l) eqn:E.
  - apply build_is_nil in E. contradiction.
  - unfold build, link_of in E. destruct (is_empty _ _ (bnode d l)); inversion E; reflexivity.
  - unfold build, link_of in E. destruct (is_empty _ _ (bnode d l)); discriminate.
  - unfold build, link_of in E. destruct (is_empty _ _ (bnode d l)); discriminate.
Qed.

Lemma subl_runs_0 l : Forall (fun p : pseg => pseg_of p = []) (snd (segs 0 l)) /\ fst (segs 0 l) = [].
Proof. rewrite segs_0. cbn [fst snd]. split; [|reflexivity]. induction l; constructor; [reflexivity|assumption]. Qed.

(** the listing of the canonical tree is the list it was built from *)
Lemma to_list_mk_es (sub : seg -> link) ps :
  (forall p, In p ps -> to_list _ _ (sub (pseg_of p)) = pseg_of p) ->
  flat_map (fun e : entry => (ekey _ _ e, eval _ _ e) :: to_list _ _ (elink _ _ e)) (mk_es sub ps) =
  flat_map (fun p : pseg => (pkey p, pval p) :: pseg_of p) ps.
Proof.
  induction ps as [|p ps IH]; intros H; [reflexivity|].
  cbn [mk_es map flat_map ekey eval elink fst snd]. rewrite (H p (or_introl eq_refl)).
  f_equal. apply IH. intros q Hq. apply H. right. exact Hq.
Qed.

Lemma to_list_bnode d : forall l, to_list_n _ _ (bnode d l) = l.
Proof.
  induction d as [|d IH]; intros l.
  - rewrite bnode_eq, segs_0. cbn [fst snd]. unfold mk_dirty. rewrite to_list_n_eq. cbn [subl to_list app].
    induction l as [|[k v] r IHl]; [reflexivity|]. cbn [map mk_es flat_map ekey eval elink pkey pval pseg_of fst snd to_list app].
    f_equal. exact IHl.
  - rewrite bnode_eq. unfold mk_dirty. rewrite to_list_n_eq.
    assert (HS : forall s, to_list _ _ (subl (S d) s) = s).
    { intros s. cbn [subl]. destruct s as [|x s]; [rewrite build_nil; reflexivity|].
      rewrite build_not_nil by discriminate. cbn [to_list]. apply IH. }
    rewrite HS, to_list_mk_es by (intros; apply HS).
    apply (segs_flat (S d) l).
Qed.

Lemma to_list_build d l : to_list _ _ (build d l) = l.
Proof.
  destruct l as [|x l]; [rewrite build_nil; reflexivity|].
  rewrite build_not_nil by discriminate. apply to_list_bnode.
Qed.

(** node-level counterparts of last_seg / set_last_seg *)
Lemma last_link_mk_es (sub : seg -> link) s0 ps :
  last_link _ _ (sub s0) (mk_es sub ps) = sub (last_seg s0 ps).
Proof.
  unfold last_link, last_seg, mk_es. rewrite <- map_rev. destruct (rev ps) as [|p r]; reflexivity.
Qed.

Lemma set_last_link_mk_es (sub : seg -> link) s0 ps s :
  set_last_link _ _ (sub s0) (mk_es sub ps) (sub s) =
  let (a, b) := set_last_seg s0 ps s in (sub a, mk_es sub b).
Proof.
  unfold set_last_link, set_last_seg, mk_es. rewrite <- map_rev.
  destruct (rev ps) as [|[[k v] x] r]; cbn [map].
  - reflexivity.
  - cbn [pkey pval fst snd]. rewrite map_app, map_rev. reflexivity.
Qed.

Lemma mk_es_app (sub : seg -> link) a b : mk_es sub (a ++ b) = mk_es sub a ++ mk_es sub b.
Proof. apply map_app. Qed.

End BUILD.
