(** C07 in histories: in every reachable world, the node diff of any tree against any other tree of
    the same store (or against nothing) reports as added / removed exactly what separates the two
    versions' node sets - whatever their branch factors, heights and residency.  Lemma file. *)
From Coq Require Import List NArith ZArith Lia Bool Sorted.
From Mast Require Import Prim Key Tree KeyOrder Codec CodecRT NameLen Store Diff World Erase Build Spec Canon Links Level Inv Persist Hist Nav Reload DiffSpec DiffLinks DiffK WorldInv.
Import ListNotations.

Opaque name_of blake2b_256 b64url crc64 uint_layer_fuel.

Theorem world_diff_links ops tn told trn xn :
  conds empty_world ([], []) ops ->
  let w := wrun empty_world ops in let a := awrun2 ([], []) ops in
  aget (w_trees w) tn = Some trn -> aget (fst a) tn = Some xn -> same_home a tn told ->
  let o := match told with Some i => option_map t_m (aget (w_trees w) i) | None => None end in
  oks (diff _ _ kcmp bytes_eqb (layer_of (t_m trn)) o (t_m trn))
      (fun r => let NN := names_l key val (m_root _ _ (t_m trn)) in let NO := onames key val o in
                incl (ads key val r) NN /\ incl NN (ads key val r ++ NO) /\ incl (rms key val r) NO /\ incl NO (rms key val r ++ NN)).
Proof.
  intros C w a Et Ea Hh o.
  destruct (history_refines2 ops empty_world ([], []) winv2_empty C) as [_ Hinv]. fold w a in Hinv.
  pose proof Hinv as [HT _]. pose proof (HT tn) as HTn. rewrite Et, Ea in HTn. destruct HTn as (Cn & _ & Hall & _).
  destruct (old_side w a tn told xn trn Hinv Hh Ea Et) as (bfo & Ho & _). fold o in Ho.
  destruct (canon_root_fits key val kcmp (klayer (at_bf xn)) (at_bf xn) (t_m trn) (at_l xn) Cn) as [Fn _].
  assert (crefl : forall k, kcmp k k = Eq) by (intros k; apply kcmp_eq; reflexivity).
  apply (diff_links key val kcmp bytes_eqb (layer_of (t_m trn)) crefl bytes_eqb_refl
           (sto (at_fmt xn) (get_store w (at_s xn)) (at_kind xn)) (sto_hered _ _ _) (sto_fun _ _ _) o (t_m trn) Hall Fn).
  intros t E. destruct (Ho t E) as [Co Hao]. split; [exact Hao|].
  exact (proj1 (canon_root_fits key val kcmp (klayer bfo) bfo t (old_list a told) Co)).
Qed.
