(** C05, "every supported key type whose encoding round-trips": []byte keys (standard base64 in a
    JSON string) and mast.Key keys of the harness's shape ({"K":z,"L":l}) do.  Lemma file. *)
From Coq Require Import List NArith ZArith Lia Bool Arith ZifyN ZifyNat ZifyBool.
From Mast Require Import Prim Key KeyOrder Codec CodecRT CodecV1 DecRT.
Import ListNotations.
Local Open Scope N_scope.
Ltac Zify.zify_post_hook ::= Z.div_mod_to_equations.

(** * base64 *)
Definition idx64 : list N := map N.of_nat (seq 0 64).
Lemma in_idx64 i : i < 64 -> In i idx64.
Proof. intros H. unfold idx64. apply in_map_iff. exists (N.to_nat i). split; [apply N2Nat.id|]. apply in_seq. lia. Qed.
Lemma b64std_d_c i : i < 64 -> b64std_d (b64std_c i) = Some i /\ (b64std_c i =? 61) = false.
Proof.
  intros H. assert (A : forallb (fun i => match b64std_d (b64std_c i) with Some j => (j =? i) && negb (b64std_c i =? 61) | None => false end) idx64 = true) by (vm_compute; reflexivity).
  rewrite forallb_forall in A. specialize (A i (in_idx64 i H)). destruct (b64std_d (b64std_c i)) as [j|]; [|discriminate].
  apply andb_true_iff in A. destruct A as [A1 A2]. apply N.eqb_eq in A1. apply negb_true_iff in A2. subst. split; [reflexivity|exact A2].
Qed.

Definition bytes_ok (bs : bytes) : Prop := Forall (fun b => b < 256) bs.

Lemma b64std_rt_n : forall n bs, (length bs <= n)%nat -> bytes_ok bs -> b64std_dec (b64 b64std_c (Some 61) bs) = Some bs.
Proof.
  induction n as [|n IH]; intros bs Hlen Hok.
  - destruct bs; [reflexivity|cbn in Hlen; lia].
  - destruct bs as [|a [|b [|d r]]]; [reflexivity|..].
    + inversion Hok as [|? ? Ha _]; subst. cbn [b64 app].
      destruct (b64std_d_c (a / 4) ltac:(lia)) as [E0 _]. destruct (b64std_d_c (a mod 4 * 16) ltac:(lia)) as [E1 _].
      cbn [b64std_dec]. rewrite E0, E1. cbn [N.eqb Pos.eqb andb]. f_equal. f_equal. lia.
    + inversion Hok as [|? ? Ha Hok']; subst. inversion Hok' as [|? ? Hb _]; subst. cbn [b64 app].
      destruct (b64std_d_c (a / 4) ltac:(lia)) as [E0 _]. destruct (b64std_d_c (a mod 4 * 16 + b / 16) ltac:(lia)) as [E1 _].
      destruct (b64std_d_c (b mod 16 * 4) ltac:(lia)) as [E2 N2].
      cbn [b64std_dec]. rewrite E0, E1, N2, E2. cbn [andb]. change (61 =? 61) with true. cbv iota. f_equal. f_equal; [lia|f_equal; lia].
    + inversion Hok as [|? ? Ha Hok']; subst. inversion Hok' as [|? ? Hb Hok'']; subst. inversion Hok'' as [|? ? Hd Hr]; subst.
      cbn [b64]. 
      destruct (b64std_d_c (a / 4) ltac:(lia)) as [E0 _]. destruct (b64std_d_c (a mod 4 * 16 + b / 16) ltac:(lia)) as [E1 _].
      destruct (b64std_d_c (b mod 16 * 4 + d / 64) ltac:(lia)) as [E2 N2]. destruct (b64std_d_c (d mod 64) ltac:(lia)) as [E3 N3].
      cbn [b64std_dec]. rewrite E0, E1, N2, E2, N3, E3. cbn [andb].
      rewrite (IH r ltac:(cbn [length] in Hlen; lia) Hr). f_equal. f_equal; [lia|]. f_equal; [lia|]. f_equal. lia.
Qed.

Theorem b64std_roundtrip bs : bytes_ok bs -> b64std_dec (b64std bs) = Some bs.
Proof. intros H. exact (b64std_rt_n _ bs (Nat.le_refl _) H). Qed.

Theorem key_rt_bytes b : bytes_ok b -> kunmarshal 3 (kmarshal (KBytes b)) = Some (KBytes b).
Proof.
  intros H. cbn [kunmarshal kmarshal]. unfold unquote, quote. rewrite rev_app_distr. cbn [rev app]. rewrite rev_involutive.
  rewrite (b64std_roundtrip b H). reflexivity.
Qed.

(** * mast.Key keys: {"K":z,"L":l} *)
Lemma split_at_no_comma : forall ds rest, forallb digitb ds = true -> split_at 44 (ds ++ 44 :: rest) = (ds, rest).
Proof.
  induction ds as [|b r IH]; intros rest H; [reflexivity|]. cbn [forallb] in H. apply andb_true_iff in H. destruct H as [Hb Hr].
  cbn [app split_at]. assert (E : (b =? 44) = false).
  { unfold digitb in Hb. apply N.eqb_neq. intros ->. cbn in Hb. discriminate. }
  rewrite E, (IH rest Hr). reflexivity.
Qed.

Theorem key_rt_user z l : (Z.abs z < Z.of_N ten40)%Z -> N.of_nat l < ten40 -> kunmarshal 5 (kmarshal (KUser z l)) = Some (KUser z l).
Proof.
  intros Hz Hl. cbn [kunmarshal kmarshal]. unfold user_json. rewrite strip_prefix_app.
  change ([44; 34; 76; 34; 58] ++ dec_N (N.of_nat l) ++ [125]) with (44 :: ([34; 76; 34; 58] ++ dec_N (N.of_nat l) ++ [125])).
  rewrite (split_at_no_comma (dec_Z z) _ (dec_Z_digits z)). rewrite strip_prefix_app.
  rewrite rev_app_distr. cbn [rev app]. rewrite rev_involutive.
  rewrite (parse_dec_Z z Hz), (parse_dec_N _ Hl), Nat2N.id. reflexivity.
Qed.
