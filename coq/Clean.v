(** C13, last clause: a tree reports itself clean only if its contents equal the version it was
    loaded from or last persisted as.  Every change of contents leaves the root dirty (or the
    emptied flag set) until the next persist.  Lemma file. *)
From Coq Require Import List NArith ZArith Lia Bool Arith.
From Mast Require Import Prim Tree Erase Build Spec Canon Links Level Inv Cost.
Import ListNotations.

Section CLEAN.
Variables K V : Type.
Variable cmp : K -> K -> comparison.
Variable veq : V -> V -> bool.
Variable layer : K -> nat.
Notation node := (node K V).
Notation link := (link K V).
Notation mast := (mast K V).

Lemma okp_of {A} (m : M A) (Q : A -> Prop) : (forall t a, m = (t, Ok a) -> Q a) -> okp m Q.
Proof. intros H. exact H. Qed.

(* every node an insert or a delete hands back is a freshly built (dirty) one *)
Lemma ins_dirty : forall fuel cur target k v (n : node),
  okp (ins _ _ cmp veq fuel cur target k v n)
      (fun r => match r with INoop => True | IUpd n' => n_dirty _ _ n' = true | IIns n' => n_dirty _ _ n' = true end).
Proof.
  induction fuel as [|f IH]; intros cur target k v n; [apply okp_nofuel|]. cbn [ins]. apply okp_tick.
  destruct (span_lt _ _ cmp k (n_es _ _ n)) as [les rs].
  destruct (hits _ _ cmp k rs).
  - destruct (negb (Nat.eqb cur target)); [apply okp_panic|]. destruct rs as [|[[k' v'] l] rs']; [apply okp_panic|].
    destruct (veq v' v); apply okp_ret; [exact I|reflexivity].
  - destruct (Nat.eqb cur target).
    + apply (okp_bind _ _ (fun _ => True)); [intros ? ? _; exact I|]. intros [ll rl] _.
      destruct (set_last_link _ _ (n_l0 _ _ n) les ll) as [l0' les']. apply okp_ret. reflexivity.
    + apply (okp_bind _ _ (fun _ => True)); [intros ? ? _; exact I|]. intros c _.
      apply (okp_bind _ _ (fun _ => True)); [intros ? ? _; exact I|]. intros r _.
      destruct r as [|c'|c']; apply okp_ret; [exact I|..]; destruct (set_last_link _ _ (n_l0 _ _ n) les (link_of _ _ c')); reflexivity.
Qed.

Lemma del_dirty : forall fuel cur target k v (n : node),
  okp (del _ _ cmp veq fuel cur target k v n) (fun n' => n_dirty _ _ n' = true).
Proof.
  induction fuel as [|f IH]; intros cur target k v n; [apply okp_nofuel|]. cbn [del]. apply okp_tick.
  destruct (span_lt _ _ cmp k (n_es _ _ n)) as [les rs].
  destruct (hits _ _ cmp k rs).
  - destruct (negb (Nat.eqb cur target)); [apply okp_fail|]. destruct rs as [|[[k' v'] l] rs']; [apply okp_fail|].
    destruct (veq v' v); [|apply okp_fail].
    apply (okp_bind _ _ (fun _ => True)); [intros ? ? _; exact I|]. intros m _.
    destruct (set_last_link _ _ (n_l0 _ _ n) les m). apply okp_ret. reflexivity.
  - destruct (Nat.eqb cur target); [apply okp_fail|].
    destruct (last_link _ _ (n_l0 _ _ n) les) as [|c|h c|h]; [apply okp_fail|..];
      (apply (okp_bind _ _ (fun _ => True)); [intros ? ? _; exact I|]; intros c0 _;
       apply (okp_bind _ _ (fun _ => True)); [intros ? ? _; exact I|]; intros c' _;
       destruct (set_last_link _ _ (n_l0 _ _ n) les (link_of _ _ c')); apply okp_ret; reflexivity).
Qed.

Lemma root_of_node_dirty (m : mast) (n' : node) : n_dirty _ _ n' = true -> is_dirty _ _ (root_of_node _ _ m n') = true.
Proof. intros H. unfold root_of_node. destruct (is_empty _ _ n'); cbn [is_dirty set_root m_root m_emptied]; [reflexivity|exact H]. Qed.

Lemma grow_loop_dirty : forall fuel root0 (m : mast), is_dirty _ _ m = true ->
  okp (grow_loop _ _ layer fuel root0 m) (fun m' => is_dirty _ _ m' = true).
Proof.
  induction fuel as [|f IH]; intros root0 m Hd; [apply okp_nofuel|]. cbn [grow_loop].
  destruct (N.leb _ _); [|apply okp_ret; exact Hd].
  apply (okp_bind _ _ (fun _ => True)); [intros ? ? _; exact I|]. intros cg _. destruct cg; [|apply okp_ret; exact Hd].
  apply (okp_bind _ _ (fun m' => is_dirty _ _ m' = true)); [|intros m' Hd'; apply IH; exact Hd'].
  unfold grow. apply (okp_bind _ _ (fun _ => True)); [intros ? ? _; exact I|]. intros n _.
  apply (okp_bind _ _ (fun _ => True)); [intros ? ? _; exact I|]. intros _ _. apply okp_ret.
  cbn [is_dirty m_root]. unfold grow_node. destruct (grow_es _ _ layer _ _ _ _). reflexivity.
Qed.

(** an Insert that succeeds leaves the very same tree (no-op) or a tree that reports itself dirty *)
Theorem insert_dirty (m : mast) k v : okp (insert _ _ cmp veq layer m k v) (fun m' => m' = m \/ is_dirty _ _ m' = true).
Proof.
  unfold insert. apply okp_tick.
  apply (okp_bind _ _ (fun _ => True)); [intros ? ? _; exact I|]. intros n _.
  apply (okp_bind _ _ _ _ (ins_dirty _ _ _ _ _ n)). intros r Hr. destruct r as [|n'|n'].
  - apply okp_ret. left. reflexivity.
  - apply okp_tick. apply okp_ret. right. apply root_of_node_dirty. exact Hr.
  - apply okp_tick. apply (okp_bind _ _ _ _ (grow_loop_dirty _ n' _ (root_of_node_dirty m n' Hr))). intros m2 H2.
    apply okp_ret. right. exact H2.
Qed.

(* what the shrink loop hands back: its argument, or a tree whose root is a freshly built node *)
Lemma shrink_loop_shape : forall fuel (m : mast),
  okp (shrink_loop _ _ fuel m) (fun m' => m' = m \/ exists n', n_dirty _ _ n' = true /\ m_root _ _ m' = link_of _ _ n').
Proof.
  induction fuel as [|f IH]; intros m; [apply okp_nofuel|]. cbn [shrink_loop].
  destruct (_ && _)%bool; [|apply okp_ret; left; reflexivity].
  apply (okp_bind _ _ (fun m1 => exists n', n_dirty _ _ n' = true /\ m_root _ _ m1 = link_of _ _ n')).
  - unfold shrink. destruct (m_height _ _ m) as [|hh]; [apply okp_fail|]. destruct (m_root _ _ m) as [|rc|rh rc|rh]; [apply okp_fail|..];
      (apply (okp_bind _ _ (fun _ => True)); [intros ? ? _; exact I|]; intros n0 _;
       apply (okp_bind _ _ (fun n' : node => n_dirty _ _ n' = true));
         [unfold shrink_node; apply (okp_bind _ _ (fun _ => True)); [intros ? ? _; exact I|]; intros [p0 pes] _;
          apply (okp_bind _ _ (fun _ => True)); [intros ? ? _; exact I|]; intros rest _; apply okp_ret; reflexivity|];
       intros n' Hn'; destruct (1 <? m_shrink_below _ _ m)%N; apply okp_ret; exists n'; split; [exact Hn'|reflexivity|exact Hn'|reflexivity]).
  - intros m1 (n' & Hn' & Hr). intros t m' E. destruct (IH m1 t m' E) as [->|H]; right; [exists n'; split; assumption|exact H].
Qed.

End CLEAN.

Section CLEAN_DELETE.
Variables K V : Type.
Variable cmp : K -> K -> comparison.
Variable veq : V -> V -> bool.
Variable layer : K -> nat.
Hypothesis cmp_eq : forall a b, cmp a b = Eq <-> a = b.
Hypothesis cmp_antisym : forall a b, cmp b a = CompOpp (cmp a b).
Hypothesis cmp_trans : forall a b c, cmp a b = Lt -> cmp b c = Lt -> cmp a c = Lt.
Hypothesis veq_eq : forall x y, veq x y = true <-> x = y.
Hypothesis layer_bound : forall k, layer k < max_layer_fuel.

Lemma remove_length k (l : list (K * V)) v : lookup K V cmp k l = Some v -> length l = S (length (remove K V cmp k l)).
Proof.
  induction l as [|[k' v'] r IH]; cbn [lookup remove]; [discriminate|]. destruct (cmp k' k); intros H; cbn [length]; try (rewrite (IH H)); reflexivity.
Qed.

Lemma pow_N_pos bf h : (1 <= bf)%N -> (1 <= pow_N bf h)%N.
Proof. intros Hb. induction h as [|h IH]; cbn [pow_N]; [lia|]. nia. Qed.

Lemma single_height bf (m : mast K V) l : canon K V cmp layer bf m l -> length l = 1 -> m_height _ _ m = 0.
Proof.
  intros C Hl. destruct (cn_h _ _ _ _ _ _ _ C) as [[H|[_ Hb]] _]; [exact H|]. exfalso. unfold big in Hb. rewrite Hl in Hb.
  pose proof (pow_N_pos (m_bf _ _ m) (m_height _ _ m)) as Hp. pose proof (cn_bf _ _ _ _ _ _ _ C) as H2. lia.
Qed.

(** a Delete that succeeds leaves a tree that reports itself dirty *)
Theorem delete_dirty bf (m : mast K V) l k v : canon K V cmp layer bf m l -> lookup K V cmp k l = Some v ->
  okp (delete _ _ cmp veq layer m k v) (fun m' => is_dirty _ _ m' = true).
Proof.
  intros C Hlk t m' E.
  destruct (delete_ok K V cmp veq layer cmp_eq cmp_antisym cmp_trans veq_eq layer_bound bf m l k v C Hlk) as (t0 & m0 & E0 & C').
  rewrite E in E0. assert (m0 = m') by congruence. subst m0. clear E0.
  revert E. unfold delete. destruct (m_root _ _ m) as [|rc|rh rc|rh] eqn:Er; [discriminate|..].
  all: intros E; apply bind_inv in E; destruct E as (t1 & [] & t2 & _ & E & _).
  all: apply bind_inv in E; destruct E as (t3 & n & t4 & _ & E & _).
  all: apply bind_inv in E; destruct E as (t5 & n' & t6 & Ed & E & _).
  all: apply bind_inv in E; destruct E as (t7 & [] & t8 & _ & E & _).
  all: pose proof (del_dirty K V cmp veq _ _ _ _ _ _ t5 n' Ed) as Hn'.
  all: pose proof (root_of_node_dirty K V m n' Hn') as Hd1.
  all: set (m1 := root_of_node K V m n') in *.
  all: assert (Hd0 : is_dirty _ _ (set_size K V m1 (m_size K V m1 - 1)) = true) by exact Hd1.
  all: destruct (shrink_loop_shape K V max_layer_fuel _ t8 m' E) as [->|(n'' & Hn'' & Hr)]; [exact Hd0|].
  all: destruct (is_empty _ _ n'') eqn:Em; unfold link_of in Hr; rewrite Em in Hr; [|unfold is_dirty; rewrite Hr; exact Hn''].
  all: (* the tree became empty: it had one entry and height 0, so the loop did not run *)
       pose proof (root_nil_list K V cmp layer bf m' _ C' Hr) as Hl';
       pose proof (remove_length k l v Hlk) as Hlen; rewrite Hl' in Hlen; cbn [length] in Hlen;
       pose proof (single_height bf m l C Hlen) as Hh0.
  all: assert (Hh1 : m_height _ _ (set_size K V m1 (m_size K V m1 - 1)) = 0) by (unfold m1, root_of_node; destruct (is_empty _ _ n'); exact Hh0).
  all: unfold max_layer_fuel in E; cbn [shrink_loop] in E; rewrite Hh1 in E; cbn [Nat.ltb Nat.leb andb] in E; inversion E; subst; exact Hd0.
Qed.
End CLEAN_DELETE.
