(** Persistence: the content-addressed store, flush / MakeRoot (pub.go:262-347, store.go:178-269 as
    repaired by D7 and D10), LoadMast with checkRoot (pub.go:561-614, lib.go:660-690 as repaired by
    D16), instantiated at the key type of Key.v and opaque value bytes.  Model file. *)
From Coq Require Import List NArith ZArith Lia Bool.
From Mast Require Import Prim Key Tree Codec.
Import ListNotations.

Definition val := bytes.                       (* the marshaled value; DeepEqual = equality of encodings *)
Definition knode := node key val.
Definition klink := link key val.
Definition kmast := mast key val.

(** * the store: an association list, newest binding first; Store never rebinds an existing name
      to different bytes because names are hashes of the bytes *)
Definition store := list (name * bytes).
Fixpoint lookup (s : store) (h : name) : option bytes :=
  match s with
  | [] => None
  | (h', b) :: r => if bytes_eqb h' h then Some b else lookup r h
  end.
Definition put (s : store) (h : name) (b : bytes) : store :=
  match lookup s h with Some _ => s | None => (h, b) :: s end.
Fixpoint apply_stores (s : store) (t : list event) : store :=
  match t with
  | [] => s
  | EStore h b :: r => apply_stores (put s h b) r
  | _ :: r => apply_stores s r
  end.

Definition link_name (l : klink) : option name :=
  match l with LNil => None | LPtr _ => None | LHash h _ => Some h | LBad h => Some h end.

(** the bytes a node is written as: a function of entries and child names only *)
Definition node_bytes (f : nfmt) (n : knode) : bytes :=
  encode_node f (map (fun e => kmarshal (ekey _ _ e)) (n_es _ _ n))
                (map (fun e => eval _ _ e) (n_es _ _ n))
                (map link_name (n_links _ _ n)).

(** mastNode.store (store.go:178-269): clean nodes with a source are skipped; children first *)
Fixpoint store_node (fuel : nat) (f : nfmt) (n : knode) : M (name * knode) :=
  match fuel with
  | O => nofuel
  | S fu =>
    match n_dirty _ _ n, n_src _ _ n with
    | false, Some h => ret (h, n)
    | _, _ =>
      let st (l : klink) : M klink :=
        match l with
        | LPtr c => let* (h, c') := store_node fu f c in ret (LHash h c')
        | _ => ret l
        end in
      let* l0' := st (n_l0 _ _ n) in
      let* es' := (fix go (es : list (entry key val)) : M (list (entry key val)) :=
                     match es with
                     | [] => ret []
                     | (k, v, l) :: r => let* l' := st l in let* r' := go r in ret ((k, v, l') :: r')
                     end) (n_es _ _ n) in
      let b := node_bytes f (Node false None l0' es') in
      let h := name_of b in
      tick (EStore h b) >>
      ret (h, Node false (Some h) l0' es')
    end
  end.

(** flush (pub.go:262-347) *)
Definition flush (f : nfmt) (m : kmast) : M (option name * kmast) :=
  match m_root _ _ m with
  | LNil => ret (None, set_root _ _ m LNil false)
  | r =>
    let* n := load _ _ r in
    if is_empty _ _ n then ret (None, m)
    else let* (h, n') := store_node (S (S (m_height _ _ m))) f n in
         ret (Some h, set_root _ _ m (LHash h n') (m_emptied _ _ m))
  end.

(** MakeRoot (pub.go:618-634) *)
Definition make_root (f : nfmt) (m : kmast) : M (root * kmast) :=
  let* (l, m') := flush f m in
  ret (Root l (m_size _ _ m') (m_height _ _ m') (m_bf _ _ m') (fmt_string f), m').

(** * loading *)
Fixpoint unmarshal_keys (kind : N) (l : list bytes) : option (list key) :=
  match l with
  | [] => Some []
  | b :: r => match kunmarshal kind b, unmarshal_keys kind r with
              | Some k, Some ks => Some (k :: ks)
              | _, _ => None
              end
  end.

(** the tree a name resolves to in a store: the content of every reachable node is carried
    inline; what cannot be resolved or decoded (loadPersisted would return an error) is [LBad] *)
Fixpoint resolve (fuel : nat) (s : store) (f : nfmt) (kind : N) (h : name) : klink :=
  match fuel with
  | O => LBad h
  | S fu =>
    match lookup s h with
    | None => LBad h
    | Some b =>
      match decode_node f b with
      | None => LBad h
      | Some (kbs, vs, ls) =>
        match unmarshal_keys kind kbs with
        | None => LBad h
        | Some ks =>
          if negb (Nat.eqb (length vs) (length ks)) || negb (Nat.eqb (length ls) (S (length ks)))
          then LBad h
          else
            let rl (l : option name) : klink :=
              match l with None => LNil | Some c => resolve fu s f kind c end in
            match ls with
            | [] => LBad h
            | x :: rest =>
                LHash h (Node false (Some h) (rl x)
                              (map (fun t => (fst (fst t), snd (fst t), rl (snd t)))
                                   (combine (combine ks vs) rest)))
            end
        end
      end
    end
  end.


(** checkRoot (lib.go:660-690): strictly ascending keys, every layer >= height *)
Fixpoint check_keys (bf : N) (h : nat) (last : option key) (es : list (entry key val)) : M unit :=
  match es with
  | [] => ret tt
  | e :: r =>
      let k := ekey _ _ e in
      let* _ := (match last with
                 | None => ret tt
                 | Some p => tick ECmp >> match kcmp p k with Lt => ret tt | _ => fail end
                 end) in
      tick ELayer >>
      if Nat.ltb (klayer bf k) h then fail else check_keys bf h (Some k) r
  end.

(** LoadMast (pub.go:561-614) *)
Definition load_mast (s : store) (kind : N) (r : root) : M (nfmt * kmast) :=
  match parse_fmt (r_fmt r) with
  | None => fail
  | Some f =>
    let link : klink := match r_link r with
                        | None => LPtr (fresh_node _ _)
                        | Some h => resolve (S (r_height r)) s f kind h
                        end in
    let sb := pow_N (r_bf r) (r_height r) in
    let m := Mast link (r_height r) (r_size r) (r_bf r) (sb * r_bf r)%N sb false in
    let* n := load _ _ link in
    check_keys (r_bf r) (r_height r) None (n_es _ _ n) >>
    ret (f, m)
  end.

(** names reachable from a link *)
Fixpoint reach_n (fuel : nat) (n : knode) : list name :=
  match fuel with
  | O => []
  | S f =>
    let rl (l : klink) : list name :=
      match l with
      | LNil => [] | LBad h => [h]
      | LPtr c => reach_n f c
      | LHash h c => h :: reach_n f c
      end in
    rl (n_l0 _ _ n) ++ flat_map (fun e => rl (elink _ _ e)) (n_es _ _ n)
  end.
Definition reach (fuel : nat) (l : klink) : list name :=
  match l with
  | LNil => [] | LBad h => [h]
  | LPtr c => reach_n fuel c
  | LHash h c => h :: reach_n fuel c
  end.
