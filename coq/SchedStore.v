(** C03: the store a flush leaves behind does not depend on the order in which its writes complete.
    With content addressing (no two different byte strings under one name, [nocoll]) a name is bound
    after the writes exactly if it was bound before or is one of the writes, to those bytes - a
    statement about the SET of writes; hence any permutation of the same writes gives the same store
    (as a map), which is what lets the worker pool of Sched.v complete them in any order.  Lemma file. *)
From Coq Require Import List NArith Lia Bool Permutation.
From Mast Require Import Prim Key Tree KeyOrder Codec Store Persist Reload.
Import ListNotations.

Lemma lookup_put_same s h b : Store.lookup (put s h b) h = match Store.lookup s h with Some b0 => Some b0 | None => Some b end.
Proof.
  unfold put. destruct (Store.lookup s h) as [b0|] eqn:E; [exact E|]. cbn [Store.lookup].
  rewrite (proj2 (bytes_eqb_eq h h) eq_refl). reflexivity.
Qed.
Lemma lookup_put_other s h b h' : h <> h' -> Store.lookup (put s h b) h' = Store.lookup s h'.
Proof.
  intros Hne. unfold put. destruct (Store.lookup s h); [reflexivity|]. cbn [Store.lookup].
  destruct (bytes_eqb h h') eqn:E; [apply bytes_eqb_eq in E; contradiction|reflexivity].
Qed.

(** what is bound after a collision-free sequence of writes *)
Lemma apply_stores_lookup : forall t s h b, nocoll s t ->
  (Store.lookup (apply_stores s t) h = Some b <-> Store.lookup s h = Some b \/ In (EStore h b) t).
Proof.
  induction t as [|e r IH]; intros s h b Hn.
  - cbn. split; [intros H; left; exact H|intros [H|[]]; exact H].
  - destruct e as [x| | | |h0 b0]; cbn [apply_stores nocoll] in *;
      try (rewrite (IH s h b Hn); split; (intros [H|H]; [left; exact H|right; first [right; exact H|destruct H as [H|H]; [discriminate H|exact H]]])).
    destruct Hn as [Hc Hn]. rewrite (IH (put s h0 b0) h b Hn).
    destruct (list_eq_dec N.eq_dec h0 h) as [->|Hne].
    + rewrite lookup_put_same. split.
      * intros [H|H]; [|right; right; exact H]. destruct (Store.lookup s h) as [b1|] eqn:E.
        -- left. exact H.
        -- inversion H; subst. right. left. reflexivity.
      * intros [H|[H|H]].
        -- left. rewrite H. reflexivity.
        -- inversion H; subst. left. destruct Hc as [Hc|Hc]; rewrite Hc; reflexivity.
        -- right. exact H.
    + rewrite (lookup_put_other s h0 b0 h Hne). split.
      * intros [H|H]; [left; exact H|right; right; exact H].
      * intros [H|[H|H]]; [left; exact H|inversion H; subst; contradiction|right; exact H].
Qed.

(** collision freedom is a property of the set of writes too *)
Definition consistent (s : store) (t : list event) : Prop :=
  (forall h b, In (EStore h b) t -> Store.lookup s h = None \/ Store.lookup s h = Some b) /\
  (forall h b b', In (EStore h b) t -> In (EStore h b') t -> b = b').

Lemma nocoll_consistent : forall t s, nocoll s t <-> consistent s t.
Proof.
  induction t as [|e r IH]; intros s.
  - split; [intros _; split; intros; contradiction|intros _; exact I].
  - destruct e as [x| | | |h0 b0]; cbn [nocoll];
      try (rewrite IH; unfold consistent; split; intros [A B]; (split; [intros h b H; apply A; first [right; exact H|destruct H as [H|H]; [discriminate H|exact H]]|
            intros h b b' H1 H2; apply (B h b b'); first [right; assumption|destruct H1 as [H1|H1]; [discriminate H1|]; destruct H2 as [H2|H2]; [discriminate H2|]; assumption]])).
    rewrite IH. unfold consistent. split.
    + intros (Hc & A & B). split.
      * intros h b [H|H]; [inversion H; subst; exact Hc|].
        specialize (A h b H). destruct (list_eq_dec N.eq_dec h0 h) as [->|Hne].
        -- rewrite lookup_put_same in A. destruct (Store.lookup s h) as [b1|]; [destruct A as [A|A]; [discriminate|right; exact A]|left; reflexivity].
        -- rewrite (lookup_put_other s h0 b0 h Hne) in A. exact A.
      * intros h b b' [H1|H1] [H2|H2].
        -- inversion H1; inversion H2; subst. reflexivity.
        -- inversion H1; subst. specialize (A h b' H2). rewrite lookup_put_same in A.
           destruct Hc as [Hc|Hc]; rewrite Hc in A; destruct A as [A|A]; try discriminate; inversion A; reflexivity.
        -- inversion H2; subst. specialize (A h b H1). rewrite lookup_put_same in A.
           destruct Hc as [Hc|Hc]; rewrite Hc in A; destruct A as [A|A]; try discriminate; inversion A; reflexivity.
        -- exact (B h b b' H1 H2).
    + intros [A B]. split; [apply A; left; reflexivity|]. split.
      * intros h b H. destruct (list_eq_dec N.eq_dec h0 h) as [->|Hne].
        -- rewrite lookup_put_same. pose proof (B h b0 b (or_introl eq_refl) (or_intror H)) as E. subst b.
           destruct (A h b0 (or_introl eq_refl)) as [Hc|Hc]; rewrite Hc; right; reflexivity.
        -- rewrite (lookup_put_other s h0 b0 h Hne). apply A. right. exact H.
      * intros h b b' H1 H2. apply (B h b b'); right; assumption.
Qed.

Lemma consistent_perm s t t' : Permutation t t' -> consistent s t -> consistent s t'.
Proof.
  intros P [A B]. split.
  - intros h b H. apply A. apply (Permutation_in _ (Permutation_sym P)). exact H.
  - intros h b b' H1 H2. apply (B h b b'); apply (Permutation_in _ (Permutation_sym P)); assumption.
Qed.

(** the writes of a flush may complete in any order: same store *)
Theorem store_order_independent s t t' : Permutation t t' -> nocoll s t ->
  nocoll s t' /\ forall h, Store.lookup (apply_stores s t') h = Store.lookup (apply_stores s t) h.
Proof.
  intros P Hn. assert (Hn' : nocoll s t') by (apply nocoll_consistent; apply (consistent_perm s t t' P); apply nocoll_consistent; exact Hn).
  split; [exact Hn'|]. intros h.
  destruct (Store.lookup (apply_stores s t) h) as [b|] eqn:E.
  - apply (apply_stores_lookup t' s h b Hn'). apply (apply_stores_lookup t s h b Hn) in E.
    destruct E as [E|E]; [left; exact E|right; apply (Permutation_in _ P); exact E].
  - destruct (Store.lookup (apply_stores s t') h) as [b|] eqn:E'; [|reflexivity].
    apply (apply_stores_lookup t' s h b Hn') in E'. assert (X : Store.lookup (apply_stores s t) h = Some b).
    { apply (apply_stores_lookup t s h b Hn). destruct E' as [E'|E']; [left; exact E'|right; apply (Permutation_in _ (Permutation_sym P)); exact E']. }
    congruence.
Qed.

(** The collision-freedom side condition is exactly a statement about the hash: in a content-addressed
    store, with writes under the names of their bytes, [nocoll] can fail only if two DIFFERENT byte
    strings among those stored or written have the same BLAKE2b name. *)
From Mast Require Import Merkle.
Theorem nocoll_unless_hash_collision s t :
  addressed s -> Forall store_named t ->
  (forall b b', ((exists h, Store.lookup s h = Some b) \/ (exists h, In (EStore h b) t)) ->
                (exists h, In (EStore h b') t) -> name_of b = name_of b' -> b = b') ->
  nocoll s t.
Proof.
  intros Ha Hn Hinj. apply nocoll_consistent. rewrite Forall_forall in Hn. split.
  - intros h b Hin. destruct (Store.lookup s h) as [b0|] eqn:E; [|left; reflexivity]. right. f_equal.
    apply Hinj; [left; exists h; exact E|exists h; exact Hin|].
    rewrite <- (Ha h b0 E). exact (Hn _ Hin).
  - intros h b b' H1 H2. apply Hinj; [right; exists h; exact H1|exists h; exact H2|].
    rewrite <- (Hn _ H1). exact (Hn _ H2).
Qed.
