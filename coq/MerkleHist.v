(** C04 in histories: every store of every reachable world is content-addressed (every write of a
    persist is under the name of its bytes, whatever the outcome), so any two trees with equal entries
    and branch factor, reached by whatever histories in whatever stores, persist to the identical Root.
    Lemma file. *)
From Coq Require Import List NArith ZArith Lia Bool Sorted.
From Mast Require Import Prim Key Tree KeyOrder Codec CodecRT NameLen Store Diff World Erase Build Spec Canon Links Level Inv Persist Hist Reload Events Atomic Merkle WorldInv.
Import ListNotations.

Opaque name_of blake2b_256 b64url crc64 uint_layer_fuel.

(** every Store event of a persist carries the name of its bytes - unconditionally, any outcome *)
Lemma store_node_evn : forall fuel f (n : knode), evb store_named (store_node fuel f n).
Proof.
  induction fuel as [|fu IH]; intros f n; [apply evb_nofuel|]. destruct n as [d s l0 es]. cbn [store_node n_dirty n_src n_l0 n_es].
  assert (Hst : forall l : klink, evb store_named (match l with LPtr c => let* (h, c') := store_node fu f c in ret (LHash h c') | _ => ret l end)).
  { intros l. destruct l as [|c|h c|h]; try apply evb_ret. apply evb_bind; [apply IH|]. intros [h c']. apply evb_ret. }
  assert (Hbody : evb store_named (let* l0' := (match l0 with LPtr c => let* (h, c') := store_node fu f c in ret (LHash h c') | _ => ret l0 end) in
      let* es' := (fix go (es : list (entry key val)) : M (list (entry key val)) :=
                     match es with
                     | [] => ret []
                     | (k, v, l) :: r =>
                         let* l' := (match l with LPtr c => let* (h, c') := store_node fu f c in ret (LHash h c') | _ => ret l end) in
                         let* r' := go r in ret ((k, v, l') :: r')
                     end) es in
      let b := node_bytes f (Node false None l0' es') in
      let h := name_of b in
      tick (EStore h b) >> ret (h, Node false (Some h) l0' es'))).
  { apply evb_bind; [apply Hst|]. intros l0'. apply evb_bind.
    - induction es as [|[[k v] l] r IHr]; [apply evb_ret|]. apply evb_bind; [apply Hst|]. intros l'. apply evb_bind; [exact IHr|]. intros r'. apply evb_ret.
    - intros es'. cbn zeta. apply evb_tick; [reflexivity|apply evb_ret]. }
  destruct d; [exact Hbody|]. destruct s as [h|]; [apply evb_ret|exact Hbody].
Qed.

Lemma make_root_evn f (m : kmast) : evb store_named (make_root f m).
Proof.
  unfold make_root. apply evb_bind; [|intros [l m']; apply evb_ret]. unfold flush.
  assert (Hb : forall r : klink, evb store_named (let* n := load _ _ r in
             if is_empty _ _ n then ret (None, m)
             else let* (h, n') := store_node (S (S (m_height _ _ m))) f n in
                  ret (Some h, set_root _ _ m (LHash h n') (m_emptied _ _ m)))).
  { intros r. apply evb_bind.
    - destruct r; cbn [load]; unfold evb; cbn; repeat constructor.
    - intros n. destruct (is_empty _ _ n); [apply evb_ret|]. apply evb_bind; [apply store_node_evn|]. intros [h n']. apply evb_ret. }
  destruct (m_root _ _ m); [apply evb_ret|apply Hb..].
Qed.

(** * content-addressed worlds *)
Definition waddr (w : world) : Prop := forall s, addressed (get_store w s).

Lemma waddr_empty : waddr empty_world.
Proof. intros s. unfold get_store. cbn. apply addressed_empty. Qed.

Lemma waddr_stores w w' : w_stores w' = w_stores w -> waddr w -> waddr w'.
Proof. intros E H s. unfold get_store in *. rewrite E. apply H. Qed.

Lemma step_waddr w o : (match o with OCorrupt _ _ _ _ => False | _ => True end) -> waddr w -> waddr (fst (fst (step w o))).
Proof.
  intros Ho Hw. destruct o; try (apply (waddr_stores w); [apply step_stores; exact I|exact Hw]); [|contradiction].
  (* OMakeRoot *)
  cbn [step]. unfold with_tree. destruct (aget (w_trees w) t) as [x|]; [|exact Hw].
  pose proof (make_root_evn (c_fmt (t_cfg x)) (t_m x)) as Hn. unfold evb in Hn.
  destruct (make_root (c_fmt (t_cfg x)) (t_m x)) as [tr [[rt m']| | |]]; cbn [fst snd] in *; try exact Hw.
  intros s. change (get_store (set_rootrec (set_tree (set_store w (c_store (t_cfg x)) (apply_stores (get_store w (c_store (t_cfg x))) tr)) t (Tree (t_cfg x) m')) r rt) s)
    with (get_store (set_store w (c_store (t_cfg x)) (apply_stores (get_store w (c_store (t_cfg x))) tr)) s).
  destruct (N.eq_dec (c_store (t_cfg x)) s) as [<-|Hne].
  - rewrite get_store_set_same. apply addressed_apply; [apply Hw|exact Hn].
  - rewrite get_store_set_other by exact Hne. apply Hw.
Qed.

Lemma conds_no_corrupt : forall ops w a, conds w a ops -> Forall (fun o => match o with OCorrupt _ _ _ _ => False | _ => True end) ops.
Proof.
  induction ops as [|o r IH]; intros w a H; [constructor|]. cbn [conds] in H. destruct H as (Hs & _ & Hr). constructor; [|exact (IH _ _ Hr)].
  destruct o; try exact I. cbn [sup] in Hs. contradiction.
Qed.

Lemma wrun_waddr : forall ops w, Forall (fun o => match o with OCorrupt _ _ _ _ => False | _ => True end) ops -> waddr w -> waddr (wrun w ops).
Proof.
  induction ops as [|o r IH]; intros w H Hw; [exact Hw|]. inversion H; subst. cbn [wrun]. apply IH; [assumption|]. apply step_waddr; assumption.
Qed.

(** Any two trees of any two reachable worlds (histories with inserts, deletes, clones, persists and
    reloads through any stores, in either node format) that hold the same entries with the same branch
    factor and node format persist to the IDENTICAL Root: link name, size, height, branch factor, format. *)
Theorem same_entries_same_root ops1 ops2 t1 t2 tr1 tr2 x1 x2 ta rta ma tb rtb mb :
  conds empty_world ([], []) ops1 -> conds empty_world ([], []) ops2 ->
  aget (w_trees (wrun empty_world ops1)) t1 = Some tr1 -> aget (fst (awrun2 ([], []) ops1)) t1 = Some x1 ->
  aget (w_trees (wrun empty_world ops2)) t2 = Some tr2 -> aget (fst (awrun2 ([], []) ops2)) t2 = Some x2 ->
  at_bf x1 = at_bf x2 -> at_l x1 = at_l x2 -> at_fmt x1 = at_fmt x2 ->
  make_root (c_fmt (t_cfg tr1)) (t_m tr1) = (ta, Ok (rta, ma)) ->
  make_root (c_fmt (t_cfg tr2)) (t_m tr2) = (tb, Ok (rtb, mb)) -> rta = rtb.
Proof.
  intros C1 C2 E1 A1 E2 A2 Hb Hl Hf M1 M2.
  destruct (history_refines2 ops1 empty_world ([], []) winv2_empty C1) as [_ [HT1 _]].
  destruct (history_refines2 ops2 empty_world ([], []) winv2_empty C2) as [_ [HT2 _]].
  specialize (HT1 t1). rewrite E1, A1 in HT1. destruct HT1 as (K1 & G1 & R1 & _).
  specialize (HT2 t2). rewrite E2, A2 in HT2. destruct HT2 as (K2 & G2 & R2 & _).
  rewrite G1 in M1. rewrite G2 in M2. cbn [c_fmt] in M1, M2. rewrite Hb, Hl in K1. rewrite Hf in M1, R1.
  pose proof (wrun_waddr ops1 empty_world (conds_no_corrupt _ _ _ C1) waddr_empty (at_s x1)) as W1.
  pose proof (wrun_waddr ops2 empty_world (conds_no_corrupt _ _ _ C2) waddr_empty (at_s x2)) as W2.
  exact (same_contents_same_root (at_fmt x2) _ _ _ _ (at_bf x2) _ _ (at_l x2) _ _ _ _ _ _ W1 W2 K1 K2 R1 R2 M1 M2).
Qed.
