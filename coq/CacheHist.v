(** Histories through node caches: a world-wide cache (per store, node format and key kind: a partial
    map from names to nodes) that LoadMast consults first.  Whatever the cache holds at each step - shared
    between all trees, freshly filled, partly or wholly evicted, chosen by any policy - as long as it is
    coherent with the stores, every step of a history does exactly what it does without a cache; and a
    coherent cache stays coherent through every step (stores only grow).  Lemma file. *)
From Coq Require Import List NArith ZArith Lia Bool Sorted.
From Mast Require Import Prim Key Tree KeyOrder Codec CodecRT NameLen Store Diff World Erase Build Spec Canon Links Level Inv Persist Hist Reload DiffSpec DiffK RootRT WorldInv Atomic Cache.
Import ListNotations.

Definition wcache := N -> nfmt -> N -> cache.
Definition wcoherent (wc : wcache) (w : world) : Prop := forall s f kind, coherent f kind (wc s f kind) (get_store w s).

(** LoadMast through the world's cache *)
Definition load_mast_w (wc : wcache) (sid : N) (s : store) (kind : N) (r : root) : M (nfmt * kmast) :=
  match parse_fmt (r_fmt r) with
  | None => fail
  | Some f => load_mast_c (wc sid f kind) s kind r
  end.

(** one step of a history with a cache: only LoadMast consults it (every other operation works on
    trees that are already resolved) *)
Definition step_c (wc : wcache) (w : world) (o : op) : world * obs * list event :=
  match o with
  | OLoad r t s kind =>
      match aget (w_roots w) r with
      | Some rt =>
          match load_mast_w wc s (get_store w s) kind (root_via_json rt) with
          | (tr, Ok (fm, m)) => (set_tree w t (Tree (TCfg fm kind s) m), ObOk, tr)
          | (tr, rr) => (w, fail_obs rr, tr)
          end
      | None => (w, ObFail 9, [])
      end
  | _ => step w o
  end.

Lemma load_mast_w_transparent wc sid f st kind bf l rt :
  good_root f st kind bf l rt -> coherent f kind (wc sid f kind) st -> load_mast_w wc sid st kind rt = load_mast st kind rt.
Proof.
  intros Hg Hc. unfold load_mast_w. pose proof Hg as (A & _). rewrite A, parse_fmt_string.
  exact (load_mast_c_transparent f (wc sid f kind) st kind bf l rt Hg Hc).
Qed.

(** with a coherent cache a step is the step without a cache *)
Theorem step_c_transparent wc w a o : winv2 w a -> sup a o -> wcoherent wc w -> step_c wc w o = step w o.
Proof.
  intros [_ HR] Hs Hc. destruct o; try reflexivity. cbn [step_c step].
  specialize (HR r). destruct (aget (w_roots w) r) as [rt|] eqn:Er; [|reflexivity].
  cbn [sup] in Hs. destruct (aget (snd a) r) as [x|] eqn:Ea; [|destruct HR].
  destruct Hs as (<- & <- & Hbf). destruct HR as [Hg Hlo].
  rewrite (root_via_json_id rt (good_root_wf _ _ _ _ _ _ Hg Hlo Hbf)).
  rewrite (load_mast_w_transparent wc (at_s x) (at_fmt x) _ (at_kind x) (at_bf x) (at_l x) rt Hg (Hc _ _ _)). reflexivity.
Qed.

(** stores only grow along a history, so a coherent cache stays coherent *)
Lemma step_grows w o : (match o with OCorrupt _ _ _ _ => False | _ => True end) -> grows w (fst (fst (step w o))).
Proof.
  intros Ho. destruct o; try (intros s0; unfold get_store; rewrite step_stores by exact I; apply extends_refl); [|destruct Ho].
  cbn [step]. unfold with_tree. destruct (aget (w_trees w) t) as [x|]; [|apply grows_refl].
  destruct (make_root (c_fmt (t_cfg x)) (t_m x)) as [tr [[rt m']| | |]]; cbn [fst]; try apply grows_refl.
  intros s0. change (get_store (set_rootrec (set_tree (set_store w (c_store (t_cfg x)) (apply_stores (get_store w (c_store (t_cfg x))) tr)) t (Tree (t_cfg x) m')) r rt) s0)
    with (get_store (set_store w (c_store (t_cfg x)) (apply_stores (get_store w (c_store (t_cfg x))) tr)) s0).
  apply grows_set_store.
Qed.

Theorem step_keeps_coherence wc w o : (match o with OCorrupt _ _ _ _ => False | _ => True end) ->
  wcoherent wc w -> wcoherent wc (fst (fst (step w o))).
Proof. intros Ho Hc s f kind. exact (coherent_grows f kind _ _ _ (step_grows w o Ho s) (Hc s f kind)). Qed.

(** a history where the cache at each step is whatever a policy makes of it (any function of the step
    index: shared, refilled, evicted ...), provided it is coherent when the step runs *)
Fixpoint run_c (pol : nat -> wcache) (i : nat) (w : world) (ops : list op) : list (obs * list event) :=
  match ops with
  | [] => []
  | o :: r => let '(w', ob, tr) := step_c (pol i) w o in (ob, tr) :: run_c pol (S i) w' r
  end.
Fixpoint cohs (pol : nat -> wcache) (i : nat) (w : world) (ops : list op) : Prop :=
  match ops with
  | [] => True
  | o :: r => wcoherent (pol i) w /\ cohs pol (S i) (fst (fst (step w o))) r
  end.

Theorem history_through_caches : forall ops pol i w a,
  winv2 w a -> conds w a ops -> cohs pol i w ops -> run_c pol i w ops = run w ops.
Proof.
  induction ops as [|o r IH]; intros pol i w a Hinv Hc Hk; [reflexivity|].
  cbn [conds] in Hc. destruct Hc as (Hs & Hn & Hr). cbn [cohs] in Hk. destruct Hk as [Hk1 Hk2].
  cbn [run_c run]. rewrite (step_c_transparent (pol i) w a o Hinv Hs Hk1).
  pose proof (step_refines2 w a o Hinv Hs Hn) as Hst.
  destruct (step w o) as [[w' ob] tr]. destruct (astep2 a o) as [a' aob]. destruct Hst as [Hinv' _]. cbn [fst] in *.
  f_equal. exact (IH pol (S i) w' a' Hinv' Hr Hk2).
Qed.

(** in particular: one cache fixed for the whole history (e.g. filled beforehand with any nodes of the
    stores and never touched), if it is coherent at the start *)
Corollary history_through_a_fixed_cache : forall ops wc w a,
  winv2 w a -> conds w a ops -> wcoherent wc w -> run_c (fun _ => wc) 0 w ops = run w ops.
Proof.
  intros ops wc w a Hinv Hc Hk. apply (history_through_caches ops (fun _ => wc) 0 w a Hinv Hc).
  assert (G : forall ops w a i, winv2 w a -> conds w a ops -> wcoherent wc w -> cohs (fun _ => wc) i w ops).
  { clear. induction ops as [|o r IH]; intros w a i Hinv Hc Hk; [exact I|]. cbn [conds] in Hc. destruct Hc as (Hs & Hn & Hr).
    cbn [cohs]. split; [exact Hk|].
    pose proof (step_refines2 w a o Hinv Hs Hn) as Hst.
    assert (Hno : match o with OCorrupt _ _ _ _ => False | _ => True end) by (destruct o; try exact I; cbn [sup] in Hs; contradiction).
    pose proof (step_keeps_coherence wc w o Hno Hk) as Hk'.
    destruct (step w o) as [[w' ob] tr]. destruct (astep2 a o) as [a' aob]. destruct Hst as [Hinv' _]. cbn [fst] in *.
    exact (IH w' a' (S i) Hinv' Hr Hk'). }
  exact (G ops w a 0 Hinv Hc Hk).
Qed.

(** * a concrete cache discipline: fill on load and on commit, evict at will
    After a LoadMast and after a MakeRoot the top node of the tree concerned is put into the cache
    under (store, format, key kind, name) - what loadPersisted and the commit step of flush do - and
    then anything may be evicted ([ev]: any function of the step index and the name).  No coherence
    hypothesis is needed any more: starting from a coherent (e.g. empty) cache, the discipline keeps
    the cache coherent by itself, and the history is the cache-less history. *)
Definition wadd (wc : wcache) (s : N) (f : nfmt) (kind : N) (h : name) (n : knode) : wcache :=
  fun s' f' kind' => if (N.eqb s' s && match f', f with FBin, FBin | FV1, FV1 => true | _, _ => false end && N.eqb kind' kind)%bool
                     then cadd (wc s' f' kind') h n else wc s' f' kind'.
Definition wevict (wc : wcache) (drop : name -> bool) : wcache := fun s f kind => cevict (wc s f kind) drop.

Definition fill (w' : world) (o : op) (wc : wcache) : wcache :=
  let top (t : N) :=
    match aget (w_trees w') t with
    | Some tr => match m_root _ _ (t_m tr) with
                 | LHash h n => wadd wc (c_store (t_cfg tr)) (c_fmt (t_cfg tr)) (c_kind (t_cfg tr)) h n
                 | _ => wc
                 end
    | None => wc
    end in
  match o with
  | OLoad _ t _ _ => top t
  | OMakeRoot t _ => top t
  | _ => wc
  end.

Fixpoint run_d (ev : nat -> name -> bool) (i : nat) (wc : wcache) (w : world) (ops : list op) : list (obs * list event) :=
  match ops with
  | [] => []
  | o :: r => let '(w', ob, tr) := step_c wc w o in (ob, tr) :: run_d ev (S i) (wevict (fill w' o wc) (ev i)) w' r
  end.

Lemma wcoherent_wadd wc w s f kind h n : wcoherent wc w -> sto f (get_store w s) kind h n -> wcoherent (wadd wc s f kind h n) w.
Proof.
  intros Hc Hs s' f' kind'. unfold wadd.
  destruct (N.eqb s' s) eqn:E1; cbn [andb]; [|apply Hc].
  destruct (match f', f with FBin, FBin | FV1, FV1 => true | _, _ => false end) eqn:E2; cbn [andb]; [|apply Hc].
  destruct (N.eqb kind' kind) eqn:E3; [|apply Hc].
  apply N.eqb_eq in E1. apply N.eqb_eq in E3. subst s' kind'.
  assert (f' = f) by (destruct f', f; try discriminate; reflexivity). subst f'.
  apply coherent_add; [apply Hc|exact Hs].
Qed.
Lemma wcoherent_wevict wc w drop : wcoherent wc w -> wcoherent (wevict wc drop) w.
Proof. intros Hc s f kind. apply coherent_evict. apply Hc. Qed.

Lemma fill_coherent w' a' o wc : winv2 w' a' -> wcoherent wc w' -> wcoherent (fill w' o wc) w'.
Proof.
  intros [HT _] Hc.
  assert (Htop : forall t, wcoherent (match aget (w_trees w') t with
                  | Some tr => match m_root _ _ (t_m tr) with
                               | LHash h n => wadd wc (c_store (t_cfg tr)) (c_fmt (t_cfg tr)) (c_kind (t_cfg tr)) h n
                               | _ => wc end
                  | None => wc end) w').
  { intros t. specialize (HT t). destruct (aget (w_trees w') t) as [tr|]; [|exact Hc].
    destruct (aget (fst a') t) as [x|]; [|contradiction]. destruct HT as (_ & Hcfg & Hall & _).
    destruct (m_root _ _ (t_m tr)) as [|c|h n|h] eqn:Er; try exact Hc.
    rewrite Hcfg. cbn [c_store c_fmt c_kind]. apply wcoherent_wadd; [exact Hc|].
    unfold root_allh in Hall. rewrite Er in Hall. inversion Hall; subst. assumption. }
  destruct o; try exact Hc; apply Htop.
Qed.

Theorem history_with_fill_and_evict : forall ops ev i wc w a,
  winv2 w a -> conds w a ops -> wcoherent wc w -> run_d ev i wc w ops = run w ops.
Proof.
  induction ops as [|o r IH]; intros ev i wc w a Hinv Hc Hk; [reflexivity|].
  cbn [conds] in Hc. destruct Hc as (Hs & Hn & Hr).
  cbn [run_d run]. rewrite (step_c_transparent wc w a o Hinv Hs Hk).
  pose proof (step_refines2 w a o Hinv Hs Hn) as Hst.
  assert (Hno : match o with OCorrupt _ _ _ _ => False | _ => True end) by (destruct o; try exact I; cbn [sup] in Hs; contradiction).
  pose proof (step_keeps_coherence wc w o Hno Hk) as Hk'.
  destruct (step w o) as [[w' ob] tr]. destruct (astep2 a o) as [a' aob]. destruct Hst as [Hinv' _]. cbn [fst] in *.
  f_equal. apply (IH ev (S i) _ w' a' Hinv' Hr).
  apply wcoherent_wevict. exact (fill_coherent w' a' o wc Hinv' Hk').
Qed.

(** from the empty world with an empty cache *)
Corollary history_with_cache_from_scratch ops ev :
  conds empty_world ([], []) ops -> run_d ev 0 (fun _ _ _ => cempty) empty_world ops = run empty_world ops.
Proof.
  intros C. apply (history_with_fill_and_evict ops ev 0 _ empty_world ([], []) winv2_empty C).
  intros s f kind. apply coherent_empty.
Qed.
