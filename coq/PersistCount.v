(** C13: what a persist writes.  The Store events of persisting a node are exactly the in-memory
    nodes that are not clean copies of stored nodes (one event each, nothing below a clean sourced
    node or a hash link is visited), and every name written is a name the returned root reaches:
    no garbage.  Lemma file. *)
From Coq Require Import List NArith ZArith Lia Bool Arith.
From Mast Require Import Prim Key Tree KeyOrder Codec Store Diff Erase Build Spec Canon Links Level Inv Persist Hist Reload DiffSpec DiffLinks CostW.
Import ListNotations.

Opaque name_of blake2b_256 b64url crc64 uint_layer_fuel.

Definition stored (t : list event) : list name :=
  flat_map (fun e => match e with EStore h _ => [h] | _ => [] end) t.
Lemma stored_app a b : stored (a ++ b) = stored a ++ stored b.
Proof. unfold stored. apply flat_map_app. Qed.

(* the nodes a persist has to write: in-memory nodes that are not clean copies of a stored node *)
Definition skip (n : knode) : bool := negb (n_dirty _ _ n) && match n_src _ _ n with Some _ => true | None => false end.
Fixpoint dcount (n : knode) : nat :=
  match n with
  | Node d s l0 es =>
      if (negb d && match s with Some _ => true | None => false end)%bool then 0
      else S ((match l0 with LPtr c => dcount c | _ => 0 end) +
              (fix go (es : list (entry key val)) : nat :=
                 match es with [] => 0 | (k, v, l) :: r => (match l with LPtr c => dcount c | _ => 0 end) + go r end) es)
  end.
Definition dcount_l (l : klink) : nat := match l with LPtr c => dcount c | _ => 0 end.

Lemma dcount_eq d s l0 (es : list (entry key val)) :
  dcount (Node d s l0 es) =
  if skip (Node d s l0 es) then 0 else S (dcount_l l0 + list_sum (map (fun e => dcount_l (elink _ _ e)) es)).
Proof.
  unfold skip. cbn [dcount n_dirty n_src]. destruct (negb d && match s with Some _ => true | None => false end)%bool; [reflexivity|].
  f_equal. f_equal. induction es as [|[[k v] l] r IH]; [reflexivity|]. cbn [map]. unfold list_sum in *. cbn [fold_right elink snd]. rewrite <- IH. reflexivity.
Qed.

Notation names_nk := (names_n key val).
Notation names_lk := (names_l key val).

Definition spost (n : knode) (t : list event) (r : name * knode) : Prop :=
  length (stored t) = dcount n /\ incl (stored t) (names_lk (LHash (fst r) (snd r))).

Definition st (fu : nat) (f : nfmt) (l : klink) : M klink :=
  match l with LPtr c => let* (h, c') := store_node fu f c in ret (LHash h c') | _ => ret l end.

Theorem store_node_count : forall fuel f (n : knode), okt (store_node fuel f n) (spost n).
Proof.
  induction fuel as [|fu IH]; intros f n; [intros t a E; discriminate E|].
  destruct n as [d s l0 es]. cbn [store_node n_dirty n_src n_l0 n_es].
  assert (Hst : forall l : klink, okt (st fu f l) (fun t l' => length (stored t) = dcount_l l /\ incl (stored t) (names_lk l'))).
  { intros l. destruct l as [|c|h c|h]; cbn [st dcount_l]; try (apply okt_ret; split; [reflexivity|intros x []]).
    apply (okt_bind _ _ _ _ (IH f c)). intros t1 [h c'] [Hc Hi]. apply okt_ret. rewrite app_nil_r. split; [exact Hc|exact Hi]. }
  assert (Hes : forall es0 : list (entry key val),
            okt ((fix go (es : list (entry key val)) : M (list (entry key val)) :=
                    match es with
                    | [] => ret []
                    | (k, v, l) :: r => let* l' := st fu f l in let* r' := go r in ret ((k, v, l') :: r')
                    end) es0)
                (fun t es' => length (stored t) = list_sum (map (fun e => dcount_l (elink _ _ e)) es0) /\
                              incl (stored t) (flat_map (fun e : entry key val => names_lk (elink _ _ e)) es'))).
  { induction es0 as [|[[k v] l] r IHr]; [apply okt_ret; split; [reflexivity|intros x []]|].
    apply (okt_bind _ _ _ _ (Hst l)). intros t1 l' [Hc1 Hi1].
    apply (okt_bind _ _ _ _ IHr). intros t2 r' [Hc2 Hi2]. apply okt_ret. rewrite app_nil_r, stored_app, app_length.
    cbn [map elink snd flat_map]. unfold list_sum in *. cbn [fold_right]. split; [lia|].
    apply incl_app; [apply incl_appl; exact Hi1|apply incl_appr; exact Hi2]. }
  assert (Hbody : okt (let* l0' := st fu f l0 in
      let* es' := (fix go (es : list (entry key val)) : M (list (entry key val)) :=
                     match es with
                     | [] => ret []
                     | (k, v, l) :: r => let* l' := st fu f l in let* r' := go r in ret ((k, v, l') :: r')
                     end) es in
      let b := node_bytes f (Node false None l0' es') in
      let h := name_of b in
      tick (EStore h b) >> ret (h, Node false (Some h) l0' es'))
      (fun t r => length (stored t) = S (dcount_l l0 + list_sum (map (fun e => dcount_l (elink _ _ e)) es)) /\
                  incl (stored t) (names_lk (LHash (fst r) (snd r))))).
  { apply (okt_bind _ _ _ _ (Hst l0)). intros t1 l0' [Hc0 Hi0].
    apply (okt_bind _ _ _ _ (Hes es)). intros t2 es' [Hc1 Hi1]. cbn zeta.
    apply (okt_bind _ _ _ _ (okt_tick _)). intros t3 [] ->. apply okt_ret. rewrite app_nil_r, !stored_app, !app_length. cbn [stored flat_map app length fst snd].
    split; [lia|]. cbn [names_l]. rewrite names_n_eq. intros x Hx. apply in_app_or in Hx. destruct Hx as [Hx|Hx].
    - right. apply in_or_app. left. exact (Hi0 x Hx).
    - apply in_app_or in Hx. destruct Hx as [Hx|Hx]; [right; apply in_or_app; right; exact (Hi1 x Hx)|]. destruct Hx as [<-|[]]. left. reflexivity. }
  unfold spost. rewrite dcount_eq. unfold skip. cbn [n_dirty n_src].
  destruct d; cbn [negb andb]; [exact Hbody|]. destruct s as [h|]; [|exact Hbody].
  apply okt_ret. split; [reflexivity|intros x []].
Qed.

(** * the 2*height+2 bound: one Insert into a freshly loaded version, then a persist *)
Section FMT.
(* the node format of the store the tree was loaded from *)
Variable fmt : nfmt.
Local Notation clone_allh := (Reload.clone_allh fmt) (only parsing).
Local Notation cycles_ok := (Reload.cycles_ok fmt) (only parsing).
Local Notation delete_allh := (Reload.delete_allh fmt) (only parsing).
Local Notation entry_ok := (Reload.entry_ok fmt) (only parsing).
Local Notation first_node_allh := (Reload.first_node_allh fmt) (only parsing).
Local Notation flush_nonnil := (Reload.flush_nonnil fmt) (only parsing).
Local Notation grow_allh := (Reload.grow_allh fmt) (only parsing).
Local Notation grow_loop_allh := (Reload.grow_loop_allh fmt) (only parsing).
Local Notation insert_allh := (Reload.insert_allh fmt) (only parsing).
Local Notation kv_ok := (Reload.kv_ok fmt) (only parsing).
Local Notation list_ok := (Reload.list_ok fmt) (only parsing).
Local Notation list_ok_incl := (Reload.list_ok_incl fmt) (only parsing).
Local Notation list_ok_remove := (Reload.list_ok_remove fmt) (only parsing).
Local Notation load_canon := (Reload.load_canon fmt) (only parsing).
Local Notation load_canon_empty := (Reload.load_canon_empty fmt) (only parsing).
Local Notation name_ok := (Reload.name_ok fmt) (only parsing).
Local Notation pcond := (Reload.pcond fmt) (only parsing).
Local Notation pconds := (Reload.pconds fmt) (only parsing).
Local Notation persist_then_load := (Reload.persist_then_load fmt) (only parsing).
Local Notation pinv := (Reload.pinv fmt) (only parsing).
Local Notation prun := (Reload.prun fmt) (only parsing).
Local Notation pstep := (Reload.pstep fmt) (only parsing).
Local Notation pstep_ok := (Reload.pstep_ok fmt) (only parsing).
Local Notation resolve_sto := (Reload.resolve_sto fmt) (only parsing).
Local Notation root_allh := (Reload.root_allh fmt) (only parsing).
Local Notation root_allh_mono := (Reload.root_allh_mono fmt) (only parsing).
Local Notation root_allh_of_node := (Reload.root_allh_of_node fmt) (only parsing).
Local Notation root_node_allh := (Reload.root_node_allh fmt) (only parsing).
Local Notation set_size_allh := (Reload.set_size_allh fmt) (only parsing).
Local Notation shrink_allh := (Reload.shrink_allh fmt) (only parsing).
Local Notation shrink_loop_allh := (Reload.shrink_loop_allh fmt) (only parsing).
Local Notation stl := (Reload.stl fmt) (only parsing).
Local Notation sto := (Reload.sto fmt) (only parsing).
Local Notation sto_hered := (Reload.sto_hered fmt) (only parsing).
Local Notation sto_l := (Reload.sto_l fmt) (only parsing).
Local Notation sto_l_mono := (Reload.sto_l_mono fmt) (only parsing).
Local Notation sto_mono := (Reload.sto_mono fmt) (only parsing).
Local Notation sto_mono' := (Reload.sto_mono' fmt) (only parsing).
Local Notation store_node_sto := (Reload.store_node_sto fmt) (only parsing).

Lemma dcount_le_pcount : forall n : knode, dcount n <= pcount key val n.
Proof.
  induction n as [d s l0 es H0 Hes] using node_ind'. rewrite dcount_eq, pcount_eq. destruct (skip (Node d s l0 es)); [lia|].
  assert (Hl : forall l : klink, PL key val (fun c => dcount c <= pcount key val c) l -> dcount_l l <= pcount_l key val l).
  { intros l Hp. destruct l as [|c|h c|h]; cbn [dcount_l pcount_l PL] in *; try lia. }
  pose proof (Hl l0 H0) as Hl0.
  assert (Hs : list_sum (map (fun e => dcount_l (elink _ _ e)) es) <= psum key val es).
  { unfold psum. clear -Hes Hl. induction Hes as [|e r He _ IH]; [cbn; lia|]. cbn [map]. unfold list_sum in *. cbn [fold_right]. pose proof (Hl _ He). lia. }
  lia.
Qed.

Lemma sto_flat s kind h (c : knode) : sto s kind h c -> pcount key val c = 1.
Proof.
  intros H. inversion H as [h' l0 es _ H0 Hes _ _ _]; subst. rewrite pcount_eq.
  assert (Hl : forall l : klink, sto_l s kind l -> pcount_l key val l = 0) by (intros l Hl; inversion Hl; reflexivity).
  rewrite (Hl l0 H0). assert (Hs : psum key val es = 0).
  { unfold psum. clear -Hes Hl. induction Hes as [|e r He _ IH]; [reflexivity|]. cbn [map]. unfold list_sum in *. cbn [fold_right]. rewrite (Hl _ He), IH. reflexivity. }
  rewrite Hs. reflexivity.
Qed.

(** After a successful Insert (new key or new value) that leaves the height as it is, into a tree
    whose root is the hash link of a stored version, persisting the new root node emits at most
    2*height + 1 Store events - within the 2*height + 2 of the statement. *)
Theorem insert_then_persist_writes s kind bf (m m' : kmast) k v t fuel f :
  root_allh s kind m -> (exists h c, m_root _ _ m = LHash h c) ->
  insert _ _ kcmp bytes_eqb (klayer bf) m k v = (t, Ok m') -> m_height _ _ m' = m_height _ _ m ->
  forall n', m_root _ _ m' = LPtr n' ->
  okt (store_node fuel f n') (fun ts _ => length (stored ts) <= 2 * m_height _ _ m + 1).
Proof.
  intros Ha (h & c & Er) Ei Hh n' Er' ts r E.
  pose proof (insert_count key val kcmp bytes_eqb (sto s kind) (sto_hered s kind) (sto_flat s kind) (klayer bf) m k v Ha t m' Ei Hh) as Hc.
  rewrite Er, Er' in Hc. cbn [pcount_l] in Hc.
  destruct (store_node_count fuel f n' ts r E) as [Hlen _]. rewrite Hlen. pose proof (dcount_le_pcount n'). lia.
Qed.

(** the same for a Delete: at most height + 1 Store events *)
Theorem delete_then_persist_writes s kind bf (m m' : kmast) k v t fuel f :
  root_allh s kind m -> (exists h c, m_root _ _ m = LHash h c) ->
  delete _ _ kcmp bytes_eqb (klayer bf) m k v = (t, Ok m') -> m_height _ _ m' = m_height _ _ m ->
  forall n', m_root _ _ m' = LPtr n' ->
  okt (store_node fuel f n') (fun ts _ => length (stored ts) <= m_height _ _ m + 1).
Proof.
  intros Ha (h & c & Er) Ei Hh n' Er' ts r E.
  pose proof (delete_count key val kcmp bytes_eqb (sto s kind) (sto_hered s kind) (sto_flat s kind) (klayer bf) m k v Ha t m' Ei Hh) as Hc.
  rewrite Er, Er' in Hc. cbn [pcount_l] in Hc.
  destruct (store_node_count fuel f n' ts r E) as [Hlen _]. rewrite Hlen. pose proof (dcount_le_pcount n'). lia.
Qed.

(** * batches: any number of Inserts and Deletes between two persists *)
Inductive wop := WIns (k : key) (v : val) | WDel (k : key) (v : val).
Definition wstep bf (m : kmast) (o : wop) : M kmast :=
  match o with
  | WIns k v => insert _ _ kcmp bytes_eqb (klayer bf) m k v
  | WDel k v => delete _ _ kcmp bytes_eqb (klayer bf) m k v
  end.
(* a run of successful updates none of which changes the height *)
Inductive chain bf : kmast -> list wop -> kmast -> Prop :=
| chain_nil m : chain bf m [] m
| chain_cons m o m1 r m' t : wstep bf m o = (t, Ok m1) -> m_height _ _ m1 = m_height _ _ m -> chain bf m1 r m' -> chain bf m (o :: r) m'.

Lemma chain_count s kind bf (m m' : kmast) ops : root_allh s kind m -> chain bf m ops m' ->
  root_allh s kind m' /\ m_height _ _ m' = m_height _ _ m /\
  pcount_l key val (m_root _ _ m') <= Nat.max 1 (pcount_l key val (m_root _ _ m)) + 2 * m_height _ _ m * length ops.
Proof.
  intros Ha Hc. induction Hc as [m|m o m1 r m' t Hs Hh Hc IH].
  - split; [exact Ha|]. split; [reflexivity|]. cbn [length]. lia.
  - assert (Ha1 : root_allh s kind m1).
    { destruct o as [k v|k v]; cbn [wstep] in Hs; [exact (insert_allh s kind bf m k v Ha t m1 Hs)|exact (delete_allh s kind bf m k v Ha t m1 Hs)]. }
    assert (Hc1 : pcount_l key val (m_root _ _ m1) <= Nat.max 1 (pcount_l key val (m_root _ _ m)) + 2 * m_height _ _ m).
    { destruct o as [k v|k v]; cbn [wstep] in Hs.
      - exact (insert_count key val kcmp bytes_eqb (sto s kind) (sto_hered s kind) (sto_flat s kind) (klayer bf) m k v Ha t m1 Hs Hh).
      - pose proof (delete_count key val kcmp bytes_eqb (sto s kind) (sto_hered s kind) (sto_flat s kind) (klayer bf) m k v Ha t m1 Hs Hh). lia. }
    destruct (IH Ha1) as (Ha' & Hh' & Hc'). split; [exact Ha'|]. split; [lia|]. rewrite Hh in Hc'. cbn [length]. nia.
Qed.

(** "At most 2*height+2 nodes per modified key": n >= 1 successful Inserts/Deletes, none changing
    the height, applied to a freshly loaded version, then one persist: at most 1 + 2*height*n Store
    events, which is within (2*height + 2) * n. *)
Theorem batch_then_persist_writes s kind bf (m m' : kmast) ops fuel f :
  root_allh s kind m -> (exists h c, m_root _ _ m = LHash h c) -> chain bf m ops m' ->
  forall n', m_root _ _ m' = LPtr n' ->
  okt (store_node fuel f n') (fun ts _ => length (stored ts) <= 1 + 2 * m_height _ _ m * length ops
                                        /\ (ops <> [] -> length (stored ts) <= (2 * m_height _ _ m + 2) * length ops)).
Proof.
  intros Ha (h & c & Er) Hc n' Er' ts r E.
  destruct (chain_count s kind bf m m' ops Ha Hc) as (_ & _ & Hcnt). rewrite Er, Er' in Hcnt. cbn [pcount_l] in Hcnt.
  destruct (store_node_count fuel f n' ts r E) as [Hlen _]. rewrite Hlen. pose proof (dcount_le_pcount n') as Hd.
  split; [lia|]. intros Hne. destruct ops as [|o r0]; [congruence|]. cbn [length] in *. nia.
Qed.
End FMT.
