(** C04: equal contents give the IDENTICAL root - the name included.  [mname f n] is the Merkle name
    of a tree: a function of its keys, values and shape only (it ignores residency: dirty flags,
    sources and whether a child is held by pointer or by hash).  In a store whose names are the names
    of the bytes held under them, every stored node is held under its Merkle name, and persisting any
    tree returns the Merkle name of its contents - whatever mix of in-memory and stored nodes it was,
    whichever store it lives in.  Lemma file. *)
From Coq Require Import List NArith ZArith Lia Bool Sorted.
From Mast Require Import Prim Key Tree KeyOrder Codec CodecRT NameLen Store Diff World Erase Build Spec Canon Links Level Inv Persist Hist Reload.
Import ListNotations.

Opaque name_of blake2b_256 b64url crc64 uint_layer_fuel.

Section MERKLE.
Variable f : nfmt.

Fixpoint mname (n : knode) : name :=
  match n with
  | Node _ _ l0 es =>
    let ml (l : klink) : option name :=
      match l with LNil => None | LPtr c => Some (mname c) | LHash _ c => Some (mname c) | LBad h => Some h end in
    name_of (encode_node f (map (fun e : entry key val => kmarshal (ekey _ _ e)) es)
                           (map (fun e : entry key val => eval _ _ e) es)
                           (ml l0 :: map (fun e : entry key val => ml (elink _ _ e)) es))
  end.
Definition mlink (l : klink) : option name :=
  match l with LNil => None | LPtr c => Some (mname c) | LHash _ c => Some (mname c) | LBad h => Some h end.

Lemma mname_eq d s l0 (es : list (entry key val)) :
  mname (Node d s l0 es) =
  name_of (encode_node f (map (fun e => kmarshal (ekey _ _ e)) es) (map (fun e => eval _ _ e) es)
                         (mlink l0 :: map (fun e => mlink (elink _ _ e)) es)).
Proof. reflexivity. Qed.

(** the Merkle name is a function of the erasure *)
Lemma mname_erase : forall n : knode, mname (erase_n _ _ n) = mname n.
Proof.
  induction n as [d s l0 es H0 Hes] using node_ind'. rewrite erase_n_eq, !mname_eq.
  assert (Hl : forall l : klink, PL key val (fun c => mname (erase_n _ _ c) = mname c) l -> mlink (erase_l _ _ l) = mlink l).
  { intros l Hp. destruct l as [|c|h c|h]; cbn [erase_l mlink PL] in *; try reflexivity; rewrite Hp; reflexivity. }
  f_equal. f_equal; [| |f_equal].
  - rewrite map_map. apply map_ext. intros e. reflexivity.
  - rewrite map_map. apply map_ext. intros e. reflexivity.
  - apply Hl. exact H0.
  - rewrite map_map. clear -Hes Hl. induction Hes as [|e r He _ IH]; [reflexivity|]. cbn [map]. rewrite IH. f_equal.
    rewrite elink_erase. apply Hl. exact He.
Qed.

Corollary same_shape_same_name (a b : knode) : erase_n _ _ a = erase_n _ _ b -> mname a = mname b.
Proof. intros H. rewrite <- (mname_erase a), <- (mname_erase b), H. reflexivity. Qed.

(** a store is content-addressed when every name is the name of the bytes held under it *)
Definition addressed (s : store) : Prop := forall h b, Store.lookup s h = Some b -> h = name_of b.

Lemma addressed_empty : addressed [].
Proof. intros h b H. discriminate H. Qed.
Lemma addressed_put s h b : addressed s -> h = name_of b -> addressed (put s h b).
Proof.
  intros Ha Hh h' b' H. unfold put in H. destruct (Store.lookup s h) as [b0|] eqn:E; [exact (Ha _ _ H)|].
  cbn [Store.lookup] in H. destruct (bytes_eqb h h') eqn:Eh; [|exact (Ha _ _ H)].
  apply bytes_eqb_eq in Eh. inversion H; subst. reflexivity.
Qed.
Lemma addressed_apply : forall t s, addressed s -> Forall store_named t -> addressed (apply_stores s t).
Proof.
  induction t as [|e r IH]; intros s Ha Hn; [exact Ha|]. inversion Hn as [|? ? He Hr]; subst.
  destruct e; cbn [apply_stores]; try (apply IH; assumption). apply IH; [|exact Hr]. apply addressed_put; [exact Ha|exact He].
Qed.

(** in a content-addressed store every stored node is held under its Merkle name *)
Lemma sto_mname s kind : addressed s -> forall (c : knode) h, sto f s kind h c -> h = mname c.
Proof.
  intros Ha. induction c as [d sr l0 es H0 Hes] using node_ind'. intros h H.
  inversion H as [h' l0' es' Hl Hs0 Hses Hok Hsm Hn]; subst.
  assert (Hlk : forall l : klink, PL key val (fun c => forall h, sto f s kind h c -> h = mname c) l -> sto_l f s kind l -> link_name l = mlink l).
  { intros l Hp Hl'. inversion Hl' as [|h2 c2 Hc2]; subst; [reflexivity|]. cbn [link_name mlink PL] in *. rewrite (Hp h2 Hc2). reflexivity. }
  rewrite (Ha _ _ Hl). rewrite mname_eq. unfold node_bytes. cbn [n_es n_links n_l0 map]. f_equal. f_equal. f_equal.
  - apply Hlk; assumption.
  - rewrite map_map. clear -Hes Hses Hlk. induction Hes as [|e r He _ IH]; [reflexivity|]. inversion Hses; subst. cbn [map]. rewrite IH by assumption. f_equal. apply Hlk; assumption.
Qed.

(** persisting returns the Merkle name of the tree *)
Lemma store_node_mname s kind : addressed s -> forall fuel (n : knode), allh key val (sto f s kind) n ->
  okp (store_node fuel f n) (fun r => fst r = mname n /\ mname (snd r) = mname n).
Proof.
  intros Ha. induction fuel as [|fu IH]; intros n Hall; [apply okp_nofuel|].
  destruct (allh_inv _ _ _ _ Hall) as [Ha0 Haes]. destruct n as [d sr l0 es]. cbn [n_l0 n_es] in *.
  set (st := fun l : klink => match l with LPtr c => let* (h, c') := store_node fu f c in ret (LHash h c') | _ => ret l end).
  assert (Hst : forall l : klink, allh_l key val (sto f s kind) l -> okp (st l) (fun l' => link_name l' = mlink l /\ mlink l' = mlink l)).
  { intros l Hl. unfold st. destruct l as [|c|h c|h].
    - apply okp_ret. split; reflexivity.
    - inversion Hl; subst. eapply okp_bind; [apply (IH c); assumption|]. intros [h c'] [E1 E2]. cbn [fst snd] in *. apply okp_ret. cbn [link_name mlink]. rewrite E1, E2. split; reflexivity.
    - inversion Hl as [| |h' c' Hs]; subst. apply okp_ret. cbn [link_name mlink]. rewrite (sto_mname s kind Ha c h Hs). split; reflexivity.
    - inversion Hl. }
  assert (Hgo : forall es0 : list (entry key val), Forall (fun e => allh_l key val (sto f s kind) (elink _ _ e)) es0 ->
            okp ((fix go (es : list (entry key val)) : M (list (entry key val)) :=
                    match es with
                    | [] => ret []
                    | (k, v, l) :: r => let* l' := st l in let* r' := go r in ret ((k, v, l') :: r')
                    end) es0)
                (fun es' => map (fun e => kmarshal (ekey _ _ e)) es' = map (fun e => kmarshal (ekey _ _ e)) es0 /\
                            map (fun e => eval _ _ e) es' = map (fun e => eval _ _ e) es0 /\
                            map (fun e => link_name (elink _ _ e)) es' = map (fun e => mlink (elink _ _ e)) es0 /\
                            map (fun e => mlink (elink _ _ e)) es' = map (fun e => mlink (elink _ _ e)) es0)).
  { induction es0 as [|[[k v] l] r IHr]; intros Hal; [apply okp_ret; repeat split|].
    inversion Hal; subst. cbn [elink snd] in *.
    eapply okp_bind; [apply Hst; assumption|]. intros l' [X1 X2].
    eapply okp_bind; [apply IHr; assumption|]. intros r' (A & B & C & D).
    apply okp_ret. cbn [map ekey eval elink fst snd]. rewrite A, B, C, D, X1, X2. repeat split. }
  assert (Hbody : okp (let* l0' := st l0 in
      let* es' := (fix go (es : list (entry key val)) : M (list (entry key val)) :=
                     match es with
                     | [] => ret []
                     | (k, v, l) :: r => let* l' := st l in let* r' := go r in ret ((k, v, l') :: r')
                     end) es in
      let b := node_bytes f (Node false None l0' es') in
      let h := name_of b in
      tick (EStore h b) >> ret (h, Node false (Some h) l0' es'))
      (fun r => fst r = mname (Node d sr l0 es) /\ mname (snd r) = mname (Node d sr l0 es))).
  { eapply okp_bind; [apply Hst; exact Ha0|]. intros l0' [H1 H2].
    eapply okp_bind; [apply Hgo; exact Haes|]. intros es' (A & B & C & D).
    cbn zeta. apply okp_tick. apply okp_ret. cbn [fst snd]. rewrite !mname_eq. unfold node_bytes. cbn [n_es n_links n_l0 map].
    rewrite map_map. rewrite A, B, C, D, H1, H2. split; reflexivity. }
  cbn [store_node n_dirty n_src n_l0 n_es]. fold st.
  destruct d; [exact Hbody|]. destruct sr as [h|]; [|exact Hbody].
  apply okp_ret. cbn [fst snd]. split; [|reflexivity].
  exact (sto_mname s kind Ha _ h (allh_clean _ _ _ _ h Hall eq_refl eq_refl)).
Qed.
End MERKLE.

(** * equal contents, identical Root *)
Lemma flush_link f s kind (m : kmast) n : addressed s -> root_allh f s kind m -> root_n _ _ (m_root _ _ m) = Some n ->
  okp (flush f m) (fun r => fst r = (if is_empty _ _ n then None else Some (mname f n)) /\
                            m_size _ _ (snd r) = m_size _ _ m /\ m_height _ _ (snd r) = m_height _ _ m /\ m_bf _ _ (snd r) = m_bf _ _ m).
Proof.
  intros Ha Hall Hn. unfold flush, root_allh in *.
  assert (Hbody : forall r, m_root _ _ m = r -> r <> LNil ->
            okp (let* n0 := load _ _ r in
                 if is_empty _ _ n0 then ret (None, m)
                 else let* (h, n') := store_node (S (S (m_height _ _ m))) f n0 in
                      ret (Some h, set_root _ _ m (LHash h n') (m_emptied _ _ m)))
                (fun r => fst r = (if is_empty _ _ n then None else Some (mname f n)) /\
                          m_size _ _ (snd r) = m_size _ _ m /\ m_height _ _ (snd r) = m_height _ _ m /\ m_bf _ _ (snd r) = m_bf _ _ m)).
  { intros r Er Hne. rewrite Er in Hall, Hn.
    apply (okp_bind _ _ (fun n0 => n0 = n /\ allh key val (sto f s kind) n0)).
    - intros t n0 E. destruct r as [|c|h c|h]; cbn [load root_n] in *; try congruence; inversion E; subst; inversion Hn; subst; split; try reflexivity.
      + inversion Hall; assumption.
      + inversion Hall; subst. apply (sto_hered f s kind h). assumption.
    - intros n0 [-> Hn0]. destruct (is_empty _ _ n) eqn:Ee; [apply okp_ret; repeat split|].
      eapply okp_bind; [exact (store_node_mname f s kind Ha _ n Hn0)|]. intros [h n'] [H1 _]. cbn [fst] in H1.
      apply okp_ret. cbn [fst snd set_root m_size m_height m_bf]. rewrite H1. repeat split. }
  destruct (m_root _ _ m) as [|c|h c|h] eqn:Er.
  - cbn [root_n] in Hn. inversion Hn; subst. apply okp_ret. cbn [fst snd set_root m_size m_height m_bf]. repeat split.
  - apply (Hbody (LPtr c) eq_refl). discriminate.
  - apply (Hbody (LHash h c) eq_refl). discriminate.
  - apply (Hbody (LBad h) eq_refl). discriminate.
Qed.

(** Two trees with the same entries and branch factor - built by whatever operations, in whatever
    stores, of whatever residency - persist to the IDENTICAL Root record: same link name, size,
    height, branch factor and node format. *)
Theorem same_contents_same_root f s1 s2 kind1 kind2 bf (m1 m2 : kmast) l t1 t2 rt1 rt2 m1' m2' :
  addressed s1 -> addressed s2 -> kcanon bf m1 l -> kcanon bf m2 l ->
  root_allh f s1 kind1 m1 -> root_allh f s2 kind2 m2 ->
  make_root f m1 = (t1, Ok (rt1, m1')) -> make_root f m2 = (t2, Ok (rt2, m2')) -> rt1 = rt2.
Proof.
  intros A1 A2 C1 C2 H1 H2 E1 E2.
  destruct (canon_unique key val kcmp (klayer bf) bf m1 m2 l C1 C2) as (Hh & Hs & n1 & n2 & R1 & R2 & He).
  unfold make_root in E1, E2.
  apply bind_ok_inv in E1. destruct E1 as (ta & [lk1 ma] & tb & F1 & G1 & _). unfold ret in G1. inversion G1; subst.
  apply bind_ok_inv in E2. destruct E2 as (tc & [lk2 mb] & td & F2 & G2 & _). unfold ret in G2. inversion G2; subst.
  destruct (flush_link f s1 kind1 m1 n1 A1 H1 R1 _ _ F1) as (L1 & S1 & Hg1 & B1).
  destruct (flush_link f s2 kind2 m2 n2 A2 H2 R2 _ _ F2) as (L2 & S2 & Hg2 & B2).
  cbn [fst snd] in *. rewrite L1, L2, S1, S2, Hg1, Hg2, B1, B2, Hh, Hs.
  rewrite (cn_bfeq _ _ _ _ _ _ _ C1), (cn_bfeq _ _ _ _ _ _ _ C2).
  rewrite <- (is_empty_erase _ _ n1), <- (is_empty_erase _ _ n2), He, (same_shape_same_name f n1 n2 He). reflexivity.
Qed.
