(** C05: a Root survives the trip through its JSON text.  Lemma file. *)
From Coq Require Import List NArith ZArith Lia Bool Arith.
From Mast Require Import Prim Key KeyOrder Codec CodecRT CodecV1 DecRT.
Import ListNotations.
Local Open Scope N_scope.

Lemma isdigit_isdig b : isdigit b = isdig b. Proof. reflexivity. Qed.

Lemma take_digits_app : forall ds c rest, forallb isdig ds = true -> isdigit c = false ->
  take_digits (ds ++ c :: rest) = (ds, c :: rest).
Proof.
  induction ds as [|b r IH]; intros c rest H Hc.
  - cbn [app take_digits]. rewrite Hc. reflexivity.
  - cbn [forallb] in H. apply andb_true_iff in H. destruct H as [Hb Hr]. cbn [app take_digits]. rewrite isdigit_isdig, Hb, (IH c rest Hr Hc). reflexivity.
Qed.

Definition no_quote (h : bytes) : bool := forallb (fun b => negb (b =? 34)) h.
Lemma plain_no_quote h : plain h = true -> no_quote h = true.
Proof.
  unfold plain, no_quote. induction h as [|b r IH]; [reflexivity|]. cbn [forallb]. intros H. apply andb_true_iff in H. destruct H as [Hb Hr].
  apply andb_true_iff in Hb. destruct Hb as [Hb _]. rewrite Hb, (IH Hr). reflexivity.
Qed.
Lemma split_at_quote : forall h rest, no_quote h = true -> split_at 34 (h ++ 34 :: rest) = (h, rest).
Proof.
  induction h as [|b r IH]; intros rest H; [reflexivity|]. cbn [no_quote forallb] in H. apply andb_true_iff in H. destruct H as [Hb Hr].
  apply negb_true_iff in Hb. cbn [app split_at]. rewrite Hb, (IH rest Hr). reflexivity.
Qed.

Lemma strip_prefix_cons_none (p : bytes) b r a q : p = a :: q -> b <> a -> strip_prefix p (b :: r) = None.
Proof.
  intros -> Hne. unfold strip_prefix. cbn [length firstn bytes_eqb].
  destruct (b =? a) eqn:E; [apply N.eqb_eq in E; contradiction|reflexivity].
Qed.

(** well-formed roots: numbers of at most 40 digits, a link and a format string without a quote *)
Definition root_wf (r : root) : Prop :=
  r_size r < ten40 /\ N.of_nat (r_height r) < ten40 /\ r_bf r < ten40 /\
  no_quote (r_fmt r) = true /\ match r_link r with Some h => no_quote h = true | None => True end.

Lemma take_digits_app2 ds (p X : bytes) : forallb isdig ds = true ->
  match p with c :: _ => isdigit c = false | [] => False end -> take_digits (ds ++ p ++ X) = (ds, p ++ X).
Proof. intros H Hp. destruct p as [|c q]; [contradiction|]. cbn [app]. apply take_digits_app; assumption. Qed.

Definition link_text' (lk : option name) : bytes := match lk with None => s_null | Some h => quote h end.
Definition fmt_part (fm : bytes) : bytes := match fm with [] => [] | _ => p_fmt ++ quote fm end.
Lemma root_json_eq lk sz hh bf fm :
  root_json (Root lk sz hh bf fm) =
  p_link ++ link_text' lk ++ p_size ++ dec_N sz ++ p_height ++ dec_N (N.of_nat hh) ++ p_bf ++ dec_N bf ++ fmt_part fm ++ [125].
Proof. destruct fm; reflexivity. Qed.

Lemma parse_link lk rest : match lk with Some h => no_quote h = true | None => True end ->
  match strip_prefix s_null (link_text' lk ++ rest) with
  | Some r2 => Some (@None name, r2)
  | None => match link_text' lk ++ rest with
            | 34 :: r2 => let (h, r3) := split_at 34 r2 in Some (Some h, r3) | _ => None end
  end = Some (lk, rest).
Proof.
  intros Hl. destruct lk as [h|]; cbn [link_text'].
  - unfold quote. cbn [app]. rewrite (strip_prefix_cons_none s_null 34 _ 110 [117;108;108] eq_refl ltac:(discriminate)).
    rewrite <- app_assoc. cbn [app]. rewrite (split_at_quote h rest Hl). reflexivity.
  - rewrite strip_prefix_app. reflexivity.
Qed.

Theorem parse_root_json r : root_wf r -> parse_root (root_json r) = Some r.
Proof.
  intros (Hs & Hh & Hb & Hf & Hl). destruct r as [lk sz hh bf fm]. cbn [r_size r_height r_bf r_fmt r_link] in *.
  destruct (dec_N_spec sz Hs) as (_ & Ds & _). destruct (dec_N_spec _ Hh) as (_ & Dh & _). destruct (dec_N_spec bf Hb) as (_ & Db & _).
  rewrite root_json_eq. unfold parse_root.
  rewrite strip_prefix_app, (parse_link lk _ Hl), strip_prefix_app.
  rewrite (take_digits_app2 (dec_N sz) p_height _ Ds eq_refl), (parse_dec_N sz Hs), strip_prefix_app.
  rewrite (take_digits_app2 (dec_N (N.of_nat hh)) p_bf _ Dh eq_refl), (parse_dec_N _ Hh), strip_prefix_app, Nat2N.id.
  destruct fm as [|f0 fr]; cbn [fmt_part].
  - cbn [app]. rewrite (take_digits_app (dec_N bf) 125 [] Db eq_refl), (parse_dec_N bf Hb). reflexivity.
  - rewrite <- app_assoc. rewrite (take_digits_app2 (dec_N bf) p_fmt _ Db eq_refl), (parse_dec_N bf Hb).
    assert (E : bytes_eqb (p_fmt ++ quote (f0 :: fr) ++ [125]) [125] = false) by reflexivity. rewrite E.
    rewrite strip_prefix_app. unfold quote. cbn [app]. rewrite <- app_assoc. cbn [app].
    change (f0 :: fr ++ 34 :: [125]) with ((f0 :: fr) ++ 34 :: [125]). rewrite (split_at_quote (f0 :: fr) [125] Hf). reflexivity.
Qed.

Corollary root_via_json_id r : root_wf r -> root_via_json r = r.
Proof. intros H. unfold root_via_json. rewrite (parse_root_json r H). reflexivity. Qed.

Example root_json_rt_ex :
  parse_root (root_json (Root (Some (name_of [1;2;3])) 12345 3 16 fmt_bin)) = Some (Root (Some (name_of [1;2;3])) 12345 3 16 fmt_bin) /\
  parse_root (root_json (Root None 0 0 4 [])) = Some (Root None 0 0 4 []).
Proof. vm_compute. split; reflexivity. Qed.
