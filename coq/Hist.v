(** Histories: every finite sequence of the supported operations of World.step, on any number of
    trees started from the empty world, refines the abstract world in which a tree is a strictly
    sorted association list.  Instantiates Inv.v at the key type of Key.v.  Lemma file. *)
From Coq Require Import List NArith ZArith Lia Bool Sorted.
From Mast Require Import Prim Key Tree KeyOrder Codec Store Diff World Erase Build Spec Canon Level Inv.
Import ListNotations.

Notation kvl := (list (key * val)).
Definition kcanon (bf : N) (m : kmast) (l : kvl) : Prop := canon key val kcmp (klayer bf) bf m l.

Definition alookup := Spec.lookup key val kcmp.
Definition aupsert := Spec.upsert key val kcmp.
Definition aremove := Spec.remove key val kcmp.

(** * instances of the operation theorems *)
Lemma k_get_ok bf m l k : kcanon bf m l -> oks (get _ _ kcmp (klayer bf) m k) (fun r => r = alookup k l).
Proof. exact (get_ok key val kcmp (klayer bf) kcmp_eq kcmp_antisym kcmp_trans bf m l k). Qed.
Lemma k_insert_ok bf m l k v : kcanon bf m l ->
  oks (insert _ _ kcmp bytes_eqb (klayer bf) m k v) (fun m' => kcanon bf m' (aupsert k v l)).
Proof. exact (insert_ok key val kcmp bytes_eqb (klayer bf) kcmp_eq kcmp_antisym kcmp_trans bytes_eqb_eq (klayer_bound bf) bf m l k v). Qed.
Lemma k_delete_ok bf m l k v : kcanon bf m l -> alookup k l = Some v ->
  oks (delete _ _ kcmp bytes_eqb (klayer bf) m k v) (fun m' => kcanon bf m' (aremove k l)).
Proof. exact (delete_ok key val kcmp bytes_eqb (klayer bf) kcmp_eq kcmp_antisym kcmp_trans bytes_eqb_eq (klayer_bound bf) bf m l k v). Qed.
Lemma k_delete_fail bf m l k v : kcanon bf m l -> alookup k l <> Some v ->
  fails (delete _ _ kcmp bytes_eqb (klayer bf) m k v).
Proof. exact (delete_fail key val kcmp bytes_eqb (klayer bf) kcmp_eq kcmp_antisym kcmp_trans bytes_eqb_eq bf m l k v). Qed.
Lemma k_iter_ok bf m l : kcanon bf m l -> oks (iter _ _ m) (fun r => r = l).
Proof. exact (iter_ok key val kcmp (klayer bf) bf m l). Qed.
Lemma k_clone_ok bf m l : kcanon bf m l -> oks (clone _ _ m) (fun m' => kcanon bf m' l).
Proof. exact (clone_ok key val kcmp (klayer bf) bf m l). Qed.

(** * persisting changes annotations only *)
Lemma store_node_erase : forall fuel f (n : knode),
  fits key val fuel n ->
  oks (store_node fuel f n) (fun r => erase_n _ _ (snd r) = erase_n _ _ n).
Proof.
  induction fuel as [|fu IH]; intros f n Hf; [contradiction|].
  cbn [fits] in Hf. destruct Hf as [H0 Hes]. destruct n as [d s l0 es]. cbn [n_l0 n_es] in *.
  cbn [store_node n_dirty n_src n_l0 n_es].
  assert (Hst : forall l : klink, fitsl_of key val (fits key val fu) l ->
            oks (match l with LPtr c => let* (h, c') := store_node fu f c in ret (LHash h c') | _ => ret l end)
                (fun l' => erase_l _ _ l' = erase_l _ _ l)).
  { intros l Hl. destruct l as [|c|h c|h]; try (apply oks_ret; reflexivity).
    cbn [fitsl_of] in Hl. apply (oks_bind _ _ _ _ (IH f c Hl)). intros [h c'] Hc'. cbn [snd] in Hc'.
    apply oks_ret. cbn [erase_l]. rewrite Hc'. reflexivity. }
  assert (Hbody : oks (let* l0' := (match l0 with LPtr c => let* (h, c') := store_node fu f c in ret (LHash h c') | _ => ret l0 end) in
      let* es' := (fix go (es : list (entry key val)) : M (list (entry key val)) :=
                     match es with
                     | [] => ret []
                     | (k, v, l) :: r =>
                         let* l' := (match l with LPtr c => let* (h, c') := store_node fu f c in ret (LHash h c') | _ => ret l end) in
                         let* r' := go r in ret ((k, v, l') :: r')
                     end) es in
      let b := node_bytes f (Node false None l0' es') in
      let h := name_of b in
      tick (EStore h b) >> ret (h, Node false (Some h) l0' es'))
      (fun r => erase_n _ _ (snd r) = erase_n _ _ (Node d s l0 es))).
  { apply (oks_bind _ _ _ _ (Hst l0 H0)). intros l0' Hl0'.
    eapply oks_bind.
    - instantiate (1 := fun es' => map (erase_e _ _) es' = map (erase_e _ _) es).
      induction Hes as [|[[k v] l] r Hl _ IHr]; [apply oks_ret; reflexivity|].
      cbn [elink snd] in Hl. apply (oks_bind _ _ _ _ (Hst l Hl)). intros l' Hl'.
      apply (oks_bind _ _ _ _ IHr). intros r' Hr'. apply oks_ret. cbn [map]. rewrite Hr'.
      unfold erase_e. cbn [ekey eval elink fst snd]. rewrite Hl'. reflexivity.
    - intros es' Hes'. cbn zeta. apply oks_tick. apply oks_ret. cbn [snd]. rewrite !erase_n_eq, Hl0', Hes'. reflexivity. }
  destruct d; [exact Hbody|]. destruct s as [h|]; [apply oks_ret; reflexivity|exact Hbody].
Qed.

Lemma canon_set_root bf (m : kmast) l (r : klink) n e :
  kcanon bf m l -> root_n _ _ r = Some n -> erase_n _ _ n = bnode _ _ (klayer bf) (m_height _ _ m) l ->
  kcanon bf (set_root _ _ m r e) l.
Proof.
  intros C Hr He. constructor; cbn [set_root m_root m_height m_size m_bf m_grow_after m_shrink_below]; try apply C.
  exists n. split; [exact Hr|exact He].
Qed.

Lemma k_flush_ok bf f m l : kcanon bf m l ->
  oks (flush f m) (fun r => kcanon bf (snd r) l).
Proof.
  intros C. unfold flush.
  destruct (cn_root _ _ _ _ _ _ _ C) as (n & Hn & He).
  assert (Hbody : forall r, m_root _ _ m = r -> r <> LNil ->
     oks (let* n0 := load _ _ r in
          if is_empty _ _ n0 then ret (None, m)
          else let* (h, n') := store_node (S (S (m_height _ _ m))) f n0 in
               ret (Some h, set_root _ _ m (LHash h n') (m_emptied _ _ m)))
         (fun r => kcanon bf (snd r) l)).
  { intros r Er Hnn. rewrite Er in Hn. apply (oks_bind _ _ _ _ (load_root _ _ _ _ Hn Hnn)). intros n0 ->.
    destruct (is_empty _ _ n); [apply oks_ret; exact C|].
    pose proof (fits_mono _ _ _ _ (fits_bnode _ _ _ _ _ _ He)) as Hf.
    apply (oks_bind _ _ _ _ (store_node_erase _ f n Hf)). intros [h n'] Hn'. cbn [snd] in Hn'.
    apply oks_ret. cbn [snd]. eapply canon_set_root; [exact C|reflexivity|rewrite Hn'; exact He]. }
  destruct (m_root _ _ m) as [|c|h c|h] eqn:Er.
  - apply oks_ret. cbn [snd]. eapply canon_set_root; [exact C|reflexivity|]. cbn [root_n] in Hn. inversion Hn; subst. exact He.
  - apply (Hbody _ eq_refl). discriminate.
  - apply (Hbody _ eq_refl). discriminate.
  - discriminate.
Qed.

Lemma k_make_root_ok bf f m l : kcanon bf m l ->
  oks (make_root f m) (fun r => kcanon bf (snd r) l /\ r_size (fst r) = N.of_nat (length l)).
Proof.
  intros C. unfold make_root. apply (oks_bind _ _ _ _ (k_flush_ok bf f m l C)). intros [lk m'] C'. cbn [snd] in C'.
  apply oks_ret. cbn [fst snd r_size]. split; [exact C'|exact (cn_size _ _ _ _ _ _ _ C')].
Qed.

(** * the abstract world and the refinement theorem *)
Definition aworld := list (N * (N * kvl)).     (* tree id -> (branch factor, sorted entries) *)

Inductive aobs := AFail (c : N) | AOk | AVal (v : option val) | ANum (n : N) | AList (l : kvl) | ARoot (size : N).

Definition eff_bf (bf : N) : N := if (bf =? 0)%N then default_bf else bf.

(* the operations covered: everything that reads or changes a map, clones it, or persists it *)
Definition supported (o : op) : bool :=
  match o with
  | ONew _ _ bf _ _ => (2 <=? eff_bf bf)%N
  | OIns _ _ _ | ODel _ _ _ | OGet _ _ | OSize _ | OIter _ | OIterStop _ _ | OClone _ _ | OMakeRoot _ _ => true
  | _ => false
  end.

Definition astep (a : aworld) (o : op) : aworld * aobs :=
  match o with
  | ONew t _ bf _ _ => (aset a t (eff_bf bf, []), AOk)
  | OIns t k v => match aget a t with Some (bf, l) => (aset a t (bf, aupsert k v l), AOk) | None => (a, AFail 9) end
  | ODel t k v =>
      match aget a t with
      | Some (bf, l) =>
          match alookup k l with
          | Some v' => if bytes_eqb v' v then (aset a t (bf, aremove k l), AOk) else (a, AFail 1)
          | None => (a, AFail 1)
          end
      | None => (a, AFail 9)
      end
  | OGet t k => match aget a t with Some (_, l) => (a, AVal (alookup k l)) | None => (a, AFail 9) end
  | OSize t => match aget a t with Some (_, l) => (a, ANum (N.of_nat (length l))) | None => (a, AFail 9) end
  | OIter t => match aget a t with Some (_, l) => (a, AList l) | None => (a, AFail 9) end
  | OIterStop t n => match aget a t with Some (_, l) => (a, AList (firstn (S n) l)) | None => (a, AFail 9) end
  | OClone t t2 => match aget a t with Some x => (aset a t2 x, AOk) | None => (a, AFail 9) end
  | OMakeRoot t _ => match aget a t with Some (_, l) => (a, ARoot (N.of_nat (length l))) | None => (a, AFail 9) end
  | _ => (a, AFail 9)
  end.

Definition proj (o : obs) : aobs :=
  match o with
  | ObFail c => AFail c
  | ObOk => AOk
  | ObVal v => AVal v
  | ObNum n => ANum n
  | ObList l => AList l
  | ObRoot r => ARoot (r_size r)
  | _ => AFail 9
  end.

Definition winv (w : world) (a : aworld) : Prop :=
  forall t, match aget (w_trees w) t, aget a t with
            | Some tr, Some (bf, l) => kcanon bf (t_m tr) l /\ m_bf _ _ (t_m tr) = bf
            | None, None => True
            | _, _ => False
            end.

Lemma aget_aset_same {A} (l : list (N * A)) i x : aget (aset l i x) i = Some x.
Proof. unfold aset. cbn [aget]. rewrite N.eqb_refl. reflexivity. Qed.

Lemma aget_filter_other {A} (l : list (N * A)) i j : i <> j ->
  aget (filter (fun p => negb (N.eqb (fst p) i)) l) j = aget l j.
Proof.
  intros Hij. induction l as [|[k a] r IH]; [reflexivity|]. cbn [filter fst aget].
  destruct (N.eqb k i) eqn:E; cbn [negb].
  - apply N.eqb_eq in E. subst k. destruct (N.eqb j i) eqn:E2; [apply N.eqb_eq in E2; congruence|exact IH].
  - cbn [aget]. rewrite IH. reflexivity.
Qed.

Lemma aget_aset_other {A} (l : list (N * A)) i j x : i <> j -> aget (aset l i x) j = aget l j.
Proof.
  intros Hij. unfold aset. cbn [aget]. destruct (N.eqb j i) eqn:E; [apply N.eqb_eq in E; congruence|].
  apply aget_filter_other. exact Hij.
Qed.

Lemma winv_set w a t tr bf l :
  winv w a -> kcanon bf (t_m tr) l -> m_bf _ _ (t_m tr) = bf ->
  winv (set_tree w t tr) (aset a t (bf, l)).
Proof.
  intros H C Hb t'. unfold set_tree. cbn [w_trees]. destruct (N.eq_dec t t') as [->|Hne].
  - rewrite !aget_aset_same. split; assumption.
  - rewrite !aget_aset_other by exact Hne. apply H.
Qed.

Lemma winv_other_fields w a trees' : winv (World trees' (w_roots w) (w_stores w) (w_curs w)) a ->
  forall r s c, winv (World trees' r s c) a.
Proof. intros H r s c t. exact (H t). Qed.

Lemma kcanon_bf bf m l : kcanon bf m l -> m_bf _ _ m = bf.
Proof. intros C. exact (cn_bfeq _ _ _ _ _ _ _ C). Qed.

Theorem step_refines w a o :
  winv w a -> supported o = true ->
  let '(w', ob, _) := step w o in
  let (a', aob) := astep a o in
  winv w' a' /\ proj ob = aob.
Proof.
  intros Hinv Hs. destruct o; try discriminate; cbn [supported] in Hs.
  - (* ONew *)
    cbn [step astep]. unfold load_mast, new_root. cbn [r_fmt r_link r_height r_size r_bf].
    assert (Hf : exists fm, parse_fmt (fmt_string match f with Some x => x | None => FBin end) = Some fm) by (destruct f as [[|]|]; eexists; reflexivity).
    destruct Hf as [fm Hf]. rewrite Hf. cbn [load bind ret check_keys pow_N n_es fresh_node app fst snd].
    fold (eff_bf bf). apply N.leb_le in Hs. split; [|reflexivity].
    apply winv_set; [exact Hinv| |reflexivity]. cbn [t_m].
    exact (empty_canon key val kcmp (klayer (eff_bf bf)) (eff_bf bf) false Hs).
  - (* OIns *)
    cbn [step astep]. unfold with_tree. specialize (Hinv t) as Ht.
    destruct (aget (w_trees w) t) as [tr|] eqn:Et; destruct (aget a t) as [[bf l]|] eqn:Ea; try contradiction; [|split; [exact Hinv|reflexivity]].
    destruct Ht as [C Hb]. unfold upd, layer_of. rewrite Hb.
    destruct (k_insert_ok bf (t_m tr) l k v C) as (tr' & m' & E & C'). rewrite E. split; [|reflexivity].
    apply winv_set; [exact Hinv|exact C'|exact (kcanon_bf _ _ _ C')].
  - (* ODel *)
    cbn [step astep]. unfold with_tree. specialize (Hinv t) as Ht.
    destruct (aget (w_trees w) t) as [tr|] eqn:Et; destruct (aget a t) as [[bf l]|] eqn:Ea; try contradiction; [|split; [exact Hinv|reflexivity]].
    destruct Ht as [C Hb]. unfold upd, layer_of. rewrite Hb.
    destruct (alookup k l) as [v'|] eqn:El.
    + destruct (bytes_eqb v' v) eqn:Ev.
      * apply bytes_eqb_eq in Ev. subst v'.
        destruct (k_delete_ok bf (t_m tr) l k v C El) as (tr' & m' & E & C'). rewrite E. split; [|reflexivity].
        apply winv_set; [exact Hinv|exact C'|exact (kcanon_bf _ _ _ C')].
      * assert (Hne : alookup k l <> Some v).
        { rewrite El. intros H. inversion H; subst. rewrite (proj2 (bytes_eqb_eq v v) eq_refl) in Ev. discriminate. }
        destruct (k_delete_fail bf (t_m tr) l k v C Hne) as (tr' & E). rewrite E. split; [exact Hinv|reflexivity].
    + assert (Hne : alookup k l <> Some v) by (rewrite El; discriminate).
      destruct (k_delete_fail bf (t_m tr) l k v C Hne) as (tr' & E). rewrite E. split; [exact Hinv|reflexivity].
  - (* OGet *)
    cbn [step astep]. unfold with_tree. specialize (Hinv t) as Ht.
    destruct (aget (w_trees w) t) as [tr|] eqn:Et; destruct (aget a t) as [[bf l]|] eqn:Ea; try contradiction; [|split; [exact Hinv|reflexivity]].
    destruct Ht as [C Hb]. unfold ro, layer_of. rewrite Hb.
    destruct (k_get_ok bf (t_m tr) l k C) as (tr' & r & E & ->). rewrite E. split; [exact Hinv|reflexivity].
  - (* OSize *)
    cbn [step astep]. unfold with_tree. specialize (Hinv t) as Ht.
    destruct (aget (w_trees w) t) as [tr|] eqn:Et; destruct (aget a t) as [[bf l]|] eqn:Ea; try contradiction; [|split; [exact Hinv|reflexivity]].
    destruct Ht as [C Hb]. split; [exact Hinv|]. cbn [proj]. rewrite (cn_size _ _ _ _ _ _ _ C). reflexivity.
  - (* OIter *)
    cbn [step astep]. unfold with_tree. specialize (Hinv t) as Ht.
    destruct (aget (w_trees w) t) as [tr|] eqn:Et; destruct (aget a t) as [[bf l]|] eqn:Ea; try contradiction; [|split; [exact Hinv|reflexivity]].
    destruct Ht as [C Hb]. unfold ro.
    destruct (k_iter_ok bf (t_m tr) l C) as (tr' & r & E & ->). rewrite E. split; [exact Hinv|reflexivity].
  - (* OClone *)
    cbn [step astep]. unfold with_tree. specialize (Hinv t) as Ht.
    destruct (aget (w_trees w) t) as [tr|] eqn:Et; destruct (aget a t) as [[bf l]|] eqn:Ea; try contradiction; [|split; [exact Hinv|reflexivity]].
    destruct Ht as [C Hb].
    destruct (k_clone_ok bf (t_m tr) l C) as (tr' & m' & E & C'). rewrite E. split; [|reflexivity].
    apply winv_set; [exact Hinv|exact C'|exact (kcanon_bf _ _ _ C')].
  - (* OMakeRoot *)
    cbn [step astep]. unfold with_tree. specialize (Hinv t) as Ht.
    destruct (aget (w_trees w) t) as [tr|] eqn:Et; destruct (aget a t) as [[bf l]|] eqn:Ea; try contradiction; [|split; [exact Hinv|reflexivity]].
    destruct Ht as [C Hb].
    destruct (k_make_root_ok bf (c_fmt (t_cfg tr)) (t_m tr) l C) as (tr' & [rt m'] & E & C' & Hsz). rewrite E. cbn [fst snd] in C', Hsz.
    split; [|cbn [proj]; rewrite Hsz; reflexivity].
    intros t'. unfold set_rootrec, set_tree, set_store. cbn [w_trees].
    destruct (N.eq_dec t t') as [->|Hne].
    + rewrite aget_aset_same, Ea. split; [exact C'|exact (kcanon_bf _ _ _ C')].
    + rewrite aget_aset_other by exact Hne. apply Hinv.
  - (* OIterStop *)
    cbn [step astep]. unfold with_tree. specialize (Hinv t) as Ht.
    destruct (aget (w_trees w) t) as [tr|] eqn:Et; destruct (aget a t) as [[bf l]|] eqn:Ea; try contradiction; [|split; [exact Hinv|reflexivity]].
    destruct Ht as [C Hb]. unfold ro.
    destruct (k_iter_ok bf (t_m tr) l C) as (tr' & r & E & ->). rewrite E. split; [exact Hinv|reflexivity].
Qed.

Fixpoint arun (a : aworld) (ops : list op) : list aobs :=
  match ops with [] => [] | o :: r => let (a', ob) := astep a o in ob :: arun a' r end.

Theorem history_refines : forall ops w a,
  winv w a -> forallb supported ops = true ->
  map (fun x => proj (fst x)) (run w ops) = arun a ops.
Proof.
  induction ops as [|o r IH]; intros w a Hinv Hs; [reflexivity|].
  cbn [forallb] in Hs. apply andb_true_iff in Hs. destruct Hs as [Ho Hr].
  pose proof (step_refines w a o Hinv Ho) as Hst. cbn [run arun].
  destruct (step w o) as [[w' ob] tr]. destruct (astep a o) as [a' aob]. destruct Hst as [Hinv' Hob].
  cbn [map fst]. rewrite Hob. f_equal. apply IH; assumption.
Qed.

Lemma winv_empty : winv empty_world [].
Proof. intros t. exact I. Qed.

(** the world after a history *)
Fixpoint wrun (w : world) (ops : list op) : world :=
  match ops with [] => w | o :: r => wrun (fst (fst (step w o))) r end.
Fixpoint awrun (a : aworld) (ops : list op) : aworld :=
  match ops with [] => a | o :: r => awrun (fst (astep a o)) r end.

Theorem history_invariant : forall ops w a,
  winv w a -> forallb supported ops = true -> winv (wrun w ops) (awrun a ops).
Proof.
  induction ops as [|o r IH]; intros w a Hinv Hs; [exact Hinv|].
  cbn [forallb] in Hs. apply andb_true_iff in Hs. destruct Hs as [Ho Hr].
  pose proof (step_refines w a o Hinv Ho) as Hst. cbn [wrun awrun].
  destruct (step w o) as [[w' ob] tr]. destruct (astep a o) as [a' aob]. destruct Hst as [Hinv' _].
  cbn [fst]. apply IH; assumption.
Qed.

(** two trees with the same entries, reached by any two supported histories in any worlds, have the
    same height, the same size and the same shape *)
Theorem same_entries_same_tree ops1 ops2 t1 t2 tr1 tr2 bf l :
  forallb supported ops1 = true -> forallb supported ops2 = true ->
  aget (w_trees (wrun empty_world ops1)) t1 = Some tr1 -> aget (awrun [] ops1) t1 = Some (bf, l) ->
  aget (w_trees (wrun empty_world ops2)) t2 = Some tr2 -> aget (awrun [] ops2) t2 = Some (bf, l) ->
  m_height _ _ (t_m tr1) = m_height _ _ (t_m tr2) /\ m_size _ _ (t_m tr1) = m_size _ _ (t_m tr2) /\
  exists n1 n2, root_n _ _ (m_root _ _ (t_m tr1)) = Some n1 /\ root_n _ _ (m_root _ _ (t_m tr2)) = Some n2 /\
                erase_n _ _ n1 = erase_n _ _ n2.
Proof.
  intros S1 S2 E1 A1 E2 A2.
  pose proof (history_invariant ops1 empty_world [] winv_empty S1 t1) as H1. rewrite E1, A1 in H1.
  pose proof (history_invariant ops2 empty_world [] winv_empty S2 t2) as H2. rewrite E2, A2 in H2.
  destruct H1 as [C1 _]. destruct H2 as [C2 _].
  exact (canon_unique key val kcmp (klayer bf) bf (t_m tr1) (t_m tr2) l C1 C2).
Qed.
