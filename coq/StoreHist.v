(** C18 over histories: any sequence of Store calls - any names, each call succeeding or failing in
    the backend - on the overwriting backends (in-memory, S3) and on the skipping one (file).
    Names are content hashes: [content n] is the one byte string ever stored under [n].  A Load
    returns exactly those bytes iff some Store of that name succeeded, and an error otherwise. *)
From Coq Require Import List NArith Bool.
From Mast Require Import Prim KeyOrder Backend.
Import ListNotations.

Section HIST.
Variable content : bytes -> bytes.
Variable put : bstate -> bytes -> bytes -> bstate.

Record call := Call { c_name : bytes; c_fail : bool }.
Definition run_call (s : bstate) (c : call) : bstate := fst (bstore (c_fail c) put s (c_name c) (content (c_name c))).
Definition acked (l : list call) (k : bytes) : bool := existsb (fun c => negb (c_fail c) && bytes_eqb (c_name c) k) l.
Definition consistent (s : bstate) : Prop := forall k, blookup s k = None \/ blookup s k = Some (content k).

(* what the two kinds of backend have in common, given a consistent state *)
Hypothesis put_spec : forall s k, consistent s ->
  forall k', blookup (put s k (content k)) k' = if bytes_eqb k k' then Some (content k') else blookup s k'.

Lemma run_call_lookup s c k : consistent s ->
  blookup (run_call s c) k = if negb (c_fail c) && bytes_eqb (c_name c) k then Some (content k) else blookup s k.
Proof.
  intros C. unfold run_call, bstore. destruct (c_fail c); cbn [fst negb andb]; [reflexivity | ].
  apply put_spec. exact C.
Qed.

Lemma run_call_consistent s c : consistent s -> consistent (run_call s c).
Proof.
  intros C k. rewrite (run_call_lookup s c k C).
  destruct (negb (c_fail c) && bytes_eqb (c_name c) k); [right; reflexivity | apply C].
Qed.

Lemma history_lookup l : forall s k, consistent s ->
  blookup (fold_left run_call l s) k = if acked l k then Some (content k) else blookup s k.
Proof.
  induction l as [ | c l IH]; intros s k C; cbn [fold_left acked existsb]; [reflexivity | ].
  rewrite (IH _ k (run_call_consistent s c C)). fold (acked l k).
  rewrite (run_call_lookup s c k C).
  destruct (acked l k); [rewrite orb_true_r; reflexivity | rewrite orb_false_r; reflexivity].
Qed.

Theorem history_contract l k :
  blookup (fold_left run_call l []) k = if acked l k then Some (content k) else None.
Proof. apply history_lookup. intros k'. left. reflexivity. Qed.

End HIST.

Lemma put_over_spec content s k : consistent content s ->
  forall k', blookup (put_over s k (content k)) k' = if bytes_eqb k k' then Some (content k') else blookup s k'.
Proof.
  intros _ k'. unfold put_over. cbn [blookup]. destruct (bytes_eqb k k') eqn:E; [ | reflexivity].
  apply bytes_eqb_eq in E. subst. reflexivity.
Qed.

Lemma put_skip_spec content s k : consistent content s ->
  forall k', blookup (put_skip s k (content k)) k' = if bytes_eqb k k' then Some (content k') else blookup s k'.
Proof.
  intros C k'. unfold put_skip. destruct (blookup s k) eqn:B.
  - destruct (bytes_eqb k k') eqn:E; [ | reflexivity].
    apply bytes_eqb_eq in E. subst. destruct (C k') as [N | S]; rewrite B in *; [discriminate | exact S].
  - apply put_over_spec. exact C.
Qed.

(** the overwriting backends (in-memory map, S3 object PUT) *)
Theorem contract_over content l k :
  blookup (fold_left (run_call content put_over) l []) k = if acked l k then Some (content k) else None.
Proof. apply history_contract. apply put_over_spec. Qed.

(** the file backend (an existing name is left alone) *)
Theorem contract_skip content l k :
  blookup (fold_left (run_call content put_skip) l []) k = if acked l k then Some (content k) else None.
Proof. apply history_contract. apply put_skip_spec. Qed.

(** S3: the same through the key map prefix ++ name, which is injective *)
Lemma acked_s3 prefix l n : acked (map (fun c => Call (s3_key prefix (c_name c)) (c_fail c)) l) (s3_key prefix n) = acked l n.
Proof.
  unfold acked. induction l as [ | c l IH]; cbn [map existsb c_name c_fail]; [reflexivity | ].
  rewrite IH. f_equal. f_equal.
  destruct (bytes_eqb (c_name c) n) eqn:E.
  - apply bytes_eqb_eq in E. subst. apply bytes_eqb_eq. reflexivity.
  - destruct (bytes_eqb (s3_key prefix (c_name c)) (s3_key prefix n)) eqn:E2; [ | reflexivity].
    apply bytes_eqb_eq in E2. apply s3_key_injective in E2. rewrite E2 in E. rewrite (proj2 (bytes_eqb_eq n n) eq_refl) in E. discriminate.
Qed.

Theorem contract_s3 content prefix l n :
  blookup (fold_left (run_call content put_over) (map (fun c => Call (s3_key prefix (c_name c)) (c_fail c)) l) []) (s3_key prefix n)
  = if acked l n then Some (content (s3_key prefix n)) else None.
Proof. rewrite contract_over. rewrite acked_s3. reflexivity. Qed.

(** non-vacuity: a failing write, an acknowledged one, the same again, another name *)
Example contract_example :
  let c : bytes -> bytes := fun n => n ++ [0%N; 255%N] in
  let l := [Call [65%N] true; Call [65%N] false; Call [65%N] false; Call [66%N] true] in
  blookup (fold_left (run_call c put_skip) l []) [65%N] = Some [65%N; 0%N; 255%N] /\
  blookup (fold_left (run_call c put_skip) l []) [66%N] = None /\
  blookup (fold_left (run_call c put_over) l []) [65%N] = Some [65%N; 0%N; 255%N].
Proof. vm_compute. repeat split. Qed.
