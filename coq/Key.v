(** Key kinds of key.go: order (DefaultKeyCompare), layer (DefaultLayer: intLayer / uintLayer /
    blobLayer) and the JSON element encoding used by both node formats.  Model file. *)
From Coq Require Import List NArith ZArith Lia Bool.
From Mast Require Import Prim.
Import ListNotations.
Local Open Scope N_scope.

(** uintLayer (key.go:142-148): the Go loop, fuel 64 (a 64-bit value can be divided by bf >= 2 at
    most 63 times before reaching 0). *)
Fixpoint uint_layer_fuel (fuel : nat) (v bf : N) : nat :=
  match fuel with
  | O => O
  | S f => if v =? 0 then O else if v mod bf =? 0 then S (uint_layer_fuel f (v / bf) bf) else O
  end.
Definition uint_layer (bf v : N) : nat := uint_layer_fuel 64 v bf.
(** intLayer (key.go:134-140): Go's % and / truncate toward zero, so the layer of v is that of |v| *)
Definition int_layer (bf : N) (v : Z) : nat := uint_layer bf (Z.abs_N v).
Definition blob_layer (bf : N) (b : bytes) : nat := uint_layer bf (crc64 b).

Inductive key :=
| KInt (z : Z)                 (* int, int64 and narrower *)
| KUint (n : N)                (* uint, uint64 and narrower *)
| KStr (s : bytes)             (* string *)
| KBytes (b : bytes)           (* []byte *)
| KBlob (b : bytes)            (* any other type: ordered and layered by its marshaled bytes *)
| KUser (z : Z) (l : nat).     (* a user type implementing mast.Key: explicit layer *)

Definition kind_tag (k : key) : N :=
  match k with KInt _ => 0 | KUint _ => 1 | KStr _ => 2 | KBytes _ => 3 | KBlob _ => 4 | KUser _ _ => 5 end.

(** Order within a kind as DefaultKeyCompare; across kinds (never used by one tree) by kind tag,
    which makes [kcmp] a total order on [key]. *)
Definition kcmp (a b : key) : comparison :=
  match a, b with
  | KInt x, KInt y => Z.compare x y
  | KUint x, KUint y => N.compare x y
  | KStr x, KStr y => bytes_cmp x y
  | KBytes x, KBytes y => bytes_cmp x y
  | KBlob x, KBlob y => bytes_cmp x y
  | KUser x lx, KUser y ly =>
      (* Go compares the K field only; the harness makes the layer a function of K, and comparing
         the layer too makes [kcmp] a total order whose equality is Leibniz equality *)
      match Z.compare x y with Eq => Nat.compare lx ly | c => c end
  | _, _ => N.compare (kind_tag a) (kind_tag b)
  end.

Definition quote (s : bytes) : bytes := 34 :: s ++ [34].
(* {"K":<z>,"L":<l>} *)
Definition user_json (z : Z) (l : nat) : bytes :=
  [123;34;75;34;58] ++ dec_Z z ++ [44;34;76;34;58] ++ dec_N (N.of_nat l) ++ [125].

(** json.Marshal of a key.  Strings are restricted by the harness to characters that
    encoding/json does not escape, so the encoding is the quoted string. *)
Definition kmarshal (k : key) : bytes :=
  match k with
  | KInt z => dec_Z z
  | KUint n => dec_N n
  | KStr s => quote s
  | KBytes b => quote (b64std b)
  | KBlob b => b
  | KUser z l => user_json z l
  end.

Definition klayer (bf : N) (k : key) : nat :=
  match k with
  | KInt z => int_layer bf z
  | KUint n => uint_layer bf n
  | KStr s => blob_layer bf s
  | KBytes b => blob_layer bf b
  | KBlob b => blob_layer bf b
  | KUser _ l => Nat.min l 255   (* Layer returns a uint8 *)
  end.

(** The narrower built-in integer types (int8/16/32, uint8/16/32): DefaultLayer treats them as
    integers, DefaultKeyCompare has no case for them and orders them by their marshaled JSON text
    (so 10 sorts before 9).  They are modelled for the layer and order functions only (C14). *)
Definition narrow_cmp (x y : Z) : comparison := bytes_cmp (dec_Z x) (dec_Z y).
Definition narrow_layer (bf : N) (signed : bool) (z : Z) : nat :=
  if signed then int_layer bf z else uint_layer bf (Z.to_N z).

Definition unquote (bs : bytes) : option bytes :=
  match bs with
  | 34 :: r => match rev r with 34 :: m => Some (rev m) | _ => None end
  | _ => None
  end.

Fixpoint split_at (c : N) (bs : bytes) : bytes * bytes :=
  match bs with
  | [] => ([], [])
  | b :: r => if b =? c then ([], r) else let (x, y) := split_at c r in (b :: x, y)
  end.

Definition strip_prefix (p bs : bytes) : option bytes :=
  if bytes_eqb (firstn (length p) bs) p then Some (skipn (length p) bs) else None.

(** json.Unmarshal into a key of the kind of the tree (RemoteConfig.KeysLike), 0..5 as [kind_tag] *)
Definition kunmarshal (kind : N) (bs : bytes) : option key :=
  match kind with
  (* encoding/json rejects numbers that do not fit the 64-bit target type *)
  | 0 => match parse_Z bs with
         | Some z => if ((- 9223372036854775808 <=? z) && (z <=? 9223372036854775807))%Z then Some (KInt z) else None
         | None => None
         end
  | 1 => match parse_N bs with
         | Some n => if (n <=? 18446744073709551615)%N then Some (KUint n) else None
         | None => None
         end
  | 2 => option_map KStr (unquote bs)
  | 3 => match unquote bs with Some q => option_map KBytes (b64std_dec q) | None => None end
  | 4 => match bs with [] => None | _ => Some (KBlob bs) end
  | _ => match strip_prefix [123;34;75;34;58] bs with
         | Some r => let (zs, r2) := split_at 44 r in
                     match strip_prefix [34;76;34;58] r2 with
                     | Some r3 => match rev r3 with
                                  | 125 :: m => match parse_Z zs, parse_N (rev m) with
                                                | Some z, Some l => Some (KUser z (N.to_nat l))
                                                | _, _ => None
                                                end
                                  | _ => None
                                  end
                     | None => None
                     end
         | None => None
         end
  end.

Example layer_48_2 : (uint_layer 2 48, uint_layer 3 81, uint_layer 2 0, int_layer 4 (-32)) = (4, 4, 0, 2)%nat.
Proof. vm_compute. reflexivity. Qed.
Example kroundtrip :
  map (fun k => kunmarshal (kind_tag k) (kmarshal k))
      [KInt (-12); KUint 7; KStr [97;98]; KBytes [0;255;3]; KBlob [123;125]; KUser (-3) 2]
  = map Some [KInt (-12); KUint 7; KStr [97;98]; KBytes [0;255;3]; KBlob [123;125]; KUser (-3) 2].
Proof. vm_compute. reflexivity. Qed.
