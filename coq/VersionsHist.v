(** C02 over histories with persists and reloads: a version captured at some point of a history - a
    tree (e.g. a clone) or a persisted root - still has exactly the contents it had then after ANY
    continuation of the history that does not target it: iterating the tree, or loading the root into a
    fresh tree and iterating that, observes the captured entries.  Lemma file. *)
From Coq Require Import List NArith ZArith Lia Bool Sorted.
From Mast Require Import Prim Key Tree KeyOrder Codec Store Diff World Erase Build Spec Canon Links Level Inv Persist Hist Reload WorldInv.
Import ListNotations.

(** the tree / root record a step writes *)
Definition ttarget (o : op) : option N :=
  match o with
  | ONew t _ _ _ _ | OIns t _ _ | ODel t _ _ => Some t
  | OClone _ t2 => Some t2
  | OLoad _ t _ _ => Some t
  | _ => None
  end.
Definition rtarget (o : op) : option N := match o with OMakeRoot _ r => Some r | _ => None end.

Lemma astep2_tree_frame a o t : ttarget o <> Some t -> aget (fst (fst (astep2 a o))) t = aget (fst a) t.
Proof.
  intros H. destruct a as [tr ro]. destruct o; cbn [astep2 ttarget fst] in *;
    repeat match goal with
           | |- context [match ?x with _ => _ end] => destruct x eqn:?; cbn [fst snd]
           end; try reflexivity; try (rewrite aget_aset_other; [reflexivity|congruence]).
Qed.
Lemma astep2_root_frame a o r : rtarget o <> Some r -> aget (snd (fst (astep2 a o))) r = aget (snd a) r.
Proof.
  intros H. destruct a as [tr ro]. destruct o; cbn [astep2 rtarget fst snd] in *;
    repeat match goal with
           | |- context [match ?x with _ => _ end] => destruct x eqn:?; cbn [fst snd]
           end; try reflexivity; try (rewrite aget_aset_other; [reflexivity|congruence]).
Qed.

Lemma awrun2_app : forall ops1 ops2 a, awrun2 a (ops1 ++ ops2) = awrun2 (awrun2 a ops1) ops2.
Proof. induction ops1 as [|o r IH]; intros ops2 a; [reflexivity|]. cbn [app awrun2]. apply IH. Qed.
Lemma arun2_app : forall ops1 ops2 a, arun2 a (ops1 ++ ops2) = arun2 a ops1 ++ arun2 (awrun2 a ops1) ops2.
Proof.
  induction ops1 as [|o r IH]; intros ops2 a; [reflexivity|]. cbn [app arun2 awrun2].
  destruct (astep2 a o) as [a' ob] eqn:E. cbn [fst]. rewrite IH. reflexivity.
Qed.

Lemma tree_stable : forall ops a t, Forall (fun o => ttarget o <> Some t) ops -> aget (fst (awrun2 a ops)) t = aget (fst a) t.
Proof.
  induction ops as [|o r IH]; intros a t H; [reflexivity|]. inversion H; subst. cbn [awrun2]. rewrite IH by assumption.
  apply astep2_tree_frame. assumption.
Qed.
Lemma root_stable : forall ops a r, Forall (fun o => rtarget o <> Some r) ops -> aget (snd (awrun2 a ops)) r = aget (snd a) r.
Proof.
  induction ops as [|o q IH]; intros a r H; [reflexivity|]. inversion H; subst. cbn [awrun2]. rewrite IH by assumption.
  apply astep2_root_frame. assumption.
Qed.

Lemma arun2_single a o : arun2 a [o] = [snd (astep2 a o)].
Proof. cbn [arun2]. destruct (astep2 a o). reflexivity. Qed.
Lemma arun2_two a o1 o2 : arun2 a [o1; o2] = [snd (astep2 a o1); snd (astep2 (fst (astep2 a o1)) o2)].
Proof. cbn [arun2]. destruct (astep2 a o1) as [a1 b1]. cbn [fst snd]. destruct (astep2 a1 o2). reflexivity. Qed.

(** a captured tree: whatever happens afterwards to other trees, roots and the stores *)
Theorem captured_tree_never_changes ops1 ops2 t x :
  conds empty_world ([], []) (ops1 ++ ops2 ++ [OIter t]) ->
  aget (fst (awrun2 ([], []) ops1)) t = Some x ->
  Forall (fun o => ttarget o <> Some t) ops2 ->
  last (map (fun y => pobs (fst y)) (run empty_world (ops1 ++ ops2 ++ [OIter t]))) BOk = BList (at_l x).
Proof.
  intros C E F. destruct (history_refines2 _ empty_world ([], []) winv2_empty C) as [-> _].
  rewrite app_assoc, arun2_app, arun2_single, last_last, awrun2_app.
  pose proof (tree_stable ops2 (awrun2 ([], []) ops1) t F) as S. rewrite E in S.
  destruct (awrun2 (awrun2 ([], []) ops1) ops2) as [tr ro]. cbn [fst] in S. cbn [astep2]. rewrite S. reflexivity.
Qed.

(** a captured root: loading it later - into any tree id, after any continuation that does not
    overwrite the root record - and iterating gives the captured entries *)
Theorem captured_root_never_changes ops1 ops2 r x t' :
  conds empty_world ([], []) (ops1 ++ ops2 ++ [OLoad r t' (at_s x) (at_kind x); OIter t']) ->
  aget (snd (awrun2 ([], []) ops1)) r = Some x ->
  Forall (fun o => rtarget o <> Some r) ops2 ->
  last (map (fun y => pobs (fst y)) (run empty_world (ops1 ++ ops2 ++ [OLoad r t' (at_s x) (at_kind x); OIter t']))) BOk = BList (at_l x).
Proof.
  intros C E F. destruct (history_refines2 _ empty_world ([], []) winv2_empty C) as [-> _].
  rewrite app_assoc, arun2_app, arun2_two, awrun2_app.
  pose proof (root_stable ops2 (awrun2 ([], []) ops1) r F) as S. rewrite E in S.
  destruct (awrun2 (awrun2 ([], []) ops1) ops2) as [tr ro]. cbn [snd] in S.
  change [snd (astep2 (tr, ro) (OLoad r t' (at_s x) (at_kind x))); snd (astep2 (fst (astep2 (tr, ro) (OLoad r t' (at_s x) (at_kind x)))) (OIter t'))]
    with ([snd (astep2 (tr, ro) (OLoad r t' (at_s x) (at_kind x)))] ++ [snd (astep2 (fst (astep2 (tr, ro) (OLoad r t' (at_s x) (at_kind x)))) (OIter t'))]).
  rewrite app_assoc, last_last. cbn [astep2]. rewrite S. cbn [fst snd astep2]. rewrite aget_aset_same. reflexivity.
Qed.
