(** Persist then load is the identity (both node formats; [f] is a section variable, so every lemma
    below takes the format as its first argument): after MakeRoot, LoadMast of the returned root
    from the resulting store yields a tree with the same entries, size, height and branch factor,
    for every residency mix of the persisted tree, provided the element encoding round-trips, sizes
    fit 64 bits and no two different byte strings written share a name.  Lemma file. *)
From Coq Require Import List NArith ZArith Lia Bool Sorted.
From Mast Require Import Prim Key Tree KeyOrder Codec CodecRT CodecV1 NameLen Store Diff World Erase Build Spec Canon Links Level Inv Persist Hist.
Import ListNotations.

Opaque name_of blake2b_256 b64url crc64 uint_layer_fuel.

(** computations with their traces *)
Definition okt {A} (m : M A) (Q : list event -> A -> Prop) : Prop := forall t a, m = (t, Ok a) -> Q t a.
Lemma okt_ret {A} (a : A) (Q : list event -> A -> Prop) : Q [] a -> okt (ret a) Q.
Proof. intros H t b E. inversion E; subst. exact H. Qed.
Lemma okt_bind {A B} (m : M A) (f : A -> M B) (Q1 : list event -> A -> Prop) (Q2 : list event -> B -> Prop) :
  okt m Q1 -> (forall t1 a, Q1 t1 a -> okt (f a) (fun t2 b => Q2 (t1 ++ t2) b)) -> okt (bind m f) Q2.
Proof.
  intros H1 H2 t b E. unfold bind in E. destruct m as [t1 [a| | |]]; try discriminate.
  destruct (f a) as [t2 r] eqn:Ef. inversion E; subst. eapply (H2 t1 a); [eapply H1; reflexivity|exact Ef].
Qed.

Lemma okt_tick e : okt (tick e) (fun t _ => t = [e]).
Proof. intros t a E. inversion E. reflexivity. Qed.

(** * the store *)
Fixpoint nocoll (s : store) (t : list event) : Prop :=
  match t with
  | [] => True
  | EStore h b :: r => (Store.lookup s h = None \/ Store.lookup s h = Some b) /\ nocoll (put s h b) r
  | _ :: r => nocoll s r
  end.

Lemma apply_stores_app s t1 t2 : apply_stores s (t1 ++ t2) = apply_stores (apply_stores s t1) t2.
Proof. revert s. induction t1 as [|e r IH]; intros s; [reflexivity|]. destruct e; cbn [app apply_stores]; apply IH. Qed.
Lemma nocoll_app s t1 t2 : nocoll s (t1 ++ t2) <-> nocoll s t1 /\ nocoll (apply_stores s t1) t2.
Proof.
  revert s. induction t1 as [|e r IH]; intros s; [cbn; tauto|].
  destruct e; cbn [app nocoll apply_stores]; try apply IH. rewrite IH. tauto.
Qed.

Definition extends (s s' : store) : Prop := forall h b, Store.lookup s h = Some b -> Store.lookup s' h = Some b.
Lemma extends_refl s : extends s s.
Proof. intros h b H. exact H. Qed.
Lemma extends_trans s1 s2 s3 : extends s1 s2 -> extends s2 s3 -> extends s1 s3.
Proof. intros A B h b H. apply B, A, H. Qed.
Lemma extends_apply s t : extends s (apply_stores s t).
Proof. intros h b H. apply apply_stores_keeps. exact H. Qed.

(** * element texts a format can carry: the binary format takes any byte string whose length fits 64
    bits; the v1marshaler format takes JSON value texts ([elem_ok]) and names that need no escaping *)
Definition body_ok (f : nfmt) (b : bytes) : Prop :=
  match f with FBin => small_list b | FV1 => elem_ok b = true end.
Definition hname_ok (f : nfmt) (h : name) : Prop :=
  match f with FBin => small_list h | FV1 => plain h = true end.

Lemma parse_fmt_string f : parse_fmt (fmt_string f) = Some f.
Proof. destruct f; reflexivity. Qed.

Lemma decode_encode_node f keys vals links :
  length vals = length keys -> CodecRT.links_ok (length keys) links ->
  small (N.of_nat (length keys)) -> small (N.of_nat (length links)) ->
  Forall (body_ok f) keys -> Forall (body_ok f) vals ->
  Forall (fun l => match l with Some h => hname_ok f h | None => True end) links ->
  decode_node f (encode_node f keys vals links) = Some (keys, vals, links).
Proof.
  intros Hv Hl Hck Hcl Hk Hvs Hls. destruct f; cbn [decode_node encode_node body_ok hname_ok] in *.
  - apply decode_encode_bin; try assumption.
    eapply Forall_impl; [|exact Hls]. intros [h|] H; [exact H|unfold small_list, small; cbn; lia].
  - destruct Hl as [Hll Hlf]. apply decode_encode_v1; try assumption.
    unfold v1_links_ok. rewrite Forall_forall in *. intros [h|] Hin; [|exact I].
    split; [|exact (Hls _ Hin)]. specialize (Hlf _ Hin). cbn in Hlf. destruct h; [contradiction|discriminate].
Qed.

Lemma name_of_ok_f f b : name_of b <> [] /\ hname_ok f (name_of b) /\ plain (name_of b) = true.
Proof. split; [apply name_of_ok|]. split; [|apply name_plain]. destruct f; cbn [hname_ok]; [apply name_of_ok|apply name_plain]. Qed.

Section FMT.
Variable f : nfmt.

(** * what it means for a node to be in the store *)
Definition key_rt (kind : N) (k : key) : Prop := kunmarshal kind (kmarshal k) = Some k.
Definition entry_ok (kind : N) (e : entry key val) : Prop :=
  key_rt kind (ekey _ _ e) /\ body_ok f (kmarshal (ekey _ _ e)) /\ body_ok f (eval _ _ e).
Definition name_ok (h : name) : Prop := h <> [] /\ hname_ok f h /\ plain h = true.

Inductive sto (s : store) (kind : N) : name -> knode -> Prop :=
| sto_node h l0 (es : list (entry key val)) :
    Store.lookup s h = Some (node_bytes f (Node false (Some h) l0 es)) ->
    sto_l s kind l0 -> Forall (fun e => sto_l s kind (elink _ _ e)) es ->
    Forall (entry_ok kind) es -> small (N.of_nat (S (length es))) -> name_ok h ->
    sto s kind h (Node false (Some h) l0 es)
with sto_l (s : store) (kind : N) : klink -> Prop :=
| sl_nil : sto_l s kind LNil
| sl_hash h c : sto s kind h c -> sto_l s kind (LHash h c).

Lemma sto_mono s s' kind : extends s s' -> forall fuel h c, fits key val fuel c -> sto s kind h c -> sto s' kind h c.
Proof.
  intros Hx. induction fuel as [|fl IH]; intros h c Hf H; [contradiction|].
  inversion H as [h' l0 es Hl H0 Hes Hok Hsm Hn]; subst. cbn [fits n_l0 n_es] in Hf. destruct Hf as [Hf0 Hfes].
  assert (Hlk : forall l, fitsl_of key val (fits key val fl) l -> sto_l s kind l -> sto_l s' kind l).
  { intros l Hfl Hl'. inversion Hl' as [|h2 c2 Hc2]; subst; [constructor|]. constructor. apply IH; [exact Hfl|exact Hc2]. }
  constructor; try assumption.
  - apply Hx. exact Hl.
  - apply Hlk; assumption.
  - clear -Hes Hfes Hlk. induction Hes as [|e r He _ IHr]; [constructor|]. inversion Hfes; subst. constructor; [apply Hlk; assumption|apply IHr; assumption].
Qed.

(** hereditary: the children of a stored node are stored *)
Lemma sto_hered s kind h c : sto s kind h c -> allh key val (sto s kind) c.
Proof.
  intros H. inversion H as [h' l0 es Hl H0 Hes Hok Hsm Hn]; subst.
  assert (Hlk : forall l, sto_l s kind l -> allh_l key val (sto s kind) l).
  { intros l Hl'. inversion Hl'; subst; constructor. assumption. }
  constructor.
  - apply Hlk. exact H0.
  - eapply Forall_impl; [|exact Hes]. intros e. apply Hlk.
  - intros _ h2 E. inversion E; subst. exact H.
Qed.

(** * resolving a stored node gives back exactly that node *)
Lemma unmarshal_keys_rt kind (ks : list key) : Forall (key_rt kind) ks -> unmarshal_keys kind (map kmarshal ks) = Some ks.
Proof. induction 1 as [|k r Hk _ IH]; [reflexivity|]. cbn [map unmarshal_keys]. rewrite Hk, IH. reflexivity. Qed.

Lemma rebuild_entries (rl : option name -> klink) (es : list (entry key val)) :
  Forall (fun e => rl (link_name (elink _ _ e)) = elink _ _ e) es ->
  map (fun t : key * val * option name => (fst (fst t), snd (fst t), rl (snd t)))
      (combine (combine (map (ekey _ _) es) (map (eval _ _) es)) (map link_name (map (elink _ _) es))) = es.
Proof.
  induction 1 as [|[[k v] l] r Hl _ IH]; [reflexivity|].
  cbn [map combine ekey eval elink fst snd] in *. rewrite Hl, IH. reflexivity.
Qed.

Lemma resolve_sto s kind : forall fuel h c, sto s kind h c -> fits key val fuel c -> resolve fuel s f kind h = LHash h c.
Proof.
  induction fuel as [|fl IH]; intros h c H Hf; [contradiction|].
  inversion H as [h' l0 es Hl H0 Hes Hok Hsm Hn]; subst. cbn [fits n_l0 n_es] in Hf. destruct Hf as [Hf0 Hfes].
  cbn [resolve]. rewrite Hl. unfold node_bytes. cbn [n_es n_links n_l0 map].
  assert (Hrl : forall l, fitsl_of key val (fits key val fl) l -> sto_l s kind l ->
            (match link_name l with None => LNil | Some c0 => resolve fl s f kind c0 end) = l).
  { intros l Hfl Hl'. inversion Hl' as [|h2 c2 Hc2]; subst; [reflexivity|]. cbn [link_name]. apply IH; assumption. }
  assert (Hnames : Forall (fun l : option name => match l with Some [] => False | _ => True end)
                          (link_name l0 :: map link_name (map (elink _ _) es))).
  { constructor.
    - inversion H0 as [|h2 c2 Hc2]; subst; [exact I|]. cbn [link_name]. inversion Hc2; subst.
      match goal with Hx : name_ok h2 |- _ => destruct Hx as [Hx _] end. destruct h2; [contradiction|exact I].
    - clear -Hes. induction Hes as [|e r He _ IHr]; [constructor|]. cbn [map]. constructor; [|exact IHr].
      inversion He as [|h2 c2 Hc2]; subst; [exact I|]. cbn [link_name]. inversion Hc2; subst.
      match goal with Hx : name_ok h2 |- _ => destruct Hx as [Hx _] end. destruct h2; [contradiction|exact I]. }
  assert (Hsmall : Forall (fun l : option name => match l with Some h0 => hname_ok f h0 | None => True end) (link_name l0 :: map link_name (map (elink _ _) es))).
  { constructor.
    - inversion H0 as [|h2 c2 Hc2]; subst; [exact I|]. cbn [link_name]. inversion Hc2; subst.
      match goal with Hx : name_ok h2 |- _ => exact (proj1 (proj2 Hx)) end.
    - clear -Hes. induction Hes as [|e r He _ IHr]; [constructor|]. cbn [map]. constructor; [|exact IHr].
      inversion He as [|h2 c2 Hc2]; subst; [exact I|]. cbn [link_name]. inversion Hc2; subst.
      match goal with Hx : name_ok h2 |- _ => exact (proj1 (proj2 Hx)) end. }
  rewrite decode_encode_node.
  - rewrite <- (map_map (ekey _ _) kmarshal), unmarshal_keys_rt.
    + cbn [length]. rewrite !map_length, !Nat.eqb_refl. cbn [negb orb map]. cbv beta.
      rewrite (Hrl l0 Hf0 H0). f_equal. f_equal.
      change (map (fun e : entry key val => eval key val e) es) with (map (eval key val) es).
      apply (rebuild_entries (fun l : option name => match l with Some c => resolve fl s f kind c | None => LNil end)).
      clear -Hes Hfes Hrl. induction Hes as [|e r He _ IHr]; [constructor|]. inversion Hfes; subst.
      constructor; [apply Hrl; assumption|apply IHr; assumption].
    + rewrite Forall_map. eapply Forall_impl; [|exact Hok]. intros e [Hk _]. exact Hk.
  - rewrite !map_length. reflexivity.
  - split; [cbn [length]; rewrite !map_length; reflexivity|exact Hnames].
  - rewrite map_length. unfold small in *. lia.
  - cbn [length]. rewrite !map_length. exact Hsm.
  - rewrite Forall_map. eapply Forall_impl; [|exact Hok]. intros e (_ & Hk & _). exact Hk.
  - change (map (fun e : entry key val => eval key val e) es) with (map (eval key val) es).
    rewrite Forall_map. eapply Forall_impl; [|exact Hok]. intros e (_ & _ & Hv). exact Hv.
  - exact Hsmall.
Qed.

(** * persisting puts every node of the version into the store *)
Definition kv_ok (kind : N) (x : key * val) : Prop :=
  key_rt kind (fst x) /\ body_ok f (kmarshal (fst x)) /\ body_ok f (snd x).

Lemma entries_in_list (n : knode) e : In e (n_es _ _ n) -> In (ekey _ _ e, eval _ _ e) (to_list_n _ _ n).
Proof.
  destruct n as [d s l0 es]. cbn [n_es]. intros H. rewrite to_list_n_eq. apply in_or_app. right.
  apply in_flat_map. exists e. split; [exact H|left; reflexivity].
Qed.

Lemma child_list_incl (n : knode) (l : klink) :
  (l = n_l0 _ _ n \/ In l (map (elink _ _) (n_es _ _ n))) -> incl (to_list _ _ l) (to_list_n _ _ n).
Proof.
  destruct n as [d s l0 es]. cbn [n_l0 n_es]. rewrite to_list_n_eq. intros [->|H] x Hx; apply in_or_app; [left; exact Hx|right].
  apply in_map_iff in H. destruct H as (e & He & Hin). apply in_flat_map. exists e. split; [exact Hin|right; rewrite He; exact Hx].
Qed.

Lemma entries_length (n : knode) : (length (n_es _ _ n) <= length (to_list_n _ _ n))%nat.
Proof.
  destruct n as [d s l0 es]. cbn [n_es]. rewrite to_list_n_eq, app_length.
  assert (H : (length es <= length (flat_map (fun e : entry key val => (ekey _ _ e, eval _ _ e) :: to_list _ _ (elink _ _ e)) es))%nat).
  { induction es as [|e r IH]; [cbn; lia|]. cbn [flat_map length]. rewrite app_length. cbn [length]. lia. }
  lia.
Qed.

Definition list_ok (kind : N) (l : list (key * val)) : Prop :=
  Forall (kv_ok kind) l /\ small (N.of_nat (S (length l))).

Lemma list_ok_incl kind l l' : list_ok kind l -> incl l' l -> (length l' <= length l)%nat -> list_ok kind l'.
Proof.
  intros [Hf Hs] Hi Hl. split.
  - rewrite Forall_forall in *. intros x Hx. apply Hf, Hi, Hx.
  - unfold small in *. lia.
Qed.

Lemma to_list_child_length (n : knode) (l : klink) :
  (l = n_l0 _ _ n \/ In l (map (elink _ _) (n_es _ _ n))) -> (length (to_list _ _ l) <= length (to_list_n _ _ n))%nat.
Proof.
  destruct n as [d s l0 es]. cbn [n_l0 n_es]. rewrite to_list_n_eq, app_length. intros [->|H]; [lia|].
  apply in_map_iff in H. destruct H as (e & He & Hin). subst l.
  assert (Hle : (length (to_list _ _ (elink _ _ e)) <= length (flat_map (fun e0 : entry key val => (ekey _ _ e0, eval _ _ e0) :: to_list _ _ (elink _ _ e0)) es))%nat).
  { induction es as [|e0 r IH]; [contradiction|]. cbn [flat_map length]. rewrite app_length. destruct Hin as [->|Hin]; [cbn [length]; lia|specialize (IH Hin); cbn [length]; lia]. }
  lia.
Qed.

Lemma put_found s h b : (Store.lookup s h = None \/ Store.lookup s h = Some b) -> Store.lookup (put s h b) h = Some b.
Proof.
  intros [H|H]; unfold put; rewrite H; [|exact H]. cbn [Store.lookup]. rewrite (proj2 (bytes_eqb_eq h h) eq_refl). reflexivity.
Qed.

(* monotonicity without a depth bound: by structural recursion on the derivation *)
Lemma sto_mono' s s' kind : extends s s' -> forall h c, sto s kind h c -> sto s' kind h c.
Proof.
  intros Hx. fix IH 3. intros h c H. destruct H as [h l0 es Hl H0 Hes Hok Hsm Hn]. constructor; try assumption.
  - apply Hx. exact Hl.
  - destruct H0 as [|h2 c2 Hc2]; constructor. apply IH. exact Hc2.
  - clear Hl Hok Hsm H0 Hn. revert es Hes. fix IHes 2. intros es Hes. destruct Hes as [|e r He Hr]; constructor.
    + destruct He as [|h2 c2 Hc2]; constructor. apply IH. exact Hc2.
    + apply IHes. exact Hr.
Qed.

Lemma sto_l_mono s s' kind l : extends s s' -> sto_l s kind l -> sto_l s' kind l.
Proof. intros Hx H. destruct H as [|h c Hc]; constructor. eapply sto_mono'; eassumption. Qed.

Lemma allh_mono (P P' : name -> knode -> Prop) : (forall h c, P h c -> P' h c) ->
  forall n, allh key val P n -> allh key val P' n.
Proof.
  intros HP. fix IH 2. intros n H. destruct H as [d sr l0 es H0 Hes Hc]. constructor.
  - destruct H0 as [|c Hc0|h c Hc0]; constructor; [apply IH; exact Hc0|apply HP; exact Hc0].
  - clear H0 Hc. revert es Hes. fix IHes 2. intros es Hes. destruct Hes as [|e r He Hr]; constructor.
    + destruct He as [|c Hc0|h c Hc0]; constructor; [apply IH; exact Hc0|apply HP; exact Hc0].
    + apply IHes. exact Hr.
  - intros Hd h E. apply HP. apply Hc; assumption.
Qed.

Lemma allh_l_mono (P P' : name -> knode -> Prop) l : (forall h c, P h c -> P' h c) ->
  allh_l key val P l -> allh_l key val P' l.
Proof. intros HP H. destruct H as [|c Hc|h c Hc]; constructor; [eapply allh_mono; eassumption|apply HP; exact Hc]. Qed.

Lemma node_bytes_flags g d s d' s' l0 (es : list (entry key val)) :
  node_bytes g (Node d s l0 es) = node_bytes g (Node d' s' l0 es).
Proof. reflexivity. Qed.

Lemma extends_put s h b : extends s (put s h b).
Proof. intros h' b' H. apply put_keeps. exact H. Qed.

Definition stl (fu : nat) (l : klink) : M klink :=
  match l with LPtr c => let* (h, c') := store_node fu f c in ret (LHash h c') | _ => ret l end.

Lemma store_node_sto kind : forall fuel (n : knode) s,
  fits key val fuel n -> allh key val (sto s kind) n -> list_ok kind (to_list_n _ _ n) ->
  okt (store_node fuel f n) (fun t r => nocoll s t -> sto (apply_stores s t) kind (fst r) (snd r)).
Proof.
  induction fuel as [|fu IH]; intros n s Hf Hall Hok; [contradiction|].
  cbn [fits] in Hf. destruct Hf as [Hf0 Hfes]. destruct (allh_inv _ _ _ _ Hall) as [Ha0 Haes].
  destruct n as [d sr l0 es]. cbn [n_l0 n_es] in *.
  (* one link, processed at a later store s1 *)
  assert (Hst : forall (l : klink) s1, extends s s1 -> fitsl_of key val (fits key val fu) l -> allh_l key val (sto s kind) l ->
            list_ok kind (to_list _ _ l) ->
            okt (stl fu l) (fun t l' => nocoll s1 t -> sto_l (apply_stores s1 t) kind l')).
  { intros l s1 Hx Hfl Hal Hlo. unfold stl. destruct l as [|c|h c|h].
    - apply okt_ret. intros _. constructor.
    - cbn [fitsl_of] in Hfl. cbn [to_list] in Hlo.
      assert (Hc : allh key val (sto s1 kind) c).
      { inversion Hal; subst. eapply allh_mono; [|eassumption]. intros h0 c0. apply sto_mono'. exact Hx. }
      eapply okt_bind; [exact (IH c s1 Hfl Hc Hlo)|]. intros t1 [h c'] Hq. cbn [fst snd] in Hq.
      apply okt_ret. rewrite app_nil_r. intros Hn. constructor. exact (Hq Hn).
    - apply okt_ret. intros _. cbn [apply_stores]. inversion Hal; subst. constructor. eapply sto_mono'; eassumption.
    - inversion Hal. }
  (* the entries, left to right *)
  assert (Hgo : forall (es0 : list (entry key val)) s1, extends s s1 ->
            Forall (fun e => fitsl_of key val (fits key val fu) (elink _ _ e)) es0 ->
            Forall (fun e => allh_l key val (sto s kind) (elink _ _ e)) es0 ->
            Forall (fun e => list_ok kind (to_list _ _ (elink _ _ e))) es0 ->
            Forall (entry_ok kind) es0 ->
            okt ((fix go (es : list (entry key val)) : M (list (entry key val)) :=
                    match es with
                    | [] => ret []
                    | (k, v, l) :: r => let* l' := stl fu l in let* r' := go r in ret ((k, v, l') :: r')
                    end) es0)
                (fun t es' => nocoll s1 t ->
                   Forall (fun e => sto_l (apply_stores s1 t) kind (elink _ _ e)) es' /\
                   Forall (entry_ok kind) es' /\ length es' = length es0)).
  { induction es0 as [|[[k v] l] r IHr]; intros s1 Hx Hfl Hal Hlo Heo.
    - apply okt_ret. intros _. split; [constructor|split; [constructor|reflexivity]].
    - inversion Hfl; subst. inversion Hal; subst. inversion Hlo; subst. inversion Heo; subst. cbn [elink snd] in *.
      eapply okt_bind; [apply (Hst l s1 Hx); assumption|]. intros t1 l' Hl'.
      eapply okt_bind; [apply (IHr (apply_stores s1 t1)); try assumption; eapply extends_trans; [exact Hx|apply extends_apply]|].
      intros t2 r' Hr'. apply okt_ret. rewrite app_nil_r. intros Hn. apply nocoll_app in Hn. destruct Hn as [Hn1 Hn2].
      specialize (Hl' Hn1). destruct (Hr' Hn2) as (A & B & C). rewrite apply_stores_app. split; [|split].
      + constructor; [cbn [elink snd]; eapply sto_l_mono; [apply extends_apply|exact Hl']|exact A].
      + constructor; [|exact B]. match goal with H : entry_ok kind (k, v, l) |- _ => exact H end.
      + cbn [length]. rewrite C. reflexivity. }
  (* facts about the children and entries of this node *)
  assert (Hlo0 : list_ok kind (to_list _ _ l0)).
  { eapply list_ok_incl; [exact Hok|apply (child_list_incl (Node d sr l0 es)); left; reflexivity|apply (to_list_child_length (Node d sr l0 es)); left; reflexivity]. }
  assert (Hloes : Forall (fun e => list_ok kind (to_list _ _ (elink _ _ e))) es).
  { rewrite Forall_forall. intros e He. eapply list_ok_incl; [exact Hok| |].
    - apply (child_list_incl (Node d sr l0 es)). right. cbn [n_es]. apply in_map. exact He.
    - apply (to_list_child_length (Node d sr l0 es)). right. cbn [n_es]. apply in_map. exact He. }
  assert (Heo : Forall (entry_ok kind) es).
  { rewrite Forall_forall. intros e He. destruct Hok as [Hk _]. rewrite Forall_forall in Hk.
    exact (Hk _ (entries_in_list (Node d sr l0 es) e He)). }
  assert (Hlen : small (N.of_nat (S (length es)))).
  { destruct Hok as [_ Hs]. pose proof (entries_length (Node d sr l0 es)) as L. cbn [n_es] in L. unfold small in *. lia. }
  assert (Hbody : okt (let* l0' := stl fu l0 in
      let* es' := (fix go (es : list (entry key val)) : M (list (entry key val)) :=
                     match es with
                     | [] => ret []
                     | (k, v, l) :: r => let* l' := stl fu l in let* r' := go r in ret ((k, v, l') :: r')
                     end) es in
      let b := node_bytes f (Node false None l0' es') in
      let h := name_of b in
      tick (EStore h b) >> ret (h, Node false (Some h) l0' es'))
      (fun t r => nocoll s t -> sto (apply_stores s t) kind (fst r) (snd r))).
  { eapply okt_bind; [exact (Hst l0 s (extends_refl s) Hf0 Ha0 Hlo0)|]. intros t1 l0' Hl0'.
    eapply okt_bind; [exact (Hgo es (apply_stores s t1) (extends_apply s t1) Hfes Haes Hloes Heo)|]. intros t2 es' Hes'.
    cbn zeta. set (b := node_bytes f (Node false None l0' es')). set (h := name_of b).
    eapply okt_bind; [apply (okt_tick (EStore h b))|]. intros t3 [] ->. apply okt_ret.
    rewrite app_nil_r. intros Hn. apply nocoll_app in Hn. destruct Hn as [Hn1 Hn2]. apply nocoll_app in Hn2. destruct Hn2 as [Hn2 Hn3].
    cbn [nocoll] in Hn3. destruct Hn3 as [Hcoll _].
    specialize (Hl0' Hn1). destruct (Hes' Hn2) as (A & B & C).
    rewrite !apply_stores_app. cbn [apply_stores fst snd].
    set (s2 := apply_stores (apply_stores s t1) t2) in *.
    constructor.
    - rewrite (node_bytes_flags f false (Some h) false None). apply put_found. exact Hcoll.
    - eapply sto_l_mono; [|exact Hl0']. eapply extends_trans; [apply extends_apply|apply extends_put].
    - eapply Forall_impl; [|exact A]. intros e He. eapply sto_l_mono; [apply extends_put|exact He].
    - exact B.
    - rewrite C. exact Hlen.
    - apply name_of_ok_f. }
  cbn [store_node n_dirty n_src n_l0 n_es].
  destruct d; [exact Hbody|]. destruct sr as [h|]; [|exact Hbody].
  apply okt_ret. intros _. cbn [apply_stores fst snd]. exact (allh_clean _ _ _ _ h Hall eq_refl eq_refl).
Qed.

(** * LoadMast of a stored canonical version *)

Lemma keys_ok_of bf h : forall (es : list (entry key val)) last,
  Forall (fun e => h <= klayer bf (ekey _ _ e)) es ->
  StronglySorted (fun a b => kcmp a b = Lt) (match last with Some p => p :: map (ekey _ _) es | None => map (ekey _ _) es end) ->
  keys_ok bf h last es = true.
Proof.
  induction es as [|e es IH]; intros last Hl Hs; [reflexivity|].
  inversion Hl as [|? ? Hle Hl']; subst. cbn [keys_ok].
  assert (Hneg : negb (Nat.ltb (klayer bf (ekey _ _ e)) h) = true) by (apply negb_true_iff, Nat.ltb_ge; assumption).
  rewrite Hneg. destruct last as [p|].
  - inversion Hs as [|? ? Hs' Hall]; subst. cbn [map] in Hall. inversion Hall as [|? ? Hp _]; subst. rewrite Hp. cbn [andb].
    apply IH; [exact Hl'|exact Hs'].
  - cbn [andb]. apply IH; [exact Hl'|exact Hs].
Qed.

Lemma check_keys_succeeds bf h : forall (es : list (entry key val)) last,
  keys_ok bf h last es = true -> oks (check_keys bf h last es) (fun _ => True).
Proof.
  induction es as [|e es IH]; intros last H; [apply oks_ret; exact I|].
  cbn [keys_ok] in H. apply andb_true_iff in H. destruct H as [H H3]. apply andb_true_iff in H. destruct H as [H1 H2].
  cbn [check_keys]. apply (oks_bind _ _ (fun _ => True)).
  - destruct last as [p|]; [|apply oks_ret; exact I]. apply oks_tick. destruct (kcmp p (ekey _ _ e)); try discriminate. apply oks_ret. exact I.
  - intros _ _. apply oks_tick. apply negb_true_iff in H2. rewrite H2. apply IH. exact H3.
Qed.

(* the keys of the top node of a canonical tree are ascending and have layer >= its level *)
Lemma top_keys_ok bf hh (n : knode) l :
  erase_n _ _ n = bnode _ _ (klayer bf) hh l -> ssorted key val kcmp l ->
  keys_ok bf hh None (n_es _ _ n) = true.
Proof.
  intros He Hs. destruct (node_inv key val (klayer bf) _ _ _ He) as [_ Hes].
  assert (Hk : map (ekey _ _) (n_es _ _ n) = map (pkey _ _) (snd (segs key val (klayer bf) hh l))).
  { rewrite <- (map_map (erase_e key val) (ekey key val)), Hes. unfold mk_es. rewrite map_map. reflexivity. }
  apply keys_ok_of.
  - pose proof (segs_layers key val (klayer bf) hh l) as [_ Hp].
    assert (Hf : Forall (fun k => hh <= klayer bf k) (map (ekey _ _) (n_es _ _ n))).
    { rewrite Hk, Forall_map. eapply Forall_impl; [|exact Hp]. intros p [Hp1 _]. exact Hp1. }
    rewrite Forall_map in Hf. exact Hf.
  - rewrite Hk. clear -Hs.
    (* pivots of a sorted list are sorted *)
    induction l as [|[k v] r IH]; [constructor|].
    inversion Hs as [|? ? Hr Hall]; subst. specialize (IH Hr). cbn [segs].
    destruct (segs key val (klayer bf) hh r) as [s0 ps] eqn:E. cbn [snd] in IH.
    destruct (Nat.leb hh (klayer bf k)); cbn [snd map]; [|exact IH].
    constructor; [exact IH|]. rewrite Forall_map. rewrite Forall_forall. intros p Hp.
    assert (Hin : In (pkey _ _ p, pval _ _ p) r).
    { rewrite <- (segs_flat key val (klayer bf) hh r), E. cbn [fst snd]. apply (flat_in key val). right. exists p. split; [exact Hp|left; reflexivity]. }
    rewrite Forall_forall in Hall. exact (Hall _ Hin).
Qed.

Lemma hrule_nil_height bf h : hrule key val (klayer bf) bf [] h -> h = 0.
Proof. intros [[->|[Hl _]] _]; [reflexivity|]. inversion Hl. Qed.

Theorem load_canon s kind bf hh sz h (n : knode) l :
  sto s kind h n -> erase_n _ _ n = bnode _ _ (klayer bf) hh l -> ssorted key val kcmp l ->
  sz = N.of_nat (length l) -> (2 <= bf)%N -> hrule key val (klayer bf) bf l hh ->
  oks (load_mast s kind (Root (Some h) sz hh bf (fmt_string f)))
      (fun r => fst r = f /\ kcanon bf (snd r) l /\ m_root _ _ (snd r) = LHash h n).
Proof.
  intros Hsto He Hs Hsz Hbf Hh. unfold load_mast. cbn [r_fmt r_link r_height r_size r_bf].
  rewrite parse_fmt_string. cbv beta iota zeta.
  rewrite (resolve_sto s kind (S hh) h n Hsto (fits_bnode key val (klayer bf) _ _ _ He)). cbn [load].
  apply (oks_bind _ _ (fun c => c = n)).
  - apply (oks_bind _ _ (fun _ => True)); [exists [ELoad h], tt; split; [reflexivity|exact I]|intros; apply oks_ret; reflexivity].
  - intros c ->. apply (oks_bind _ _ (fun _ => True)); [apply check_keys_succeeds; exact (top_keys_ok bf hh n l He Hs)|].
    intros _ _. apply oks_ret. cbn [fst snd]. split; [reflexivity|]. split; [|reflexivity].
    constructor; cbn [m_root m_height m_size m_bf m_grow_after m_shrink_below].
    + exists n. split; [reflexivity|exact He].
    + exact Hs.
    + exact Hsz.
    + exact Hbf.
    + cbn [pow_N]. apply N.mul_comm.
    + reflexivity.
    + exact Hh.
    + reflexivity.
Qed.

Theorem load_canon_empty s kind bf sz hh :
  sz = 0%N -> hh = 0 -> (2 <= bf)%N ->
  oks (load_mast s kind (Root None sz hh bf (fmt_string f)))
      (fun r => fst r = f /\ kcanon bf (snd r) [] /\ m_root _ _ (snd r) = LPtr (fresh_node key val)).
Proof.
  intros -> -> Hbf. unfold load_mast. cbn [r_fmt r_link r_height r_size r_bf]. rewrite parse_fmt_string. cbv beta iota zeta.
  cbn [load]. apply (oks_bind _ _ (fun c => c = fresh_node key val)); [apply oks_ret; reflexivity|]. intros c ->.
  cbn [n_es fresh_node check_keys]. apply (oks_bind _ _ (fun _ => True)); [apply oks_ret; exact I|]. intros _ _.
  apply oks_ret. cbn [fst snd]. split; [reflexivity|]. cbn [pow_N]. split; [|reflexivity].
  exact (empty_canon key val kcmp (klayer bf) bf false Hbf).
Qed.

(** * persist then load is the identity *)
Lemma bind_ok_inv {A B} (m : M A) (g : A -> M B) t b :
  bind m g = (t, Ok b) -> exists t1 a t2, m = (t1, Ok a) /\ g a = (t2, Ok b) /\ t = t1 ++ t2.
Proof.
  unfold bind. destruct m as [t1 [a| | |]]; try discriminate. destruct (g a) as [t2 r] eqn:E. intros H. inversion H; subst.
  exists t1, a, t2. repeat split. exact E.
Qed.

Lemma nocoll_load s h t : nocoll s (ELoad h :: t) <-> nocoll s t.
Proof. reflexivity. Qed.

Definition root_allh (s : store) (kind : N) (m : kmast) : Prop := allh_l key val (sto s kind) (m_root _ _ m).

Lemma root_node_allh s kind (r : klink) n : allh_l key val (sto s kind) r -> root_n _ _ r = Some n -> allh key val (sto s kind) n.
Proof.
  intros H Hr. destruct r as [|c|h c|h]; cbn [root_n] in Hr; inversion Hr; subst.
  - apply allh_fresh.
  - inversion H; assumption.
  - inversion H; subst. apply sto_hered with (h := h). assumption.
Qed.

Lemma flush_nonnil s kind bf (m : kmast) l (r : klink) n tl t1 lk m1 :
  kcanon bf m l -> root_allh s kind m -> list_ok kind l ->
  m_root _ _ m = r -> root_n _ _ r = Some n -> erase_n _ _ n = bnode _ _ (klayer bf) (m_height _ _ m) l ->
  load _ _ r = (tl, Ok n) -> (forall s0, apply_stores s0 tl = s0) -> (forall s0 t, nocoll s0 (tl ++ t) -> nocoll s0 t) ->
  (let* n0 := load _ _ r in
   if is_empty _ _ n0 then ret (None, m)
   else let* (h, n') := store_node (S (S (m_height _ _ m))) f n0 in
        ret (Some h, set_root _ _ m (LHash h n') (m_emptied _ _ m))) = (t1, Ok (lk, m1)) ->
  nocoll s t1 ->
  oks (load_mast (apply_stores s t1) kind (Root lk (m_size _ _ m1) (m_height _ _ m1) (m_bf _ _ m1) (fmt_string f)))
      (fun r => fst r = f /\ kcanon bf (snd r) l /\ root_allh (apply_stores s t1) kind (snd r)) /\
  kcanon bf m1 l /\ root_allh (apply_stores s t1) kind m1.
Proof.
  intros C Hall Hlo Eroot Hrn He Hld Htl Hntl Ef Hn.
  pose proof (cn_bf _ _ _ _ _ _ _ C) as Hbf. pose proof (cn_bfeq _ _ _ _ _ _ _ C) as Hbfe.
  apply bind_ok_inv in Ef. destruct Ef as (tl' & n0 & t2 & El & Ef & ->).
  rewrite Hld in El. inversion El; subst tl' n0. clear El.
  rewrite apply_stores_app, Htl. apply Hntl in Hn.
  destruct (is_empty _ _ n) eqn:Eem.
  - unfold ret in Ef. inversion Ef; subst t2 lk m1. clear Ef. cbn [apply_stores].
    assert (El : l = []) by (apply (is_empty_bnode key val (klayer bf) _ _ _ He); exact Eem). subst l.
    assert (Hs0 : m_size _ _ m = 0%N) by exact (cn_size _ _ _ _ _ _ _ C).
    assert (Hh0 : m_height _ _ m = 0).
    { pose proof (cn_h _ _ _ _ _ _ _ C) as Hh. rewrite Hbfe in Hh. exact (hrule_nil_height bf _ Hh). }
    split; [|split; [exact C|exact Hall]].
    rewrite Hbfe. eapply oks_weaken; [apply load_canon_empty; [exact Hs0|exact Hh0|rewrite <- Hbfe; exact Hbf]|].
    intros r0 [A [B Cc]]. split; [exact A|split; [exact B|unfold root_allh; rewrite Cc; constructor; apply allh_fresh]].
  - apply bind_ok_inv in Ef. destruct Ef as (t' & [hh n'] & t3 & Est & Er & ->).
    unfold ret in Er. inversion Er; subst t3 lk m1. clear Er. rewrite app_nil_r in *.
    assert (Hfits : fits key val (S (S (m_height _ _ m))) n) by (apply fits_mono; exact (fits_bnode key val (klayer bf) _ _ _ He)).
    assert (Hlist : to_list_n _ _ n = l) by exact (canon_list key val (klayer bf) _ _ _ He).
    assert (Hsto : sto (apply_stores s t') kind hh n').
    { refine (store_node_sto kind _ n s Hfits _ _ t' (hh, n') Est Hn).
      - apply (root_node_allh s kind r); [rewrite <- Eroot; exact Hall|exact Hrn].
      - rewrite Hlist. exact Hlo. }
    assert (Her : erase_n _ _ n' = erase_n _ _ n).
    { destruct (store_node_erase _ f n Hfits) as (t0 & r0 & E0 & H0). rewrite Est in E0. inversion E0; subst. exact H0. }
    cbn [set_root m_size m_height m_bf m_root].
    split; [|split].
    + rewrite Hbfe. eapply oks_weaken; [apply (load_canon _ kind bf _ _ hh n' l Hsto)|
        intros r0 [A [B Cc]]; split; [exact A|split; [exact B|unfold root_allh; rewrite Cc; constructor; exact Hsto]]].
      * rewrite Her. exact He.
      * exact (cn_sorted _ _ _ _ _ _ _ C).
      * exact (cn_size _ _ _ _ _ _ _ C).
      * rewrite <- Hbfe. exact Hbf.
      * pose proof (cn_h _ _ _ _ _ _ _ C) as Hh. rewrite Hbfe in Hh. exact Hh.
    + eapply canon_set_root; [exact C|reflexivity|]. rewrite Her. exact He.
    + unfold root_allh. cbn [set_root m_root]. constructor. exact Hsto.
Qed.

Theorem persist_then_load s kind bf (m : kmast) l t rt m' :
  kcanon bf m l -> root_allh s kind m -> list_ok kind l ->
  make_root f m = (t, Ok (rt, m')) -> nocoll s t ->
  oks (load_mast (apply_stores s t) kind rt)
      (fun r => fst r = f /\ kcanon bf (snd r) l /\ root_allh (apply_stores s t) kind (snd r)) /\
  kcanon bf m' l /\ root_allh (apply_stores s t) kind m'.
Proof.
  intros C Hall Hlo E Hn.
  destruct (cn_root _ _ _ _ _ _ _ C) as (n & Hrn & He).
  pose proof (cn_bf _ _ _ _ _ _ _ C) as Hbf. pose proof (cn_bfeq _ _ _ _ _ _ _ C) as Hbfe.
  unfold make_root in E. apply bind_ok_inv in E. destruct E as (t1 & [lk m1] & t2 & Ef & Er & ->).
  unfold ret in Er. inversion Er; subst t2 rt m'. clear Er. rewrite app_nil_r in *.
  unfold flush in Ef.
  destruct (m_root _ _ m) as [|c|h c|h] eqn:Eroot.
  - (* emptied tree *)
    unfold ret in Ef. inversion Ef; subst t1 lk m1. clear Ef. cbn [apply_stores set_root m_size m_height m_bf].
    assert (El : l = []) by (apply (root_nil_list key val kcmp (klayer bf) bf m l C Eroot)). subst l.
    assert (Hs0 : m_size _ _ m = 0%N) by exact (cn_size _ _ _ _ _ _ _ C).
    assert (Hh0 : m_height _ _ m = 0).
    { pose proof (cn_h _ _ _ _ _ _ _ C) as Hh. rewrite Hbfe in Hh. exact (hrule_nil_height bf _ Hh). }
    split; [|split].
    + rewrite Hbfe. eapply oks_weaken; [apply load_canon_empty; [exact Hs0|exact Hh0|rewrite <- Hbfe; exact Hbf]|].
      intros r0 [A [B Cc]]. split; [exact A|split; [exact B|unfold root_allh; rewrite Cc; constructor; apply allh_fresh]].
    + eapply canon_set_root; [exact C|reflexivity|]. cbn [root_n] in Hrn. inversion Hrn; subst. exact He.
    + unfold root_allh. cbn [set_root m_root]. constructor.
  - cbn [root_n] in Hrn. inversion Hrn; subst c.
    eapply (flush_nonnil s kind bf m l (LPtr n) n [] t1 lk m1); try eassumption; try reflexivity.
    + intros s0 t0 H0. exact H0.
  - cbn [root_n] in Hrn. inversion Hrn; subst c.
    eapply (flush_nonnil s kind bf m l (LHash h n) n [ELoad h] t1 lk m1); try eassumption; try reflexivity.
    + intros s0 t0 H0. exact H0.
  - discriminate.
Qed.


(** * the hash links of a tree stay in the store through every operation *)
Section ROOT_ALLH.
Variable s : store.
Variable kind : N.
Notation P := (sto s kind).

Lemma first_node_allh (m : kmast) : root_allh s kind m ->
  okp (match m_root _ _ m with LNil => ret (fresh_node key val) | r => load _ _ r end) (allh key val P).
Proof.
  intros H. unfold root_allh in H. destruct (m_root _ _ m) as [|c|h c|h] eqn:E.
  - apply okp_ret. apply allh_fresh.
  - apply (load_allh key val P (sto_hered s kind) _ H).
  - apply (load_allh key val P (sto_hered s kind) _ H).
  - inversion H.
Qed.

Lemma root_allh_of_node (m : kmast) n : allh key val P n -> root_allh s kind (root_of_node _ _ m n).
Proof.
  intros H. unfold root_allh, root_of_node. destruct (is_empty _ _ n); cbn [set_root m_root]; constructor. exact H.
Qed.

Lemma grow_allh bf (m : kmast) : root_allh s kind m -> okp (grow _ _ (klayer bf) m) (root_allh s kind).
Proof.
  intros H. unfold grow. apply (okp_bind _ _ _ _ (load_allh key val P (sto_hered s kind) _ H)). intros n Hn.
  apply (okp_bind _ _ (fun _ => True)); [intros ? ? _; exact I|]. intros _ _. apply okp_ret.
  unfold root_allh. cbn [m_root]. constructor. apply grow_node_allh. exact Hn.
Qed.

Lemma grow_loop_allh bf : forall fuel root0 (m : kmast), root_allh s kind m ->
  okp (grow_loop _ _ (klayer bf) fuel root0 m) (root_allh s kind).
Proof.
  induction fuel as [|fl IH]; intros root0 m H; [apply okp_nofuel|]. cbn [grow_loop].
  destruct (N.leb (m_grow_after _ _ m) (m_size _ _ m)); [|apply okp_ret; exact H].
  apply (okp_bind _ _ (fun _ => True)); [intros ? ? _; exact I|]. intros cg _. destruct cg; [|apply okp_ret; exact H].
  apply (okp_bind _ _ _ _ (grow_allh bf m H)). intros m' Hm'. apply IH. exact Hm'.
Qed.

Lemma set_size_allh (m : kmast) sz : root_allh s kind m -> root_allh s kind (set_size _ _ m sz).
Proof. intros H. exact H. Qed.

Theorem insert_allh bf (m : kmast) k v : root_allh s kind m ->
  okp (insert _ _ kcmp bytes_eqb (klayer bf) m k v) (root_allh s kind).
Proof.
  intros H. unfold insert. apply okp_tick.
  apply (okp_bind _ _ _ _ (first_node_allh m H)). intros n Hn.
  apply (okp_bind _ _ _ _ (ins_allh key val kcmp bytes_eqb P (sto_hered s kind) _ _ _ k v n Hn)). intros r Hr.
  destruct r as [|n'|n']; cbn [ins_res_ok] in Hr.
  - apply okp_ret. exact H.
  - apply okp_tick. apply okp_ret. apply root_allh_of_node. exact Hr.
  - apply okp_tick. apply (okp_bind _ _ _ _ (grow_loop_allh bf _ n' _ (root_allh_of_node m n' Hr))). intros m2 Hm2.
    apply okp_ret. exact Hm2.
Qed.

Lemma shrink_allh (m : kmast) : root_allh s kind m -> okp (shrink _ _ m) (root_allh s kind).
Proof.
  intros H. unfold shrink. destruct (m_height _ _ m) as [|h']; [apply okp_fail|].
  assert (Hb : okp (let* n := load _ _ (m_root _ _ m) in
                    let* n' := shrink_node _ _ n in
                    let (sb, ga) := if (1 <? m_shrink_below _ _ m)%N
                                    then ((m_shrink_below _ _ m / m_bf _ _ m)%N, (m_grow_after _ _ m / m_bf _ _ m)%N)
                                    else (m_shrink_below _ _ m, m_grow_after _ _ m) in
                    ret (Mast (link_of _ _ n') h' (m_size _ _ m) (m_bf _ _ m) ga sb (m_emptied _ _ m))) (root_allh s kind)).
  { apply (okp_bind _ _ _ _ (load_allh key val P (sto_hered s kind) _ H)). intros n Hn.
    apply (okp_bind _ _ _ _ (shrink_node_allh key val P (sto_hered s kind) n Hn)). intros n' Hn'.
    destruct (1 <? m_shrink_below _ _ m)%N; apply okp_ret; unfold root_allh; cbn [m_root]; apply allh_link_of; exact Hn'. }
  revert Hb. destruct (m_root _ _ m); intros Hb; [apply okp_fail|exact Hb|exact Hb|exact Hb].
Qed.

Lemma shrink_loop_allh : forall fuel (m : kmast), root_allh s kind m -> okp (shrink_loop _ _ fuel m) (root_allh s kind).
Proof.
  induction fuel as [|fl IH]; intros m H; [apply okp_nofuel|]. cbn [shrink_loop].
  destruct (Nat.ltb 0 (m_height _ _ m) && ((m_size _ _ m <=? m_shrink_below _ _ m)%N || root_has_no_keys _ _ m)); [|apply okp_ret; exact H].
  apply (okp_bind _ _ _ _ (shrink_allh m H)). intros m' Hm'. apply IH. exact Hm'.
Qed.

Theorem delete_allh bf (m : kmast) k v : root_allh s kind m ->
  okp (delete _ _ kcmp bytes_eqb (klayer bf) m k v) (root_allh s kind).
Proof.
  intros H. unfold delete.
  assert (Hb : okp (tick ELayer >>
      (let* n := load _ _ (m_root _ _ m) in
       let* n' := del _ _ kcmp bytes_eqb (S (m_height _ _ m)) (m_height _ _ m) (Nat.min (klayer bf k) (m_height _ _ m)) k v n in
       tick ECommit >>
       (let m1 := root_of_node _ _ m n' in shrink_loop _ _ max_layer_fuel (set_size _ _ m1 (m_size _ _ m1 - 1))))) (root_allh s kind)).
  { apply okp_tick. apply (okp_bind _ _ _ _ (load_allh key val P (sto_hered s kind) _ H)). intros n Hn.
    apply (okp_bind _ _ _ _ (del_allh key val kcmp bytes_eqb P (sto_hered s kind) _ _ _ k v n Hn)). intros n' Hn'.
    apply okp_tick. cbn zeta. apply shrink_loop_allh. apply set_size_allh. apply root_allh_of_node. exact Hn'. }
  unfold val in *. revert Hb. destruct (m_root key bytes m); intros Hb; [apply okp_fail|exact Hb|exact Hb|exact Hb].
Qed.

Theorem clone_allh (m : kmast) : root_allh s kind m -> okp (clone _ _ m) (root_allh s kind).
Proof.
  intros H. unfold clone.
  assert (Hb : okp (let* n := load _ _ (m_root _ _ m) in ret (set_root _ _ m (LPtr n) (m_emptied _ _ m))) (root_allh s kind)).
  { apply (okp_bind _ _ _ _ (load_allh key val P (sto_hered s kind) _ H)). intros n Hn. apply okp_ret.
    unfold root_allh. cbn [set_root m_root]. constructor. exact Hn. }
  revert Hb. destruct (m_root _ _ m) eqn:E; intros Hb; [apply okp_ret; unfold root_allh; rewrite E; constructor|exact Hb|exact Hb|exact Hb].
Qed.
End ROOT_ALLH.

Lemma root_allh_mono s s' kind (m : kmast) : extends s s' -> root_allh s kind m -> root_allh s' kind m.
Proof. intros Hx H. unfold root_allh in *. eapply allh_l_mono; [|exact H]. intros h c. apply sto_mono'. exact Hx. Qed.

(** * any number of modify / persist / reload cycles *)
Inductive pop := PIns (k : key) (v : val) | PDel (k : key) (v : val) | PPersistReload.

Definition pstate := (store * kmast)%type.

Definition pstep (kind bf : N) (st : pstate) (o : pop) : option pstate :=
  let (s, m) := st in
  match o with
  | PIns k v => match insert _ _ kcmp bytes_eqb (klayer bf) m k v with (_, Ok m') => Some (s, m') | _ => None end
  | PDel k v => match delete _ _ kcmp bytes_eqb (klayer bf) m k v with (_, Ok m') => Some (s, m') | _ => None end
  | PPersistReload =>
      match make_root f m with
      | (t, Ok (rt, _)) =>
          let s' := apply_stores s t in
          match load_mast s' kind rt with (_, Ok (_, m2)) => Some (s', m2) | _ => None end
      | _ => None
      end
  end.

Definition aspec (l : list (key * val)) (o : pop) : list (key * val) :=
  match o with PIns k v => aupsert k v l | PDel k v => aremove k l | PPersistReload => l end.

(* side conditions of a step: the element encodings round-trip and sizes fit 64 bits; a delete names
   a live entry; no two different byte strings written by the persist share a name *)
Definition pcond (kind : N) (st : pstate) (l : list (key * val)) (o : pop) : Prop :=
  match o with
  | PIns k v => list_ok kind (aupsert k v l)
  | PDel k v => alookup k l = Some v
  | PPersistReload => forall t r, make_root f (snd st) = (t, Ok r) -> nocoll (fst st) t
  end.

Definition pinv (kind bf : N) (st : pstate) (l : list (key * val)) : Prop :=
  kcanon bf (snd st) l /\ root_allh (fst st) kind (snd st) /\ list_ok kind l.

Lemma list_ok_remove kind k l : ssorted key val kcmp l -> list_ok kind l -> list_ok kind (aremove k l).
Proof.
  intros Hs Hl. destruct (sorted_cut key val kcmp kcmp_eq kcmp_antisym kcmp_trans k l Hs) as [a b El Ha Hb|a b v El Ha Hb]; subst l.
  - unfold aremove. rewrite remove_absent by (try exact kcmp_eq; try exact kcmp_antisym; assumption). exact Hl.
  - unfold aremove. rewrite remove_present by (try exact kcmp_eq; assumption).
    eapply list_ok_incl; [exact Hl| |rewrite !app_length; cbn [length]; lia].
    intros x Hx. apply in_app_or in Hx. apply in_or_app. destruct Hx; [left; assumption|right; right; assumption].
Qed.

Theorem pstep_ok kind bf st l o :
  pinv kind bf st l -> pcond kind st l o ->
  exists st', pstep kind bf st o = Some st' /\ pinv kind bf st' (aspec l o).
Proof.
  intros (C & Hall & Hlo) Hc. destruct st as [s m]. cbn [fst snd] in *. destruct o as [k v|k v|]; cbn [pstep aspec pcond] in *.
  - destruct (k_insert_ok bf m l k v C) as (t & m' & E & C'). rewrite E. exists (s, m'). split; [reflexivity|].
    split; [exact C'|]. split; [|exact Hc]. exact (insert_allh s kind bf m k v Hall t m' E).
  - destruct (k_delete_ok bf m l k v C Hc) as (t & m' & E & C'). rewrite E. exists (s, m'). split; [reflexivity|].
    split; [exact C'|]. split; [exact (delete_allh s kind bf m k v Hall t m' E)|].
    apply list_ok_remove; [exact (cn_sorted _ _ _ _ _ _ _ C)|exact Hlo].
  - destruct (k_make_root_ok bf f m l C) as (t & [rt m1] & E & _). rewrite E.
    destruct (persist_then_load s kind bf m l t rt m1 C Hall Hlo E (Hc t (rt, m1) E)) as (Hload & _ & _).
    destruct Hload as (t2 & [f2 m2] & E2 & Hf & C2 & A2). rewrite E2. exists (apply_stores s t, m2). split; [reflexivity|].
    cbn [fst snd] in *. split; [exact C2|split; [exact A2|exact Hlo]].
Qed.

Fixpoint prun (kind bf : N) (st : pstate) (ops : list pop) : option pstate :=
  match ops with
  | [] => Some st
  | o :: r => match pstep kind bf st o with Some st' => prun kind bf st' r | None => None end
  end.
Fixpoint aprun (l : list (key * val)) (ops : list pop) : list (key * val) :=
  match ops with [] => l | o :: r => aprun (aspec l o) r end.
(* the side conditions along the run *)
Fixpoint pconds (kind bf : N) (st : pstate) (l : list (key * val)) (ops : list pop) : Prop :=
  match ops with
  | [] => True
  | o :: r => pcond kind st l o /\
              match pstep kind bf st o with Some st' => pconds kind bf st' (aspec l o) r | None => True end
  end.

Theorem cycles_ok kind bf : forall ops st l,
  pinv kind bf st l -> pconds kind bf st l ops ->
  exists st', prun kind bf st ops = Some st' /\ pinv kind bf st' (aprun l ops).
Proof.
  induction ops as [|o r IH]; intros st l Hi Hc; [exists st; split; [reflexivity|exact Hi]|].
  cbn [pconds] in Hc. destruct Hc as [Hc1 Hc2].
  destruct (pstep_ok kind bf st l o Hi Hc1) as (st' & E & Hi'). cbn [prun aprun]. rewrite E in *.
  exact (IH st' (aspec l o) Hi' Hc2).
Qed.

(** * a decision procedure for the side conditions of a run (used by the non-vacuity examples) *)
Definition small_b (n : N) : bool := (n <? 2 ^ 64)%N.
Lemma small_b_ok n : small_b n = true -> small n.
Proof. unfold small_b, small. intros H. apply N.ltb_lt in H. exact H. Qed.
Definition body_okb (b : bytes) : bool := match f with FBin => small_b (len b) | FV1 => elem_ok b end.
Lemma body_okb_ok b : body_okb b = true -> body_ok f b.
Proof. unfold body_okb, body_ok. destruct f; [apply small_b_ok|intros H; exact H]. Qed.
Definition kv_okb_f (kind : N) (x : key * val) : bool :=
  match kunmarshal kind (kmarshal (fst x)) with
  | Some k' => match kcmp k' (fst x) with Eq => true | _ => false end
  | None => false
  end && body_okb (kmarshal (fst x)) && body_okb (snd x).
Definition list_okb_f (kind : N) (l : list (key * val)) : bool :=
  forallb (kv_okb_f kind) l && small_b (N.of_nat (S (length l))).
Lemma list_okb_f_ok kind l : list_okb_f kind l = true -> list_ok kind l.
Proof.
  unfold list_okb_f. intros H. apply andb_true_iff in H. destruct H as [H1 H2]. split; [|exact (small_b_ok _ H2)].
  rewrite forallb_forall in H1. apply Forall_forall. intros x Hx. specialize (H1 x Hx). unfold kv_okb_f in H1.
  apply andb_true_iff in H1. destruct H1 as [H1 Hc]. apply andb_true_iff in H1. destruct H1 as [Ha Hb].
  split; [|split; [exact (body_okb_ok _ Hb)|exact (body_okb_ok _ Hc)]].
  unfold key_rt. destruct (kunmarshal kind (kmarshal (fst x))) as [k'|]; [|discriminate].
  destruct (kcmp k' (fst x)) eqn:Ek; try discriminate. apply kcmp_eq in Ek. subst k'. reflexivity.
Qed.
Fixpoint nocoll_b (s : store) (t : list event) : bool :=
  match t with
  | [] => true
  | EStore h b :: r => match Store.lookup s h with None => true | Some b' => bytes_eqb b' b end && nocoll_b (put s h b) r
  | _ :: r => nocoll_b s r
  end.
Lemma nocoll_b_ok : forall t s, nocoll_b s t = true -> nocoll s t.
Proof.
  induction t as [|e r IH]; intros s H; [exact I|]. destruct e; cbn [nocoll_b nocoll] in *; try (apply IH; exact H).
  apply andb_true_iff in H. destruct H as [H1 H2]. split; [|apply IH; exact H2].
  destruct (Store.lookup s h) as [b'|]; [right; apply bytes_eqb_eq in H1; subst; reflexivity|left; reflexivity].
Qed.
Definition pcondb (kind : N) (st : pstate) (l : list (key * val)) (o : pop) : bool :=
  match o with
  | PIns k v => list_okb_f kind (aupsert k v l)
  | PDel k v => match alookup k l with Some v' => bytes_eqb v' v | None => false end
  | PPersistReload => match make_root f (snd st) with (t, Ok _) => nocoll_b (fst st) t | _ => true end
  end.
Lemma pcondb_ok kind st l o : pcondb kind st l o = true -> pcond kind st l o.
Proof.
  destruct o as [k v|k v|]; cbn [pcondb pcond]; intros H.
  - apply list_okb_f_ok. exact H.
  - destruct (alookup k l) as [v'|]; [|discriminate]. apply bytes_eqb_eq in H. subst. reflexivity.
  - intros t r E. rewrite E in H. apply nocoll_b_ok. exact H.
Qed.
Fixpoint pcondsb (kind bf : N) (st : pstate) (l : list (key * val)) (ops : list pop) : bool :=
  match ops with
  | [] => true
  | o :: r => pcondb kind st l o &&
              match pstep kind bf st o with Some st' => pcondsb kind bf st' (aspec l o) r | None => true end
  end.
Lemma pcondsb_ok kind bf : forall ops st l, pcondsb kind bf st l ops = true -> pconds kind bf st l ops.
Proof.
  induction ops as [|o r IH]; intros st l H; [exact I|]. cbn [pcondsb pconds] in *.
  apply andb_true_iff in H. destruct H as [H1 H2]. split; [apply pcondb_ok; exact H1|].
  destruct (pstep kind bf st o) as [st'|]; [apply IH; exact H2|exact I].
Qed.
End FMT.
