(** Load bounds at the key instance: LoadMast reads at most the top node.  Lemma file. *)
From Coq Require Import List NArith ZArith Lia Bool.
From Mast Require Import Prim Key Tree Codec Store Cost.
Import ListNotations.

Lemma check_keys_loads bf h : forall es last, lb (check_keys bf h last es) 0.
Proof.
  induction es as [|e es IH]; intros last; cbn [check_keys]; [apply lb_ret|].
  apply (lb_weaken _ (0 + 0)); [|lia]. apply lb_bind.
  - destruct last; [|apply lb_ret]. apply lb_tick; [reflexivity|]. destruct (kcmp k (ekey _ _ e)); try apply lb_ret; apply lb_fail.
  - intros _. apply lb_tick; [reflexivity|]. destruct (Nat.ltb (klayer bf (ekey _ _ e)) h); [apply lb_fail|apply IH].
Qed.

Theorem load_mast_loads s kind r : lb (load_mast s kind r) 1.
Proof.
  unfold load_mast. destruct (parse_fmt (r_fmt r)); [|apply (lb_weaken _ 0); [apply lb_fail|lia]].
  apply (lb_weaken _ (1 + (0 + 0))); [|lia]. apply lb_bind; [apply lb_load|]. intros n0.
  apply lb_bind; [apply check_keys_loads|]. intros _. apply lb_ret.
Qed.
