(** Round trip of the compact binary node format (codec.go): decode_bin (encode_bin x) = Some x.
    Lemma file. *)
From Coq Require Import List NArith ZArith Lia Bool.
From Mast Require Import Prim Key Codec.
Import ListNotations.
Local Open Scope N_scope.

Lemma pow128 e : 128 ^ (N.succ e) = 128 * 128 ^ e.
Proof. apply N.pow_succ_r'. Qed.

Lemma uvarint_fuel_rt : forall f n r sh acc f',
  n < 128 ^ (N.of_nat (S f)) -> (f < f')%nat ->
  read_uvarint_fuel f' (uvarint_fuel f n ++ r) sh acc = Some (acc + n * 2 ^ sh, r).
Proof.
  induction f as [|f IH]; intros n r sh acc f' Hn Hf; destruct f' as [|f'']; try lia.
  - cbn [uvarint_fuel app read_uvarint_fuel]. change (N.of_nat 1) with 1 in Hn. rewrite N.pow_1_r in Hn.
    rewrite N.mod_small by exact Hn. replace (n <? 128) with true by (symmetry; apply N.ltb_lt; exact Hn). reflexivity.
  - cbn [uvarint_fuel]. destruct (n <? 128) eqn:E.
    + cbn [app read_uvarint_fuel]. rewrite E. reflexivity.
    + apply N.ltb_ge in E. cbn [app read_uvarint_fuel].
      assert (Hm : n mod 128 < 128) by (apply N.mod_lt; lia).
      replace (128 + n mod 128 <? 128) with false by (symmetry; apply N.ltb_ge; apply N.le_add_r).
      replace (128 + n mod 128 - 128) with (n mod 128) by (rewrite N.add_comm; symmetry; apply N.add_sub).
      rewrite IH.
      * f_equal. f_equal. rewrite N.pow_add_r. change (2 ^ 7) with 128.
        pose proof (N.div_mod n 128 ltac:(lia)) as D. rewrite D at 3. lia.
      * rewrite Nat2N.inj_succ, pow128 in Hn. apply N.div_lt_upper_bound; [lia|]. exact Hn.
      * lia.
Qed.

Lemma uvarint_fuel_more : forall f n, n < 128 ^ (N.of_nat (S f)) -> uvarint_fuel (S f) n = uvarint_fuel f n.
Proof.
  induction f as [|f IH]; intros n Hn.
  - change (N.of_nat 1) with 1 in Hn. rewrite N.pow_1_r in Hn. cbn [uvarint_fuel].
    replace (n <? 128) with true by (symmetry; apply N.ltb_lt; exact Hn). rewrite N.mod_small by exact Hn. reflexivity.
  - cbn [uvarint_fuel]. destruct (n <? 128) eqn:E; [reflexivity|]. f_equal.
    change (uvarint_fuel (S f) (n / 128) = uvarint_fuel f (n / 128)). apply IH.
    rewrite Nat2N.inj_succ, pow128 in Hn. apply N.div_lt_upper_bound; [lia|]. exact Hn.
Qed.

Definition small (n : N) : Prop := n < 2 ^ 64.

Lemma uvarint_rt n r : small n -> read_uvarint (uvarint n ++ r) = Some (n, r).
Proof.
  intros Hn. unfold read_uvarint, uvarint. unfold small in Hn.
  assert (H10 : n < 128 ^ N.of_nat 10).
  { eapply N.lt_trans; [exact Hn|]. vm_compute. reflexivity. }
  rewrite (uvarint_fuel_more 9 n H10).
  rewrite (uvarint_fuel_rt 9 n r 0 0 10 H10 ltac:(lia)).
  rewrite N.pow_0_r, N.mul_1_r, N.add_0_l. reflexivity.
Qed.

Lemma uvarint_nonempty n : uvarint n <> [].
Proof. unfold uvarint. cbn [uvarint_fuel]. destruct (n <? 128); discriminate. Qed.

Definition small_list (b : bytes) : Prop := small (len b).

Lemma dec_body_rt b r : small_list b -> dec_body (uvarint (len b) ++ b ++ r) = Some (b, r).
Proof.
  intros Hs. unfold dec_body. rewrite uvarint_rt by exact Hs.
  replace (N.of_nat (length (b ++ r)) <? len b) with false.
  - unfold len. rewrite Nat2N.id. rewrite firstn_app, Nat.sub_diag, firstn_all. cbn [firstn]. rewrite app_nil_r.
    rewrite skipn_app, Nat.sub_diag, skipn_all. reflexivity.
  - symmetry. apply N.ltb_ge. unfold len. rewrite app_length. lia.
Qed.

Definition enc_flat (bodies : list bytes) : bytes := flat_map (fun b => uvarint (len b) ++ b) bodies.

Lemma dec_n_bodies_rt : forall bodies r, Forall small_list bodies ->
  dec_n_bodies (length bodies) (enc_flat bodies ++ r) = Some (bodies, r).
Proof.
  induction bodies as [|b bs IH]; intros r Hs; [reflexivity|].
  inversion Hs; subst. cbn [length dec_n_bodies enc_flat flat_map]. rewrite <- !app_assoc.
  rewrite dec_body_rt by assumption. fold (enc_flat bs). rewrite IH by assumption. reflexivity.
Qed.

Lemma enc_flat_length bodies : (length bodies <= length (enc_flat bodies))%nat.
Proof.
  induction bodies as [|b bs IH]; [cbn; lia|]. cbn [enc_flat flat_map length]. rewrite !app_length. fold (enc_flat bs).
  pose proof (uvarint_nonempty (len b)). destruct (uvarint (len b)); [contradiction|]. cbn [length]. lia.
Qed.

Lemma dec_bodies_rt bodies r : small (N.of_nat (length bodies)) -> Forall small_list bodies ->
  dec_bodies (enc_bodies bodies ++ r) = Some (bodies, r).
Proof.
  intros Hc Hs. unfold dec_bodies, enc_bodies. rewrite <- app_assoc. rewrite uvarint_rt by exact Hc.
  fold (enc_flat bodies).
  replace (N.of_nat (length (enc_flat bodies ++ r)) <? N.of_nat (length bodies)) with false.
  - rewrite Nat2N.id. apply dec_n_bodies_rt. exact Hs.
  - symmetry. apply N.ltb_ge. rewrite app_length. pose proof (enc_flat_length bodies). lia.
Qed.

(** the binary format round-trips: keys and values are arbitrary byte strings, links are nil or
    non-empty names, and there is one more link than keys *)
Definition links_ok (nk : nat) (links : list (option name)) : Prop :=
  length links = S nk /\ Forall (fun l => match l with Some [] => False | _ => True end) links.

Lemma decode_links (links : list (option name)) :
  Forall (fun l => match l with Some [] => False | _ => True end) links ->
  map (fun b : bytes => match b with [] => None | _ => Some b end) (map link_body links) = links.
Proof.
  induction 1 as [|l r Hl _ IH]; [reflexivity|]. cbn [map]. rewrite IH. f_equal.
  destruct l as [[|x h]|]; [contradiction|reflexivity|reflexivity].
Qed.

Lemma all_none_repeat (links : list (option name)) : all_none links = true -> links = repeat None (length links).
Proof.
  induction links as [|l r IH]; [reflexivity|]. cbn [all_none forallb]. intros H. apply andb_true_iff in H. destruct H as [H1 H2].
  destruct l; [discriminate|]. cbn [length repeat]. f_equal. apply IH. exact H2.
Qed.

Theorem decode_encode_bin keys vals links :
  length vals = length keys -> links_ok (length keys) links ->
  small (N.of_nat (length keys)) -> small (N.of_nat (length links)) ->
  Forall small_list keys -> Forall small_list vals -> Forall (fun l => small_list (link_body l)) links ->
  decode_bin (encode_bin keys vals links) = Some (keys, vals, links).
Proof.
  intros Hv [Hll Hlf] Hck Hcl Hsk Hsv Hsl. unfold decode_bin, encode_bin.
  rewrite dec_bodies_rt by assumption.
  rewrite dec_bodies_rt by (try rewrite Hv; assumption).
  destruct (all_none links) eqn:Ea.
  - replace (uvarint 0) with (enc_bodies [] ++ []) by reflexivity.
    rewrite dec_bodies_rt by (try constructor; unfold small; cbn; lia).
    cbn [map]. f_equal. f_equal. rewrite (all_none_repeat links Ea), Hll. reflexivity.
  - rewrite <- (app_nil_r (enc_bodies (map link_body links))).
    rewrite dec_bodies_rt.
    + rewrite decode_links by exact Hlf. destruct links as [|l r]; [discriminate|]. reflexivity.
    + rewrite map_length. exact Hcl.
    + clear -Hsl. induction Hsl; constructor; assumption.
Qed.
