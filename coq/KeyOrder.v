(** Order laws of the key instance: [kcmp] is a strict total order whose equality is Leibniz
    equality; value equality; layers are bounded.  Lemma file. *)
From Coq Require Import List NArith ZArith Lia Bool.
From Mast Require Import Prim Key Tree.
Import ListNotations.

Lemma bytes_cmp_eq a : forall b, bytes_cmp a b = Eq <-> a = b.
Proof.
  induction a as [|x a IH]; intros [|y b]; cbn [bytes_cmp]; try (split; [discriminate|discriminate]); [tauto|].
  destruct (N.compare x y) eqn:E.
  - apply N.compare_eq_iff in E. subst y. rewrite IH. split; [intros ->; reflexivity|intros H; inversion H; reflexivity].
  - split; [discriminate|]. intros H. inversion H; subst. rewrite N.compare_refl in E. discriminate.
  - split; [discriminate|]. intros H. inversion H; subst. rewrite N.compare_refl in E. discriminate.
Qed.

Lemma bytes_cmp_antisym a : forall b, bytes_cmp b a = CompOpp (bytes_cmp a b).
Proof.
  induction a as [|x a IH]; intros [|y b]; cbn [bytes_cmp]; try reflexivity.
  rewrite (N.compare_antisym x y). destruct (N.compare x y); cbn [CompOpp]; [apply IH|reflexivity|reflexivity].
Qed.

Lemma bytes_cmp_trans a : forall b c, bytes_cmp a b = Lt -> bytes_cmp b c = Lt -> bytes_cmp a c = Lt.
Proof.
  induction a as [|x a IH]; intros [|y b] [|z c]; cbn [bytes_cmp]; try discriminate; try reflexivity.
  destruct (N.compare x y) eqn:E1; destruct (N.compare y z) eqn:E2; try discriminate; intros H1 H2.
  - apply N.compare_eq_iff in E1, E2. subst. rewrite N.compare_refl. eapply IH; eassumption.
  - apply N.compare_eq_iff in E1. subst. rewrite E2. reflexivity.
  - apply N.compare_eq_iff in E2. subst. rewrite E1. reflexivity.
  - rewrite N.compare_lt_iff in *. replace (N.compare x z) with Lt by (symmetry; apply N.compare_lt_iff; lia). reflexivity.
Qed.

Lemma bytes_eqb_eq a : forall b, bytes_eqb a b = true <-> a = b.
Proof.
  induction a as [|x a IH]; intros [|y b]; cbn [bytes_eqb]; try (split; [discriminate|discriminate]); [tauto|].
  rewrite andb_true_iff, N.eqb_eq, IH. split; [intros [-> ->]; reflexivity|intros H; inversion H; tauto].
Qed.

Lemma lex_eq (c : comparison) (d : comparison) : match c with Eq => d | x => x end = Eq <-> c = Eq /\ d = Eq.
Proof. destruct c; split; try tauto; try discriminate; intros [? ?]; discriminate. Qed.

Lemma kcmp_eq a b : kcmp a b = Eq <-> a = b.
Proof.
  destruct a, b; cbn [kcmp kind_tag]; try (split; [intros H; vm_compute in H; discriminate|discriminate]).
  - rewrite Z.compare_eq_iff. split; [intros ->; reflexivity|intros H; inversion H; reflexivity].
  - rewrite N.compare_eq_iff. split; [intros ->; reflexivity|intros H; inversion H; reflexivity].
  - rewrite bytes_cmp_eq. split; [intros ->; reflexivity|intros H; inversion H; reflexivity].
  - rewrite bytes_cmp_eq. split; [intros ->; reflexivity|intros H; inversion H; reflexivity].
  - rewrite bytes_cmp_eq. split; [intros ->; reflexivity|intros H; inversion H; reflexivity].
  - destruct (Z.compare z z0) eqn:E1.
    + apply Z.compare_eq_iff in E1. subst z0. rewrite Nat.compare_eq_iff.
      split; [intros ->; reflexivity|intros H; inversion H; reflexivity].
    + split; [discriminate|]. intros H. inversion H; subst. rewrite Z.compare_refl in E1. discriminate.
    + split; [discriminate|]. intros H. inversion H; subst. rewrite Z.compare_refl in E1. discriminate.
Qed.

Lemma kcmp_antisym a b : kcmp b a = CompOpp (kcmp a b).
Proof.
  destruct a, b; cbn [kcmp kind_tag]; try reflexivity.
  - apply Z.compare_antisym.
  - apply N.compare_antisym.
  - apply bytes_cmp_antisym.
  - apply bytes_cmp_antisym.
  - apply bytes_cmp_antisym.
  - rewrite (Z.compare_antisym z z0), (Nat.compare_antisym l l0). destruct (Z.compare z z0); reflexivity.
Qed.

Lemma lex_lt (c d : comparison) : match c with Eq => d | x => x end = Lt <-> c = Lt \/ (c = Eq /\ d = Lt).
Proof. destruct c; split; try tauto; try discriminate; intros [?|[? ?]]; try discriminate; assumption. Qed.

Lemma kcmp_trans a b c : kcmp a b = Lt -> kcmp b c = Lt -> kcmp a c = Lt.
Proof.
  destruct a, b, c; cbn [kcmp kind_tag]; intros H1 H2;
    try (vm_compute in H1; discriminate); try (vm_compute in H2; discriminate); try reflexivity.
  - rewrite Z.compare_lt_iff in *. lia.
  - rewrite N.compare_lt_iff in *. lia.
  - eapply bytes_cmp_trans; eassumption.
  - eapply bytes_cmp_trans; eassumption.
  - eapply bytes_cmp_trans; eassumption.
  - destruct (Z.compare z z0) eqn:E1; try discriminate; destruct (Z.compare z0 z1) eqn:E2; try discriminate.
    + apply Z.compare_eq_iff in E1, E2. subst. rewrite Z.compare_refl. rewrite Nat.compare_lt_iff in *. lia.
    + apply Z.compare_eq_iff in E1. subst. rewrite E2. reflexivity.
    + apply Z.compare_eq_iff in E2. subst. rewrite E1. reflexivity.
    + rewrite Z.compare_lt_iff in *. replace (Z.compare z z1) with Lt by (symmetry; apply Z.compare_lt_iff; lia). reflexivity.
Qed.

Lemma uint_layer_fuel_le fuel : forall v bf, uint_layer_fuel fuel v bf <= fuel.
Proof.
  induction fuel as [|f IH]; intros v bf; cbn [uint_layer_fuel]; [lia|].
  destruct (v =? 0)%N; [lia|]. destruct (v mod bf =? 0)%N; [|lia]. pose proof (IH (v / bf)%N bf). lia.
Qed.

Lemma klayer_bound bf k : klayer bf k < max_layer_fuel.
Proof.
  unfold max_layer_fuel. destruct k; cbn [klayer]; unfold int_layer, blob_layer, uint_layer;
    try (match goal with |- uint_layer_fuel 64 ?v ?b < _ => pose proof (uint_layer_fuel_le 64 v b); lia end).
  lia.
Qed.
