(** Storage backends as state machines (C18) and the file store's write as primitive steps with
    crash points (C17).  Model and lemmas; the tie to the real backends is the harness's contract
    and crash sweeps (harness/cmd/mastrun/backend.go). *)
From Coq Require Import List NArith Lia Bool.
From Mast Require Import Prim KeyOrder.
Import ListNotations.

(** * C18: the node-store contract *)
Definition bstate := list (bytes * bytes).     (* object key -> bytes, newest first *)
Fixpoint blookup (s : bstate) (k : bytes) : option bytes :=
  match s with [] => None | (k', b) :: r => if bytes_eqb k' k then Some b else blookup r k end.

(* in-memory store and S3: Store overwrites; file store: Store skips an existing name *)
Definition put_over (s : bstate) (k b : bytes) : bstate := (k, b) :: s.
Definition put_skip (s : bstate) (k b : bytes) : bstate := match blookup s k with Some _ => s | None => (k, b) :: s end.
(* S3 reads and writes the object prefix ++ name *)
Definition s3_key (prefix name : bytes) : bytes := prefix ++ name.

Lemma bytes_eqb_refl k : bytes_eqb k k = true.
Proof. apply bytes_eqb_eq. reflexivity. Qed.

Theorem store_then_load_over s k b : blookup (put_over s k b) k = Some b.
Proof. unfold put_over. cbn [blookup]. rewrite bytes_eqb_refl. reflexivity. Qed.

Theorem load_unwritten_over s k k' b : k <> k' -> blookup (put_over s k b) k' = blookup s k'.
Proof.
  intros H. unfold put_over. cbn [blookup]. destruct (bytes_eqb k k') eqn:E; [apply bytes_eqb_eq in E; contradiction|reflexivity].
Qed.

Theorem load_never_written : forall k, blookup [] k = None.
Proof. reflexivity. Qed.

(* content addressing: the file store may skip because an existing name already holds these bytes *)
Theorem store_then_load_skip s k b : (blookup s k = None \/ blookup s k = Some b) -> blookup (put_skip s k b) k = Some b.
Proof.
  intros [H|H]; unfold put_skip; rewrite H; [|exact H]. cbn [blookup]. rewrite bytes_eqb_refl. reflexivity.
Qed.

Theorem restore_same_over s k b : blookup (put_over (put_over s k b) k b) k = Some b.
Proof. apply store_then_load_over. Qed.
Theorem restore_same_skip s k b : blookup s k = Some b -> blookup (put_skip s k b) k = Some b.
Proof. intros H. apply store_then_load_skip. right. exact H. Qed.

(* two stores of the same pair, in either order, interleaved with stores of other names *)
Theorem concurrent_same_pair s k b k2 b2 : k2 <> k ->
  blookup (put_over (put_over (put_over s k b) k2 b2) k b) k = Some b /\
  blookup (put_over (put_over (put_over s k2 b2) k b) k b) k = Some b.
Proof. intros _. split; apply store_then_load_over. Qed.

Theorem s3_key_injective prefix n n' : s3_key prefix n = s3_key prefix n' -> n = n'.
Proof. unfold s3_key. apply app_inv_head. Qed.

Theorem s3_store_then_load s prefix n b : blookup (put_over s (s3_key prefix n) b) (s3_key prefix n) = Some b.
Proof. apply store_then_load_over. Qed.

(* a backend whose primitive fails returns the error: the state is unchanged and the caller sees it *)
Definition bstore (fail : bool) (put : bstate -> bytes -> bytes -> bstate) (s : bstate) (k b : bytes) : bstate * bool :=
  if fail then (s, false) else (put s k b, true).
Theorem error_propagates put s k b : bstore true put s k b = (s, false).
Proof. reflexivity. Qed.

(** * C17: the file store's write as steps with crash points *)
Inductive fname := FNode (n : name) | FTmp (i : N).
Definition fname_eqb (a b : fname) : bool :=
  match a, b with FNode x, FNode y => bytes_eqb x y | FTmp i, FTmp j => N.eqb i j | _, _ => false end.
Definition dir := list (fname * bytes).
Fixpoint dlookup (d : dir) (f : fname) : option bytes :=
  match d with [] => None | (g, b) :: r => if fname_eqb g f then Some b else dlookup r f end.

(* where the write stops *)
Inductive stop :=
| CrashBeforeCreate            (* killed after the Stat, before the temporary file exists *)
| CrashDuringWrite (j : nat)   (* killed with j bytes of the temporary file written *)
| ErrorDuringWrite (j : nat)   (* the write returns an error after j bytes: the temporary file is removed *)
| CrashBeforeRename            (* all bytes written and closed, killed before the rename *)
| Completed.                   (* rename done, Store returns nil *)

(* the repaired Store: Stat; if the name exists return nil; else CreateTemp, Write, Close, Chmod, Rename *)
Definition store_fixed (d : dir) (n : name) (b : bytes) (tmp : N) (st : stop) : dir * bool :=
  match dlookup d (FNode n) with
  | Some _ => (d, true)
  | None =>
    match st with
    | CrashBeforeCreate => (d, false)
    | CrashDuringWrite j => ((FTmp tmp, firstn j b) :: d, false)
    | ErrorDuringWrite _ => (d, false)
    | CrashBeforeRename => ((FTmp tmp, b) :: d, false)
    | Completed => ((FNode n, b) :: d, true)
    end
  end.

(* the pinned Store: Stat; if absent, WriteFile directly onto the final name *)
Definition store_pinned (d : dir) (n : name) (b : bytes) (st : stop) : dir * bool :=
  match dlookup d (FNode n) with
  | Some _ => (d, true)
  | None =>
    match st with
    | CrashBeforeCreate => (d, false)
    | CrashDuringWrite j | ErrorDuringWrite j => ((FNode n, firstn j b) :: d, false)
    | CrashBeforeRename | Completed => ((FNode n, b) :: d, true)
    end
  end.

Definition sound (d : dir) (n : name) (b : bytes) : Prop := dlookup d (FNode n) = None \/ dlookup d (FNode n) = Some b.

Lemma dlookup_tmp d tmp x n : dlookup ((FTmp tmp, x) :: d) (FNode n) = dlookup d (FNode n).
Proof. reflexivity. Qed.

(** whatever the point at which the write stops, the name is absent or complete *)
Theorem C17_atomic_model d n b tmp st : sound d n b -> sound (fst (store_fixed d n b tmp st)) n b.
Proof.
  intros H. unfold store_fixed. destruct (dlookup d (FNode n)) eqn:E; [exact H|].
  destruct st; cbn [fst]; try exact H; try (unfold sound; rewrite dlookup_tmp; exact H).
  right. cbn [dlookup fname_eqb]. rewrite (proj2 (bytes_eqb_eq n n) eq_refl). reflexivity.
Qed.

(** a later Store that runs to completion makes the node complete, from any state an earlier
    interrupted Store can leave behind *)
Theorem C17_repair_model d n b tmp st tmp' :
  sound d n b -> dlookup (fst (store_fixed (fst (store_fixed d n b tmp st)) n b tmp' Completed)) (FNode n) = Some b.
Proof.
  intros H. pose proof (C17_atomic_model d n b tmp st H) as [H1|H1]; unfold store_fixed at 1; rewrite H1; cbn [fst]; [|exact H1].
  cbn [dlookup fname_eqb]. rewrite (proj2 (bytes_eqb_eq n n) eq_refl). reflexivity.
Qed.

(** a Store that reported success left the complete node *)
Theorem C17_success_complete_model d n b tmp st :
  sound d n b -> snd (store_fixed d n b tmp st) = true -> dlookup d (FNode n) = None ->
  dlookup (fst (store_fixed d n b tmp st)) (FNode n) = Some b.
Proof.
  intros _ Hs Hn. unfold store_fixed in *. rewrite Hn in *. destruct st; cbn [snd fst] in *; try discriminate.
  cbn [dlookup fname_eqb]. rewrite (proj2 (bytes_eqb_eq n n) eq_refl). reflexivity.
Qed.

(** the pinned sequence is refuted: a write cut after one of two bytes leaves a partial node that a
    later complete Store skips *)
Example C17_pinned_refuted :
  let nm : name := [65%N] in let b : bytes := [1%N; 2%N] in
  let d1 := fst (store_pinned [] nm b (CrashDuringWrite 1)) in
  dlookup d1 (FNode nm) = Some [1%N] /\
  dlookup (fst (store_pinned d1 nm b Completed)) (FNode nm) = Some [1%N].
Proof. vm_compute. split; reflexivity. Qed.
