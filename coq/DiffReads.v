(** C15, locality of reads: whatever the two trees are, every node the diff loads is a node one of
    the two versions reaches - it never reads outside them - and for one and the same version it
    loads nothing (Persist.diff_same_version).  Unconditional: any trees, any outcome.  Lemma file. *)
From Coq Require Import List NArith ZArith Lia Bool Arith.
From Mast Require Import Prim Tree KeyOrder Diff Erase Links Events DiffSpec DiffLinks.
Import ListNotations.

Section DIFFREADS.
Variables K V : Type.
Variable cmp : K -> K -> comparison.
Variable veq : V -> V -> bool.
Variable layer : K -> nat.
Notation node := (node K V).
Notation link := (link K V).
Notation entry := (entry K V).
Notation stack := (stack K V).
Notation dstate := (dstate K V).
Notation names_st := (names_st K V).
Notation names_l := (names_l K V).
Notation names_n := (names_n K V).

Variable N : list name.    (* the names the two versions reach *)
Definition reads_in (e : event) : Prop := match e with ELoad h => In h N | _ => True end.

Lemma load_reads (l : link) : incl (names_l l) N -> evb reads_in (load _ _ l).
Proof.
  intros H. destruct l as [|c|h c|h]; unfold evb; cbn; repeat constructor; apply H; cbn; left; reflexivity.
Qed.
Lemma load_sub (l : link) t n : load _ _ l = (t, Ok n) -> incl (names_n n) (names_l l).
Proof. intros E. rewrite (load_names K V l t n E). apply incl_appr, incl_refl. Qed.
Lemma l0_sub (n : node) : incl (names_l (n_l0 _ _ n)) (names_n n).
Proof. destruct n as [d s l0 es]. rewrite names_n_eq. apply incl_appl, incl_refl. Qed.

Lemma fkl_reads : forall fuel (l : link), incl (names_l l) N -> evb reads_in (first_key_layer _ _ layer fuel l).
Proof.
  induction fuel as [|f IH]; intros l H; [apply evb_nofuel|]. cbn [first_key_layer].
  apply (evb_bind_dep _ _ _ (fun n => incl (names_n n) N)); [exact (load_reads l H)| |].
  - intros t n E. intros x Hx. apply H. exact (load_sub l t n E x Hx).
  - intros n Hn. destruct (n_es _ _ n); [apply IH; intros x Hx; apply Hn; exact (l0_sub n x Hx)|].
    apply evb_tick; [exact I|apply evb_ret].
Qed.

Lemma note_reads fuel (m : memo K V) (l : link) : incl (names_l l) N -> evb reads_in (note _ _ layer fuel m l).
Proof.
  intros H. pose proof (fkl_reads fuel l H) as Hf. unfold note, notified. unfold evb in *.
  destruct (first_key_layer K V layer fuel l) as [t [kh| | |]]; cbn [fst] in *.
  - destruct (memo_get _ _ m kh) as [l'|]; [destruct (link_eq _ _ l' l)|]; exact Hf.
  - exact Hf.
  - exact Hf.
  - exact Hf.
Qed.

Definition sinc (s : dstate) : Prop := incl (names_st (d_old _ _ s)) N /\ incl (names_st (d_new _ _ s)) N.

Ltac incs :=
  rewrite ?names_st_app, ?names_st_cons, ?names_items_of, ?names_link_item in *; cbn [names_item DiffLinks.names_st flat_map] in *; rewrite ?app_nil_r in *;
  let x := fresh "x" in let Hx := fresh "Hx" in
  unfold incl in *; intros x Hx;
  repeat match goal with H : forall a : name, In a _ -> In a _ |- _ => specialize (H x) end;
  rewrite ?in_app_iff in *; cbn [In] in *; tauto.

(* one step: reads within N, and the stacks stay within N *)
Lemma one_reads fuel (s : dstate) : sinc s ->
  evb reads_in (diff_one _ _ cmp veq layer fuel s) /\ okp (diff_one _ _ cmp veq layer fuel s) (fun r => sinc (snd r)).
Proof.
  destruct s as [mo mn old new]. intros [Ho Hn]. cbn [d_old d_new] in *.
  assert (Hload : forall (l : link), incl (names_l l) N -> forall t n, load _ _ l = (t, Ok n) -> incl (names_n n) N).
  { intros l H t n E x Hx. apply H. exact (load_sub l t n E x Hx). }
  destruct old as [|[lo|ko vo] os], new as [|[ln|kn vn] ns]; cbn [diff_one d_old d_new d_mo d_mn].
  - split; [apply evb_ret|apply okp_ret; split; assumption].
  - assert (Hl : incl (names_l ln) N) by incs. assert (Hr : incl (names_st ns) N) by incs. split.
    + apply evb_bind; [apply note_reads; exact Hl|]. intros [a mn']. apply evb_bind; [apply load_reads; exact Hl|]. intros n. apply evb_ret.
    + apply (okp_bind _ _ (fun _ => True)); [intros ? ? _; exact I|]. intros [a mn'] _.
      apply (okp_bind _ _ (fun n => incl (names_n n) N)); [intros t n E; exact (Hload ln Hl t n E)|]. intros n Hnn. apply okp_ret. split; cbn [snd d_old d_new]; incs.
  - split; [apply evb_ret|apply okp_ret; split; cbn [snd d_old d_new]; incs].
  - assert (Hl : incl (names_l lo) N) by incs. assert (Hr : incl (names_st os) N) by incs. split.
    + apply evb_bind; [apply note_reads; exact Hl|]. intros [a mo']. apply evb_bind; [apply load_reads; exact Hl|]. intros n. apply evb_ret.
    + apply (okp_bind _ _ (fun _ => True)); [intros ? ? _; exact I|]. intros [a mo'] _.
      apply (okp_bind _ _ (fun n => incl (names_n n) N)); [intros t n E; exact (Hload lo Hl t n E)|]. intros n Hnn. apply okp_ret. split; cbn [snd d_old d_new]; incs.
  - assert (Hlo : incl (names_l lo) N) by incs. assert (Hro : incl (names_st os) N) by incs.
    assert (Hln : incl (names_l ln) N) by incs. assert (Hrn : incl (names_st ns) N) by incs.
    destruct (link_eq _ _ lo ln).
    { split; [apply evb_ret|apply okp_ret; split; assumption]. }
    split.
    + apply evb_bind; [apply note_reads; exact Hlo|]. intros [r mo']. apply evb_bind; [apply note_reads; exact Hln|]. intros [a mn'].
      apply evb_bind; [apply load_reads; exact Hlo|]. intros no. destruct (n_es _ _ no); [apply evb_ret|].
      apply evb_bind; [apply load_reads; exact Hln|]. intros nn. destruct (n_es _ _ nn); [apply evb_ret|].
      apply evb_tick; [exact I|]. destruct (cmp _ _); apply evb_ret.
    + apply (okp_bind _ _ (fun _ => True)); [intros ? ? _; exact I|]. intros [r mo'] _.
      apply (okp_bind _ _ (fun _ => True)); [intros ? ? _; exact I|]. intros [a mn'] _.
      apply (okp_bind _ _ (fun n => incl (names_n n) N)); [intros t n E; exact (Hload lo Hlo t n E)|]. intros no Hno.
      pose proof (l0_sub no) as Hno0.
      destruct (n_es _ _ no); [apply okp_ret; split; cbn [snd d_old d_new]; incs|].
      apply (okp_bind _ _ (fun n => incl (names_n n) N)); [intros t n E; exact (Hload ln Hln t n E)|]. intros nn Hnn.
      pose proof (l0_sub nn) as Hnn0.
      destruct (n_es _ _ nn); [apply okp_ret; split; cbn [snd d_old d_new]; incs|].
      apply okp_tick. destruct (cmp _ _); apply okp_ret; split; cbn [snd d_old d_new]; incs.
  - assert (Hl : incl (names_l lo) N) by incs. assert (Hr : incl (names_st os) N) by incs. split.
    + apply evb_bind; [apply note_reads; exact Hl|]. intros [a mo']. apply evb_bind; [apply load_reads; exact Hl|]. intros n. apply evb_ret.
    + apply (okp_bind _ _ (fun _ => True)); [intros ? ? _; exact I|]. intros [a mo'] _.
      apply (okp_bind _ _ (fun n => incl (names_n n) N)); [intros t n E; exact (Hload lo Hl t n E)|]. intros n Hnn. apply okp_ret. split; cbn [snd d_old d_new]; incs.
  - split; [apply evb_ret|apply okp_ret; split; cbn [snd d_old d_new]; incs].
  - assert (Hl : incl (names_l ln) N) by incs. assert (Hr : incl (names_st ns) N) by incs. split.
    + apply evb_bind; [apply note_reads; exact Hl|]. intros [a mn']. apply evb_bind; [apply load_reads; exact Hl|]. intros n. apply evb_ret.
    + apply (okp_bind _ _ (fun _ => True)); [intros ? ? _; exact I|]. intros [a mn'] _.
      apply (okp_bind _ _ (fun n => incl (names_n n) N)); [intros t n E; exact (Hload ln Hl t n E)|]. intros n Hnn. apply okp_ret. split; cbn [snd d_old d_new]; incs.
  - split.
    + apply evb_tick; [exact I|]. destruct (cmp ko kn); [destruct (veq vo vn)|..]; apply evb_ret.
    + apply okp_tick. destruct (cmp ko kn); [destruct (veq vo vn)|..]; apply okp_ret; split; cbn [snd d_old d_new]; incs.
Qed.

Lemma run_reads : forall steps fuel (s : dstate), sinc s -> evb reads_in (diff_run _ _ cmp veq layer steps fuel s).
Proof.
  induction steps as [|st IH]; intros fuel s Hs; [apply evb_nofuel|]. cbn [diff_run].
  destruct (one_reads fuel s Hs) as [He Hk].
  apply (evb_bind_dep _ _ _ (fun r => sinc (snd r))); [exact He|exact Hk|].
  intros [e s'] Hs'. cbn [snd] in Hs'.
  assert (Hc : evb reads_in (let* r := diff_run _ _ cmp veq layer st fuel s' in ret (e :: r))).
  { apply evb_bind; [apply IH; exact Hs'|intros r; apply evb_ret]. }
  destruct e as [|a rm k av rv|r a|]; try exact Hc; try (apply IH; exact Hs'); [|apply evb_ret].
  destruct r; [exact Hc|]. destruct a; [exact Hc|apply IH; exact Hs'].
Qed.
End DIFFREADS.

Section DIFFREADS_TOP.
Variables K V : Type.
Variable cmp : K -> K -> comparison.
Variable veq : V -> V -> bool.
Variable layer : K -> nat.

Theorem diff_reads (o : option (mast K V)) (n : mast K V) :
  evb (reads_in (names_l K V (m_root _ _ n) ++ onames K V o)) (diff _ _ cmp veq layer o n).
Proof.
  unfold diff. apply run_reads. split; cbn [diff_init d_old d_new]; rewrite init_names.
  - apply incl_appr, incl_refl.
  - cbn [onames]. apply incl_appl, incl_refl.
Qed.
End DIFFREADS_TOP.
