(** Executable byte-level primitives: bytes are [N] in [0,256).
    uvarint (encoding/binary), unpadded URL-safe and padded standard base64 (encoding/base64),
    CRC-64/ECMA (hash/crc64), BLAKE2b-256 (RFC 7693), decimal printing.  Model file: no proofs
    other than test-vector [Example]s closed by [vm_compute]. *)
From Coq Require Import List NArith ZArith Lia Bool.
Import ListNotations.
Local Open Scope N_scope.

Definition bytes := list N.
Definition name := list N.

Definition mask64 : N := 18446744073709551615.
Definition add64 (a b : N) : N := N.land (a + b) mask64.
Definition rotr64 (x : N) (n : N) : N := N.lor (N.shiftr x n) (N.land (N.shiftl x (64 - n)) mask64).

Fixpoint bytes_eqb (a b : bytes) : bool :=
  match a, b with
  | [], [] => true
  | x :: a', y :: b' => (x =? y) && bytes_eqb a' b'
  | _, _ => false
  end.

Fixpoint bytes_cmp (a b : bytes) : comparison :=
  match a, b with
  | [], [] => Eq
  | [], _ :: _ => Lt
  | _ :: _, [] => Gt
  | x :: a', y :: b' => match N.compare x y with Eq => bytes_cmp a' b' | c => c end
  end.

(** * uvarint, as encoding/binary.PutUvarint / Uvarint; fuel 10 covers 64-bit values *)
Fixpoint uvarint_fuel (fuel : nat) (n : N) : bytes :=
  match fuel with
  | O => [n mod 128]
  | S f => if n <? 128 then [n] else (128 + n mod 128) :: uvarint_fuel f (n / 128)
  end.
Definition uvarint (n : N) : bytes := uvarint_fuel 10 n.

(* returns value and remaining bytes; None on truncation or overflow (more than 10 bytes) *)
Fixpoint read_uvarint_fuel (fuel : nat) (bs : bytes) (shift acc : N) : option (N * bytes) :=
  match fuel with
  | O => None
  | S f =>
    match bs with
    | [] => None
    | b :: r => if b <? 128 then Some (acc + b * 2 ^ shift, r)
                else read_uvarint_fuel f r (shift + 7) (acc + (b - 128) * 2 ^ shift)
    end
  end.
Definition read_uvarint (bs : bytes) : option (N * bytes) := read_uvarint_fuel 10 bs 0 0.

(** * base64 *)
Definition b64url_c (i : N) : N :=
  if i <? 26 then 65 + i else if i <? 52 then 97 + (i - 26) else if i <? 62 then 48 + (i - 52)
  else if i =? 62 then 45 else 95.
Definition b64std_c (i : N) : N :=
  if i <? 26 then 65 + i else if i <? 52 then 97 + (i - 26) else if i <? 62 then 48 + (i - 52)
  else if i =? 62 then 43 else 47.
Fixpoint b64 (c : N -> N) (padc : option N) (bs : bytes) : bytes :=
  let p := match padc with Some x => [x] | None => [] end in
  match bs with
  | [] => []
  | [a] => [c (a / 4); c ((a mod 4) * 16)] ++ p ++ p
  | [a; b] => [c (a / 4); c ((a mod 4) * 16 + b / 16); c ((b mod 16) * 4)] ++ p
  | a :: b :: d :: r =>
      c (a / 4) :: c ((a mod 4) * 16 + b / 16) :: c ((b mod 16) * 4 + d / 64) :: c (d mod 64) :: b64 c padc r
  end.
Definition b64url (bs : bytes) : bytes := b64 b64url_c None bs.
Definition b64std (bs : bytes) : bytes := b64 b64std_c (Some 61) bs.

Definition b64std_d (x : N) : option N :=
  if (65 <=? x) && (x <=? 90) then Some (x - 65)
  else if (97 <=? x) && (x <=? 122) then Some (x - 97 + 26)
  else if (48 <=? x) && (x <=? 57) then Some (x - 48 + 52)
  else if x =? 43 then Some 62 else if x =? 47 then Some 63 else None.
Fixpoint b64std_dec (bs : bytes) : option bytes :=
  match bs with
  | [] => Some []
  | a :: b :: c :: d :: r =>
    match b64std_d a, b64std_d b with
    | Some x, Some y =>
      if (c =? 61) && (d =? 61) then match r with [] => Some [x * 4 + y / 16] | _ => None end
      else match b64std_d c with
           | Some z =>
             if d =? 61 then match r with [] => Some [x * 4 + y / 16; (y mod 16) * 16 + z / 4] | _ => None end
             else match b64std_d d, b64std_dec r with
                  | Some w, Some t => Some (x * 4 + y / 16 :: (y mod 16) * 16 + z / 4 :: (z mod 4) * 64 + w :: t)
                  | _, _ => None
                  end
           | None => None
           end
    | _, _ => None
    end
  | _ => None
  end.

(** * CRC-64/ECMA as hash/crc64 (reflected, poly 0xC96C5795D7870F42) *)
Definition crc_poly : N := 14514072000185962306.
Definition crc_bit (c : N) : N := if N.odd c then N.lxor (N.shiftr c 1) crc_poly else N.shiftr c 1.
Definition crc_byte (c : N) (b : N) : N :=
  let c := N.lxor c b in crc_bit (crc_bit (crc_bit (crc_bit (crc_bit (crc_bit (crc_bit (crc_bit c))))))).
Definition crc64 (bs : bytes) : N := N.lxor (fold_left crc_byte bs mask64) mask64.

(** * BLAKE2b (RFC 7693), unkeyed, 32-byte digest *)
Definition iv : list N := [7640891576956012808; 13503953896175478587; 4354685564936845355; 11912009170470909681;
                           5840696475078001361; 11170449401992604703; 2270897969802886507; 6620516959819538809].
Definition sigma : list (list nat) := [
 [0;1;2;3;4;5;6;7;8;9;10;11;12;13;14;15]%nat; [14;10;4;8;9;15;13;6;1;12;0;2;11;7;5;3]%nat;
 [11;8;12;0;5;2;15;13;10;14;3;6;7;1;9;4]%nat; [7;9;3;1;13;12;11;14;2;6;5;10;4;0;15;8]%nat;
 [9;0;5;7;2;4;10;15;14;1;11;12;6;8;3;13]%nat; [2;12;6;10;0;11;8;3;4;13;7;5;15;14;1;9]%nat;
 [12;5;1;15;14;13;4;10;0;7;6;3;9;2;8;11]%nat; [13;11;7;14;12;1;3;9;5;0;15;4;8;6;2;10]%nat;
 [6;15;14;9;11;3;0;8;12;2;13;7;1;4;10;5]%nat; [10;2;8;4;7;6;1;5;15;11;9;14;3;12;13;0]%nat;
 [0;1;2;3;4;5;6;7;8;9;10;11;12;13;14;15]%nat; [14;10;4;8;9;15;13;6;1;12;0;2;11;7;5;3]%nat ].

Definition nthN (l : list N) (i : nat) := nth i l 0.
Fixpoint upd (l : list N) (i : nat) (x : N) : list N :=
  match l, i with [], _ => [] | _ :: r, O => x :: r | a :: r, S j => a :: upd r j x end.

Definition G (v : list N) (a b c d : nat) (x y : N) : list N :=
  let va := add64 (add64 (nthN v a) (nthN v b)) x in
  let vd := rotr64 (N.lxor (nthN v d) va) 32 in
  let vc := add64 (nthN v c) vd in
  let vb := rotr64 (N.lxor (nthN v b) vc) 24 in
  let va := add64 (add64 va vb) y in
  let vd := rotr64 (N.lxor vd va) 16 in
  let vc := add64 vc vd in
  let vb := rotr64 (N.lxor vb vc) 63 in
  upd (upd (upd (upd v a va) b vb) c vc) d vd.

Definition round (m : list N) (v : list N) (s : list nat) : list N :=
  let g v i a b c d := G v a b c d (nthN m (nth (2*i) s 0%nat)) (nthN m (nth (2*i+1) s 0%nat)) in
  let v := g v 0%nat 0%nat 4%nat 8%nat 12%nat in
  let v := g v 1%nat 1%nat 5%nat 9%nat 13%nat in
  let v := g v 2%nat 2%nat 6%nat 10%nat 14%nat in
  let v := g v 3%nat 3%nat 7%nat 11%nat 15%nat in
  let v := g v 4%nat 0%nat 5%nat 10%nat 15%nat in
  let v := g v 5%nat 1%nat 6%nat 11%nat 12%nat in
  let v := g v 6%nat 2%nat 7%nat 8%nat 13%nat in
  g v 7%nat 3%nat 4%nat 9%nat 14%nat.

Fixpoint le_word (bs : list N) (n : nat) : N :=
  match n, bs with
  | O, _ => 0 | _, [] => 0
  | S k, b :: r => b + 256 * le_word r k
  end.
Fixpoint words (bs : list N) (n : nat) : list N :=
  match n with O => [] | S k => le_word bs 8 :: words (skipn 8 bs) k end.

Definition compress (h : list N) (block : list N) (t : N) (last : bool) : list N :=
  let m := words block 16 in
  let v := h ++ iv in
  let v := upd v 12 (N.lxor (nthN v 12) (N.land t mask64)) in
  let v := upd v 13 (N.lxor (nthN v 13) (N.shiftr t 64)) in
  let v := if last then upd v 14 (N.lxor (nthN v 14) mask64) else v in
  let v := fold_left (round m) sigma v in
  map (fun i => N.lxor (N.lxor (nthN h i) (nthN v i)) (nthN v (i + 8))) (seq 0 8).

Fixpoint pad (bs : list N) (n : nat) : list N :=
  match n with O => [] | S k => match bs with [] => 0 :: pad [] k | b :: r => b :: pad r k end end.

(* fuel = number of blocks + 1 *)
Fixpoint blocks (fuel : nat) (h : list N) (bs : list N) (t : N) : list N :=
  match fuel with
  | O => h
  | S f =>
      if (N.of_nat (length bs) <=? 128) then compress h (pad bs 128) (t + N.of_nat (length bs)) true
      else blocks f (compress h (firstn 128 bs) (t + 128) false) (skipn 128 bs) (t + 128)
  end.

Fixpoint word_bytes (w : N) (n : nat) : list N :=
  match n with O => [] | S k => (w mod 256) :: word_bytes (w / 256) k end.

Definition blake2b_256 (bs : bytes) : bytes :=
  let h0 := upd iv 0 (N.lxor (nthN iv 0) 16842784) in   (* 0x01010000 ^ outlen 32 *)
  let h := blocks (S (Nat.div (length bs) 128)) h0 bs 0 in
  firstn 32 (flat_map (fun w => word_bytes w 8) h).

(** the name a node is stored under: store.go:238-239 *)
Definition name_of (bs : bytes) : name := b64url (blake2b_256 bs).

(** * decimal printing / parsing (encoding/json for integers) *)
Fixpoint dec_fuel (fuel : nat) (n : N) (acc : bytes) : bytes :=
  match fuel with
  | O => acc
  | S f => let acc' := (48 + n mod 10) :: acc in if n <? 10 then acc' else dec_fuel f (n / 10) acc'
  end.
Definition dec_N (n : N) : bytes := dec_fuel 40 n [].
Definition dec_Z (z : Z) : bytes :=
  match z with Z0 => [48] | Zpos p => dec_N (Npos p) | Zneg p => 45 :: dec_N (Npos p) end.

Fixpoint parse_dec_acc (bs : bytes) (acc : N) : option N :=
  match bs with
  | [] => Some acc
  | b :: r => if (48 <=? b) && (b <=? 57) then parse_dec_acc r (acc * 10 + (b - 48)) else None
  end.
Definition parse_N (bs : bytes) : option N :=
  match bs with [] => None | _ => parse_dec_acc bs 0 end.
Definition parse_Z (bs : bytes) : option Z :=
  match bs with
  | 45 :: r => match parse_N r with Some n => Some (- Z.of_N n)%Z | None => None end
  | _ => match parse_N bs with Some n => Some (Z.of_N n) | None => None end
  end.

(** * test vectors *)
(* the name of a node written by the pinned code: "\x02\x03\"a\"\x03\"b\"\x02\x010\x011\x00" *)
Definition tv_node : bytes := [2;3;34;97;34;3;34;98;34;2;1;48;1;49;0].
Definition ascii_of (bs : bytes) := bs.
Example crc64_a : crc64 [97] = 3675645893302102789. (* 0x330284772e652b05, hash/crc64 ECMA of "a" *) Proof. vm_compute. reflexivity. Qed.
Example name_tv : name_of tv_node =
  [53;104;82;50;112;76;102;115;78;54;121;101;78;109;71;90;111;67;75;99;117;95;79;115;65;109;100;52;48;117;71;79;74;121;112;111;118;81;114;89;113;67;52].
Proof. vm_compute. reflexivity. Qed.   (* 5hR2pLfsN6yeNmGZoCKcu_OsAmd40uGOJypovQrYqC4 : Go and Python hashlib agree *)
Example uvarint_300 : uvarint 300 = [172; 2]. Proof. reflexivity. Qed.
Example read_uvarint_300 : read_uvarint [172; 2; 9] = Some (300, [9]). Proof. reflexivity. Qed.
Example b64std_rt : b64std_dec (b64std [1;2;3;4;255]) = Some [1;2;3;4;255]. Proof. reflexivity. Qed.
Example dec_rt : parse_Z (dec_Z (-1203)%Z) = Some (-1203)%Z. Proof. reflexivity. Qed.
