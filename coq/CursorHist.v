(** Cursors in histories: a cursor made on any tree of a reachable world, positioned by Min, Max or
    Ceil and moved by any mix of Forward and Backward, reads exactly the entries of the sorted listing
    of that tree as it was when the cursor was made, at the position the abstract cursor computes.
    Lemma file. *)
From Coq Require Import List NArith ZArith Lia Bool Arith Sorted.
From Mast Require Import Prim Key Tree KeyOrder Codec Store Diff World Erase Build Spec Canon Links Level Inv Nav Hist Cursor.
Import ListNotations.

Inductive cstate := CFresh | CAt (k : nat) | COff.
Definition acur := (kvl * cstate)%type.

Definition kfromk (k : key) (l : kvl) : kvl := from_key key val kcmp k l.

(* the abstract cursor machine *)
Definition cstep (a : acur) (o : op) : option (acur * option (option (key * val))) :=
  let (l, st) := a in
  match o, st with
  | OCMin _, CFresh => Some ((l, CAt 0), None)
  | OCMax _, CFresh => Some ((l, CAt (length l - 1)), None)
  | OCCeil _ k, CFresh => let r := kfromk k l in Some ((l, match r with [] => COff | _ => CAt (length l - length r) end), None)
  | OCFwd _, CAt k => Some ((l, if Nat.ltb (S k) (length l) then CAt (S k) else COff), None)
  | OCFwd _, COff => Some ((l, COff), None)
  | OCBwd _, CAt k => Some ((l, match k with O => COff | S k' => CAt k' end), None)
  | OCBwd _, COff => Some ((l, COff), None)
  | OCGet _, CAt k => Some (a, Some (nth_error l k))
  | OCGet _, COff => Some (a, Some None)
  | _, _ => None
  end.

Definition cur_ok (x : cur) (a : acur) : Prop :=
  exists bf n, kcanon bf (cu_m x) (fst a) /\ fst a <> [] /\ root_n _ _ (m_root _ _ (cu_m x)) = Some n /\
    match snd a with
    | CFresh => cu_p x = [(n, 0%Z)]
    | CAt k => Pos key val (hfuel (cu_m x)) n (cu_p x) /\ length (before key val (cu_p x)) = S k
    | COff => cu_p x = []
    end.

Lemma root_facts bf (m : kmast) l n : kcanon bf m l -> l <> [] -> root_n _ _ (m_root _ _ m) = Some n ->
  ne key val (hfuel m) n /\ to_list_n _ _ n = l /\ ssorted key val kcmp (to_list_n _ _ n).
Proof.
  intros C Hl Hn. destruct (cn_root _ _ _ _ _ _ _ C) as (n' & Hn' & He). rewrite Hn in Hn'. inversion Hn'; subst n'.
  pose proof (canon_list key val (klayer bf) _ _ _ He) as Hlist. split; [exact (ne_bnode key val (klayer bf) _ n l Hl He)|].
  split; [exact Hlist|rewrite Hlist; exact (cn_sorted _ _ _ _ _ _ _ C)].
Qed.

(* making a cursor *)
Lemma clone_root bf (m : kmast) l : kcanon bf m l -> l <> [] ->
  exists t n, clone _ _ m = (t, Ok (set_root _ _ m (LPtr n) (m_emptied _ _ m))) /\ root_n _ _ (m_root _ _ m) = Some n.
Proof.
  intros C Hl. destruct (cn_root _ _ _ _ _ _ _ C) as (n & Hn & He). unfold clone.
  destruct (m_root _ _ m) as [|c|h c|h] eqn:Er; cbn [root_n] in Hn; try discriminate.
  - exfalso. apply Hl. exact (root_nil_list key val kcmp (klayer bf) bf m l C Er).
  - inversion Hn; subst c. exists [], n. split; reflexivity.
  - inversion Hn; subst c. exists [ELoad h], n. split; reflexivity.
Qed.

Lemma cursor_fresh bf (m : kmast) l : kcanon bf m l -> l <> [] ->
  oks (let* m' := clone _ _ m in let* p := cursor _ _ m' in ret (Cur m' p)) (fun x => cur_ok x (l, CFresh)).
Proof.
  intros C Hl. destruct (clone_root bf m l C Hl) as (t & n & E & Hn).
  destruct (k_clone_ok bf m l C) as (t' & m' & E' & C'). rewrite E in E'. inversion E'; subst t' m'. clear E'.
  unfold bind at 1. rewrite E. unfold cursor, clone. cbn [set_root m_root load bind ret m_emptied app].
  eexists _, _. split; [reflexivity|]. exists bf, n. cbn [fst snd cu_m cu_p]. exact (conj C' (conj Hl (conj eq_refl eq_refl))).
Qed.

Lemma pos_nonempty F n p : Pos key val F n p -> after key val p <> [] /\ before key val p <> [].
Proof.
  intros (Hv & _ & _ & _ & Hne & _). destruct p as [|[c i] r]; [contradiction|].
  destruct (get_last_ok key val c i r Hv) as (x & Hb & _). cbn [valid] in Hv. destruct (suffix_step key val c i Hv) as (e & _ & _ & Hs).
  split; [rewrite after_cons, Hs; discriminate|rewrite Hb; intros E; apply app_eq_nil in E; destruct E as [_ E]; apply app_eq_nil in E; destruct E as [_ E]; apply app_eq_nil in E; destruct E as [_ E]; discriminate].
Qed.

Definition cur_run (x : cur) (o : op) : option (M (cpath key val)) :=
  let F := hfuel (cu_m x) in
  match o with
  | OCMin _ => Some (cur_min _ _ F (cu_p x))
  | OCMax _ => Some (cur_max _ _ F (cu_p x))
  | OCCeil _ k => Some (cur_ceil _ _ kcmp F k (cu_p x))
  | OCFwd _ => Some (cur_forward _ _ F (cu_p x))
  | OCBwd _ => Some (cur_backward _ _ F (cu_p x))
  | _ => None
  end.

Theorem cur_move_ok x a o a' out m : cur_ok x a -> cstep a o = Some (a', out) -> cur_run x o = Some m ->
  oks m (fun p' => cur_ok (Cur (cu_m x) p') a') /\ out = None.
Proof.
  destruct a as [l st]. intros (bf & n & C & Hl & Hn & Hst) Hc Hr. cbn [fst snd] in *.
  destruct (root_facts bf (cu_m x) l n C Hl Hn) as (Hne & Hlist & Hs).
  set (F := hfuel (cu_m x)) in *.
  assert (Hok : forall p' st', match st' with CFresh => p' = [(n, 0%Z)] | CAt k => Pos key val F n p' /\ length (before key val p') = S k | COff => p' = [] end ->
                 cur_ok (Cur (cu_m x) p') (l, st')).
  { intros p' st' H. exists bf, n. cbn [fst snd cu_m cu_p]. exact (conj C (conj Hl (conj Hn H))). }
  destruct o; cbn [cur_run] in Hr; try discriminate; inversion Hr; subst m; clear Hr; destruct st as [|k0|]; cbn [cstep] in Hc; try discriminate; inversion Hc; subst a' out; clear Hc; (split; [|reflexivity]).
  - (* Min *)
    rewrite Hst. destruct (min_ok key val F n Hne) as (t & p' & E & Ha & _). destruct (pos_min key val F n Hne) as (t2 & p2 & E2 & Hp).
    rewrite E in E2. assert (p2 = p') by congruence. subst p2. exists t, p'. split; [exact E|]. apply Hok. split; [exact Hp|].
    destruct Hp as (_ & _ & _ & _ & _ & Hb). rewrite Ha, Hlist in Hb. apply (f_equal (@length _)) in Hb. rewrite app_length in Hb.
    destruct l as [|y l']; [contradiction|]. cbn [tl length] in Hb. lia.
  - (* Max *)
    rewrite Hst. destruct (max_ok key val F n Hne) as (t & p' & E & Hb & _). destruct (pos_max key val F n Hne) as (t2 & p2 & E2 & Hp).
    rewrite E in E2. assert (p2 = p') by congruence. subst p2. exists t, p'. split; [exact E|]. apply Hok. split; [exact Hp|].
    rewrite Hb, Hlist. destruct l; [contradiction|]. cbn [length]. lia.
  - (* Ceil *)
    rewrite Hst. destruct (ceil_ok key val kcmp kcmp_eq kcmp_trans F k n Hne Hs) as (t & p' & E & Ha & _).
    destruct (pos_ceil key val kcmp kcmp_eq kcmp_trans F k n Hne Hs) as (t2 & p2 & E2 & Hp).
    rewrite E in E2. assert (p2 = p') by congruence. subst p2. exists t, p'. split; [exact E|]. rewrite Hlist in Ha. unfold kfromk.
    destruct Hp as [->|Hp].
    + cbn [after flat_map] in Ha. rewrite <- Ha. apply Hok. reflexivity.
    + destruct (pos_nonempty F n p' Hp) as [Hane Hbne]. rewrite Ha in Hane.
      destruct (from_key key val kcmp k l) as [|y r] eqn:Er; [contradiction|]. apply Hok. split; [exact Hp|].
      destruct Hp as (_ & _ & _ & _ & _ & Hb). rewrite Ha, Hlist in Hb. apply (f_equal (@length _)) in Hb. rewrite app_length in Hb. cbn [tl length] in *.
      destruct (before key val p'); [contradiction|]. cbn [length] in *. lia.
  - (* Forward from a position *)
    destruct Hst as [Hp Hk]. destruct (pos_forward key val F n _ Hp) as (t & p' & E & H).
    pose proof Hp as (Hv & _ & Hpk & _ & _ & Hb).
    destruct (forward_ok key val F _ Hv Hpk) as (t2 & p2 & E2 & Ha & _). rewrite E in E2. assert (p2 = p') by congruence. subst p2.
    exists t, p'. split; [exact E|]. rewrite Hlist in Hb. apply (f_equal (@length _)) in Hb. rewrite app_length, Hk in Hb.
    destruct H as [->|[Hp' Hk']].
    + cbn [after flat_map] in Ha. rewrite <- Ha in Hb. cbn [length] in Hb. replace (S k0 <? length l) with false by (symmetry; apply Nat.ltb_ge; lia). apply Hok. reflexivity.
    + destruct (pos_nonempty F n p' Hp') as [Hane _]. rewrite Ha in Hane. destruct (tl (after key val (cu_p x))) as [|y r] eqn:Et; [contradiction|]. cbn [length] in Hb.
      replace (S k0 <? length l) with true by (symmetry; apply Nat.ltb_lt; lia). apply Hok. split; [exact Hp'|rewrite Hk', Hk; reflexivity].
  - (* Forward when off the end *)
    rewrite Hst. cbn [cur_forward]. apply oks_ret. apply Hok. reflexivity.
  - (* Backward from a position *)
    destruct Hst as [Hp Hk]. destruct (pos_backward key val F n _ Hp) as (t & p' & E & H).
    pose proof Hp as (Hv & _ & Hpk & _ & _ & _).
    destruct (backward_ok key val F _ Hv Hpk) as (t2 & p2 & E2 & Hb' & _). rewrite E in E2. assert (p2 = p') by congruence. subst p2.
    exists t, p'. split; [exact E|].
    assert (Hlen : length (before key val p') = k0).
    { rewrite Hb'. destruct (before key val (cu_p x)) as [|y r] using rev_ind; [cbn in Hk; lia|]. rewrite removelast_last. rewrite app_length in Hk. cbn [length] in Hk. lia. }
    destruct H as [->|[Hp' _]].
    + cbn [before] in Hlen. subst k0. apply Hok. reflexivity.
    + destruct (pos_nonempty F n p' Hp') as [_ Hbne]. destruct k0 as [|k']; [destruct (before key val p'); [contradiction|discriminate]|].
      apply Hok. split; [exact Hp'|exact Hlen].
  - (* Backward when off the end *)
    rewrite Hst. cbn [cur_backward]. apply oks_ret. apply Hok. reflexivity.
Qed.

Theorem cur_get_ok x a c a' out : cur_ok x a -> cstep a (OCGet c) = Some (a', out) -> a' = a /\ out = Some (cur_get _ _ (cu_p x)).
Proof.
  destruct a as [l st]. intros (bf & n & C & Hl & Hn & Hst) Hc. cbn [fst snd] in *.
  destruct (root_facts bf (cu_m x) l n C Hl Hn) as (_ & Hlist & _).
  destruct st as [|k|]; cbn [cstep] in Hc; try discriminate; inversion Hc; subst a' out; (split; [reflexivity|]).
  - destruct Hst as [Hp Hk]. rewrite (pos_get key val _ n _ Hp), Hlist, Hk. replace (S k - 1) with k by lia. reflexivity.
  - rewrite Hst. reflexivity.
Qed.

(** * histories with cursors *)
From Mast Require Import Reload WorldInv.

Definition acworld := (aworld2 * list (N * acur))%type.

Definition is_cursor_op (o : op) : bool :=
  match o with OCursor _ _ | OCMin _ | OCMax _ | OCCeil _ _ | OCFwd _ | OCBwd _ | OCGet _ => true | _ => false end.
Definition cur_id (o : op) : N :=
  match o with OCursor _ c | OCMin c | OCMax c | OCCeil c _ | OCFwd c | OCBwd c | OCGet c => c | _ => 0%N end.

Definition astep3 (s : acworld) (o : op) : acworld * aobs2 :=
  let (a, ac) := s in
  match o with
  | OCursor t c => match aget (fst a) t with
                   | Some x => ((a, aset ac c (at_l x, CFresh)), BOk)
                   | None => (s, BFail 9) end
  | OCMin c | OCMax c | OCCeil c _ | OCFwd c | OCBwd c | OCGet c =>
      match aget ac c with
      | Some a0 => match cstep a0 o with
                   | Some (a', None) => ((a, aset ac c a'), BOk)
                   | Some (_, Some e) => (s, BEntry e)
                   | None => (s, BFail 9) end
      | None => (s, BFail 9)
      end
  | _ => let (a', ob) := astep2 a o in ((a', ac), ob)
  end.

(* a cursor is made on a non-empty tree, positioned once by Min / Max / Ceil, then moved and read *)
Definition sup3 (s : acworld) (o : op) : Prop :=
  match o with
  | OCursor t _ => match aget (fst (fst s)) t with Some x => at_l x <> [] | None => True end
  | OCMin c | OCMax c | OCCeil c _ | OCFwd c | OCBwd c | OCGet c =>
      match aget (snd s) c with Some a0 => cstep a0 o <> None | None => True end
  | _ => sup (fst s) o
  end.

Definition cinv (w : world) (ac : list (N * acur)) : Prop :=
  forall c, match aget (w_curs w) c, aget ac c with
            | Some x, Some a => cur_ok x a | None, None => True | _, _ => False end.

Lemma cinv_set w ac c x a : cinv w ac -> cur_ok x a -> cinv (set_cur w c x) (aset ac c a).
Proof.
  intros H Hok c'. unfold set_cur. cbn [w_curs]. destruct (N.eq_dec c c') as [->|Hne].
  - rewrite !aget_aset_same. exact Hok.
  - rewrite !aget_aset_other by exact Hne. apply H.
Qed.

Lemma winv2_set_cur w a c x : winv2 w a -> winv2 (set_cur w c x) a.
Proof. intros [HT HR]. split; [exact HT|exact HR]. Qed.

Lemma step_curs_unchanged w o : is_cursor_op o = false -> w_curs (fst (fst (step w o))) = w_curs w.
Proof.
  destruct o; cbn [is_cursor_op]; try discriminate; intros _; cbn [step]; unfold with_tree, with_cur, upd, ro;
    repeat match goal with
           | |- context [match ?x with _ => _ end] => destruct x eqn:?; cbn [fst snd w_curs set_tree set_rootrec set_store set_cur]
           end; reflexivity.
Qed.

Theorem step_refines3 w a ac o :
  winv2 w a -> cinv w ac -> sup3 (a, ac) o -> ncoll w o ->
  let '(w', ob, _) := step w o in
  let '((a', ac'), aob) := astep3 (a, ac) o in
  winv2 w' a' /\ cinv w' ac' /\ pobs ob = aob.
Proof.
  intros Hw Hc Hs Hn. destruct (is_cursor_op o) eqn:Eo.
  - destruct o; try discriminate; cbn [sup3 fst snd] in Hs; cbn [step astep3]; unfold with_tree, with_cur.
    + (* OCursor *)
      destruct Hw as [HT HR]. pose proof (HT t) as Ht. destruct a as [atr aro]. cbn [fst snd] in *.
      destruct (aget (w_trees w) t) as [tr|] eqn:Et; destruct (aget atr t) as [x|] eqn:Ea; try contradiction; [|repeat split; assumption].
      destruct Ht as (C & _). destruct (cursor_fresh (at_bf x) (t_m tr) (at_l x) C Hs) as (tt & cu & E & Hok).
      unfold bind at 1 in E. destruct (clone _ _ (t_m tr)) as [t1 [m'| | |]]; try discriminate.
      unfold bind at 1 in E. destruct (cursor _ _ m') as [t2 [p| | |]]; try discriminate. unfold ret in E. inversion E; subst. clear E.
      split; [apply winv2_set_cur; split; assumption|]. split; [apply cinv_set; assumption|reflexivity].
    + (* OCMin *)
      pose proof (Hc c) as Hcc. destruct (aget (w_curs w) c) as [x|] eqn:Ex; destruct (aget ac c) as [a0|] eqn:Ea; try contradiction; [|exact (conj Hw (conj Hc eq_refl))].
      destruct (cstep a0 (OCMin c)) as [[a' out]|] eqn:Ec; [|contradiction].
      destruct (cur_move_ok x a0 (OCMin c) a' out _ Hcc Ec eq_refl) as [(tt & p' & E & Hok) ->]. cbn [cur_run] in E.
      unfold updc. rewrite E. split; [apply winv2_set_cur; exact Hw|]. split; [apply cinv_set; assumption|reflexivity].
    + (* OCMax *)
      pose proof (Hc c) as Hcc. destruct (aget (w_curs w) c) as [x|] eqn:Ex; destruct (aget ac c) as [a0|] eqn:Ea; try contradiction; [|exact (conj Hw (conj Hc eq_refl))].
      destruct (cstep a0 (OCMax c)) as [[a' out]|] eqn:Ec; [|contradiction].
      destruct (cur_move_ok x a0 (OCMax c) a' out _ Hcc Ec eq_refl) as [(tt & p' & E & Hok) ->]. cbn [cur_run] in E.
      unfold updc. rewrite E. split; [apply winv2_set_cur; exact Hw|]. split; [apply cinv_set; assumption|reflexivity].
    + (* OCCeil *)
      pose proof (Hc c) as Hcc. destruct (aget (w_curs w) c) as [x|] eqn:Ex; destruct (aget ac c) as [a0|] eqn:Ea; try contradiction; [|exact (conj Hw (conj Hc eq_refl))].
      destruct (cstep a0 (OCCeil c k)) as [[a' out]|] eqn:Ec; [|contradiction].
      destruct (cur_move_ok x a0 (OCCeil c k) a' out _ Hcc Ec eq_refl) as [(tt & p' & E & Hok) ->]. cbn [cur_run] in E.
      unfold updc. rewrite E. split; [apply winv2_set_cur; exact Hw|]. split; [apply cinv_set; assumption|reflexivity].
    + (* OCFwd *)
      pose proof (Hc c) as Hcc. destruct (aget (w_curs w) c) as [x|] eqn:Ex; destruct (aget ac c) as [a0|] eqn:Ea; try contradiction; [|exact (conj Hw (conj Hc eq_refl))].
      destruct (cstep a0 (OCFwd c)) as [[a' out]|] eqn:Ec; [|contradiction].
      destruct (cur_move_ok x a0 (OCFwd c) a' out _ Hcc Ec eq_refl) as [(tt & p' & E & Hok) ->]. cbn [cur_run] in E.
      unfold updc. rewrite E. split; [apply winv2_set_cur; exact Hw|]. split; [apply cinv_set; assumption|reflexivity].
    + (* OCBwd *)
      pose proof (Hc c) as Hcc. destruct (aget (w_curs w) c) as [x|] eqn:Ex; destruct (aget ac c) as [a0|] eqn:Ea; try contradiction; [|exact (conj Hw (conj Hc eq_refl))].
      destruct (cstep a0 (OCBwd c)) as [[a' out]|] eqn:Ec; [|contradiction].
      destruct (cur_move_ok x a0 (OCBwd c) a' out _ Hcc Ec eq_refl) as [(tt & p' & E & Hok) ->]. cbn [cur_run] in E.
      unfold updc. rewrite E. split; [apply winv2_set_cur; exact Hw|]. split; [apply cinv_set; assumption|reflexivity].
    + (* OCGet *)
      pose proof (Hc c) as Hcc. destruct (aget (w_curs w) c) as [x|] eqn:Ex; destruct (aget ac c) as [a0|] eqn:Ea; try contradiction; [|exact (conj Hw (conj Hc eq_refl))].
      destruct (cstep a0 (OCGet c)) as [[a' out]|] eqn:Ec; [|contradiction].
      destruct (cur_get_ok x a0 c a' out Hcc Ec) as [-> ->]. split; [exact Hw|]. split; [exact Hc|reflexivity].
  - assert (Ha : astep3 (a, ac) o = (let (a', ob) := astep2 a o in ((a', ac), ob))) by (destruct o; try discriminate; reflexivity).
    assert (Hs' : sup a o) by (destruct o; try discriminate; exact Hs).
    rewrite Ha. pose proof (step_refines2 w a o Hw Hs' Hn) as H. pose proof (step_curs_unchanged w o Eo) as Hcu.
    destruct (step w o) as [[w' ob] tr]. destruct (astep2 a o) as [a' aob]. destruct H as [H1 H2]. cbn [fst] in Hcu.
    split; [exact H1|]. split; [|exact H2]. intros c. rewrite Hcu. apply Hc.
Qed.

Fixpoint arun3 (s : acworld) (ops : list op) : list aobs2 :=
  match ops with [] => [] | o :: r => let (s', ob) := astep3 s o in ob :: arun3 s' r end.
Fixpoint conds3 (w : world) (s : acworld) (ops : list op) : Prop :=
  match ops with
  | [] => True
  | o :: r => sup3 s o /\ ncoll w o /\ conds3 (fst (fst (step w o))) (fst (astep3 s o)) r
  end.

Theorem history_refines3 : forall ops w a ac,
  winv2 w a -> cinv w ac -> conds3 w (a, ac) ops ->
  map (fun x => pobs (fst x)) (run w ops) = arun3 (a, ac) ops.
Proof.
  induction ops as [|o r IH]; intros w a ac Hw Hc Hcs; [reflexivity|].
  cbn [conds3] in Hcs. destruct Hcs as (Hs & Hn & Hr).
  pose proof (step_refines3 w a ac o Hw Hc Hs Hn) as Hst. cbn [run arun3].
  destruct (step w o) as [[w' ob] tr]. destruct (astep3 (a, ac) o) as [[a' ac'] aob]. destruct Hst as (Hw' & Hc' & Hob). cbn [fst] in *.
  cbn [map fst]. rewrite Hob. f_equal. apply IH; assumption.
Qed.

Lemma cinv_empty : cinv empty_world [].
Proof. intros c. exact I. Qed.

(* deciding the side conditions, for the examples *)
Definition sup3b (s : acworld) (o : op) : bool :=
  match o with
  | OCursor t _ => match aget (fst (fst s)) t with Some x => match at_l x with [] => false | _ => true end | None => true end
  | OCMin c | OCMax c | OCCeil c _ | OCFwd c | OCBwd c | OCGet c =>
      match aget (snd s) c with Some a0 => match cstep a0 o with Some _ => true | None => false end | None => true end
  | _ => supb (fst s) o
  end.
Lemma sup3b_ok s o : sup3b s o = true -> sup3 s o.
Proof.
  destruct o; cbn [sup3b sup3]; try apply supb_ok.
  - destruct (aget (fst (fst s)) t) as [x|]; [|trivial]. destruct (at_l x); [discriminate|intros _; discriminate].
  - destruct (aget (snd s) c) as [a0|]; [|trivial]. destruct (cstep a0 _); [intros _; discriminate|discriminate].
  - destruct (aget (snd s) c) as [a0|]; [|trivial]. destruct (cstep a0 _); [intros _; discriminate|discriminate].
  - destruct (aget (snd s) c) as [a0|]; [|trivial]. destruct (cstep a0 _); [intros _; discriminate|discriminate].
  - destruct (aget (snd s) c) as [a0|]; [|trivial]. destruct (cstep a0 _); [intros _; discriminate|discriminate].
  - destruct (aget (snd s) c) as [a0|]; [|trivial]. destruct (cstep a0 _); [intros _; discriminate|discriminate].
  - destruct (aget (snd s) c) as [a0|]; [|trivial]. destruct (cstep a0 _); [intros _; discriminate|discriminate].
Qed.
Fixpoint conds3b (w : world) (s : acworld) (ops : list op) : bool :=
  match ops with
  | [] => true
  | o :: r => sup3b s o && ncollb w o && conds3b (fst (fst (step w o))) (fst (astep3 s o)) r
  end.
Lemma conds3b_ok : forall ops w s, conds3b w s ops = true -> conds3 w s ops.
Proof.
  induction ops as [|o r IH]; intros w s H; [exact I|]. cbn [conds3b conds3] in *.
  apply andb_true_iff in H. destruct H as [H H3]. apply andb_true_iff in H. destruct H as [H1 H2].
  split; [exact (sup3b_ok _ _ H1)|]. split; [exact (ncollb_ok _ _ H2)|exact (IH _ _ H3)].
Qed.
