(** Forgetting residency: [erase] maps every tree to the plain tree with the same keys, values and
    shape (all nodes in memory, dirty, without source).  Statements about contents and shape are
    statements about erased trees.  Lemma file. *)
From Coq Require Import List NArith ZArith Lia Bool.
From Mast Require Import Prim Tree.
Import ListNotations.

Section ERASE.
Variables K V : Type.
Notation node := (node K V).
Notation link := (link K V).
Notation entry := (entry K V).

Fixpoint erase_n (n : node) : node :=
  match n with
  | Node _ _ l0 es =>
    let el (l : link) : link :=
      match l with LNil => LNil | LPtr c => LPtr (erase_n c) | LHash _ c => LPtr (erase_n c) | LBad h => LBad h end in
    Node true None (el l0) (map (fun e : entry => (fst (fst e), snd (fst e), el (snd e))) es)
  end.
Definition erase_l (l : link) : link :=
  match l with LNil => LNil | LPtr c => LPtr (erase_n c) | LHash _ c => LPtr (erase_n c) | LBad h => LBad h end.
Definition erase_e (e : entry) : entry := (ekey _ _ e, eval _ _ e, erase_l (elink _ _ e)).

Lemma erase_n_eq d s l0 es : erase_n (Node d s l0 es) = Node true None (erase_l l0) (map erase_e es).
Proof. reflexivity. Qed.

Lemma erase_n_unfold n : erase_n n = Node true None (erase_l (n_l0 _ _ n)) (map erase_e (n_es _ _ n)).
Proof. destruct n; reflexivity. Qed.

Lemma ekey_erase e : ekey _ _ (erase_e e) = ekey _ _ e.
Proof. reflexivity. Qed.
Lemma eval_erase e : eval _ _ (erase_e e) = eval _ _ e.
Proof. reflexivity. Qed.
Lemma elink_erase e : elink _ _ (erase_e e) = erase_l (elink _ _ e).
Proof. reflexivity. Qed.

Lemma is_nil_erase l : is_nil _ _ (erase_l l) = is_nil _ _ l.
Proof. destruct l; reflexivity. Qed.

Lemma is_empty_erase n : is_empty _ _ (erase_n n) = is_empty _ _ n.
Proof. destruct n as [d s l0 es]. rewrite erase_n_eq. cbn [is_empty]. destruct l0; cbn [erase_l]; try reflexivity. destruct es; reflexivity. Qed.

Lemma link_of_erase n : erase_l (link_of _ _ n) = link_of _ _ (erase_n n).
Proof. unfold link_of. rewrite is_empty_erase. destruct (is_empty _ _ n); reflexivity. Qed.

Lemma erase_mk_dirty l0 es : erase_n (mk_dirty _ _ l0 es) = mk_dirty _ _ (erase_l l0) (map erase_e es).
Proof. reflexivity. Qed.

(** loading a link whose erasure is a pointer succeeds and yields a node with that erasure *)
Lemma load_erase l m : erase_l l = LPtr m -> exists t c, load _ _ l = (t, Ok c) /\ erase_n c = m.
Proof.
  destruct l as [|c|h c|h]; cbn [erase_l]; intros H; try discriminate; inversion H; subst.
  - exists [], c. split; reflexivity.
  - exists [ELoad h], c. split; reflexivity.
Qed.

Lemma to_list_n_eq d s l0 (es : list entry) :
  to_list_n _ _ (Node d s l0 es) =
  to_list _ _ l0 ++ flat_map (fun e : entry => (ekey _ _ e, eval _ _ e) :: to_list _ _ (elink _ _ e)) es.
Proof.
  cbn [to_list_n].
  replace (match l0 with LNil => [] | LPtr c => to_list_n _ _ c | LHash _ c => to_list_n _ _ c | LBad _ => [] end)
    with (to_list _ _ l0) by (destruct l0; reflexivity).
  f_equal.
  induction es as [|[[k v] l] r IH]; [reflexivity|].
  cbn [flat_map ekey eval elink fst snd]. rewrite <- IH. destruct l; reflexivity.
Qed.

Lemma last_link_erase l0 (es : list entry) :
  erase_l (last_link _ _ l0 es) = last_link _ _ (erase_l l0) (map erase_e es).
Proof.
  unfold last_link. rewrite <- map_rev. destruct (rev es) as [|e r]; reflexivity.
Qed.

Lemma set_last_link_erase l0 (es : list entry) nl :
  (let (a, b) := set_last_link _ _ l0 es nl in (erase_l a, map erase_e b)) =
  set_last_link _ _ (erase_l l0) (map erase_e es) (erase_l nl).
Proof.
  unfold set_last_link. rewrite <- map_rev. destruct (rev es) as [|[[k v] l] r]; cbn [map].
  - reflexivity.
  - unfold erase_e at 2. cbn [ekey eval elink fst snd]. rewrite map_app, map_rev. reflexivity.
Qed.

(** structural induction over trees *)
Section NODE_IND.
Variable P : node -> Prop.
Definition PL (l : link) : Prop := match l with LPtr c => P c | LHash _ c => P c | _ => True end.
Hypothesis H : forall d s l0 (es : list entry), PL l0 -> Forall (fun e : entry => PL (elink _ _ e)) es -> P (Node d s l0 es).
Fixpoint node_ind' (n : node) : P n :=
  match n with
  | Node d s l0 es =>
    H d s l0 es
      (match l0 return PL l0 with LPtr c => node_ind' c | LHash _ c => node_ind' c | LNil => I | LBad _ => I end)
      ((fix go (es : list entry) : Forall (fun e : entry => PL (elink _ _ e)) es :=
          match es with
          | [] => Forall_nil _
          | e :: r =>
              Forall_cons e
                (match e as e0 return PL (elink _ _ e0) with
                 | (_, _, l) => match l return PL l with LPtr c => node_ind' c | LHash _ c => node_ind' c | LNil => I | LBad _ => I end
                 end) (go r)
          end) es)
  end.
End NODE_IND.

Lemma to_list_n_erase : forall n, to_list_n _ _ (erase_n n) = to_list_n _ _ n.
Proof.
  induction n as [d s l0 es H0 Hes] using node_ind'. rewrite erase_n_eq, !to_list_n_eq. f_equal.
  - destruct l0 as [|c|h c|h]; cbn [erase_l to_list PL] in *; try reflexivity; exact H0.
  - rewrite !flat_map_concat_map, map_map. f_equal. apply map_ext_in. intros e He.
    rewrite Forall_forall in Hes. specialize (Hes e He). destruct e as [[k v] l].
    unfold erase_e. cbn [ekey eval elink fst snd] in *. f_equal.
    destruct l as [|c|h c|h]; cbn [erase_l to_list PL] in *; try reflexivity; exact Hes.
Qed.

Section WITHCMP.
Variable cmp : K -> K -> comparison.

Lemma span_lt_erase k (es : list entry) :
  span_lt _ _ cmp k (map erase_e es) =
  (map erase_e (fst (span_lt _ _ cmp k es)), map erase_e (snd (span_lt _ _ cmp k es))).
Proof.
  induction es as [|e r IH]; [reflexivity|].
  cbn [map span_lt]. rewrite ekey_erase. destruct (klt _ cmp (ekey _ _ e) k).
  - rewrite IH. destruct (span_lt _ _ cmp k r). reflexivity.
  - reflexivity.
Qed.

Lemma hits_erase k (rs : list entry) : hits _ _ cmp k (map erase_e rs) = hits _ _ cmp k rs.
Proof. destruct rs; reflexivity. Qed.
End WITHCMP.

End ERASE.
