(** How many nodes an operation reads: bounds on the number of Load events in the trace of every
    operation, for ALL trees and all outcomes (no invariant is needed: the bounds follow from the
    recursion structure of the algorithms).  Lemma file. *)
From Coq Require Import List NArith ZArith Lia Bool.
From Mast Require Import Prim Tree.
Import ListNotations.

Definition is_load (e : event) : bool := match e with ELoad _ => true | _ => false end.
Definition nloads (t : list event) : nat := length (filter is_load t).
Lemma nloads_app a b : nloads (a ++ b) = nloads a + nloads b.
Proof. unfold nloads. rewrite filter_app, app_length. reflexivity. Qed.

(** [lb m n]: m reads at most n nodes, whatever its outcome *)
Definition lb {A} (m : M A) (n : nat) : Prop := nloads (fst m) <= n.

Lemma lb_ret {A} (a : A) : lb (ret a) 0.
Proof. unfold lb. cbn. lia. Qed.
Lemma lb_fail {A} : lb (@fail A) 0.
Proof. unfold lb. cbn. lia. Qed.
Lemma lb_panic {A} : lb (@panic A) 0.
Proof. unfold lb. cbn. lia. Qed.
Lemma lb_nofuel {A} : lb (@nofuel A) 0.
Proof. unfold lb. cbn. lia. Qed.
Lemma lb_weaken {A} (m : M A) n n' : lb m n -> n <= n' -> lb m n'.
Proof. unfold lb. lia. Qed.
Lemma lb_bind {A B} (m : M A) (f : A -> M B) n1 n2 : lb m n1 -> (forall a, lb (f a) n2) -> lb (bind m f) (n1 + n2).
Proof.
  unfold lb. intros H1 H2. unfold bind. destruct m as [t [a| | |]]; cbn [fst] in *; try lia.
  specialize (H2 a). destruct (f a) as [t' r]. cbn [fst] in *. rewrite nloads_app. lia.
Qed.
(* the continuation's bound may depend on what the first computation returned *)
Lemma lb_bind_dep {A B} (m : M A) (f : A -> M B) (Q : A -> Prop) n1 n2 :
  lb m n1 -> (forall t a, m = (t, Ok a) -> Q a) -> (forall a, Q a -> lb (f a) n2) -> lb (bind m f) (n1 + n2).
Proof.
  unfold lb. intros H1 HQ H2. unfold bind. destruct m as [t [a| | |]] eqn:E; cbn [fst] in *; try lia.
  specialize (H2 a (HQ t a eq_refl)). destruct (f a) as [t' r]. cbn [fst] in *. rewrite nloads_app. lia.
Qed.
Lemma lb_tick {B} e (k : M B) n : is_load e = false -> lb k n -> lb (bind (tick e) (fun _ => k)) n.
Proof.
  intros He H. apply (lb_weaken _ (0 + n)); [|lia]. apply lb_bind; [|intros; exact H]. unfold lb, tick, nloads. cbn [fst filter]. rewrite He. cbn. lia.
Qed.

Section COST.
Variables K V : Type.
Variable cmp : K -> K -> comparison.
Variable veq : V -> V -> bool.
Variable layer : K -> nat.
Notation node := (node K V).
Notation link := (link K V).
Notation entry := (entry K V).

Definition nil2 : link * link := (LNil, LNil).

Lemma lb_load (l : link) : lb (load _ _ l) 1.
Proof. destruct l; unfold lb; cbn; lia. Qed.
Definition in_mem (l : link) : Prop := match l with LNil => True | LPtr _ => True | _ => False end.
Lemma lb_load_mem (l : link) : in_mem l -> lb (load _ _ l) 0.
Proof. destruct l; unfold lb; cbn; intros H; try contradiction; lia. Qed.

(** * split: the right-hand result is in memory along its whole left spine and has no entry below k,
      so the second recursive call of split never reads a node *)
Inductive rform (k : K) : link -> Prop :=
| rf_nil : rform k LNil
| rf_ptr d s l0 es : fst (span_lt _ _ cmp k es) = [] -> rform k l0 -> rform k (LPtr (Node d s l0 es)).

Lemma span_lt_snd_idem k (es : list entry) : fst (span_lt _ _ cmp k (snd (span_lt _ _ cmp k es))) = [].
Proof.
  induction es as [|e r IH]; [reflexivity|]. cbn [span_lt]. destruct (klt _ cmp (ekey _ _ e) k) eqn:E.
  - destruct (span_lt _ _ cmp k r). cbn [snd] in *. exact IH.
  - cbn [snd span_lt]. rewrite E. reflexivity.
Qed.

Lemma rform_link_of k l0 (es : list entry) : fst (span_lt _ _ cmp k es) = [] -> rform k l0 -> rform k (link_of _ _ (mk_dirty _ _ l0 es)).
Proof. intros H1 H2. unfold link_of. destruct (is_empty _ _ (mk_dirty _ _ l0 es)); constructor; assumption. Qed.

Lemma on_link_inv {A} (l : link) (dflt : A) (f : node -> M A) t a :
  on_link _ _ l dflt f = (t, Ok a) -> (l = LNil /\ a = dflt) \/ exists t1 c t2, load _ _ l = (t1, Ok c) /\ f c = (t2, Ok a).
Proof.
  destruct l as [|c|h c|h]; cbn [on_link load].
  - intros E. inversion E. left. split; reflexivity.
  - intros E. right. unfold bind, ret in E. destruct (f c) as [t' r] eqn:Ef. inversion E; subst. exists [], c, t. split; [reflexivity|exact Ef].
  - intros E. right. unfold bind, tick, ret in E. cbn in E. destruct (f c) as [t' r] eqn:Ef. inversion E; subst. exists [ELoad h], c, t'. split; [reflexivity|exact Ef].
  - intros E. unfold bind, tick, fail in E. cbn in E. discriminate.
Qed.

(* the right result of every successful split has the form above *)
Lemma split_rform : forall fuel k n t x y, split _ _ cmp fuel k n = (t, Ok (x, y)) -> rform k y.
Proof.
  induction fuel as [|f IH]; intros k n t x y E; [discriminate|].
  cbn [split] in E. unfold bind at 1 in E. cbn [tick] in E.
  destruct (span_lt _ _ cmp k (n_es _ _ n)) as [les rs] eqn:Esp.
  destruct (hits _ _ cmp k rs); [discriminate|].
  match type of E with (let (t', r) := ?m in _) = _ => destruct m as [t' [res| | |]] eqn:Em; try discriminate end.
  inversion E; subst. clear E.
  (* decompose the two binds of the body *)
  unfold bind in Em.
  destruct (on_link _ _ (last_link _ _ (n_l0 _ _ n) les) (LNil, LNil) (split _ _ cmp f k)) as [t1 [[lm' tooBig]| | |]] eqn:E1; try discriminate.
  destruct (set_last_link _ _ (n_l0 _ _ n) les lm') as [l0' les'].
  destruct (on_link _ _ tooBig (LNil, LNil) (split _ _ cmp f k)) as [t2 [[tooSmall rm']| | |]] eqn:E2; try discriminate.
  destruct (is_nil _ _ tooSmall); [|discriminate]. cbn in Em. inversion Em; subst. clear Em.
  apply rform_link_of.
  - pose proof (span_lt_snd_idem k (n_es _ _ n)) as Hs. rewrite Esp in Hs. exact Hs.
  - destruct (on_link_inv _ _ _ _ _ E2) as [[_ Ha]|(t3 & c & t4 & _ & Hc)].
    + inversion Ha; subst. constructor.
    + exact (IH _ _ _ _ _ Hc).
Qed.

Lemma lb_bind_ret {A B} (a : A) (f : A -> M B) n : lb (f a) n -> lb (bind (ret a) f) n.
Proof. unfold lb, bind, ret. destruct (f a) as [t r]. cbn. tauto. Qed.

Lemma on_link_rform k fuel (l : link) t a :
  on_link _ _ l nil2 (split _ _ cmp fuel k) = (t, Ok a) -> rform k (snd a).
Proof.
  intros E. destruct (on_link_inv _ _ _ _ _ E) as [[_ ->]|(t1 & c & t2 & _ & Hc)]; [constructor|].
  destruct a as [x y]. exact (split_rform _ _ _ _ _ _ Hc).
Qed.

(* splitting something of that form reads nothing *)
Lemma split_rform_free : forall fuel k (l : link), rform k l -> lb (on_link _ _ l nil2 (split _ _ cmp fuel k)) 0.
Proof.
  induction fuel as [|f IH]; intros k l H.
  - destruct H; cbn [on_link]; [apply lb_ret|]. cbn [load]. apply lb_bind_ret. apply lb_nofuel.
  - destruct H as [|d s l0 es Hsp Hl0]; cbn [on_link]; [apply lb_ret|]. cbn [load]. apply lb_bind_ret.
    cbn [split n_es n_l0]. apply lb_tick; [reflexivity|].
    destruct (span_lt _ _ cmp k es) as [les rs]. cbn [fst] in Hsp. subst les.
    destruct (hits _ _ cmp k rs); [apply lb_panic|].
    change (last_link _ _ l0 []) with l0.
    apply (lb_weaken _ (0 + (0 + 0))); [|lia].
    apply (lb_bind_dep _ _ (fun r => rform k (snd r))); [exact (IH k l0 Hl0)|intros t a E; exact (on_link_rform k f l0 t a E)|].
    intros [lm' tooBig] HtB. cbn [snd] in HtB.
    destruct (set_last_link _ _ l0 [] lm') as [l0' les'].
    apply lb_bind; [exact (IH k tooBig HtB)|]. intros [tooSmall rm'].
    destruct (is_nil _ _ tooSmall); [apply lb_ret|apply lb_panic].
Qed.

(** split reads at most one node per level: fuel bounds the levels *)
Lemma split_loads : forall fuel k (n : node), lb (split _ _ cmp fuel k n) fuel.
Proof.
  induction fuel as [|f IH]; intros k n; [cbn [split]; apply lb_nofuel|].
  cbn [split]. apply lb_tick; [reflexivity|].
  destruct (span_lt _ _ cmp k (n_es _ _ n)) as [les rs].
  destruct (hits _ _ cmp k rs); [apply (lb_weaken _ 0); [apply lb_panic|lia]|].
  apply (lb_weaken _ (S f + (0 + 0))); [|lia].
  apply (lb_bind_dep _ _ (fun r => rform k (snd r))).
  - (* the child straddling k: one load, then the recursion *)
    destruct (last_link _ _ (n_l0 _ _ n) les) as [|c|h c|h]; cbn [on_link].
    + apply (lb_weaken _ 0); [apply lb_ret|lia].
    + apply (lb_weaken _ (1 + f)); [|lia]. apply lb_bind; [apply lb_load|intros; apply IH].
    + apply (lb_weaken _ (1 + f)); [|lia]. apply lb_bind; [apply lb_load|intros; apply IH].
    + apply (lb_weaken _ (1 + f)); [|lia]. apply lb_bind; [apply lb_load|intros; apply IH].
  - intros t a E. exact (on_link_rform k f _ t a E).
  - intros [lm' tooBig] HtB. cbn [snd] in HtB.
    destruct (set_last_link _ _ (n_l0 _ _ n) les lm') as [l0' les'].
    apply lb_bind; [exact (split_rform_free f k tooBig HtB)|]. intros [tooSmall rm'].
    destruct (is_nil _ _ tooSmall); [apply lb_ret|apply lb_panic].
Qed.

(** merge reads at most two nodes per level *)
Lemma merge_loads : forall fuel (a b : link), lb (merge _ _ fuel a b) (2 * fuel).
Proof.
  induction fuel as [|f IH]; intros a b.
  - destruct a; destruct b; cbn [merge]; try apply lb_ret; apply lb_nofuel.
  - assert (Hm : lb (let* na := load _ _ a in
                     let* nb := load _ _ b in
                     let* m := merge _ _ f (last_link _ _ (n_l0 _ _ na) (n_es _ _ na)) (n_l0 _ _ nb) in
                     let (l0', aes') := set_last_link _ _ (n_l0 _ _ na) (n_es _ _ na) m in
                     ret (LPtr (mk_dirty _ _ l0' (aes' ++ n_es _ _ nb)))) (2 * S f)).
    { apply (lb_weaken _ (1 + (1 + (2 * f + 0)))); [|lia].
      apply lb_bind; [apply lb_load|]. intros na. apply lb_bind; [apply lb_load|]. intros nb.
      apply lb_bind; [apply IH|]. intros m. destruct (set_last_link _ _ (n_l0 _ _ na) (n_es _ _ na) m). apply lb_ret. }
    destruct a; destruct b; cbn [merge]; try (apply (lb_weaken _ 0); [apply lb_ret|lia]); exact Hm.
Qed.

(** * Get reads at most height + 1 nodes *)
Lemma get_node_loads : forall fuel cur target k (n : node), target <= cur ->
  lb (get_node _ _ cmp fuel cur target k n) (cur - target).
Proof.
  induction fuel as [|f IH]; intros cur target k n Ht; [cbn [get_node]; apply (lb_weaken _ 0); [apply lb_nofuel|lia]|].
  cbn [get_node]. apply lb_tick; [reflexivity|].
  destruct (span_lt _ _ cmp k (n_es _ _ n)) as [les rs].
  destruct (hits _ _ cmp k rs).
  - destruct rs; [apply (lb_weaken _ 0); [apply lb_ret|lia]|]. destruct (Nat.eqb cur target); apply (lb_weaken _ 0); try apply lb_ret; lia.
  - destruct (Nat.eqb cur target) eqn:E; [apply (lb_weaken _ 0); [apply lb_ret|lia]|].
    apply Nat.eqb_neq in E.
    assert (Hb : lb (let* c := load _ _ (last_link _ _ (n_l0 _ _ n) les) in get_node _ _ cmp f (cur - 1) target k c) (cur - target)).
    { apply (lb_weaken _ (1 + (cur - 1 - target))); [|lia]. apply lb_bind; [apply lb_load|]. intros c. apply IH. lia. }
    destruct (last_link _ _ (n_l0 _ _ n) les); [apply (lb_weaken _ 0); [apply lb_ret|lia]|exact Hb..].
Qed.

Theorem get_loads (m : mast K V) k : lb (get _ _ cmp layer m k) (S (m_height _ _ m)).
Proof.
  unfold get.
  assert (Hb : lb (let* n := load _ _ (m_root _ _ m) in
                   tick ELayer >> get_node _ _ cmp (S (m_height _ _ m)) (m_height _ _ m) (Nat.min (layer k) (m_height _ _ m)) k n)
                  (S (m_height _ _ m))).
  { apply (lb_weaken _ (1 + (m_height _ _ m - Nat.min (layer k) (m_height _ _ m)))); [|lia].
    apply lb_bind; [apply lb_load|]. intros n. apply lb_tick; [reflexivity|]. apply get_node_loads. lia. }
  destruct (m_root _ _ m); [apply (lb_weaken _ 0); [apply lb_ret|lia]|exact Hb..].
Qed.

(** * Insert reads at most 2 * (height + 1) nodes (whether or not the height changes) *)
Lemma ins_loads : forall cur target k v (n : node), target <= cur ->
  lb (ins _ _ cmp veq (S cur) cur target k v n) ((cur - target) + S target).
Proof.
  induction cur as [cur IH] using lt_wf_ind; intros target k v n Ht.
  cbn [ins]. apply lb_tick; [reflexivity|].
  destruct (span_lt _ _ cmp k (n_es _ _ n)) as [les rs].
  destruct (hits _ _ cmp k rs).
  - destruct (negb (Nat.eqb cur target)); [apply (lb_weaken _ 0); [apply lb_panic|lia]|].
    destruct rs as [|[[k' v'] l] rs']; [apply (lb_weaken _ 0); [apply lb_panic|lia]|].
    destruct (veq v' v); apply (lb_weaken _ 0); try apply lb_ret; lia.
  - destruct (Nat.eqb cur target) eqn:E.
    + apply Nat.eqb_eq in E. subst target.
      apply (lb_weaken _ (S cur + 0)); [|lia]. apply lb_bind.
      * destruct (last_link _ _ (n_l0 _ _ n) les) as [|c|h c|h]; cbn [on_link].
        -- apply (lb_weaken _ 0); [apply lb_ret|lia].
        -- apply (lb_weaken _ (1 + cur)); [|lia]. apply lb_bind; [apply lb_load|intros; apply split_loads].
        -- apply (lb_weaken _ (1 + cur)); [|lia]. apply lb_bind; [apply lb_load|intros; apply split_loads].
        -- apply (lb_weaken _ (1 + cur)); [|lia]. apply lb_bind; [apply lb_load|intros; apply split_loads].
      * intros [ll rl]. destruct (set_last_link _ _ (n_l0 _ _ n) les ll). apply lb_ret.
    + apply Nat.eqb_neq in E. destruct cur as [|cur']; [lia|].
      replace (S cur' - 1) with cur' by lia.
      apply (lb_weaken _ (1 + ((cur' - target + S target) + 0))); [|lia].
      apply lb_bind.
      * destruct (last_link _ _ (n_l0 _ _ n) les); [apply (lb_weaken _ 0); [apply lb_ret|lia]|apply lb_load..].
      * intros c. apply lb_bind; [apply (IH cur'); lia|]. intros r. destruct r; apply lb_ret.
Qed.

Lemma can_grow_loads h (es : list entry) : lb (can_grow _ _ layer h es) 0.
Proof.
  induction es as [|e r IH]; cbn [can_grow]; [apply lb_ret|]. apply lb_tick; [reflexivity|].
  destruct (Nat.ltb h (layer (ekey _ _ e))); [apply lb_ret|exact IH].
Qed.
Lemma ticks_loads e n : is_load e = false -> lb (ticks e n) 0.
Proof. intros He. induction n as [|n IH]; cbn [ticks]; [apply lb_ret|]. apply lb_tick; assumption. Qed.

(* after the commit the root is an in-memory pointer: the grow loop reads nothing *)
Lemma grow_loop_loads : forall fuel root0 (m : mast K V), in_mem (m_root _ _ m) -> lb (grow_loop _ _ layer fuel root0 m) 0.
Proof.
  induction fuel as [|f IH]; intros root0 m Hm; cbn [grow_loop]; [apply lb_nofuel|].
  destruct (N.leb (m_grow_after _ _ m) (m_size _ _ m)); [|apply lb_ret].
  apply (lb_weaken _ (0 + 0)); [|lia]. apply lb_bind; [apply can_grow_loads|]. intros cg. destruct cg; [|apply lb_ret].
  apply (lb_weaken _ (0 + 0)); [|lia].
  apply (lb_bind_dep _ _ (fun m' => in_mem (m_root _ _ m'))).
  - unfold grow. apply (lb_weaken _ (0 + (0 + 0))); [|lia]. apply lb_bind; [apply lb_load_mem; exact Hm|]. intros n.
    apply lb_bind; [apply ticks_loads; reflexivity|]. intros _. apply lb_ret.
  - intros t m' E. unfold grow in E. unfold bind in E.
    destruct (load _ _ (m_root _ _ m)) as [t1 [n| | |]]; try discriminate.
    destruct (ticks ELayer (n_nkeys _ _ n)) as [t2 [[]| | |]]; cbn in E; try discriminate. inversion E; subst. exact I.
  - intros m' Hm'. apply IH. exact Hm'.
Qed.

Lemma root_of_node_mem (m : mast K V) n : in_mem (m_root _ _ (root_of_node _ _ m n)).
Proof. unfold root_of_node. destruct (is_empty _ _ n); exact I. Qed.

Theorem insert_loads (m : mast K V) k v : lb (insert _ _ cmp veq layer m k v) (2 * S (m_height _ _ m)).
Proof.
  unfold insert. apply lb_tick; [reflexivity|].
  set (h := m_height _ _ m). set (target := Nat.min (layer k) h).
  apply (lb_weaken _ (1 + ((h - target + S target) + 0))); [|unfold target; lia].
  apply lb_bind.
  - destruct (m_root _ _ m); [apply (lb_weaken _ 0); [apply lb_ret|lia]|apply lb_load..].
  - intros n. apply lb_bind; [apply ins_loads; unfold target; lia|]. intros r. destruct r as [|n'|n'].
    + apply lb_ret.
    + apply lb_tick; [reflexivity|]. apply lb_ret.
    + apply lb_tick; [reflexivity|]. apply (lb_weaken _ (0 + 0)); [|lia]. apply lb_bind; [apply grow_loop_loads; apply root_of_node_mem|].
      intros m2. apply lb_ret.
Qed.

(** * Delete reads at most 2 * height + 1 nodes before the shrink loop *)
Lemma del_loads : forall cur target k v (n : node), target <= cur ->
  lb (del _ _ cmp veq (S cur) cur target k v n) ((cur - target) + 2 * target).
Proof.
  induction cur as [cur IH] using lt_wf_ind; intros target k v n Ht.
  cbn [del]. apply lb_tick; [reflexivity|].
  destruct (span_lt _ _ cmp k (n_es _ _ n)) as [les rs].
  destruct (hits _ _ cmp k rs).
  - destruct (negb (Nat.eqb cur target)) eqn:E; [apply (lb_weaken _ 0); [apply lb_fail|lia]|].
    apply negb_false_iff, Nat.eqb_eq in E. subst target.
    destruct rs as [|[[k' v'] l] rs']; [apply (lb_weaken _ 0); [apply lb_fail|lia]|].
    destruct (veq v' v); [|apply (lb_weaken _ 0); [apply lb_fail|lia]].
    apply (lb_weaken _ (2 * cur + 0)); [|lia]. apply lb_bind; [apply merge_loads|]. intros mm.
    destruct (set_last_link _ _ (n_l0 _ _ n) les mm). apply lb_ret.
  - destruct (Nat.eqb cur target) eqn:E; [apply (lb_weaken _ 0); [apply lb_fail|lia]|].
    apply Nat.eqb_neq in E. destruct cur as [|cur']; [lia|]. replace (S cur' - 1) with cur' by lia.
    assert (Hb : lb (let* c := load _ _ (last_link _ _ (n_l0 _ _ n) les) in
                     let* c' := del _ _ cmp veq (S cur') cur' target k v c in
                     let (l0', les') := set_last_link _ _ (n_l0 _ _ n) les (link_of _ _ c') in
                     ret (mk_dirty _ _ l0' (les' ++ rs))) (S cur' - target + 2 * target)).
    { apply (lb_weaken _ (1 + ((cur' - target + 2 * target) + 0))); [|lia].
      apply lb_bind; [apply lb_load|]. intros c. apply lb_bind; [apply (IH cur'); lia|]. intros c'.
      destruct (set_last_link _ _ (n_l0 _ _ n) les (link_of _ _ c')). apply lb_ret. }
    destruct (last_link _ _ (n_l0 _ _ n) les); [apply (lb_weaken _ 0); [apply lb_fail|lia]|exact Hb..].
Qed.

(** Clone, and opening a cursor, read at most the top node *)
Theorem clone_loads (m : mast K V) : lb (clone _ _ m) 1.
Proof.
  unfold clone. destruct (m_root _ _ m); [apply (lb_weaken _ 0); [apply lb_ret|lia]|..];
    (apply (lb_weaken _ (1 + 0)); [|lia]; apply lb_bind; [apply lb_load|intros; apply lb_ret]).
Qed.

(** a delete that does not change the height never enters the shrink loop *)
Lemma bind_inv {A B} (m : M A) (f : A -> M B) t b :
  bind m f = (t, Ok b) -> exists t1 a t2, m = (t1, Ok a) /\ f a = (t2, Ok b) /\ t = t1 ++ t2.
Proof.
  unfold bind. destruct m as [t1 [a| | |]]; try discriminate. destruct (f a) as [t2 r] eqn:E. intros H. inversion H; subst.
  exists t1, a, t2. repeat split. exact E.
Qed.

Lemma shrink_height (m m' : mast K V) t : shrink _ _ m = (t, Ok m') -> S (m_height _ _ m') = m_height _ _ m.
Proof.
  unfold shrink. destruct (m_height _ _ m) as [|h']; [discriminate|].
  assert (Hb : forall r : link,
    (let* n := load _ _ r in
     let* n' := shrink_node _ _ n in
     let (sb, ga) := if (1 <? m_shrink_below _ _ m)%N
                     then ((m_shrink_below _ _ m / m_bf _ _ m)%N, (m_grow_after _ _ m / m_bf _ _ m)%N)
                     else (m_shrink_below _ _ m, m_grow_after _ _ m) in
     ret (Mast (link_of _ _ n') h' (m_size _ _ m) (m_bf _ _ m) ga sb (m_emptied _ _ m))) = (t, Ok m') ->
    S (m_height _ _ m') = S h').
  { intros r E. apply bind_inv in E. destruct E as (t1 & n & t2 & _ & E & _).
    apply bind_inv in E. destruct E as (t3 & n' & t4 & _ & E & _).
    destruct (1 <? m_shrink_below _ _ m)%N; unfold ret in E; inversion E; reflexivity. }
  destruct (m_root _ _ m); [discriminate|apply Hb..].
Qed.

Lemma shrink_loop_same_height : forall fuel (m m' : mast K V) t,
  shrink_loop _ _ fuel m = (t, Ok m') -> m_height _ _ m' <= m_height _ _ m /\ (m_height _ _ m' = m_height _ _ m -> t = []).
Proof.
  induction fuel as [|f IH]; intros m m' t E; [discriminate|]. cbn [shrink_loop] in E.
  destruct (Nat.ltb 0 (m_height _ _ m) && ((m_size _ _ m <=? m_shrink_below _ _ m)%N || root_has_no_keys _ _ m)).
  - apply bind_inv in E. destruct E as (t1 & m1 & t2 & Es & El & ->).
    pose proof (shrink_height _ _ _ Es) as Hh. destruct (IH _ _ _ El) as [Hle _]. split; [lia|intros; lia].
  - inversion E; subst. split; [lia|reflexivity].
Qed.

Lemma root_of_node_height (m : mast K V) n : m_height _ _ (root_of_node _ _ m n) = m_height _ _ m.
Proof. unfold root_of_node. destruct (is_empty _ _ n); reflexivity. Qed.

Theorem delete_loads (m m' : mast K V) k v t :
  delete _ _ cmp veq layer m k v = (t, Ok m') -> m_height _ _ m' = m_height _ _ m ->
  nloads t <= 2 * S (m_height _ _ m).
Proof.
  unfold delete. intros E Hh.
  set (h := m_height _ _ m) in *. set (target := Nat.min (layer k) h) in *.
  assert (Hb : forall r : link,
     (tick ELayer >>
      (let* n := load _ _ r in
       let* n' := del _ _ cmp veq (S h) h target k v n in
       tick ECommit >>
       (let m1 := root_of_node _ _ m n' in shrink_loop _ _ max_layer_fuel (set_size _ _ m1 (m_size _ _ m1 - 1))))) = (t, Ok m') ->
     nloads t <= 2 * S h).
  { intros r Eb. apply bind_inv in Eb. destruct Eb as (t0 & [] & t1 & Et & Eb & ->). unfold tick in Et. inversion Et; subst t0.
    apply bind_inv in Eb. destruct Eb as (t2 & n & t3 & El & Eb & ->).
    apply bind_inv in Eb. destruct Eb as (t4 & n' & t5 & Ed & Eb & ->).
    apply bind_inv in Eb. destruct Eb as (t6 & [] & t7 & Ec & Eb & ->). unfold tick in Ec. inversion Ec; subst t6.
    cbn zeta in Eb. destruct (shrink_loop_same_height _ _ _ _ Eb) as [_ Hnil].
    rewrite Hnil by (cbn [set_size m_height]; rewrite root_of_node_height; exact Hh).
    rewrite !nloads_app. cbn [nloads filter is_load length app].
    pose proof (lb_load r) as L1. unfold lb in L1. rewrite El in L1. cbn [fst] in L1.
    pose proof (del_loads h target k v n ltac:(unfold target; lia)) as L2. unfold lb in L2. rewrite Ed in L2. cbn [fst] in L2.
    unfold nloads in *. cbn [filter is_load length] in *. unfold target in *. lia. }
  destruct (m_root _ _ m); [discriminate|exact (Hb _ E)..].
Qed.

End COST.
