(** C12 - an operation that returns an error leaves the tree unchanged.
    Statements only; proofs are in Events.v and Atomic.v.

    The model's trees are values, so "the tree is unchanged" is split in two: (1) over the world of
    the history model a failing call changes nothing (the model's specification of the API, which
    the fault-injection engine compares with the implementation at every Load / compare / marshal
    call), and (2) the ordering of events inside a mutating call: everything that can fail happens
    before the commit point at which the implementation installs the new root.  Where (2) is false
    of the code (the shrink loop's loads, and the grow loop's layer callbacks, run after the commit)
    the full statement is refuted below with a witness: the known finding D13. *)
From Coq Require Import List NArith ZArith Bool.
From Mast Require Import Prim Key Tree Codec Store Diff World Events Atomic.
Import ListNotations.

(** (1) histories: a call that reports a failure leaves every tree, captured root, store and
    cursor of the world exactly as it was; no node written by a failed MakeRoot is published *)
Theorem C12_failed_step_changes_nothing : forall w o,
  is_fail (snd (fst (step w o))) = true -> fst (fst (step w o)) = w.
Proof. exact step_fail_unchanged. Qed.

(** lookups, iteration, seek, diff (all interfaces) and cursor reads never change the world,
    whether they fail or not; hence the retried call sees the same tree *)
Theorem C12_read_only_calls : forall w o, read_only o = true -> fst (fst (step w o)) = w.
Proof. exact step_read_only. Qed.

(** only MakeRoot writes to a store *)
Theorem C12_stores_untouched : forall w o,
  (match o with OMakeRoot _ _ | OCorrupt _ _ _ _ => False | _ => True end) ->
  w_stores (fst (fst (step w o))) = w_stores w.
Proof. exact step_stores. Qed.

Section GENERIC.
Variables (K V : Type) (cmp : K -> K -> comparison) (veq : V -> V -> bool) (layer : K -> nat).

(** (2) Insert: the trace is a prefix of layer / load / compare events, then either nothing (the
    call failed, or found the entry already there) or the commit followed by layer callbacks only *)
Theorem C12_insert_commit_order : forall (m : mast K V) k v,
  exists pre post, fst (insert _ _ cmp veq layer m k v) = pre ++ post /\
     Forall pre_ev pre /\ (post = [] \/ exists g, post = ECommit :: g /\ Forall layer_ev g).
Proof. exact (insert_trace_shape K V cmp veq layer). Qed.

(** with a layer function that cannot fail, Insert never reports an error after its commit *)
Theorem C12_insert_error_before_commit : forall (m : mast K V) k v,
  snd (insert _ _ cmp veq layer m k v) = Err \/ snd (insert _ _ cmp veq layer m k v) = ErrPanic ->
  Forall pre_ev (fst (insert _ _ cmp veq layer m k v)).
Proof. exact (insert_error_before_commit K V cmp veq layer). Qed.

(** Delete: as Insert, but what follows the commit are the loads of the shrink loop *)
Theorem C12_delete_commit_order : forall (m : mast K V) k v,
  exists pre post, fst (delete _ _ cmp veq layer m k v) = pre ++ post /\
     Forall pre_ev pre /\ (post = [] \/ exists g, post = ECommit :: g /\ Forall load_ev g).
Proof. exact (delete_trace_shape K V cmp veq layer). Qed.

(** the read-only calls never reach a commit or a store *)
Theorem C12_get_no_commit : forall (m : mast K V) k, Forall pre_ev (fst (get _ _ cmp layer m k)).
Proof. exact (get_events K V cmp layer). Qed.
Theorem C12_iter_no_commit : forall (m : mast K V), Forall pre_ev (fst (iter _ _ m)).
Proof. exact (iter_events K V). Qed.
Theorem C12_clone_no_commit : forall (m : mast K V), Forall pre_ev (fst (clone _ _ m)).
Proof. exact (clone_events K V). Qed.
End GENERIC.

(** REFUTED (known finding D13): the full statement "a failing Delete leaves contents and size as
    they were" is false of the state the implementation has installed when the shrink loop's load
    fails.  Witness: height 1, the only key of layer 1, its right subtree unresolvable. *)
Theorem C12_delete_refuted :
  exists m k v m',
    snd (delete nat nat Nat.compare Nat.eqb d13_layer m k v) = Err /\
    In ECommit (fst (delete nat nat Nat.compare Nat.eqb d13_layer m k v)) /\
    delete_committed nat nat Nat.compare Nat.eqb d13_layer m k v = Some m' /\
    to_list _ _ (m_root _ _ m') <> to_list _ _ (m_root _ _ m) /\ m_size _ _ m' <> m_size _ _ m.
Proof. exact C12_delete_after_commit_refuted. Qed.

Print Assumptions C12_failed_step_changes_nothing.
Print Assumptions C12_read_only_calls.
Print Assumptions C12_stores_untouched.
Print Assumptions C12_insert_commit_order.
Print Assumptions C12_insert_error_before_commit.
Print Assumptions C12_delete_commit_order.
Print Assumptions C12_get_no_commit.
Print Assumptions C12_iter_no_commit.
Print Assumptions C12_clone_no_commit.
Print Assumptions C12_delete_refuted.
