(** C01 - map semantics match a sorted-map model for every history and key type.
    Statements only; proofs are in Canon.v / Inv.v / Hist.v. *)
From Coq Require Import List NArith ZArith Bool.
From Mast Require Import Prim Key Tree KeyOrder Codec Store Diff World Erase Build Spec Canon Level Inv Hist Reload WorldInv SpecLaws.
Import ListNotations.

(** For EVERY key type with a strict total order, every value type with decidable equality, every
    layer function (bounded like Go's uint8) and every branch factor: on a tree satisfying the
    invariant [canon bf m l] (m is the canonical tree of the strictly sorted list l), of any
    residency (in-memory pointers, content hashes, or any mix) ... *)
Section GENERIC.
Variables (K V : Type) (cmp : K -> K -> comparison) (veq : V -> V -> bool) (layer : K -> nat).
Hypothesis cmp_eq : forall a b, cmp a b = Eq <-> a = b.
Hypothesis cmp_antisym : forall a b, cmp b a = CompOpp (cmp a b).
Hypothesis cmp_trans : forall a b c, cmp a b = Lt -> cmp b c = Lt -> cmp a c = Lt.
Hypothesis veq_eq : forall x y, veq x y = true <-> x = y.
Hypothesis layer_bound : forall k, layer k < max_layer_fuel.

(** ... a lookup succeeds (no error, no panic, no fuel exhaustion) and returns exactly the value of the sorted map *)
Theorem C01_get : forall bf m l k, canon K V cmp layer bf m l ->
  oks (get K V cmp layer m k) (fun r => r = lookup K V cmp k l).
Proof. exact (get_ok K V cmp layer cmp_eq cmp_antisym cmp_trans). Qed.

(** ... an insert / update succeeds and yields the canonical tree of the upserted map *)
Theorem C01_insert : forall bf m l k v, canon K V cmp layer bf m l ->
  oks (insert K V cmp veq layer m k v) (fun m' => canon K V cmp layer bf m' (upsert K V cmp k v l)).
Proof. exact (insert_ok K V cmp veq layer cmp_eq cmp_antisym cmp_trans veq_eq layer_bound). Qed.

(** ... a delete of a present key with its current value succeeds and removes exactly that entry
    (also down to the empty tree) *)
Theorem C01_delete : forall bf m l k v, canon K V cmp layer bf m l -> lookup K V cmp k l = Some v ->
  oks (delete K V cmp veq layer m k v) (fun m' => canon K V cmp layer bf m' (remove K V cmp k l)).
Proof. exact (delete_ok K V cmp veq layer cmp_eq cmp_antisym cmp_trans veq_eq layer_bound). Qed.

(** ... a delete of an absent key or with a non-matching value returns an error (the state is the
    argument itself: operations are functions, a failed one leaves no new state) *)
Theorem C01_delete_fails : forall bf m l k v, canon K V cmp layer bf m l -> lookup K V cmp k l <> Some v ->
  fails (delete K V cmp veq layer m k v).
Proof. exact (delete_fail K V cmp veq layer cmp_eq cmp_antisym cmp_trans veq_eq). Qed.

(** ... a full iteration yields every live entry exactly once in ascending order (l is strictly sorted) *)
Theorem C01_iter : forall bf m l, canon K V cmp layer bf m l -> oks (iter K V m) (fun r => r = l).
Proof. exact (iter_ok K V cmp layer). Qed.

Theorem C01_size : forall bf m l, canon K V cmp layer bf m l -> m_size K V m = N.of_nat (length l).
Proof. exact (cn_size K V cmp layer). Qed.

Theorem C01_clone : forall bf m l, canon K V cmp layer bf m l ->
  oks (clone K V m) (fun m' => canon K V cmp layer bf m' l).
Proof. exact (clone_ok K V cmp layer). Qed.

Theorem C01_empty_tree : forall bf emp, (2 <= bf)%N ->
  canon K V cmp layer bf (Mast (LPtr (fresh_node K V)) 0 0%N bf (1 * bf)%N 1%N emp) [].
Proof. exact (empty_canon K V cmp layer). Qed.

(** The sorted-map model the theorems above refer to is a map (SpecLaws.v): an inserted key reads back
    the inserted value, a deleted key reads back nothing, every other key is unaffected, and a
    strictly sorted listing is determined by its lookups - so "the same map" and "the same listing"
    are one notion, and C01_insert / C01_delete / C01_get are the usual get/put/delete laws. *)
Theorem C01_model_get_after_insert : forall k v l, lookup K V cmp k (upsert K V cmp k v l) = Some v.
Proof. exact (lookup_upsert_same K V cmp cmp_eq cmp_antisym). Qed.
Theorem C01_model_insert_frames : forall k v k2, k <> k2 -> forall l, lookup K V cmp k2 (upsert K V cmp k v l) = lookup K V cmp k2 l.
Proof. exact (lookup_upsert_other K V cmp cmp_eq). Qed.
Theorem C01_model_get_after_delete : forall k l, ssorted K V cmp l -> lookup K V cmp k (remove K V cmp k l) = None.
Proof. exact (lookup_remove_same K V cmp cmp_eq cmp_antisym). Qed.
Theorem C01_model_delete_frames : forall k k2, k <> k2 -> forall l, lookup K V cmp k2 (remove K V cmp k l) = lookup K V cmp k2 l.
Proof. exact (lookup_remove_other K V cmp cmp_eq). Qed.
Theorem C01_model_extensional : forall a b, ssorted K V cmp a -> ssorted K V cmp b ->
  (forall k, lookup K V cmp k a = lookup K V cmp k b) -> a = b.
Proof. exact (sorted_ext K V cmp cmp_eq cmp_antisym cmp_trans). Qed.
End GENERIC.

(** The key type of the model ([key]: int / uint / string / []byte / marshaled struct / user Key) is
    such an instance. *)
Theorem C01_key_instance :
  (forall a b, kcmp a b = Eq <-> a = b) /\ (forall a b, kcmp b a = CompOpp (kcmp a b)) /\
  (forall a b c, kcmp a b = Lt -> kcmp b c = Lt -> kcmp a c = Lt) /\
  (forall x y, bytes_eqb x y = true <-> x = y) /\ (forall bf k, klayer bf k < max_layer_fuel).
Proof. exact (conj kcmp_eq (conj kcmp_antisym (conj kcmp_trans (conj bytes_eqb_eq klayer_bound)))). Qed.

(** Persisting replaces pointers by hashes and changes nothing else: the tree still is the canonical
    tree of the same list, so every statement above applies to any mix of in-memory and persisted nodes. *)
Theorem C01_persist_keeps_contents : forall bf f m l, kcanon bf m l ->
  oks (make_root f m) (fun r => kcanon bf (snd r) l /\ r_size (fst r) = N.of_nat (length l)).
Proof. exact k_make_root_ok. Qed.

(** Every finite history of new / insert / update / delete / lookup / size / iterate (also stopped
    early) / clone / persist operations on any number of trees, with any branch factor >= 2, both
    node formats and every key kind, observes exactly what the abstract world of sorted association
    lists observes.  (Both node formats, no side conditions; the theorem with reload is
    C01_refines_sorted_map below.) *)
Theorem C01_refines_sorted_map_partial : forall ops,
  forallb supported ops = true ->
  map (fun x => proj (fst x)) (run empty_world ops) = arun [] ops.
Proof. intros ops H. exact (history_refines ops empty_world [] winv_empty H). Qed.

(** non-vacuity: a concrete history (three levels, an update, deletes down to empty, a clone, a persist) *)
Local Open Scope N_scope.
Definition ki (z : Z) : key := KInt z.
Definition ex_ops : list op :=
  [ONew 0 0 2 None 0; OIns 0 (ki 4%Z) [49]; OIns 0 (ki 2%Z) [50]; OIns 0 (ki 8%Z) [51]; OIns 0 (ki 1%Z) [52];
   OIns 0 (ki 3%Z) [53]; OIns 0 (ki 8%Z) [54]; OGet 0 (ki 8%Z); OGet 0 (ki 9%Z); OSize 0; OClone 0 1;
   ODel 1 (ki 4%Z) [49]; ODel 1 (ki 4%Z) [49]; OIter 1; OIter 0; OMakeRoot 0 0; OIns 0 (ki 16%Z) [55]; OIter 0;
   ODel 1 (ki 1%Z) [52]; ODel 1 (ki 2%Z) [50]; ODel 1 (ki 3%Z) [53]; ODel 1 (ki 8%Z) [54]; OIter 1; OSize 1].
Example C01_example :
  forallb supported ex_ops = true /\
  arun [] ex_ops = map (fun x => proj (fst x)) (run empty_world ex_ops) /\
  nth 13%nat (arun [] ex_ops) AOk = AList [(ki 1%Z, [52]); (ki 2%Z, [50]); (ki 3%Z, [53]); (ki 8%Z, [54])] /\
  nth 12%nat (arun [] ex_ops) AOk = AFail 1 /\ nth 22%nat (arun [] ex_ops) AOk = AList [].
Proof. vm_compute. repeat split; reflexivity. Qed.


(** FULL history theorem, with persist AND reload, many trees, many stores (each tree of either node format):
    every finite history of new / insert / update / delete / lookup / size / iterate / seek (also
    stopped early) / clone / persist / LoadMast of any captured root / entry diff (all four
    interfaces) observes exactly what the abstract world of sorted association lists observes, and
    every tree of the resulting world is canonical for its abstract contents.  Side conditions
    ([conds]): element encodings round-trip under the tree's key kind and sizes fit 64 bits, a root
    is reloaded from the store and with the key kind it was made with, a diff is between trees over
    one store, and no two different node encodings written by a persist share a name. *)
Theorem C01_refines_sorted_map : forall ops w a,
  winv2 w a -> conds w a ops ->
  map (fun x => pobs (fst x)) (run w ops) = arun2 a ops /\ winv2 (wrun w ops) (awrun2 a ops).
Proof. exact history_refines2. Qed.

(** non-vacuity: persist, reload into a second tree, modify, persist again, diff against the first,
    reload again; the side conditions hold (decided by [condsb]) and the observations are the model's *)
Definition ex_ops2 : list op :=
  [ONew 0 0 2 None 1; OIns 0 (KUint 1) [49]; OIns 0 (KUint 2) [50]; OIns 0 (KUint 4) [51]; OMakeRoot 0 0;
   OLoad 0 1 0 1; OIns 1 (KUint 8) [61]; ODel 1 (KUint 1) [49]; OMakeRoot 1 1; ODiff 1 (Some 0); OLoad 1 2 0 1; OIter 2; OSeek 2 (KUint 3)].
Example C01_example_reload :
  conds empty_world ([], []) ex_ops2 /\
  nth 11%nat (arun2 ([], []) ex_ops2) BOk = BList [(KUint 2, [50]); (KUint 4, [51]); (KUint 8, [61])] /\
  nth 12%nat (arun2 ([], []) ex_ops2) BOk = BList [(KUint 4, [51]); (KUint 8, [61])] /\
  map (fun x => pobs (fst x)) (run empty_world ex_ops2) = arun2 ([], []) ex_ops2.
Proof. split; [apply condsb_ok; vm_compute; reflexivity|]. vm_compute. repeat split; reflexivity. Qed.


Print Assumptions C01_get.
Print Assumptions C01_insert.
Print Assumptions C01_delete.
Print Assumptions C01_delete_fails.
Print Assumptions C01_iter.
Print Assumptions C01_size.
Print Assumptions C01_clone.
Print Assumptions C01_empty_tree.
Print Assumptions C01_key_instance.
Print Assumptions C01_persist_keeps_contents.
Print Assumptions C01_refines_sorted_map_partial.
Print Assumptions C01_refines_sorted_map.
Print Assumptions C01_model_get_after_insert.
Print Assumptions C01_model_insert_frames.
Print Assumptions C01_model_get_after_delete.
Print Assumptions C01_model_delete_frames.
Print Assumptions C01_model_extensional.
