(** C19 - loading rejects a root that does not match the configuration.
    Statements only; proofs are in Persist.v. *)
From Coq Require Import List NArith ZArith Bool.
From Mast Require Import Prim Key Tree KeyOrder Codec Store Diff World Erase Build Spec Canon Level Inv Hist Persist.
Import ListNotations.

(** an unknown node format is an error (before any node is read) *)
Theorem C19_unknown_format : forall s kind r, parse_fmt (r_fmt r) = None -> fails' (load_mast s kind r).
Proof. exact load_mast_unknown_format. Qed.

(** a top node that cannot be resolved is an error ... *)
Theorem C19_bad_top_node : forall s kind r h f,
  parse_fmt (r_fmt r) = Some f -> r_link r = Some h -> resolve (S (r_height r)) s f kind h = LBad h ->
  fails' (load_mast s kind r).
Proof. exact load_mast_bad_top. Qed.
(** ... and it cannot be resolved when it is missing from the store, *)
Theorem C19_missing : forall fuel s f kind h, Store.lookup s h = None -> resolve fuel s f kind h = LBad h.
Proof. exact resolve_missing. Qed.
(** when its bytes do not decode in the named format, *)
Theorem C19_undecodable : forall fuel s f kind h b,
  Store.lookup s h = Some b -> decode_node f b = None -> resolve fuel s f kind h = LBad h.
Proof. exact resolve_undecodable. Qed.
(** or when its entry and link counts do not match. *)
Theorem C19_count_mismatch : forall fuel s f kind h b kbs vs ls ks,
  Store.lookup s h = Some b -> decode_node f b = Some (kbs, vs, ls) -> unmarshal_keys kind kbs = Some ks ->
  (length vs <> length ks \/ length ls <> S (length ks)) -> resolve fuel s f kind h = LBad h.
Proof. exact resolve_count_mismatch. Qed.

(** if LoadMast succeeds, the top node's keys are strictly ascending under the configured order and
    every key's layer (configured layer function, recorded branch factor) is at least the recorded height *)
Theorem C19_success_means_checked : forall s kind r h f n x,
  parse_fmt (r_fmt r) = Some f -> r_link r = Some h -> resolve (S (r_height r)) s f kind h = LHash h n ->
  snd (load_mast s kind r) = Ok x ->
  Forall (fun e => r_height r <= klayer (r_bf r) (ekey _ _ e)) (n_es _ _ n) /\
  (forall a e1 e2 b, n_es _ _ n = a ++ e1 :: e2 :: b -> kcmp (ekey _ _ e1) (ekey _ _ e2) = Lt).
Proof.
  intros s kind r h f n x Hf Hl Hr Hok.
  pose proof (load_mast_checks_keys s kind r h f n x Hf Hl Hr Hok) as H.
  exact (conj (keys_ok_layers _ _ _ _ H) (keys_ok_ascending _ _ _ _ H)).
Qed.

(** the guard is not vacuous: a root produced by persisting loads with the producing configuration *)
Local Open Scope N_scope.
Definition okb (o : obs) : bool := match o with ObFail _ => false | _ => true end.
Example C19_accepts :
  let r := map (fun x => fst x) (run empty_world
    [ONew 0 0 2 None 0; OIns 0 (KInt 4%Z) [49]; OIns 0 (KInt 2%Z) [50]; OIns 0 (KInt 8%Z) [51]; OMakeRoot 0 0;
     OLoad 0 1 0 0; OIter 1;                                               (* the producing configuration loads *)
     ORootSet 1 0 None (Some 3%nat) None None false; OLoad 1 2 0 0;        (* recorded height 3: layers below it *)
     ORootSet 2 0 None None None (Some [118;50]) false; OLoad 2 3 0 0;     (* unknown format "v2" *)
     OLoad 0 4 7 0;                                                        (* a store without the top node *)
     OLoad 0 5 0 2]) in                                                    (* keys do not unmarshal as strings *)
  map okb r = [true; true; true; true; true; true; true; true; false; true; false; false; false] /\
  nth 6%nat r ObOk = ObList [(KInt 2%Z, [50]); (KInt 4%Z, [49]); (KInt 8%Z, [51])].
Proof. vm_compute. split; reflexivity. Qed.

Print Assumptions C19_unknown_format.
Print Assumptions C19_bad_top_node.
Print Assumptions C19_missing.
Print Assumptions C19_undecodable.
Print Assumptions C19_count_mismatch.
Print Assumptions C19_success_means_checked.
