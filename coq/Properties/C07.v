(** C07 - the node diff is exactly what a replica needs to synchronise.
    Statements only; proofs are in DiffLinks.v and DiffK.v. *)
From Coq Require Import List NArith ZArith Bool.
From Mast Require Import Prim Key Tree KeyOrder Codec Store Diff World Erase Build Spec Canon Links Level Inv Hist Reload DiffSpec DiffLinks DiffOnce DiffCanon DiffK WorldInv DiffLinksHist.
Import ListNotations.

Section GENERIC.
Variables (K V : Type) (cmp : K -> K -> comparison) (veq : V -> V -> bool) (layer : K -> nat).
Hypothesis cmp_refl : forall k, cmp k k = Eq.
Hypothesis veq_refl : forall v, veq v v = true.
Variable P : name -> node K V -> Prop.
Hypothesis hered : forall h c, P h c -> allh K V P c.
Hypothesis Pfun : forall h a b, P h a -> P h b -> a = b.

(** For any two trees with consistently named hash links (any contents, heights, residency;
    a nil old tree): the diff succeeds, every name reported as added is a name the new version
    reaches (never a name outside it), every name the new version reaches is reported as added or
    reached by the old version (so everything new-only is reported), and symmetrically for removed. *)
Theorem C07_sound_and_complete : forall (o : option (mast K V)) (n : mast K V),
  allh_l K V P (m_root _ _ n) -> fitsl_of K V (fits K V (S (m_height _ _ n))) (m_root _ _ n) ->
  (forall t, o = Some t -> allh_l K V P (m_root _ _ t) /\ fitsl_of K V (fits K V (S (m_height _ _ t))) (m_root _ _ t)) ->
  oks (diff _ _ cmp veq layer o n)
      (fun r => let NN := names_l K V (m_root _ _ n) in let NO := onames K V o in
                incl (ads K V r) NN /\ incl NN (ads K V r ++ NO) /\ incl (rms K V r) NO /\ incl NO (rms K V r ++ NN)).
Proof. exact (diff_links K V cmp veq layer cmp_refl veq_refl P hered Pfun). Qed.
End GENERIC.

(** the library's key and value types, two reachable trees over one store *)
Theorem C07_node_diff : forall fmt s kind bf (mo mn : kmast) lo ln,
  kcanon bf mo lo -> kcanon bf mn ln -> root_allh fmt s kind mo -> root_allh fmt s kind mn ->
  oks (diff _ _ kcmp bytes_eqb (klayer bf) (Some mo) mn)
      (fun r => let NN := names_l key val (m_root _ _ mn) in let NO := names_l key val (m_root _ _ mo) in
                incl (ads key val r) NN /\ incl NN (ads key val r ++ NO) /\ incl (rms key val r) NO /\ incl NO (rms key val r ++ NN)).
Proof. exact k_diff_links. Qed.

(** Consequently: a store s1 that holds the old version (agrees with the source store s on every
    name the old version reaches), extended to s2 by the nodes reported as added, holds the whole
    new version: [sto fmt s2 kind hn cn], from which LoadMast succeeds with the same contents
    (Reload.load_canon). *)
Theorem C07_replica_sync : forall fmt s s1 s2 kind bf (mo mn : kmast) lo ln hn cn r t,
  kcanon bf mo lo -> kcanon bf mn ln -> root_allh fmt s kind mo -> root_allh fmt s kind mn ->
  m_root _ _ mn = LHash hn cn ->
  diff _ _ kcmp bytes_eqb (klayer bf) (Some mo) mn = (t, Ok r) ->
  (forall x b, In x (names_l key val (m_root _ _ mo)) -> Store.lookup s x = Some b -> Store.lookup s1 x = Some b) ->
  extends s1 s2 ->
  (forall x b, In x (ads key val r) -> Store.lookup s x = Some b -> Store.lookup s2 x = Some b) ->
  sto fmt s2 kind hn cn.
Proof. exact k_replica_sync. Qed.

(** non-vacuity: a persisted version and its persisted descendant in the history model *)
Definition ex_ops : list op :=
  [ONew 0 0 2 None 1; OIns 0 (KUint 1%N) [49%N]; OIns 0 (KUint 2%N) [50%N]; OIns 0 (KUint 4%N) [51%N]; OIns 0 (KUint 5%N) [52%N]; OMakeRoot 0 0;
   OClone 0 1; OIns 1 (KUint 8%N) [61%N]; OMakeRoot 1 1; ODiffLinks 1 (Some 0%N)].
Example C07_example :
  match nth 9%nat (map fst (run empty_world ex_ops)) ObOk with
  | ObDiff l => (length l =? 7)%nat && forallb (fun d => match d with DoLink _ (Some _) => true | _ => false end) l
  | _ => false
  end = true.
Proof. vm_compute. reflexivity. Qed.

(** "Each name at most once": the per-layer memo (alreadyNotified) never lets a name be reported
    twice, as added or as removed.  Generic in the key type; for any two canonical trees of one
    configuration with consistently named links.  [no_stored_empty]: an empty tree holds no stored
    (entry-less) node, which no version written by the repaired code does (D7). *)
Section ONCE.
Variables (K V : Type) (cmp : K -> K -> comparison) (veq : V -> V -> bool) (layer : K -> nat).
Hypothesis cmp_eq : forall a b, cmp a b = Eq <-> a = b.
Hypothesis veq_refl : forall v, veq v v = true.
Variable P : name -> node K V -> Prop.
Hypothesis hered : forall h c, P h c -> allh K V P c.
Hypothesis Pfun : forall h a b, P h a -> P h b -> a = b.

Theorem C07_at_most_once : forall bf (mo mn : mast K V) lo ln,
  canon K V cmp layer bf mo lo -> canon K V cmp layer bf mn ln ->
  no_stored_empty K V mo lo -> no_stored_empty K V mn ln ->
  allh_l K V P (m_root _ _ mo) -> allh_l K V P (m_root _ _ mn) ->
  oks (diff _ _ cmp veq layer (Some mo) mn) (fun r => NoDup (ads K V r) /\ NoDup (rms K V r)).
Proof. exact (diff_once_canon K V cmp veq layer cmp_eq veq_refl P hered Pfun). Qed.

(** the two facts it rests on: the names a canonical tree reaches are pairwise distinct ... *)
Theorem C07_names_distinct : forall D (l : link K V),
  allh_l K V (PS K V layer P D) l -> nodupk K V (to_list _ _ l) -> NoDup (names_l K V l).
Proof. exact (names_l_nodup K V layer P hered Pfun). Qed.

(** ... and alreadyNotified always finds the first key of a stored node of a canonical tree *)
Theorem C07_first_key_found : forall D fuel h c, D <= fuel -> PS K V layer P D h c ->
  exists t kh, first_key_layer _ _ layer fuel (LHash h c) = (t, Ok kh).
Proof. exact (PS_keyed K V layer P). Qed.
End ONCE.

(** for the library's keys, two reachable trees over one store *)
Theorem C07_at_most_once_k : forall fmt s kind bf (mo mn : kmast) lo ln,
  kcanon bf mo lo -> kcanon bf mn ln -> no_stored_empty key val mo lo -> no_stored_empty key val mn ln ->
  root_allh fmt s kind mo -> root_allh fmt s kind mn ->
  oks (diff _ _ kcmp bytes_eqb (klayer bf) (Some mo) mn) (fun r => NoDup (ads key val r) /\ NoDup (rms key val r)).
Proof.
  intros fmt s kind bf. exact (diff_once_canon key val kcmp bytes_eqb (klayer bf) kcmp_eq bytes_eqb_refl (sto fmt s kind) (sto_hered fmt s kind) (sto_fun fmt s kind) bf).
Qed.
(** ... in histories: in every reachable world (any number of trees and stores, either node format,
    persists and reloads; side conditions [conds]) the node diff of any tree against any tree of the same
    store, key kind and format - or against nothing - reports exactly what separates the two node sets *)
Theorem C07_in_histories : forall ops tn told trn xn,
  conds empty_world ([], []) ops ->
  let w := wrun empty_world ops in let a := awrun2 ([], []) ops in
  aget (w_trees w) tn = Some trn -> aget (fst a) tn = Some xn -> same_home a tn told ->
  let o := match told with Some i => option_map t_m (aget (w_trees w) i) | None => None end in
  oks (diff _ _ kcmp bytes_eqb (layer_of (t_m trn)) o (t_m trn))
      (fun r => let NN := names_l key val (m_root _ _ (t_m trn)) in let NO := onames key val o in
                incl (ads key val r) NN /\ incl NN (ads key val r ++ NO) /\ incl (rms key val r) NO /\ incl NO (rms key val r ++ NN)).
Proof. exact world_diff_links. Qed.

Print Assumptions C07_sound_and_complete.
Print Assumptions C07_node_diff.
Print Assumptions C07_replica_sync.
Print Assumptions C07_at_most_once.
Print Assumptions C07_names_distinct.
Print Assumptions C07_first_key_found.
Print Assumptions C07_at_most_once_k.
Print Assumptions C07_in_histories.
