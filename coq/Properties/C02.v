(** C02 - captured versions (clones and persisted roots) never change afterwards.
    Statements only; proofs are in Hist.v / Persist.v. *)
From Coq Require Import List NArith ZArith Bool.
From Mast Require Import Prim Key Tree KeyOrder Codec Store Diff World Erase Build Spec Canon Level Inv Hist Persist Reload WorldInv VersionsHist Cache CacheHist.
Import ListNotations.

(** the operation a step is applied to *)
Definition target (o : op) : option N :=
  match o with
  | ONew t _ _ _ _ | OIns t _ _ | ODel t _ _ | OMakeRoot t _ => Some t
  | OClone _ t2 => Some t2
  | OLoad _ t _ _ => Some t
  | _ => None
  end.

(** In the model trees are values: an operation on one tree leaves the record of every other tree
    of the world (clones, trees loaded from the same or other roots) untouched, whatever it does to
    the shared store.  (That the Go heap behaves like these values - no write into a node that
    another tree can reach - is what the correspondence check compares after every step with no
    cache, a large cache and an evicting cache.) *)
Theorem C02_frame : forall w o t', target o <> Some t' ->
  aget (w_trees (fst (fst (step w o)))) t' = aget (w_trees w) t'.
Proof.
  intros w o t' Ht. destruct o; cbn [step target] in *; unfold with_tree, with_cur, upd, updc, ro in *;
    repeat match goal with
           | |- context [match ?x with _ => _ end] => destruct x eqn:?; cbn [fst snd w_trees set_tree set_rootrec set_store set_cur]
           end; try reflexivity;
    try (rewrite aget_aset_other; [reflexivity|congruence]).
Qed.

(** the abstract contents of every captured version are unchanged by every later supported
    operation on another tree: with history_refines this is the observable statement *)
Theorem C02_captured_stable : forall a o t', target o <> Some t' -> aget (fst (astep a o)) t' = aget a t'.
Proof.
  intros a o t' Ht. destruct o; cbn [astep target] in *;
    repeat match goal with
           | |- context [match ?x with _ => _ end] => destruct x eqn:?; cbn [fst snd]
           end; cbn [fst]; try reflexivity; try (rewrite aget_aset_other; [reflexivity|congruence]).
Qed.

(** the store only grows: a name that is bound keeps its bytes through every later persist, so a
    retained root resolves to the same bytes forever *)
Theorem C02_store_monotone : forall t s h b, Store.lookup s h = Some b -> Store.lookup (apply_stores s t) h = Some b.
Proof. intros t s h b. exact (apply_stores_keeps t s h b). Qed.

(** persisting a version does not change its contents *)
Theorem C02_persist_keeps_contents : forall bf f m l, kcanon bf m l ->
  oks (make_root f m) (fun r => kcanon bf (snd r) l /\ r_size (fst r) = N.of_nat (length l)).
Proof. exact k_make_root_ok. Qed.

(** The property over whole histories (any number of trees and stores, either node format, persists
    and reloads; side conditions [conds]): a tree captured at some point - a clone, a loaded tree, any
    tree - is observed with exactly the entries it had then after ANY continuation that does not itself
    write that tree (operations on the tree it was cloned from, on other clones, persists into the shared
    store, reloads ... are all allowed) ... *)
Theorem C02_captured_tree_never_changes : forall ops1 ops2 t x,
  conds empty_world ([], []) (ops1 ++ ops2 ++ [OIter t]) ->
  aget (fst (awrun2 ([], []) ops1)) t = Some x ->
  Forall (fun o => ttarget o <> Some t) ops2 ->
  last (map (fun y => pobs (fst y)) (run empty_world (ops1 ++ ops2 ++ [OIter t]))) BOk = BList (at_l x).
Proof. exact captured_tree_never_changes. Qed.

(** ... and a persisted root kept by the caller loads, after any continuation that does not overwrite
    the root record itself, into a tree with exactly the entries it was made from *)
Theorem C02_captured_root_never_changes : forall ops1 ops2 r x t',
  conds empty_world ([], []) (ops1 ++ ops2 ++ [OLoad r t' (at_s x) (at_kind x); OIter t']) ->
  aget (snd (awrun2 ([], []) ops1)) r = Some x ->
  Forall (fun o => rtarget o <> Some r) ops2 ->
  last (map (fun y => pobs (fst y)) (run empty_world (ops1 ++ ops2 ++ [OLoad r t' (at_s x) (at_kind x); OIter t']))) BOk = BList (at_l x).
Proof. exact captured_root_never_changes. Qed.

(** non-vacuity: a clone and a persisted root are captured; the original is then modified, persisted
    again and reloaded; the clone and the old root still show the captured entries *)
Local Open Scope N_scope.
Definition ex02_a : list op := [ONew 0 0 2 None 1; OIns 0 (KUint 1) [49]; OIns 0 (KUint 2) [50]; OIns 0 (KUint 4) [51]; OClone 0 1; OMakeRoot 0 0].
Definition ex02_b : list op := [OIns 0 (KUint 8) [52]; ODel 0 (KUint 1) [49]; OMakeRoot 0 1; OLoad 1 2 0 1; OIns 2 (KUint 3) [53]; OMakeRoot 2 2].
Example C02_example :
  conds empty_world ([], []) (ex02_a ++ ex02_b ++ [OIter 1]) /\
  conds empty_world ([], []) (ex02_a ++ ex02_b ++ [OLoad 0 7 0 1; OIter 7]) /\
  Forall (fun o => ttarget o <> Some 1) ex02_b /\ Forall (fun o => rtarget o <> Some 0) ex02_b /\
  option_map at_l (aget (fst (awrun2 ([], []) ex02_a)) 1) = Some [(KUint 1, [49]); (KUint 2, [50]); (KUint 4, [51])] /\
  option_map at_l (aget (snd (awrun2 ([], []) ex02_a)) 0) = Some [(KUint 1, [49]); (KUint 2, [50]); (KUint 4, [51])].
Proof.
  split; [apply condsb_ok; vm_compute; reflexivity|]. split; [apply condsb_ok; vm_compute; reflexivity|].
  split; [repeat constructor; discriminate|]. split; [repeat constructor; discriminate|]. vm_compute. split; reflexivity.
Qed.

(** "... that share the store and the node cache": a cache that is coherent with the store (every cached
    node is the node stored under that name) does not change what loading a captured root yields - so
    the two theorems above hold verbatim for loads through any coherent cache, however it is shared,
    filled or evicted (Cache.v; that the real cache is coherent is the correspondence check's business) *)
Theorem C02_cache_transparent : forall f c st kind bf l rt,
  good_root f st kind bf l rt -> coherent f kind c st -> load_mast_c c st kind rt = load_mast st kind rt.
Proof. exact load_mast_c_transparent. Qed.

(** ... over whole histories: whatever node cache the world has at each step - shared by all trees,
    empty, large, evicting: any policy, any contents - as long as it is coherent with the stores when the
    step runs, the history is step for step (new world, result, trace) the history without a cache; and
    a cache that is coherent stays coherent along any history, because stores only grow *)
Theorem C02_histories_through_caches : forall ops pol i w a,
  winv2 w a -> conds w a ops -> cohs pol i w ops -> run_c pol i w ops = run w ops.
Proof. exact history_through_caches. Qed.
Theorem C02_histories_through_a_fixed_cache : forall ops wc w a,
  winv2 w a -> conds w a ops -> wcoherent wc w -> run_c (fun _ => wc) 0 w ops = run w ops.
Proof. exact history_through_a_fixed_cache. Qed.
Theorem C02_steps_keep_caches_coherent : forall wc w o, (match o with OCorrupt _ _ _ _ => False | _ => True end) ->
  wcoherent wc w -> wcoherent wc (fst (fst (step w o))).
Proof. exact step_keeps_coherence. Qed.

(** ... and with a concrete cache discipline no coherence hypothesis is left: the top node of a tree is
    put into the cache after a LoadMast and after a MakeRoot (what loadPersisted and the commit step of
    flush do), under (store, node format, key kind, name), and after every step anything may be evicted
    ([ev]: any function of the step index and the name - a large cache, a tiny one, none).  From the empty
    world and an empty cache, every history is the cache-less history. *)
Theorem C02_histories_with_a_filling_evicting_cache : forall ops ev,
  conds empty_world ([], []) ops -> run_d ev 0 (fun _ _ _ => cempty) empty_world ops = run empty_world ops.
Proof. exact history_with_cache_from_scratch. Qed.

(** ... so the headline statement holds verbatim with a node cache in play: a captured tree shows its
    captured entries after any continuation that does not write it, whatever the cache kept or evicted *)
Theorem C02_captured_tree_never_changes_with_a_cache : forall ops1 ops2 t x ev,
  conds empty_world ([], []) (ops1 ++ ops2 ++ [OIter t]) ->
  aget (fst (awrun2 ([], []) ops1)) t = Some x ->
  Forall (fun o => ttarget o <> Some t) ops2 ->
  last (map (fun y => pobs (fst y)) (run_d ev 0 (fun _ _ _ => cempty) empty_world (ops1 ++ ops2 ++ [OIter t]))) BOk = BList (at_l x).
Proof.
  intros ops1 ops2 t x ev C E F. rewrite (history_with_cache_from_scratch _ ev C).
  exact (captured_tree_never_changes ops1 ops2 t x C E F).
Qed.

(** non-vacuity: the example history above, run with a cache that is filled on every load and commit and
    never evicts, and with one that evicts everything after every step *)
Example C02_example_caches :
  let ops := (ex02_a ++ ex02_b ++ [OLoad 0 7 0 1; OIter 7])%list in
  run_d (fun _ _ => false) 0 (fun _ _ _ => cempty) empty_world ops = run empty_world ops /\
  run_d (fun _ _ => true) 0 (fun _ _ _ => cempty) empty_world ops = run empty_world ops.
Proof.
  assert (C : conds empty_world ([], []) (ex02_a ++ ex02_b ++ [OLoad 0 7 0 1; OIter 7])) by (apply condsb_ok; vm_compute; reflexivity).
  split; apply history_with_cache_from_scratch; exact C.
Qed.

Print Assumptions C02_frame.
Print Assumptions C02_captured_stable.
Print Assumptions C02_store_monotone.
Print Assumptions C02_persist_keeps_contents.
Print Assumptions C02_captured_tree_never_changes.
Print Assumptions C02_captured_root_never_changes.
Print Assumptions C02_cache_transparent.
Print Assumptions C02_histories_through_caches.
Print Assumptions C02_histories_through_a_fixed_cache.
Print Assumptions C02_steps_keep_caches_coherent.
Print Assumptions C02_histories_with_a_filling_evicting_cache.
Print Assumptions C02_captured_tree_never_changes_with_a_cache.
