(** C02 - captured versions (clones and persisted roots) never change afterwards.
    Statements only; proofs are in Hist.v / Persist.v. *)
From Coq Require Import List NArith ZArith Bool.
From Mast Require Import Prim Key Tree KeyOrder Codec Store Diff World Erase Build Spec Canon Level Inv Hist Persist.
Import ListNotations.

(** the operation a step is applied to *)
Definition target (o : op) : option N :=
  match o with
  | ONew t _ _ _ _ | OIns t _ _ | ODel t _ _ | OMakeRoot t _ => Some t
  | OClone _ t2 => Some t2
  | OLoad _ t _ _ => Some t
  | _ => None
  end.

(** In the model trees are values: an operation on one tree leaves the record of every other tree
    of the world (clones, trees loaded from the same or other roots) untouched, whatever it does to
    the shared store.  (That the Go heap behaves like these values - no write into a node that
    another tree can reach - is what the correspondence check compares after every step with no
    cache, a large cache and an evicting cache.) *)
Theorem C02_frame : forall w o t', target o <> Some t' ->
  aget (w_trees (fst (fst (step w o)))) t' = aget (w_trees w) t'.
Proof.
  intros w o t' Ht. destruct o; cbn [step target] in *; unfold with_tree, with_cur, upd, updc, ro in *;
    repeat match goal with
           | |- context [match ?x with _ => _ end] => destruct x eqn:?; cbn [fst snd w_trees set_tree set_rootrec set_store set_cur]
           end; try reflexivity;
    try (rewrite aget_aset_other; [reflexivity|congruence]).
Qed.

(** the abstract contents of every captured version are unchanged by every later supported
    operation on another tree: with history_refines this is the observable statement *)
Theorem C02_captured_stable : forall a o t', target o <> Some t' -> aget (fst (astep a o)) t' = aget a t'.
Proof.
  intros a o t' Ht. destruct o; cbn [astep target] in *;
    repeat match goal with
           | |- context [match ?x with _ => _ end] => destruct x eqn:?; cbn [fst snd]
           end; cbn [fst]; try reflexivity; try (rewrite aget_aset_other; [reflexivity|congruence]).
Qed.

(** the store only grows: a name that is bound keeps its bytes through every later persist, so a
    retained root resolves to the same bytes forever *)
Theorem C02_store_monotone : forall t s h b, Store.lookup s h = Some b -> Store.lookup (apply_stores s t) h = Some b.
Proof. intros t s h b. exact (apply_stores_keeps t s h b). Qed.

(** persisting a version does not change its contents *)
Theorem C02_persist_keeps_contents : forall bf f m l, kcanon bf m l ->
  oks (make_root f m) (fun r => kcanon bf (snd r) l /\ r_size (fst r) = N.of_nat (length l)).
Proof. exact k_make_root_ok. Qed.

Print Assumptions C02_frame.
Print Assumptions C02_captured_stable.
Print Assumptions C02_store_monotone.
Print Assumptions C02_persist_keeps_contents.
