(** C08 - nodes are content-addressed and deterministically encoded.
    Statements only; proofs are in Persist.v. *)
From Coq Require Import List NArith ZArith Bool.
From Mast Require Import Prim Key Tree KeyOrder Codec Store Diff World Erase Build Spec Canon Level Inv Hist Persist.
Import ListNotations.

(** every Store issued by persisting any tree (any residency mix, either format) is under the name
    name_of bytes = base64url (BLAKE2b-256 bytes) of exactly the bytes written *)
Theorem C08_store_events_named : forall fuel f n, fits key val fuel n ->
  okf store_named (store_node fuel f n) (fun r => n_src _ _ (snd r) = Some (fst r)).
Proof. exact store_node_named. Qed.

(** the bytes are a function of the node's keys, values and child names alone: flags, capacities
    and the kind of the links do not occur in them *)
Theorem C08_bytes_function_of_contents : forall f n n',
  map (ekey _ _) (n_es _ _ n) = map (ekey _ _) (n_es _ _ n') ->
  map (eval _ _) (n_es _ _ n) = map (eval _ _) (n_es _ _ n') ->
  map link_name (n_links _ _ n) = map link_name (n_links _ _ n') ->
  node_bytes f n = node_bytes f n'.
Proof. exact node_bytes_fun. Qed.

(** the same name is never bound to different bytes: a bound name keeps its bytes *)
Theorem C08_name_keeps_bytes : forall s h b h' b', Store.lookup s h' = Some b' -> Store.lookup (put s h b) h' = Some b'.
Proof. exact put_keeps. Qed.

(** the Gallina BLAKE2b-256 / base64url agree with Go and Python on a real node (and on 70 frozen
    nodes in Golden.v) *)
Theorem C08_name_vector : name_of tv_node =
  [53;104;82;50;112;76;102;115;78;54;121;101;78;109;71;90;111;67;75;99;117;95;79;115;65;109;100;52;48;117;71;79;74;121;112;111;118;81;114;89;113;67;52]%N.
Proof. exact name_tv. Qed.

(** PARTIAL: "same root name => same contents" needs collision freeness of BLAKE2b-256, which is a
    stated hypothesis and not provable. *)
Print Assumptions C08_store_events_named.
Print Assumptions C08_bytes_function_of_contents.
Print Assumptions C08_name_keeps_bytes.
Print Assumptions C08_name_vector.
