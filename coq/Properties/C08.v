(** C08 - nodes are content-addressed and deterministically encoded.
    Statements only; proofs are in Persist.v. *)
From Coq Require Import List NArith ZArith Bool.
From Mast Require Import Prim Key Tree KeyOrder Codec Store Diff World Erase Build Spec Canon Links Level Inv Hist Persist Events Reload Merkle WorldInv MerkleHist SchedStore.
Import ListNotations.

(** every Store issued by persisting any tree (any residency mix, either format) is under the name
    name_of bytes = base64url (BLAKE2b-256 bytes) of exactly the bytes written *)
Theorem C08_store_events_named : forall fuel f n, fits key val fuel n ->
  okf store_named (store_node fuel f n) (fun r => n_src _ _ (snd r) = Some (fst r)).
Proof. exact store_node_named. Qed.

(** ... unconditionally and whatever the outcome of the persist (success, error, mid-way failure):
    every Store event of MakeRoot is under the name of its bytes *)
Theorem C08_every_write_named : forall f (m : kmast), evb store_named (make_root f m).
Proof. exact make_root_evn. Qed.

(** hence every store of every reachable world holds each node under the name of its bytes *)
Theorem C08_reachable_stores_content_addressed : forall ops, conds empty_world ([], []) ops -> waddr (wrun empty_world ops).
Proof. intros ops C. exact (wrun_waddr ops empty_world (conds_no_corrupt _ _ _ C) waddr_empty). Qed.

(** and the name a persist returns is the Merkle name of the tree: a function of its keys, values
    and shape only (not of flags, sources, or which nodes were in memory) *)
Theorem C08_persist_returns_merkle_name : forall f s kind, addressed s -> forall fuel (n : knode), allh key val (sto f s kind) n ->
  okp (store_node fuel f n) (fun r => fst r = mname f n /\ mname f (snd r) = mname f n).
Proof. exact store_node_mname. Qed.
Theorem C08_merkle_name_ignores_residency : forall f (n : knode), mname f (erase_n _ _ n) = mname f n.
Proof. exact mname_erase. Qed.

(** the bytes are a function of the node's keys, values and child names alone: flags, capacities
    and the kind of the links do not occur in them *)
Theorem C08_bytes_function_of_contents : forall f n n',
  map (ekey _ _) (n_es _ _ n) = map (ekey _ _) (n_es _ _ n') ->
  map (eval _ _) (n_es _ _ n) = map (eval _ _) (n_es _ _ n') ->
  map link_name (n_links _ _ n) = map link_name (n_links _ _ n') ->
  node_bytes f n = node_bytes f n'.
Proof. exact node_bytes_fun. Qed.

(** the same name is never bound to different bytes: a bound name keeps its bytes *)
Theorem C08_name_keeps_bytes : forall s h b h' b', Store.lookup s h' = Some b' -> Store.lookup (put s h b) h' = Some b'.
Proof. exact put_keeps. Qed.

(** the Gallina BLAKE2b-256 / base64url agree with Go and Python on a real node (and on 70 frozen
    nodes in Golden.v) *)
Theorem C08_name_vector : name_of tv_node =
  [53;104;82;50;112;76;102;115;78;54;121;101;78;109;71;90;111;67;75;99;117;95;79;115;65;109;100;52;48;117;71;79;74;121;112;111;118;81;114;89;113;67;52]%N.
Proof. exact name_tv. Qed.

(** the collision-freedom side condition of the history theorems ([nocoll]) is exactly a statement
    about the hash: in a content-addressed store, with writes under the names of their bytes, it can
    fail only if two different byte strings among those stored or written have the same name *)
Theorem C08_nocoll_unless_hash_collision : forall s t,
  addressed s -> Forall store_named t ->
  (forall b b', ((exists h, Store.lookup s h = Some b) \/ (exists h, In (EStore h b) t)) ->
                (exists h, In (EStore h b') t) -> name_of b = name_of b' -> b = b') ->
  nocoll s t.
Proof. exact nocoll_unless_hash_collision. Qed.

(** PARTIAL: "same root name => same contents" needs collision freeness of BLAKE2b-256, which is a
    stated hypothesis and not provable. *)
Print Assumptions C08_store_events_named.
Print Assumptions C08_every_write_named.
Print Assumptions C08_reachable_stores_content_addressed.
Print Assumptions C08_persist_returns_merkle_name.
Print Assumptions C08_merkle_name_ignores_residency.
Print Assumptions C08_bytes_function_of_contents.
Print Assumptions C08_name_keeps_bytes.
Print Assumptions C08_name_vector.
Print Assumptions C08_nocoll_unless_hash_collision.
