(** C11 - independent trees sharing a store (and node cache) are safe to use concurrently.
    Statements only; proofs are in Conc.v.

    What a theorem about the value model can carry: the operations of different owners do not
    interfere - every owner observes, in any interleaving of whole API calls, exactly what it
    observes running alone, although all owners persist into the same stores.  What it cannot:
    the Go memory model.  That no two goroutines touch a shared node without synchronisation (the
    nodes the cache hands to several trees are read-only, mutation goes through ToMut copies, the
    store and cache take their own locks) is decided on every run by the -race engine, which runs
    the owners' histories in parallel goroutines over a shared frozen cache/store under the Go race
    detector and compares each owner's observations with its solo run.  PARTIAL for that reason;
    the ARC cache is also outside these theorems.  LoadMast during the concurrent phase is covered
    by the second theorem below (at the level of results, through the abstract world). *)
From Coq Require Import List NArith ZArith Bool.
From Mast Require Import Prim Key Tree Codec Store Diff World Hist Conc Reload WorldInv ConcHist Cache CacheHist ConcCache.
Import ListNotations.

(** a call that uses only what its owner owns (trees, cursors, captured roots) computes the same
    observation and trace, and the same new state of what the owner owns, in any two worlds that
    agree on what the owner owns - whatever the stores and the other owners' trees contain *)
Theorem C11_step_is_local : forall T w1 w2 o, op_ok T o = true -> agree T w1 w2 -> same T (step w1 o) (step w2 o).
Proof. exact step_local. Qed.

(** ... and leaves every tree, cursor and captured root it does not own untouched *)
Theorem C11_step_frame : forall T w o i, op_ok T o = true -> T i = false ->
  aget (w_trees (fst (fst (step w o)))) i = aget (w_trees w) i /\
  aget (w_curs (fst (fst (step w o)))) i = aget (w_curs w) i /\
  aget (w_roots (fst (fst (step w o)))) i = aget (w_roots w) i.
Proof. exact step_frame. Qed.

(** for every number of owners with pairwise disjoint possessions and EVERY interleaving of their
    calls (reads, inserts, deletes, clones, cursors, diffs, persists into shared stores): what owner
    a observes - results and load/store traces - is what it observes running alone *)
Theorem C11_alone_in_any_interleaving : forall (owner_ids : nat -> ids) (a : nat),
  (forall j i, j <> a -> owner_ids j i = true -> owner_ids a i = false) ->
  forall l w wa, all_ok owner_ids l = true -> agree (owner_ids a) w wa ->
  observed a w l = run wa (mine a l).
Proof. exact alone_in_any_interleaving. Qed.

(** non-vacuity: two owners (ids < 10 and ids >= 10) cloned from one persisted tree, interleaved *)
Definition ids_of (j : nat) : ids := fun i => if Nat.eqb j 0 then (i <? 10)%N else (10 <=? i)%N.
Definition setup : list op :=
  [ONew 0 0 2 None 1; OIns 0 (KUint 1%N) [49%N]; OIns 0 (KUint 2%N) [50%N]; OIns 0 (KUint 4%N) [51%N]; OMakeRoot 0 0; OClone 0 10].
Definition inter : list tagged :=
  [(0, OIns 0 (KUint 7%N) [55%N]); (1, ODel 10 (KUint 2%N) [50%N]); (1, OMakeRoot 10 10); (0, OIter 0); (0, OMakeRoot 0 1);
   (1, OIter 10); (0, ODiff 0 None); (1, OIns 10 (KUint 7%N) [56%N]); (1, OGet 10 (KUint 7%N)); (0, OGet 0 (KUint 7%N))]%nat.
Example C11_example :
  all_ok ids_of inter = true /\
  observed 0 (wrun empty_world setup) inter = run (wrun empty_world setup) (mine 0 inter) /\
  observed 1 (wrun empty_world setup) inter = run (wrun empty_world setup) (mine 1 inter) /\
  length (observed 0 (wrun empty_world setup) inter) = 5%nat.
Proof. vm_compute. repeat split; reflexivity. Qed.

(** The same with persists AND reloads: every owner persists into and reloads from the shared stores
    (LoadMast of its own captured roots, whose nodes sit among everybody's in the store), in either
    node format; in EVERY interleaving each owner's results are those of its own history run alone.
    Side conditions [conds] (decidable) on the interleaved history and on the owner's own history. *)
Theorem C11_alone_with_persist_and_reload : forall (owner_ids : nat -> ConcHist.ids) (a : nat),
  (forall j i, j <> a -> owner_ids j i = true -> owner_ids a i = false) ->
  forall l, all_own owner_ids l = true ->
  conds empty_world ([], []) (map snd l) -> conds empty_world ([], []) (ConcHist.mine a l) ->
  observed_p a empty_world l = map (fun y => pobs (fst y)) (run empty_world (ConcHist.mine a l)).
Proof. exact alone_with_persist_and_reload. Qed.

(** non-vacuity: two owners, each with its own trees and roots over one store, persisting, reloading
    and modifying in turn *)
Definition ids2 (j : nat) : ConcHist.ids := fun i => if Nat.eqb j 0 then (i <? 10)%N else (10 <=? i)%N.
Definition inter2 : list ConcHist.tagged :=
  [(0, ONew 0 0 2 None 1); (1, ONew 10 0 3 (Some FV1) 1); (0, OIns 0 (KUint 1%N) [49%N]); (1, OIns 10 (KUint 1%N) [49%N]);
   (0, OIns 0 (KUint 2%N) [50%N]); (1, OIns 10 (KUint 6%N) [54%N]); (0, OMakeRoot 0 0); (1, OMakeRoot 10 10);
   (1, OLoad 10 11 0 1); (0, OLoad 0 1 0 1); (1, OIns 11 (KUint 9%N) [57%N]); (0, ODel 1 (KUint 1%N) [49%N]);
   (1, OMakeRoot 11 11); (0, OIter 1); (0, OMakeRoot 1 1); (1, OLoad 11 12 0 1); (1, OIter 12); (0, ODiff 1 (Some 0%N))]%nat.
Example C11_example_persist_reload :
  all_own ids2 inter2 = true /\
  conds empty_world ([], []) (map snd inter2) /\ conds empty_world ([], []) (ConcHist.mine 0 inter2) /\
  conds empty_world ([], []) (ConcHist.mine 1 inter2) /\
  observed_p 1 empty_world inter2 = map (fun y => pobs (fst y)) (run empty_world (ConcHist.mine 1 inter2)) /\
  length (observed_p 0 empty_world inter2) = 9%nat.
Proof.
  split; [vm_compute; reflexivity|]. split; [apply condsb_ok; vm_compute; reflexivity|].
  split; [apply condsb_ok; vm_compute; reflexivity|]. split; [apply condsb_ok; vm_compute; reflexivity|].
  vm_compute. split; reflexivity.
Qed.

(** ... and over one node cache too: all owners' operations go through ONE world-wide cache that starts
    empty, is filled with the top node on every LoadMast and MakeRoot (what loadPersisted and the commit
    step of flush do) and evicted by ANY schedule [ev].  In every interleaving and under every eviction
    schedule each owner observes exactly what its own history observes run alone with no cache at all. *)
Theorem C11_alone_over_a_shared_cache : forall (owner_ids : nat -> ConcHist.ids) (a : nat),
  (forall j i, j <> a -> owner_ids j i = true -> owner_ids a i = false) ->
  forall l ev, all_own owner_ids l = true ->
  conds empty_world ([], []) (map snd l) -> conds empty_world ([], []) (ConcHist.mine a l) ->
  observed_d a ev 0 (fun _ _ _ => cempty) empty_world l = map (fun y => pobs (fst y)) (run empty_world (ConcHist.mine a l)).
Proof. exact alone_over_a_shared_cache. Qed.

(** non-vacuity: the two owners above through one cache from which every second step evicts everything *)
Example C11_example_shared_cache :
  observed_d 1 (fun i _ => Nat.even i) 0 (fun _ _ _ => cempty) empty_world inter2
  = map (fun y => pobs (fst y)) (run empty_world (ConcHist.mine 1 inter2)) /\
  length (observed_d 0 (fun i _ => Nat.even i) 0 (fun _ _ _ => cempty) empty_world inter2) = 9%nat.
Proof. vm_compute. split; reflexivity. Qed.

Print Assumptions C11_step_is_local.
Print Assumptions C11_step_frame.
Print Assumptions C11_alone_in_any_interleaving.
Print Assumptions C11_alone_with_persist_and_reload.
Print Assumptions C11_alone_over_a_shared_cache.
