(** C18 - every store backend honours the node-store contract.
    Statements only; the backend state machines and proofs are in Backend.v. *)
From Coq Require Import List NArith Bool.
From Mast Require Import Prim Backend StoreHist.
Import ListNotations.

(** overwrite backends (in-memory map, S3): a stored pair loads back, for any name and any bytes
    (empty, binary, large: bytes are arbitrary lists) *)
Theorem C18_store_then_load : forall s k b, blookup (put_over s k b) k = Some b.
Proof. exact store_then_load_over. Qed.
(** the file backend skips an existing name; under content addressing the name holds these bytes *)
Theorem C18_store_then_load_file : forall s k b, (blookup s k = None \/ blookup s k = Some b) -> blookup (put_skip s k b) k = Some b.
Proof. exact store_then_load_skip. Qed.
(** a name never written does not load *)
Theorem C18_load_unwritten : forall k, blookup [] k = None.
Proof. exact load_never_written. Qed.
Theorem C18_other_names_untouched : forall s k k' b, k <> k' -> blookup (put_over s k b) k' = blookup s k'.
Proof. exact load_unwritten_over. Qed.
(** storing the same pair again, sequentially or interleaved with other stores in either order *)
Theorem C18_restore_same : forall s k b, blookup (put_over (put_over s k b) k b) k = Some b.
Proof. exact restore_same_over. Qed.
Theorem C18_restore_same_file : forall s k b, blookup s k = Some b -> blookup (put_skip s k b) k = Some b.
Proof. exact restore_same_skip. Qed.
Theorem C18_concurrent_same_pair : forall s k b k2 b2, k2 <> k ->
  blookup (put_over (put_over (put_over s k b) k2 b2) k b) k = Some b /\
  blookup (put_over (put_over (put_over s k2 b2) k b) k b) k = Some b.
Proof. exact concurrent_same_pair. Qed.
(** backend errors are returned and leave the state alone *)
Theorem C18_error_propagates : forall put s k b, bstore true put s k b = (s, false).
Proof. exact error_propagates. Qed.
(** S3 reads and writes the object prefix ++ name: distinct names are distinct objects *)
Theorem C18_s3_key : forall prefix n n', s3_key prefix n = s3_key prefix n' -> n = n'.
Proof. exact s3_key_injective. Qed.
Theorem C18_s3_roundtrip : forall s prefix n b, blookup (put_over s (s3_key prefix n) b) (s3_key prefix n) = Some b.
Proof. exact s3_store_then_load. Qed.

(** Over histories (StoreHist.v): ANY sequence of Store calls - any names, each call succeeding or failing
    in the backend, the same name any number of times (names are content hashes: [content n] is the
    one byte string ever stored under n) - from the empty store.  A Load returns exactly those bytes
    if some Store of that name succeeded, and an error otherwise: on the overwriting backends, *)
Theorem C18_contract_in_histories : forall (content : bytes -> bytes) l k,
  blookup (fold_left (run_call content put_over) l []) k = if acked l k then Some (content k) else None.
Proof. exact contract_over. Qed.

(** on the file backend, which leaves an existing name alone, *)
Theorem C18_contract_in_histories_file : forall (content : bytes -> bytes) l k,
  blookup (fold_left (run_call content put_skip) l []) k = if acked l k then Some (content k) else None.
Proof. exact contract_skip. Qed.

(** and on S3 through the object key prefix ++ name. *)
Theorem C18_contract_in_histories_s3 : forall (content : bytes -> bytes) prefix l n,
  blookup (fold_left (run_call content put_over) (map (fun c => Call (s3_key prefix (c_name c)) (c_fail c)) l) []) (s3_key prefix n)
  = if acked l n then Some (content (s3_key prefix n)) else None.
Proof. exact contract_s3. Qed.

(** non-vacuity: a failing write, an acknowledged one, the same again, a failing write of another name *)
Example C18_history_example :
  let c : bytes -> bytes := fun n => n ++ [0%N; 255%N] in
  let l := [Call [65%N] true; Call [65%N] false; Call [65%N] false; Call [66%N] true] in
  blookup (fold_left (run_call c put_skip) l []) [65%N] = Some [65%N; 0%N; 255%N] /\
  blookup (fold_left (run_call c put_skip) l []) [66%N] = None /\
  blookup (fold_left (run_call c put_over) l []) [65%N] = Some [65%N; 0%N; 255%N].
Proof. exact contract_example. Qed.

(** PARTIAL: these are theorems about map machines; that the three real backends (Go map under a
    mutex, os files, the S3 client) behave like them is established by the contract engine against
    the implementation (tools/special.py backend), incl. the exact S3 bucket / key of every call. *)
Print Assumptions C18_store_then_load.
Print Assumptions C18_store_then_load_file.
Print Assumptions C18_load_unwritten.
Print Assumptions C18_other_names_untouched.
Print Assumptions C18_restore_same.
Print Assumptions C18_restore_same_file.
Print Assumptions C18_concurrent_same_pair.
Print Assumptions C18_error_propagates.
Print Assumptions C18_s3_key.
Print Assumptions C18_s3_roundtrip.
Print Assumptions C18_contract_in_histories.
Print Assumptions C18_contract_in_histories_file.
Print Assumptions C18_contract_in_histories_s3.
