(** C05 - persist then load is the identity on the map, for both node formats.
    Statements only; proofs are in CodecRT.v / CodecV1.v / Reload.v (generic in the format [f]);
    in the world-level theorem at the end every tree has its own format. *)
From Coq Require Import List NArith ZArith Bool.
From Mast Require Import Cache WorldInv Prim Key Tree KeyOrder Codec CodecRT CodecV1 DecRT RootRT KeyRT Store Diff World Erase Build Spec Canon Links Level Inv Persist Hist Reload.
Import ListNotations.

(** the compact binary node format round-trips for arbitrary element bodies (keys, values: any
    byte strings), nil and non-empty child names, one more link than keys, lengths below 2^64 *)
Theorem C05_binary_roundtrip : forall keys vals links,
  length vals = length keys -> CodecRT.links_ok (length keys) links ->
  small (N.of_nat (length keys)) -> small (N.of_nat (length links)) ->
  Forall small_list keys -> Forall small_list vals -> Forall (fun l => small_list (link_body l)) links ->
  decode_bin (encode_bin keys vals links) = Some (keys, vals, links).
Proof. exact decode_encode_bin. Qed.

Theorem C05_uvarint_roundtrip : forall n r, small n -> read_uvarint (uvarint n ++ r) = Some (n, r).
Proof. exact uvarint_rt. Qed.

(** the v1marshaler node format (default JSON marshaler) round-trips: keys and values are JSON value
    texts as encoding/json emits them ([elem_ok]: non-empty, brackets and strings closed, no comma
    outside them), child names are nil or non-empty text that needs no escaping, one more link than keys *)
Theorem C05_v1_roundtrip : forall keys vals links,
  length vals = length keys -> length links = S (length keys) -> v1_links_ok links ->
  Forall (fun e => elem_ok e = true) keys -> Forall (fun e => elem_ok e = true) vals ->
  decode_v1 (encode_v1 keys vals links) = Some (keys, vals, links).
Proof. exact decode_encode_v1. Qed.

(** ... the JSON text of every integer, byte-slice and mast.Key key is such an element, of a string
    key if it has no quote or backslash, of any other key type if its marshaled text is one; and every
    node name is text that needs no escaping *)
Theorem C05_v1_key_texts : forall k, key_v1_ok k -> elem_ok (kmarshal k) = true.
Proof. exact kmarshal_elem_ok. Qed.
Theorem C05_v1_names : forall b, plain (name_of b) = true.
Proof. exact name_plain. Qed.

(** "... directly or after the root record has been serialized to JSON and back": the JSON text of
    a Root (compared byte for byte with the implementation's on every run) reads back to the same
    record - numbers of at most 40 digits, link and format string without a quote; the model's
    LoadMast step takes the Root through this text ([root_via_json] in World.step), as the harness does *)
Theorem C05_root_json_roundtrip : forall r, root_wf r -> parse_root (root_json r) = Some r.
Proof. exact parse_root_json. Qed.

(** "every supported key type whose encoding round-trips": every int64 and uint64 key and every
    string key does (decimal printing and parsing are inverse below 10^40) *)
Theorem C05_int_keys_roundtrip : forall z, (- 9223372036854775808 <= z <= 9223372036854775807)%Z -> key_rt 0 (KInt z).
Proof. exact key_rt_int. Qed.
Theorem C05_uint_keys_roundtrip : forall n, (n <= 18446744073709551615)%N -> key_rt 1 (KUint n).
Proof. exact key_rt_uint. Qed.
Theorem C05_string_keys_roundtrip : forall s, key_rt 2 (KStr s).
Proof. exact key_rt_str. Qed.
(** ... every []byte key (standard base64 in a JSON string; bytes below 256) and every mast.Key key
    of the harness's shape ({"K":z,"L":l}) *)
Theorem C05_bytes_keys_roundtrip : forall b, bytes_ok b -> key_rt 3 (KBytes b).
Proof. exact key_rt_bytes. Qed.
Theorem C05_user_keys_roundtrip : forall z l, (Z.abs z < Z.of_N ten40)%Z -> (N.of_nat l < ten40)%N -> key_rt 5 (KUser z l).
Proof. exact key_rt_user. Qed.

(** Persisting a tree of ANY residency mix (in-memory nodes, nodes already in the store, or both)
    and loading the returned root from the resulting store yields a tree with exactly the same entries
    (it is the canonical tree of the same list), hence the same size, height and branch factor; and both
    the persisted and the loaded tree keep all their hash links resolvable in that store.
    Hypotheses, as in the property: the element encoding round-trips and sizes fit 64 bits
    ([list_ok]); additionally no two different byte strings written share a name ([nocoll]: BLAKE2b
    collision freeness, which cannot be proved). *)
Theorem C05_persist_then_load : forall f s kind bf m l t rt m',
  kcanon bf m l -> root_allh f s kind m -> list_ok f kind l ->
  make_root f m = (t, Ok (rt, m')) -> nocoll s t ->
  oks (load_mast (apply_stores s t) kind rt)
      (fun r => fst r = f /\ kcanon bf (snd r) l /\ root_allh f (apply_stores s t) kind (snd r)) /\
  kcanon bf m' l /\ root_allh f (apply_stores s t) kind m'.
Proof. exact persist_then_load. Qed.

(** [list_ok] spelled out per format: the binary format takes every key/value whose key encoding
    round-trips and whose lengths fit 64 bits; the v1marshaler format those whose texts are elements *)
Theorem C05_list_ok_binary : forall kind l,
  Forall (fun kv => key_rt kind (fst kv) /\ small_list (kmarshal (fst kv)) /\ small_list (snd kv)) l ->
  small (N.of_nat (S (length l))) -> list_ok FBin kind l.
Proof. intros kind l H Hs. split; [exact H|exact Hs]. Qed.
Theorem C05_list_ok_v1 : forall kind l,
  Forall (fun kv => key_rt kind (fst kv) /\ key_v1_ok (fst kv) /\ elem_ok (snd kv) = true) l ->
  small (N.of_nat (S (length l))) -> list_ok FV1 kind l.
Proof.
  intros kind l H Hs. split; [|exact Hs]. eapply Forall_impl; [|exact H]. intros kv (A & B & C).
  split; [exact A|]. split; [exact (kmarshal_elem_ok _ B)|exact C].
Qed.

(** The reloaded tree can be modified and persisted again with all the same guarantees, for any
    number of insert / update / delete / persist-and-reload cycles: every step succeeds and the tree
    stays the canonical tree of the abstract map. *)
Theorem C05_cycles : forall f kind bf ops st l,
  pinv f kind bf st l -> pconds f kind bf st l ops ->
  exists st', prun f kind bf st ops = Some st' /\ pinv f kind bf st' (aprun l ops).
Proof. exact cycles_ok. Qed.

(** every operation keeps the hash links of a tree resolvable in its store *)
Theorem C05_insert_keeps_links : forall f s kind bf m k v, root_allh f s kind m ->
  okp (insert _ _ kcmp bytes_eqb (klayer bf) m k v) (root_allh f s kind).
Proof. exact insert_allh. Qed.
Theorem C05_delete_keeps_links : forall f s kind bf m k v, root_allh f s kind m ->
  okp (delete _ _ kcmp bytes_eqb (klayer bf) m k v) (root_allh f s kind).
Proof. exact delete_allh. Qed.

(** non-vacuity: the hypotheses hold for concrete keys of every kind, and a concrete three-level
    tree survives persist / reload / modify / persist / reload in the executable model *)
Local Open Scope N_scope.
Example C05_key_roundtrips :
  key_rt 0 (KInt (-12)%Z) /\ key_rt 1 (KUint 7) /\ key_rt 2 (KStr [97;98]) /\ key_rt 3 (KBytes [0;255;3]) /\
  key_rt 4 (KBlob [123;125]) /\ key_rt 5 (KUser (-3)%Z 2%nat).
Proof. unfold key_rt. vm_compute. repeat split; reflexivity. Qed.
Example C05_example :
  let r := map (fun x => fst x) (run empty_world
    [ONew 0 0 2 None 0; OIns 0 (KInt 4%Z) [49]; OIns 0 (KInt 2%Z) [50]; OIns 0 (KInt 8%Z) [51]; OIns 0 (KInt 1%Z) [52];
     OMakeRoot 0 0; OLoad 0 1 0 0; OIter 1; OIns 1 (KInt 16%Z) [53]; ODel 1 (KInt 2%Z) [50]; OMakeRoot 1 1; OLoad 1 2 0 0; OIter 2; OSize 2]) in
  nth 7%nat r ObOk = ObList [(KInt 1%Z, [52]); (KInt 2%Z, [50]); (KInt 4%Z, [49]); (KInt 8%Z, [51])] /\
  nth 12%nat r ObOk = ObList [(KInt 1%Z, [52]); (KInt 4%Z, [49]); (KInt 8%Z, [51]); (KInt 16%Z, [53])] /\
  nth 13%nat r ObOk = ObNum 4.
Proof. vm_compute. repeat split; reflexivity. Qed.

(** non-vacuity for the v1marshaler format: the cycle theorem's hypotheses hold for a concrete run
    (insert three entries with int keys and JSON values, persist and reload, delete one, insert another,
    persist and reload again) from the empty tree with branch factor 2, and the run ends with the
    expected contents *)
Definition ex_v1_ops : list pop :=
  [PIns (KInt 4%Z) [34;97;34]; PIns (KInt 2%Z) [91;49;44;50;93]; PIns (KInt 8%Z) [123;34;120;34;58;110;117;108;108;125];
   PPersistReload; PDel (KInt 2%Z) [91;49;44;50;93]; PIns (KInt 1%Z) [116;114;117;101]; PPersistReload].
Definition ex_v1_st : pstate := ([], Mast (LPtr (fresh_node key val)) 0 0 2 (1 * 2) 1 false).
Example C05_example_v1 :
  pinv FV1 0 2 ex_v1_st [] /\ pconds FV1 0 2 ex_v1_st [] ex_v1_ops /\
  aprun [] ex_v1_ops = [(KInt 1%Z, [116;114;117;101]); (KInt 4%Z, [34;97;34]); (KInt 8%Z, [123;34;120;34;58;110;117;108;108;125])] /\
  exists st', prun FV1 0 2 ex_v1_st ex_v1_ops = Some st' /\ to_list _ _ (m_root _ _ (snd st')) = aprun [] ex_v1_ops.
Proof.
  split; [|split; [|split]].
  - split; [exact (empty_canon key val kcmp (klayer 2) 2 false ltac:(discriminate))|].
    split; [constructor; apply allh_fresh|]. split; [constructor|unfold small; reflexivity].
  - apply pcondsb_ok. vm_compute. reflexivity.
  - vm_compute. reflexivity.
  - eexists. split; vm_compute; reflexivity.
Qed.

(** The root returned by MakeRoot stays loadable from every store that extends the resulting one
    (other trees keep persisting into it), with the same contents, size, height and branch factor *)
Theorem C05_root_stays_loadable : forall f s s' kind bf (m : kmast) l t rt m',
  kcanon bf m l -> root_allh f s kind m -> list_ok f kind l ->
  make_root f m = (t, Ok (rt, m')) -> nocoll s t -> extends (apply_stores s t) s' ->
  oks (load_mast s' kind rt) (fun r => fst r = f /\ kcanon bf (snd r) l /\ root_allh f s' kind (snd r)).
Proof.
  intros f s s' kind bf m l t rt m' C H Hl E Hn Hx.
  exact (load_good f s' kind bf l rt (good_root_mono f _ s' kind bf l rt Hx (proj1 (make_root_good f s kind bf m l t rt m' C H Hl E Hn)))).
Qed.

(** ... and inside histories with many trees and many stores, each tree of either node format: see
    C01_refines_sorted_map, whose supported operations include MakeRoot and LoadMast of any captured root *)
Theorem C05_in_histories : forall ops w a,
  winv2 w a -> conds w a ops ->
  map (fun x => pobs (fst x)) (run w ops) = arun2 a ops /\ winv2 (wrun w ops) (awrun2 a ops).
Proof. exact history_refines2. Qed.

(** non-vacuity at the world level: a v1marshaler tree and a binary tree over one store, each
    persisted, reloaded, modified, persisted again and diffed against its earlier version; the side
    conditions hold (decided by [condsb]) and the implementation model observes what the abstract
    world observes *)
Definition ex_ops_both : list op :=
  [ONew 0 0 2 (Some FV1) 1; ONew 5 0 3 None 1;
   OIns 0 (KUint 1) [49]; OIns 0 (KUint 2) [34;120;34]; OIns 0 (KUint 4) [91;49;44;50;93]; OIns 5 (KUint 1) [0;255]; OIns 5 (KUint 9) [];
   OMakeRoot 0 0; OMakeRoot 5 1; OLoad 0 1 0 1; OLoad 1 6 0 1;
   OIns 1 (KUint 8) [110;117;108;108]; ODel 1 (KUint 1) [49]; OIns 6 (KUint 3) [7]; OMakeRoot 1 2; OMakeRoot 6 3;
   ODiff 1 (Some 0); ODiff 6 (Some 5); OLoad 2 2 0 1; OIter 2; OLoad 3 7 0 1; OIter 7].
Example C05_example_both_formats :
  conds empty_world ([], []) ex_ops_both /\
  nth 19%nat (arun2 ([], []) ex_ops_both) BOk = BList [(KUint 2, [34;120;34]); (KUint 4, [91;49;44;50;93]); (KUint 8, [110;117;108;108])] /\
  nth 21%nat (arun2 ([], []) ex_ops_both) BOk = BList [(KUint 1, [0;255]); (KUint 3, [7]); (KUint 9, [])] /\
  map (fun x => pobs (fst x)) (run empty_world ex_ops_both) = arun2 ([], []) ex_ops_both.
Proof. split; [apply condsb_ok; vm_compute; reflexivity|]. vm_compute. repeat split; reflexivity. Qed.

(** "... and with or without a node cache."  A cache is modelled as a partial map from names to
    deserialized nodes that LoadMast consults before the store; it is COHERENT with a store when every
    node it holds is the node the store holds under that name.  Opening any captured root of a
    reachable world through any coherent cache gives exactly the tree, result and trace of opening it
    from the store alone; and what the code does to a cache keeps it coherent: adding a node decoded
    from the store or just written by a persist (commit), evicting anything at any time, and the
    store growing by anybody's persists. *)
Theorem C05_cache_transparent : forall f c st kind bf l rt,
  good_root f st kind bf l rt -> coherent f kind c st -> load_mast_c c st kind rt = load_mast st kind rt.
Proof. exact load_mast_c_transparent. Qed.
Theorem C05_cache_add_keeps_coherence : forall f kind c s h n, coherent f kind c s -> sto f s kind h n -> coherent f kind (cadd c h n) s.
Proof. exact coherent_add. Qed.
Theorem C05_cache_evict_keeps_coherence : forall f kind c s drop, coherent f kind c s -> coherent f kind (cevict c drop) s.
Proof. exact coherent_evict. Qed.
Theorem C05_cache_coherent_after_any_persist : forall f kind c s t, coherent f kind c s -> coherent f kind c (apply_stores s t).
Proof. exact coherent_after_persist. Qed.
Theorem C05_cache_commit_keeps_coherence : forall f c s kind bf (m : kmast) l t rt m' h n',
  kcanon bf m l -> root_allh f s kind m -> list_ok f kind l ->
  make_root f m = (t, Ok (rt, m')) -> nocoll s t -> coherent f kind c s ->
  m_root _ _ m' = LHash h n' ->
  coherent f kind (cadd c h n') (apply_stores s t).
Proof. exact coherent_after_commit. Qed.

(** PARTIAL: custom marshalers are outside the model; that the REAL cache stays coherent (keyed by store
    prefix + name, filled only after the write succeeded, never mutated in place) and object identity on
    the Go heap are decided by the correspondence check with shared, evicting and cross-store caches; the round trip of keys of any other type (ordered and layered by their marshaled bytes) is a hypothesis ([key_rt], decidable). *)
Print Assumptions C05_binary_roundtrip.
Print Assumptions C05_uvarint_roundtrip.
Print Assumptions C05_v1_roundtrip.
Print Assumptions C05_root_json_roundtrip.
Print Assumptions C05_int_keys_roundtrip.
Print Assumptions C05_uint_keys_roundtrip.
Print Assumptions C05_string_keys_roundtrip.
Print Assumptions C05_bytes_keys_roundtrip.
Print Assumptions C05_user_keys_roundtrip.
Print Assumptions C05_v1_key_texts.
Print Assumptions C05_v1_names.
Print Assumptions C05_list_ok_binary.
Print Assumptions C05_list_ok_v1.
Print Assumptions C05_persist_then_load.
Print Assumptions C05_cycles.
Print Assumptions C05_example_v1.
Print Assumptions C05_insert_keeps_links.
Print Assumptions C05_delete_keeps_links.
Print Assumptions C05_root_stays_loadable.
Print Assumptions C05_in_histories.
Print Assumptions C05_example_both_formats.
Print Assumptions C05_cache_transparent.
Print Assumptions C05_cache_add_keeps_coherence.
Print Assumptions C05_cache_evict_keeps_coherence.
Print Assumptions C05_cache_coherent_after_any_persist.
Print Assumptions C05_cache_commit_keeps_coherence.
