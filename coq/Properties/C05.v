(** C05 - persist then load is the identity on the map.
    Statements only; proofs are in CodecRT.v / Reload.v. *)
From Coq Require Import List NArith ZArith Bool.
From Mast Require Import WorldInv Prim Key Tree KeyOrder Codec CodecRT Store Diff World Erase Build Spec Canon Links Level Inv Persist Hist Reload.
Import ListNotations.

(** the compact binary node format round-trips for arbitrary element bodies (keys, values: any
    byte strings), nil and non-empty child names, one more link than keys, lengths below 2^64 *)
Theorem C05_binary_roundtrip : forall keys vals links,
  length vals = length keys -> CodecRT.links_ok (length keys) links ->
  small (N.of_nat (length keys)) -> small (N.of_nat (length links)) ->
  Forall small_list keys -> Forall small_list vals -> Forall (fun l => small_list (link_body l)) links ->
  decode_bin (encode_bin keys vals links) = Some (keys, vals, links).
Proof. exact decode_encode_bin. Qed.

Theorem C05_uvarint_roundtrip : forall n r, small n -> read_uvarint (uvarint n ++ r) = Some (n, r).
Proof. exact uvarint_rt. Qed.

(** Persisting a tree of ANY residency mix (in-memory nodes, nodes already in the store, or both)
    and loading the returned root from the resulting store yields a tree with exactly the same entries
    (it is the canonical tree of the same list), hence the same size, height and branch factor; and both
    the persisted and the loaded tree keep all their hash links resolvable in that store.
    Hypotheses, as in the property: the element encoding round-trips and sizes fit 64 bits
    ([list_ok]); additionally no two different byte strings written share a name ([nocoll]: BLAKE2b
    collision freeness, which cannot be proved). *)
Theorem C05_persist_then_load : forall s kind bf m l t rt m',
  kcanon bf m l -> root_allh s kind m -> list_ok kind l ->
  make_root FBin m = (t, Ok (rt, m')) -> nocoll s t ->
  oks (load_mast (apply_stores s t) kind rt)
      (fun r => fst r = FBin /\ kcanon bf (snd r) l /\ root_allh (apply_stores s t) kind (snd r)) /\
  kcanon bf m' l /\ root_allh (apply_stores s t) kind m'.
Proof. exact persist_then_load. Qed.

(** The reloaded tree can be modified and persisted again with all the same guarantees, for any
    number of insert / update / delete / persist-and-reload cycles: every step succeeds and the tree
    stays the canonical tree of the abstract map. *)
Theorem C05_cycles : forall kind bf ops st l,
  pinv kind bf st l -> pconds kind bf st l ops ->
  exists st', prun kind bf st ops = Some st' /\ pinv kind bf st' (aprun l ops).
Proof. exact cycles_ok. Qed.

(** every operation keeps the hash links of a tree resolvable in its store *)
Theorem C05_insert_keeps_links : forall s kind bf m k v, root_allh s kind m ->
  okp (insert _ _ kcmp bytes_eqb (klayer bf) m k v) (root_allh s kind).
Proof. exact insert_allh. Qed.
Theorem C05_delete_keeps_links : forall s kind bf m k v, root_allh s kind m ->
  okp (delete _ _ kcmp bytes_eqb (klayer bf) m k v) (root_allh s kind).
Proof. exact delete_allh. Qed.

(** non-vacuity: the hypotheses hold for concrete keys of every kind, and a concrete three-level
    tree survives persist / reload / modify / persist / reload in the executable model *)
Local Open Scope N_scope.
Example C05_key_roundtrips :
  key_rt 0 (KInt (-12)%Z) /\ key_rt 1 (KUint 7) /\ key_rt 2 (KStr [97;98]) /\ key_rt 3 (KBytes [0;255;3]) /\
  key_rt 4 (KBlob [123;125]) /\ key_rt 5 (KUser (-3)%Z 2%nat).
Proof. unfold key_rt. vm_compute. repeat split; reflexivity. Qed.
Example C05_example :
  let r := map (fun x => fst x) (run empty_world
    [ONew 0 0 2 None 0; OIns 0 (KInt 4%Z) [49]; OIns 0 (KInt 2%Z) [50]; OIns 0 (KInt 8%Z) [51]; OIns 0 (KInt 1%Z) [52];
     OMakeRoot 0 0; OLoad 0 1 0 0; OIter 1; OIns 1 (KInt 16%Z) [53]; ODel 1 (KInt 2%Z) [50]; OMakeRoot 1 1; OLoad 1 2 0 0; OIter 2; OSize 2]) in
  nth 7%nat r ObOk = ObList [(KInt 1%Z, [52]); (KInt 2%Z, [50]); (KInt 4%Z, [49]); (KInt 8%Z, [51])] /\
  nth 12%nat r ObOk = ObList [(KInt 1%Z, [52]); (KInt 4%Z, [49]); (KInt 8%Z, [51]); (KInt 16%Z, [53])] /\
  nth 13%nat r ObOk = ObNum 4.
Proof. vm_compute. repeat split; reflexivity. Qed.

(** The root returned by MakeRoot stays loadable from every store that extends the resulting one
    (other trees keep persisting into it), with the same contents, size, height and branch factor *)
Theorem C05_root_stays_loadable : forall s s' kind bf (m : kmast) l t rt m',
  kcanon bf m l -> root_allh s kind m -> list_ok kind l ->
  make_root FBin m = (t, Ok (rt, m')) -> nocoll s t -> extends (apply_stores s t) s' ->
  oks (load_mast s' kind rt) (fun r => fst r = FBin /\ kcanon bf (snd r) l /\ root_allh s' kind (snd r)).
Proof.
  intros s s' kind bf m l t rt m' C H Hl E Hn Hx.
  exact (load_good s' kind bf l rt (good_root_mono _ s' kind bf l rt Hx (proj1 (make_root_good s kind bf m l t rt m' C H Hl E Hn)))).
Qed.

(** ... and inside histories with many trees and many stores: see C01_refines_sorted_map, whose
    supported operations include MakeRoot and LoadMast of any captured root *)
Theorem C05_in_histories : forall ops w a,
  winv2 w a -> conds w a ops ->
  map (fun x => pobs (fst x)) (run w ops) = arun2 a ops /\ winv2 (wrun w ops) (awrun2 a ops).
Proof. exact history_refines2. Qed.

(** PARTIAL: the v1marshaler (JSON) node format and the Root record's JSON form are modelled
    byte-exactly (Codec.v) and compared with the implementation on every run, but their round trip is
    not proved; caches are outside the model. *)
Print Assumptions C05_binary_roundtrip.
Print Assumptions C05_uvarint_roundtrip.
Print Assumptions C05_persist_then_load.
Print Assumptions C05_cycles.
Print Assumptions C05_insert_keeps_links.
Print Assumptions C05_delete_keeps_links.
Print Assumptions C05_root_stays_loadable.
Print Assumptions C05_in_histories.
