(** C17 - the file store never exposes or keeps a partial node.
    Statements only; the step model and its proofs are in Backend.v. *)
From Coq Require Import List NArith Bool.
From Mast Require Import Prim Backend.
Import ListNotations.

(** In the step model of the repaired Store (Stat; CreateTemp; Write; Close; Chmod; Rename), for
    EVERY point at which the write can stop - killed before the temporary file exists, killed or an
    I/O error after any number j of bytes, killed before the rename, or completed - a directory in
    which the name is absent or complete stays so: *)
Theorem C17_atomic : forall d n b tmp st, sound d n b -> sound (fst (store_fixed d n b tmp st)) n b.
Proof. exact C17_atomic_model. Qed.

(** a later Store that runs to completion makes the node complete (it is never skipped because of a
    partial file): *)
Theorem C17_repair : forall d n b tmp st tmp',
  sound d n b -> dlookup (fst (store_fixed (fst (store_fixed d n b tmp st)) n b tmp' Completed)) (FNode n) = Some b.
Proof. exact C17_repair_model. Qed.

(** and a Store that reported success left the complete node. *)
Theorem C17_success_complete : forall d n b tmp st,
  sound d n b -> snd (store_fixed d n b tmp st) = true -> dlookup d (FNode n) = None ->
  dlookup (fst (store_fixed d n b tmp st)) (FNode n) = Some b.
Proof. exact C17_success_complete_model. Qed.

(** PARTIAL: atomicity of rename(2), that a file under a ".tmp-*" name is never taken for a node, and
    the absence of torn metadata are assumptions of the step model; power loss / fsync are out of
    scope.  The model is tied to persist/file by the crash sweep (every byte offset, I/O error and
    SIGXFSZ kill) of tools/special.py crash.  The pinned sequence is refuted by C17_pinned_refuted. *)
Print Assumptions C17_atomic.
Print Assumptions C17_repair.
Print Assumptions C17_success_complete.
