(** C17 - the file store never exposes or keeps a partial node.
    Statements only; the step model and its proofs are in Backend.v. *)
From Coq Require Import List NArith Bool.
From Mast Require Import Prim Backend BackendHist.
Import ListNotations.

(** In the step model of the repaired Store (Stat; CreateTemp; Write; Close; Chmod; Rename), for
    EVERY point at which the write can stop - killed before the temporary file exists, killed or an
    I/O error after any number j of bytes, killed before the rename, or completed - a directory in
    which the name is absent or complete stays so: *)
Theorem C17_atomic : forall d n b tmp st, sound d n b -> sound (fst (store_fixed d n b tmp st)) n b.
Proof. exact C17_atomic_model. Qed.

(** a later Store that runs to completion makes the node complete (it is never skipped because of a
    partial file): *)
Theorem C17_repair : forall d n b tmp st tmp',
  sound d n b -> dlookup (fst (store_fixed (fst (store_fixed d n b tmp st)) n b tmp' Completed)) (FNode n) = Some b.
Proof. exact C17_repair_model. Qed.

(** and a Store that reported success left the complete node. *)
Theorem C17_success_complete : forall d n b tmp st,
  sound d n b -> snd (store_fixed d n b tmp st) = true -> dlookup d (FNode n) = None ->
  dlookup (fst (store_fixed d n b tmp st)) (FNode n) = Some b.
Proof. exact C17_success_complete_model. Qed.

(** Over histories: ANY sequence of Store calls on one directory - any names (each name has the one
    byte string [content n]: names are content hashes), each call stopped at any of the points above -
    starting from the empty directory.  Whatever a Load of a node name returns is the complete node, *)
Theorem C17_load_never_partial : forall (content : name -> bytes) l n x,
  dlookup (fold_left (run_att content) l []) (FNode n) = Some x -> x = content n.
Proof. exact load_never_partial. Qed.

(** every name is absent or complete after every history (from any directory where that holds), *)
Theorem C17_history_sound : forall (content : name -> bytes) l d, all_sound content d -> all_sound content (fold_left (run_att content) l d).
Proof. exact history_sound. Qed.

(** and once a Store of a name has run to completion - after whatever interrupted attempts - the node is
    there, complete, after every later history of interrupted, failed and completed calls. *)
Theorem C17_completed_store_is_durable : forall (content : name -> bytes) l1 tmp l2 n,
  dlookup (fold_left (run_att content) (l1 ++ Att n tmp Completed :: l2) []) (FNode n) = Some (content n).
Proof. exact completed_store_is_durable. Qed.

(** non-vacuity: cut after one byte, cut before the rename, an I/O error after two bytes - the name is
    still absent, a temporary file holds the one byte - and then a complete call *)
Example C17_crash_history :
  let c : name -> bytes := fun _ => [1%N; 2%N; 3%N] in
  let nm : name := [65%N] in
  let d := fold_left (run_att c) [Att nm 1 (CrashDuringWrite 1); Att nm 2 CrashBeforeRename; Att nm 3 (ErrorDuringWrite 2)] [] in
  dlookup d (FNode nm) = None /\ dlookup d (FTmp 1) = Some [1%N] /\
  dlookup (run_att c d (Att nm 4 Completed)) (FNode nm) = Some [1%N; 2%N; 3%N].
Proof. exact crash_history. Qed.

(** PARTIAL: atomicity of rename(2), that a file under a ".tmp-*" name is never taken for a node, and
    the absence of torn metadata are assumptions of the step model; power loss / fsync are out of
    scope.  The model is tied to persist/file by the crash sweep (every byte offset, I/O error and
    SIGXFSZ kill) of tools/special.py crash.  The pinned sequence is refuted by C17_pinned_refuted. *)
Print Assumptions C17_atomic.
Print Assumptions C17_repair.
Print Assumptions C17_success_complete.
Print Assumptions C17_load_never_partial.
Print Assumptions C17_history_sound.
Print Assumptions C17_completed_store_is_durable.
