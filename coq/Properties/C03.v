(** C03 - a successfully returned root is complete and durable in the store.
    Statements only; proofs are in Sched.v / Persist.v / Hist.v. *)
From Coq Require Import List NArith ZArith Bool Arith Permutation.
From Mast Require Import Prim Key Tree KeyOrder Codec Store Diff World Erase Build Spec Canon Level Inv Hist Persist Sched SchedRetry Reload Events MerkleHist SchedStore.
Import ListNotations.

(** the worker pool, over ALL interleavings of starts, flag checks and completions of the queued
    Store calls (Sched.v): flush can return only when no Store call is running or pending, *)
Theorem C03_returns_after_writes : forall n s, can_return n s -> s_exec s = [] /\ s_pending s = [].
Proof. exact returned_none_running. Qed.

(** at most 40 Store calls are in flight, *)
Theorem C03_gate : forall n bad s, reach n bad s -> length (s_pending s) + length (s_exec s) <= 40.
Proof. exact gate_bound. Qed.

(** success is reported only if every queued write was performed and succeeded, *)
Theorem C03_ok_means_all_written : forall n bad s, reach n bad s -> can_return n s -> result_ok s = true ->
  forall i, i < n -> In i (s_stored s) /\ bad i = false.
Proof. exact return_ok_complete. Qed.

(** an error is reported exactly when an executed write failed, *)
Theorem C03_err_iff_failed_write : forall n bad s, reach n bad s ->
  (result_ok s = false <-> exists i, In i (s_failed s) /\ bad i = true).
Proof. exact return_err_iff. Qed.

(** and without failing writes the outcome does not depend on the interleaving. *)
Theorem C03_schedule_independent : forall n bad s, (forall i, bad i = false) -> reach n bad s -> can_return n s ->
  result_ok s = true /\ forall i, i < n -> In i (s_stored s).
Proof. exact schedule_independent. Qed.

(** sequentially: every write issued by persisting a tree is under the name of its own bytes, and
    the node left behind carries that name *)
Theorem C03_writes_named : forall fuel f n, fits key val fuel n ->
  okf store_named (store_node fuel f n) (fun r => n_src _ _ (snd r) = Some (fst r)).
Proof. exact store_node_named. Qed.

(** persisting never changes the contents (the tree stays fully usable: it is the same map), and
    the store only grows *)
Theorem C03_persist_keeps_contents : forall bf f m l, kcanon bf m l ->
  oks (make_root f m) (fun r => kcanon bf (snd r) l /\ r_size (fst r) = N.of_nat (length l)).
Proof. exact k_make_root_ok. Qed.
Theorem C03_store_monotone : forall t s h b, Store.lookup s h = Some b -> Store.lookup (apply_stores s t) h = Some b.
Proof. intros t s h b. exact (apply_stores_keeps t s h b). Qed.

(** The store a flush leaves behind does not depend on the order in which its writes complete: with
    content addressing ([nocoll]: no two different byte strings under one name) a name is bound after
    the writes exactly if it was bound before or is one of the writes, to those bytes; so every
    permutation of the same writes - every completion order the worker pool allows - yields the same
    store, and it is the store of the sequential model *)
Theorem C03_bound_after_writes : forall t s h b, nocoll s t ->
  (Store.lookup (apply_stores s t) h = Some b <-> Store.lookup s h = Some b \/ In (EStore h b) t).
Proof. exact apply_stores_lookup. Qed.
Theorem C03_store_independent_of_completion_order : forall s t t', Permutation t t' -> nocoll s t ->
  nocoll s t' /\ forall h, Store.lookup (apply_stores s t') h = Store.lookup (apply_stores s t) h.
Proof. exact store_order_independent. Qed.

(** every write a persist issues is under the name of its bytes, whatever the outcome of the persist *)
Theorem C03_every_write_named : forall f (m : kmast), evb store_named (make_root f m).
Proof. exact make_root_evn. Qed.

(** retries (SchedRetry.v): a version of N nodes, [dirty] those the tree still holds as unpersisted,
    [stored] those in the store; an attempt queues the dirty nodes into the pool above (any failing
    writes, any interleaving), marks them clean only when no write failed and otherwise leaves
    the tree's bookkeeping as it was.  After ANY number of failed and successful attempts, an attempt
    that reports success leaves every node of the version in the store, *)
Theorem C03_success_only_when_all_stored : forall N r0 r r',
  covered N r0 -> attempts r0 r -> attempt r true r' -> forall i, i < N -> In i (stored r').
Proof. exact success_means_all_stored. Qed.

(** at every point in between no node is clean but unwritten, the store only grows, *)
Theorem C03_never_clean_but_unwritten : forall N r r', attempts r r' -> covered N r -> covered N r'.
Proof. exact attempts_covered. Qed.

Theorem C03_retries_keep_the_store : forall r r', attempts r r' -> forall i, In i (stored r) -> In i (stored r').
Proof. exact attempts_store_grows. Qed.

(** and a failed attempt leaves the set of nodes to write as it was (the next one queues them all again). *)
Theorem C03_failure_keeps_dirty_set : forall r r', attempt r false r' -> dirty r' = dirty r.
Proof. exact failure_keeps_dirty. Qed.

(** non-vacuity: two nodes, the first attempt writes one and fails on the other, the second succeeds *)
Example C03_retry_example :
  exists r1 r2 : rst, (attempt (RSt (0 :: 1 :: nil) nil) false r1) /\ (attempt r1 true r2) /\ (stored r1 = 0 :: nil) /\
    (dirty r1 = 0 :: 1 :: nil) /\ (dirty r2 = nil) /\ (covered 2 (RSt (0 :: 1 :: nil) nil)).
Proof. exact retry_after_failure. Qed.

(** PARTIAL: the faithfulness of the LTS to goroutines, channels and sync.WaitGroup, of the attempt
    relation to flush's commit closures (run only when firstStoreError is nil), and the per-store
    cache prefix are established by the schedule / fault engine against the implementation
    (tools/special.py sched: every failing subset, then reads of the tree and retries), not by
    these theorems. *)
Print Assumptions C03_returns_after_writes.
Print Assumptions C03_gate.
Print Assumptions C03_ok_means_all_written.
Print Assumptions C03_err_iff_failed_write.
Print Assumptions C03_schedule_independent.
Print Assumptions C03_writes_named.
Print Assumptions C03_persist_keeps_contents.
Print Assumptions C03_store_monotone.
Print Assumptions C03_bound_after_writes.
Print Assumptions C03_store_independent_of_completion_order.
Print Assumptions C03_every_write_named.
Print Assumptions C03_success_only_when_all_stored.
Print Assumptions C03_never_clean_but_unwritten.
Print Assumptions C03_retries_keep_the_store.
Print Assumptions C03_failure_keeps_dirty_set.
