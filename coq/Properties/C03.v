(** C03 - a successfully returned root is complete and durable in the store.
    Statements only; proofs are in Sched.v / Persist.v / Hist.v. *)
From Coq Require Import List NArith ZArith Bool Arith Permutation.
From Mast Require Import Prim Key Tree KeyOrder Codec Store Diff World Erase Build Spec Canon Level Inv Hist Persist Sched Reload Events MerkleHist SchedStore.
Import ListNotations.

(** the worker pool, over ALL interleavings of starts, flag checks and completions of the queued
    Store calls (Sched.v): flush can return only when no Store call is running or pending, *)
Theorem C03_returns_after_writes : forall n s, can_return n s -> s_exec s = [] /\ s_pending s = [].
Proof. exact returned_none_running. Qed.

(** at most 40 Store calls are in flight, *)
Theorem C03_gate : forall n bad s, reach n bad s -> length (s_pending s) + length (s_exec s) <= 40.
Proof. exact gate_bound. Qed.

(** success is reported only if every queued write was performed and succeeded, *)
Theorem C03_ok_means_all_written : forall n bad s, reach n bad s -> can_return n s -> result_ok s = true ->
  forall i, i < n -> In i (s_stored s) /\ bad i = false.
Proof. exact return_ok_complete. Qed.

(** an error is reported exactly when an executed write failed, *)
Theorem C03_err_iff_failed_write : forall n bad s, reach n bad s ->
  (result_ok s = false <-> exists i, In i (s_failed s) /\ bad i = true).
Proof. exact return_err_iff. Qed.

(** and without failing writes the outcome does not depend on the interleaving. *)
Theorem C03_schedule_independent : forall n bad s, (forall i, bad i = false) -> reach n bad s -> can_return n s ->
  result_ok s = true /\ forall i, i < n -> In i (s_stored s).
Proof. exact schedule_independent. Qed.

(** sequentially: every write issued by persisting a tree is under the name of its own bytes, and
    the node left behind carries that name *)
Theorem C03_writes_named : forall fuel f n, fits key val fuel n ->
  okf store_named (store_node fuel f n) (fun r => n_src _ _ (snd r) = Some (fst r)).
Proof. exact store_node_named. Qed.

(** persisting never changes the contents (the tree stays fully usable: it is the same map), and
    the store only grows *)
Theorem C03_persist_keeps_contents : forall bf f m l, kcanon bf m l ->
  oks (make_root f m) (fun r => kcanon bf (snd r) l /\ r_size (fst r) = N.of_nat (length l)).
Proof. exact k_make_root_ok. Qed.
Theorem C03_store_monotone : forall t s h b, Store.lookup s h = Some b -> Store.lookup (apply_stores s t) h = Some b.
Proof. intros t s h b. exact (apply_stores_keeps t s h b). Qed.

(** The store a flush leaves behind does not depend on the order in which its writes complete: with
    content addressing ([nocoll]: no two different byte strings under one name) a name is bound after
    the writes exactly if it was bound before or is one of the writes, to those bytes; so every
    permutation of the same writes - every completion order the worker pool allows - yields the same
    store, and it is the store of the sequential model *)
Theorem C03_bound_after_writes : forall t s h b, nocoll s t ->
  (Store.lookup (apply_stores s t) h = Some b <-> Store.lookup s h = Some b \/ In (EStore h b) t).
Proof. exact apply_stores_lookup. Qed.
Theorem C03_store_independent_of_completion_order : forall s t t', Permutation t t' -> nocoll s t ->
  nocoll s t' /\ forall h, Store.lookup (apply_stores s t') h = Store.lookup (apply_stores s t) h.
Proof. exact store_order_independent. Qed.

(** every write a persist issues is under the name of its bytes, whatever the outcome of the persist *)
Theorem C03_every_write_named : forall f (m : kmast), evb store_named (make_root f m).
Proof. exact make_root_evn. Qed.

(** PARTIAL: the LTS's faithfulness to goroutines, channels and sync.WaitGroup, the retry
    behaviour after a failed write and the per-store cache prefix are established by the schedule /
    fault engine against the implementation (tools/special.py sched), not by these theorems. *)
Print Assumptions C03_returns_after_writes.
Print Assumptions C03_gate.
Print Assumptions C03_ok_means_all_written.
Print Assumptions C03_err_iff_failed_write.
Print Assumptions C03_schedule_independent.
Print Assumptions C03_writes_named.
Print Assumptions C03_persist_keeps_contents.
Print Assumptions C03_store_monotone.
Print Assumptions C03_bound_after_writes.
Print Assumptions C03_store_independent_of_completion_order.
Print Assumptions C03_every_write_named.
