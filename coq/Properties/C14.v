(** C14 - serialized format, hashing inputs, key order and layers are stable.
    Statements only; proofs / vectors are in Golden.v, Codec.v, Key.v, KeyOrder.v. *)
From Coq Require Import List NArith ZArith Bool.
From Mast Require Import Prim Key Tree KeyOrder Codec Store Golden DecRT.
Import ListNotations.
Local Open Scope N_scope.

(** the layout of the compact binary format: uvarint count, then uvarint length + body per element,
    keys first, then values, then links; the link list is a single 0 when every link is nil *)
Theorem C14_binary_layout : forall keys vals links,
  encode_bin keys vals links =
  (uvarint (N.of_nat (length keys)) ++ flat_map (fun b => uvarint (len b) ++ b) keys) ++
  (uvarint (N.of_nat (length vals)) ++ flat_map (fun b => uvarint (len b) ++ b) vals) ++
  (if all_none links then [0] else
     uvarint (N.of_nat (length links)) ++ flat_map (fun l => uvarint (len (link_body l)) ++ link_body l) links).
Proof.
  intros. unfold encode_bin, enc_bodies. destruct (all_none links); [reflexivity|].
  rewrite map_length. do 2 f_equal. f_equal.
  rewrite !flat_map_concat_map, map_map. reflexivity.
Qed.

(** the defaults of a new tree: branch factor 16, compact binary format, no link, size 0, height 0 *)
Theorem C14_defaults : new_root 0 None = Root None 0 0 16 fmt_bin /\
  root_json (new_root 0 None) =
  [123;34;76;105;110;107;34;58;110;117;108;108;44;34;83;105;122;101;34;58;48;44;34;72;101;105;103;104;116;34;58;48;44;
   34;66;114;97;110;99;104;70;97;99;116;111;114;34;58;49;54;44;34;78;111;100;101;70;111;114;109;97;116;34;58;34;118;49;46;49;46;53;98;105;110;97;114;121;34;125].
Proof. split; vm_compute; reflexivity. Qed.

(** the default key order is a strict total order on every key kind *)
Theorem C14_key_order :
  (forall a b, kcmp a b = Eq <-> a = b) /\ (forall a b, kcmp b a = CompOpp (kcmp a b)) /\
  (forall a b c, kcmp a b = Lt -> kcmp b c = Lt -> kcmp a c = Lt).
Proof. exact (conj kcmp_eq (conj kcmp_antisym kcmp_trans)). Qed.

(** the layer of a signed key is the layer of its absolute value; layers never exceed 64 for the
    built-in kinds *)
Theorem C14_int_layer_abs : forall bf z, klayer bf (KInt z) = klayer bf (KUint (Z.abs_N z)).
Proof. reflexivity. Qed.

(** frozen reference vectors: 70 stored nodes of both formats (name = hash of bytes; re-encoding the
    decoded node gives the same bytes), 400 (key, branch factor, layer) rows over all built-in key
    kinds and branch factors 2,3,4,10,16,17,256, and 150 key comparisons, all produced once by the
    pinned code and checked against the model by vm_compute.  A finite check against frozen data. *)
(** the narrower built-in integer types (int8/16/32, uint8/16/32) are layered like every integer and
    ordered by their JSON text - a strict total order in which 10 comes before 9 (frozen behaviour:
    DefaultKeyCompare has no case for them) *)
Theorem C14_narrow_layer_is_int_layer : forall bf z, narrow_layer bf true z = klayer bf (KInt z).
Proof. reflexivity. Qed.
Theorem C14_narrow_order_eq : forall x y, (Z.abs x < Z.of_N ten40)%Z -> (Z.abs y < Z.of_N ten40)%Z ->
  (narrow_cmp x y = Eq <-> x = y).
Proof.
  intros x y Hx Hy. unfold narrow_cmp. rewrite bytes_cmp_eq. split; [|intros ->; reflexivity].
  intros E. pose proof (parse_dec_Z x Hx) as Px. rewrite E, (parse_dec_Z y Hy) in Px. inversion Px. reflexivity.
Qed.
Theorem C14_narrow_order_antisym : forall x y, narrow_cmp y x = CompOpp (narrow_cmp x y).
Proof. intros x y. apply bytes_cmp_antisym. Qed.
Theorem C14_narrow_order_trans : forall x y z, narrow_cmp x y = Lt -> narrow_cmp y z = Lt -> narrow_cmp x z = Lt.
Proof. intros x y z. apply bytes_cmp_trans. Qed.
Example C14_narrow_order_is_text_order : narrow_cmp 10 9 = Lt /\ narrow_cmp (-1) 0 = Lt /\ narrow_cmp 100 20 = Lt.
Proof. vm_compute. repeat split; reflexivity. Qed.

Theorem C14_golden_vectors :
  forallb check_node golden_nodes = true /\ forallb check_layer golden_layers = true /\
  forallb check_cmp golden_cmps = true /\
  (length golden_nodes, length golden_layers, length golden_cmps) = (70, 400, 150)%nat.
Proof. exact (conj golden_nodes_ok (conj golden_layers_ok (conj golden_cmps_ok golden_counts))). Qed.

Theorem C14_crc64_ecma_vector : crc64 [97] = 3675645893302102789.
Proof. exact crc64_a. Qed.

Print Assumptions C14_binary_layout.
Print Assumptions C14_defaults.
Print Assumptions C14_key_order.
Print Assumptions C14_int_layer_abs.
Print Assumptions C14_golden_vectors.
Print Assumptions C14_crc64_ecma_vector.
Print Assumptions C14_narrow_layer_is_int_layer.
Print Assumptions C14_narrow_order_eq.
Print Assumptions C14_narrow_order_antisym.
Print Assumptions C14_narrow_order_trans.
