(** C16 - point operations read only the search path (trees need not fit in memory).
    Statements only; proofs are in Cost.v / CostK.v.  [lb m n] says that the trace of m contains at
    most n Load events, whatever the outcome; the bounds hold for ALL trees (no invariant is needed:
    they follow from the recursion structure), every key type and every layer function.  The model
    has no node cache: a Load event is a read of the store. *)
From Coq Require Import List NArith ZArith Bool.
From Mast Require Import Prim Key Tree Codec Store Cost CostK Cursor CostCur.
Import ListNotations.

Section GENERIC.
Variables (K V : Type) (cmp : K -> K -> comparison) (veq : V -> V -> bool) (layer : K -> nat).

(** a lookup reads at most height + 1 nodes *)
Theorem C16_get : forall m k, lb (get K V cmp layer m k) (S (m_height K V m)).
Proof. exact (get_loads K V cmp layer). Qed.

(** an insert reads at most 2 * (height + 1) nodes (even when the height changes: the grow loop works
    on in-memory nodes) *)
Theorem C16_insert : forall m k v, lb (insert K V cmp veq layer m k v) (2 * S (m_height K V m)).
Proof. exact (insert_loads K V cmp veq layer). Qed.

(** a delete that does not change the height reads at most 2 * (height + 1) nodes *)
Theorem C16_delete : forall m m' k v t,
  delete K V cmp veq layer m k v = (t, Ok m') -> m_height K V m' = m_height K V m ->
  nloads t <= 2 * S (m_height K V m).
Proof. exact (delete_loads K V cmp veq layer). Qed.

(** cloning reads at most the top node *)
Theorem C16_clone : forall m, lb (clone K V m) 1.
Proof. exact (clone_loads K V). Qed.

(** the second recursive call of split (on the right-hand remainder) never reads a node, and split
    reads at most one node per level; merge at most two per level *)
Theorem C16_split : forall fuel k n, lb (split K V cmp fuel k n) fuel.
Proof. exact (split_loads K V cmp). Qed.
Theorem C16_merge : forall fuel a b, lb (merge K V fuel a b) (2 * fuel).
Proof. exact (merge_loads K V). Qed.
End GENERIC.

(** cursor steps: Min, Max and Ceil read at most height + 1 nodes, Forward and Backward at most
    height + 2, from any position on any tree, whatever the outcome (fuel F = height + 1) *)
Section CURSOR.
Variables (K V : Type) (cmp : K -> K -> comparison).
Theorem C16_cursor_min : forall F p, lb (cur_min K V F p) F.
Proof. exact (cur_min_loads K V). Qed.
Theorem C16_cursor_max : forall F p, lb (cur_max K V F p) F.
Proof. exact (cur_max_loads K V). Qed.
Theorem C16_cursor_ceil : forall F k p, lb (cur_ceil K V cmp F k p) F.
Proof. exact (cur_ceil_loads K V cmp). Qed.
Theorem C16_cursor_forward : forall F p, lb (cur_forward K V F p) (S F).
Proof. exact (cur_forward_loads K V). Qed.
Theorem C16_cursor_backward : forall F p, lb (cur_backward K V F p) (S F).
Proof. exact (cur_backward_loads K V). Qed.
End CURSOR.

(** opening a persisted version reads at most its top node *)
Theorem C16_load_mast : forall s kind r, lb (load_mast s kind r) 1.
Proof. exact load_mast_loads. Qed.

Print Assumptions C16_get.
Print Assumptions C16_insert.
Print Assumptions C16_delete.
Print Assumptions C16_clone.
Print Assumptions C16_split.
Print Assumptions C16_merge.
Print Assumptions C16_load_mast.
Print Assumptions C16_cursor_min.
Print Assumptions C16_cursor_max.
Print Assumptions C16_cursor_ceil.
Print Assumptions C16_cursor_forward.
Print Assumptions C16_cursor_backward.
