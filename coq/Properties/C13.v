(** C13 - persisting is incremental, writes no garbage, and clean means unchanged.
    Statements only; proofs are in Persist.v / Hist.v. *)
From Coq Require Import List NArith ZArith Bool.
From Mast Require Import Prim Key Tree KeyOrder Codec Store Diff World Erase Build Spec Canon Level Inv Hist Persist.
Import ListNotations.

(** persisting a tree that was not modified since it was loaded or persisted writes nothing at all
    and returns the same root *)
Theorem C13_noop : forall f m h n,
  m_root _ _ m = LHash h n -> n_dirty _ _ n = false -> n_src _ _ n = Some h -> is_empty _ _ n = false ->
  okf no_store (flush f m) (fun r => fst r = Some h /\ m_root _ _ (snd r) = LHash h n).
Proof. exact flush_clean_noop. Qed.

(** every write is of a node of the persisted version, under the name of its bytes *)
Theorem C13_writes_named : forall fuel f n, fits key val fuel n ->
  okf store_named (store_node fuel f n) (fun r => n_src _ _ (snd r) = Some (fst r)).
Proof. exact store_node_named. Qed.

(** persisting does not change the contents *)
Theorem C13_persist_keeps_contents : forall bf f m l, kcanon bf m l ->
  oks (make_root f m) (fun r => kcanon bf (snd r) l /\ r_size (fst r) = N.of_nat (length l)).
Proof. exact k_make_root_ok. Qed.

(** PARTIAL: the locality clause (only nodes whose range holds a modified key are rewritten), the
    2*height+2 bound per modified key and the IsDirty clause are decided by the oracle on the
    implementation's recorded Store calls (tools/oracle.py check_persist) and by the one-sided
    correspondence of store names with the model; they are not proved as theorems yet. *)
Print Assumptions C13_noop.
Print Assumptions C13_writes_named.
Print Assumptions C13_persist_keeps_contents.
