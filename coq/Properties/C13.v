(** C13 - persisting is incremental, writes no garbage, and clean means unchanged.
    Statements only; proofs are in Persist.v / Hist.v. *)
From Coq Require Import List NArith ZArith Bool.
From Mast Require Import Prim Key Tree KeyOrder Codec Store Diff World Erase Build Spec Canon Links Level Inv Hist Persist Reload DiffLinks PersistCount CostW WorldInv Clean CleanHist.
Import ListNotations.

(** persisting a tree that was not modified since it was loaded or persisted writes nothing at all
    and returns the same root *)
Theorem C13_noop : forall f m h n,
  m_root _ _ m = LHash h n -> n_dirty _ _ n = false -> n_src _ _ n = Some h -> is_empty _ _ n = false ->
  okf no_store (flush f m) (fun r => fst r = Some h /\ m_root _ _ (snd r) = LHash h n).
Proof. exact flush_clean_noop. Qed.

(** every write is of a node of the persisted version, under the name of its bytes *)
Theorem C13_writes_named : forall fuel f n, fits key val fuel n ->
  okf store_named (store_node fuel f n) (fun r => n_src _ _ (snd r) = Some (fst r)).
Proof. exact store_node_named. Qed.

(** persisting does not change the contents *)
Theorem C13_persist_keeps_contents : forall bf f m l, kcanon bf m l ->
  oks (make_root f m) (fun r => kcanon bf (snd r) l /\ r_size (fst r) = N.of_nat (length l)).
Proof. exact k_make_root_ok. Qed.

(** What a persist writes: exactly one Store event for every in-memory node that is not a clean copy
    of a stored node ([dcount]: nothing at or below a clean sourced node, nothing behind a hash link:
    none of the last version's nodes is rewritten unless it was replaced by a modified copy), and every
    name written is a name the returned root reaches (no garbage). *)
Theorem C13_writes_exactly_the_unsaved_nodes : forall fuel f (n : knode),
  okt (store_node fuel f n)
      (fun t r => length (stored t) = dcount n /\ incl (stored t) (names_l key val (LHash (fst r) (snd r)))).
Proof. exact store_node_count. Qed.

(** IsDirty: a tree that reports itself clean and holds its root by pointer holds exactly the stored
    node it was loaded from or persisted as (so its contents are that version's) *)
Theorem C13_clean_root_is_the_stored_version : forall fmt s kind (m : kmast) n h,
  root_allh fmt s kind m -> is_dirty _ _ m = false -> m_root _ _ m = LPtr n -> n_src _ _ n = Some h -> sto fmt s kind h n.
Proof.
  intros fmt s kind m n h Ha Hd Er Hs. unfold root_allh in Ha. rewrite Er in Ha. unfold is_dirty in Hd. rewrite Er in Hd.
  inversion Ha as [|c Hc|]; subst. destruct n as [d sr l0 es]. cbn [n_dirty n_src] in Hd, Hs. subst d sr.
  inversion Hc as [? ? ? ? _ _ Hcl]; subst. exact (Hcl eq_refl h eq_refl).
Qed.

(** "A tree reports itself clean only if its contents equal that version."
    Every change leaves the tree reporting dirty: an Insert that succeeds returns the very same tree
    (same value already there) or a tree with a freshly built (dirty) root, also after growing; a
    Delete that succeeds always does, also after shrinking and when the tree becomes empty. *)
Section DIRTY.
Variables (K V : Type) (cmp : K -> K -> comparison) (veq : V -> V -> bool) (layer : K -> nat).
Theorem C13_insert_leaves_dirty : forall (m : mast K V) k v,
  okp (insert _ _ cmp veq layer m k v) (fun m' => m' = m \/ is_dirty _ _ m' = true).
Proof. exact (insert_dirty K V cmp veq layer). Qed.
Hypothesis cmp_eq : forall a b, cmp a b = Eq <-> a = b.
Hypothesis cmp_antisym : forall a b, cmp b a = CompOpp (cmp a b).
Hypothesis cmp_trans : forall a b c, cmp a b = Lt -> cmp b c = Lt -> cmp a c = Lt.
Hypothesis veq_eq : forall x y, veq x y = true <-> x = y.
Hypothesis layer_bound : forall k, layer k < max_layer_fuel.
Theorem C13_delete_leaves_dirty : forall bf (m : mast K V) l k v,
  canon K V cmp layer bf m l -> Spec.lookup K V cmp k l = Some v ->
  okp (delete _ _ cmp veq layer m k v) (fun m' => is_dirty _ _ m' = true).
Proof. exact (delete_dirty K V cmp veq layer cmp_eq cmp_antisym cmp_trans veq_eq layer_bound). Qed.
End DIRTY.

(** ... hence, in every world reached by a history (new / insert / delete / clone / persist / reload /
    reads, any number of trees and stores; side conditions [conds]): a tree that reports itself clean
    has exactly the contents it had when it was created, loaded or last persisted ([brun] tracks that
    version per tree) *)
Theorem C13_clean_means_unchanged : forall ops t tr x,
  conds empty_world ([], []) ops ->
  aget (w_trees (wrun empty_world ops)) t = Some tr -> aget (fst (awrun2 ([], []) ops)) t = Some x ->
  is_dirty _ _ (t_m tr) = false -> bget (brun [] ([], []) ops) t = Some (at_l x).
Proof. exact clean_means_unchanged. Qed.

(** "At most 2*height+2 nodes per modified key": an Insert that leaves the height as it is adds at
    most 2*height pointer-reachable nodes ([pcount] counts what a persist can have to write: the
    nodes held by pointer; behind a hash link there is one node once it is loaded) ... *)
Theorem C13_insert_adds_at_most_2h : forall (K V : Type) (cmp : K -> K -> comparison) (veq : V -> V -> bool)
    (P : name -> node K V -> Prop),
  (forall h c, P h c -> allh K V P c) -> (forall h c, P h c -> pcount K V c = 1) ->
  forall (layer : K -> nat) (m : mast K V) k v, allh_l K V P (m_root _ _ m) ->
  okp (insert _ _ cmp veq layer m k v)
      (fun m' => m_height _ _ m' = m_height _ _ m ->
                 pcount_l K V (m_root _ _ m') <= Nat.max 1 (pcount_l K V (m_root _ _ m)) + 2 * m_height _ _ m).
Proof. exact insert_count. Qed.

(** ... a Delete (merge) at most height ... *)
Theorem C13_delete_adds_at_most_h : forall (K V : Type) (cmp : K -> K -> comparison) (veq : V -> V -> bool)
    (P : name -> node K V -> Prop),
  (forall h c, P h c -> allh K V P c) -> (forall h c, P h c -> pcount K V c = 1) ->
  forall (layer : K -> nat) (m : mast K V) k v, allh_l K V P (m_root _ _ m) ->
  okp (delete _ _ cmp veq layer m k v)
      (fun m' => m_height _ _ m' = m_height _ _ m ->
                 pcount_l K V (m_root _ _ m') <= Nat.max 1 (pcount_l K V (m_root _ _ m)) + m_height _ _ m).
Proof. exact delete_count. Qed.

(** ... so one Insert (new key or new value) into a freshly loaded version, followed by a persist,
    emits at most 2*height+1 Store events, one Delete at most height+1 *)
Theorem C13_one_insert_writes_at_most_2h_plus_1 : forall fmt s kind bf (m m' : kmast) k v t fuel f,
  root_allh fmt s kind m -> (exists h c, m_root _ _ m = LHash h c) ->
  insert _ _ kcmp bytes_eqb (klayer bf) m k v = (t, Ok m') -> m_height _ _ m' = m_height _ _ m ->
  forall n', m_root _ _ m' = LPtr n' ->
  okt (store_node fuel f n') (fun ts _ => length (stored ts) <= 2 * m_height _ _ m + 1).
Proof. exact insert_then_persist_writes. Qed.
Theorem C13_one_delete_writes_at_most_h_plus_1 : forall fmt s kind bf (m m' : kmast) k v t fuel f,
  root_allh fmt s kind m -> (exists h c, m_root _ _ m = LHash h c) ->
  delete _ _ kcmp bytes_eqb (klayer bf) m k v = (t, Ok m') -> m_height _ _ m' = m_height _ _ m ->
  forall n', m_root _ _ m' = LPtr n' ->
  okt (store_node fuel f n') (fun ts _ => length (stored ts) <= m_height _ _ m + 1).
Proof. exact delete_then_persist_writes. Qed.

(** ... and a batch: n >= 1 successful Inserts and Deletes on a freshly loaded version, none of which
    changes the height ([chain]), then one persist: at most 1 + 2*height*n Store events, within
    (2*height+2) per modified key *)
Theorem C13_batch_writes_at_most_2h_plus_2_per_key : forall fmt s kind bf (m m' : kmast) ops fuel f,
  root_allh fmt s kind m -> (exists h c, m_root _ _ m = LHash h c) -> chain bf m ops m' ->
  forall n', m_root _ _ m' = LPtr n' ->
  okt (store_node fuel f n') (fun ts _ => length (stored ts) <= 1 + 2 * m_height _ _ m * length ops
                                        /\ (ops <> [] -> length (stored ts) <= (2 * m_height _ _ m + 2) * length ops)).
Proof. exact batch_then_persist_writes. Qed.

(** non-vacuity: a version persisted and reloaded (height 1, root held by hash), then an Insert of a
    new key and a Delete, neither changing the height: the hypotheses of the batch theorem hold *)
Definition ex13_ops : list op :=
  [ONew 0%N 0%N 2%N None 1%N; OIns 0%N (KUint 1%N) [49%N]; OIns 0%N (KUint 2%N) [50%N]; OIns 0%N (KUint 4%N) [51%N]; OIns 0%N (KUint 5%N) [52%N];
   OIns 0%N (KUint 7%N) [53%N]; OMakeRoot 0%N 0%N; OLoad 0%N 1%N 0%N 1%N].
Definition ex13_batch : list wop := [WIns (KUint 9%N) [57%N]; WDel (KUint 5%N) [52%N]].
Example C13_example_batch :
  exists tr fmt s kind m2 n',
    aget (w_trees (wrun empty_world ex13_ops)) 1%N = Some tr /\
    root_allh fmt s kind (t_m tr) /\ (exists h c, m_root _ _ (t_m tr) = LHash h c) /\ 0 < m_height _ _ (t_m tr) /\
    chain 2%N (t_m tr) ex13_batch m2 /\ m_root _ _ m2 = LPtr n'.
Proof.
  assert (Hc : conds empty_world ([], []) ex13_ops) by (apply condsb_ok; vm_compute; reflexivity).
  destruct (history_refines2 ex13_ops empty_world ([], []) winv2_empty Hc) as [_ [Ht _]]. specialize (Ht 1%N).
  let v := eval vm_compute in (aget (w_trees (wrun empty_world ex13_ops)) 1%N) in
    assert (E1 : aget (w_trees (wrun empty_world ex13_ops)) 1%N = v) by (vm_compute; reflexivity).
  let v := eval vm_compute in (aget (fst (awrun2 ([], []) ex13_ops)) 1%N) in
    assert (E2 : aget (fst (awrun2 ([], []) ex13_ops)) 1%N = v) by (vm_compute; reflexivity).
  rewrite E1, E2 in Ht. destruct Ht as (_ & _ & Hall & _).
  eexists _, _, _, _, _, _. split; [exact E1|]. split; [exact Hall|]. cbn [t_m].
  split; [eexists _, _; reflexivity|]. split; [cbn [m_height]; apply Nat.lt_0_succ|].
  split.
  - eapply chain_cons; [vm_compute; reflexivity|reflexivity|].
    eapply chain_cons; [vm_compute; reflexivity|reflexivity|]. apply chain_nil.
  - reflexivity.
Qed.

(** PARTIAL: updates that change the height (the whole tree is rebuilt: the statement excludes them),
    and that the unsaved nodes are only those whose key range holds a modified key, are decided by the
    oracle on the implementation's recorded Store calls (tools/oracle.py check_persist) and by the
    one-sided correspondence of store names with the model; they are not proved as theorems. *)
Print Assumptions C13_noop.
Print Assumptions C13_insert_adds_at_most_2h.
Print Assumptions C13_one_insert_writes_at_most_2h_plus_1.
Print Assumptions C13_delete_adds_at_most_h.
Print Assumptions C13_one_delete_writes_at_most_h_plus_1.
Print Assumptions C13_batch_writes_at_most_2h_plus_2_per_key.
Print Assumptions C13_insert_leaves_dirty.
Print Assumptions C13_delete_leaves_dirty.
Print Assumptions C13_clean_means_unchanged.
Print Assumptions C13_writes_exactly_the_unsaved_nodes.
Print Assumptions C13_clean_root_is_the_stored_version.
Print Assumptions C13_writes_named.
Print Assumptions C13_persist_keeps_contents.
