(** C13 - persisting is incremental, writes no garbage, and clean means unchanged.
    Statements only; proofs are in Persist.v / Hist.v. *)
From Coq Require Import List NArith ZArith Bool.
From Mast Require Import Prim Key Tree KeyOrder Codec Store Diff World Erase Build Spec Canon Links Level Inv Hist Persist Reload DiffLinks PersistCount.
Import ListNotations.

(** persisting a tree that was not modified since it was loaded or persisted writes nothing at all
    and returns the same root *)
Theorem C13_noop : forall f m h n,
  m_root _ _ m = LHash h n -> n_dirty _ _ n = false -> n_src _ _ n = Some h -> is_empty _ _ n = false ->
  okf no_store (flush f m) (fun r => fst r = Some h /\ m_root _ _ (snd r) = LHash h n).
Proof. exact flush_clean_noop. Qed.

(** every write is of a node of the persisted version, under the name of its bytes *)
Theorem C13_writes_named : forall fuel f n, fits key val fuel n ->
  okf store_named (store_node fuel f n) (fun r => n_src _ _ (snd r) = Some (fst r)).
Proof. exact store_node_named. Qed.

(** persisting does not change the contents *)
Theorem C13_persist_keeps_contents : forall bf f m l, kcanon bf m l ->
  oks (make_root f m) (fun r => kcanon bf (snd r) l /\ r_size (fst r) = N.of_nat (length l)).
Proof. exact k_make_root_ok. Qed.

(** What a persist writes: exactly one Store event for every in-memory node that is not a clean copy
    of a stored node ([dcount]: nothing at or below a clean sourced node, nothing behind a hash link:
    none of the last version's nodes is rewritten unless it was replaced by a modified copy), and every
    name written is a name the returned root reaches (no garbage). *)
Theorem C13_writes_exactly_the_unsaved_nodes : forall fuel f (n : knode),
  okt (store_node fuel f n)
      (fun t r => length (stored t) = dcount n /\ incl (stored t) (names_l key val (LHash (fst r) (snd r)))).
Proof. exact store_node_count. Qed.

(** IsDirty: a tree that reports itself clean and holds its root by pointer holds exactly the stored
    node it was loaded from or persisted as (so its contents are that version's) *)
Theorem C13_clean_root_is_the_stored_version : forall s kind (m : kmast) n h,
  root_allh s kind m -> is_dirty _ _ m = false -> m_root _ _ m = LPtr n -> n_src _ _ n = Some h -> sto s kind h n.
Proof.
  intros s kind m n h Ha Hd Er Hs. unfold root_allh in Ha. rewrite Er in Ha. unfold is_dirty in Hd. rewrite Er in Hd.
  inversion Ha as [|c Hc|]; subst. destruct n as [d sr l0 es]. cbn [n_dirty n_src] in Hd, Hs. subst d sr.
  inversion Hc as [? ? ? ? _ _ Hcl]; subst. exact (Hcl eq_refl h eq_refl).
Qed.

(** PARTIAL: that the unsaved nodes are only those whose key range holds a modified key, and at most
    2*height+2 of them per modified key, is decided by the oracle on the implementation's recorded
    Store calls (tools/oracle.py check_persist) and by the one-sided correspondence of store names
    with the model; it is not proved as a theorem yet. *)
Print Assumptions C13_noop.
Print Assumptions C13_writes_exactly_the_unsaved_nodes.
Print Assumptions C13_clean_root_is_the_stored_version.
Print Assumptions C13_writes_named.
Print Assumptions C13_persist_keeps_contents.
