(** C15 - diff cost is proportional to the change, not to the tree.
    Statements only; proofs are in Persist.v. *)
From Coq Require Import List NArith ZArith Bool.
From Mast Require Import Prim Key Tree KeyOrder Codec Store Diff World Erase Build Spec Canon Level Inv Hist Persist Events DiffLinks DiffReads.
Import ListNotations.

(** diffing a persisted version with itself reads no node at all and reports nothing *)
Theorem C15_same_version_no_loads : forall m h n,
  m_root _ _ m = LHash h n -> diff _ _ kcmp bytes_eqb (klayer (m_bf _ _ m)) (Some m) m = ([], Ok []).
Proof. exact diff_same_version. Qed.

(** equal links on both stacks are popped without any event: the step that meets them emits no
    Load and pushes nothing *)
Theorem C15_equal_links_skipped : forall fuel mo mn h c c' os ns,
  diff_one key val kcmp bytes_eqb (klayer 2) fuel (DState _ _ mo mn (ILink _ _ (LHash h c) :: os) (ILink _ _ (LHash h c') :: ns))
  = ([], Ok (DNone _ _, DState _ _ mo mn os ns)).
Proof.
  intros. cbn [diff_one d_old d_new d_mo d_mn link_eq]. rewrite bytes_eqb_refl. reflexivity.
Qed.

(** Whatever the two trees are - any key type, contents, heights, residency; any outcome - every node
    the diff loads is a node that one of the two versions reaches: it never reads outside them.
    (The replacement for the refuted 2*D+2 bound that is proved: reads are confined to the two
    versions, equal links are skipped unloaded, and one version against itself reads nothing.) *)
Theorem C15_reads_within_the_two_versions : forall (K V : Type) (cmp : K -> K -> comparison) (veq : V -> V -> bool) (layer : K -> nat)
    (o : option (mast K V)) (n : mast K V),
  Forall (fun e => match e with ELoad h => In h (names_l K V (m_root _ _ n) ++ onames K V o) | _ => True end)
         (fst (diff _ _ cmp veq layer o n)).
Proof. exact diff_reads. Qed.

(** The 2*D+2 bound of the statement is FALSE of the model, which mirrors the implementation: the
    witness is the known finding C15-misaligned-first-key (bf=2, keys 17..48, then 16: D=4, 12
    distinct reads), replayed against the implementation by corpus/C15/d18-misaligned-first-key.hist. *)
Local Open Scope N_scope.
Definition d18_ops : list op :=
  [ONew 0 0 2 None 0] ++ map (fun i => OIns 0 (KInt (Z.of_nat i)) [49]) (seq 17 32) ++
  [OMakeRoot 0 0; OLoad 0 1 0 0; OIns 1 (KInt 16%Z) [49]; OMakeRoot 1 1; OLoad 1 2 0 0; OLoad 0 3 0 0; ODiffLinks 2 (Some 3)].
Definition loads_of (tr : list event) : list name :=
  flat_map (fun e => match e with ELoad h => [h] | _ => [] end) tr.
Fixpoint dedup (l : list name) : list name :=
  match l with [] => [] | x :: r => if existsb (bytes_eqb x) r then dedup r else x :: dedup r end.
Example C15_bound_refuted :
  length (dedup (loads_of (snd (last (run empty_world d18_ops) (ObOk, []))))) = 12%nat.
Proof. vm_compute. reflexivity. Qed.

Print Assumptions C15_same_version_no_loads.
Print Assumptions C15_equal_links_skipped.
Print Assumptions C15_reads_within_the_two_versions.
