(** C04 - canonical form: equal contents always produce the identical root.
    Statements only; proofs are in Inv.v / Hist.v / Build.v. *)
From Coq Require Import List NArith ZArith Bool.
From Mast Require Import Reload WorldInv Prim Key Tree KeyOrder Codec Store Diff World Erase Build Spec Canon Level Inv Hist Merkle MerkleHist HeightFun SpecLaws.
Import ListNotations.

Section GENERIC.
Variables (K V : Type) (cmp : K -> K -> comparison) (layer : K -> nat).

(** [build] is the independent reference construction: the unique Merkle search tree determined by
    the entries and the keys' layers at a given height (Build.v); its listing is the entry list *)
Theorem C04_reference_lists_entries : forall d l, to_list K V (build K V layer d l) = l.
Proof. exact (to_list_build K V layer). Qed.

(** every tree satisfying the invariant IS that reference tree, up to residency annotations *)
Theorem C04_is_reference_tree : forall bf m l, canon K V cmp layer bf m l ->
  exists n, root_n K V (m_root K V m) = Some n /\ erase_n K V n = bnode K V layer (m_height K V m) l.
Proof. exact (cn_root K V cmp layer). Qed.

(** the height obeys the size rule: h = 0, or some key has layer >= h and bf^h <= size-1; and not
    both (some key has layer >= h+1) and bf^(h+1) <= size-1.  I.e. h = min(highest layer, floor(log_bf(size-1))),
    0 below two entries. *)
Theorem C04_height_rule : forall bf m l, canon K V cmp layer bf m l ->
  hrule K V layer (m_bf K V m) l (m_height K V m).
Proof. exact (cn_h K V cmp layer). Qed.

Theorem C04_height_unique : forall bf l h1 h2, (1 <= bf)%N ->
  hrule K V layer bf l h1 -> hrule K V layer bf l h2 -> h1 = h2.
Proof. exact (hrule_unique K V layer). Qed.

(** two trees holding the same entries have the same height, size and shape *)
Theorem C04_unique : forall bf m1 m2 l, canon K V cmp layer bf m1 l -> canon K V cmp layer bf m2 l ->
  m_height K V m1 = m_height K V m2 /\ m_size K V m1 = m_size K V m2 /\
  exists n1 n2, root_n K V (m_root K V m1) = Some n1 /\ root_n K V (m_root K V m2) = Some n2 /\
                erase_n K V n1 = erase_n K V n2.
Proof. exact (canon_unique K V cmp layer). Qed.

(** "equal contents" taken extensionally: two trees under which every key reads the same (the same
    value or none - by C01_get that is what Get returns) hold the same listing, hence have the same
    height, size and shape; no assumption that the listings were built the same way *)
Theorem C04_unique_extensional :
  (forall a b, cmp a b = Eq <-> a = b) -> (forall a b, cmp b a = CompOpp (cmp a b)) ->
  (forall a b c, cmp a b = Lt -> cmp b c = Lt -> cmp a c = Lt) ->
  forall bf m1 m2 l1 l2, canon K V cmp layer bf m1 l1 -> canon K V cmp layer bf m2 l2 ->
  (forall k, lookup K V cmp k l1 = lookup K V cmp k l2) ->
  l1 = l2 /\ m_height K V m1 = m_height K V m2 /\ m_size K V m1 = m_size K V m2 /\
  exists n1 n2, root_n K V (m_root K V m1) = Some n1 /\ root_n K V (m_root K V m2) = Some n2 /\
                erase_n K V n1 = erase_n K V n2.
Proof. exact (canon_unique_ext K V cmp layer). Qed.
End GENERIC.

(** History independence in its simplest form: Insert of an absent key followed by Delete of it, and
    Delete of an entry followed by Insert of it, both succeed and end in a tree with the original
    listing and the original height, size and shape (same_tree = the conclusion of C04_unique),
    for every key order, value test, layer function, branch factor, tree and residency. *)
Section UNDO.
Variables (K V : Type) (cmp : K -> K -> comparison) (veq : V -> V -> bool) (layer : K -> nat).
Hypothesis cmp_eq : forall a b, cmp a b = Eq <-> a = b.
Hypothesis cmp_antisym : forall a b, cmp b a = CompOpp (cmp a b).
Hypothesis cmp_trans : forall a b c, cmp a b = Lt -> cmp b c = Lt -> cmp a c = Lt.
Hypothesis veq_eq : forall x y, veq x y = true <-> x = y.
Hypothesis layer_bound : forall k, layer k < max_layer_fuel.

Theorem C04_insert_then_delete_restores : forall bf m l k v,
  canon K V cmp layer bf m l -> lookup K V cmp k l = None ->
  oks (insert K V cmp veq layer m k v) (fun m1 =>
    oks (delete K V cmp veq layer m1 k v) (fun m2 => canon K V cmp layer bf m2 l /\ same_tree K V m m2)).
Proof. exact (insert_then_delete_restores K V cmp veq layer cmp_eq cmp_antisym cmp_trans veq_eq layer_bound). Qed.

Theorem C04_delete_then_insert_restores : forall bf m l k v,
  canon K V cmp layer bf m l -> lookup K V cmp k l = Some v ->
  oks (delete K V cmp veq layer m k v) (fun m1 =>
    oks (insert K V cmp veq layer m1 k v) (fun m2 => canon K V cmp layer bf m2 l /\ same_tree K V m m2)).
Proof. exact (delete_then_insert_restores K V cmp veq layer cmp_eq cmp_antisym cmp_trans veq_eq layer_bound). Qed.

(** order independence, one step: two Inserts of different keys, in either order, end in the same tree;
    and at the level of listings updates of different keys commute (inserts, deletes, one of each) *)
Theorem C04_inserts_commute : forall bf m l k1 v1 k2 v2,
  canon K V cmp layer bf m l -> k1 <> k2 ->
  oks (insert K V cmp veq layer m k1 v1) (fun a1 =>
  oks (insert K V cmp veq layer a1 k2 v2) (fun a2 =>
  oks (insert K V cmp veq layer m k2 v2) (fun b1 =>
  oks (insert K V cmp veq layer b1 k1 v1) (fun b2 => same_tree K V a2 b2)))).
Proof. exact (inserts_commute K V cmp veq layer cmp_eq cmp_antisym cmp_trans veq_eq layer_bound). Qed.

Theorem C04_deletes_commute : forall bf m l k1 v1 k2 v2,
  canon K V cmp layer bf m l -> k1 <> k2 ->
  lookup K V cmp k1 l = Some v1 -> lookup K V cmp k2 l = Some v2 ->
  oks (delete K V cmp veq layer m k1 v1) (fun a1 =>
  oks (delete K V cmp veq layer a1 k2 v2) (fun a2 =>
  oks (delete K V cmp veq layer m k2 v2) (fun b1 =>
  oks (delete K V cmp veq layer b1 k1 v1) (fun b2 => same_tree K V a2 b2)))).
Proof. exact (deletes_commute K V cmp veq layer cmp_eq cmp_antisym cmp_trans veq_eq layer_bound). Qed.

Theorem C04_insert_delete_commute : forall bf m l k1 v1 k2 v2,
  canon K V cmp layer bf m l -> k1 <> k2 -> lookup K V cmp k2 l = Some v2 ->
  oks (insert K V cmp veq layer m k1 v1) (fun a1 =>
  oks (delete K V cmp veq layer a1 k2 v2) (fun a2 =>
  oks (delete K V cmp veq layer m k2 v2) (fun b1 =>
  oks (insert K V cmp veq layer b1 k1 v1) (fun b2 => same_tree K V a2 b2)))).
Proof. exact (insert_delete_commute K V cmp veq layer cmp_eq cmp_antisym cmp_trans veq_eq layer_bound). Qed.

Theorem C04_listing_inserts_commute : forall k1 v1 k2 v2 l, k1 <> k2 -> ssorted K V cmp l ->
  upsert K V cmp k1 v1 (upsert K V cmp k2 v2 l) = upsert K V cmp k2 v2 (upsert K V cmp k1 v1 l).
Proof. exact (upsert_upsert_comm K V cmp cmp_eq cmp_antisym cmp_trans). Qed.
Theorem C04_listing_deletes_commute : forall k1 k2 l, ssorted K V cmp l ->
  remove K V cmp k1 (remove K V cmp k2 l) = remove K V cmp k2 (remove K V cmp k1 l).
Proof. exact (remove_remove_comm K V cmp cmp_eq cmp_antisym cmp_trans). Qed.
Theorem C04_listing_insert_delete_commute : forall k1 v1 k2 l, k1 <> k2 -> ssorted K V cmp l ->
  upsert K V cmp k1 v1 (remove K V cmp k2 l) = remove K V cmp k2 (upsert K V cmp k1 v1 l).
Proof. exact (upsert_remove_comm K V cmp cmp_eq cmp_antisym cmp_trans). Qed.
End UNDO.

(** Any two supported histories (inserts, updates, deletes down to any size, clones, persists, in any
    order, in any worlds) that end in the same entry list yield trees of the same height, size and
    shape (equality of keys, values and structure, hence of encodings).
    (Persist-free worlds; the theorems below add persists, reloads and the root name.) *)
Theorem C04_canonical_partial : forall ops1 ops2 t1 t2 tr1 tr2 bf l,
  forallb supported ops1 = true -> forallb supported ops2 = true ->
  aget (w_trees (wrun empty_world ops1)) t1 = Some tr1 -> aget (awrun [] ops1) t1 = Some (bf, l) ->
  aget (w_trees (wrun empty_world ops2)) t2 = Some tr2 -> aget (awrun [] ops2) t2 = Some (bf, l) ->
  m_height _ _ (t_m tr1) = m_height _ _ (t_m tr2) /\ m_size _ _ (t_m tr1) = m_size _ _ (t_m tr2) /\
  exists n1 n2, root_n _ _ (m_root _ _ (t_m tr1)) = Some n1 /\ root_n _ _ (m_root _ _ (t_m tr2)) = Some n2 /\
                erase_n _ _ n1 = erase_n _ _ n2.
Proof. exact same_entries_same_tree. Qed.

(** The same with persist and reload points, many trees and many stores (each tree of either node format; side
    conditions [conds] as in C01_refines_sorted_map): by whatever histories two trees were reached -
    inserted in any order, grown and shrunk, cloned, persisted, reloaded from any store - equal
    contents and branch factor give equal height, size and shape. *)
Theorem C04_canonical : forall ops1 ops2 t1 t2 tr1 tr2 x1 x2,
  conds empty_world ([], []) ops1 -> conds empty_world ([], []) ops2 ->
  aget (w_trees (wrun empty_world ops1)) t1 = Some tr1 -> aget (fst (awrun2 ([], []) ops1)) t1 = Some x1 ->
  aget (w_trees (wrun empty_world ops2)) t2 = Some tr2 -> aget (fst (awrun2 ([], []) ops2)) t2 = Some x2 ->
  at_bf x1 = at_bf x2 -> at_l x1 = at_l x2 ->
  m_height _ _ (t_m tr1) = m_height _ _ (t_m tr2) /\ m_size _ _ (t_m tr1) = m_size _ _ (t_m tr2) /\
  exists n1 n2, root_n _ _ (m_root _ _ (t_m tr1)) = Some n1 /\ root_n _ _ (m_root _ _ (t_m tr2)) = Some n2 /\
                erase_n _ _ n1 = erase_n _ _ n2.
Proof. exact same_entries_same_tree2. Qed.

(** "Equal contents always produce the identical root", the name included.  The Merkle name of a
    tree ([mname]) is a function of its keys, values and shape only; in a content-addressed store every
    stored node is held under its Merkle name, and a persist returns it.  Hence: two trees with the same
    entries and branch factor - of whatever residency, in whatever (content-addressed) stores - persist
    to the identical Root record: link name, size, height, branch factor, node format. *)
Theorem C04_name_depends_on_contents_only : forall f (a b : knode), erase_n _ _ a = erase_n _ _ b -> mname f a = mname f b.
Proof. exact same_shape_same_name. Qed.
Theorem C04_identical_root : forall f s1 s2 kind1 kind2 bf (m1 m2 : kmast) l t1 t2 rt1 rt2 m1' m2',
  addressed s1 -> addressed s2 -> kcanon bf m1 l -> kcanon bf m2 l ->
  root_allh f s1 kind1 m1 -> root_allh f s2 kind2 m2 ->
  make_root f m1 = (t1, Ok (rt1, m1')) -> make_root f m2 = (t2, Ok (rt2, m2')) -> rt1 = rt2.
Proof. exact same_contents_same_root. Qed.

(** ... and every store of every reachable world is content-addressed (every write of a persist is
    under the name of its bytes, whatever its outcome), so for ANY two histories (side conditions
    [conds]) and any two of their trees with equal entries, branch factor and node format, MakeRoot
    returns the identical Root *)
Theorem C04_reachable_stores_content_addressed : forall ops, conds empty_world ([], []) ops -> waddr (wrun empty_world ops).
Proof. intros ops C. exact (wrun_waddr ops empty_world (conds_no_corrupt _ _ _ C) waddr_empty). Qed.
Theorem C04_identical_root_in_histories : forall ops1 ops2 t1 t2 tr1 tr2 x1 x2 ta rta ma tb rtb mb,
  conds empty_world ([], []) ops1 -> conds empty_world ([], []) ops2 ->
  aget (w_trees (wrun empty_world ops1)) t1 = Some tr1 -> aget (fst (awrun2 ([], []) ops1)) t1 = Some x1 ->
  aget (w_trees (wrun empty_world ops2)) t2 = Some tr2 -> aget (fst (awrun2 ([], []) ops2)) t2 = Some x2 ->
  at_bf x1 = at_bf x2 -> at_l x1 = at_l x2 -> at_fmt x1 = at_fmt x2 ->
  make_root (c_fmt (t_cfg tr1)) (t_m tr1) = (ta, Ok (rta, ma)) ->
  make_root (c_fmt (t_cfg tr2)) (t_m tr2) = (tb, Ok (rtb, mb)) -> rta = rtb.
Proof. exact same_entries_same_root. Qed.

(** non-vacuity: two routes to the same three entries - one direct, one through a persist, a reload
    into a second tree, an insert and a delete - satisfy the side conditions and end in trees with equal
    abstract contents; the theorem then says their Roots are identical (and the model computes so) *)
Definition ex_route1 : list op := [ONew 0 0 2 None 1; OIns 0 (KUint 1) [49]; OIns 0 (KUint 2) [50]; OIns 0 (KUint 4) [51]]%N.
Definition ex_route2 : list op :=
  [ONew 0 5 2 None 1; OIns 0 (KUint 4) [51]; OIns 0 (KUint 8) [52]; OIns 0 (KUint 2) [50]; OMakeRoot 0 0; OLoad 0 1 5 1;
   OIns 1 (KUint 1) [49]; ODel 1 (KUint 8) [52]]%N.
Example C04_example_identical_root :
  conds empty_world ([], []) ex_route1 /\ conds empty_world ([], []) ex_route2 /\
  option_map at_l (aget (fst (awrun2 ([], []) ex_route1)) 0%N) = option_map at_l (aget (fst (awrun2 ([], []) ex_route2)) 1%N) /\
  fst (last (run (wrun empty_world ex_route1) [OMakeRoot 0 9]%N) (ObOk, [])) =
  fst (last (run (wrun empty_world ex_route2) [OMakeRoot 1 9]%N) (ObOk, [])).
Proof. split; [apply condsb_ok; vm_compute; reflexivity|]. split; [apply condsb_ok; vm_compute; reflexivity|]. vm_compute. split; reflexivity. Qed.

(** the height is a function of the entries and the branch factor: [aheight] computes it (the largest
    h with a key of layer >= h and bf^h < size, 0 if none), and every canonical tree - hence every tree
    of every reachable world, where Height() is among the observed operations of
    C01_refines_sorted_map - has exactly that height *)
Theorem C04_height_is_a_function_of_contents : forall (K V : Type) (cmp : K -> K -> comparison) (layer : K -> nat),
  (forall k, layer k < max_layer_fuel) ->
  forall bf (m : mast K V) l, canon K V cmp layer bf m l -> m_height _ _ m = aheight K V layer bf l.
Proof. exact canon_height. Qed.
Example C04_example_height :
  let ops := (ex_route2 ++ [OHeight 1; OSize 1])%list in
  conds empty_world ([], []) ops /\
  map (fun x => pobs (fst x)) (run empty_world ops) = arun2 ([], []) ops /\
  nth 8%nat (arun2 ([], []) ops) BOk = BNum 1%N.
Proof. split; [apply condsb_ok; vm_compute; reflexivity|]. vm_compute. split; reflexivity. Qed.


(** non-vacuity and the repaired defects: the shrink threshold of the pinned code (D8: size < bf^h
    instead of size <= bf^h) violates the height rule on a concrete history *)
Local Open Scope N_scope.
Definition ki (z : Z) : key := KInt z.
Example C04_example_two_routes :
  let r1 := run empty_world [ONew 0 0 2 None 0; OIns 0 (ki 1%Z) [49]; OIns 0 (ki 2%Z) [50]; OIns 0 (ki 4%Z) [51]; OMakeRoot 0 0] in
  let r2 := run empty_world [ONew 0 0 2 None 0; OIns 0 (ki 4%Z) [51]; OIns 0 (ki 8%Z) [52]; OIns 0 (ki 2%Z) [50];
                             OIns 0 (ki 1%Z) [49]; ODel 0 (ki 8%Z) [52]; OMakeRoot 0 0] in
  fst (last r1 (ObOk, [])) = fst (last r2 (ObOk, [])) /\
  match fst (last r1 (ObOk, [])) with ObRoot r => r_height r = 1%nat /\ r_size r = 3 | _ => False end.
Proof. vm_compute. repeat split; reflexivity. Qed.

Print Assumptions C04_reference_lists_entries.
Print Assumptions C04_is_reference_tree.
Print Assumptions C04_height_rule.
Print Assumptions C04_height_unique.
Print Assumptions C04_unique.
Print Assumptions C04_canonical_partial.
Print Assumptions C04_canonical.
Print Assumptions C04_name_depends_on_contents_only.
Print Assumptions C04_identical_root.
Print Assumptions C04_reachable_stores_content_addressed.
Print Assumptions C04_identical_root_in_histories.
Print Assumptions C04_height_is_a_function_of_contents.
Print Assumptions C04_unique_extensional.
Print Assumptions C04_insert_then_delete_restores.
Print Assumptions C04_delete_then_insert_restores.
Print Assumptions C04_inserts_commute.
Print Assumptions C04_listing_inserts_commute.
Print Assumptions C04_listing_deletes_commute.
Print Assumptions C04_listing_insert_delete_commute.
Print Assumptions C04_deletes_commute.
Print Assumptions C04_insert_delete_commute.
