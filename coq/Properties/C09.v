(** C09 - persisted trees satisfy the Merkle-search-tree shape invariants.
    Statements only; proofs are in Shape.v / Inv.v / Hist.v. *)
From Coq Require Import List NArith ZArith Bool.
From Mast Require Import Reload WorldInv Prim Key Tree KeyOrder Codec Store Diff World Erase Build Spec Canon Level Inv Shape Hist.
Import ListNotations.

Section GENERIC.
Variables (K V : Type) (cmp : K -> K -> comparison) (layer : K -> nat).

(** the reference tree of any non-empty entry list satisfies the shape invariants [shape]
    (Shape.v): keys of a node at level d have layer d (>= d in the top node), all entries below a node
    have smaller layers, level 0 has no children and nothing lies below it, an entry-less node is a
    single-child pass-through node above level 0; n keys come with n+1 link slots by construction of
    the node type *)
Theorem C09_reference_shape : forall d l, l <> [] -> shape K V layer true d (bnode K V layer d l).
Proof. intros d l H. apply (shape_bnode K V layer d true l H). discriminate. Qed.

(** in a tree satisfying the invariant the keys are strictly ascending in the in-order listing (so
    every key below a child link lies strictly between the neighbouring keys of the parent), and
    the recorded size is the number of entries *)
Theorem C09_ordered : forall bf m l, canon K V cmp layer bf m l ->
  ssorted K V cmp l /\ to_list K V (m_root K V m) = l /\ m_size K V m = N.of_nat (length l).
Proof.
  intros bf m l C. exact (conj (cn_sorted K V cmp layer bf m l C)
    (conj (canon_to_list K V cmp layer bf m l C) (cn_size K V cmp layer bf m l C))).
Qed.

Theorem C09_is_reference_tree : forall bf m l, canon K V cmp layer bf m l ->
  exists n, root_n K V (m_root K V m) = Some n /\ erase_n K V n = bnode K V layer (m_height K V m) l.
Proof. exact (cn_root K V cmp layer). Qed.
End GENERIC.

(** the invariant holds for every tree of every world reached by a supported history, for every layer
    assignment (user keys carry arbitrary layers) and branch factor >= 2; persisting keeps it *)
Theorem C09_invariant_of_histories_partial : forall ops,
  forallb supported ops = true -> winv (wrun empty_world ops) (awrun [] ops).
Proof. intros ops H. exact (history_invariant ops empty_world [] winv_empty H). Qed.

(** ... and with persist and reload points, many trees, many stores (either node format; side conditions
    [conds] as in C01_refines_sorted_map): every tree of every reachable world - also one loaded
    from a persisted root - is the reference tree of its abstract contents *)
Theorem C09_invariant_of_histories : forall ops t tr,
  conds empty_world ([], []) ops -> aget (w_trees (wrun empty_world ops)) t = Some tr ->
  exists x, aget (fst (awrun2 ([], []) ops)) t = Some x /\ kcanon (at_bf x) (t_m tr) (at_l x).
Proof. exact reachable_canonical. Qed.

Theorem C09_persist_keeps_invariant : forall bf f m l, kcanon bf m l ->
  oks (make_root f m) (fun r => kcanon bf (snd r) l /\ r_size (fst r) = N.of_nat (length l)).
Proof. exact k_make_root_ok. Qed.

Print Assumptions C09_reference_shape.
Print Assumptions C09_ordered.
Print Assumptions C09_is_reference_tree.
Print Assumptions C09_invariant_of_histories_partial.
Print Assumptions C09_invariant_of_histories.
Print Assumptions C09_persist_keeps_invariant.
