(** C10 - cursor and seek navigation agree with the sorted key sequence.
    Statements only; proofs are in Nav.v. *)
From Coq Require Import List NArith ZArith Bool.
From Mast Require Import Prim Key Tree KeyOrder Codec Store Diff World Erase Build Spec Canon Level Inv Nav Hist.
Import ListNotations.

Section GENERIC.
Variables (K V : Type) (cmp : K -> K -> comparison) (layer : K -> nat).
Hypothesis cmp_eq : forall a b, cmp a b = Eq <-> a = b.
Hypothesis cmp_antisym : forall a b, cmp b a = CompOpp (cmp a b).
Hypothesis cmp_trans : forall a b c, cmp a b = Lt -> cmp b c = Lt -> cmp a c = Lt.

(** Iterating from a probe key (present or absent, of any layer) on a tree of any shape, height and
    residency succeeds and yields exactly the entries whose keys are not smaller than the probe, in
    ascending order, each once: [from_key k l] is the sub-list of the strictly sorted list l. *)
Theorem C10_seek_iter : forall bf m l k, canon K V cmp layer bf m l ->
  oks (seek_iter K V cmp m k) (fun r => r = from_key K V cmp k l).
Proof. exact (seek_iter_ok K V cmp layer cmp_eq cmp_antisym cmp_trans). Qed.

(** ... which, for a sorted list cut at the probe, is the part from the cut on *)
Theorem C10_from_key_is_suffix : forall a b k,
  all_lt K V cmp a k -> all_ge K V cmp b k -> from_key K V cmp k (a ++ b) = b.
Proof. exact (from_key_cut K V cmp). Qed.

(** a callback that signals done after n+1 entries sees the first n+1 of them: the model's
    early-stopped iteration is [firstn (S n)] of this list (World.step, OSeekStop / OIterStop) *)
Theorem C10_iter : forall bf m l, canon K V cmp layer bf m l -> oks (iter K V m) (fun r => r = l).
Proof. exact (iter_ok K V cmp layer). Qed.
End GENERIC.

(** the empty trees: no call fails on a never-populated or an emptied tree (both satisfy the
    invariant with the empty list) *)
Theorem C10_seek_empty : forall bf m k, kcanon bf m [] -> oks (seek_iter _ _ kcmp m k) (fun r => r = []).
Proof. intros bf m k C. exact (seek_iter_ok key val kcmp (klayer bf) kcmp_eq kcmp_antisym kcmp_trans bf m [] k C). Qed.

(** PARTIAL: the cursor operations (Min / Max / Ceil / Forward / Backward / Get) are modelled
    (the cur_min, cur_max, cur_ceil, cur_forward, cur_backward functions of Tree.v) and compared with the implementation on every run (150 histories of random walks
    from Min, Max and Ceil on trees of all residencies, incl. empty trees), and judged by a bisect
    oracle; the theorem that a cursor is "at position i of the listing" is not proved yet. *)
Print Assumptions C10_seek_iter.
Print Assumptions C10_from_key_is_suffix.
Print Assumptions C10_iter.
Print Assumptions C10_seek_empty.
