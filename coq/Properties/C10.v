(** C10 - cursor and seek navigation agree with the sorted key sequence.
    Statements only; proofs are in Nav.v. *)
From Coq Require Import List NArith ZArith Bool.
From Mast Require Import Prim Key Tree KeyOrder Codec Store Diff World Erase Build Spec Canon Level Inv Nav Hist Cursor Reload WorldInv CursorHist.
Import ListNotations.

Section GENERIC.
Variables (K V : Type) (cmp : K -> K -> comparison) (layer : K -> nat).
Hypothesis cmp_eq : forall a b, cmp a b = Eq <-> a = b.
Hypothesis cmp_antisym : forall a b, cmp b a = CompOpp (cmp a b).
Hypothesis cmp_trans : forall a b c, cmp a b = Lt -> cmp b c = Lt -> cmp a c = Lt.

(** Iterating from a probe key (present or absent, of any layer) on a tree of any shape, height and
    residency succeeds and yields exactly the entries whose keys are not smaller than the probe, in
    ascending order, each once: [from_key k l] is the sub-list of the strictly sorted list l. *)
Theorem C10_seek_iter : forall bf m l k, canon K V cmp layer bf m l ->
  oks (seek_iter K V cmp m k) (fun r => r = from_key K V cmp k l).
Proof. exact (seek_iter_ok K V cmp layer cmp_eq cmp_antisym cmp_trans). Qed.

(** ... which, for a sorted list cut at the probe, is the part from the cut on *)
Theorem C10_from_key_is_suffix : forall a b k,
  all_lt K V cmp a k -> all_ge K V cmp b k -> from_key K V cmp k (a ++ b) = b.
Proof. exact (from_key_cut K V cmp). Qed.

(** a callback that signals done after n+1 entries sees the first n+1 of them: the model's
    early-stopped iteration is [firstn (S n)] of this list (World.step, OSeekStop / OIterStop) *)
Theorem C10_iter : forall bf m l, canon K V cmp layer bf m l -> oks (iter K V m) (fun r => r = l).
Proof. exact (iter_ok K V cmp layer). Qed.
End GENERIC.

(** the empty trees: no call fails on a never-populated or an emptied tree (both satisfy the
    invariant with the empty list) *)
Theorem C10_seek_empty : forall bf m k, kcanon bf m [] -> oks (seek_iter _ _ kcmp m k) (fun r => r = []).
Proof. intros bf m k C. exact (seek_iter_ok key val kcmp (klayer bf) kcmp_eq kcmp_antisym kcmp_trans bf m [] k C). Qed.

(** * the cursor
    A cursor path denotes the entries from its position to the end of the listing ([after]); the
    path invariant [pok] says every node on it is non-empty down to the leaves and every index within
    bounds, [valid] that the head index names an entry. *)
Section CURSOR.
Variables (K V : Type) (cmp : K -> K -> comparison) (layer : K -> nat).
Hypothesis cmp_eq : forall a b, cmp a b = Eq <-> a = b.
Hypothesis cmp_antisym : forall a b, cmp b a = CompOpp (cmp a b).
Hypothesis cmp_trans : forall a b c, cmp a b = Lt -> cmp b c = Lt -> cmp a c = Lt.

(** Get returns the first entry in front of the cursor *)
Theorem C10_get : forall p, valid K V p -> cur_get _ _ p = hd_error (after K V p).
Proof. exact (get_ok K V). Qed.

(** Min on a fresh cursor puts the whole listing in front of it *)
Theorem C10_min : forall F (n : node K V), ne K V F n ->
  oks (cur_min _ _ F [(n, 0%Z)]) (fun p' => after K V p' = to_list_n K V n /\ valid K V p' /\ pok K V F p').
Proof. exact (min_ok K V). Qed.

(** Forward drops exactly the first entry (descending into a right subtree, stepping inside a node, or
    popping exhausted ancestors), from any valid position *)
Theorem C10_forward : forall F p, valid K V p -> pok K V F p ->
  oks (cur_forward _ _ F p) (fun p' => after K V p' = tl (after K V p) /\ valid K V p' /\ pok K V F p').
Proof. exact (forward_ok K V). Qed.

(** Ceil k on a fresh cursor puts exactly the entries not smaller than k in front of it (k present or
    absent, of any layer) *)
Theorem C10_ceil : forall F k (n : node K V), ne K V F n -> ssorted K V cmp (to_list_n K V n) ->
  oks (cur_ceil _ _ cmp F k [(n, 0%Z)])
      (fun p' => after K V p' = from_key K V cmp k (to_list_n K V n) /\ valid K V p' /\ pok K V F p').
Proof. exact (ceil_ok K V cmp cmp_eq cmp_trans). Qed.

(** on every non-empty canonical tree: Min (resp. Ceil k), then j times Forward, then Get reads the
    j-th entry of the listing (resp. of the entries not smaller than k), and nothing once past the end *)
Theorem C10_cursor_walk : forall bf (m : mast K V) l j n,
  canon K V cmp layer bf m l -> l <> [] -> root_n _ _ (m_root _ _ m) = Some n ->
  oks (let* p := cur_min _ _ (S (m_height _ _ m)) [(n, 0%Z)] in forward_n K V (S (m_height _ _ m)) j p)
      (fun p => cur_get _ _ p = nth_error l j).
Proof. exact (cursor_walk K V cmp layer). Qed.

Theorem C10_cursor_ceil_walk : forall bf (m : mast K V) l j n k,
  canon K V cmp layer bf m l -> l <> [] -> root_n _ _ (m_root _ _ m) = Some n ->
  oks (let* p := cur_ceil _ _ cmp (S (m_height _ _ m)) k [(n, 0%Z)] in forward_n K V (S (m_height _ _ m)) j p)
      (fun p => cur_get _ _ p = nth_error (from_key K V cmp k l) j).
Proof. exact (cursor_ceil_walk K V cmp layer cmp_eq cmp_trans). Qed.
End CURSOR.

(** Max and Backward, the mirror image: [before p] lists the entries up to and including the cursor *)
Section CURSOR_BACK.
Variables (K V : Type) (cmp : K -> K -> comparison) (layer : K -> nat).

Theorem C10_max : forall F (n : node K V), ne K V F n ->
  oks (cur_max _ _ F [(n, 0%Z)]) (fun p' => before K V p' = to_list_n K V n /\ valid K V p' /\ pok K V F p').
Proof. exact (max_ok K V). Qed.

Theorem C10_backward : forall F p, valid K V p -> pok K V F p ->
  oks (cur_backward _ _ F p) (fun p' => before K V p' = removelast (before K V p) /\ valid K V p' /\ pok K V F p').
Proof. exact (backward_ok K V). Qed.

Theorem C10_get_is_last : forall p, valid K V p -> cur_get _ _ p = hd_error (rev (before K V p)).
Proof. exact (get_is_last K V). Qed.

Theorem C10_cursor_walk_back : forall bf (m : mast K V) l j n,
  canon K V cmp layer bf m l -> l <> [] -> root_n _ _ (m_root _ _ m) = Some n ->
  oks (let* p := cur_max _ _ (S (m_height _ _ m)) [(n, 0%Z)] in backward_n K V (S (m_height _ _ m)) j p)
      (fun p => cur_get _ _ p = nth_error (rev l) j).
Proof. exact (cursor_walk_back K V cmp layer). Qed.
End CURSOR_BACK.

(** One position, both views: [Pos F n p] - the cursor p, made on the tree with root node n, stands on
    an entry; what lies behind it (its own entry included) followed by what lies in front of it
    (its own entry excluded) is the listing of n.  Get reads the entry at index
    (length (before p) - 1); Forward and Backward move that index by exactly one, in any mix, or step
    off the end (empty path); Min, Max and Ceil establish a position. *)
Section POSITION.
Variables (K V : Type) (cmp : K -> K -> comparison).
Hypothesis cmp_eq : forall a b, cmp a b = Eq <-> a = b.
Hypothesis cmp_trans : forall a b c, cmp a b = Lt -> cmp b c = Lt -> cmp a c = Lt.

Theorem C10_position_get : forall F n p, Pos K V F n p ->
  cur_get _ _ p = nth_error (to_list_n K V n) (length (before K V p) - 1).
Proof. exact (pos_get K V). Qed.
Theorem C10_position_forward : forall F n p, Pos K V F n p ->
  oks (cur_forward _ _ F p) (fun p' => p' = [] \/ (Pos K V F n p' /\ length (before K V p') = S (length (before K V p)))).
Proof. exact (pos_forward K V). Qed.
Theorem C10_position_backward : forall F n p, Pos K V F n p ->
  oks (cur_backward _ _ F p) (fun p' => p' = [] \/ (Pos K V F n p' /\ S (length (before K V p')) = length (before K V p))).
Proof. exact (pos_backward K V). Qed.
Theorem C10_position_min : forall F (n : node K V), ne K V F n -> oks (cur_min _ _ F [(n, 0%Z)]) (Pos K V F n).
Proof. exact (pos_min K V). Qed.
Theorem C10_position_max : forall F (n : node K V), ne K V F n -> oks (cur_max _ _ F [(n, 0%Z)]) (Pos K V F n).
Proof. exact (pos_max K V). Qed.
Theorem C10_position_ceil : forall F k (n : node K V), ne K V F n -> ssorted K V cmp (to_list_n K V n) ->
  oks (cur_ceil _ _ cmp F k [(n, 0%Z)]) (fun p => p = [] \/ Pos K V F n p).
Proof. exact (pos_ceil K V cmp cmp_eq cmp_trans). Qed.
End POSITION.

(** In histories: cursors made on any non-empty tree of any reachable world (built, cloned, persisted,
    reloaded), positioned once by Min, Max or Ceil and then moved by ANY mix of Forward and Backward
    and read by Get, observe what the abstract cursor [cstep] computes over the sorted listing the tree
    had when the cursor was made - together with all the other supported operations of
    C01_refines_sorted_map, whatever happens to the tree afterwards. *)
Theorem C10_cursors_in_histories : forall ops w a ac,
  winv2 w a -> cinv w ac -> conds3 w (a, ac) ops ->
  map (fun x => pobs (fst x)) (run w ops) = arun3 (a, ac) ops.
Proof. exact history_refines3. Qed.

(* non-vacuity: a persisted and reloaded tree, a cursor on it, a mixed walk, the tree modified meanwhile *)
Local Open Scope N_scope.
Definition cur_ops : list op :=
  [ONew 0 0 2 None 1; OIns 0 (KUint 1) [49]; OIns 0 (KUint 2) [50]; OIns 0 (KUint 4) [51]; OIns 0 (KUint 8) [52]; OIns 0 (KUint 9) [53];
   OMakeRoot 0 0; OLoad 0 1 0 1; OCursor 1 0; OCCeil 0 (KUint 3); OCGet 0; OIns 1 (KUint 5) [60]; OCFwd 0; OCGet 0; OCBwd 0; OCBwd 0; OCGet 0;
   OCursor 1 1; OCMax 1; OCGet 1; OCFwd 1; OCGet 1].
Example C10_example_cursors :
  conds3 empty_world (([], []), []) cur_ops /\
  map (fun x => pobs (fst x)) (run empty_world cur_ops) = arun3 (([], []), []) cur_ops /\
  nth 10%nat (arun3 (([], []), []) cur_ops) BOk = BEntry (Some (KUint 4, [51])) /\
  nth 13%nat (arun3 (([], []), []) cur_ops) BOk = BEntry (Some (KUint 8, [52])) /\
  nth 16%nat (arun3 (([], []), []) cur_ops) BOk = BEntry (Some (KUint 2, [50])) /\
  nth 19%nat (arun3 (([], []), []) cur_ops) BOk = BEntry (Some (KUint 9, [53])) /\
  nth 21%nat (arun3 (([], []), []) cur_ops) BOk = BEntry None.
Proof. split; [apply conds3b_ok; vm_compute; reflexivity|]. vm_compute. repeat split; reflexivity. Qed.

(** cursors on empty trees report no entry (C10_seek_empty for seeks; the correspondence check for
    the cursor calls). *)
Print Assumptions C10_seek_iter.
Print Assumptions C10_from_key_is_suffix.
Print Assumptions C10_iter.
Print Assumptions C10_seek_empty.
Print Assumptions C10_get.
Print Assumptions C10_min.
Print Assumptions C10_forward.
Print Assumptions C10_ceil.
Print Assumptions C10_cursor_walk.
Print Assumptions C10_cursor_ceil_walk.
Print Assumptions C10_max.
Print Assumptions C10_backward.
Print Assumptions C10_get_is_last.
Print Assumptions C10_cursor_walk_back.
Print Assumptions C10_position_get.
Print Assumptions C10_position_forward.
Print Assumptions C10_position_backward.
Print Assumptions C10_position_min.
Print Assumptions C10_position_max.
Print Assumptions C10_position_ceil.
Print Assumptions C10_cursors_in_histories.
