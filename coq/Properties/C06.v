(** C06 - the entry diff reports exactly the differing keys, once each, in order.
    Statements only; proofs are in DiffSpec.v and DiffK.v. *)
From Coq Require Import List NArith ZArith Bool Sorting.Sorted.
From Mast Require Import WorldInv Prim Key Tree KeyOrder Codec Store Diff World Erase Build Spec Canon Links Level Inv Hist Reload DiffSpec DiffK DiffAlg.
Import ListNotations.

Section GENERIC.
Variables (K V : Type) (cmp : K -> K -> comparison) (veq : V -> V -> bool) (layer : K -> nat).
Hypothesis cmp_eq : forall a b, cmp a b = Eq <-> a = b.
Hypothesis cmp_antisym : forall a b, cmp b a = CompOpp (cmp a b).
Hypothesis cmp_trans : forall a b c, cmp a b = Lt -> cmp b c = Lt -> cmp a c = Lt.
Hypothesis veq_refl : forall v, veq v v = true.
(* what a hash name stands for: hereditary, and one node per name (for the trees of one store this is
   C06_names_are_functional below; across stores it is collision freeness of the hash) *)
Variable P : name -> node K V -> Prop.
Hypothesis hered : forall h c, P h c -> allh K V P c.
Hypothesis Pfun : forall h a b, P h a -> P h b -> a = b.

(** The machine, run with the step budget Mast.diff computes, on any two reachable trees (any
    contents incl. empty, any heights, any mix of in-memory and persisted nodes, related or not),
    succeeds, and its entry events are exactly the merge-difference of the two sorted listings. *)
Theorem C06_diff_is_merge_difference : forall bf (mo mn : mast K V) lo ln,
  canon K V cmp layer bf mo lo -> canon K V cmp layer bf mn ln ->
  allh_l K V P (m_root _ _ mo) -> allh_l K V P (m_root _ _ mn) ->
  oks (diff _ _ cmp veq layer (Some mo) mn) (fun r => filter (is_entry K V) r = sdiff K V cmp veq lo ln).
Proof. exact (diff_canon K V cmp veq layer cmp_eq veq_refl P hered Pfun). Qed.

(** a nil old tree: everything is added *)
Theorem C06_diff_against_nil : forall bf (mn : mast K V) ln,
  canon K V cmp layer bf mn ln -> allh_l K V P (m_root _ _ mn) ->
  oks (diff _ _ cmp veq layer None mn) (fun r => filter (is_entry K V) r = sdiff K V cmp veq [] ln).
Proof. exact (diff_canon_nil K V cmp veq layer cmp_eq veq_refl P hered Pfun). Qed.

(** what the merge-difference of two strictly sorted lists is: for every key, the first (and by
    ascending order only) event with that key is the one the two maps call for - added with the new
    value, removed with the old value, changed with both, nothing when they agree or both lack it *)
Theorem C06_exactly_the_differing_keys : forall k a b,
  ssorted K V cmp a -> ssorted K V cmp b ->
  dlookup K V cmp k (sdiff K V cmp veq a b) = expect K V cmp veq k a b.
Proof. exact (sdiff_lookup K V cmp veq cmp_eq cmp_antisym cmp_trans). Qed.

(** ... in strictly ascending key order, hence each key at most once *)
Theorem C06_ascending_once : forall a b,
  ssorted K V cmp a -> ssorted K V cmp b -> StronglySorted (slt K cmp) (dkeys K V (sdiff K V cmp veq a b)).
Proof. exact (sdiff_ascending K V cmp veq cmp_eq cmp_antisym cmp_trans). Qed.

(** ... and consists of entry events only *)
Theorem C06_entries_only : forall a b, filter (is_entry K V) (sdiff K V cmp veq a b) = sdiff K V cmp veq a b.
Proof. exact (sdiff_entries K V cmp veq). Qed.
End GENERIC.

(** for the library's keys and values, over one store: a name stands for one node *)
Theorem C06_names_are_functional : forall fmt s kind h (a b : knode), sto fmt s kind h a -> sto fmt s kind h b -> a = b.
Proof. exact sto_fun. Qed.

Theorem C06_diff : forall fmt s kind bf (mo mn : kmast) lo ln,
  kcanon bf mo lo -> kcanon bf mn ln -> root_allh fmt s kind mo -> root_allh fmt s kind mn ->
  oks (diff _ _ kcmp bytes_eqb (klayer bf) (Some mo) mn)
      (fun r => filter (is_entry key val) r = sdiff key val kcmp bytes_eqb lo ln).
Proof. exact k_diff_entries. Qed.

(** In histories: for every reachable world (any number of trees and stores, persists, reloads) the
    four diff interfaces between any two trees that live over one store observe the
    merge-difference of their abstract contents ([astep2]: ODiff / ODiffCur = all of it, ODiffStop n =
    its first n+1 events, ODiffFail n = failure iff it has more than n events); in particular the
    hypotheses of C06_diff hold for every such pair. *)
Theorem C06_in_histories : forall ops w a,
  winv2 w a -> conds w a ops ->
  map (fun x => pobs (fst x)) (run w ops) = arun2 a ops /\ winv2 (wrun w ops) (awrun2 a ops).
Proof. exact history_refines2. Qed.


(** the callback and cursor interfaces: World.step derives all of DiffIter, DiffIter with an early
    stop (firstn), DiffIter with a failing callback, and StartDiff/NextEntry from this one event
    list; the correspondence check compares each with the implementation.
    PARTIAL: a diff between trees living over DIFFERENT stores needs "one node per name" across
    the two stores (hash collision freeness), which stays a hypothesis (Pfun). *)

(** non-vacuity: a persisted version and its modified descendant (shared hash links are skipped),
    evaluated in the history model the correspondence check runs *)
Definition ex_ops : list op :=
  [ONew 0 0 2 None 1; OIns 0 (KUint 1%N) [49%N]; OIns 0 (KUint 2%N) [50%N]; OIns 0 (KUint 4%N) [51%N]; OIns 0 (KUint 5%N) [52%N]; OMakeRoot 0 0;
   OClone 0 1; ODel 1 (KUint 1%N) [49%N]; OIns 1 (KUint 2%N) [60%N]; OIns 1 (KUint 8%N) [61%N]; ODiff 1 (Some 0%N)].
Example C06_example :
  nth 10%nat (map fst (run empty_world ex_ops)) ObOk =
  ObDiff [DoEntry false true (KUint 1%N) None (Some [49%N]); DoEntry false false (KUint 2%N) (Some [60%N]) (Some [50%N]);
          DoEntry true false (KUint 8%N) (Some [61%N]) None].
Proof. vm_compute. reflexivity. Qed.

(** Algebraic consequences (DiffAlg.v), for any key order and any value equality test that decides
    equality: the diff is silent exactly when the two trees hold the same contents, and the diff
    taken in the other direction reports the mirror image (added <-> removed, old <-> new value)
    of each event, in the same order. *)
Section ALGEBRA.
Variables (K V : Type) (cmp : K -> K -> comparison) (veq : V -> V -> bool) (layer : K -> nat).
Hypothesis cmp_eq : forall a b, cmp a b = Eq <-> a = b.
Hypothesis cmp_antisym : forall a b, cmp b a = CompOpp (cmp a b).
Hypothesis veq_eq : forall x y, veq x y = true <-> x = y.
Variable P : name -> node K V -> Prop.
Hypothesis hered : forall h c, P h c -> allh K V P c.
Hypothesis Pfun : forall h a b, P h a -> P h b -> a = b.

Theorem C06_no_events_iff_equal_listings : forall a b, sdiff K V cmp veq a b = [] <-> a = b.
Proof. exact (sdiff_empty_iff K V cmp veq cmp_eq veq_eq). Qed.

Theorem C06_reverse_is_mirror_spec : forall a b, sdiff K V cmp veq b a = map (mirror K V) (sdiff K V cmp veq a b).
Proof. exact (sdiff_mirror K V cmp veq cmp_eq cmp_antisym veq_eq). Qed.

Theorem C06_silent_iff_equal : forall bf (mo mn : mast K V) lo ln,
  canon K V cmp layer bf mo lo -> canon K V cmp layer bf mn ln ->
  allh_l K V P (m_root _ _ mo) -> allh_l K V P (m_root _ _ mn) ->
  oks (diff _ _ cmp veq layer (Some mo) mn) (fun r => filter (is_entry K V) r = [] <-> lo = ln).
Proof. exact (diff_silent_iff_equal K V cmp veq layer cmp_eq veq_eq P hered Pfun). Qed.

Theorem C06_reverse_is_mirror : forall bf (mo mn : mast K V) lo ln,
  canon K V cmp layer bf mo lo -> canon K V cmp layer bf mn ln ->
  allh_l K V P (m_root _ _ mo) -> allh_l K V P (m_root _ _ mn) ->
  oks (diff _ _ cmp veq layer (Some mo) mn) (fun r =>
    oks (diff _ _ cmp veq layer (Some mn) mo) (fun r' =>
      filter (is_entry K V) r' = map (mirror K V) (filter (is_entry K V) r))).
Proof. exact (diff_reverse_is_mirror K V cmp veq layer cmp_eq cmp_antisym veq_eq P hered Pfun). Qed.
End ALGEBRA.

(** the library's key order and value test meet those hypotheses *)
Theorem C06_library_key_order_eq : forall a b, kcmp a b = Eq <-> a = b.
Proof. exact kcmp_eq. Qed.
Theorem C06_library_key_order_antisym : forall a b, kcmp b a = CompOpp (kcmp a b).
Proof. exact kcmp_antisym. Qed.
Theorem C06_library_value_test : forall x y, bytes_eqb x y = true <-> x = y.
Proof. exact bytes_eqb_eq. Qed.

(** non-vacuity: the example above, taken in the other direction, is its mirror image *)
Definition ex_a : list (key * val) := [(KUint 1%N, [49%N]); (KUint 2%N, [50%N]); (KUint 4%N, [51%N])].
Definition ex_b : list (key * val) := [(KUint 2%N, [60%N]); (KUint 4%N, [51%N]); (KUint 8%N, [61%N])].
Example C06_mirror_example :
  sdiff key val kcmp bytes_eqb ex_b ex_a = map (mirror key val) (sdiff key val kcmp bytes_eqb ex_a ex_b).
Proof. vm_compute. reflexivity. Qed.
Example C06_mirror_example_nonempty : length (sdiff key val kcmp bytes_eqb ex_a ex_b) = 3%nat.
Proof. vm_compute. reflexivity. Qed.
Example C06_self_example : sdiff key val kcmp bytes_eqb ex_a ex_a = [].
Proof. vm_compute. reflexivity. Qed.

Print Assumptions C06_diff_is_merge_difference.
Print Assumptions C06_diff_against_nil.
Print Assumptions C06_exactly_the_differing_keys.
Print Assumptions C06_ascending_once.
Print Assumptions C06_entries_only.
Print Assumptions C06_names_are_functional.
Print Assumptions C06_diff.
Print Assumptions C06_in_histories.
Print Assumptions C06_no_events_iff_equal_listings.
Print Assumptions C06_reverse_is_mirror_spec.
Print Assumptions C06_silent_iff_equal.
Print Assumptions C06_reverse_is_mirror.
Print Assumptions C06_library_key_order_eq.
Print Assumptions C06_library_key_order_antisym.
Print Assumptions C06_library_value_test.
