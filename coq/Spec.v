(** The abstract map: a strictly sorted association list with lookup / upsert / remove, and the
    "cut" of such a list at a key (everything smaller, then the rest).  Definitions and lemmas. *)
From Coq Require Import List NArith Lia Bool Sorted.
From Mast Require Import Prim Tree.
Import ListNotations.

Section SPEC.
Variables K V : Type.
Variable cmp : K -> K -> comparison.
Hypothesis cmp_eq : forall a b, cmp a b = Eq <-> a = b.
Hypothesis cmp_antisym : forall a b, cmp b a = CompOpp (cmp a b).
Hypothesis cmp_trans : forall a b c, cmp a b = Lt -> cmp b c = Lt -> cmp a c = Lt.
Notation kv := (K * V)%type.

Definition slt (a b : K) : Prop := cmp a b = Lt.
Definition ssorted (l : list kv) : Prop := StronglySorted (fun x y : kv => slt (fst x) (fst y)) l.

Fixpoint lookup (k : K) (l : list kv) : option V :=
  match l with
  | [] => None
  | (k', v) :: r => match cmp k' k with Eq => Some v | _ => lookup k r end
  end.
Fixpoint upsert (k : K) (v : V) (l : list kv) : list kv :=
  match l with
  | [] => [(k, v)]
  | (k', v') :: r =>
      match cmp k k' with
      | Lt => (k, v) :: l
      | Eq => (k, v) :: r
      | Gt => (k', v') :: upsert k v r
      end
  end.
Fixpoint remove (k : K) (l : list kv) : list kv :=
  match l with
  | [] => []
  | (k', v') :: r => match cmp k' k with Eq => r | _ => (k', v') :: remove k r end
  end.

Definition s_all_lt (l : list kv) (k : K) : Prop := Forall (fun x : kv => slt (fst x) k) l.
Definition s_all_gt (l : list kv) (k : K) : Prop := Forall (fun x : kv => slt k (fst x)) l.

Lemma slt_gt a b : slt a b -> cmp b a = Gt.
Proof. unfold slt. intros H. rewrite cmp_antisym, H. reflexivity. Qed.
Lemma cmp_refl a : cmp a a = Eq.
Proof. apply cmp_eq. reflexivity. Qed.

(** every sorted list is cut by every key *)
Inductive cut (k : K) (l : list kv) : Prop :=
| CutAbsent (a b : list kv) : l = a ++ b -> s_all_lt a k -> s_all_gt b k -> cut k l
| CutPresent (a b : list kv) (v : V) : l = a ++ (k, v) :: b -> s_all_lt a k -> s_all_gt b k -> cut k l.

Lemma sorted_cut k l : ssorted l -> cut k l.
Proof.
  induction l as [|[k' v'] r IH]; intros Hs.
  - apply (CutAbsent k [] [] []); [reflexivity|constructor|constructor].
  - inversion Hs as [|? ? Hr Hall]; subst.
    destruct (cmp k' k) eqn:E.
    + apply cmp_eq in E. subst k'. apply (CutPresent k _ [] r v'); [reflexivity|constructor|exact Hall].
    + destruct (IH Hr) as [a b El Ha Hb|a b v El Ha Hb].
      * apply (CutAbsent k _ ((k', v') :: a) b); [rewrite El; reflexivity|constructor; assumption|exact Hb].
      * apply (CutPresent k _ ((k', v') :: a) b v); [rewrite El; reflexivity|constructor; assumption|exact Hb].
    + apply (CutAbsent k _ [] ((k', v') :: r)); [reflexivity|constructor|].
      assert (Hk : slt k k') by (unfold slt; rewrite cmp_antisym, E; reflexivity).
      constructor; [exact Hk|]. eapply Forall_impl; [|exact Hall]. intros x Hx. cbn in Hx.
      exact (cmp_trans _ _ _ Hk Hx).
Qed.

Lemma lookup_lt_app a b k : s_all_lt a k -> lookup k (a ++ b) = lookup k b.
Proof.
  induction 1 as [|[k' v'] r Hx _ IH]; [reflexivity|]. cbn [app lookup]. cbn in Hx. unfold slt in Hx. rewrite Hx. exact IH.
Qed.
Lemma lookup_gt b k : s_all_gt b k -> lookup k b = None.
Proof.
  induction 1 as [|[k' v'] r Hx _ IH]; [reflexivity|]. cbn [lookup]. cbn in Hx. rewrite (slt_gt _ _ Hx). exact IH.
Qed.
Lemma lookup_absent a b k : s_all_lt a k -> s_all_gt b k -> lookup k (a ++ b) = None.
Proof. intros Ha Hb. rewrite lookup_lt_app by exact Ha. apply lookup_gt. exact Hb. Qed.
Lemma lookup_present a b k v : s_all_lt a k -> lookup k (a ++ (k, v) :: b) = Some v.
Proof. intros Ha. rewrite lookup_lt_app by exact Ha. cbn [lookup]. rewrite cmp_refl. reflexivity. Qed.

Lemma upsert_lt_app a b k v : s_all_lt a k -> upsert k v (a ++ b) = a ++ upsert k v b.
Proof.
  induction 1 as [|[k' v'] r Hx _ IH]; [reflexivity|]. cbn [app upsert]. cbn in Hx. rewrite (slt_gt _ _ Hx), IH. reflexivity.
Qed.
Lemma upsert_gt b k v : s_all_gt b k -> upsert k v b = (k, v) :: b.
Proof. destruct 1 as [|[k' v'] r Hx _]; [reflexivity|]. cbn [upsert]. cbn in Hx. unfold slt in Hx. rewrite Hx. reflexivity. Qed.
Lemma upsert_absent a b k v : s_all_lt a k -> s_all_gt b k -> upsert k v (a ++ b) = a ++ (k, v) :: b.
Proof. intros Ha Hb. rewrite upsert_lt_app by exact Ha. rewrite upsert_gt by exact Hb. reflexivity. Qed.
Lemma upsert_present a b k v v0 : s_all_lt a k -> upsert k v (a ++ (k, v0) :: b) = a ++ (k, v) :: b.
Proof. intros Ha. rewrite upsert_lt_app by exact Ha. cbn [upsert]. rewrite cmp_refl. reflexivity. Qed.

Lemma remove_lt_app a b k : s_all_lt a k -> remove k (a ++ b) = a ++ remove k b.
Proof.
  induction 1 as [|[k' v'] r Hx _ IH]; [reflexivity|]. cbn [app remove]. cbn in Hx. unfold slt in Hx. rewrite Hx, IH. reflexivity.
Qed.
Lemma remove_present a b k v0 : s_all_lt a k -> remove k (a ++ (k, v0) :: b) = a ++ b.
Proof. intros Ha. rewrite remove_lt_app by exact Ha. cbn [remove]. rewrite cmp_refl. reflexivity. Qed.

(** sortedness of the pieces and of the results *)
Lemma ssorted_app_inv a b : ssorted (a ++ b) -> ssorted a /\ ssorted b.
Proof.
  induction a as [|x a IH]; intros H; [split; [constructor|exact H]|].
  inversion H as [|? ? Hr Hall]; subst. destruct (IH Hr) as [Ha Hb]. split; [|exact Hb].
  constructor; [exact Ha|]. rewrite Forall_app in Hall. tauto.
Qed.

Lemma ssorted_app a b :
  ssorted a -> ssorted b -> (forall x y, In x a -> In y b -> slt (fst x) (fst y)) -> ssorted (a ++ b).
Proof.
  induction 1 as [|x a Ha IH Hall]; intros Hb Hab; [exact Hb|].
  cbn [app]. constructor.
  - apply IH; [exact Hb|]. intros; apply Hab; [right|]; assumption.
  - rewrite Forall_app. split; [exact Hall|]. rewrite Forall_forall. intros y Hy. apply Hab; [left; reflexivity|exact Hy].
Qed.

Lemma ssorted_mid a k v b : s_all_lt a k -> s_all_gt b k -> ssorted a -> ssorted b -> ssorted (a ++ (k, v) :: b).
Proof.
  intros Ha Hb Sa Sb. apply ssorted_app; [exact Sa| |].
  - constructor; [exact Sb|exact Hb].
  - intros x y Hx [Hy|Hy].
    + subst y. unfold s_all_lt in Ha. rewrite Forall_forall in Ha. exact (Ha x Hx).
    + unfold s_all_lt in Ha. unfold s_all_gt in Hb. rewrite Forall_forall in Ha, Hb.
      exact (cmp_trans _ _ _ (Ha x Hx) (Hb y Hy)).
Qed.

Lemma ssorted_join a b k : s_all_lt a k -> s_all_gt b k -> ssorted a -> ssorted b -> ssorted (a ++ b).
Proof.
  intros Ha Hb Sa Sb. apply ssorted_app; [exact Sa|exact Sb|].
  intros x y Hx Hy. unfold s_all_lt in Ha. unfold s_all_gt in Hb. rewrite Forall_forall in Ha, Hb.
  exact (cmp_trans _ _ _ (Ha x Hx) (Hb y Hy)).
Qed.

Lemma upsert_sorted k v l : ssorted l -> ssorted (upsert k v l).
Proof.
  intros Hs. destruct (sorted_cut k l Hs) as [a b El Ha Hb|a b v0 El Ha Hb]; subst l.
  - rewrite upsert_absent by assumption. destruct (ssorted_app_inv _ _ Hs). apply ssorted_mid; assumption.
  - rewrite upsert_present by assumption. destruct (ssorted_app_inv _ _ Hs) as [Sa Sb].
    inversion Sb; subst. apply ssorted_mid; assumption.
Qed.

Lemma remove_absent a b k : s_all_lt a k -> s_all_gt b k -> remove k (a ++ b) = a ++ b.
Proof.
  intros Ha Hb. rewrite remove_lt_app by exact Ha. f_equal.
  induction Hb as [|[k' v'] r Hx _ IH]; [reflexivity|]. cbn [remove]. cbn in Hx. rewrite (slt_gt _ _ Hx), IH. reflexivity.
Qed.

Lemma remove_sorted k l : ssorted l -> ssorted (remove k l).
Proof.
  intros Hs. destruct (sorted_cut k l Hs) as [a b El Ha Hb|a b v0 El Ha Hb]; subst l.
  - rewrite remove_absent by assumption. exact Hs.
  - rewrite remove_present by assumption. destruct (ssorted_app_inv _ _ Hs) as [Sa Sb].
    inversion Sb; subst. eapply ssorted_join; eassumption.
Qed.

Lemma length_upsert_absent (a b : list kv) (k : K) (v : V) : length (a ++ (k, v) :: b) = S (length (a ++ b)).
Proof. rewrite !app_length. cbn. lia. Qed.

End SPEC.
