(** C04 / C09: the height is a FUNCTION of the entries: [aheight bf l] computes the unique height the
    rule allows (the largest h <= the layer bound with a key of layer >= h and bf^h < size), and every
    canonical tree has exactly that height.  Lemma file. *)
From Coq Require Import List NArith ZArith Lia Bool Arith.
From Mast Require Import Prim Tree Spec Inv.
Import ListNotations.

Section HEIGHTFUN.
Variables K V : Type.
Variable cmp : K -> K -> comparison.
Variable layer : K -> nat.
Hypothesis layer_bound : forall k, layer k < max_layer_fuel.
Notation seg := (list (K * V)).

Definition has_layerb (l : seg) (h : nat) : bool := existsb (fun x : K * V => Nat.leb h (layer (fst x))) l.
Definition bigb (bf : N) (h len : nat) : bool := (pow_N bf h <? N.of_nat len)%N.
Fixpoint hfind (bf : N) (l : seg) (h : nat) : nat :=
  match h with
  | O => O
  | S h' => if has_layerb l h && bigb bf h (length l) then h else hfind bf l h'
  end.
Definition aheight (bf : N) (l : seg) : nat := hfind bf l max_layer_fuel.

Lemma has_layerb_ok l h : has_layerb l h = true <-> has_layer K V layer l h.
Proof.
  unfold has_layerb, has_layer. rewrite existsb_exists, Exists_exists. split; intros (x & Hin & Hx); exists x; (split; [exact Hin|]).
  - apply Nat.leb_le. exact Hx.
  - apply Nat.leb_le. exact Hx.
Qed.
Lemma bigb_ok bf h len : bigb bf h len = true <-> big bf h len.
Proof. unfold bigb, big. apply N.ltb_lt. Qed.

Lemma hfind_spec bf l : forall start,
  let h0 := hfind bf l start in
  h0 <= start /\ (h0 = 0 \/ (has_layer K V layer l h0 /\ big bf h0 (length l))) /\
  forall h, h0 < h <= start -> ~ (has_layer K V layer l h /\ big bf h (length l)).
Proof.
  induction start as [|s IH]; cbn [hfind].
  - split; [lia|]. split; [left; reflexivity|]. intros h Hh. lia.
  - destruct (has_layerb l (S s) && bigb bf (S s) (length l)) eqn:E.
    + apply andb_true_iff in E. destruct E as [E1 E2]. apply has_layerb_ok in E1. apply bigb_ok in E2.
      split; [lia|]. split; [right; split; assumption|]. intros h Hh. lia.
    + destruct IH as (A & B & C). split; [lia|]. split; [exact B|]. intros h Hh.
      destruct (Nat.eq_dec h (S s)) as [->|Hne].
      * intros [H1 H2]. apply has_layerb_ok in H1. apply bigb_ok in H2. rewrite H1, H2 in E. discriminate.
      * apply C. lia.
Qed.

(** the computed height satisfies the rule ... *)
Theorem aheight_rule bf l : hrule K V layer bf l (aheight bf l).
Proof.
  unfold aheight. destruct (hfind_spec bf l max_layer_fuel) as (A & B & C). split; [exact B|].
  intros [H1 H2]. destruct (Nat.le_gt_cases (S (hfind bf l max_layer_fuel)) max_layer_fuel) as [Hle|Hgt].
  - apply (C (S (hfind bf l max_layer_fuel))); [lia|split; assumption].
  - unfold has_layer in H1. apply Exists_exists in H1. destruct H1 as (x & _ & Hx). pose proof (layer_bound (fst x)). lia.
Qed.

(** ... hence it IS the height of every canonical tree with those entries *)
Theorem canon_height bf (m : mast K V) l : canon K V cmp layer bf m l -> m_height _ _ m = aheight bf l.
Proof.
  intros C. apply (hrule_unique K V layer bf l).
  - pose proof (cn_bf _ _ _ _ _ _ _ C) as H. rewrite (cn_bfeq _ _ _ _ _ _ _ C) in H. lia.
  - pose proof (cn_h _ _ _ _ _ _ _ C) as H. rewrite (cn_bfeq _ _ _ _ _ _ _ C) in H. exact H.
  - apply aheight_rule.
Qed.
End HEIGHTFUN.
