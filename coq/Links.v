(** Where hash links come from: every operation of Tree.v builds its result from links of its
    argument (it never invents a hash link), so any hereditary property of the stored nodes reachable
    through in-memory pointers is preserved.  Lemma file. *)
From Coq Require Import List NArith ZArith Lia Bool.
From Mast Require Import Prim Tree.
Import ListNotations.

(** partial correctness *)
Definition okp {A} (m : M A) (Q : A -> Prop) : Prop := forall t a, m = (t, Ok a) -> Q a.

Lemma okp_ret {A} (a : A) (Q : A -> Prop) : Q a -> okp (ret a) Q.
Proof. intros H t b E. inversion E; subst. exact H. Qed.
Lemma okp_bind {A B} (m : M A) (f : A -> M B) (Q1 : A -> Prop) (Q2 : B -> Prop) :
  okp m Q1 -> (forall a, Q1 a -> okp (f a) Q2) -> okp (bind m f) Q2.
Proof.
  intros H1 H2 t b E. unfold bind in E. destruct m as [t1 [a| | |]]; try discriminate.
  destruct (f a) as [t2 r] eqn:Ef. inversion E; subst. eapply H2; [eapply H1; reflexivity|exact Ef].
Qed.
Lemma okp_tick {B} e (k : M B) (Q : B -> Prop) : okp k Q -> okp (bind (tick e) (fun _ => k)) Q.
Proof. intros H. apply (okp_bind _ _ (fun _ => True)); [intros ? ? _; exact I|intros _ _; exact H]. Qed.
Lemma okp_fail {A} (Q : A -> Prop) : okp (@fail A) Q.
Proof. intros t a E. discriminate. Qed.
Lemma okp_panic {A} (Q : A -> Prop) : okp (@panic A) Q.
Proof. intros t a E. discriminate. Qed.
Lemma okp_nofuel {A} (Q : A -> Prop) : okp (@nofuel A) Q.
Proof. intros t a E. discriminate. Qed.

Section LINKS.
Variables K V : Type.
Variable cmp : K -> K -> comparison.
Variable veq : V -> V -> bool.
Variable layer : K -> nat.
Notation node := (node K V).
Notation link := (link K V).
Notation entry := (entry K V).

(** [P h c]: what is known about the node c stored under the name h *)
Variable P : name -> node -> Prop.

Inductive allh : node -> Prop :=
| allh_node d s l0 (es : list entry) :
    allh_l l0 -> Forall (fun e : entry => allh_l (elink _ _ e)) es ->
    (* a clean node with a source, held by pointer (the root of a clone of a persisted tree), is that stored node *)
    (d = false -> forall h, s = Some h -> P h (Node d s l0 es)) ->
    allh (Node d s l0 es)
with allh_l : link -> Prop :=
| ah_nil : allh_l LNil
| ah_ptr c : allh c -> allh_l (LPtr c)
| ah_hash h c : P h c -> allh_l (LHash h c).

Hypothesis hered : forall h c, P h c -> allh c.

Lemma allh_inv n : allh n -> allh_l (n_l0 _ _ n) /\ Forall (fun e : entry => allh_l (elink _ _ e)) (n_es _ _ n).
Proof. intros H. inversion H; subst. split; assumption. Qed.

Lemma allh_mk l0 (es : list entry) : allh_l l0 -> Forall (fun e : entry => allh_l (elink _ _ e)) es -> allh (mk_dirty _ _ l0 es).
Proof. intros. constructor; try assumption. discriminate. Qed.

Lemma allh_fresh : allh (fresh_node K V).
Proof. constructor; try constructor. intros _ h E. discriminate. Qed.

Lemma allh_clean n h : allh n -> n_dirty _ _ n = false -> n_src _ _ n = Some h -> P h n.
Proof. intros H Hd Hs. inversion H; subst. cbn in Hd, Hs. subst. auto. Qed.

Lemma allh_link_of n : allh n -> allh_l (link_of _ _ n).
Proof. intros H. unfold link_of. destruct (is_empty _ _ n); constructor. exact H. Qed.

Lemma load_allh l : allh_l l -> okp (load _ _ l) allh.
Proof.
  intros H. destruct l as [|c|h c|h]; cbn [load].
  - apply okp_fail.
  - apply okp_ret. inversion H; assumption.
  - apply okp_tick. apply okp_ret. inversion H; subst. apply (hered h c). assumption.
  - inversion H.
Qed.

Definition links_ok (es : list entry) : Prop := Forall (fun e : entry => allh_l (elink _ _ e)) es.

Lemma span_lt_ok k (es : list entry) : links_ok es ->
  links_ok (fst (span_lt _ _ cmp k es)) /\ links_ok (snd (span_lt _ _ cmp k es)).
Proof.
  induction 1 as [|e r He Hr IH]; [split; constructor|].
  cbn [span_lt]. destruct (klt _ cmp (ekey _ _ e) k).
  - destruct (span_lt _ _ cmp k r) as [a b]. cbn [fst snd] in *. destruct IH. split; [constructor; assumption|assumption].
  - cbn [fst snd]. split; [constructor|constructor; assumption].
Qed.

Lemma last_link_ok l0 (es : list entry) : allh_l l0 -> links_ok es -> allh_l (last_link _ _ l0 es).
Proof.
  intros H0 Hes. unfold last_link. destruct (rev es) as [|e r] eqn:E; [exact H0|].
  unfold links_ok in Hes. rewrite Forall_forall in Hes. apply Hes. apply in_rev. rewrite E. left. reflexivity.
Qed.

Lemma set_last_link_ok l0 (es : list entry) nl : allh_l l0 -> links_ok es -> allh_l nl ->
  allh_l (fst (set_last_link _ _ l0 es nl)) /\ links_ok (snd (set_last_link _ _ l0 es nl)).
Proof.
  intros H0 Hes Hnl. unfold set_last_link. destruct (rev es) as [|[[k v] l] r] eqn:E; cbn [fst snd].
  - split; [exact Hnl|constructor].
  - split; [exact H0|]. unfold links_ok. apply Forall_app. split.
    + apply Forall_rev. assert (Hr : links_ok (rev es)) by (apply Forall_rev; exact Hes). rewrite E in Hr. inversion Hr; assumption.
    + constructor; [exact Hnl|constructor].
Qed.

Lemma links_ok_app (a b : list entry) : links_ok a -> links_ok b -> links_ok (a ++ b).
Proof. intros. apply Forall_app. split; assumption. Qed.

(** * split *)
Lemma on_link_split_ok (sp : node -> M (link * link)) (l : link) :
  allh_l l -> (forall c, allh c -> okp (sp c) (fun r => allh_l (fst r) /\ allh_l (snd r))) ->
  okp (on_link _ _ l (LNil, LNil) sp) (fun r => allh_l (fst r) /\ allh_l (snd r)).
Proof.
  intros Hl Hsp. destruct l as [|c|h c|h]; cbn [on_link].
  - apply okp_ret. split; constructor.
  - apply (okp_bind _ _ _ _ (load_allh _ Hl)). exact Hsp.
  - apply (okp_bind _ _ _ _ (load_allh _ Hl)). exact Hsp.
  - inversion Hl.
Qed.

Lemma split_allh : forall fuel k n, allh n -> okp (split _ _ cmp fuel k n) (fun r => allh_l (fst r) /\ allh_l (snd r)).
Proof.
  induction fuel as [|f IH]; intros k n Hn; [apply okp_nofuel|].
  cbn [split]. apply okp_tick. destruct (allh_inv _ Hn) as [H0 Hes].
  destruct (span_lt_ok k _ Hes) as [Hles Hrs]. destruct (span_lt _ _ cmp k (n_es _ _ n)) as [les rs]. cbn [fst snd] in *.
  destruct (hits _ _ cmp k rs); [apply okp_panic|].
  apply (okp_bind _ _ _ _ (on_link_split_ok _ _ (last_link_ok _ _ H0 Hles) (IH k))). intros [lm' tooBig] [Hlm HtB]. cbn [fst snd] in *.
  destruct (set_last_link_ok _ _ _ H0 Hles Hlm) as [Hl0' Hles']. destruct (set_last_link _ _ (n_l0 _ _ n) les lm') as [l0' les']. cbn [fst snd] in *.
  apply (okp_bind _ _ _ _ (on_link_split_ok _ _ HtB (IH k))). intros [tooSmall rm'] [Hts Hrm]. cbn [fst snd] in *.
  destruct (is_nil _ _ tooSmall); [|apply okp_panic]. apply okp_ret. cbn [fst snd].
  split; apply allh_link_of; apply allh_mk; assumption.
Qed.

(** * merge *)
Lemma merge_allh : forall fuel (a b : link), allh_l a -> allh_l b -> okp (merge _ _ fuel a b) allh_l.
Proof.
  induction fuel as [|f IH]; intros a b Ha Hb.
  - destruct a; destruct b; cbn [merge]; try (apply okp_ret; assumption); apply okp_nofuel.
  - assert (Hm : okp (let* na := load _ _ a in
                       let* nb := load _ _ b in
                       let* m := merge _ _ f (last_link _ _ (n_l0 _ _ na) (n_es _ _ na)) (n_l0 _ _ nb) in
                       let (l0', aes') := set_last_link _ _ (n_l0 _ _ na) (n_es _ _ na) m in
                       ret (LPtr (mk_dirty _ _ l0' (aes' ++ n_es _ _ nb)))) allh_l).
    { apply (okp_bind _ _ _ _ (load_allh _ Ha)). intros na Hna.
      apply (okp_bind _ _ _ _ (load_allh _ Hb)). intros nb Hnb.
      destruct (allh_inv _ Hna) as [Ha0 Haes]. destruct (allh_inv _ Hnb) as [Hb0 Hbes].
      apply (okp_bind _ _ _ _ (IH _ _ (last_link_ok _ _ Ha0 Haes) Hb0)). intros m Hm.
      destruct (set_last_link_ok _ _ _ Ha0 Haes Hm) as [Hl0' Haes'].
      destruct (set_last_link _ _ (n_l0 _ _ na) (n_es _ _ na) m) as [l0' aes']. cbn [fst snd] in *.
      apply okp_ret. constructor. apply allh_mk; [assumption|apply links_ok_app; assumption]. }
    destruct a; destruct b; cbn [merge]; try (apply okp_ret; assumption); try exact Hm; try (inversion Ha; fail); inversion Hb.
Qed.

(** * ins *)
Definition ins_res_ok (r : ins_res K V) : Prop :=
  match r with INoop => True | IUpd n => allh n | IIns n => allh n end.

Lemma ins_allh : forall fuel cur target k v n, allh n -> okp (ins _ _ cmp veq fuel cur target k v n) ins_res_ok.
Proof.
  induction fuel as [|f IH]; intros cur target k v n Hn; [apply okp_nofuel|].
  cbn [ins]. apply okp_tick. destruct (allh_inv _ Hn) as [H0 Hes].
  destruct (span_lt_ok k _ Hes) as [Hles Hrs]. destruct (span_lt _ _ cmp k (n_es _ _ n)) as [les rs]. cbn [fst snd] in *.
  destruct (hits _ _ cmp k rs).
  - destruct (negb (Nat.eqb cur target)); [apply okp_panic|].
    destruct rs as [|[[k' v'] l] rs']; [apply okp_panic|].
    destruct (veq v' v); apply okp_ret; [exact I|]. cbn [ins_res_ok]. apply allh_mk; [exact H0|].
    apply links_ok_app; [exact Hles|]. unfold links_ok in Hrs. inversion Hrs as [|? ? Hl Hr']; subst. constructor; [exact Hl|exact Hr'].
  - destruct (Nat.eqb cur target).
    + apply (okp_bind _ _ _ _ (on_link_split_ok _ _ (last_link_ok _ _ H0 Hles) (split_allh f k))). intros [ll rl] [Hll Hrl]. cbn [fst snd] in *.
      destruct (set_last_link_ok _ _ _ H0 Hles Hll) as [Hl0' Hles']. destruct (set_last_link _ _ (n_l0 _ _ n) les ll) as [l0' les']. cbn [fst snd] in *.
      apply okp_ret. cbn [ins_res_ok]. apply allh_mk; [assumption|]. apply links_ok_app; [assumption|]. constructor; assumption.
    + pose proof (last_link_ok _ _ H0 Hles) as Hchild.
      eapply okp_bind.
      * instantiate (1 := allh). destruct (last_link _ _ (n_l0 _ _ n) les) eqn:El; try (apply (load_allh _ Hchild)).
        apply okp_ret. apply allh_fresh.
      * intros c Hc. apply (okp_bind _ _ _ _ (IH (cur - 1) target k v c Hc)). intros r Hr.
        assert (Hup : forall c', allh c' ->
           allh (let (l0', les') := set_last_link _ _ (n_l0 _ _ n) les (link_of _ _ c') in mk_dirty _ _ l0' (les' ++ rs))).
        { intros c' Hc'. destruct (set_last_link_ok _ _ _ H0 Hles (allh_link_of _ Hc')) as [A B].
          destruct (set_last_link _ _ (n_l0 _ _ n) les (link_of _ _ c')) as [l0' les']. cbn [fst snd] in *.
          apply allh_mk; [assumption|apply links_ok_app; assumption]. }
        destruct r as [|c'|c']; apply okp_ret; cbn [ins_res_ok] in *; [exact I|apply Hup; exact Hr|apply Hup; exact Hr].
Qed.

(** * del *)
Lemma del_allh : forall fuel cur target k v n, allh n -> okp (del _ _ cmp veq fuel cur target k v n) allh.
Proof.
  induction fuel as [|f IH]; intros cur target k v n Hn; [apply okp_nofuel|].
  cbn [del]. apply okp_tick. destruct (allh_inv _ Hn) as [H0 Hes].
  destruct (span_lt_ok k _ Hes) as [Hles Hrs]. destruct (span_lt _ _ cmp k (n_es _ _ n)) as [les rs]. cbn [fst snd] in *.
  destruct (hits _ _ cmp k rs).
  - destruct (negb (Nat.eqb cur target)); [apply okp_fail|].
    destruct rs as [|[[k' v'] l] rs']; [apply okp_fail|].
    destruct (veq v' v); [|apply okp_fail]. unfold links_ok in Hrs. inversion Hrs as [|? ? Hl Hr']; subst. cbn [elink snd] in Hl.
    apply (okp_bind _ _ _ _ (merge_allh f _ _ (last_link_ok _ _ H0 Hles) Hl)). intros m Hm.
    destruct (set_last_link_ok _ _ _ H0 Hles Hm) as [A B]. destruct (set_last_link _ _ (n_l0 _ _ n) les m) as [l0' les']. cbn [fst snd] in *.
    apply okp_ret. apply allh_mk; [assumption|apply links_ok_app; assumption].
  - destruct (Nat.eqb cur target); [apply okp_fail|].
    pose proof (last_link_ok _ _ H0 Hles) as Hchild.
    assert (Hb : okp (let* c := load _ _ (last_link _ _ (n_l0 _ _ n) les) in
                      let* c' := del _ _ cmp veq f (cur - 1) target k v c in
                      let (l0', les') := set_last_link _ _ (n_l0 _ _ n) les (link_of _ _ c') in
                      ret (mk_dirty _ _ l0' (les' ++ rs))) allh).
    { apply (okp_bind _ _ _ _ (load_allh _ Hchild)). intros c Hc.
      apply (okp_bind _ _ _ _ (IH (cur - 1) target k v c Hc)). intros c' Hc'.
      destruct (set_last_link_ok _ _ _ H0 Hles (allh_link_of _ Hc')) as [A B].
      destruct (set_last_link _ _ (n_l0 _ _ n) les (link_of _ _ c')) as [l0' les']. cbn [fst snd] in *.
      apply okp_ret. apply allh_mk; [assumption|apply links_ok_app; assumption]. }
    destruct (last_link _ _ (n_l0 _ _ n) les); [apply okp_fail|exact Hb|exact Hb|exact Hb].
Qed.

(** * grow / shrink *)
Lemma grow_es_allh h : forall (es : list entry) cl0 (acc : list entry),
  allh_l cl0 -> links_ok acc -> links_ok es ->
  allh_l (fst (grow_es _ _ layer h cl0 acc es)) /\ links_ok (snd (grow_es _ _ layer h cl0 acc es)).
Proof.
  induction es as [|[[k v] l] r IH]; intros cl0 acc H0 Hacc Hes.
  - cbn [grow_es fst snd]. split; [|constructor]. unfold extract. apply allh_link_of. apply allh_mk; [exact H0|apply Forall_rev; exact Hacc].
  - inversion Hes; subst. cbn [elink snd] in *. cbn [grow_es]. destruct (Nat.ltb h (layer k)).
    + destruct (IH l [] ltac:(assumption) (Forall_nil _) ltac:(assumption)) as [A B].
      destruct (grow_es _ _ layer h l [] r) as [nl nes]. cbn [fst snd] in *. split.
      * unfold extract. apply allh_link_of. apply allh_mk; [exact H0|apply Forall_rev; exact Hacc].
      * constructor; assumption.
    + apply IH; [exact H0|constructor; assumption|assumption].
Qed.

Lemma grow_node_allh h n : allh n -> allh (grow_node _ _ layer h n).
Proof.
  intros Hn. destruct (allh_inv _ Hn) as [H0 Hes]. unfold grow_node.
  destruct (grow_es_allh h _ _ [] H0 (Forall_nil _) Hes) as [A B].
  destruct (grow_es _ _ layer h (n_l0 _ _ n) [] (n_es _ _ n)). cbn [fst snd] in *. apply allh_mk; assumption.
Qed.

Lemma child_parts_allh (l : link) : allh_l l -> okp (child_parts _ _ l) (fun r => allh_l (fst r) /\ links_ok (snd r)).
Proof.
  intros Hl. assert (Hb : okp (let* c := load _ _ l in ret (n_l0 _ _ c, n_es _ _ c)) (fun r => allh_l (fst r) /\ links_ok (snd r))).
  { apply (okp_bind _ _ _ _ (load_allh _ Hl)). intros c Hc. apply okp_ret. exact (allh_inv _ Hc). }
  destruct l; cbn [child_parts]; [apply okp_ret; split; constructor|exact Hb|exact Hb|exact Hb].
Qed.

Lemma shrink_es_allh : forall (es : list entry), links_ok es -> okp (shrink_es _ _ es) links_ok.
Proof.
  induction es as [|[[k v] l] r IH]; intros Hes; [apply okp_ret; constructor|].
  inversion Hes; subst. cbn [elink snd] in *. cbn [shrink_es].
  apply (okp_bind _ _ _ _ (child_parts_allh l ltac:(assumption))). intros [q0 qes] [A B]. cbn [fst snd] in *.
  apply (okp_bind _ _ _ _ (IH ltac:(assumption))). intros rest Hrest. apply okp_ret.
  constructor; [exact A|apply links_ok_app; assumption].
Qed.

Lemma shrink_node_allh n : allh n -> okp (shrink_node _ _ n) allh.
Proof.
  intros Hn. destruct (allh_inv _ Hn) as [H0 Hes]. unfold shrink_node.
  apply (okp_bind _ _ _ _ (child_parts_allh _ H0)). intros [p0 pes] [A B]. cbn [fst snd] in *.
  apply (okp_bind _ _ _ _ (shrink_es_allh _ Hes)). intros rest Hrest. apply okp_ret.
  apply allh_mk; [exact A|apply links_ok_app; assumption].
Qed.

End LINKS.
