(** The binary-format instances of Reload.v under their old names: the files that state their
    theorems for the default node format (v1.1.5binary) import this after Reload. *)
From Mast Require Export Reload.
From Mast Require Import Prim Codec.
Notation clone_allh := (Reload.clone_allh Codec.FBin) (only parsing).
Notation cycles_ok := (Reload.cycles_ok Codec.FBin) (only parsing).
Notation delete_allh := (Reload.delete_allh Codec.FBin) (only parsing).
Notation entry_ok := (Reload.entry_ok Codec.FBin) (only parsing).
Notation first_node_allh := (Reload.first_node_allh Codec.FBin) (only parsing).
Notation flush_nonnil := (Reload.flush_nonnil Codec.FBin) (only parsing).
Notation grow_allh := (Reload.grow_allh Codec.FBin) (only parsing).
Notation grow_loop_allh := (Reload.grow_loop_allh Codec.FBin) (only parsing).
Notation insert_allh := (Reload.insert_allh Codec.FBin) (only parsing).
Notation kv_ok := (Reload.kv_ok Codec.FBin) (only parsing).
Notation list_ok := (Reload.list_ok Codec.FBin) (only parsing).
Notation list_ok_incl := (Reload.list_ok_incl Codec.FBin) (only parsing).
Notation list_ok_remove := (Reload.list_ok_remove Codec.FBin) (only parsing).
Notation load_canon := (Reload.load_canon Codec.FBin) (only parsing).
Notation load_canon_empty := (Reload.load_canon_empty Codec.FBin) (only parsing).
Notation name_ok := (Reload.name_ok Codec.FBin) (only parsing).
Notation pcond := (Reload.pcond Codec.FBin) (only parsing).
Notation pconds := (Reload.pconds Codec.FBin) (only parsing).
Notation persist_then_load := (Reload.persist_then_load Codec.FBin) (only parsing).
Notation pinv := (Reload.pinv Codec.FBin) (only parsing).
Notation prun := (Reload.prun Codec.FBin) (only parsing).
Notation pstep := (Reload.pstep Codec.FBin) (only parsing).
Notation pstep_ok := (Reload.pstep_ok Codec.FBin) (only parsing).
Notation resolve_sto := (Reload.resolve_sto Codec.FBin) (only parsing).
Notation root_allh := (Reload.root_allh Codec.FBin) (only parsing).
Notation root_allh_mono := (Reload.root_allh_mono Codec.FBin) (only parsing).
Notation root_allh_of_node := (Reload.root_allh_of_node Codec.FBin) (only parsing).
Notation root_node_allh := (Reload.root_node_allh Codec.FBin) (only parsing).
Notation set_size_allh := (Reload.set_size_allh Codec.FBin) (only parsing).
Notation shrink_allh := (Reload.shrink_allh Codec.FBin) (only parsing).
Notation shrink_loop_allh := (Reload.shrink_loop_allh Codec.FBin) (only parsing).
Notation stl := (Reload.stl Codec.FBin) (only parsing).
Notation sto := (Reload.sto Codec.FBin) (only parsing).
Notation sto_hered := (Reload.sto_hered Codec.FBin) (only parsing).
Notation sto_l := (Reload.sto_l Codec.FBin) (only parsing).
Notation sto_l_mono := (Reload.sto_l_mono Codec.FBin) (only parsing).
Notation sto_mono := (Reload.sto_mono Codec.FBin) (only parsing).
Notation sto_mono' := (Reload.sto_mono' Codec.FBin) (only parsing).
Notation store_node_sto := (Reload.store_node_sto Codec.FBin) (only parsing).
