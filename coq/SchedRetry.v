(** Retries of a persist whose writes fail (C03: "a later attempt may succeed only once every
    reachable node really is in the store").  The version being persisted has [N] nodes; [dirty]
    lists those the tree still holds as not-yet-persisted, [stored] those the store holds.  One
    attempt queues the dirty nodes into the worker pool of Sched.v (any fault set, any
    interleaving).  pub.go runs the commit closures (which mark the nodes clean) only when no write
    failed: a failed attempt leaves [dirty] as it was and adds whatever writes completed; a
    successful one empties it.  Invariant over any number of attempts: no node is ever clean but
    unwritten. *)
From Coq Require Import List Arith Lia Bool Relations.
From Mast Require Import Sched.
Import ListNotations.

Section RETRY.
Variable N : nat.

Record rst := RSt { dirty : list nat; stored : list nat }.

Definition written (r : rst) (s : sst) : list nat := map (fun p => nth p (dirty r) 0) (s_stored s).

Inductive attempt : rst -> bool -> rst -> Prop :=
| AttemptOk r bad s : reach (length (dirty r)) bad s -> can_return (length (dirty r)) s -> result_ok s = true ->
    attempt r true (RSt [] (written r s ++ stored r))
| AttemptErr r bad s : reach (length (dirty r)) bad s -> can_return (length (dirty r)) s -> result_ok s = false ->
    attempt r false (RSt (dirty r) (written r s ++ stored r)).

Definition covered (r : rst) : Prop := forall i, i < N -> In i (dirty r) \/ In i (stored r).

Lemma attempt_covered r ok r' : covered r -> attempt r ok r' -> covered r'.
Proof.
  intros C A. destruct A as [r bad s R Ret Ok | r bad s R Ret Er]; intros i Hi; cbn [dirty stored].
  - right. apply in_or_app. destruct (C i Hi) as [D | S]; [left | right; exact S].
    destruct (In_nth _ _ 0 D) as (p & Hp & E).
    destruct (return_ok_complete _ _ s R Ret Ok p Hp) as [St _].
    unfold written. rewrite <- E. apply in_map with (f := fun p => nth p (dirty r) 0). exact St.
  - destruct (C i Hi) as [D | S]; [left; exact D | right; apply in_or_app; right; exact S].
Qed.

Lemma attempt_store_grows r ok r' : attempt r ok r' -> forall i, In i (stored r) -> In i (stored r').
Proof. intros A i Hi. destruct A; cbn [stored]; apply in_or_app; right; exact Hi. Qed.

(* any number of attempts, each with its own failing writes and interleaving *)
Inductive attempts : rst -> rst -> Prop :=
| ANone r : attempts r r
| AMore r ok r' r'' : attempt r ok r' -> attempts r' r'' -> attempts r r''.

Lemma attempts_covered r r' : attempts r r' -> covered r -> covered r'.
Proof. induction 1 as [r | r ok r' r'' A _ IH]; intros C; [exact C | apply IH; eapply attempt_covered; eassumption]. Qed.

Lemma attempts_store_grows r r' : attempts r r' -> forall i, In i (stored r) -> In i (stored r').
Proof. induction 1 as [r | r ok r' r'' A _ IH]; intros i Hi; [exact Hi | apply IH; eapply attempt_store_grows; eassumption]. Qed.

(** after any sequence of failed and successful attempts, an attempt that reports success leaves
    every node of the version in the store - whether it wrote the node itself, an earlier
    (possibly failed) attempt did, or it was there from the start *)
Theorem success_means_all_stored r0 r r' :
  covered r0 -> attempts r0 r -> attempt r true r' -> forall i, i < N -> In i (stored r').
Proof.
  intros C As A i Hi.
  assert (C' : covered r') by (eapply attempt_covered; [eapply attempts_covered; eassumption | exact A]).
  inversion A as [r1 bad s R Ret Ok E1 E2 E3 | ]; subst.
  destruct (C' i Hi) as [D | S]; [destruct D | exact S].
Qed.

(** a failed attempt leaves the tree's bookkeeping exactly as it was: the next attempt queues the same writes *)
Theorem failure_keeps_dirty r r' : attempt r false r' -> dirty r' = dirty r.
Proof. intros A. inversion A; subst; reflexivity. Qed.

End RETRY.

(** non-vacuity: a version of two nodes; the first attempt writes node 0 and fails on node 1, the
    second writes both (node 0 again: the tree still holds it as dirty) and reports success *)
Lemma reach_step n bad s s' : reach n bad s -> step n bad s s' -> reach n bad s'.
Proof. intros R S. eapply rt_trans; [exact R | apply rt_step; exact S]. Qed.

Example retry_after_failure :
  exists r1 r2, attempt (RSt [0; 1] []) false r1 /\ attempt r1 true r2 /\                stored r1 = [0] /\ dirty r1 = [0; 1] /\ dirty r2 = [] /\ covered 2 (RSt [0; 1] []).
Proof.
  set (bad1 := fun i => Nat.eqb i 1). set (bad2 := fun _ : nat => false).
  assert (R1 : reach 2 bad1 (SSt 2 [] [] [0] [] [1] true)).
  { pose proof (rt_refl _ (step 2 bad1) (init)) as R. fold (reach 2 bad1 init) in R.
    eapply reach_step in R; [ | apply Start; cbn; lia ]; cbn in R.
    eapply reach_step in R; [ | apply (Enter _ _ _ 0); [cbn; auto | reflexivity] ]; cbn in R.
    eapply reach_step in R; [ | apply (FinishOk _ _ _ 0); [cbn; auto | reflexivity] ]; cbn in R.
    eapply reach_step in R; [ | apply Start; cbn; lia ]; cbn in R.
    eapply reach_step in R; [ | apply (Enter _ _ _ 1); [cbn; auto | reflexivity] ]; cbn in R.
    eapply reach_step in R; [ | apply (FinishErr _ _ _ 1); [cbn; auto | reflexivity] ]; cbn in R.
    exact R. }
  assert (R2 : reach 2 bad2 (SSt 2 [] [] [1; 0] [] [] false)).
  { pose proof (rt_refl _ (step 2 bad2) (init)) as R. fold (reach 2 bad2 init) in R.
    eapply reach_step in R; [ | apply Start; cbn; lia ]; cbn in R.
    eapply reach_step in R; [ | apply (Enter _ _ _ 0); [cbn; auto | reflexivity] ]; cbn in R.
    eapply reach_step in R; [ | apply (FinishOk _ _ _ 0); [cbn; auto | reflexivity] ]; cbn in R.
    eapply reach_step in R; [ | apply Start; cbn; lia ]; cbn in R.
    eapply reach_step in R; [ | apply (Enter _ _ _ 1); [cbn; auto | reflexivity] ]; cbn in R.
    eapply reach_step in R; [ | apply (FinishOk _ _ _ 1); [cbn; auto | reflexivity] ]; cbn in R.
    exact R. }
  eexists; eexists. split; [ | split].
  - apply (AttemptErr (RSt [0; 1] []) bad1 _ R1); [repeat split | reflexivity].
  - cbn. apply (AttemptOk (RSt [0; 1] [0]) bad2 _ R2); [repeat split | reflexivity].
  - cbn. repeat split. intros i Hi. left. cbn. lia.
Qed.
