(** C11 with persists AND reloads: every owner persists into and reloads from the shared stores, and
    still observes in ANY interleaving exactly what it observes running alone.  Shown through the
    abstract world: by [history_refines2] the implementation model observes what the abstract world
    observes (in the interleaved run and in the run alone), and in the abstract world an operation
    reads and writes only the trees and roots it names.  Lemma file. *)
From Coq Require Import List NArith ZArith Lia Bool Sorted.
From Mast Require Import Prim Key Tree KeyOrder Codec Store Diff World Erase Build Spec Canon Links Level Inv Persist Hist Reload WorldInv.
Import ListNotations.

Definition ids := N -> bool.

(** the operation names tree and root ids of T only *)
Definition op_own (T : ids) (o : op) : bool :=
  match o with
  | ONew t _ _ _ _ => T t
  | OIns t _ _ | ODel t _ _ | OGet t _ | OSize t | OHeight t | OIter t | OSeek t _ | OIterStop t _ | OSeekStop t _ _ => T t
  | OClone t t2 => T t && T t2
  | OMakeRoot t r => T t && T r
  | OLoad r t _ _ => T r && T t
  | ODiff tn told | ODiffStop tn told _ | ODiffFail tn told _ | ODiffCur tn told =>
      T tn && match told with Some i => T i | None => true end
  | _ => false
  end.

Definition aagree (T : ids) (a1 a2 : aworld2) : Prop :=
  forall i, T i = true -> aget (fst a1) i = aget (fst a2) i /\ aget (snd a1) i = aget (snd a2) i.

Lemma aget_aset2 {A} (l1 l2 : list (N * A)) i j x : aget l1 j = aget l2 j -> aget (aset l1 i x) j = aget (aset l2 i x) j.
Proof.
  intros H. destruct (N.eq_dec i j) as [->|Hne]; [rewrite !aget_aset_same; reflexivity|rewrite !aget_aset_other by exact Hne; exact H].
Qed.

(** an owned operation behaves the same in any two abstract worlds that agree on what the owner owns *)
Lemma astep2_local T a1 a2 o : op_own T o = true -> aagree T a1 a2 ->
  aagree T (fst (astep2 a1 o)) (fst (astep2 a2 o)) /\ snd (astep2 a1 o) = snd (astep2 a2 o).
Proof.
  intros Hok Hag. destruct a1 as [t1 r1]. destruct a2 as [t2 r2].
  assert (HT : forall i, T i = true -> aget t1 i = aget t2 i) by (intros i Ti; exact (proj1 (Hag i Ti))).
  assert (HR : forall i, T i = true -> aget r1 i = aget r2 i) by (intros i Ti; exact (proj2 (Hag i Ti))).
  assert (Hset_t : forall i x, aagree T (aset t1 i x, r1) (aset t2 i x, r2)).
  { intros i x j Tj. cbn [fst snd]. split; [apply aget_aset2; apply HT; exact Tj|apply HR; exact Tj]. }
  assert (Hset_r : forall i x, aagree T (t1, aset r1 i x) (t2, aset r2 i x)).
  { intros i x j Tj. cbn [fst snd]. split; [apply HT; exact Tj|apply aget_aset2; apply HR; exact Tj]. }
  destruct o; cbn [op_own] in Hok; try discriminate; cbn [astep2].
  all: try (apply andb_true_iff in Hok; destruct Hok as [Ha Hb]).
  all: try (rewrite <- (HT t Hok)); try (rewrite <- (HT t Ha)); try (rewrite <- (HT tn Ha)); try (rewrite <- (HR r Ha)).
  - (* ONew *) split; [apply Hset_t|reflexivity].
  - destruct (aget t1 t); [split; [apply Hset_t|reflexivity]|split; [exact Hag|reflexivity]].
  - destruct (aget t1 t) as [x|]; [|split; [exact Hag|reflexivity]].
    destruct (alookup k (at_l x)) as [v'|]; [|split; [exact Hag|reflexivity]].
    destruct (bytes_eqb v' v); [split; [apply Hset_t|reflexivity]|split; [exact Hag|reflexivity]].
  - destruct (aget t1 t); split; try exact Hag; reflexivity.
  - destruct (aget t1 t); split; try exact Hag; reflexivity.
  - destruct (aget t1 t); split; try exact Hag; reflexivity.
  - destruct (aget t1 t); split; try exact Hag; reflexivity.
  - destruct (aget t1 t); split; try exact Hag; reflexivity.
  - destruct (aget t1 t); [split; [apply Hset_t|reflexivity]|split; [exact Hag|reflexivity]].
  - destruct (aget t1 t); [split; [apply Hset_r|reflexivity]|split; [exact Hag|reflexivity]].
  - destruct (aget r1 r); [split; [apply Hset_t|reflexivity]|split; [exact Hag|reflexivity]].
  - assert (Eo : old_list (t1, r1) told = old_list (t2, r2) told).
    { unfold old_list. destruct told as [i|]; [|reflexivity]. cbn [fst]. rewrite (HT i Hb). reflexivity. }
    rewrite Eo. destruct (aget t1 tn); split; try exact Hag; reflexivity.
  - assert (Eo : old_list (t1, r1) told = old_list (t2, r2) told).
    { unfold old_list. destruct told as [i|]; [|reflexivity]. cbn [fst]. rewrite (HT i Hb). reflexivity. }
    rewrite Eo. destruct (aget t1 tn); split; try exact Hag; reflexivity.
  - assert (Eo : old_list (t1, r1) told = old_list (t2, r2) told).
    { unfold old_list. destruct told as [i|]; [|reflexivity]. cbn [fst]. rewrite (HT i Hb). reflexivity. }
    rewrite Eo. destruct (aget t1 tn); split; try exact Hag; reflexivity.
  - assert (Eo : old_list (t1, r1) told = old_list (t2, r2) told).
    { unfold old_list. destruct told as [i|]; [|reflexivity]. cbn [fst]. rewrite (HT i Hb). reflexivity. }
    rewrite Eo. destruct (aget t1 tn); split; try exact Hag; reflexivity.
  - destruct (aget t1 t); split; try exact Hag; reflexivity.
  - destruct (aget t1 t); split; try exact Hag; reflexivity.
Qed.

(** ... and leaves what it does not own untouched *)
Lemma astep2_frame T a o i : op_own T o = true -> T i = false ->
  aget (fst (fst (astep2 a o))) i = aget (fst a) i /\ aget (snd (fst (astep2 a o))) i = aget (snd a) i.
Proof.
  intros Hok Ti. destruct a as [tr ro]. destruct o; cbn [op_own] in Hok; try discriminate; try (apply andb_true_iff in Hok; destruct Hok as [Ha Hb]);
    cbn [astep2 fst snd];
    repeat match goal with
           | |- context [match ?x with _ => _ end] => destruct x eqn:?; cbn [fst snd]
           end;
    repeat split; try reflexivity; try (rewrite aget_aset_other; [reflexivity|intros ->; congruence]).
Qed.

Section INTERLEAVE.
Variable owner_ids : nat -> ids.          (* what each owner owns: tree and root ids *)
Variable a : nat.                          (* the owner we watch *)
Hypothesis disjoint : forall j i, j <> a -> owner_ids j i = true -> owner_ids a i = false.

Definition tagged := (nat * op)%type.
Definition all_own (l : list tagged) : bool := forallb (fun p => op_own (owner_ids (fst p)) (snd p)) l.
Definition mine (l : list tagged) : list op := map snd (filter (fun p => Nat.eqb (fst p) a) l).

(* what owner a observes, abstractly, in the interleaved history *)
Fixpoint aobserved (x : aworld2) (l : list tagged) : list aobs2 :=
  match l with
  | [] => []
  | (j, o) :: r => let (x', ob) := astep2 x o in if Nat.eqb j a then ob :: aobserved x' r else aobserved x' r
  end.

Lemma abstract_alone : forall l x xa, all_own l = true -> aagree (owner_ids a) x xa -> aobserved x l = arun2 xa (mine l).
Proof.
  induction l as [|[j o] r IH]; intros x xa Hok Hag; [reflexivity|].
  cbn [all_own forallb fst snd] in Hok. apply andb_true_iff in Hok. destruct Hok as [Ho Hr].
  unfold mine. cbn [aobserved filter fst]. destruct (Nat.eqb j a) eqn:Ej.
  - apply Nat.eqb_eq in Ej. subst j. cbn [map snd arun2]. fold (mine r).
    pose proof (astep2_local (owner_ids a) x xa o Ho Hag) as (Hag' & Hob).
    destruct (astep2 x o) as [x' ob]. destruct (astep2 xa o) as [xa' ob']. cbn [fst snd] in *. subst. f_equal. apply IH; assumption.
  - apply Nat.eqb_neq in Ej. fold (mine r). destruct (astep2 x o) as [x' ob] eqn:Es. apply IH; [exact Hr|].
    intros i Ti. assert (Tj : owner_ids j i = false).
    { destruct (owner_ids j i) eqn:E; [|reflexivity]. rewrite (disjoint j i Ej E) in Ti. discriminate. }
    pose proof (astep2_frame (owner_ids j) x o i Ho Tj) as (H1 & H2). rewrite Es in H1, H2. cbn [fst] in *.
    destruct (Hag i Ti) as (A & B). split; congruence.
Qed.

(* the same for the implementation model: the observations of a's steps *)
Fixpoint observed_p (w : world) (l : list tagged) : list aobs2 :=
  match l with
  | [] => []
  | (j, o) :: r => let '(w', ob, _) := step w o in if Nat.eqb j a then pobs ob :: observed_p w' r else observed_p w' r
  end.

Lemma observed_refines : forall l w x, winv2 w x -> conds w x (map snd l) -> observed_p w l = aobserved x l.
Proof.
  induction l as [|[j o] r IH]; intros w x Hinv Hc; [reflexivity|].
  cbn [map snd conds] in Hc. destruct Hc as (Hs & Hn & Hr).
  pose proof (step_refines2 w x o Hinv Hs Hn) as Hst. cbn [observed_p aobserved].
  destruct (step w o) as [[w' ob] tr]. destruct (astep2 x o) as [x' aob]. destruct Hst as [Hinv' Hob]. cbn [fst] in *.
  rewrite (IH w' x' Hinv' Hr), Hob. reflexivity.
Qed.

(** Every owner persists into and reloads from the shared stores; in ANY interleaving each owner
    observes exactly what it observes when its operations run alone (side conditions [conds] on the
    interleaved history and on the owner's own history). *)
Theorem alone_with_persist_and_reload l :
  all_own l = true -> conds empty_world ([], []) (map snd l) -> conds empty_world ([], []) (mine l) ->
  observed_p empty_world l = map (fun y => pobs (fst y)) (run empty_world (mine l)).
Proof.
  intros Hok C1 C2.
  rewrite (observed_refines l empty_world ([], []) winv2_empty C1).
  rewrite (proj1 (history_refines2 (mine l) empty_world ([], []) winv2_empty C2)).
  apply abstract_alone; [exact Hok|]. intros i _. split; reflexivity.
Qed.
End INTERLEAVE.
