(** The tree-level invariant [canon m l]: the tree [m] is the canonical tree of the strictly sorted
    list [l] at its recorded height, its size and thresholds are right, and the height obeys the
    size rule.  Get / Insert / Delete / Iter of pub.go preserve it and act on [l] as lookup /
    upsert / remove.  Lemma file. *)
From Coq Require Import List NArith ZArith Lia Bool Sorted.
From Mast Require Import Prim Tree Erase Build Spec Canon Level.
Import ListNotations.


Section INV.
Variables K V : Type.
Variable cmp : K -> K -> comparison.
Variable veq : V -> V -> bool.
Variable layer : K -> nat.
Hypothesis cmp_eq : forall a b, cmp a b = Eq <-> a = b.
Hypothesis cmp_antisym : forall a b, cmp b a = CompOpp (cmp a b).
Hypothesis cmp_trans : forall a b c, cmp a b = Lt -> cmp b c = Lt -> cmp a c = Lt.
Hypothesis veq_eq : forall x y, veq x y = true <-> x = y.
Hypothesis layer_bound : forall k, layer k < max_layer_fuel.

Notation node := (node K V).
Notation link := (link K V).
Notation entry := (entry K V).
Notation mast := (mast K V).
Notation kv := (K * V)%type.
Notation seg := (seg K V).
Notation pseg := (pseg K V).
Notation segs := (segs K V layer).
Notation bnode := (bnode K V layer).
Notation build := (build K V layer).
Notation subl := (subl K V layer).
Notation erase_n := (erase_n K V).
Notation erase_l := (erase_l K V).
Notation erase_e := (erase_e K V).
Notation mk_es := (mk_es K V).
Notation lookup := (lookup K V cmp).
Notation upsert := (upsert K V cmp).
Notation remove := (remove K V cmp).
Notation sorted := (ssorted K V cmp).

(** the node the operations start from *)
Definition root_n (r : link) : option node :=
  match r with
  | LNil => Some (fresh_node K V)
  | LPtr n => Some n
  | LHash _ n => Some n
  | LBad _ => None
  end.

Definition has_layer (l : seg) (h : nat) : Prop := Exists (fun x : kv => h <= layer (fst x)) l.
Definition big (bf : N) (h : nat) (len : nat) : Prop := (pow_N bf h < N.of_nat len)%N.
(* height = min(highest layer, floor(log_bf(size-1))), 0 below two entries *)
Definition hok (bf : N) (l : seg) (h : nat) : Prop := h = 0 \/ (has_layer l h /\ big bf h (length l)).
Definition hrule (bf : N) (l : seg) (h : nat) : Prop :=
  hok bf l h /\ ~ (has_layer l (S h) /\ big bf (S h) (length l)).

Record canon (bf : N) (m : mast) (l : seg) : Prop := {
  cn_root : exists n, root_n (m_root _ _ m) = Some n /\ erase_n n = bnode (m_height _ _ m) l;
  cn_sorted : sorted l;
  cn_size : m_size _ _ m = N.of_nat (length l);
  cn_bf : (2 <= m_bf _ _ m)%N;
  cn_ga : m_grow_after _ _ m = pow_N (m_bf _ _ m) (S (m_height _ _ m));
  cn_sb : m_shrink_below _ _ m = pow_N (m_bf _ _ m) (m_height _ _ m);
  cn_h : hrule (m_bf _ _ m) l (m_height _ _ m);
  cn_bfeq : m_bf _ _ m = bf
}.

(** * basic facts *)
Lemma canon_list n d l : erase_n n = bnode d l -> to_list_n _ _ n = l.
Proof. intros H. rewrite <- (to_list_n_erase K V), H. apply to_list_bnode. Qed.

Lemma bnode_inj d l l' : bnode d l = bnode d l' -> l = l'.
Proof. intros H. rewrite <- (to_list_bnode K V layer d l), H. apply to_list_bnode. Qed.

Lemma root_nil_list bf m l : canon bf m l -> m_root _ _ m = LNil -> l = [].
Proof.
  intros C E. destruct (cn_root _ _ _ C) as (n & Hn & He). rewrite E in Hn. inversion Hn; subst n.
  apply (bnode_inj (m_height _ _ m)). rewrite <- He. apply erase_fresh.
Qed.

Lemma load_root (r : link) n : root_n r = Some n -> r <> LNil -> oks (load _ _ r) (fun c => c = n).
Proof.
  destruct r as [|c|h c|h]; cbn [root_n]; intros H Hn; try contradiction; try discriminate; inversion H; subst.
  - exists [], n. split; reflexivity.
  - exists [ELoad h], n. split; reflexivity.
Qed.

Lemma is_empty_bnode n d l : erase_n n = bnode d l -> (is_empty _ _ n = true <-> l = []).
Proof.
  intros He. rewrite <- (is_empty_erase K V), He. split.
  - intros Hem. destruct l as [|x l]; [reflexivity|]. exfalso.
    pose proof (build_cons_not_nil K V layer d x l) as Hb. unfold Build.build, link_of in Hb. rewrite Hem in Hb. contradiction.
  - intros ->. rewrite bnode_eq. cbn [Build.segs fst snd Build.mk_es map]. rewrite subl_nil. reflexivity.
Qed.

(** * Get *)
Lemma cut_lookup_absent a b k : s_all_lt K V cmp a k -> s_all_gt K V cmp b k -> lookup k (a ++ b) = None.
Proof. apply lookup_absent; assumption. Qed.

Theorem get_ok bf m l k : canon bf m l -> oks (get _ _ cmp layer m k) (fun r => r = lookup k l).
Proof.
  intros C. destruct (cn_root _ _ _ C) as (n & Hn & He). unfold get.
  assert (Hmain : oks (tick ELayer >> get_node _ _ cmp (S (m_height _ _ m)) (m_height _ _ m) (Nat.min (layer k) (m_height _ _ m)) k n)
                      (fun r => r = lookup k l)).
  { apply oks_tick.
    destruct (sorted_cut K V cmp cmp_eq cmp_antisym cmp_trans k l (cn_sorted _ _ _ C)) as [a b El Ha Hb|a b v0 El Ha Hb]; subst l.
    + rewrite lookup_absent by assumption.
      eapply (get_absent K V cmp layer) with (a := a) (b := b); try eassumption; try reflexivity; try exact Ha; try exact Hb; try lia.
    + rewrite lookup_present by assumption.
      eapply (get_present K V cmp layer) with (a := a) (b := b); try eassumption; try reflexivity; try exact Ha; try exact Hb; try lia. }
  destruct (m_root _ _ m) as [|c|h c|h] eqn:Er.
  - apply oks_ret. rewrite (root_nil_list _ _ _ C Er). reflexivity.
  - pose proof (load_root _ _ Hn ltac:(discriminate)) as L.
    apply (oks_bind _ _ _ _ L). intros c0 ->. exact Hmain.
  - pose proof (load_root _ _ Hn ltac:(discriminate)) as L.
    apply (oks_bind _ _ _ _ L). intros c0 ->. exact Hmain.
  - cbn [root_n] in Hn. discriminate.
Qed.

(** * arithmetic of the thresholds *)
Lemma pow_N_pos bf e : (1 <= bf)%N -> (1 <= pow_N bf e)%N.
Proof. intros H. induction e as [|e IH]; cbn [pow_N]; nia. Qed.
Lemma pow_N_mono bf e : (1 <= bf)%N -> (pow_N bf e <= pow_N bf (S e))%N.
Proof. intros H. pose proof (pow_N_pos bf e H). cbn [pow_N]. nia. Qed.
Lemma big_down bf h len : (1 <= bf)%N -> big bf (S h) len -> big bf h len.
Proof. unfold big. intros H B. pose proof (pow_N_mono bf h H). lia. Qed.
Lemma big_mono bf h len len' : len <= len' -> big bf h len -> big bf h len'.
Proof. unfold big. lia. Qed.
Lemma pow_N_div bf e : (1 <= bf)%N -> (pow_N bf (S e) / bf = pow_N bf e)%N.
Proof. intros H. cbn [pow_N]. rewrite N.mul_comm. apply N.div_mul. lia. Qed.

(** * pivots are the keys of high layer *)
Lemma pivot_in d l p : In p (snd (segs d l)) -> In (pkey _ _ p, pval _ _ p) l /\ d <= layer (pkey _ _ p).
Proof.
  intros Hp. pose proof (segs_valid K V layer d l) as [_ Hv]. rewrite Forall_forall in Hv.
  split; [|apply (Hv p Hp)].
  rewrite <- (segs_flat K V layer d l). apply (flat_in K V). right. exists p. split; [exact Hp|left; reflexivity].
Qed.

Lemma in_pivot d l x : In x l -> d <= layer (fst x) -> exists p, In p (snd (segs d l)) /\ pkey _ _ p = fst x.
Proof.
  induction l as [|[k v] r IH]; intros Hx Hl; [contradiction|].
  cbn [Build.segs]. destruct (segs d r) as [s0 ps] eqn:E. cbn [snd] in IH.
  destruct Hx as [Hx|Hx].
  - subst x. cbn [fst] in Hl. apply Nat.leb_le in Hl. rewrite Hl. exists (k, v, s0). split; [left; reflexivity|reflexivity].
  - destruct (IH Hx Hl) as (p & Hp & Hk). destruct (Nat.leb d (layer k)); exists p; (split; [|exact Hk]); cbn [snd]; [right|]; exact Hp.
Qed.

Lemma has_layer_pivots d l h : d <= h ->
  (has_layer l h <-> Exists (fun p : pseg => h <= layer (pkey _ _ p)) (snd (segs d l))).
Proof.
  intros Hd. unfold has_layer. rewrite !Exists_exists. split.
  - intros (x & Hx & Hl). destruct (in_pivot d l x Hx ltac:(lia)) as (p & Hp & Hk). exists p. split; [exact Hp|rewrite Hk; exact Hl].
  - intros (p & Hp & Hl). destruct (pivot_in d l p Hp) as [Hin _]. exists (pkey _ _ p, pval _ _ p). split; [exact Hin|exact Hl].
Qed.

(** canGrow (lib.go:369-380) *)
Lemma can_grow_spec h0 h (root0 : node) l :
  erase_n root0 = bnode h0 l -> h0 <= h ->
  oks (can_grow _ _ layer h (n_es _ _ root0)) (fun b => b = true <-> has_layer l (S h)).
Proof.
  intros He Hh. destruct (node_inv K V layer _ _ _ He) as [_ Hes].
  apply (oks_weaken _ (fun b => b = true <-> Exists (fun p : pseg => S h <= layer (pkey _ _ p)) (snd (segs h0 l)))).
  2:{ intros b Hb. rewrite (has_layer_pivots h0 l (S h)) by lia. exact Hb. }
  revert Hes. generalize (snd (segs h0 l)) as ps. generalize (n_es _ _ root0) as es.
  induction es as [|[[k v] lk] es IH]; intros ps Hes.
  - destruct ps; [|discriminate]. apply oks_ret. split; [discriminate|]. intros H. inversion H.
  - destruct ps as [|[[k' v'] s] ps]; [discriminate|].
    unfold Build.mk_es in Hes. cbn [map] in Hes. unfold Erase.erase_e at 1 in Hes.
    cbn [ekey eval elink pkey pval pseg_of fst snd] in Hes. injection Hes as Hk Hv Hl Hes. subst k' v'.
    cbn [can_grow]. apply oks_tick. cbn [ekey fst]. destruct (Nat.ltb h (layer k)) eqn:E.
    + apply oks_ret. apply Nat.ltb_lt in E. split; [intros _|reflexivity]. apply Exists_cons_hd. cbn [pkey fst]. lia.
    + apply Nat.ltb_ge in E. eapply oks_weaken; [exact (IH ps Hes)|]. intros b [H1 H2]. split.
      * intros Hb. apply Exists_cons_tl. exact (H1 Hb).
      * intros Hex. inversion Hex as [? ? Hhd|? ? Htl]; subst; [cbn [pkey fst] in Hhd; lia|exact (H2 Htl)].
Qed.

Lemma ticks_ok e n {B} (k : M B) (Q : B -> Prop) : oks k Q -> oks (bind (ticks e n) (fun _ => k)) Q.
Proof.
  intros H. apply (oks_bind _ _ (fun _ => True)); [|intros; exact H].
  induction n as [|n IH]; [apply oks_ret; exact I|]. cbn [ticks]. apply oks_tick. exact IH.
Qed.

(** * the grow loop of Insert *)
Record growing (m : mast) (l : seg) : Prop := {
  g_root : exists n, m_root _ _ m = LPtr n /\ erase_n n = bnode (m_height _ _ m) l;
  g_ne : l <> [];
  g_size : m_size _ _ m = N.of_nat (length l - 1);
  g_bf : (2 <= m_bf _ _ m)%N;
  g_ga : m_grow_after _ _ m = pow_N (m_bf _ _ m) (S (m_height _ _ m));
  g_sb : m_shrink_below _ _ m = pow_N (m_bf _ _ m) (m_height _ _ m);
  g_hok : hok (m_bf _ _ m) l (m_height _ _ m)
}.

Lemma hok_height_bound bf l h : hok bf l h -> h < max_layer_fuel.
Proof.
  intros [->|[Hl _]]; [unfold max_layer_fuel; lia|].
  unfold has_layer in Hl. rewrite Exists_exists in Hl. destruct Hl as (x & _ & Hx). pose proof (layer_bound (fst x)). lia.
Qed.

Lemma grow_spec (m : mast) (n : node) :
  m_root _ _ m = LPtr n ->
  oks (grow _ _ layer m)
      (fun m' => m' = Mast (LPtr (grow_node _ _ layer (m_height _ _ m) n)) (S (m_height _ _ m)) (m_size _ _ m) (m_bf _ _ m)
                           (m_grow_after _ _ m * m_bf _ _ m)%N (m_grow_after _ _ m) (m_emptied _ _ m)).
Proof.
  intros Hr. unfold grow. rewrite Hr. cbn [load].
  apply (oks_bind _ _ (fun c => c = n)); [apply oks_ret; reflexivity|]. intros c ->.
  apply ticks_ok. apply oks_ret. reflexivity.
Qed.

Lemma grow_loop_spec : forall fuel root0 h0 m l,
  growing m l -> erase_n root0 = bnode h0 l -> h0 <= m_height _ _ m ->
  max_layer_fuel <= m_height _ _ m + fuel ->
  oks (grow_loop _ _ layer fuel root0 m)
      (fun m' => growing m' l /\ ~ (has_layer l (S (m_height _ _ m')) /\ big (m_bf _ _ m') (S (m_height _ _ m')) (length l)) /\
                 m_bf _ _ m' = m_bf _ _ m).
Proof.
  induction fuel as [|f IH]; intros root0 h0 m l G He Hh Hf.
  - pose proof (hok_height_bound _ _ _ (g_hok _ _ G)). lia.
  - cbn [grow_loop].
    assert (Hlen : 1 <= length l) by (pose proof (g_ne _ _ G); destruct l; [contradiction|cbn; lia]).
    destruct (N.leb (m_grow_after _ _ m) (m_size _ _ m)) eqn:Ega.
    + apply N.leb_le in Ega. rewrite (g_ga _ _ G), (g_size _ _ G) in Ega.
      assert (Hbig : big (m_bf _ _ m) (S (m_height _ _ m)) (length l)) by (unfold big; lia).
      apply (oks_bind _ _ _ _ (can_grow_spec h0 (m_height _ _ m) root0 l He Hh)). intros cg Hcg.
      destruct cg.
      * assert (Hhl : has_layer l (S (m_height _ _ m))) by (apply Hcg; reflexivity).
        destruct (g_root _ _ G) as (n & Hr & Hn).
        apply (oks_bind _ _ _ _ (grow_spec m n Hr)). intros m' ->.
        eapply oks_weaken; [eapply (IH root0 h0); [|exact He|cbn [m_height]; lia|cbn [m_height]; lia]|intros m'' (A & B & Cc); split; [exact A|split; [exact B|exact Cc]]].
        constructor; cbn [m_root m_height m_size m_bf m_grow_after m_shrink_below].
        -- exists (grow_node _ _ layer (m_height _ _ m) n). split; [reflexivity|]. apply grow_node_spec. exact Hn.
        -- exact (g_ne _ _ G).
        -- exact (g_size _ _ G).
        -- exact (g_bf _ _ G).
        -- rewrite (g_ga _ _ G). cbn [pow_N]. lia.
        -- exact (g_ga _ _ G).
        -- right. split; assumption.
      * apply oks_ret. split; [exact G|]. split; [|reflexivity]. intros [Hl _]. apply Hcg in Hl. discriminate.
    + apply N.leb_gt in Ega. rewrite (g_ga _ _ G), (g_size _ _ G) in Ega.
      apply oks_ret. split; [exact G|]. split; [|reflexivity]. intros [_ Hb]. unfold big in Hb. lia.
Qed.

(** * has_layer depends on the keys only *)
Lemma has_layer_app a b h : has_layer (a ++ b) h <-> has_layer a h \/ has_layer b h.
Proof. unfold has_layer. apply Exists_app. Qed.
Lemma has_layer_cons k v b h : has_layer ((k, v) :: b) h <-> h <= layer k \/ has_layer b h.
Proof. unfold has_layer. rewrite Exists_cons. reflexivity. Qed.
Lemma has_layer_val a b k v v' h : has_layer (a ++ (k, v) :: b) h <-> has_layer (a ++ (k, v') :: b) h.
Proof. rewrite !has_layer_app, !has_layer_cons. reflexivity. Qed.
Lemma has_layer_ins a b k v h : has_layer (a ++ b) h -> has_layer (a ++ (k, v) :: b) h.
Proof. rewrite !has_layer_app, has_layer_cons. tauto. Qed.
Lemma has_layer_del a b k v h : has_layer (a ++ b) h -> has_layer (a ++ (k, v) :: b) h.
Proof. apply has_layer_ins. Qed.

Lemma hok_mono bf (l l' : seg) h : (1 <= bf)%N ->
  (has_layer l h -> has_layer l' h) -> length l <= length l' -> hok bf l h -> hok bf l' h.
Proof. intros Hb Hl Hlen [->|[H1 H2]]; [left; reflexivity|right; split; [auto|eapply big_mono; eassumption]]. Qed.

(** * Insert *)
Lemma root_of_node_nonempty (m : mast) (n : node) d l :
  erase_n n = bnode d l -> l <> [] -> root_of_node _ _ m n = set_root _ _ m (LPtr n) (m_emptied _ _ m).
Proof.
  intros He Hl. unfold root_of_node. destruct (is_empty _ _ n) eqn:E; [|reflexivity].
  apply (is_empty_bnode _ _ _ He) in E. contradiction.
Qed.

Lemma first_node bf (m : mast) l :
  canon bf m l ->
  oks (match m_root _ _ m with LNil => ret (fresh_node K V) | r => load _ _ r end)
      (fun n => erase_n n = bnode (m_height _ _ m) l).
Proof.
  intros C. destruct (cn_root _ _ _ C) as (n & Hn & He).
  destruct (m_root _ _ m) as [|c|h c|h] eqn:Er.
  - apply oks_ret. cbn [root_n] in Hn. inversion Hn; subst. exact He.
  - eapply oks_weaken; [exact (load_root _ _ Hn ltac:(discriminate))|]. intros c0 ->. exact He.
  - eapply oks_weaken; [exact (load_root _ _ Hn ltac:(discriminate))|]. intros c0 ->. exact He.
  - discriminate.
Qed.

Lemma app_cons_not_nil (a b : seg) x : a ++ x :: b <> [].
Proof. destruct a; discriminate. Qed.

Theorem insert_ok bf m l k v : canon bf m l -> oks (insert _ _ cmp veq layer m k v) (fun m' => canon bf m' (upsert k v l)).
Proof.
  intros C. unfold insert. apply oks_tick.
  apply (oks_bind _ _ _ _ (first_node bf m l C)). intros n He.
  pose proof (cn_bf _ _ _ C) as Hbf.
  destruct (sorted_cut K V cmp cmp_eq cmp_antisym cmp_trans k l (cn_sorted _ _ _ C)) as [a b El Ha Hb|a b v0 El Ha Hb]; subst l.
  - (* new key *)
    rewrite upsert_absent by assumption.
    eapply oks_bind.
    { eapply (ins_absent K V cmp veq layer) with (a := a) (b := b); try eassumption; try reflexivity; try exact Ha; try exact Hb; try lia. }
    intros r Hr. destruct r as [|n'|n']; try contradiction. unfold ins_absent_post in Hr.
    apply oks_tick.
    set (l' := a ++ (k, v) :: b) in *.
    assert (Hne : l' <> []) by apply app_cons_not_nil.
    rewrite (root_of_node_nonempty m n' _ _ Hr Hne).
    assert (G : growing (set_root _ _ m (LPtr n') (m_emptied _ _ m)) l').
    { constructor; cbn [set_root m_root m_height m_size m_bf m_grow_after m_shrink_below].
      - exists n'. split; [reflexivity|exact Hr].
      - exact Hne.
      - rewrite (cn_size _ _ _ C). unfold l'. rewrite !app_length. cbn [length]. f_equal. lia.
      - exact Hbf.
      - exact (cn_ga _ _ _ C).
      - exact (cn_sb _ _ _ C).
      - destruct (cn_h _ _ _ C) as [Hok _]. apply (hok_mono _ (a ++ b)); [lia|apply has_layer_ins| |exact Hok].
        unfold l'. rewrite !app_length. cbn [length]. lia. }
    eapply oks_bind.
    { eapply (grow_loop_spec max_layer_fuel n' (m_height _ _ m)); [exact G|exact Hr|cbn; lia|cbn [set_root m_height]; lia]. }
    intros m2 (G2 & Hnext & Hbf2). apply oks_ret. cbn [set_root m_bf] in Hbf2.
    constructor; cbn [set_size m_root m_height m_size m_bf m_grow_after m_shrink_below].
    + destruct (g_root _ _ G2) as (n2 & Hr2 & Hn2). exists n2. rewrite Hr2. split; [reflexivity|exact Hn2].
    + destruct (ssorted_app_inv K V cmp _ _ (cn_sorted _ _ _ C)). apply ssorted_mid; assumption.
    + rewrite (g_size _ _ G2). destruct l'; [contradiction|cbn [length]; lia].
    + exact (g_bf _ _ G2).
    + exact (g_ga _ _ G2).
    + exact (g_sb _ _ G2).
    + split; [exact (g_hok _ _ G2)|exact Hnext].
    + rewrite Hbf2. exact (cn_bfeq _ _ _ C).
  - (* existing key *)
    rewrite upsert_present by assumption.
    eapply oks_bind.
    { eapply (ins_present K V cmp veq layer) with (a := a) (b := b) (v0 := v0); try eassumption; try reflexivity; try exact Ha; try exact Hb; try lia. }
    intros r Hr. destruct r as [|n'|n']; unfold ins_present_post in Hr; [| |contradiction].
    + apply oks_ret. subst v0. exact C.
    + destruct Hr as [Hne He']. apply oks_tick. apply oks_ret.
      rewrite (root_of_node_nonempty m n' _ _ He' (app_cons_not_nil _ _ _)).
      constructor; cbn [set_root m_root m_height m_size m_bf m_grow_after m_shrink_below].
      * exists n'. split; [reflexivity|exact He'].
      * destruct (ssorted_app_inv K V cmp _ _ (cn_sorted _ _ _ C)) as [Sa Sb]. inversion Sb; subst. apply ssorted_mid; assumption.
      * rewrite (cn_size _ _ _ C). rewrite !app_length. reflexivity.
      * exact Hbf.
      * exact (cn_ga _ _ _ C).
      * exact (cn_sb _ _ _ C).
      * destruct (cn_h _ _ _ C) as [Hok Hnx]. split.
        -- apply (hok_mono _ (a ++ (k, v0) :: b)); [lia|apply has_layer_val|rewrite !app_length; cbn [length]; lia|exact Hok].
        -- intros [H1 H2]. apply Hnx. split; [eapply has_layer_val; exact H1|]. rewrite !app_length in *. exact H2.
      * exact (cn_bfeq _ _ _ C).
Qed.

(** * the shrink loop of Delete *)
Record shrinking (m : mast) (l : seg) : Prop := {
  s_root : (l = [] /\ m_root _ _ m = LNil) \/ (l <> [] /\ exists n, m_root _ _ m = LPtr n /\ erase_n n = bnode (m_height _ _ m) l);
  s_ne : 0 < m_height _ _ m -> l <> [];
  s_size : m_size _ _ m = N.of_nat (length l);
  s_bf : (2 <= m_bf _ _ m)%N;
  s_ga : m_grow_after _ _ m = pow_N (m_bf _ _ m) (S (m_height _ _ m));
  s_sb : m_shrink_below _ _ m = pow_N (m_bf _ _ m) (m_height _ _ m);
  s_next : ~ (has_layer l (S (m_height _ _ m)) /\ big (m_bf _ _ m) (S (m_height _ _ m)) (length l))
}.

Lemma no_keys_spec (m : mast) l :
  shrinking m l -> (root_has_no_keys _ _ m = true <-> ~ has_layer l (m_height _ _ m)).
Proof.
  intros S. unfold root_has_no_keys. destruct (s_root _ _ S) as [[-> Hr]|[Hne (n & Hr & He)]]; rewrite Hr.
  - split; [intros _ H; inversion H|reflexivity].
  - destruct (node_inv K V layer _ _ _ He) as [_ Hes].
    rewrite (has_layer_pivots (m_height _ _ m) l (m_height _ _ m)) by lia.
    destruct (n_es _ _ n) as [|e es] eqn:En.
    + destruct (snd (segs (m_height _ _ m) l)); [|discriminate]. split; [intros _ H; inversion H|reflexivity].
    + destruct (snd (segs (m_height _ _ m) l)) as [|p ps] eqn:Ep; [discriminate|]. split; [discriminate|].
      intros H. exfalso. apply H. apply Exists_cons_hd.
      assert (Hin : In p (snd (segs (m_height _ _ m) l))) by (rewrite Ep; left; reflexivity).
      apply (pivot_in _ _ _ Hin).
Qed.

Lemma shrink_spec (m : mast) l h' :
  shrinking m l -> m_height _ _ m = S h' ->
  oks (shrink _ _ m)
      (fun m' => exists n', erase_n n' = bnode h' l /\
         m' = Mast (LPtr n') h' (m_size _ _ m) (m_bf _ _ m) (pow_N (m_bf _ _ m) (S h')) (pow_N (m_bf _ _ m) h') (m_emptied _ _ m)).
Proof.
  intros S Hh. unfold shrink. rewrite Hh.
  destruct (s_root _ _ S) as [[Hl _]|[Hne (n & Hr & He)]]; [exfalso; apply (s_ne _ _ S); [lia|exact Hl]|].
  rewrite Hr. cbn [load]. apply (oks_bind _ _ (fun c => c = n)); [apply oks_ret; reflexivity|]. intros c ->.
  rewrite Hh in He.
  apply (oks_bind _ _ _ _ (shrink_node_spec K V layer h' n l He)). intros n' Hn'.
  pose proof (s_bf _ _ S) as Hbf.
  assert (Hsb : (1 <? m_shrink_below _ _ m)%N = true).
  { apply N.ltb_lt. rewrite (s_sb _ _ S), Hh. cbn [pow_N]. pose proof (pow_N_pos (m_bf _ _ m) h' ltac:(lia)). nia. }
  rewrite Hsb. apply oks_ret. exists n'. split; [exact Hn'|].
  rewrite (s_sb _ _ S), (s_ga _ _ S), Hh, !pow_N_div by lia.
  unfold link_of. destruct (is_empty _ _ n') eqn:E; [apply (is_empty_bnode _ _ _ Hn') in E; contradiction|reflexivity].
Qed.

Lemma shrink_loop_spec : forall fuel (m : mast) l,
  shrinking m l -> m_height _ _ m <= fuel ->
  oks (shrink_loop _ _ (S fuel) m) (fun m' => shrinking m' l /\ hok (m_bf _ _ m') l (m_height _ _ m') /\ m_bf _ _ m' = m_bf _ _ m).
Proof.
  induction fuel as [|f IH]; intros m l S Hf.
  - cbn [shrink_loop]. replace (Nat.ltb 0 (m_height _ _ m)) with false by (symmetry; apply Nat.ltb_ge; lia).
    cbn [andb]. apply oks_ret. split; [exact S|split; [left; lia|reflexivity]].
  - cbn [shrink_loop].
    destruct (Nat.ltb 0 (m_height _ _ m)) eqn:Eh; cbn [andb]; [|apply oks_ret; split; [exact S|split; [left; apply Nat.ltb_ge in Eh; lia|reflexivity]]].
    apply Nat.ltb_lt in Eh.
    destruct ((m_size _ _ m <=? m_shrink_below _ _ m)%N || root_has_no_keys _ _ m) eqn:Ec.
    + destruct (m_height _ _ m) as [|h'] eqn:Ehh; [lia|].
      apply (oks_bind _ _ _ _ (shrink_spec m l h' S Ehh)). intros m' (n' & Hn' & ->).
      assert (Hne : l <> []) by (apply (s_ne _ _ S); lia).
      eapply oks_weaken; [apply IH; [|cbn [m_height]; lia]|intros m'' (A & B & Cc); split; [exact A|split; [exact B|exact Cc]]].
      constructor; cbn [m_root m_height m_size m_bf m_grow_after m_shrink_below].
      * right. split; [exact Hne|]. exists n'. split; [reflexivity|exact Hn'].
      * intros _. exact Hne.
      * exact (s_size _ _ S).
      * exact (s_bf _ _ S).
      * reflexivity.
      * reflexivity.
      * (* we shrank because the rule failed at h'+1 *)
        intros [Hl Hb]. apply orb_true_iff in Ec. destruct Ec as [Ec|Ec].
        -- apply N.leb_le in Ec. rewrite (s_size _ _ S), (s_sb _ _ S), Ehh in Ec. unfold big in Hb. lia.
        -- apply (no_keys_spec m l S) in Ec. rewrite Ehh in Ec. contradiction.
    + apply oks_ret. split; [exact S|]. split; [|reflexivity]. right. apply orb_false_iff in Ec. destruct Ec as [Ec1 Ec2]. split.
      * destruct (root_has_no_keys _ _ m) eqn:E; [discriminate|].
        destruct (Exists_dec (fun x : kv => m_height _ _ m <= layer (fst x)) l (fun x => le_dec _ _)) as [Hd|Hd]; [exact Hd|].
        apply (no_keys_spec m l S) in Hd. congruence.
      * apply N.leb_gt in Ec1. rewrite (s_size _ _ S), (s_sb _ _ S) in Ec1. exact Ec1.
Qed.

(** * Delete *)
Theorem delete_ok bf m l k v : canon bf m l -> lookup k l = Some v ->
  oks (delete _ _ cmp veq layer m k v) (fun m' => canon bf m' (remove k l)).
Proof.
  intros C Hlk. unfold delete.
  pose proof (cn_bf _ _ _ C) as Hbf.
  destruct (sorted_cut K V cmp cmp_eq cmp_antisym cmp_trans k l (cn_sorted _ _ _ C)) as [a b El Ha Hb|a b v0 El Ha Hb]; subst l.
  { rewrite lookup_absent in Hlk by assumption. discriminate. }
  rewrite lookup_present in Hlk by assumption. inversion Hlk; subst v0. clear Hlk.
  rewrite remove_present by assumption.
  destruct (cn_root _ _ _ C) as (n & Hn & He).
  assert (Hrn : m_root _ _ m <> LNil).
  { intros E. apply (root_nil_list _ _ _ C) in E. exact (app_cons_not_nil _ _ _ E). }
  assert (Hbody : oks (tick ELayer >>
      (let* n0 := load _ _ (m_root _ _ m) in
       let* n' := del _ _ cmp veq (S (m_height _ _ m)) (m_height _ _ m) (Nat.min (layer k) (m_height _ _ m)) k v n0 in
       tick ECommit >>
       (let m1 := root_of_node _ _ m n' in shrink_loop _ _ max_layer_fuel (set_size _ _ m1 (m_size _ _ m1 - 1)))))
      (fun m' => canon bf m' (a ++ b))).
  { apply oks_tick. apply (oks_bind _ _ _ _ (load_root _ _ Hn Hrn)). intros n0 ->.
    eapply oks_bind.
    { eapply (del_present K V cmp veq layer) with (a := a) (b := b); try eassumption; try reflexivity; try exact Ha; try exact Hb; try lia. }
    intros n' Hn'. cbn beta in Hn'. apply oks_tick. cbn zeta.
    set (m1 := set_size _ _ (root_of_node _ _ m n') (m_size _ _ (root_of_node _ _ m n') - 1)).
    assert (Hh1 : m_height _ _ m1 = m_height _ _ m) by (unfold m1, root_of_node; destruct (is_empty _ _ n'); reflexivity).
    assert (Hbf1 : m_bf _ _ m1 = m_bf _ _ m) by (unfold m1, root_of_node; destruct (is_empty _ _ n'); reflexivity).
    assert (S1 : shrinking m1 (a ++ b)).
    { destruct (cn_h _ _ _ C) as [Hok Hnx].
      constructor.
      - unfold m1, root_of_node. destruct (is_empty _ _ n') eqn:E.
        + left. apply (is_empty_bnode _ _ _ Hn') in E. split; [exact E|reflexivity].
        + right. split.
          * intros E'. apply (is_empty_bnode _ _ _ Hn') in E'. congruence.
          * exists n'. split; [reflexivity|exact Hn'].
      - rewrite Hh1. intros Hpos. destruct Hok as [Hz|[_ Hbig]]; [lia|].
        unfold big in Hbig. pose proof (pow_N_pos (m_bf _ _ m) (m_height _ _ m) ltac:(lia)).
        rewrite app_length in Hbig. cbn [length] in Hbig. intros E. apply app_eq_nil in E. destruct E; subst. cbn in Hbig. lia.
      - unfold m1, root_of_node. destruct (is_empty _ _ n'); cbn [set_size set_root m_size];
          rewrite (cn_size _ _ _ C), !app_length; cbn [length]; lia.
      - rewrite Hbf1. exact Hbf.
      - unfold m1, root_of_node. destruct (is_empty _ _ n'); cbn [set_size set_root m_grow_after m_height m_bf]; exact (cn_ga _ _ _ C).
      - unfold m1, root_of_node. destruct (is_empty _ _ n'); cbn [set_size set_root m_shrink_below m_height m_bf]; exact (cn_sb _ _ _ C).
      - rewrite Hh1, Hbf1. intros [H1 H2]. apply Hnx. split; [apply has_layer_del; exact H1|].
        eapply big_mono; [|exact H2]. rewrite !app_length. cbn [length]. lia. }
    eapply oks_weaken.
    { apply (shrink_loop_spec (pred max_layer_fuel) m1 (a ++ b) S1). rewrite Hh1.
      destruct (cn_h _ _ _ C) as [Hok _]. pose proof (hok_height_bound _ _ _ Hok). unfold max_layer_fuel in *. cbn. lia. }
    intros m' (S' & Hok' & Hbf'). constructor.
    - destruct (s_root _ _ S') as [[El Hr]|[Hne (n2 & Hr & He2)]]; rewrite Hr.
      + exists (fresh_node K V). split; [reflexivity|]. rewrite El. apply erase_fresh.
      + exists n2. split; [reflexivity|exact He2].
    - destruct (ssorted_app_inv K V cmp _ _ (cn_sorted _ _ _ C)) as [Sa Sb]. inversion Sb; subst.
      eapply (ssorted_join K V cmp); eassumption.
    - exact (s_size _ _ S').
    - exact (s_bf _ _ S').
    - exact (s_ga _ _ S').
    - exact (s_sb _ _ S').
    - split; [exact Hok'|exact (s_next _ _ S')].
    - rewrite Hbf', Hbf1. exact (cn_bfeq _ _ _ C). }
  destruct (m_root _ _ m) as [|c|h c|h] eqn:Er; [contradiction|exact Hbody|exact Hbody|discriminate].
Qed.

Lemma del_fails h n l k v :
  erase_n n = bnode h l -> sorted l -> lookup k l <> Some v ->
  fails (del _ _ cmp veq (S h) h (Nat.min (layer k) h) k v n).
Proof.
  intros He Hs Hlk.
  destruct (sorted_cut K V cmp cmp_eq cmp_antisym cmp_trans k l Hs) as [a b El Ha Hb|a b v0 El Ha Hb]; subst l.
  - eapply (del_absent K V cmp veq layer) with (a := a) (b := b); try eassumption; try reflexivity; try exact Ha; try exact Hb; try lia.
  - rewrite lookup_present in Hlk by assumption.
    eapply (del_wrong_value K V cmp veq layer) with (a := a) (b := b) (v0 := v0); try eassumption; try reflexivity; try exact Ha; try exact Hb; try lia.
    congruence.
Qed.

Theorem delete_fail bf m l k v : canon bf m l -> lookup k l <> Some v -> fails (delete _ _ cmp veq layer m k v).
Proof.
  intros C Hlk. unfold delete.
  destruct (cn_root _ _ _ C) as (n & Hn & He).
  destruct (m_root _ _ m) as [|c|h c|h] eqn:Er; [apply fails_fail| | |discriminate].
  - apply fails_tick. apply (fails_bind_r _ _ _ (load_root _ _ Hn ltac:(discriminate))). intros n0 ->. apply fails_bind_l.
    apply (del_fails _ _ l); [exact He|exact (cn_sorted _ _ _ C)|exact Hlk].
  - apply fails_tick. apply (fails_bind_r _ _ _ (load_root _ _ Hn ltac:(discriminate))). intros n0 ->. apply fails_bind_l.
    apply (del_fails _ _ l); [exact He|exact (cn_sorted _ _ _ C)|exact Hlk].
Qed.

(** * Iter *)
Definition fitsl_of (P : node -> Prop) (l : link) : Prop :=
  match l with LNil => True | LPtr c => P c | LHash _ c => P c | LBad _ => False end.
Fixpoint fits (fuel : nat) (n : node) : Prop :=
  match fuel with
  | O => False
  | S f => fitsl_of (fits f) (n_l0 _ _ n) /\ Forall (fun e : entry => fitsl_of (fits f) (elink _ _ e)) (n_es _ _ n)
  end.
Notation fitsl f := (fitsl_of (fits f)).

Lemma fits_S f n : fits (S f) n <-> fitsl f (n_l0 _ _ n) /\ Forall (fun e : entry => fitsl f (elink _ _ e)) (n_es _ _ n).
Proof. reflexivity. Qed.

Lemma fitsl_subl : forall d (c : link) s,
  (forall n l, erase_n n = bnode d l -> fits (S d) n) ->
  erase_l c = build d s -> fitsl (S d) c.
Proof.
  intros d c s IH Hc. destruct s as [|x s].
  - rewrite build_nil in Hc. apply erase_l_nil in Hc. subst c. exact I.
  - rewrite build_not_nil in Hc by discriminate.
    destruct c as [|c|h c|h]; cbn [Erase.erase_l] in Hc; try discriminate; inversion Hc as [Hc']; cbn [fitsl_of]; eapply IH; exact Hc'.
Qed.

Lemma fits_bnode : forall d n l, erase_n n = bnode d l -> fits (S d) n.
Proof.
  induction d as [|d IH]; intros n l He; destruct (node_inv K V layer _ _ _ He) as [H0 Hes]; cbn [fits].
  - cbn [Build.subl] in *. apply erase_l_nil in H0. rewrite H0. split; [exact I|].
    revert Hes. generalize (snd (segs 0 l)). induction (n_es _ _ n) as [|[[k v] lk] es IHes]; intros ps Hes; [constructor|].
    destruct ps as [|p ps]; [discriminate|]. unfold Build.mk_es in Hes. cbn [map] in Hes.
    unfold Erase.erase_e at 1 in Hes. cbn [ekey eval elink fst snd] in Hes. injection Hes as _ _ Hl Hes.
    apply erase_l_nil in Hl. subst lk. constructor; [exact I|exact (IHes ps Hes)].
  - cbn [Build.subl] in *. split; [exact (fitsl_subl d _ _ IH H0)|].
    revert Hes. generalize (snd (segs (S d) l)). induction (n_es _ _ n) as [|[[k v] lk] es IHes]; intros ps Hes; [constructor|].
    destruct ps as [|p ps]; [discriminate|]. unfold Build.mk_es in Hes. cbn [map] in Hes.
    unfold Erase.erase_e at 1 in Hes. cbn [ekey eval elink fst snd] in Hes. injection Hes as _ _ Hl Hes.
    constructor; [exact (fitsl_subl d _ _ IH Hl)|exact (IHes ps Hes)].
Qed.

Lemma fits_mono : forall f n, fits f n -> fits (S f) n.
Proof.
  induction f as [|f IH]; intros n H; [contradiction|].
  cbn [fits] in H. destruct H as [H0 Hes]. change (fits (S (S f)) n) with (fitsl (S f) (n_l0 _ _ n) /\ Forall (fun e : entry => fitsl (S f) (elink _ _ e)) (n_es _ _ n)). split.
  - revert H0. destruct (n_l0 _ _ n) as [|c|h c|h]; unfold fitsl_of; intros H0; [exact I|exact (IH c H0)|exact (IH c H0)|exact H0].
  - eapply Forall_impl; [|exact Hes]. intros e He. cbn beta in *. revert He.
    destruct (elink _ _ e) as [|c|h c|h]; unfold fitsl_of; intros He; [exact I|exact (IH c He)|exact (IH c He)|exact He].
Qed.

Lemma iter_fits : forall fuel n, fits fuel n -> oks (iter_node _ _ fuel n) (fun r => r = to_list_n _ _ n).
Proof.
  induction fuel as [|f IH]; intros n H; [contradiction|].
  cbn [fits] in H. destruct H as [H0 Hes]. destruct n as [d s l0 es]. cbn [n_l0 n_es] in *.
  cbn [iter_node n_l0 n_es]. rewrite to_list_n_eq.
  assert (Hsub : forall l, fitsl f l ->
     oks (match l with LNil => ret [] | _ => let* c := load _ _ l in iter_node _ _ f c end) (fun r => r = to_list _ _ l)).
  { intros l Hl. destruct l as [|c|h c|h]; cbn [fitsl_of] in Hl; [apply oks_ret; reflexivity| | |contradiction].
    - cbn [load]. apply (oks_bind _ _ (fun c0 => c0 = c)); [apply oks_ret; reflexivity|]. intros c0 ->. exact (IH c Hl).
    - cbn [load]. apply (oks_bind _ _ (fun c0 => c0 = c)).
      + apply (oks_bind _ _ (fun _ => True)); [exists [ELoad h], tt; split; [reflexivity|exact I]|intros; apply oks_ret; reflexivity].
      + intros c0 ->. exact (IH c Hl). }
  apply (oks_bind _ _ _ _ (Hsub l0 H0)). intros a ->.
  eapply oks_bind.
  - instantiate (1 := fun r => r = flat_map (fun e : entry => (ekey _ _ e, eval _ _ e) :: to_list _ _ (elink _ _ e)) es).
    induction Hes as [|[[k v] l] r Hl _ IHr]; [apply oks_ret; reflexivity|].
    cbn [elink snd] in Hl. apply (oks_bind _ _ _ _ (Hsub l Hl)). intros x ->.
    apply (oks_bind _ _ _ _ IHr). intros y ->. apply oks_ret. reflexivity.
  - intros b ->. apply oks_ret. reflexivity.
Qed.

Theorem iter_ok bf m l : canon bf m l -> oks (iter _ _ m) (fun r => r = l).
Proof.
  intros C. destruct (cn_root _ _ _ C) as (n & Hn & He). unfold iter.
  pose proof (iter_fits _ _ (fits_bnode _ _ _ He)) as Hit. rewrite (canon_list _ _ _ He) in Hit.
  destruct (m_root _ _ m) as [|c|h c|h] eqn:Er.
  - apply oks_ret. rewrite (root_nil_list _ _ _ C Er). reflexivity.
  - apply (oks_bind _ _ _ _ (load_root _ _ Hn ltac:(discriminate))). intros c0 ->. exact Hit.
  - apply (oks_bind _ _ _ _ (load_root _ _ Hn ltac:(discriminate))). intros c0 ->. exact Hit.
  - discriminate.
Qed.

(** * Clone, the empty tree *)
Theorem clone_ok bf m l : canon bf m l -> oks (clone _ _ m) (fun m' => canon bf m' l).
Proof.
  intros C. destruct (cn_root _ _ _ C) as (n & Hn & He). unfold clone.
  assert (Hc : canon bf (set_root _ _ m (LPtr n) (m_emptied _ _ m)) l).
  { constructor; cbn [set_root m_root m_height m_size m_bf m_grow_after m_shrink_below];
      [exists n; split; [reflexivity|exact He]|apply C..]. }
  destruct (m_root _ _ m) as [|c|h c|h] eqn:Er.
  - apply oks_ret. exact C.
  - apply (oks_bind _ _ _ _ (load_root _ _ Hn ltac:(discriminate))). intros c0 ->. apply oks_ret. exact Hc.
  - apply (oks_bind _ _ _ _ (load_root _ _ Hn ltac:(discriminate))). intros c0 ->. apply oks_ret. exact Hc.
  - discriminate.
Qed.

Lemma hrule_empty bf : hrule bf [] 0.
Proof. split; [left; reflexivity|]. intros [H _]. inversion H. Qed.

Theorem empty_canon bf emp : (2 <= bf)%N ->
  canon bf (Mast (LPtr (fresh_node K V)) 0 0%N bf (1 * bf)%N 1%N emp) [].
Proof.
  intros Hbf. constructor; cbn [m_root m_height m_size m_bf m_grow_after m_shrink_below].
  - exists (fresh_node K V). split; [reflexivity|apply erase_fresh].
  - constructor.
  - reflexivity.
  - exact Hbf.
  - cbn [pow_N]. lia.
  - reflexivity.
  - apply hrule_empty.
  - reflexivity.
Qed.

(** * uniqueness: the height and the shape are functions of the entries *)
Lemma has_layer_down (l : seg) h h' : h' <= h -> has_layer l h -> has_layer l h'.
Proof. intros Hle H. unfold has_layer in *. eapply Exists_impl; [|exact H]. intros x Hx. cbn in *. lia. Qed.

Lemma big_down_le bf h h' len : (1 <= bf)%N -> h' <= h -> big bf h len -> big bf h' len.
Proof. intros Hb Hle. induction Hle as [|h Hle IH]; [tauto|]. intros B. apply IH. apply big_down; assumption. Qed.

Lemma hok_down bf (l : seg) h h' : (1 <= bf)%N -> h' <= h -> hok bf l h -> hok bf l h'.
Proof.
  intros Hb Hle [->|[H1 H2]]; [left; lia|]. destruct h' as [|h'']; [left; reflexivity|].
  right. split; [eapply has_layer_down; eassumption|eapply big_down_le; eassumption].
Qed.

Lemma hrule_unique bf (l : seg) h1 h2 : (1 <= bf)%N -> hrule bf l h1 -> hrule bf l h2 -> h1 = h2.
Proof.
  intros Hb [Ok1 Nx1] [Ok2 Nx2].
  destruct (Nat.lt_trichotomy h1 h2) as [Hlt|[Heq|Hgt]]; [|exact Heq|]; exfalso.
  - apply Nx1. pose proof (hok_down bf l h2 (S h1) Hb ltac:(lia) Ok2) as [E|H]; [discriminate|exact H].
  - apply Nx2. pose proof (hok_down bf l h1 (S h2) Hb ltac:(lia) Ok1) as [E|H]; [discriminate|exact H].
Qed.

Theorem canon_unique bf m1 m2 l :
  canon bf m1 l -> canon bf m2 l ->
  m_height _ _ m1 = m_height _ _ m2 /\ m_size _ _ m1 = m_size _ _ m2 /\
  exists n1 n2, root_n (m_root _ _ m1) = Some n1 /\ root_n (m_root _ _ m2) = Some n2 /\ erase_n n1 = erase_n n2.
Proof.
  intros C1 C2.
  assert (Hh : m_height _ _ m1 = m_height _ _ m2).
  { apply (hrule_unique bf l); [pose proof (cn_bf _ _ _ C1); pose proof (cn_bfeq _ _ _ C1); lia| |].
    - pose proof (cn_h _ _ _ C1) as H. rewrite (cn_bfeq _ _ _ C1) in H. exact H.
    - pose proof (cn_h _ _ _ C2) as H. rewrite (cn_bfeq _ _ _ C2) in H. exact H. }
  split; [exact Hh|]. split; [rewrite (cn_size _ _ _ C1), (cn_size _ _ _ C2); reflexivity|].
  destruct (cn_root _ _ _ C1) as (n1 & Hn1 & He1). destruct (cn_root _ _ _ C2) as (n2 & Hn2 & He2).
  exists n1, n2. split; [exact Hn1|]. split; [exact Hn2|]. rewrite He1, He2, Hh. reflexivity.
Qed.

(** the invariant determines the listing of the tree *)
Theorem canon_to_list bf m l : canon bf m l -> to_list _ _ (m_root _ _ m) = l.
Proof.
  intros C. destruct (cn_root _ _ _ C) as (n & Hn & He).
  destruct (m_root _ _ m) as [|c|h c|h] eqn:Er; cbn [root_n] in Hn; try discriminate.
  - cbn [to_list]. symmetry. apply (root_nil_list _ _ _ C Er).
  - inversion Hn; subst. cbn [to_list]. exact (canon_list _ _ _ He).
  - inversion Hn; subst. cbn [to_list]. exact (canon_list _ _ _ He).
Qed.

End INV.
