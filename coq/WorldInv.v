(** Histories with persist and reload over many trees and many stores: every tree of every
    reachable world is canonical for its abstract contents, its hash links are in its store, and
    every captured root loads back to the contents it was made from - for every finite history of
    supported operations.  Lemma file. *)
From Coq Require Import List NArith ZArith Lia Bool Sorted.
From Mast Require Import Prim Key Tree KeyOrder Codec CodecRT NameLen Store Diff World Erase Build Spec Canon Links Level Inv Persist Hist Nav Reload DiffSpec DiffK CodecV1 DecRT RootRT HeightFun.
Import ListNotations.

Opaque name_of blake2b_256 b64url crc64 uint_layer_fuel.

Section FMT.
Variable fmt : nfmt.
Local Notation clone_allh := (Reload.clone_allh fmt) (only parsing).
Local Notation cycles_ok := (Reload.cycles_ok fmt) (only parsing).
Local Notation delete_allh := (Reload.delete_allh fmt) (only parsing).
Local Notation entry_ok := (Reload.entry_ok fmt) (only parsing).
Local Notation first_node_allh := (Reload.first_node_allh fmt) (only parsing).
Local Notation flush_nonnil := (Reload.flush_nonnil fmt) (only parsing).
Local Notation grow_allh := (Reload.grow_allh fmt) (only parsing).
Local Notation grow_loop_allh := (Reload.grow_loop_allh fmt) (only parsing).
Local Notation insert_allh := (Reload.insert_allh fmt) (only parsing).
Local Notation kv_ok := (Reload.kv_ok fmt) (only parsing).
Local Notation list_ok := (Reload.list_ok fmt) (only parsing).
Local Notation list_ok_incl := (Reload.list_ok_incl fmt) (only parsing).
Local Notation list_ok_remove := (Reload.list_ok_remove fmt) (only parsing).
Local Notation load_canon := (Reload.load_canon fmt) (only parsing).
Local Notation load_canon_empty := (Reload.load_canon_empty fmt) (only parsing).
Local Notation name_ok := (Reload.name_ok fmt) (only parsing).
Local Notation pcond := (Reload.pcond fmt) (only parsing).
Local Notation pconds := (Reload.pconds fmt) (only parsing).
Local Notation persist_then_load := (Reload.persist_then_load fmt) (only parsing).
Local Notation pinv := (Reload.pinv fmt) (only parsing).
Local Notation prun := (Reload.prun fmt) (only parsing).
Local Notation pstep := (Reload.pstep fmt) (only parsing).
Local Notation pstep_ok := (Reload.pstep_ok fmt) (only parsing).
Local Notation resolve_sto := (Reload.resolve_sto fmt) (only parsing).
Local Notation root_allh := (Reload.root_allh fmt) (only parsing).
Local Notation root_allh_mono := (Reload.root_allh_mono fmt) (only parsing).
Local Notation root_allh_of_node := (Reload.root_allh_of_node fmt) (only parsing).
Local Notation root_node_allh := (Reload.root_node_allh fmt) (only parsing).
Local Notation set_size_allh := (Reload.set_size_allh fmt) (only parsing).
Local Notation shrink_allh := (Reload.shrink_allh fmt) (only parsing).
Local Notation shrink_loop_allh := (Reload.shrink_loop_allh fmt) (only parsing).
Local Notation stl := (Reload.stl fmt) (only parsing).
Local Notation sto := (Reload.sto fmt) (only parsing).
Local Notation sto_hered := (Reload.sto_hered fmt) (only parsing).
Local Notation sto_l := (Reload.sto_l fmt) (only parsing).
Local Notation sto_l_mono := (Reload.sto_l_mono fmt) (only parsing).
Local Notation sto_mono := (Reload.sto_mono fmt) (only parsing).
Local Notation sto_mono' := (Reload.sto_mono' fmt) (only parsing).
Local Notation store_node_sto := (Reload.store_node_sto fmt) (only parsing).

(** * a captured root that loads back to l from any store extending S *)
Definition good_root (S : store) (kind bf : N) (l : list (key * val)) (rt : root) : Prop :=
  r_fmt rt = (fmt_string fmt) /\ r_bf rt = bf /\ r_size rt = N.of_nat (length l) /\ (2 <= bf)%N /\
  ssorted key val kcmp l /\ hrule key val (klayer bf) bf l (r_height rt) /\
  match r_link rt with
  | None => l = [] /\ r_height rt = 0
  | Some h => exists n, sto S kind h n /\ erase_n _ _ n = bnode _ _ (klayer bf) (r_height rt) l
  end.

Lemma good_root_mono S S' kind bf l rt : extends S S' -> good_root S kind bf l rt -> good_root S' kind bf l rt.
Proof.
  intros Hx (A & B & C & D & E & F & G). refine (conj A (conj B (conj C (conj D (conj E (conj F _)))))).
  destruct (r_link rt) as [h|]; [|exact G]. destruct G as (n & Hs & He). exists n. split; [exact (sto_mono' S S' kind Hx h n Hs)|exact He].
Qed.

Lemma load_good S kind bf l rt : good_root S kind bf l rt ->
  oks (load_mast S kind rt) (fun r => fst r = fmt /\ kcanon bf (snd r) l /\ root_allh S kind (snd r)).
Proof.
  intros (A & B & C & D & E & F & G). destruct rt as [lk sz hh bf' fm]. cbn [r_fmt r_bf r_size r_height r_link] in *. subst fm bf'.
  destruct lk as [h|].
  - destruct G as (n & Hs & He). eapply oks_weaken; [exact (load_canon S kind bf hh sz h n l Hs He E C D F)|].
    intros r (H1 & H2 & H3). split; [exact H1|]. split; [exact H2|]. unfold root_allh. rewrite H3. constructor. exact Hs.
  - destruct G as [-> ->]. eapply oks_weaken; [exact (load_canon_empty S kind bf sz 0 C eq_refl D)|].
    intros r (H1 & H2 & H3). split; [exact H1|]. split; [exact H2|]. unfold root_allh. rewrite H3. constructor. apply allh_fresh.
Qed.

(** MakeRoot: the returned root is good for the resulting store, the tree keeps its contents and
    its links are in the resulting store *)
Lemma make_root_good s kind bf (m : kmast) l t rt m' :
  kcanon bf m l -> root_allh s kind m -> list_ok kind l ->
  make_root fmt m = (t, Ok (rt, m')) -> nocoll s t ->
  good_root (apply_stores s t) kind bf l rt /\ kcanon bf m' l /\ root_allh (apply_stores s t) kind m'.
Proof.
  intros C Hall Hlo E Hn.
  destruct (cn_root _ _ _ _ _ _ _ C) as (n & Hrn & He).
  pose proof (cn_bf _ _ _ _ _ _ _ C) as Hbf. pose proof (cn_bfeq _ _ _ _ _ _ _ C) as Hbfe.
  pose proof (cn_h _ _ _ _ _ _ _ C) as Hh. rewrite Hbfe in Hh, Hbf.
  unfold make_root in E. apply bind_ok_inv in E. destruct E as (t1 & [lk m1] & t2 & Ef & Er & ->).
  unfold ret in Er. inversion Er; subst t2 rt m'. clear Er. rewrite app_nil_r in *.
  assert (Hempty : forall mm, kcanon bf mm [] -> m_size _ _ mm = 0%N /\ m_height _ _ mm = 0).
  { intros mm Cm. split; [exact (cn_size _ _ _ _ _ _ _ Cm)|].
    pose proof (cn_h _ _ _ _ _ _ _ Cm) as Hh'. rewrite (cn_bfeq _ _ _ _ _ _ _ Cm) in Hh'. exact (hrule_nil_height bf _ Hh'). }
  unfold flush in Ef.
  assert (Hgen : forall (r : klink) tl, m_root _ _ m = r -> root_n _ _ r = Some n -> load _ _ r = (tl, Ok n) ->
            (forall s0, apply_stores s0 tl = s0) -> (forall s0 t0, nocoll s0 (tl ++ t0) -> nocoll s0 t0) ->
            (let* n0 := load _ _ r in
             if is_empty _ _ n0 then ret (None, m)
             else let* (h, n') := store_node (S (S (m_height _ _ m))) fmt n0 in
                  ret (Some h, set_root _ _ m (LHash h n') (m_emptied _ _ m))) = (t1, Ok (lk, m1)) ->
            good_root (apply_stores s t1) kind bf l (Root lk (m_size _ _ m1) (m_height _ _ m1) (m_bf _ _ m1) (fmt_string fmt)) /\
            kcanon bf m1 l /\ root_allh (apply_stores s t1) kind m1).
  { intros r tl Eroot Hrn' Hld Htl Hntl Ef'.
    apply bind_ok_inv in Ef'. destruct Ef' as (tl' & n0 & t2 & El & Ef' & ->).
    rewrite Hld in El. inversion El; subst tl' n0. clear El.
    rewrite apply_stores_app, Htl. apply Hntl in Hn.
    destruct (is_empty _ _ n) eqn:Eem.
    - unfold ret in Ef'. inversion Ef'; subst t2 lk m1. clear Ef'. cbn [apply_stores].
      assert (El : l = []) by (apply (is_empty_bnode key val (klayer bf) _ _ _ He); exact Eem). subst l.
      destruct (Hempty m C) as [Hs0 Hh0].
      split; [|split; [exact C|exact Hall]].
      unfold good_root. cbn [r_fmt r_bf r_size r_height r_link length]. rewrite Hs0, Hh0, Hbfe. rewrite Hh0 in Hh.
      refine (conj eq_refl (conj eq_refl (conj eq_refl (conj Hbf (conj _ (conj Hh (conj eq_refl eq_refl))))))). constructor.
    - apply bind_ok_inv in Ef'. destruct Ef' as (t' & [hh n'] & t3 & Est & Er & ->).
      unfold ret in Er. inversion Er; subst t3 lk m1. clear Er. rewrite app_nil_r in *.
      assert (Hfits : fits key val (S (S (m_height _ _ m))) n) by (apply fits_mono; exact (fits_bnode key val (klayer bf) _ _ _ He)).
      assert (Hlist : to_list_n _ _ n = l) by exact (canon_list key val (klayer bf) _ _ _ He).
      assert (Hsto : sto (apply_stores s t') kind hh n').
      { refine (store_node_sto kind _ n s Hfits _ _ t' (hh, n') Est Hn).
        - apply (root_node_allh s kind r); [rewrite <- Eroot; exact Hall|exact Hrn'].
        - rewrite Hlist. exact Hlo. }
      assert (Her : erase_n _ _ n' = erase_n _ _ n).
      { destruct (store_node_erase _ fmt n Hfits) as (t0 & r0 & E0 & H0). rewrite Est in E0. inversion E0; subst. exact H0. }
      cbn [set_root m_size m_height m_bf m_root].
      split; [|split].
      + unfold good_root. cbn [r_fmt r_bf r_size r_height r_link]. rewrite Hbfe.
        refine (conj eq_refl (conj eq_refl (conj (cn_size _ _ _ _ _ _ _ C) (conj Hbf (conj (cn_sorted _ _ _ _ _ _ _ C) (conj Hh _)))))).
        exists n'. split; [exact Hsto|rewrite Her; exact He].
      + eapply canon_set_root; [exact C|reflexivity|]. rewrite Her. exact He.
      + unfold root_allh. cbn [set_root m_root]. constructor. exact Hsto. }
  destruct (m_root _ _ m) as [|c|h c|h] eqn:Eroot.
  - unfold ret in Ef. inversion Ef; subst t1 lk m1. clear Ef. cbn [apply_stores set_root m_size m_height m_bf].
    assert (El : l = []) by (apply (root_nil_list key val kcmp (klayer bf) bf m l C Eroot)). subst l.
    destruct (Hempty m C) as [Hs0 Hh0].
    split; [|split].
    + unfold good_root. cbn [r_fmt r_bf r_size r_height r_link length]. rewrite Hs0, Hh0, Hbfe. rewrite Hh0 in Hh.
      refine (conj eq_refl (conj eq_refl (conj eq_refl (conj Hbf (conj _ (conj Hh (conj eq_refl eq_refl))))))). constructor.
    + eapply canon_set_root; [exact C|reflexivity|]. cbn [root_n] in Hrn. inversion Hrn; subst. exact He.
    + unfold root_allh. cbn [set_root m_root]. constructor.
  - cbn [root_n] in Hrn. inversion Hrn; subst c.
    apply (Hgen (LPtr n) []); try reflexivity; try discriminate; try exact Ef. intros s0 t0 H0. exact H0.
  - cbn [root_n] in Hrn. inversion Hrn; subst c.
    apply (Hgen (LHash h n) [ELoad h]); try reflexivity; try discriminate; try exact Ef. intros s0 t0 H0. exact H0.
  - discriminate.
Qed.


(** a good root survives the trip through its JSON text *)
Lemma hrule_height_lt bf (l : kvl) h : hrule key val (klayer bf) bf l h -> h < max_layer_fuel.
Proof.
  intros [[->|[Hl _]] _]; [unfold max_layer_fuel; lia|]. unfold has_layer in Hl. apply Exists_exists in Hl. destruct Hl as (x & _ & Hx).
  pose proof (klayer_bound bf (fst x)). lia.
Qed.
Lemma good_root_wf S kind bf l rt : good_root S kind bf l rt -> list_ok kind l -> (bf < ten40)%N -> root_wf rt.
Proof.
  intros (A & B & C & D & E & F & G) [_ Hsm] Hbf. unfold root_wf. rewrite A, B, C.
  split; [unfold small in Hsm; unfold ten40; lia|].
  split; [pose proof (hrule_height_lt _ _ _ F) as Hh; unfold max_layer_fuel in Hh; unfold ten40; lia|].
  split; [exact Hbf|]. split; [destruct fmt; reflexivity|].
  destruct (r_link rt) as [h|]; [|exact I]. destruct G as (n & Hs & _). inversion Hs as [? ? ? _ _ _ _ _ Hn]; subst.
  apply plain_no_quote. exact (proj2 (proj2 Hn)).
Qed.
End FMT.

(** * the abstract world: contents, branch factor, store and key kind of every tree and root *)
Record atree := ATree { at_bf : N; at_l : kvl; at_s : N; at_kind : N; at_fmt : nfmt }.
Definition aworld2 := (list (N * atree) * list (N * atree))%type.   (* trees, captured roots *)

Inductive aobs2 := BFail (c : N) | BOk | BVal (v : option val) | BNum (n : N) | BList (l : kvl) | BRoot (size : N) | BDiff (l : list dobs) | BEntry (e : option (key * val)).

Definition pobs (o : obs) : aobs2 :=
  match o with
  | ObFail c => BFail c | ObOk => BOk | ObVal v => BVal v | ObNum n => BNum n | ObList l => BList l
  | ObRoot r => BRoot (r_size r) | ObDiff l => BDiff l | ObEntry e => BEntry e | _ => BFail 9
  end.

Definition sdiff_obs (lo ln : kvl) : list dobs := flat_map dobs_of (sdiff key val kcmp bytes_eqb lo ln).
Definition kfrom (k : key) (l : kvl) : kvl := from_key key val kcmp k l.

Definition old_list (a : aworld2) (told : option N) : kvl :=
  match told with Some i => match aget (fst a) i with Some x => at_l x | None => [] end | None => [] end.

Definition astep2 (a : aworld2) (o : op) : aworld2 * aobs2 :=
  let (tr, ro) := a in
  match o with
  | ONew t s bf f kind => ((aset tr t (ATree (eff_bf bf) [] s kind (match f with Some x => x | None => FBin end)), ro), BOk)
  | OIns t k v => match aget tr t with
                  | Some x => ((aset tr t (ATree (at_bf x) (aupsert k v (at_l x)) (at_s x) (at_kind x) (at_fmt x)), ro), BOk)
                  | None => (a, BFail 9) end
  | ODel t k v =>
      match aget tr t with
      | Some x =>
          match alookup k (at_l x) with
          | Some v' => if bytes_eqb v' v then ((aset tr t (ATree (at_bf x) (aremove k (at_l x)) (at_s x) (at_kind x) (at_fmt x)), ro), BOk) else (a, BFail 1)
          | None => (a, BFail 1)
          end
      | None => (a, BFail 9)
      end
  | OGet t k => match aget tr t with Some x => (a, BVal (alookup k (at_l x))) | None => (a, BFail 9) end
  | OSize t => match aget tr t with Some x => (a, BNum (N.of_nat (length (at_l x)))) | None => (a, BFail 9) end
  | OHeight t => match aget tr t with Some x => (a, BNum (N.of_nat (aheight key val (klayer (at_bf x)) (at_bf x) (at_l x)))) | None => (a, BFail 9) end
  | OIter t => match aget tr t with Some x => (a, BList (at_l x)) | None => (a, BFail 9) end
  | OIterStop t n => match aget tr t with Some x => (a, BList (firstn (S n) (at_l x))) | None => (a, BFail 9) end
  | OSeek t k => match aget tr t with Some x => (a, BList (kfrom k (at_l x))) | None => (a, BFail 9) end
  | OSeekStop t k n => match aget tr t with Some x => (a, BList (firstn (S n) (kfrom k (at_l x)))) | None => (a, BFail 9) end
  | OClone t t2 => match aget tr t with Some x => ((aset tr t2 x, ro), BOk) | None => (a, BFail 9) end
  | OMakeRoot t r => match aget tr t with Some x => ((tr, aset ro r x), BRoot (N.of_nat (length (at_l x)))) | None => (a, BFail 9) end
  | OLoad r t _ _ => match aget ro r with Some x => ((aset tr t x, ro), BOk) | None => (a, BFail 9) end
  | ODiff tn told | ODiffCur tn told =>
      match aget tr tn with Some x => (a, BDiff (sdiff_obs (old_list a told) (at_l x))) | None => (a, BFail 9) end
  | ODiffStop tn told n =>
      match aget tr tn with Some x => (a, BDiff (firstn (S n) (sdiff_obs (old_list a told) (at_l x)))) | None => (a, BFail 9) end
  | ODiffFail tn told n =>
      match aget tr tn with
      | Some x => let es := sdiff_obs (old_list a told) (at_l x) in (a, if Nat.ltb n (length es) then BFail 1 else BDiff es)
      | None => (a, BFail 9) end
  | _ => (a, BFail 9)
  end.

(* side conditions on the abstract side: element encodings that round-trip under the
   tree's key kind, reload from the store and with the key kind the root was made with, diffs
   between trees over one store *)
Definition same_home (a : aworld2) (tn : N) (told : option N) : Prop :=
  match told with
  | Some i => match aget (fst a) tn, aget (fst a) i with
              | Some x, Some y => at_s x = at_s y /\ at_kind x = at_kind y /\ at_fmt x = at_fmt y
              | _, _ => True end
  | None => True
  end.
Definition sup (a : aworld2) (o : op) : Prop :=
  match o with
  | ONew _ _ bf _ _ => (2 <= eff_bf bf)%N
  | OIns t k v => match aget (fst a) t with Some x => Reload.list_ok (at_fmt x) (at_kind x) (aupsert k v (at_l x)) | None => True end
  | ODel _ _ _ | OGet _ _ | OSize _ | OHeight _ | OIter _ | OIterStop _ _ | OSeek _ _ | OSeekStop _ _ _ | OClone _ _ | OMakeRoot _ _ => True
  | OLoad r _ s kind => match aget (snd a) r with Some x => at_s x = s /\ at_kind x = kind /\ (at_bf x < ten40)%N | None => True end
  | ODiff tn told | ODiffCur tn told | ODiffStop tn told _ | ODiffFail tn told _ => same_home a tn told
  | _ => False
  end.
(* ... and on the concrete side: no two different byte strings written by a persist share a name *)
Definition ncoll (w : world) (o : op) : Prop :=
  match o with
  | OMakeRoot t _ =>
      forall x tr res, aget (w_trees w) t = Some x -> make_root (c_fmt (t_cfg x)) (t_m x) = (tr, Ok res) ->
                       nocoll (get_store w (c_store (t_cfg x))) tr
  | _ => True
  end.

Definition tree_ok (w : world) (tr : tree) (x : atree) : Prop :=
  kcanon (at_bf x) (t_m tr) (at_l x) /\ t_cfg tr = TCfg (at_fmt x) (at_kind x) (at_s x) /\
  Reload.root_allh (at_fmt x) (get_store w (at_s x)) (at_kind x) (t_m tr) /\ Reload.list_ok (at_fmt x) (at_kind x) (at_l x).
Definition root_ok (w : world) (rt : root) (x : atree) : Prop :=
  good_root (at_fmt x) (get_store w (at_s x)) (at_kind x) (at_bf x) (at_l x) rt /\ Reload.list_ok (at_fmt x) (at_kind x) (at_l x).

Definition winv2 (w : world) (a : aworld2) : Prop :=
  (forall t, match aget (w_trees w) t, aget (fst a) t with
             | Some tr, Some x => tree_ok w tr x | None, None => True | _, _ => False end) /\
  (forall r, match aget (w_roots w) r, aget (snd a) r with
             | Some rt, Some x => root_ok w rt x | None, None => True | _, _ => False end).

Lemma winv2_empty : winv2 empty_world ([], []).
Proof. split; intros t; exact I. Qed.

(* the stores of w' extend those of w *)
Definition grows (w w' : world) : Prop := forall s, extends (get_store w s) (get_store w' s).
Lemma grows_refl w : grows w w. Proof. intros s. apply extends_refl. Qed.

Lemma tree_ok_grows w w' tr x : grows w w' -> tree_ok w tr x -> tree_ok w' tr x.
Proof. intros G (A & B & C & D). exact (conj A (conj B (conj (Reload.root_allh_mono _ _ _ _ _ (G (at_s x)) C) D))). Qed.
Lemma root_ok_grows w w' rt x : grows w w' -> root_ok w rt x -> root_ok w' rt x.
Proof. intros G (A & B). split; [exact (good_root_mono _ _ _ _ _ _ _ (G (at_s x)) A)|exact B]. Qed.

(* replacing trees and roots of a world whose stores grow *)
Lemma winv2_update w w' a t tr x :
  winv2 w a -> grows w w' -> w_trees w' = aset (w_trees w) t tr -> w_roots w' = w_roots w -> tree_ok w' tr x ->
  winv2 w' (aset (fst a) t x, snd a).
Proof.
  intros [HT HR] G Et Er Hok. split; cbn [fst snd].
  - intros t'. rewrite Et. destruct (N.eq_dec t t') as [->|Hne].
    + rewrite !aget_aset_same. exact Hok.
    + rewrite !aget_aset_other by exact Hne. specialize (HT t').
      destruct (aget (w_trees w) t'), (aget (fst a) t'); try exact HT. exact (tree_ok_grows _ _ _ _ G HT).
  - intros r. rewrite Er. specialize (HR r). destruct (aget (w_roots w) r), (aget (snd a) r); try exact HR. exact (root_ok_grows _ _ _ _ G HR).
Qed.

Lemma get_store_set_tree w t tr s : get_store (set_tree w t tr) s = get_store w s.
Proof. reflexivity. Qed.

Lemma winv2_update_root w w' a r rt x :
  winv2 w a -> (forall s, get_store w' s = get_store w s) -> w_trees w' = w_trees w -> w_roots w' = aset (w_roots w) r rt ->
  root_ok w' rt x -> winv2 w' (fst a, aset (snd a) r x).
Proof.
  intros [HT HR] G Et Er Hok.
  assert (G' : grows w w') by (intros s; rewrite G; apply extends_refl).
  split; cbn [fst snd].
  - intros t. rewrite Et. specialize (HT t). destruct (aget (w_trees w) t), (aget (fst a) t); try exact HT. exact (tree_ok_grows _ _ _ _ G' HT).
  - intros r'. rewrite Er. destruct (N.eq_dec r r') as [->|Hne].
    + rewrite !aget_aset_same. exact Hok.
    + rewrite !aget_aset_other by exact Hne. specialize (HR r').
      destruct (aget (w_roots w) r'), (aget (snd a) r'); try exact HR. exact (root_ok_grows _ _ _ _ G' HR).
Qed.

Lemma get_store_set_same w s S' : get_store (set_store w s S') s = S'.
Proof. unfold get_store, set_store. cbn [w_stores]. rewrite aget_aset_same. reflexivity. Qed.
Lemma get_store_set_other w s s2 S' : s <> s2 -> get_store (set_store w s S') s2 = get_store w s2.
Proof. intros H. unfold get_store, set_store. cbn [w_stores]. rewrite aget_aset_other by exact H. reflexivity. Qed.

Lemma grows_set_store w s t : grows w (set_store w s (apply_stores (get_store w s) t)).
Proof.
  intros s2. destruct (N.eq_dec s s2) as [->|Hne].
  - rewrite get_store_set_same. apply extends_apply.
  - rewrite get_store_set_other by exact Hne. apply extends_refl.
Qed.

Lemma list_ok_nil f kind : Reload.list_ok f kind [].
Proof. split; [constructor|]. unfold small. cbn. lia. Qed.

(* entry events as observed *)
Lemma entries_only_app a b : entries_only (a ++ b) = entries_only a ++ entries_only b.
Proof. unfold entries_only. apply filter_app. Qed.
Lemma entries_only_flat (l : list (devent key val)) :
  entries_only (flat_map dobs_of l) = flat_map dobs_of (filter (is_entry key val) l).
Proof.
  induction l as [|e r IH]; [reflexivity|]. cbn [flat_map filter]. rewrite entries_only_app, IH.
  destruct e as [|ad rm k av rv|rl al|]; cbn [is_entry dobs_of flat_map]; try reflexivity.
  destruct rl, al; reflexivity.
Qed.

Section FMT2.
Variable fmt : nfmt.
Local Notation clone_allh := (Reload.clone_allh fmt) (only parsing).
Local Notation cycles_ok := (Reload.cycles_ok fmt) (only parsing).
Local Notation delete_allh := (Reload.delete_allh fmt) (only parsing).
Local Notation entry_ok := (Reload.entry_ok fmt) (only parsing).
Local Notation first_node_allh := (Reload.first_node_allh fmt) (only parsing).
Local Notation flush_nonnil := (Reload.flush_nonnil fmt) (only parsing).
Local Notation grow_allh := (Reload.grow_allh fmt) (only parsing).
Local Notation grow_loop_allh := (Reload.grow_loop_allh fmt) (only parsing).
Local Notation insert_allh := (Reload.insert_allh fmt) (only parsing).
Local Notation kv_ok := (Reload.kv_ok fmt) (only parsing).
Local Notation list_ok := (Reload.list_ok fmt) (only parsing).
Local Notation list_ok_incl := (Reload.list_ok_incl fmt) (only parsing).
Local Notation list_ok_remove := (Reload.list_ok_remove fmt) (only parsing).
Local Notation load_canon := (Reload.load_canon fmt) (only parsing).
Local Notation load_canon_empty := (Reload.load_canon_empty fmt) (only parsing).
Local Notation name_ok := (Reload.name_ok fmt) (only parsing).
Local Notation pcond := (Reload.pcond fmt) (only parsing).
Local Notation pconds := (Reload.pconds fmt) (only parsing).
Local Notation persist_then_load := (Reload.persist_then_load fmt) (only parsing).
Local Notation pinv := (Reload.pinv fmt) (only parsing).
Local Notation prun := (Reload.prun fmt) (only parsing).
Local Notation pstep := (Reload.pstep fmt) (only parsing).
Local Notation pstep_ok := (Reload.pstep_ok fmt) (only parsing).
Local Notation resolve_sto := (Reload.resolve_sto fmt) (only parsing).
Local Notation root_allh := (Reload.root_allh fmt) (only parsing).
Local Notation root_allh_mono := (Reload.root_allh_mono fmt) (only parsing).
Local Notation root_allh_of_node := (Reload.root_allh_of_node fmt) (only parsing).
Local Notation root_node_allh := (Reload.root_node_allh fmt) (only parsing).
Local Notation set_size_allh := (Reload.set_size_allh fmt) (only parsing).
Local Notation shrink_allh := (Reload.shrink_allh fmt) (only parsing).
Local Notation shrink_loop_allh := (Reload.shrink_loop_allh fmt) (only parsing).
Local Notation stl := (Reload.stl fmt) (only parsing).
Local Notation sto := (Reload.sto fmt) (only parsing).
Local Notation sto_hered := (Reload.sto_hered fmt) (only parsing).
Local Notation sto_l := (Reload.sto_l fmt) (only parsing).
Local Notation sto_l_mono := (Reload.sto_l_mono fmt) (only parsing).
Local Notation sto_mono := (Reload.sto_mono fmt) (only parsing).
Local Notation sto_mono' := (Reload.sto_mono' fmt) (only parsing).
Local Notation store_node_sto := (Reload.store_node_sto fmt) (only parsing).
(* the entry diff of two trees of one store, whatever their branch factors and heights *)
Lemma k_diff_any s kind bfo bfn (lay : key -> nat) (o : option kmast) (mn : kmast) lo ln :
  kcanon bfn mn ln -> root_allh s kind mn ->
  (forall mo, o = Some mo -> kcanon bfo mo lo /\ root_allh s kind mo) -> (o = None -> lo = []) ->
  oks (diff _ _ kcmp bytes_eqb lay o mn) (fun r => entries_only (flat_map dobs_of r) = sdiff_obs lo ln).
Proof.
  intros Cn Hn Ho Hnone.
  destruct (canon_root_fits key val kcmp (klayer bfn) bfn mn ln Cn) as [Fn Ln].
  assert (crefl : forall k, kcmp k k = Eq) by (intros k; apply kcmp_eq; reflexivity).
  assert (Hpre : forall t, o = Some t -> allh_l key val (sto s kind) (m_root _ _ t) /\ fitsl_of key val (fits key val (S (m_height _ _ t))) (m_root _ _ t)).
  { intros t E. destruct (Ho t E) as [Co Hao]. split; [exact Hao|]. exact (proj1 (canon_root_fits key val kcmp (klayer bfo) bfo t lo Co)). }
  eapply oks_weaken; [exact (diff_entries key val kcmp bytes_eqb lay crefl bytes_eqb_refl (sto s kind) (sto_hered s kind) (sto_fun fmt s kind) o mn Hn Fn Hpre)|].
  intros r Hr. rewrite entries_only_flat, Hr. unfold sdiff_obs. rewrite Ln.
  assert (Eo : olist key val o = lo).
  { destruct o as [mo|]; cbn [olist].
    - destruct (Ho mo eq_refl) as [Co _]. exact (proj2 (canon_root_fits key val kcmp (klayer bfo) bfo mo lo Co)).
    - symmetry. apply Hnone. reflexivity. }
  rewrite Eo. reflexivity.
Qed.

End FMT2.

Lemma winv2_set_tree w a t tr x : winv2 w a -> tree_ok w tr x -> winv2 (set_tree w t tr) (aset (fst a) t x, snd a).
Proof.
  intros H Hok. apply (winv2_update w (set_tree w t tr) a t tr x H); [intros s; apply extends_refl|reflexivity|reflexivity|exact Hok].
Qed.

Lemma tree_bf w tr x : tree_ok w tr x -> m_bf _ _ (t_m tr) = at_bf x.
Proof. intros (C & _). exact (cn_bfeq _ _ _ _ _ _ _ C). Qed.

(* the old side of a diff *)
Lemma old_side w a tn told xn trn :
  winv2 w a -> same_home a tn told -> aget (fst a) tn = Some xn -> aget (w_trees w) tn = Some trn ->
  let o := match told with Some i => option_map t_m (aget (w_trees w) i) | None => None end in
  exists bfo, (forall mo, o = Some mo -> kcanon bfo mo (old_list a told) /\ Reload.root_allh (at_fmt xn) (get_store w (at_s xn)) (at_kind xn) mo) /\
              (o = None -> old_list a told = []).
Proof.
  intros [HT _] Hh Ea Et o. subst o. destruct told as [i|]; cbn [old_list].
  - specialize (HT i). cbn [same_home] in Hh. rewrite Ea in Hh.
    destruct (aget (w_trees w) i) as [tri|] eqn:Ei; destruct (aget (fst a) i) as [xi|] eqn:Eai; try contradiction.
    + destruct Hh as (Hs & Hk & Hf). destruct HT as (C & _ & Hall & _). exists (at_bf xi). split.
      * intros mo E. cbn [option_map] in E. inversion E; subst mo. rewrite Hs, Hk, Hf. split; assumption.
      * intros E. discriminate E.
    + exists 2%N. split; [intros mo E; discriminate E|reflexivity].
  - exists 2%N. split; [intros mo E; discriminate E|reflexivity].
Qed.

Theorem step_refines2 w a o :
  winv2 w a -> sup a o -> ncoll w o ->
  let '(w', ob, _) := step w o in
  let (a', aob) := astep2 a o in
  winv2 w' a' /\ pobs ob = aob.
Proof.
  intros Hinv Hs Hnc. destruct a as [atr aro]. pose proof Hinv as [HT HR]. cbn [fst snd] in HT, HR.
  destruct o; cbn [sup] in Hs; try contradiction; cbn [step astep2]; unfold with_tree.
  - (* ONew *)
    rename Hs into Hbf. unfold load_mast, new_root. cbn [r_fmt r_link r_height r_size r_bf].
    rewrite parse_fmt_string. cbn [load bind ret check_keys pow_N n_es fresh_node app fst snd]. fold (eff_bf bf). split; [|reflexivity].
    apply (winv2_set_tree w (atr, aro) t _ (ATree (eff_bf bf) [] s kind (match f with Some x => x | None => FBin end)) Hinv).
    refine (conj _ (conj eq_refl (conj _ (list_ok_nil _ kind)))); cbn [t_m at_bf at_l at_s at_kind at_fmt].
    + exact (empty_canon key val kcmp (klayer (eff_bf bf)) (eff_bf bf) false Hbf).
    + unfold Reload.root_allh. cbn [m_root]. constructor. apply allh_fresh.
  - (* OIns *)
    specialize (HT t). destruct (aget (w_trees w) t) as [tr|] eqn:Et; destruct (aget atr t) as [x|] eqn:Ea; try contradiction; [|split; [exact Hinv|reflexivity]].
    cbn [fst] in Hs. rewrite Ea in Hs. pose proof (tree_bf _ _ _ HT) as Hb. destruct HT as (C & Hcfg & Hall & Hlo).
    unfold upd, layer_of. rewrite Hb.
    destruct (k_insert_ok (at_bf x) (t_m tr) (at_l x) k v C) as (tr' & m' & E & C'). rewrite E. split; [|reflexivity].
    apply (winv2_set_tree w (atr, aro) t _ (ATree (at_bf x) (aupsert k v (at_l x)) (at_s x) (at_kind x) (at_fmt x)) Hinv).
    refine (conj C' (conj Hcfg (conj _ Hs))). exact (Reload.insert_allh _ _ _ (at_bf x) (t_m tr) k v Hall tr' m' E).
  - (* ODel *)
    specialize (HT t). destruct (aget (w_trees w) t) as [tr|] eqn:Et; destruct (aget atr t) as [x|] eqn:Ea; try contradiction; [|split; [exact Hinv|reflexivity]].
    pose proof (tree_bf _ _ _ HT) as Hb. destruct HT as (C & Hcfg & Hall & Hlo).
    unfold upd, layer_of. rewrite Hb.
    destruct (alookup k (at_l x)) as [v'|] eqn:El.
    + destruct (bytes_eqb v' v) eqn:Ev.
      * apply bytes_eqb_eq in Ev. subst v'.
        destruct (k_delete_ok (at_bf x) (t_m tr) (at_l x) k v C El) as (tr' & m' & E & C'). rewrite E. split; [|reflexivity].
        apply (winv2_set_tree w (atr, aro) t _ (ATree (at_bf x) (aremove k (at_l x)) (at_s x) (at_kind x) (at_fmt x)) Hinv).
        refine (conj C' (conj Hcfg (conj _ _))).
        -- exact (Reload.delete_allh _ _ _ (at_bf x) (t_m tr) k v Hall tr' m' E).
        -- apply Reload.list_ok_remove; [exact (cn_sorted _ _ _ _ _ _ _ C)|exact Hlo].
      * assert (Hne : alookup k (at_l x) <> Some v).
        { rewrite El. intros H. inversion H; subst. rewrite (proj2 (bytes_eqb_eq v v) eq_refl) in Ev. discriminate. }
        destruct (k_delete_fail (at_bf x) (t_m tr) (at_l x) k v C Hne) as (tr' & E). rewrite E. split; [exact Hinv|reflexivity].
    + assert (Hne : alookup k (at_l x) <> Some v) by (rewrite El; discriminate).
      destruct (k_delete_fail (at_bf x) (t_m tr) (at_l x) k v C Hne) as (tr' & E). rewrite E. split; [exact Hinv|reflexivity].
  - (* OGet *)
    specialize (HT t). destruct (aget (w_trees w) t) as [tr|] eqn:Et; destruct (aget atr t) as [x|] eqn:Ea; try contradiction; [|split; [exact Hinv|reflexivity]].
    pose proof (tree_bf _ _ _ HT) as Hb. destruct HT as (C & _). unfold ro, layer_of. rewrite Hb.
    destruct (k_get_ok (at_bf x) (t_m tr) (at_l x) k C) as (tr' & r & E & ->). rewrite E. split; [exact Hinv|reflexivity].
  - (* OSize *)
    specialize (HT t). destruct (aget (w_trees w) t) as [tr|] eqn:Et; destruct (aget atr t) as [x|] eqn:Ea; try contradiction; [|split; [exact Hinv|reflexivity]].
    destruct HT as (C & _). split; [exact Hinv|]. cbn [pobs]. rewrite (cn_size _ _ _ _ _ _ _ C). reflexivity.
  - (* OHeight: the height is a function of the entries *)
    specialize (HT t). destruct (aget (w_trees w) t) as [tr|] eqn:Et; destruct (aget atr t) as [x|] eqn:Ea; try contradiction; [|split; [exact Hinv|reflexivity]].
    destruct HT as (C & _). split; [exact Hinv|]. cbn [pobs].
    rewrite (canon_height key val kcmp (klayer (at_bf x)) (klayer_bound (at_bf x)) (at_bf x) (t_m tr) (at_l x) C). reflexivity.
  - (* OIter *)
    specialize (HT t). destruct (aget (w_trees w) t) as [tr|] eqn:Et; destruct (aget atr t) as [x|] eqn:Ea; try contradiction; [|split; [exact Hinv|reflexivity]].
    destruct HT as (C & _). unfold ro.
    destruct (k_iter_ok (at_bf x) (t_m tr) (at_l x) C) as (tr' & r & E & ->). rewrite E. split; [exact Hinv|reflexivity].
  - (* OSeek *)
    specialize (HT t). destruct (aget (w_trees w) t) as [tr|] eqn:Et; destruct (aget atr t) as [x|] eqn:Ea; try contradiction; [|split; [exact Hinv|reflexivity]].
    destruct HT as (C & _). unfold ro.
    destruct (seek_iter_ok key val kcmp (klayer (at_bf x)) kcmp_eq kcmp_antisym kcmp_trans (at_bf x) (t_m tr) (at_l x) k C) as (tr' & r & E & ->).
    rewrite E. split; [exact Hinv|reflexivity].
  - (* OClone *)
    specialize (HT t). destruct (aget (w_trees w) t) as [tr|] eqn:Et; destruct (aget atr t) as [x|] eqn:Ea; try contradiction; [|split; [exact Hinv|reflexivity]].
    destruct HT as (C & Hcfg & Hall & Hlo).
    destruct (k_clone_ok (at_bf x) (t_m tr) (at_l x) C) as (tr' & m' & E & C'). rewrite E. split; [|reflexivity].
    apply (winv2_set_tree w (atr, aro) t2 _ x Hinv).
    refine (conj C' (conj Hcfg (conj _ Hlo))). exact (Reload.clone_allh _ _ _ (t_m tr) Hall tr' m' E).
  - (* OMakeRoot *)
    specialize (HT t). destruct (aget (w_trees w) t) as [tr|] eqn:Et; destruct (aget atr t) as [x|] eqn:Ea; try contradiction; [|split; [exact Hinv|reflexivity]].
    destruct HT as (C & Hcfg & Hall & Hlo). cbn [ncoll] in Hnc. specialize (Hnc tr). rewrite Hcfg in *. cbn [c_fmt c_store] in *.
    destruct (k_make_root_ok (at_bf x) (at_fmt x) (t_m tr) (at_l x) C) as (tt & [rt m'] & E & _). rewrite E.
    destruct (make_root_good _ _ (at_kind x) (at_bf x) (t_m tr) (at_l x) tt rt m' C Hall Hlo E (Hnc tt (rt, m') Et E)) as (Hg & C' & Hall').
    set (S' := apply_stores (get_store w (at_s x)) tt) in *.
    set (w1 := set_tree (set_store w (at_s x) S') t (Tree (TCfg (at_fmt x) (at_kind x) (at_s x)) m')).
    assert (Hs1 : get_store w1 (at_s x) = S') by (unfold w1; rewrite get_store_set_tree; apply get_store_set_same).
    assert (I1 : winv2 w1 (aset atr t x, aro)).
    { apply (winv2_update w w1 (atr, aro) t (Tree (TCfg (at_fmt x) (at_kind x) (at_s x)) m') x Hinv).
      - intros s2. unfold w1. rewrite get_store_set_tree. apply grows_set_store.
      - reflexivity.
      - reflexivity.
      - refine (conj C' (conj eq_refl (conj _ Hlo))). rewrite Hs1. exact Hall'. }
    split.
    + assert (Eq : (aset atr t x, aset aro r x) = (fst (aset atr t x, aro), aset (snd (aset atr t x, aro)) r x)) by reflexivity.
      assert (I2 : winv2 (set_rootrec w1 r rt) (aset atr t x, aset aro r x)).
      { rewrite Eq. apply (winv2_update_root w1 _ _ r rt x I1); try reflexivity. split; [|exact Hlo].
        change (get_store (set_rootrec w1 r rt) (at_s x)) with (get_store w1 (at_s x)). rewrite Hs1. exact Hg. }
      (* the abstract tree table is unchanged: t already held x *)
      destruct I2 as [I2T I2R]. split; cbn [fst snd] in *.
      * intros t'. specialize (I2T t'). destruct (N.eq_dec t t') as [<-|Hne].
        -- rewrite aget_aset_same in I2T. rewrite Ea. exact I2T.
        -- rewrite aget_aset_other in I2T by exact Hne. exact I2T.
      * exact I2R.
    + cbn [pobs]. destruct Hg as (_ & _ & Hsz & _). rewrite Hsz. reflexivity.
  - (* OLoad *)
    specialize (HR r). destruct (aget (w_roots w) r) as [rt|] eqn:Er; destruct (aget aro r) as [x|] eqn:Ea; try contradiction; [|split; [exact Hinv|reflexivity]].
    cbn [snd] in Hs. rewrite Ea in Hs. destruct Hs as (<- & <- & Hbf). destruct HR as [Hg Hlo].
    rewrite (root_via_json_id rt (good_root_wf _ _ _ _ _ _ Hg Hlo Hbf)).
    destruct (load_good _ _ _ _ _ _ Hg) as (tt & [fm m] & E & Hfm & C & Hall). cbn [fst snd] in *. subst fm. rewrite E. split; [|reflexivity].
    apply (winv2_set_tree w (atr, aro) t _ x Hinv).
    exact (conj C (conj eq_refl (conj Hall Hlo))).
  - (* ODiff *)
    specialize (HT tn) as HTn. destruct (aget (w_trees w) tn) as [trn|] eqn:Et; destruct (aget atr tn) as [xn|] eqn:Ea; try contradiction; [|split; [exact Hinv|reflexivity]].
    destruct (old_side w (atr, aro) tn told xn trn Hinv Hs Ea Et) as (bfo & Ho & Hnone). destruct HTn as (C & _ & Hall & _).
    unfold ro. destruct (k_diff_any _ _ _ bfo (at_bf xn) (layer_of (t_m trn)) _ (t_m trn) _ (at_l xn) C Hall Ho Hnone) as (tt & r & E & Hr).
    rewrite E. split; [exact Hinv|]. cbn [pobs]. rewrite Hr. reflexivity.
  - (* ODiffStop *)
    specialize (HT tn) as HTn. destruct (aget (w_trees w) tn) as [trn|] eqn:Et; destruct (aget atr tn) as [xn|] eqn:Ea; try contradiction; [|split; [exact Hinv|reflexivity]].
    destruct (old_side w (atr, aro) tn told xn trn Hinv Hs Ea Et) as (bfo & Ho & Hnone). destruct HTn as (C & _ & Hall & _).
    unfold ro. destruct (k_diff_any _ _ _ bfo (at_bf xn) (layer_of (t_m trn)) _ (t_m trn) _ (at_l xn) C Hall Ho Hnone) as (tt & r & E & Hr).
    rewrite E. split; [exact Hinv|]. cbn [pobs]. rewrite Hr. reflexivity.
  - (* ODiffFail *)
    specialize (HT tn) as HTn. destruct (aget (w_trees w) tn) as [trn|] eqn:Et; destruct (aget atr tn) as [xn|] eqn:Ea; try contradiction; [|split; [exact Hinv|reflexivity]].
    destruct (old_side w (atr, aro) tn told xn trn Hinv Hs Ea Et) as (bfo & Ho & Hnone). destruct HTn as (C & _ & Hall & _).
    unfold ro. destruct (k_diff_any _ _ _ bfo (at_bf xn) (layer_of (t_m trn)) _ (t_m trn) _ (at_l xn) C Hall Ho Hnone) as (tt & r & E & Hr).
    rewrite E. split; [exact Hinv|]. rewrite Hr. destruct (Nat.ltb n (length (sdiff_obs (old_list (atr, aro) told) (at_l xn)))); reflexivity.
  - (* ODiffCur *)
    specialize (HT tn) as HTn. destruct (aget (w_trees w) tn) as [trn|] eqn:Et; destruct (aget atr tn) as [xn|] eqn:Ea; try contradiction; [|split; [exact Hinv|reflexivity]].
    destruct (old_side w (atr, aro) tn told xn trn Hinv Hs Ea Et) as (bfo & Ho & Hnone). destruct HTn as (C & _ & Hall & _).
    unfold ro. destruct (k_diff_any _ _ _ bfo (at_bf xn) (layer_of (t_m trn)) _ (t_m trn) _ (at_l xn) C Hall Ho Hnone) as (tt & r & E & Hr).
    rewrite E. split; [exact Hinv|]. cbn [pobs]. rewrite Hr. reflexivity.
  - (* OIterStop *)
    specialize (HT t). destruct (aget (w_trees w) t) as [tr|] eqn:Et; destruct (aget atr t) as [x|] eqn:Ea; try contradiction; [|split; [exact Hinv|reflexivity]].
    destruct HT as (C & _). unfold ro.
    destruct (k_iter_ok (at_bf x) (t_m tr) (at_l x) C) as (tr' & r & E & ->). rewrite E. split; [exact Hinv|reflexivity].
  - (* OSeekStop *)
    specialize (HT t). destruct (aget (w_trees w) t) as [tr|] eqn:Et; destruct (aget atr t) as [x|] eqn:Ea; try contradiction; [|split; [exact Hinv|reflexivity]].
    destruct HT as (C & _). unfold ro.
    destruct (seek_iter_ok key val kcmp (klayer (at_bf x)) kcmp_eq kcmp_antisym kcmp_trans (at_bf x) (t_m tr) (at_l x) k C) as (tr' & r & E & ->).
    rewrite E. split; [exact Hinv|reflexivity].
Qed.

(** * histories *)
Fixpoint arun2 (a : aworld2) (ops : list op) : list aobs2 :=
  match ops with [] => [] | o :: r => let (a', ob) := astep2 a o in ob :: arun2 a' r end.
Fixpoint awrun2 (a : aworld2) (ops : list op) : aworld2 :=
  match ops with [] => a | o :: r => awrun2 (fst (astep2 a o)) r end.
(* the side conditions along a history *)
Fixpoint conds (w : world) (a : aworld2) (ops : list op) : Prop :=
  match ops with
  | [] => True
  | o :: r => sup a o /\ ncoll w o /\ conds (fst (fst (step w o))) (fst (astep2 a o)) r
  end.

Theorem history_refines2 : forall ops w a,
  winv2 w a -> conds w a ops ->
  map (fun x => pobs (fst x)) (run w ops) = arun2 a ops /\ winv2 (wrun w ops) (awrun2 a ops).
Proof.
  induction ops as [|o r IH]; intros w a Hinv Hc; [split; [reflexivity|exact Hinv]|].
  cbn [conds] in Hc. destruct Hc as (Hs & Hn & Hr).
  pose proof (step_refines2 w a o Hinv Hs Hn) as Hst. cbn [run arun2 wrun awrun2].
  destruct (step w o) as [[w' ob] tr]. destruct (astep2 a o) as [a' aob]. destruct Hst as [Hinv' Hob]. cbn [fst] in *.
  destruct (IH w' a' Hinv' Hr) as [H1 H2]. split; [cbn [map fst]; rewrite Hob, H1; reflexivity|exact H2].
Qed.

(** every tree of every reachable world - built, cloned, persisted, reloaded from any of the stores -
    is the canonical tree of its abstract contents *)
Corollary reachable_canonical ops t tr :
  conds empty_world ([], []) ops -> aget (w_trees (wrun empty_world ops)) t = Some tr ->
  exists x, aget (fst (awrun2 ([], []) ops)) t = Some x /\ kcanon (at_bf x) (t_m tr) (at_l x).
Proof.
  intros Hc E. destruct (history_refines2 ops empty_world ([], []) winv2_empty Hc) as [_ [HT _]].
  specialize (HT t). rewrite E in HT. destruct (aget (fst (awrun2 ([], []) ops)) t) as [x|]; [|contradiction].
  exists x. split; [reflexivity|exact (proj1 HT)].
Qed.

(** equal contents and branch factor => equal height, size and shape, by whatever histories (with
    persists and reloads through whatever stores) the two trees were reached *)
Corollary same_entries_same_tree2 ops1 ops2 t1 t2 tr1 tr2 x1 x2 :
  conds empty_world ([], []) ops1 -> conds empty_world ([], []) ops2 ->
  aget (w_trees (wrun empty_world ops1)) t1 = Some tr1 -> aget (fst (awrun2 ([], []) ops1)) t1 = Some x1 ->
  aget (w_trees (wrun empty_world ops2)) t2 = Some tr2 -> aget (fst (awrun2 ([], []) ops2)) t2 = Some x2 ->
  at_bf x1 = at_bf x2 -> at_l x1 = at_l x2 ->
  m_height _ _ (t_m tr1) = m_height _ _ (t_m tr2) /\ m_size _ _ (t_m tr1) = m_size _ _ (t_m tr2) /\
  exists n1 n2, root_n _ _ (m_root _ _ (t_m tr1)) = Some n1 /\ root_n _ _ (m_root _ _ (t_m tr2)) = Some n2 /\
                erase_n _ _ n1 = erase_n _ _ n2.
Proof.
  intros C1 C2 E1 A1 E2 A2 Hb Hl.
  destruct (reachable_canonical ops1 t1 tr1 C1 E1) as (y1 & B1 & K1). rewrite A1 in B1. inversion B1; subst y1.
  destruct (reachable_canonical ops2 t2 tr2 C2 E2) as (y2 & B2 & K2). rewrite A2 in B2. inversion B2; subst y2.
  rewrite Hb, Hl in K1.
  exact (canon_unique key val kcmp (klayer (at_bf x2)) (at_bf x2) (t_m tr1) (t_m tr2) (at_l x2) K1 K2).
Qed.

(** * a decision procedure for the side conditions (used for the non-vacuity examples) *)
Definition smallb (n : N) : bool := (n <? 2 ^ 64)%N.
Definition kv_okb (kind : N) (x : key * val) : bool :=
  match kunmarshal kind (kmarshal (fst x)) with
  | Some k' => match kcmp k' (fst x) with Eq => true | _ => false end
  | None => false
  end && smallb (len (kmarshal (fst x))) && smallb (len (snd x)).
Definition list_okb (kind : N) (l : kvl) : bool := forallb (kv_okb kind) l && smallb (N.of_nat (S (length l))).

Lemma smallb_ok n : smallb n = true -> small n.
Proof. unfold smallb, small. intros H. apply N.ltb_lt in H. exact H. Qed.
Lemma list_okb_ok kind l : list_okb kind l = true -> Reload.list_ok FBin kind l.
Proof.
  unfold list_okb. intros H. apply andb_true_iff in H. destruct H as [H1 H2]. split; [|exact (smallb_ok _ H2)].
  rewrite forallb_forall in H1. apply Forall_forall. intros x Hx. specialize (H1 x Hx). unfold kv_okb in H1.
  apply andb_true_iff in H1. destruct H1 as [H1 Hc]. apply andb_true_iff in H1. destruct H1 as [Ha Hb].
  split; [|split; [exact (smallb_ok _ Hb)|exact (smallb_ok _ Hc)]].
  unfold key_rt. destruct (kunmarshal kind (kmarshal (fst x))) as [k'|]; [|discriminate].
  destruct (kcmp k' (fst x)) eqn:Ek; try discriminate. apply kcmp_eq in Ek. subst k'. reflexivity.
Qed.

Fixpoint nocollb (s : store) (t : list event) : bool :=
  match t with
  | [] => true
  | EStore h b :: r => match Store.lookup s h with None => true | Some b' => bytes_eqb b' b end && nocollb (put s h b) r
  | _ :: r => nocollb s r
  end.
Lemma nocollb_ok : forall t s, nocollb s t = true -> nocoll s t.
Proof.
  induction t as [|e r IH]; intros s H; [exact I|]. destruct e; cbn [nocollb nocoll] in *; try (apply IH; exact H).
  apply andb_true_iff in H. destruct H as [H1 H2]. split; [|apply IH; exact H2].
  destruct (Store.lookup s h) as [b'|]; [right|left; reflexivity]. apply bytes_eqb_eq in H1. subst b'. reflexivity.
Qed.

Definition ncollb (w : world) (o : op) : bool :=
  match o with
  | OMakeRoot t _ =>
      match aget (w_trees w) t with
      | Some x => match make_root (c_fmt (t_cfg x)) (t_m x) with
                  | (tr, Ok _) => nocollb (get_store w (c_store (t_cfg x))) tr
                  | _ => true end
      | None => true
      end
  | _ => true
  end.
Lemma ncollb_ok w o : ncollb w o = true -> ncoll w o.
Proof.
  destruct o; cbn [ncollb ncoll]; try (intros _; exact I). intros H x tr res Ex Em. rewrite Ex, Em in H. apply nocollb_ok. exact H.
Qed.

Definition nfmt_eqb (a b : nfmt) : bool := match a, b with FBin, FBin | FV1, FV1 => true | _, _ => false end.
Definition same_homeb (a : aworld2) (tn : N) (told : option N) : bool :=
  match told with
  | Some i => match aget (fst a) tn, aget (fst a) i with
              | Some x, Some y => N.eqb (at_s x) (at_s y) && N.eqb (at_kind x) (at_kind y) && nfmt_eqb (at_fmt x) (at_fmt y)
              | _, _ => true end
  | None => true
  end.
Definition supb (a : aworld2) (o : op) : bool :=
  match o with
  | ONew _ _ bf _ _ => (2 <=? eff_bf bf)%N
  | OIns t k v => match aget (fst a) t with Some x => list_okb_f (at_fmt x) (at_kind x) (aupsert k v (at_l x)) | None => true end
  | ODel _ _ _ | OGet _ _ | OSize _ | OHeight _ | OIter _ | OIterStop _ _ | OSeek _ _ | OSeekStop _ _ _ | OClone _ _ | OMakeRoot _ _ => true
  | OLoad r _ s kind => match aget (snd a) r with Some x => N.eqb (at_s x) s && N.eqb (at_kind x) kind && (at_bf x <? ten40)%N | None => true end
  | ODiff tn told | ODiffCur tn told | ODiffStop tn told _ | ODiffFail tn told _ => same_homeb a tn told
  | _ => false
  end.
Lemma same_homeb_ok a tn told : same_homeb a tn told = true -> same_home a tn told.
Proof.
  unfold same_homeb, same_home. destruct told as [i|]; [|intros _; exact I].
  destruct (aget (fst a) tn) as [x|]; [|intros _; exact I]. destruct (aget (fst a) i) as [y|]; [|intros _; exact I].
  intros H. apply andb_true_iff in H. destruct H as [H H3]. apply andb_true_iff in H. destruct H as [H1 H2]. apply N.eqb_eq in H1. apply N.eqb_eq in H2.
  split; [assumption|]. split; [assumption|]. destruct (at_fmt x), (at_fmt y); try discriminate; reflexivity.
Qed.
Lemma supb_ok a o : supb a o = true -> sup a o.
Proof.
  destruct o; cbn [supb sup]; try discriminate; try (intros _; exact I); try apply same_homeb_ok.
  - intros H. apply N.leb_le; exact H.
  - destruct (aget (fst a) t); [apply list_okb_f_ok|intros _; exact I].
  - destruct (aget (snd a) r); [|intros _; exact I]. intros H. apply andb_true_iff in H. destruct H as [H H3]. apply andb_true_iff in H. destruct H as [H1 H2].
    apply N.eqb_eq in H1. apply N.eqb_eq in H2. apply N.ltb_lt in H3. split; [assumption|split; assumption].
Qed.

Fixpoint condsb (w : world) (a : aworld2) (ops : list op) : bool :=
  match ops with
  | [] => true
  | o :: r => supb a o && ncollb w o && condsb (fst (fst (step w o))) (fst (astep2 a o)) r
  end.
Lemma condsb_ok : forall ops w a, condsb w a ops = true -> conds w a ops.
Proof.
  induction ops as [|o r IH]; intros w a H; [exact I|]. cbn [condsb conds] in *.
  apply andb_true_iff in H. destruct H as [H H3]. apply andb_true_iff in H. destruct H as [H1 H2].
  split; [exact (supb_ok _ _ H1)|]. split; [exact (ncollb_ok _ _ H2)|exact (IH _ _ H3)].
Qed.
