(** Changing the level of a canonical tree: grow (lib.go:279-367) rebuilds the top node one level
    higher, shrink (lib.go:382-449) one level lower.  Lemma file. *)
From Coq Require Import List NArith ZArith Lia Bool Sorted.
From Mast Require Import Prim Tree Erase Build Spec Canon.
Import ListNotations.

Section LEVEL.
Variables K V : Type.
Variable layer : K -> nat.
Notation node := (node K V).
Notation link := (link K V).
Notation entry := (entry K V).
Notation kv := (K * V)%type.
Notation seg := (seg K V).
Notation pseg := (pseg K V).
Notation segs := (segs K V layer).
Notation bnode := (bnode K V layer).
Notation build := (build K V layer).
Notation subl := (subl K V layer).
Notation erase_n := (erase_n K V).
Notation erase_l := (erase_l K V).
Notation erase_e := (erase_e K V).
Notation mk_es := (mk_es K V).
Notation flat := (flat K V).

(** * list level *)
Lemma flat_app_ps s0 (a b : list pseg) :
  flat s0 (a ++ b) = flat s0 a ++ flat_map (fun p : pseg => (pkey _ _ p, pval _ _ p) :: pseg_of _ _ p) b.
Proof. unfold Build.flat. rewrite flat_map_app, app_assoc. reflexivity. Qed.

Lemma segs_pivot_after d (A B : seg) k v :
  Forall (fun x : kv => layer (fst x) < d) A -> d <= layer k ->
  segs d (A ++ (k, v) :: B) = (A, (k, v, fst (segs d B)) :: snd (segs d B)).
Proof.
  intros HA Hk. rewrite segs_app, (segs_no_pivot K V layer d A HA), segs_head_pivot by exact Hk.
  cbn. rewrite app_nil_r. reflexivity.
Qed.

(* a valid decomposition at level d *)
Definition valid_dec (d : nat) (s0 : seg) (ps : list pseg) : Prop :=
  Forall (fun x : kv => layer (fst x) < d) s0 /\
  Forall (fun p : pseg => d <= layer (pkey _ _ p) /\ Forall (fun x : kv => layer (fst x) < d) (pseg_of _ _ p)) ps.

Lemma segs_valid d l : valid_dec d (fst (segs d l)) (snd (segs d l)).
Proof. apply segs_layers. Qed.

Lemma segs_of_flat d s0 ps : valid_dec d s0 ps -> segs d (flat s0 ps) = (s0, ps).
Proof.
  revert s0. induction ps as [|[[k v] s] r IH]; intros s0 [H0 Hps].
  - unfold Build.flat. cbn. rewrite app_nil_r. apply segs_no_pivot. exact H0.
  - inversion Hps as [|? ? [Hk Hs] Hr]; subst. cbn [pkey pval pseg_of fst snd] in Hk, Hs.
    unfold Build.flat. cbn [flat_map app pkey pval pseg_of fst snd].
    rewrite segs_pivot_after by assumption.
    change (s ++ flat_map (fun p : pseg => (pkey _ _ p, pval _ _ p) :: pseg_of _ _ p) r) with (flat s r).
    rewrite (IH s (conj Hs Hr)). reflexivity.
Qed.

(** regrouping a level-h decomposition at level h+1: the list-level grow *)
Fixpoint regroup (h : nat) (c0 : seg) (acc : list pseg) (ps : list pseg) : seg * list pseg :=
  match ps with
  | [] => (flat c0 (rev acc), [])
  | (k, v, s) :: r =>
      if Nat.ltb h (layer k) then
        let (t, qs) := regroup h s [] r in (flat c0 (rev acc), (k, v, t) :: qs)
      else regroup h c0 ((k, v, s) :: acc) r
  end.

Lemma flat_layers_lt d s0 ps :
  Forall (fun x : kv => layer (fst x) < d) s0 ->
  Forall (fun p : pseg => layer (pkey _ _ p) < d /\ Forall (fun x : kv => layer (fst x) < d) (pseg_of _ _ p)) ps ->
  Forall (fun x : kv => layer (fst x) < d) (flat s0 ps).
Proof.
  intros H0 Hps. unfold Build.flat. rewrite Forall_app. split; [exact H0|].
  induction Hps as [|p r [Hk Hs] _ IH]; [constructor|]. cbn [flat_map]. constructor; [exact Hk|].
  rewrite Forall_app. split; assumption.
Qed.

Lemma segs_regroup h : forall ps c0 acc,
  Forall (fun x : kv => layer (fst x) < h) c0 ->
  Forall (fun p : pseg => layer (pkey _ _ p) = h /\ Forall (fun x : kv => layer (fst x) < h) (pseg_of _ _ p)) acc ->
  Forall (fun p : pseg => h <= layer (pkey _ _ p) /\ Forall (fun x : kv => layer (fst x) < h) (pseg_of _ _ p)) ps ->
  segs (S h) (flat c0 (rev acc ++ ps)) = regroup h c0 acc ps.
Proof.
  induction ps as [|[[k v] s] r IH]; intros c0 acc H0 Hacc Hps.
  - rewrite app_nil_r. cbn [regroup]. apply segs_no_pivot. apply flat_layers_lt.
    + eapply Forall_impl; [|exact H0]. intros; cbn in *; lia.
    + apply Forall_rev. eapply Forall_impl; [|exact Hacc]. intros p [Hk Hs]. split; [lia|].
      eapply Forall_impl; [|exact Hs]. intros; cbn in *; lia.
  - inversion Hps as [|? ? [Hk Hs] Hr]; subst. cbn [pkey pval pseg_of fst snd] in Hk, Hs.
    cbn [regroup]. destruct (Nat.ltb h (layer k)) eqn:E.
    + apply Nat.ltb_lt in E. rewrite flat_app_ps. cbn [flat_map app pkey pval pseg_of fst snd].
      rewrite segs_pivot_after.
      * change (s ++ flat_map (fun p : pseg => (pkey _ _ p, pval _ _ p) :: pseg_of _ _ p) r) with (flat s (rev [] ++ r)).
        rewrite (IH s [] Hs (Forall_nil _) Hr). destruct (regroup h s [] r). reflexivity.
      * apply flat_layers_lt.
        -- eapply Forall_impl; [|exact H0]. intros; cbn in *; lia.
        -- apply Forall_rev. eapply Forall_impl; [|exact Hacc]. intros p [Hk' Hs']. split; [lia|].
           eapply Forall_impl; [|exact Hs']. intros; cbn in *; lia.
      * lia.
    + apply Nat.ltb_ge in E.
      rewrite <- (IH c0 ((k, v, s) :: acc) H0); [|constructor; [cbn [pkey pseg_of fst snd]; split; [lia|exact Hs]|exact Hacc]|exact Hr].
      f_equal. f_equal. cbn [rev]. rewrite <- app_assoc. reflexivity.
Qed.

Lemma segs_grow h l : segs (S h) l = regroup h (fst (segs h l)) [] (snd (segs h l)).
Proof.
  pose proof (segs_valid h l) as [H0 Hps].
  rewrite <- (segs_regroup h (snd (segs h l)) (fst (segs h l)) [] H0 (Forall_nil _) Hps).
  cbn [rev app]. rewrite segs_flat. reflexivity.
Qed.

(** lowering: the level-h decomposition of a level-(h+1) decomposition *)
Fixpoint expand (h : nat) (qs : list pseg) : list pseg :=
  match qs with
  | [] => []
  | (k, v, t) :: r => (k, v, fst (segs h t)) :: snd (segs h t) ++ expand h r
  end.

Lemma segs_lower h : forall qs t0,
  Forall (fun p : pseg => h <= layer (pkey _ _ p)) qs ->
  segs h (flat t0 qs) = (fst (segs h t0), snd (segs h t0) ++ expand h qs).
Proof.
  induction qs as [|[[k v] t] r IH]; intros t0 Hq.
  - unfold Build.flat. cbn. rewrite !app_nil_r. destruct (segs h t0); reflexivity.
  - inversion Hq as [|? ? Hk Hr]; subst. cbn [pkey fst] in Hk.
    unfold Build.flat. cbn [flat_map app pkey pval pseg_of fst snd].
    change (t ++ flat_map (fun p : pseg => (pkey _ _ p, pval _ _ p) :: pseg_of _ _ p) r) with (flat t r).
    rewrite segs_app, segs_head_pivot by exact Hk. rewrite (IH t Hr). cbn [fst snd expand].
    destruct (segs h t0) as [s0 ps]. rewrite app_nil_r, set_last_seg_id. reflexivity.
Qed.

(** * node level: grow *)
Lemma extract_spec h (cl0 : link) (accE : list entry) c0 (acc : list pseg) :
  erase_l cl0 = subl h c0 -> map erase_e accE = mk_es (subl h) acc ->
  valid_dec h c0 (rev acc) ->
  erase_l (extract _ _ cl0 (rev accE)) = subl (S h) (flat c0 (rev acc)).
Proof.
  intros H0 Hacc Hv. unfold extract. rewrite link_of_erase, erase_mk_dirty, H0, map_rev, Hacc.
  cbn [Build.subl]. unfold Build.build. f_equal.
  symmetry. rewrite (bnode_of_segs K V layer h _ _ _ (segs_of_flat h c0 (rev acc) Hv)).
  unfold Build.mk_es. rewrite map_rev. reflexivity.
Qed.

Lemma grow_es_spec h : forall ps c0 acc (cl0 : link) (accE es : list entry),
  erase_l cl0 = subl h c0 -> map erase_e accE = mk_es (subl h) acc -> map erase_e es = mk_es (subl h) ps ->
  Forall (fun x : kv => layer (fst x) < h) c0 ->
  Forall (fun p : pseg => layer (pkey _ _ p) = h /\ Forall (fun x : kv => layer (fst x) < h) (pseg_of _ _ p)) acc ->
  Forall (fun p : pseg => h <= layer (pkey _ _ p) /\ Forall (fun x : kv => layer (fst x) < h) (pseg_of _ _ p)) ps ->
  erase_l (fst (grow_es _ _ layer h cl0 accE es)) = subl (S h) (fst (regroup h c0 acc ps)) /\
  map erase_e (snd (grow_es _ _ layer h cl0 accE es)) = mk_es (subl (S h)) (snd (regroup h c0 acc ps)).
Proof.
  induction ps as [|[[k v] s] r IH]; intros c0 acc cl0 accE es H0 Hacc Hes Hc0 Hva Hps.
  - destruct es; [|discriminate]. cbn [grow_es regroup fst snd map Build.mk_es]. split; [|reflexivity].
    apply extract_spec; [assumption..|]. split; [exact Hc0|]. apply Forall_rev.
    eapply Forall_impl; [|exact Hva]. intros p [Hk Hs]. split; [lia|exact Hs].
  - destruct es as [|[[k' v'] l'] es']; [discriminate|].
    unfold Build.mk_es in Hes. cbn [map] in Hes. unfold Erase.erase_e at 1 in Hes.
    cbn [ekey eval elink pkey pval pseg_of fst snd] in Hes. injection Hes as Hk' Hv' Hl' Hes'. subst k' v'.
    inversion Hps as [|? ? [Hk Hs] Hr]; subst. cbn [pkey pval pseg_of fst snd] in Hk, Hs.
    cbn [grow_es regroup]. destruct (Nat.ltb h (layer k)) eqn:E.
    + destruct (IH s [] l' [] es' Hl' eq_refl Hes' Hs (Forall_nil _) Hr) as [IH1 IH2].
      destruct (grow_es _ _ layer h l' [] es') as [nl nes]. destruct (regroup h s [] r) as [t qs].
      cbn [fst snd] in *. split.
      * apply extract_spec; [assumption..|]. split; [exact Hc0|]. apply Forall_rev.
        eapply Forall_impl; [|exact Hva]. intros p [Hk2 Hs2]. split; [lia|exact Hs2].
      * cbn [map Build.mk_es]. unfold Erase.erase_e at 1. cbn [ekey eval elink pkey pval pseg_of fst snd].
        rewrite IH1. f_equal. exact IH2.
    + apply Nat.ltb_ge in E.
      apply (IH c0 ((k, v, s) :: acc) cl0 ((k, v, l') :: accE) es'); [exact H0| |exact Hes'|exact Hc0| |exact Hr].
      * cbn [map Build.mk_es]. unfold Erase.erase_e at 1. cbn [ekey eval elink pkey pval pseg_of fst snd].
        rewrite Hl'. f_equal. exact Hacc.
      * constructor; [|exact Hva]. cbn [pkey pseg_of fst snd]. split; [lia|exact Hs].
Qed.

Lemma grow_node_spec h n l : erase_n n = bnode h l -> erase_n (grow_node _ _ layer h n) = bnode (S h) l.
Proof.
  intros He. destruct (node_inv K V layer _ _ _ He) as [H0 Hes].
  pose proof (segs_valid h l) as [Hv0 Hvp].
  destruct (grow_es_spec h (snd (segs h l)) (fst (segs h l)) [] (n_l0 _ _ n) [] (n_es _ _ n) H0 eq_refl Hes Hv0 (Forall_nil _) Hvp) as [G1 G2].
  unfold grow_node. destruct (grow_es _ _ layer h (n_l0 _ _ n) [] (n_es _ _ n)) as [l0' es'].
  cbn [fst snd] in G1, G2. rewrite erase_mk_dirty, G1, G2, <- segs_grow.
  symmetry. apply bnode_of_segs. destruct (segs (S h) l); reflexivity.
Qed.

(** * node level: shrink *)
Lemma child_parts_spec h (c : link) (t : seg) :
  erase_l c = subl (S h) t ->
  oks (child_parts _ _ c) (fun r => erase_l (fst r) = subl h (fst (segs h t)) /\
                                    map erase_e (snd r) = mk_es (subl h) (snd (segs h t))).
Proof.
  intros Hc. cbn [Build.subl] in Hc. destruct t as [|x t'].
  - rewrite build_nil in Hc. apply erase_l_nil in Hc. subst c. apply oks_ret. cbn. rewrite subl_nil. split; reflexivity.
  - destruct (load_build K V layer h _ _ Hc ltac:(discriminate)) as [Lc Nc].
    assert (Ecp : child_parts _ _ c = (let* c0 := load _ _ c in ret (n_l0 _ _ c0, n_es _ _ c0))).
    { destruct c; [contradiction|reflexivity..]. }
    rewrite Ecp. apply (oks_bind _ _ _ _ Lc). intros c0 Hc0. apply oks_ret. cbn [fst snd].
    exact (node_inv K V layer _ _ _ Hc0).
Qed.

Lemma shrink_es_spec h : forall qs (es : list entry),
  map erase_e es = mk_es (subl (S h)) qs ->
  oks (shrink_es _ _ es) (fun rest => map erase_e rest = mk_es (subl h) (expand h qs)).
Proof.
  induction qs as [|[[k v] t] r IH]; intros es Hes.
  - destruct es; [|discriminate]. apply oks_ret. reflexivity.
  - destruct es as [|[[k' v'] l'] es']; [discriminate|].
    unfold Build.mk_es in Hes. cbn [map] in Hes. unfold Erase.erase_e at 1 in Hes.
    cbn [ekey eval elink pkey pval pseg_of fst snd] in Hes. injection Hes as Hk' Hv' Hl' Hes'. subst k' v'.
    cbn [shrink_es]. apply (oks_bind _ _ _ _ (child_parts_spec h l' t Hl')). intros [q0 qes] [Hq0 Hqes].
    cbn [fst snd] in Hq0, Hqes.
    apply (oks_bind _ _ _ _ (IH es' Hes')). intros rest Hrest. apply oks_ret.
    cbn [map expand]. unfold Erase.erase_e at 1. cbn [ekey eval elink fst snd].
    rewrite Hq0, map_app, Hqes, Hrest. unfold Build.mk_es. cbn [map pkey pval pseg_of fst snd]. rewrite map_app. reflexivity.
Qed.

Lemma shrink_node_spec h n l :
  erase_n n = bnode (S h) l -> oks (shrink_node _ _ n) (fun n' => erase_n n' = bnode h l).
Proof.
  intros He. destruct (node_inv K V layer _ _ _ He) as [H0 Hes].
  unfold shrink_node.
  apply (oks_bind _ _ _ _ (child_parts_spec h _ _ H0)). intros [p0 pes] [Hp0 Hpes]. cbn [fst snd] in Hp0, Hpes.
  apply (oks_bind _ _ _ _ (shrink_es_spec h _ _ Hes)). intros rest Hrest. apply oks_ret.
  rewrite erase_mk_dirty, Hp0, map_app, Hpes, Hrest, <- mk_es_app.
  symmetry. apply bnode_of_segs.
  pose proof (segs_valid (S h) l) as [_ Hvp].
  rewrite <- (segs_flat K V layer (S h) l) at 1. rewrite segs_lower; [reflexivity|].
  eapply Forall_impl; [|exact Hvp]. intros p [Hk _]. lia.
Qed.

End LEVEL.
