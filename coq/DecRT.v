(** Decimal printing and parsing (encoding/json for integers) are inverse: every N below 10^40 and
    every Z of that magnitude, hence every int64 / uint64 key.  Lemma file. *)
From Coq Require Import List NArith ZArith Lia Bool Arith.
From Mast Require Import Prim Key.
Import ListNotations.
Local Open Scope N_scope.

Definition isdig (b : N) : bool := (48 <=? b) && (b <=? 57).
Fixpoint val_of (ds : bytes) (a : N) : N := match ds with [] => a | b :: r => val_of r (a * 10 + (b - 48)) end.

Lemma parse_dec_val : forall ds a, forallb isdig ds = true -> parse_dec_acc ds a = Some (val_of ds a).
Proof.
  induction ds as [|b r IH]; intros a H; [reflexivity|]. cbn [forallb] in H. apply andb_true_iff in H. destruct H as [Hb Hr].
  cbn [parse_dec_acc val_of]. unfold isdig in Hb. rewrite Hb. apply IH. exact Hr.
Qed.
Lemma val_of_app : forall a b x, val_of (a ++ b) x = val_of b (val_of a x).
Proof. induction a as [|c a IH]; intros b x; [reflexivity|]. cbn [app val_of]. apply IH. Qed.

(** what dec_fuel prepends: digits whose value is n *)
Lemma dec_fuel_spec : forall f n acc, n < 10 ^ N.of_nat f ->
  exists ds, dec_fuel f n acc = ds ++ acc /\ forallb isdig ds = true /\ forall a, val_of ds a = a * 10 ^ N.of_nat (length ds) + n.
Proof.
  induction f as [|f IH]; intros n acc Hn.
  - exists []. cbn in Hn. assert (n = 0) by lia. subst n. split; [reflexivity|]. split; [reflexivity|]. intros a. cbn. lia.
  - cbn [dec_fuel]. pose proof (N.mod_upper_bound n 10 ltac:(discriminate)) as Hm. pose proof (N.div_mod' n 10) as Hd.
    remember (n mod 10) as r eqn:Er. remember (n / 10) as q eqn:Eq.
    assert (Hdig : isdig (48 + r) = true) by (unfold isdig; apply andb_true_iff; split; apply N.leb_le; lia).
    destruct (n <? 10) eqn:E.
    + apply N.ltb_lt in E. exists [48 + r]. split; [reflexivity|]. split; [cbn [forallb]; rewrite Hdig; reflexivity|].
      intros a. cbn [val_of length]. assert (q = 0) by lia. replace (10 ^ N.of_nat 1) with 10 by reflexivity. lia.
    + apply N.ltb_ge in E.
      assert (Hq : q < 10 ^ N.of_nat f).
      { rewrite Nat2N.inj_succ, N.pow_succ_r' in Hn. lia. }
      destruct (IH q ((48 + r) :: acc) Hq) as (ds & E1 & E2 & E3). exists (ds ++ [48 + r]). split; [rewrite E1, <- app_assoc; reflexivity|].
      split; [rewrite forallb_app, E2; cbn [forallb]; rewrite Hdig; reflexivity|].
      intros a. rewrite val_of_app, E3. cbn [val_of]. rewrite app_length. cbn [length]. rewrite Nat.add_1_r, Nat2N.inj_succ, N.pow_succ_r'. lia.
Qed.

Definition ten40 : N := 10000000000000000000000000000000000000000.
Lemma ten40_eq : ten40 = 10 ^ N.of_nat 40.
Proof. vm_compute. reflexivity. Qed.
Lemma dec_fuel_nonempty' f n acc : dec_fuel (S f) n acc <> [].
Proof.
  cbn [dec_fuel]. destruct (n <? 10); [discriminate|].
  assert (H : forall f n acc, acc <> [] -> dec_fuel f n acc <> []).
  { clear. induction f as [|f IH]; intros n acc Ha; [exact Ha|]. cbn [dec_fuel]. destruct (n <? 10); [discriminate|]. apply IH. discriminate. }
  apply H. discriminate.
Qed.

Lemma dec_N_spec n : n < ten40 -> dec_N n <> [] /\ forallb isdig (dec_N n) = true /\ val_of (dec_N n) 0 = n.
Proof.
  intros H. unfold dec_N. rewrite ten40_eq in H. destruct (dec_fuel_spec 40 n [] H) as (ds & E1 & E2 & E3). rewrite app_nil_r in E1.
  split; [apply dec_fuel_nonempty'|]. rewrite E1. split; [exact E2|]. rewrite E3. lia.
Qed.

Theorem parse_dec_N n : n < ten40 -> parse_N (dec_N n) = Some n.
Proof.
  intros H. destruct (dec_N_spec n H) as (Hne & Hd & Hv). unfold parse_N. destruct (dec_N n) as [|b r] eqn:E; [congruence|].
  rewrite (parse_dec_val _ 0 Hd), Hv. reflexivity.
Qed.

Lemma parse_Z_dig b r : isdig b = true ->
  parse_Z (b :: r) = match parse_N (b :: r) with Some n => Some (Z.of_N n) | None => None end.
Proof.
  intros H. unfold isdig in H. apply andb_true_iff in H. destruct H as [H1 H2]. apply N.leb_le in H1. apply N.leb_le in H2.
  assert (E : b = 48 \/ b = 49 \/ b = 50 \/ b = 51 \/ b = 52 \/ b = 53 \/ b = 54 \/ b = 55 \/ b = 56 \/ b = 57) by lia.
  destruct E as [->|[->|[->|[->|[->|[->|[->|[->|[->| ->]]]]]]]]]; reflexivity.
Qed.

Theorem parse_dec_Z z : (Z.abs z < Z.of_N ten40)%Z -> parse_Z (dec_Z z) = Some z.
Proof.
  intros H. destruct z as [|p|p]; [reflexivity|..]; cbn [dec_Z].
  - assert (Hn : N.pos p < ten40) by lia. destruct (dec_N_spec _ Hn) as (Hne & Hd & _).
    pose proof (parse_dec_N _ Hn) as Hp.
    destruct (dec_N (N.pos p)) as [|b r] eqn:E; [congruence|].
    cbn [forallb] in Hd. apply andb_true_iff in Hd. destruct Hd as [Hd _].
    rewrite (parse_Z_dig b r Hd), Hp. reflexivity.
  - assert (Hn : N.pos p < ten40) by lia. unfold parse_Z. rewrite (parse_dec_N _ Hn). reflexivity.
Qed.

(** int and uint keys round-trip through their JSON text *)
Theorem key_rt_int z : (- 9223372036854775808 <= z <= 9223372036854775807)%Z -> kunmarshal 0 (kmarshal (KInt z)) = Some (KInt z).
Proof.
  intros H. cbn [kunmarshal kmarshal]. rewrite parse_dec_Z by (unfold ten40; lia).
  destruct (Z.leb_spec (- 9223372036854775808) z); [|lia]. destruct (Z.leb_spec z 9223372036854775807); [|lia]. reflexivity.
Qed.
Theorem key_rt_uint n : n <= 18446744073709551615 -> kunmarshal 1 (kmarshal (KUint n)) = Some (KUint n).
Proof.
  intros H. cbn [kunmarshal kmarshal]. rewrite parse_dec_N by (unfold ten40; lia).
  destruct (N.leb_spec n 18446744073709551615); [reflexivity|lia].
Qed.
Theorem key_rt_str s : kunmarshal 2 (kmarshal (KStr s)) = Some (KStr s).
Proof. cbn [kunmarshal kmarshal]. unfold unquote, quote. rewrite rev_app_distr. cbn [rev app]. rewrite rev_involutive. reflexivity. Qed.
