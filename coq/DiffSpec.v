(** The entry diff (C06): the stack machine of Diff.v, run on any two trees whose hash links are
    consistently named, terminates within the step budget of [diff] and reports exactly the
    merge-difference of the two listings.  Lemma file. *)
From Coq Require Import List NArith ZArith Lia Bool Arith Sorting.Sorted.
From Mast Require Import Prim Tree KeyOrder Diff Erase Build Spec Canon Links Level Inv.
Import ListNotations.

Section DIFFSPEC.
Variables K V : Type.
Variable cmp : K -> K -> comparison.
Variable veq : V -> V -> bool.
Variable layer : K -> nat.
Notation node := (node K V).
Notation link := (link K V).
Notation entry := (entry K V).
Notation item := (item K V).
Notation stack := (stack K V).
Notation devent := (devent K V).
Notation dstate := (dstate K V).

Hypothesis cmp_refl : forall k, cmp k k = Eq.
Hypothesis veq_refl : forall v, veq v v = true.

(** what a hash name stands for; two links with the same name hold the same node *)
Variable P : name -> node -> Prop.
Hypothesis hered : forall h c, P h c -> allh K V P c.
Hypothesis Pfun : forall h a b, P h a -> P h b -> a = b.

(** * the specification: merge-difference of two association lists *)
Fixpoint sdiff (a : list (K * V)) : list (K * V) -> list devent :=
  fix go (b : list (K * V)) : list devent :=
    match a, b with
    | [], [] => []
    | [], (k, v) :: b' => DEntry _ _ true false k (Some v) None :: go b'
    | (k, v) :: a', [] => DEntry _ _ false true k None (Some v) :: sdiff a' []
    | (ko, vo) :: a', (kn, vn) :: b' =>
        match cmp ko kn with
        | Lt => DEntry _ _ false true ko None (Some vo) :: sdiff a' b
        | Eq => (if veq vo vn then [] else [DEntry _ _ false false ko (Some vn) (Some vo)]) ++ sdiff a' b'
        | Gt => DEntry _ _ true false kn (Some vn) None :: go b'
        end
    end.

Lemma sdiff_nil_l b : sdiff [] b = map (fun p => DEntry _ _ true false (fst p) (Some (snd p)) None) b.
Proof. induction b as [|[k v] b IH]; [reflexivity|]. cbn [sdiff map fst snd]. f_equal. exact IH. Qed.
Lemma sdiff_nil_r a : sdiff a [] = map (fun p => DEntry _ _ false true (fst p) None (Some (snd p))) a.
Proof. induction a as [|[k v] a IH]; [reflexivity|]. cbn [sdiff map fst snd]. f_equal. exact IH. Qed.
Lemma sdiff_cons ko vo a kn vn b :
  sdiff ((ko, vo) :: a) ((kn, vn) :: b) =
  match cmp ko kn with
  | Lt => DEntry _ _ false true ko None (Some vo) :: sdiff a ((kn, vn) :: b)
  | Eq => (if veq vo vn then [] else [DEntry _ _ false false ko (Some vn) (Some vo)]) ++ sdiff a b
  | Gt => DEntry _ _ true false kn (Some vn) None :: sdiff ((ko, vo) :: a) b
  end.
Proof. reflexivity. Qed.

Lemma sdiff_same c a b : sdiff (c ++ a) (c ++ b) = sdiff a b.
Proof.
  induction c as [|[k v] c IH]; [reflexivity|]. rewrite <- !app_comm_cons, sdiff_cons, cmp_refl, veq_refl. exact IH.
Qed.

(** * denotation of stacks *)
Definition flat_item (it : item) : list (K * V) :=
  match it with ILink _ _ l => to_list _ _ l | IYield _ _ k v => [(k, v)] end.
Definition flat (st : stack) : list (K * V) := flat_map flat_item st.
Definition den (s : dstate) : list devent := sdiff (flat (d_old _ _ s)) (flat (d_new _ _ s)).

Definition item_ok (it : item) : Prop :=
  match it with ILink _ _ l => allh_l K V P l /\ l <> LNil | IYield _ _ _ _ => True end.
Definition wf (s : dstate) : Prop := Forall item_ok (d_old _ _ s) /\ Forall item_ok (d_new _ _ s).

Lemma flat_app a b : flat (a ++ b) = flat a ++ flat b.
Proof. unfold flat. apply flat_map_app. Qed.

Lemma flat_cons it st : flat (it :: st) = flat_item it ++ flat st.
Proof. reflexivity. Qed.

Lemma flat_link_item l : flat (link_item _ _ l) = to_list _ _ l.
Proof. destruct l; cbn; rewrite ?app_nil_r; reflexivity. Qed.

Lemma flat_items_of n : flat (items_of _ _ n) = to_list_n _ _ n.
Proof.
  destruct n as [d s l0 es]. rewrite to_list_n_eq. unfold items_of. cbn [n_l0 n_es]. rewrite flat_app, flat_link_item. f_equal.
  induction es as [|e r IH]; [reflexivity|]. cbn [flat_map]. rewrite flat_app, flat_cons, flat_link_item. cbn [flat_item app]. f_equal. f_equal. exact IH.
Qed.

Lemma ok_link_item l : allh_l K V P l -> Forall item_ok (link_item _ _ l).
Proof. intros H. destruct l; cbn; constructor; try constructor; try exact H; discriminate. Qed.

Lemma ok_items_of n : allh K V P n -> Forall item_ok (items_of _ _ n).
Proof.
  intros H. destruct (allh_inv _ _ _ _ H) as [H0 Hes]. unfold items_of. apply Forall_app. split; [apply ok_link_item; exact H0|].
  induction Hes as [|e r He _ IH]; [constructor|]. cbn [flat_map]. constructor; [exact I|]. apply Forall_app. split; [apply ok_link_item; exact He|exact IH].
Qed.

Lemma link_eq_same lo ln : allh_l K V P lo -> allh_l K V P ln -> link_eq _ _ lo ln = true -> to_list _ _ lo = to_list _ _ ln.
Proof.
  intros Ho Hn E. destruct lo as [|a|h a|h], ln as [|b|h' b|h']; cbn [link_eq] in E; try discriminate; try (inversion Ho; fail); try (inversion Hn; fail).
  apply bytes_eqb_eq in E. subst h'. inversion Ho; subst. inversion Hn; subst. cbn [to_list]. f_equal. eapply Pfun; eassumption.
Qed.

(** * the termination measure *)
Fixpoint sz_n (n : node) : nat :=
  match n with
  | Node _ _ l0 es =>
      S ((match l0 with LNil => 0 | LPtr c => S (sz_n c) | LHash _ c => S (sz_n c) | LBad _ => 1 end) +
         (fix go (es : list entry) : nat :=
            match es with
            | [] => 0
            | (k, v, l) :: r => S ((match l with LNil => 0 | LPtr c => S (sz_n c) | LHash _ c => S (sz_n c) | LBad _ => 1 end) + go r)
            end) es)
  end.
Definition sz_l (l : link) : nat := match l with LNil => 0 | LPtr c => S (sz_n c) | LHash _ c => S (sz_n c) | LBad _ => 1 end.
Definition sz_item (it : item) : nat := match it with ILink _ _ l => sz_l l | IYield _ _ _ _ => 1 end.
Definition mu (st : stack) : nat := list_sum (map sz_item st).
Definition mus (s : dstate) : nat := mu (d_old _ _ s) + mu (d_new _ _ s).

Lemma sz_n_eq d s l0 (es : list entry) :
  sz_n (Node d s l0 es) = S (sz_l l0 + list_sum (map (fun e : entry => S (sz_l (elink _ _ e))) es)).
Proof.
  cbn [sz_n]. f_equal. f_equal. induction es as [|[[k v] l] r IH]; [reflexivity|]. cbn [map]. unfold list_sum in *. cbn [fold_right]. rewrite <- IH. reflexivity.
Qed.

Lemma mu_app a b : mu (a ++ b) = mu a + mu b.
Proof. unfold mu. rewrite map_app, list_sum_app. reflexivity. Qed.
Lemma mu_cons it st : mu (it :: st) = sz_item it + mu st.
Proof. reflexivity. Qed.
Lemma mu_link_item l : mu (link_item _ _ l) = sz_l l.
Proof. destruct l; cbn; lia. Qed.
Lemma mu_items_of n : S (mu (items_of _ _ n)) = sz_n n.
Proof.
  destruct n as [d s l0 es]. rewrite sz_n_eq. unfold items_of. cbn [n_l0 n_es]. rewrite mu_app, mu_link_item. f_equal. f_equal.
  induction es as [|e r IH]; [reflexivity|]. cbn [flat_map map]. rewrite mu_app, mu_cons, mu_link_item. cbn [sz_item]. unfold list_sum in *. cbn [fold_right]. rewrite IH. lia.
Qed.
Lemma sz_l_load l n t : load _ _ l = (t, Ok n) -> sz_l l = S (sz_n n).
Proof. destruct l; cbn; intros E; inversion E; reflexivity. Qed.

Lemma load_ok l : allh_l K V P l -> l <> LNil -> oks (load _ _ l) (fun n => allh K V P n /\ to_list_n _ _ n = to_list _ _ l /\ sz_l l = S (sz_n n)).
Proof.
  intros H Hn. destruct l as [|c|h c|h]; [contradiction| | |inversion H].
  - inversion H; subst. exists [], c. repeat split. assumption.
  - inversion H; subst. exists [ELoad h], c. repeat split. apply (hered h). assumption.
Qed.

Lemma sz_l_pos l : l <> LNil -> 0 < sz_l l.
Proof. destruct l; cbn; intros H; try lia. contradiction. Qed.
Lemma to_list_n_noes (n : node) : n_es _ _ n = [] -> to_list_n K V n = to_list K V (n_l0 _ _ n).
Proof. destruct n as [d s l0 es]. cbn [n_es n_l0]. intros ->. rewrite to_list_n_eq. cbn [flat_map]. apply app_nil_r. Qed.
Lemma sz_n_noes (n : node) : n_es _ _ n = [] -> sz_n n = S (sz_l (n_l0 _ _ n)).
Proof. destruct n as [d s l0 es]. cbn [n_es n_l0]. intros ->. rewrite sz_n_eq. cbn. lia. Qed.

Lemma note_oks fuel m (l : link) : oks (note K V layer fuel m l) (fun _ => True).
Proof. unfold note. destruct (notified K V layer fuel m l) as [t [b m']]. eexists _, _. split; [reflexivity|exact I]. Qed.

(** * one step of the machine *)
Definition step_post (s : dstate) (r : devent * dstate) : Prop :=
  wf (snd r) /\
  match fst r with
  | DDone _ _ => den s = []
  | DEntry _ _ a rm k av rv => den s = DEntry _ _ a rm k av rv :: den (snd r) /\ mus (snd r) < mus s
  | _ => den s = den (snd r) /\ mus (snd r) < mus s
  end.

Ltac wf_tac :=
  split; cbn [d_old d_new snd];
  repeat first [ assumption | apply ok_items_of | apply ok_link_item | apply Forall_app; split
               | match goal with |- Forall _ (_ :: _) => constructor end | exact I | split ].
Ltac den_tac :=
  unfold den, mus; cbn [d_old d_new snd];
  rewrite ?flat_cons, ?flat_app, ?flat_items_of, ?flat_link_item, ?mu_cons, ?mu_app, ?mu_link_item; cbn [flat_item sz_item flat flat_map].

Ltac retp := apply oks_ret; unfold step_post; cbn [fst snd].
Lemma one_ok fuel (s : dstate) : wf s -> oks (diff_one _ _ cmp veq layer fuel s) (step_post s).
Proof.
  destruct s as [mo mn old new]. intros [Wo Wn]. cbn [d_old d_new] in Wo, Wn.
  destruct old as [|[lo|ko vo] os], new as [|[ln|kn vn] ns]; cbn [diff_one d_old d_new d_mo d_mn].
  - retp. split; [split; assumption|reflexivity].
  - inversion Wn as [|x y Hit Wns]; subst; cbn [item_ok] in Hit; destruct Hit as [Hl Hnn].
    apply (oks_bind _ _ _ _ (note_oks fuel mn ln)). intros [a mn'] _.
    apply (oks_bind _ _ _ _ (load_ok _ Hl Hnn)). intros n (Hn & Hlist & Hsz). retp.
    split; [wf_tac|]. cbn [fst snd]. den_tac. rewrite Hlist, Hsz, <- (mu_items_of n). split; [reflexivity|lia].
  - inversion Wn as [|x y _ Wns]; subst. retp. split; [wf_tac|]. cbn [fst snd]. den_tac. split; [reflexivity|lia].
  - inversion Wo as [|x y Hit Wos]; subst; cbn [item_ok] in Hit; destruct Hit as [Hl Hnn].
    apply (oks_bind _ _ _ _ (note_oks fuel mo lo)). intros [r mo'] _.
    apply (oks_bind _ _ _ _ (load_ok _ Hl Hnn)). intros n (Hn & Hlist & Hsz). retp.
    split; [wf_tac|]. cbn [fst snd]. den_tac. rewrite Hlist, Hsz, <- (mu_items_of n). split; [reflexivity|lia].
  - inversion Wo as [|x y Hit Wos]; subst; cbn [item_ok] in Hit; destruct Hit as [Hlo Hno]. inversion Wn as [|x y Hit Wns]; subst; cbn [item_ok] in Hit; destruct Hit as [Hln Hnn].
    destruct (link_eq _ _ lo ln) eqn:Eq.
    { retp. split; [wf_tac|]. cbn [fst snd]. den_tac. rewrite (link_eq_same _ _ Hlo Hln Eq), sdiff_same.
      split; [reflexivity|]. pose proof (sz_l_pos _ Hno). lia. }
    apply (oks_bind _ _ _ _ (note_oks fuel mo lo)). intros [r mo'] _.
    apply (oks_bind _ _ _ _ (note_oks fuel mn ln)). intros [a mn'] _.
    apply (oks_bind _ _ _ _ (load_ok _ Hlo Hno)). intros no (Hno' & Hlisto & Hszo).
    destruct (allh_inv _ _ _ _ Hno') as [Ho0 Hoes].
    destruct (n_es _ _ no) as [|eo reo] eqn:Eo.
    { retp. split; [wf_tac|]. cbn [fst snd]. den_tac. rewrite <- Hlisto, (to_list_n_noes _ Eo), Hszo, (sz_n_noes _ Eo).
      split; [reflexivity|lia]. }
    apply (oks_bind _ _ _ _ (load_ok _ Hln Hnn)). intros nn (Hnn' & Hlistn & Hszn).
    destruct (allh_inv _ _ _ _ Hnn') as [Hn0 Hnes].
    destruct (n_es _ _ nn) as [|en ren] eqn:En.
    { retp. split; [wf_tac|]. cbn [fst snd]. den_tac. rewrite <- Hlistn, (to_list_n_noes _ En), Hszn, (sz_n_noes _ En).
      split; [reflexivity|lia]. }
    apply oks_tick. destruct (cmp (ekey _ _ eo) (ekey _ _ en)); retp; (split; [wf_tac|]); cbn [fst snd]; den_tac;
      rewrite ?Hlisto, ?Hlistn, ?Hszo, ?Hszn, <- ?(mu_items_of no), <- ?(mu_items_of nn); (split; [reflexivity|lia]).
  - inversion Wo as [|x y Hit Wos]; subst; cbn [item_ok] in Hit; destruct Hit as [Hlo Hno]. inversion Wn as [|x y _ Wns]; subst.
    apply (oks_bind _ _ _ _ (note_oks fuel mo lo)). intros [r mo'] _.
    apply (oks_bind _ _ _ _ (load_ok _ Hlo Hno)). intros n (Hn & Hlist & Hsz). retp.
    split; [wf_tac|]. cbn [fst snd]. den_tac. rewrite Hlist, Hsz, <- (mu_items_of n). split; [reflexivity|lia].
  - inversion Wo as [|x y _ Wos]; subst. retp. split; [wf_tac|]. cbn [fst snd]. den_tac. rewrite sdiff_nil_r. cbn [map fst snd].
    rewrite <- sdiff_nil_r. split; [reflexivity|lia].
  - inversion Wo as [|x y _ Wos]; subst. inversion Wn as [|x y Hit Wns]; subst; cbn [item_ok] in Hit; destruct Hit as [Hln Hnn].
    apply (oks_bind _ _ _ _ (note_oks fuel mn ln)). intros [a mn'] _.
    apply (oks_bind _ _ _ _ (load_ok _ Hln Hnn)). intros n (Hn & Hlist & Hsz). retp.
    split; [wf_tac|]. cbn [fst snd]. den_tac. rewrite Hlist, Hsz, <- (mu_items_of n). split; [reflexivity|lia].
  - inversion Wo as [|x y _ Wos]; subst. inversion Wn as [|x y _ Wns]; subst.
    apply oks_tick. cbn [app]. destruct (cmp ko kn) eqn:Ec.
    + destruct (veq vo vn) eqn:Ev; retp; (split; [wf_tac|]); cbn [fst snd]; den_tac; cbn [app]; rewrite sdiff_cons, Ec, Ev; cbn [app]; (split; [reflexivity|lia]).
    + retp; (split; [wf_tac|]); cbn [fst snd]; den_tac; cbn [app]; rewrite sdiff_cons, Ec; (split; [reflexivity|lia]).
    + retp; (split; [wf_tac|]); cbn [fst snd]; den_tac; cbn [app]; rewrite sdiff_cons, Ec; (split; [reflexivity|lia]).
Qed.

(** * the driver loop *)
Definition is_entry (e : devent) : bool := match e with DEntry _ _ _ _ _ _ _ => true | _ => false end.

Lemma sdiff_entries : forall a b, filter is_entry (sdiff a b) = sdiff a b.
Proof.
  induction a as [|[ko vo] a IHa].
  - intros b. rewrite sdiff_nil_l. induction b as [|[k v] b IHb]; [reflexivity|]. cbn [map filter is_entry]. f_equal. exact IHb.
  - induction b as [|[kn vn] b IHb].
    + rewrite sdiff_nil_r. clear IHa. induction ((ko, vo) :: a) as [|[k v] c IHc]; [reflexivity|]. cbn [map filter is_entry]. f_equal. exact IHc.
    + rewrite sdiff_cons. destruct (cmp ko kn).
      * rewrite filter_app, IHa. destruct (veq vo vn); reflexivity.
      * cbn [filter is_entry]. f_equal. apply IHa.
      * cbn [filter is_entry]. f_equal. exact IHb.
Qed.

Lemma run_ok : forall steps fuel (s : dstate), wf s -> mus s < steps ->
  oks (diff_run _ _ cmp veq layer steps fuel s) (fun r => filter is_entry r = den s).
Proof.
  induction steps as [|st IH]; intros fuel s W Hm; [lia|]. cbn [diff_run].
  apply (oks_bind _ _ _ _ (one_ok fuel s W)). intros [e s'] [W' Hp]. cbn [fst snd] in W', Hp.
  destruct e as [|a rm k av rv|r a|].
  - destruct Hp as [Hd Hlt]. rewrite Hd. apply IH; [exact W'|lia].
  - destruct Hp as [Hd Hlt]. apply (oks_bind _ _ (fun r => filter is_entry r = den s')); [apply IH; [exact W'|lia]|].
    intros r Hr. apply oks_ret. cbn [filter is_entry]. rewrite Hr, Hd. reflexivity.
  - destruct Hp as [Hd Hlt]. rewrite Hd.
    destruct r as [r|]; [|destruct a as [a|]; [|apply IH; [exact W'|lia]]];
      (apply (oks_bind _ _ (fun r => filter is_entry r = den s')); [apply IH; [exact W'|lia]|];
       intros r0 Hr; apply oks_ret; cbn [filter is_entry]; exact Hr).
  - apply oks_ret. rewrite Hp. reflexivity.
Qed.

(** * the step budget of [diff] is enough *)
Lemma weight_fits : forall f (n : node), fits K V f n -> weight_n _ _ f n = sz_n n.
Proof.
  induction f as [|f IH]; intros n H; [contradiction|]. destruct n as [d s l0 es]. cbn [fits n_l0 n_es] in H. destruct H as [H0 Hes].
  rewrite sz_n_eq. cbn [weight_n n_l0 n_es]. f_equal.
  assert (Hl : forall l : link, fitsl_of K V (fits K V f) l ->
            match l with LPtr c => S (weight_n _ _ f c) | LHash _ c => S (weight_n _ _ f c) | LBad _ => 1 | LNil => 0 end = sz_l l).
  { intros l Hl. destruct l as [|c|h c|h]; cbn [fitsl_of sz_l] in *; try reflexivity; rewrite (IH c Hl); reflexivity. }
  rewrite (Hl l0 H0). f_equal. induction Hes as [|e r He _ IHr]; [reflexivity|].
  cbn [fold_right map]. unfold list_sum in *. cbn [fold_right]. rewrite IHr, (Hl _ He). reflexivity.
Qed.

Lemma weight_sz (m : mast K V) f : fitsl_of K V (fits K V f) (m_root _ _ m) -> weight _ _ f m = sz_l (m_root _ _ m).
Proof.
  unfold weight. destruct (m_root _ _ m) as [|c|h c|h]; cbn [fitsl_of sz_l]; intros H; try reflexivity; rewrite (weight_fits _ _ H); reflexivity.
Qed.

Definition olist (o : option (mast K V)) : list (K * V) :=
  match o with Some t => to_list _ _ (m_root _ _ t) | None => [] end.

Lemma init_wf (o : option (mast K V)) :
  (forall t, o = Some t -> allh_l K V P (m_root _ _ t)) -> Forall item_ok (init_stack _ _ o).
Proof.
  intros H. destruct o as [t|]; [|constructor]. cbn [init_stack]. specialize (H t eq_refl).
  unfold root_is_empty. destruct (m_root _ _ t) as [|c|h c|h] eqn:E; try constructor; try constructor; try exact H; try discriminate.
  destruct (is_empty _ _ c); constructor; [|constructor]. split; [exact H|discriminate].
Qed.

Lemma init_flat (o : option (mast K V)) : flat (init_stack _ _ o) = olist o.
Proof.
  destruct o as [t|]; [|reflexivity]. cbn [init_stack olist]. unfold root_is_empty.
  destruct (m_root _ _ t) as [|c|h c|h] eqn:E; cbn [flat flat_map flat_item to_list]; rewrite ?app_nil_r; try reflexivity.
  destruct (is_empty _ _ c) eqn:Ee; cbn [flat flat_map flat_item to_list]; rewrite ?app_nil_r; try reflexivity.
  destruct c as [d s l0 es]. cbn [is_empty] in Ee. destruct l0; try discriminate. destruct es; [reflexivity|discriminate].
Qed.

Lemma init_mu (o : option (mast K V)) : mu (init_stack _ _ o) <= match o with Some t => sz_l (m_root _ _ t) | None => 0 end.
Proof.
  destruct o as [t|]; [|cbn; lia]. cbn [init_stack]. destruct (root_is_empty _ _ t); [cbn; lia|]. unfold mu. cbn [map list_sum sz_item]. unfold list_sum. cbn [fold_right]. lia.
Qed.

Theorem diff_entries (o : option (mast K V)) (n : mast K V) :
  allh_l K V P (m_root _ _ n) -> fitsl_of K V (fits K V (S (m_height _ _ n))) (m_root _ _ n) ->
  (forall t, o = Some t -> allh_l K V P (m_root _ _ t) /\ fitsl_of K V (fits K V (S (m_height _ _ t))) (m_root _ _ t)) ->
  oks (diff _ _ cmp veq layer o n) (fun r => filter is_entry r = sdiff (olist o) (to_list _ _ (m_root _ _ n))).
Proof.
  intros Hn Fn Ho. unfold diff.
  assert (W : wf (diff_init _ _ o n)).
  { split; cbn [diff_init d_old d_new]; apply init_wf; [intros t E; apply (Ho t E)|intros t E; inversion E; subst; exact Hn]. }
  eapply oks_weaken; [apply run_ok; [exact W|]|].
  - unfold mus. cbn [diff_init d_old d_new]. pose proof (init_mu o) as Ao. pose proof (init_mu (Some n)) as An. cbn beta iota in An.
    rewrite (weight_sz n _ Fn).
    destruct o as [t|]; [rewrite (weight_sz t _ (proj2 (Ho t eq_refl)))|]; lia.
  - intros r Hr. rewrite Hr. unfold den. cbn [diff_init d_old d_new]. rewrite !init_flat. reflexivity.
Qed.

End DIFFSPEC.

(** * what the merge-difference of two strictly sorted lists is *)
Section SDIFF.
Variables K V : Type.
Variable cmp : K -> K -> comparison.
Variable veq : V -> V -> bool.
Hypothesis cmp_eq : forall a b, cmp a b = Eq <-> a = b.
Hypothesis cmp_antisym : forall a b, cmp b a = CompOpp (cmp a b).
Hypothesis cmp_trans : forall a b c, cmp a b = Lt -> cmp b c = Lt -> cmp a c = Lt.
Notation devent := (devent K V).
Notation sdiff := (sdiff K V cmp veq).
Notation lookup := (Spec.lookup K V cmp).
Notation ssorted := (ssorted K V cmp).
Notation slt := (slt K cmp).

(* the event the two maps call for at key k *)
Definition expect (k : K) (a b : list (K * V)) : option devent :=
  match lookup k a, lookup k b with
  | None, None => None
  | None, Some v => Some (DEntry _ _ true false k (Some v) None)
  | Some v, None => Some (DEntry _ _ false true k None (Some v))
  | Some vo, Some vn => if veq vo vn then None else Some (DEntry _ _ false false k (Some vn) (Some vo))
  end.
(* the first event reported for key k *)
Fixpoint dlookup (k : K) (l : list devent) : option devent :=
  match l with
  | [] => None
  | DEntry _ _ a r k' av rv :: t => match cmp k' k with Eq => Some (DEntry _ _ a r k' av rv) | _ => dlookup k t end
  | _ :: t => dlookup k t
  end.
Definition dkeys (l : list devent) : list K :=
  flat_map (fun e => match e with DEntry _ _ _ _ k _ _ => [k] | _ => [] end) l.

Lemma crefl k : cmp k k = Eq. Proof. apply cmp_eq. reflexivity. Qed.
Lemma slt_neq a b : slt a b -> cmp a b <> Eq. Proof. unfold Spec.slt. intros ->. discriminate. Qed.

Lemma sorted_inv k v (a : list (K * V)) : ssorted ((k, v) :: a) -> ssorted a /\ s_all_gt K V cmp a k.
Proof. intros H. apply StronglySorted_inv in H. exact H. Qed.

Lemma all_gt_trans (a : list (K * V)) x y : slt x y -> s_all_gt K V cmp a y -> s_all_gt K V cmp a x.
Proof. intros Hxy H. eapply Forall_impl; [|exact H]. intros p Hp. exact (cmp_trans _ _ _ Hxy Hp). Qed.

Lemma sdiff_keys_gt x : forall a b, s_all_gt K V cmp a x -> s_all_gt K V cmp b x -> Forall (slt x) (dkeys (sdiff a b)).
Proof.
  induction a as [|[ko vo] a IHa].
  - intros b _ Hb. rewrite sdiff_nil_l. induction Hb as [|[k v] b Hk _ IHb]; [constructor|]. cbn [map dkeys flat_map app fst]. constructor; assumption.
  - induction b as [|[kn vn] b IHb]; intros Ha Hb.
    + rewrite sdiff_nil_r. clear IHa. induction Ha as [|[k v] c Hk _ IHc]; [constructor|]. cbn [map dkeys flat_map app fst]. constructor; assumption.
    + rewrite sdiff_cons. inversion Ha as [|? ? Hko Ha']; subst. inversion Hb as [|? ? Hkn Hb']; subst. cbn [fst] in *.
      destruct (cmp ko kn).
      * assert (H := IHa b Ha' Hb'). destruct (veq vo vn); [exact H|]. cbn [app dkeys flat_map]. constructor; assumption.
      * cbn [dkeys flat_map app]. constructor; [exact Hko|]. apply IHa; assumption.
      * cbn [dkeys flat_map app]. constructor; [exact Hkn|]. apply IHb; assumption.
Qed.

Theorem sdiff_ascending : forall a b, ssorted a -> ssorted b -> StronglySorted slt (dkeys (sdiff a b)).
Proof.
  induction a as [|[ko vo] a IHa].
  - intros b _ Hb. rewrite sdiff_nil_l. induction b as [|[k v] b IHb]; [constructor|]. destruct (sorted_inv _ _ _ Hb) as [Sb Gb].
    cbn [map dkeys flat_map app fst]. constructor; [apply IHb; exact Sb|].
    pose proof (sdiff_keys_gt k [] b ltac:(constructor) Gb) as H. rewrite sdiff_nil_l in H. exact H.
  - induction b as [|[kn vn] b IHb]; intros Sa Sb.
    + rewrite sdiff_nil_r. clear IHa. induction ((ko, vo) :: a) as [|[k v] c IHc]; [constructor|]. destruct (sorted_inv _ _ _ Sa) as [Sc Gc].
      cbn [map dkeys flat_map app fst]. constructor; [apply IHc; exact Sc|].
      pose proof (sdiff_keys_gt k c [] Gc ltac:(constructor)) as H. rewrite sdiff_nil_r in H. exact H.
    + rewrite sdiff_cons. destruct (sorted_inv _ _ _ Sa) as [Sa' Ga]. destruct (sorted_inv _ _ _ Sb) as [Sb' Gb].
      destruct (cmp ko kn) eqn:Ec.
      * apply cmp_eq in Ec. subst kn. pose proof (IHa b Sa' Sb') as H. destruct (veq vo vn); [exact H|].
        cbn [app dkeys flat_map]. constructor; [exact H|]. apply sdiff_keys_gt; assumption.
      * cbn [dkeys flat_map app]. constructor; [apply IHa; assumption|]. apply sdiff_keys_gt; [exact Ga|].
        constructor; [exact Ec|]. exact (all_gt_trans _ _ _ Ec Gb).
      * cbn [dkeys flat_map app]. assert (Ec' : slt kn ko) by (unfold Spec.slt; rewrite cmp_antisym, Ec; reflexivity).
        constructor; [apply IHb; assumption|]. apply sdiff_keys_gt; [|exact Gb].
        constructor; [exact Ec'|]. exact (all_gt_trans _ _ _ Ec' Ga).
Qed.

Lemma expect_gt k a b : s_all_gt K V cmp a k -> s_all_gt K V cmp b k -> expect k a b = None.
Proof. intros Ha Hb. unfold expect. rewrite (lookup_gt K V cmp cmp_antisym _ _ Ha), (lookup_gt K V cmp cmp_antisym _ _ Hb). reflexivity. Qed.

Theorem sdiff_lookup k : forall a b, ssorted a -> ssorted b -> dlookup k (sdiff a b) = expect k a b.
Proof.
  induction a as [|[ko vo] a IHa].
  - intros b _ _. rewrite sdiff_nil_l. unfold expect. cbn [Spec.lookup]. induction b as [|[k' v] b IHb]; [reflexivity|].
    cbn [map dlookup fst snd Spec.lookup]. destruct (cmp k' k) eqn:Ec; try exact IHb. apply cmp_eq in Ec. subst. reflexivity.
  - induction b as [|[kn vn] b IHb]; intros Sa Sb.
    + rewrite sdiff_nil_r. clear IHa Sa. generalize ((ko, vo) :: a). intros c. unfold expect. cbn [Spec.lookup]. induction c as [|[k' v] c IHc]; [reflexivity|].
      cbn [map dlookup fst snd Spec.lookup]. destruct (cmp k' k) eqn:Ec; try exact IHc. apply cmp_eq in Ec. subst. reflexivity.
    + rewrite sdiff_cons. destruct (sorted_inv _ _ _ Sa) as [Sa' Ga]. destruct (sorted_inv _ _ _ Sb) as [Sb' Gb].
      destruct (cmp ko kn) eqn:Ec.
      * apply cmp_eq in Ec. subst kn. unfold expect. cbn [Spec.lookup]. destruct (cmp ko k) eqn:Ek.
        -- apply cmp_eq in Ek. subst k. destruct (veq vo vn); [|cbn [app dlookup]; rewrite crefl; reflexivity].
           cbn [app]. rewrite (IHa b Sa' Sb'). apply expect_gt; assumption.
        -- destruct (veq vo vn); cbn [app dlookup]; rewrite ?Ek; exact (IHa b Sa' Sb').
        -- destruct (veq vo vn); cbn [app dlookup]; rewrite ?Ek; exact (IHa b Sa' Sb').
      * cbn [dlookup]. unfold expect. cbn [Spec.lookup]. destruct (cmp ko k) eqn:Ek.
        -- apply cmp_eq in Ek. subst k. rewrite (cmp_antisym ko kn), Ec. cbn [CompOpp]. rewrite (lookup_gt K V cmp cmp_antisym b ko (all_gt_trans _ _ _ Ec Gb)). reflexivity.
        -- exact (IHa _ Sa' Sb).
        -- exact (IHa _ Sa' Sb).
      * cbn [dlookup]. assert (Ec' : slt kn ko) by (unfold Spec.slt; rewrite cmp_antisym, Ec; reflexivity).
        unfold expect. cbn [Spec.lookup]. destruct (cmp kn k) eqn:Ek.
        -- apply cmp_eq in Ek. subst k. rewrite Ec. rewrite (lookup_gt K V cmp cmp_antisym a kn (all_gt_trans _ _ _ Ec' Ga)). reflexivity.
        -- exact (IHb Sa Sb').
        -- exact (IHb Sa Sb').
Qed.

End SDIFF.

(** * the entry diff of two reachable trees *)
Section DIFFCANON.
Variables K V : Type.
Variable cmp : K -> K -> comparison.
Variable veq : V -> V -> bool.
Variable layer : K -> nat.
Hypothesis cmp_eq : forall a b, cmp a b = Eq <-> a = b.
Hypothesis veq_refl : forall v, veq v v = true.
Variable P : name -> node K V -> Prop.
Hypothesis hered : forall h c, P h c -> allh K V P c.
Hypothesis Pfun : forall h a b, P h a -> P h b -> a = b.

Lemma canon_root_fits bf (m : mast K V) l : canon K V cmp layer bf m l ->
  fitsl_of K V (fits K V (S (m_height _ _ m))) (m_root _ _ m) /\ to_list _ _ (m_root _ _ m) = l.
Proof.
  intros C. destruct (cn_root _ _ _ _ _ _ _ C) as (n & Hn & He).
  destruct (m_root _ _ m) as [|c|h c|h] eqn:Er; cbn [root_n] in Hn; try discriminate.
  - split; [exact I|]. symmetry. apply (root_nil_list _ _ _ _ _ _ _ C Er).
  - inversion Hn; subst n. split; [exact (fits_bnode _ _ _ _ _ _ He)|exact (canon_list _ _ _ _ _ _ He)].
  - inversion Hn; subst n. split; [exact (fits_bnode _ _ _ _ _ _ He)|exact (canon_list _ _ _ _ _ _ He)].
Qed.

Theorem diff_canon bf (mo mn : mast K V) lo ln :
  canon K V cmp layer bf mo lo -> canon K V cmp layer bf mn ln ->
  allh_l K V P (m_root _ _ mo) -> allh_l K V P (m_root _ _ mn) ->
  oks (diff _ _ cmp veq layer (Some mo) mn) (fun r => filter (is_entry K V) r = sdiff K V cmp veq lo ln).
Proof.
  intros Co Cn Ho Hn. destruct (canon_root_fits _ _ _ Co) as [Fo Lo]. destruct (canon_root_fits _ _ _ Cn) as [Fn Ln].
  assert (crefl : forall k, cmp k k = Eq) by (intros k; apply cmp_eq; reflexivity).
  pose proof (diff_entries K V cmp veq layer crefl veq_refl P hered Pfun (Some mo) mn Hn Fn) as H.
  cbn [olist] in H. rewrite Lo, Ln in H. apply H. intros t E. inversion E; subst t. split; assumption.
Qed.

Theorem diff_canon_nil bf (mn : mast K V) ln :
  canon K V cmp layer bf mn ln -> allh_l K V P (m_root _ _ mn) ->
  oks (diff _ _ cmp veq layer None mn) (fun r => filter (is_entry K V) r = sdiff K V cmp veq [] ln).
Proof.
  intros Cn Hn. destruct (canon_root_fits _ _ _ Cn) as [Fn Ln].
  assert (crefl : forall k, cmp k k = Eq) by (intros k; apply cmp_eq; reflexivity).
  pose proof (diff_entries K V cmp veq layer crefl veq_refl P hered Pfun None mn Hn Fn) as H.
  cbn [olist] in H. rewrite Ln in H. apply H. intros t E. discriminate E.
Qed.
End DIFFCANON.
