(** C11 over one store AND one node cache: the owners' interleaved operations all go through one
    world-wide cache that follows the fill-on-load / fill-on-commit / evict-at-will discipline of
    CacheHist.v, starting empty.  Each owner still observes, in ANY interleaving and under ANY
    eviction schedule, exactly what its own history observes run alone without any cache.
    Lemma file. *)
From Coq Require Import List NArith ZArith Lia Bool Sorted.
From Mast Require Import Prim Key Tree KeyOrder Codec Store Diff World Erase Build Spec Canon Links Level Inv Persist Hist Reload WorldInv Cache CacheHist ConcHist.
Import ListNotations.

Section SHARED.
Variable a : nat.

Fixpoint observed_d (ev : nat -> name -> bool) (i : nat) (wc : wcache) (w : world) (l : list tagged) : list aobs2 :=
  match l with
  | [] => []
  | (j, o) :: r =>
      let '(w', ob, _) := step_c wc w o in
      let rest := observed_d ev (S i) (wevict (fill w' o wc) (ev i)) w' r in
      if Nat.eqb j a then pobs ob :: rest else rest
  end.

Lemma observed_d_cacheless : forall l ev i wc w x,
  winv2 w x -> conds w x (map snd l) -> wcoherent wc w -> observed_d ev i wc w l = observed_p a w l.
Proof.
  induction l as [ | [j o] r IH]; intros ev i wc w x Hinv Hc Hk; [reflexivity | ].
  cbn [map snd conds] in Hc. destruct Hc as (Hs & Hn & Hr).
  cbn [observed_d observed_p]. rewrite (step_c_transparent wc w x o Hinv Hs Hk).
  pose proof (step_refines2 w x o Hinv Hs Hn) as Hst.
  assert (Hno : match o with OCorrupt _ _ _ _ => False | _ => True end) by (destruct o; try exact I; cbn [sup] in Hs; contradiction).
  pose proof (step_keeps_coherence wc w o Hno Hk) as Hk'.
  destruct (step w o) as [[w' ob] tr]. destruct (astep2 x o) as [x' aob]. destruct Hst as [Hinv' _]. cbn [fst] in *.
  rewrite (IH ev (S i) (wevict (fill w' o wc) (ev i)) w' x' Hinv' Hr
             (wcoherent_wevict _ _ _ (fill_coherent w' x' o wc Hinv' Hk'))).
  reflexivity.
Qed.
End SHARED.

Theorem alone_over_a_shared_cache (owner_ids : nat -> ids) (a : nat) :
  (forall j i, j <> a -> owner_ids j i = true -> owner_ids a i = false) ->
  forall l ev, all_own owner_ids l = true ->
  conds empty_world ([], []) (map snd l) -> conds empty_world ([], []) (mine a l) ->
  observed_d a ev 0 (fun _ _ _ => cempty) empty_world l = map (fun y => pobs (fst y)) (run empty_world (mine a l)).
Proof.
  intros D l ev Hok C1 C2.
  rewrite (observed_d_cacheless a l ev 0 _ empty_world ([], []) winv2_empty C1 (fun s f kind => coherent_empty f kind _)).
  exact (alone_with_persist_and_reload owner_ids a D l Hok C1 C2).
Qed.
