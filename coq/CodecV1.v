(** C05, the v1marshaler node format: the JSON node text decodes back to the element texts it was
    built from.  Elements are JSON value texts as encoding/json emits them (no insignificant white
    space): [elem_ok] says a text is non-empty, closes every bracket and string it opens, never
    closes more, and has no comma outside brackets and strings - decidable.  Lemma file. *)
From Coq Require Import List NArith Lia Bool Arith.
From Mast Require Import Prim Key KeyOrder Codec CodecRT.
Import ListNotations.
Local Open Scope N_scope.

(** the scanner of [json_elems] without its top-level actions *)
Fixpoint scan (bs : bytes) (d : nat) (instr esc : bool) : option (nat * bool * bool) :=
  match bs with
  | [] => Some (d, instr, esc)
  | b :: r =>
    if instr then
      if esc then scan r d true false
      else if b =? 92 then scan r d true true
      else if b =? 34 then scan r d false false
      else scan r d true false
    else if b =? 34 then scan r d true false
    else if (b =? 91) || (b =? 123) then scan r (S d) false false
    else if (b =? 93) || (b =? 125) then match d with O => None | S d' => scan r d' false false end
    else if (b =? 44) && (Nat.eqb d 0) then None
    else scan r d false false
  end.

Definition elem_ok (e : bytes) : bool :=
  match e with
  | [] => false
  | _ => match scan e 0 false false with Some (O, false, false) => true | _ => false end
  end.

Lemma json_elems_scan : forall e d i x d' i' x' r cur acc,
  scan e d i x = Some (d', i', x') ->
  json_elems (e ++ r) d i x cur acc = json_elems r d' i' x' (rev e ++ cur) acc.
Proof.
  induction e as [|b e IH]; intros d i x d' i' x' r cur acc H.
  - cbn in H. inversion H; subst. reflexivity.
  - cbn [scan] in H. cbn [app json_elems rev]. rewrite <- app_assoc. cbn [app].
    destruct i.
    + destruct x; [exact (IH _ _ _ _ _ _ r (b :: cur) acc H)|].
      destruct (b =? 92); [exact (IH _ _ _ _ _ _ r (b :: cur) acc H)|].
      destruct (b =? 34); exact (IH _ _ _ _ _ _ r (b :: cur) acc H).
    + destruct (b =? 34); [exact (IH _ _ _ _ _ _ r (b :: cur) acc H)|].
      destruct ((b =? 91) || (b =? 123)); [exact (IH _ _ _ _ _ _ r (b :: cur) acc H)|].
      destruct ((b =? 93) || (b =? 125)).
      * destruct d as [|d0]; [discriminate|]. exact (IH _ _ _ _ _ _ r (b :: cur) acc H).
      * destruct ((b =? 44) && Nat.eqb d 0); [discriminate|]. exact (IH _ _ _ _ _ _ r (b :: cur) acc H).
Qed.

Lemma elem_ok_scan e : elem_ok e = true -> e <> [] /\ scan e 0 false false = Some (O, false, false).
Proof.
  unfold elem_ok. destruct e as [|b e]; [discriminate|]. intros H. split; [discriminate|].
  destruct (scan (b :: e) 0 false false) as [[[[|d] [|]] [|]]|]; try discriminate. reflexivity.
Qed.

Lemma json_elems_comma bs cur acc : json_elems (44 :: bs) 0 false false cur acc = json_elems bs 0 false false [] (rev cur :: acc).
Proof. reflexivity. Qed.
Lemma json_elems_close r cur acc :
  json_elems (93 :: r) 0 false false cur acc = Some (rev (match cur, acc with [], [] => [] | _, _ => rev cur :: acc end), r).
Proof. reflexivity. Qed.

(** the elements of an array text: "e1,e2,...,en]" followed by anything *)
Lemma json_elems_join : forall (elems : list bytes) (r : bytes) (acc : list bytes),
  Forall (fun e => elem_ok e = true) elems -> elems <> [] ->
  json_elems (join [44] elems ++ 93 :: r) 0 false false [] acc = Some (rev acc ++ elems, r).
Proof.
  induction elems as [|e es IH]; intros r acc Hok Hne; [congruence|].
  inversion Hok as [|? ? He Hes]; subst. destruct (elem_ok_scan e He) as [Hn Hs].
  destruct es as [|e2 es'].
  - cbn [join]. rewrite (json_elems_scan e _ _ _ _ _ _ (93 :: r) [] acc Hs). rewrite app_nil_r.
    rewrite json_elems_close.
    destruct (rev e) as [|x y] eqn:Er.
    + exfalso. apply Hn. apply (f_equal (@rev N)) in Er. rewrite rev_involutive in Er. exact Er.
    + rewrite <- Er, rev_involutive. cbn [rev]. reflexivity.
  - change (join [44] (e :: e2 :: es')) with (e ++ [44] ++ join [44] (e2 :: es')).
    rewrite <- !app_assoc. rewrite (json_elems_scan e _ _ _ _ _ _ _ [] acc Hs). rewrite app_nil_r.
    change ([44] ++ join [44] (e2 :: es') ++ 93 :: r) with (44 :: (join [44] (e2 :: es') ++ 93 :: r)).
    rewrite json_elems_comma, rev_involutive.
    etransitivity; [exact (IH r (e :: acc) Hes ltac:(discriminate))|]. cbn [rev]. rewrite <- app_assoc. reflexivity.
Qed.

Lemma json_elems_all (elems : list bytes) (r : bytes) :
  Forall (fun e => elem_ok e = true) elems ->
  json_elems (join [44] elems ++ 93 :: r) 0 false false [] [] = Some (elems, r).
Proof.
  intros H. destruct elems as [|e es]; [reflexivity|]. apply (json_elems_join (e :: es) r [] H). discriminate.
Qed.

Lemma strip_prefix_app p r : strip_prefix p (p ++ r) = Some r.
Proof.
  unfold strip_prefix. rewrite firstn_app, Nat.sub_diag, firstn_all. cbn [firstn]. rewrite app_nil_r.
  rewrite (proj2 (bytes_eqb_eq p p) eq_refl). rewrite skipn_app, Nat.sub_diag, skipn_all. reflexivity.
Qed.

(** names (and quoted strings in general) *)
Definition plain (h : bytes) : bool := forallb (fun b => negb (b =? 34) && negb (b =? 92)) h.

Lemma scan_plain : forall h r, plain h = true -> scan (h ++ r) 0 true false = scan r 0 true false.
Proof.
  induction h as [|b h IH]; intros r H; [reflexivity|]. cbn [plain forallb] in H. apply andb_true_iff in H. destruct H as [Hb Hh].
  apply andb_true_iff in Hb. destruct Hb as [H1 H2]. apply negb_true_iff in H1, H2.
  cbn [app scan]. rewrite H1, H2. apply IH. exact Hh.
Qed.

Lemma quote_elem_ok h : plain h = true -> elem_ok (quote h) = true.
Proof.
  intros H. unfold elem_ok, quote. cbn [scan]. cbn. rewrite (scan_plain h [34] H). reflexivity.
Qed.

Lemma unquote_quote h : unquote (quote h) = Some h.
Proof. unfold unquote, quote. rewrite rev_app_distr. cbn [rev app]. rewrite rev_involutive. reflexivity. Qed.

Definition link_text (l : option name) : bytes := match l with None => s_null | Some h => quote h end.
Definition v1_links_ok (links : list (option name)) : Prop :=
  Forall (fun l => match l with Some h => h <> [] /\ plain h = true | None => True end) links.

Lemma link_text_ok links : v1_links_ok links -> Forall (fun e => elem_ok e = true) (map link_text links).
Proof.
  induction 1 as [|l r Hl _ IH]; [constructor|]. cbn [map]. constructor; [|exact IH].
  destruct l as [h|]; [apply quote_elem_ok; exact (proj2 Hl)|reflexivity].
Qed.

Lemma link_text_back links : v1_links_ok links ->
  map (fun b => if bytes_eqb b s_null then None
                else match unquote b with Some [] => None | Some h => Some h | None => None end) (map link_text links) = links.
Proof.
  induction 1 as [|l r Hl _ IH]; [reflexivity|]. cbn [map]. rewrite IH. f_equal.
  destruct l as [h|]; [|reflexivity]. cbn [link_text]. destruct Hl as [Hne _].
  assert (E : bytes_eqb (quote h) s_null = false).
  { destruct (bytes_eqb (quote h) s_null) eqn:E; [|reflexivity]. apply bytes_eqb_eq in E. discriminate E. }
  rewrite E, unquote_quote. destruct h; [congruence|reflexivity].
Qed.

(** the v1marshaler node text round-trips *)
Theorem decode_encode_v1 keys vals links :
  length vals = length keys -> length links = S (length keys) -> v1_links_ok links ->
  Forall (fun e => elem_ok e = true) keys -> Forall (fun e => elem_ok e = true) vals ->
  decode_v1 (encode_v1 keys vals links) = Some (keys, vals, links).
Proof.
  intros Hv Hl Hlk Hk Hvs. unfold decode_v1, encode_v1.
  rewrite strip_prefix_app.
  change s_value with (93 :: tl s_value). cbn [app].
  rewrite json_elems_all by exact Hk.
  rewrite strip_prefix_app.
  destruct (all_none links) eqn:Ea.
  - change ([93; 125]) with (93 :: [125]).
    rewrite json_elems_all by exact Hvs.
    change (bytes_eqb [125] [125]) with true. cbv iota. rewrite Hv, Nat.eqb_refl.
    rewrite (all_none_repeat links Ea), Hl. reflexivity.
  - change s_link with (93 :: tl s_link). cbn [app].
    rewrite json_elems_all by exact Hvs.
    assert (Hne : bytes_eqb (tl s_link ++ join [44] (map (fun l => match l with None => s_null | Some h => quote h end) links) ++ [93; 125]) [125] = false) by reflexivity.
    rewrite Hne. rewrite strip_prefix_app.
    change ([93; 125]) with (93 :: [125]).
    change (map (fun l => match l with None => s_null | Some h => quote h end) links) with (map link_text links).
    rewrite json_elems_all by (apply link_text_ok; exact Hlk).
    change (bytes_eqb [125] [125]) with true. rewrite Hv, Nat.eqb_refl, map_length, Hl, Nat.leb_refl. cbn [andb].
    rewrite (link_text_back links Hlk). rewrite firstn_app, <- Hl, Nat.sub_diag, firstn_all. cbn [firstn]. rewrite app_nil_r. reflexivity.
Qed.

(** node names are base64url text: nothing in them needs escaping *)
Lemma b64url_c_plain i : negb (b64url_c i =? 34) && negb (b64url_c i =? 92) = true.
Proof.
  unfold b64url_c.
  destruct (i <? 26) eqn:E1; [apply N.ltb_lt in E1|]; [apply andb_true_iff; split; apply negb_true_iff, N.eqb_neq; lia|].
  destruct (i <? 52) eqn:E2; [apply N.ltb_lt in E2|]; [apply andb_true_iff; split; apply negb_true_iff, N.eqb_neq; lia|].
  destruct (i <? 62) eqn:E3; [apply N.ltb_lt in E3; apply N.ltb_ge in E2|]; [apply andb_true_iff; split; apply negb_true_iff, N.eqb_neq; lia|].
  destruct (i =? 62); reflexivity.
Qed.

Lemma b64url_plain_n : forall n bs, (length bs <= n)%nat -> plain (b64 b64url_c None bs) = true.
Proof.
  induction n as [|n IH]; intros bs H.
  - destruct bs; [reflexivity|cbn in H; lia].
  - destruct bs as [|a [|b [|d r]]]; [reflexivity|..]; cbn [b64 app plain forallb]; rewrite ?b64url_c_plain; cbn [andb]; try reflexivity.
    apply (IH r). cbn [length] in H. lia.
Qed.
Lemma name_plain b : plain (name_of b) = true.
Proof. unfold name_of, b64url. apply (b64url_plain_n _ _ (Nat.le_refl _)). Qed.

(** * the JSON texts of keys are elements *)
Lemma scan_app : forall a b d i x,
  scan (a ++ b) d i x = match scan a d i x with Some (d', i', x') => scan b d' i' x' | None => None end.
Proof.
  induction a as [|c a IH]; intros b d i x; [reflexivity|]. cbn [app scan].
  destruct i.
  - destruct x; [apply IH|]. destruct (c =? 92); [apply IH|]. destruct (c =? 34); apply IH.
  - destruct (c =? 34); [apply IH|]. destruct ((c =? 91) || (c =? 123)); [apply IH|].
    destruct ((c =? 93) || (c =? 125)); [destruct d; [reflexivity|apply IH]|].
    destruct ((c =? 44) && Nat.eqb d 0); [reflexivity|apply IH].
Qed.

Definition digitb (b : N) : bool := ((48 <=? b) && (b <=? 57)) || (b =? 45).
Lemma scan_digits : forall bs d, forallb digitb bs = true -> scan bs d false false = Some (d, false, false).
Proof.
  induction bs as [|b bs IH]; intros d H; [reflexivity|]. cbn [forallb] in H. apply andb_true_iff in H. destruct H as [Hb Hr].
  cbn [scan].
  assert (E : (b =? 34) = false /\ (b =? 91) = false /\ (b =? 123) = false /\ (b =? 93) = false /\ (b =? 125) = false /\ (b =? 44) = false).
  { unfold digitb in Hb. apply orb_true_iff in Hb. repeat split; apply N.eqb_neq; intros ->; destruct Hb as [Hb|Hb]; cbn in Hb; discriminate. }
  destruct E as (E1 & E2 & E3 & E4 & E5 & E6). rewrite E1, E2, E3, E4, E5, E6. cbn [orb andb]. apply IH. exact Hr.
Qed.

Lemma dec_fuel_digits : forall f n acc, forallb digitb acc = true -> forallb digitb (dec_fuel f n acc) = true.
Proof.
  induction f as [|f IH]; intros n acc H; [exact H|]. cbn [dec_fuel].
  assert (Hd : forallb digitb ((48 + n mod 10) :: acc) = true).
  { cbn [forallb]. rewrite H, andb_true_r. unfold digitb. apply orb_true_iff. left.
    pose proof (N.mod_upper_bound n 10 ltac:(discriminate)) as Hm. remember (n mod 10) as r eqn:Er. clear Er. apply andb_true_iff. split; apply N.leb_le; lia. }
  destruct (n <? 10); [exact Hd|]. apply IH. exact Hd.
Qed.
Lemma dec_fuel_nonempty f n acc : dec_fuel (S f) n acc <> [].
Proof.
  cbn [dec_fuel]. destruct (n <? 10); [discriminate|].
  assert (H : forall f n acc, acc <> [] -> dec_fuel f n acc <> []).
  { clear. induction f as [|f IH]; intros n acc Ha; [exact Ha|]. cbn [dec_fuel]. destruct (n <? 10); [discriminate|]. apply IH. discriminate. }
  apply H. discriminate.
Qed.
Lemma dec_N_digits n : forallb digitb (dec_N n) = true.
Proof. apply dec_fuel_digits. reflexivity. Qed.
Lemma dec_N_nonempty n : dec_N n <> [].
Proof. apply dec_fuel_nonempty. Qed.
Lemma dec_Z_digits z : forallb digitb (dec_Z z) = true.
Proof. destruct z; [reflexivity|apply dec_N_digits|]. cbn [dec_Z forallb]. rewrite dec_N_digits. reflexivity. Qed.
Lemma dec_Z_nonempty z : dec_Z z <> [].
Proof. destruct z; [discriminate|apply dec_N_nonempty|discriminate]. Qed.

Lemma digits_elem_ok bs : bs <> [] -> forallb digitb bs = true -> elem_ok bs = true.
Proof. intros Hn H. unfold elem_ok. destruct bs; [congruence|]. rewrite (scan_digits _ 0 H). reflexivity. Qed.

Lemma b64std_c_plain i : negb (b64std_c i =? 34) && negb (b64std_c i =? 92) = true.
Proof.
  unfold b64std_c.
  destruct (i <? 26) eqn:E1; [apply N.ltb_lt in E1|]; [apply andb_true_iff; split; apply negb_true_iff, N.eqb_neq; lia|].
  destruct (i <? 52) eqn:E2; [apply N.ltb_lt in E2|]; [apply andb_true_iff; split; apply negb_true_iff, N.eqb_neq; lia|].
  destruct (i <? 62) eqn:E3; [apply N.ltb_lt in E3; apply N.ltb_ge in E2|]; [apply andb_true_iff; split; apply negb_true_iff, N.eqb_neq; lia|].
  destruct (i =? 62); reflexivity.
Qed.
Lemma b64std_plain_n : forall n bs, (length bs <= n)%nat -> plain (b64 b64std_c (Some 61) bs) = true.
Proof.
  induction n as [|n IH]; intros bs H.
  - destruct bs; [reflexivity|cbn in H; lia].
  - destruct bs as [|a [|b [|d r]]]; [reflexivity|..]; cbn [b64 app plain forallb]; rewrite ?b64std_c_plain; cbn [andb]; try reflexivity.
    apply (IH r). cbn [length] in H. lia.
Qed.

Lemma user_json_scan z l : scan (user_json z l) 0 false false = Some (O, false, false).
Proof.
  unfold user_json. rewrite scan_app.
  change (scan [123; 34; 75; 34; 58] 0 false false) with (Some (1%nat, false, false)). cbv iota beta.
  rewrite scan_app, (scan_digits _ 1 (dec_Z_digits z)). cbv iota beta.
  rewrite scan_app.
  change (scan [44; 34; 76; 34; 58] 1 false false) with (Some (1%nat, false, false)). cbv iota beta.
  rewrite scan_app, (scan_digits _ 1 (dec_N_digits _)). reflexivity.
Qed.

(** keys whose JSON text the v1 format carries: any integer, byte slice and mast.Key of the
    harness's shape; strings without quote or backslash (the harness generates only strings that
    encoding/json does not escape); any other type if its marshaled text is an element *)
Definition key_v1_ok (k : key) : Prop :=
  match k with KStr s => plain s = true | KBlob b => elem_ok b = true | _ => True end.

Lemma kmarshal_elem_ok k : key_v1_ok k -> elem_ok (kmarshal k) = true.
Proof.
  destruct k as [z|n|s|b|b|z l]; cbn [key_v1_ok kmarshal]; intros H.
  - apply digits_elem_ok; [apply dec_Z_nonempty|apply dec_Z_digits].
  - apply digits_elem_ok; [apply dec_N_nonempty|apply dec_N_digits].
  - apply quote_elem_ok. exact H.
  - apply quote_elem_ok. unfold b64std. apply (b64std_plain_n _ _ (Nat.le_refl _)).
  - exact H.
  - unfold elem_ok. rewrite user_json_scan. unfold user_json. reflexivity.
Qed.
