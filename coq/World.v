(** Histories: a world of trees, captured roots, stores and cursors, and the operations of the
    public API as one [step] function.  The correspondence check runs exactly this function
    (extracted) against the Go implementation; the history theorems are stated over it.  Model file. *)
From Coq Require Import List NArith ZArith Lia Bool.
From Mast Require Import Prim Key Tree Codec Store Diff.
Import ListNotations.

Record tcfg := TCfg { c_fmt : nfmt; c_kind : N; c_store : N }.
Record tree := Tree { t_cfg : tcfg; t_m : kmast }.
Record cur := Cur { cu_m : kmast; cu_p : cpath key val }.

Record world := World {
  w_trees : list (N * tree);
  w_roots : list (N * root);
  w_stores : list (N * store);
  w_curs : list (N * cur) }.
Definition empty_world : world := World [] [] [] [].

Fixpoint aget {A} (l : list (N * A)) (i : N) : option A :=
  match l with [] => None | (j, a) :: r => if N.eqb i j then Some a else aget r i end.
Definition aset {A} (l : list (N * A)) (i : N) (a : A) : list (N * A) :=
  (i, a) :: filter (fun p => negb (N.eqb (fst p) i)) l.

Definition get_store (w : world) (s : N) : store := match aget (w_stores w) s with Some x => x | None => [] end.
Definition set_tree (w : world) (i : N) (t : tree) : world :=
  World (aset (w_trees w) i t) (w_roots w) (w_stores w) (w_curs w).
Definition set_rootrec (w : world) (i : N) (r : root) : world :=
  World (w_trees w) (aset (w_roots w) i r) (w_stores w) (w_curs w).
Definition set_store (w : world) (i : N) (s : store) : world :=
  World (w_trees w) (w_roots w) (aset (w_stores w) i s) (w_curs w).
Definition set_cur (w : world) (i : N) (c : cur) : world :=
  World (w_trees w) (w_roots w) (w_stores w) (aset (w_curs w) i c).

Inductive op :=
| ONew (t s bf : N) (f : option nfmt) (kind : N)   (* NewRoot(bf, f).LoadMast(store s, KeysLike kind) *)
| OIns (t : N) (k : key) (v : val)
| ODel (t : N) (k : key) (v : val)
| OGet (t : N) (k : key)
| OSize (t : N)
| OHeight (t : N)
| OIter (t : N)
| OSeek (t : N) (k : key)
| OClone (t t2 : N)
| ODirty (t : N)
| OMakeRoot (t r : N)
| OLoad (r t s : N) (kind : N)
| ORootSet (r2 r : N) (size : option N) (height : option nat) (bf : option N) (f : option bytes) (droplink : bool)
| OCorrupt (s r : N) (off : N) (nb : option N)
| OCursor (t c : N)
| OCMin (c : N) | OCMax (c : N) | OCCeil (c : N) (k : key) | OCFwd (c : N) | OCBwd (c : N) | OCGet (c : N)
| ODiff (tn : N) (told : option N)
| ODiffLinks (tn : N) (told : option N)
| ODiffStop (tn : N) (told : option N) (n : nat)   (* the entry callback answers keepGoing=false at its n-th call (0-based) *)
| ODiffFail (tn : N) (told : option N) (n : nat)   (* the entry callback fails at its n-th call *)
| ODiffCur (tn : N) (told : option N)              (* StartDiff / NextEntry until ErrNoMoreDiffs *)
| OIterStop (t : N) (n : nat)                      (* the callback returns ErrIterDone at its n-th call *)
| OSeekStop (t : N) (k : key) (n : nat).

(* a diff event as observed through the callbacks: links by name *)
Inductive dobs :=
| DoEntry (added removed : bool) (k : key) (av rv : option val)
| DoLink (removed : bool) (h : option name).   (* None: the callback got an in-memory node *)

Inductive obs :=
| ObFail (c : N)                 (* 1 error, 2 panic, 3 out of fuel, 9 malformed history *)
| ObOk
| ObVal (v : option val)
| ObNum (n : N)
| ObBool (b : bool)
| ObList (l : list (key * val))
| ObRoot (r : root)
| ObEntry (e : option (key * val))
| ObDiff (l : list dobs).

Definition layer_of (m : kmast) := klayer (m_bf _ _ m).
Definition hfuel (m : kmast) : nat := S (m_height _ _ m).

Definition fail_obs {A} (r : res A) : obs :=
  match r with Ok _ => ObOk | Err => ObFail 1 | ErrPanic => ObFail 2 | ErrFuel => ObFail 3 end.

Definition dobs_of (e : devent key val) : list dobs :=
  match e with
  | DEntry _ _ a r k av rv => [DoEntry a r k av rv]
  | DLinks _ _ r a =>
      (match r with Some l => [DoLink true (link_name l)] | None => [] end) ++
      (match a with Some l => [DoLink false (link_name l)] | None => [] end)
  | _ => []
  end.

Definition entries_only (l : list dobs) := filter (fun d => match d with DoEntry _ _ _ _ _ => true | _ => false end) l.
Definition links_only (l : list dobs) := filter (fun d => match d with DoLink _ _ => true | _ => false end) l.

Definition replace_at (bs : bytes) (off : N) (nb : option N) : bytes :=
  match nb with
  | None => firstn (N.to_nat off) bs
  | Some b => firstn (N.to_nat off) bs ++ b :: skipn (S (N.to_nat off)) bs
  end.

Definition with_tree (w : world) (t : N) (f : tree -> world * obs * list event) : world * obs * list event :=
  match aget (w_trees w) t with Some x => f x | None => (w, ObFail 9, []) end.
Definition with_cur (w : world) (c : N) (f : cur -> world * obs * list event) : world * obs * list event :=
  match aget (w_curs w) c with Some x => f x | None => (w, ObFail 9, []) end.

(* a read-only call *)
Definition ro {A} (w : world) (m : M A) (f : A -> obs) : world * obs * list event :=
  match m with (t, Ok a) => (w, f a, t) | (t, r) => (w, fail_obs r, t) end.
(* a call that replaces tree [i]'s state on success and leaves the world alone otherwise *)
Definition upd (w : world) (i : N) (x : tree) (m : M kmast) : world * obs * list event :=
  match m with
  | (t, Ok m') => (set_tree w i (Tree (t_cfg x) m'), ObOk, t)
  | (t, r) => (w, fail_obs r, t)
  end.
Definition updc (w : world) (i : N) (c : cur) (m : M (cpath key val)) : world * obs * list event :=
  match m with
  | (t, Ok p) => (set_cur w i (Cur (cu_m c) p), ObOk, t)
  | (t, r) => (w, fail_obs r, t)
  end.

Definition step (w : world) (o : op) : world * obs * list event :=
  match o with
  | ONew t s bf f kind =>
      match load_mast (get_store w s) kind (new_root bf f) with
      | (tr, Ok (fm, m)) => (set_tree w t (Tree (TCfg fm kind s) m), ObOk, tr)
      | (tr, r) => (w, fail_obs r, tr)
      end
  | OIns t k v => with_tree w t (fun x => upd w t x (insert _ _ kcmp bytes_eqb (layer_of (t_m x)) (t_m x) k v))
  | ODel t k v => with_tree w t (fun x => upd w t x (delete _ _ kcmp bytes_eqb (layer_of (t_m x)) (t_m x) k v))
  | OGet t k => with_tree w t (fun x => ro w (get _ _ kcmp (layer_of (t_m x)) (t_m x) k) ObVal)
  | OSize t => with_tree w t (fun x => (w, ObNum (m_size _ _ (t_m x)), []))
  | OHeight t => with_tree w t (fun x => (w, ObNum (N.of_nat (m_height _ _ (t_m x))), []))
  | OIter t => with_tree w t (fun x => ro w (iter _ _ (t_m x)) ObList)
  | OSeek t k => with_tree w t (fun x => ro w (seek_iter _ _ kcmp (t_m x) k) ObList)
  | OClone t t2 => with_tree w t (fun x =>
      match clone _ _ (t_m x) with
      | (tr, Ok m') => (set_tree w t2 (Tree (t_cfg x) m'), ObOk, tr)
      | (tr, r) => (w, fail_obs r, tr)
      end)
  | ODirty t => with_tree w t (fun x => (w, ObBool (is_dirty _ _ (t_m x)), []))
  | OMakeRoot t r => with_tree w t (fun x =>
      match make_root (c_fmt (t_cfg x)) (t_m x) with
      | (tr, Ok (rt, m')) =>
          let s := c_store (t_cfg x) in
          let w1 := set_store w s (apply_stores (get_store w s) tr) in
          (set_rootrec (set_tree w1 t (Tree (t_cfg x) m')) r rt, ObRoot rt, tr)
      | (tr, rr) => (w, fail_obs rr, tr)
      end)
  | OLoad r t s kind =>
      match aget (w_roots w) r with
      | Some rt =>
          (* the Root reaches LoadMast through its JSON text *)
          match load_mast (get_store w s) kind (root_via_json rt) with
          | (tr, Ok (fm, m)) => (set_tree w t (Tree (TCfg fm kind s) m), ObOk, tr)
          | (tr, rr) => (w, fail_obs rr, tr)
          end
      | None => (w, ObFail 9, [])
      end
  | ORootSet r2 r size height bf f droplink =>
      match aget (w_roots w) r with
      | Some rt =>
          let rt' := Root (if droplink then None else r_link rt)
                          (match size with Some x => x | None => r_size rt end)
                          (match height with Some x => x | None => r_height rt end)
                          (match bf with Some x => x | None => r_bf rt end)
                          (match f with Some x => x | None => r_fmt rt end) in
          (set_rootrec w r2 rt', ObRoot rt', [])
      | None => (w, ObFail 9, [])
      end
  | OCorrupt s r off nb =>
      match aget (w_roots w) r with
      | Some rt =>
          match r_link rt with
          | Some h =>
              match lookup (get_store w s) h with
              | Some b => (set_store w s ((h, replace_at b off nb) :: get_store w s), ObNum (len b), [])
              | None => (w, ObFail 9, [])
              end
          | None => (w, ObFail 9, [])
          end
      | None => (w, ObFail 9, [])
      end
  | OCursor t c => with_tree w t (fun x =>
      match clone _ _ (t_m x) with
      | (tr, Ok m') =>
          match cursor _ _ m' with
          | (tr2, Ok p) => (set_cur w c (Cur m' p), ObOk, tr ++ tr2)
          | (tr2, r) => (w, fail_obs r, tr ++ tr2)
          end
      | (tr, r) => (w, fail_obs r, tr)
      end)
  | OCMin c => with_cur w c (fun x => updc w c x (cur_min _ _ (hfuel (cu_m x)) (cu_p x)))
  | OCMax c => with_cur w c (fun x => updc w c x (cur_max _ _ (hfuel (cu_m x)) (cu_p x)))
  | OCCeil c k => with_cur w c (fun x => updc w c x (cur_ceil _ _ kcmp (hfuel (cu_m x)) k (cu_p x)))
  | OCFwd c => with_cur w c (fun x => updc w c x (cur_forward _ _ (hfuel (cu_m x)) (cu_p x)))
  | OCBwd c => with_cur w c (fun x => updc w c x (cur_backward _ _ (hfuel (cu_m x)) (cu_p x)))
  | OCGet c => with_cur w c (fun x => (w, ObEntry (cur_get _ _ (cu_p x)), []))
  | ODiff tn told => with_tree w tn (fun x =>
      let o := match told with Some i => option_map t_m (aget (w_trees w) i) | None => None end in
      ro w (diff _ _ kcmp bytes_eqb (layer_of (t_m x)) o (t_m x))
         (fun l => ObDiff (entries_only (flat_map dobs_of l))))
  | ODiffLinks tn told => with_tree w tn (fun x =>
      let o := match told with Some i => option_map t_m (aget (w_trees w) i) | None => None end in
      ro w (diff _ _ kcmp bytes_eqb (layer_of (t_m x)) o (t_m x))
         (fun l => ObDiff (links_only (flat_map dobs_of l))))
  | ODiffStop tn told n => with_tree w tn (fun x =>
      let o := match told with Some i => option_map t_m (aget (w_trees w) i) | None => None end in
      ro w (diff _ _ kcmp bytes_eqb (layer_of (t_m x)) o (t_m x))
         (fun l => ObDiff (firstn (S n) (entries_only (flat_map dobs_of l)))))
  | ODiffFail tn told n => with_tree w tn (fun x =>
      let o := match told with Some i => option_map t_m (aget (w_trees w) i) | None => None end in
      ro w (diff _ _ kcmp bytes_eqb (layer_of (t_m x)) o (t_m x))
         (fun l => let es := entries_only (flat_map dobs_of l) in
                   if Nat.ltb n (length es) then ObFail 1 else ObDiff es))
  | ODiffCur tn told => with_tree w tn (fun x =>
      let o := match told with Some i => option_map t_m (aget (w_trees w) i) | None => None end in
      ro w (diff _ _ kcmp bytes_eqb (layer_of (t_m x)) o (t_m x))
         (fun l => ObDiff (entries_only (flat_map dobs_of l))))
  | OIterStop t n => with_tree w t (fun x => ro w (iter _ _ (t_m x)) (fun l => ObList (firstn (S n) l)))
  | OSeekStop t k n => with_tree w t (fun x => ro w (seek_iter _ _ kcmp (t_m x) k) (fun l => ObList (firstn (S n) l)))
  end.

Fixpoint run (w : world) (ops : list op) : list (obs * list event) :=
  match ops with
  | [] => []
  | o :: r => let '(w', ob, tr) := step w o in (ob, tr) :: run w' r
  end.
